/-
  C16, token level (L1), part 1: decimal numbers and signed 32-bit literals.
  `strconv.ParseUint(s, 10, 32)` / `strconv.ParseInt(s, 10, 32)` of the model accept exactly the
  grammar of RV.Model.DictGrammar and return the positional value.
-/
import RV.Model.DictGrammar
import RV.Proofs.DictParser
namespace RV.DictParser
open RV RV.Dict RV.DictParser.Spec RV.DictParser.Grammar

theorem isDigit_iff (b : UInt8) : isDigit b = true ↔ 48 ≤ b ∧ b ≤ 57 := by
  simp [isDigit]

theorem all_isDigit_iff (s : Bytes) : s.all isDigit = true ↔ ∀ b ∈ s, 48 ≤ b ∧ b ≤ 57 := by
  simp [List.all_eq_true, isDigit_iff]

/-- Horner's rule computes the positional value -/
theorem foldl_dec (ds : Bytes) (acc : Nat) :
    ds.foldl (fun n b => n * 10 + digitVal b) acc = acc * 10 ^ ds.length + decValue ds := by
  induction ds generalizing acc with
  | nil => simp [decValue]
  | cons d ds ih =>
    simp only [List.foldl_cons, List.length_cons, decValue]
    rw [ih]
    simp only [digitVal, Nat.pow_succ, Nat.add_mul]
    rw [Nat.mul_assoc, Nat.mul_comm 10, Nat.add_assoc]

theorem decNat_iff (s : Bytes) (n : Nat) : decNat? s = some n ↔ Decimal s ∧ decValue s = n := by
  unfold decNat? Decimal
  by_cases he : s = []
  · subst he; simp
  · by_cases hd : s.all isDigit = true
    · have hd' := (all_isDigit_iff s).mp hd
      have hf := foldl_dec s 0
      simp only [Nat.zero_mul, Nat.zero_add] at hf
      simp [he, hd, hf]
      exact fun _ => hd'
    · have : ¬ ∀ b ∈ s, 48 ≤ b ∧ b ≤ 57 := fun h => hd ((all_isDigit_iff s).mpr h)
      simp [he, hd, this]

/-- L1: `strconv.ParseUint(s, 10, 32)` -/
theorem parseUint32Dec_iff (s : Bytes) (n : Nat) :
    parseUint32Dec s = some n ↔ Decimal s ∧ decValue s = n ∧ n < 2 ^ 32 := by
  unfold parseUint32Dec
  cases h : decNat? s with
  | none =>
    simp only [Option.bind_none, reduceCtorEq, false_iff]
    rintro ⟨hd, hv, _⟩
    have := (decNat_iff s n).mpr ⟨hd, hv⟩
    rw [h] at this; cases this
  | some m =>
    obtain ⟨hd, hv⟩ := (decNat_iff s m).mp h
    simp only [Option.bind_some]
    constructor
    · intro hm
      split at hm
      · cases hm; exact ⟨hd, hv, by assumption⟩
      · cases hm
    · rintro ⟨_, hv', hlt⟩
      have : m = n := by rw [← hv, hv']
      subst this
      simp [hlt]

theorem decimal_head {s : Bytes} (h : Decimal s) : ∃ c rest, s = c :: rest ∧ isDigit c = true := by
  obtain ⟨hne, hall⟩ := h
  cases s with
  | nil => exact absurd rfl hne
  | cons c rest => exact ⟨c, rest, rfl, (isDigit_iff c).mpr (hall c (by simp))⟩

/-- L1: `strconv.ParseInt(s, 10, 32)` accepts exactly the signed 32-bit decimal literals -/
theorem parseInt32_iff (s : Bytes) (n : Int) : parseInt32 s = some n ↔ Int32Lit s n := by
  constructor
  · intro h
    cases s with
    | nil => simp [parseInt32] at h
    | cons c rest =>
      simp only [parseInt32] at h
      by_cases h43 : (c == 43) = true
      · have hc : c = 43 := by simpa using h43
        simp only [h43, if_true] at h
        cases hd : decNat? rest with
        | none => simp [hd] at h
        | some m =>
          obtain ⟨hdec, hv⟩ := (decNat_iff rest m).mp hd
          simp only [hd, Option.bind_some] at h
          split at h
          · cases h
            refine ⟨rest, hdec, Or.inl ⟨Or.inr (by rw [hc]), by rw [hv]⟩, by omega, by omega⟩
          · cases h
      · by_cases h45 : (c == 45) = true
        · have hc : c = 45 := by simpa using h45
          simp only [h43, h45, if_true, Bool.false_eq_true, if_false] at h
          cases hd : decNat? rest with
          | none => simp [hd] at h
          | some m =>
            obtain ⟨hdec, hv⟩ := (decNat_iff rest m).mp hd
            simp only [hd, Option.bind_some] at h
            split at h
            · cases h
              refine ⟨rest, hdec, Or.inr ⟨by rw [hc], by rw [hv]⟩, by omega, by omega⟩
            · cases h
        · simp only [h43, h45, Bool.false_eq_true, if_false] at h
          cases hd : decNat? (c :: rest) with
          | none => simp [hd] at h
          | some m =>
            obtain ⟨hdec, hv⟩ := (decNat_iff (c :: rest) m).mp hd
            simp only [hd, Option.bind_some] at h
            split at h
            · cases h
              refine ⟨c :: rest, hdec, Or.inl ⟨Or.inl rfl, by rw [hv]⟩, by omega, by omega⟩
            · cases h
  · rintro ⟨digits, hdec, hshape, hlo, hhi⟩
    have hdn := (decNat_iff digits (decValue digits)).mpr ⟨hdec, rfl⟩
    rcases hshape with ⟨hs | hs, hn⟩ | ⟨hs, hn⟩
    · obtain ⟨c, rest, hcr, hdig⟩ := decimal_head hdec
      have hne := isDigit_ne hdig
      subst hs
      rw [hcr] at hdn ⊢
      simp only [parseInt32, hne.1, hne.2.1, Bool.false_eq_true, if_false, hdn, Option.bind_some]
      have : decValue (c :: rest) < 2 ^ 31 := by rw [← hcr]; omega
      simp [this, hn, hcr]
    · subst hs
      simp only [parseInt32, beq_self_eq_true, if_true, hdn, Option.bind_some]
      have : decValue digits < 2 ^ 31 := by omega
      simp [this, hn]
    · subst hs
      have h1 : ((45 : UInt8) == 43) = false := by decide
      simp only [parseInt32, h1, Bool.false_eq_true, if_false, beq_self_eq_true, if_true, hdn, Option.bind_some]
      have : decValue digits ≤ 2 ^ 31 := by omega
      simp [this, hn]

/-- the literals the specification's `showInt` writes are literals of the grammar -/
theorem int32Lit_showInt (i : Int) (h : int32OK i = true) : Int32Lit (showInt i) i :=
  (parseInt32_iff _ _).mp (parseInt32_showInt i h)

theorem int32Lit_ok {s : Bytes} {n : Int} (h : Int32Lit s n) : int32OK n = true := by
  obtain ⟨_, _, _, hlo, hhi⟩ := h
  simp only [int32OK, Bool.and_eq_true, decide_eq_true_eq]
  exact ⟨hlo, hhi⟩

theorem int32Lit_ne_nil {s : Bytes} {n : Int} (h : Int32Lit s n) : s ≠ [] := by
  obtain ⟨digits, hdec, hshape, _, _⟩ := h
  rcases hshape with ⟨hs | hs, _⟩ | ⟨hs, _⟩
  · rw [hs]; exact hdec.1
  · rw [hs]; simp
  · rw [hs]; simp

example : Int32Lit [45, 48, 49, 54] (-16) := ⟨[48, 49, 54], by decide, Or.inr ⟨rfl, by decide⟩, by decide, by decide⟩
example : Decimal [48, 49, 54] ∧ decValue [48, 49, 54] = 16 := by decide
example : ¬ Decimal [] ∧ ¬ Decimal [49, 95, 48] := by decide

end RV.DictParser
