/-
  Helper lemmas for C12 (laws of the generated attribute helpers).  Domain predicates
  (`Desc.wf`, `valueOK`, `canon`, refusal predicates) are defined here; the property theorems are
  in RV/Props/C12.lean.
-/
import RV.Model.Helper
import RV.Proofs.Vendor
import RV.Proofs.Password
import RV.Proofs.Codec
import RV.Proofs.Wire
namespace RV

/-! ### domain predicates -/

/-- the descriptors the generator emits helpers for (dictionarygen/generator.go rejects the rest):
    type within an octet; encrypt 0/1/2; has_tag only on string / octets / integer; concat only on
    a plain top-level text attribute; a size only on text; a vendor attribute lives in type 26 under a
    32-bit vendor id -/
def Desc.wf (d : Desc) : Prop :=
  0 ≤ d.typ ∧ d.typ ≤ 255 ∧
  (d.encrypt = 0 ∨ d.encrypt = 1 ∨ d.encrypt = 2) ∧
  (d.hasTag = true → d.kind = .string ∨ d.kind = .octets ∨ d.kind = .integer) ∧
  (d.kind = .concat → d.encrypt = 0 ∧ d.hasTag = false ∧ d.size = none ∧ d.vendorID = 0) ∧
  (d.size.isSome = true → d.kind = .string ∨ d.kind = .octets) ∧
  (d.vendorID ≠ 0 → d.typ = 26 ∧ d.vendorID < 2 ^ 32)

instance (d : Desc) : Decidable d.wf := by unfold Desc.wf; infer_instance

/-- the value has the Go parameter type of the helper (constructor and integer width), and a
    helper without tag parameter is modelled with tag 0 -/
def valueTyped (d : Desc) (tag : UInt8) (v : GVal) : Prop :=
  (d.hasTag = false → tag = 0) ∧
  match d.kind, v with
  | .string, .bytes _ | .octets, .bytes _ | .concat, .bytes _ | .ipaddr, .bytes _
  | .ipv6addr, .bytes _ | .ifid, .bytes _ => True
  | .ipv6prefix, .pfx _ => True
  | .date, .time _ => True
  | .byte, .nat n => n < 256
  | .short, .nat n => n < 2 ^ 16
  | .integer, .nat n => n < 2 ^ 32
  | .integer64, .nat n => n < 2 ^ 64
  | _, _ => False

instance (d : Desc) (tag : UInt8) (v : GVal) : Decidable (valueTyped d tag v) := by
  unfold valueTyped; split <;> infer_instance

/-- exclusion 1 (known finding): a tag above 0x1F is not stored -/
def tagInRange (d : Desc) (tag : UInt8) : Prop := d.hasTag = true → tag.toNat ≤ 0x1F

/-- exclusion 2 (known finding): a tagged integer keeps only its low 24 bits -/
def tagIntFits (d : Desc) (v : GVal) : Prop :=
  match v with
  | .nat n => d.hasTag = true → n < 2 ^ 24
  | _ => True

/-- exclusion 3 (known finding): a User-Password style value is cut at its first NUL on reading -/
def nulFree (d : Desc) (v : GVal) : Prop :=
  match v with
  | .bytes b => d.encrypt = 1 → d.kind.isText = true → ∀ x ∈ b, x ≠ 0
  | _ => True

instance (d : Desc) (tag : UInt8) : Decidable (tagInRange d tag) := by unfold tagInRange; infer_instance
instance (d : Desc) (v : GVal) : Decidable (tagIntFits d v) := by unfold tagIntFits; split <;> infer_instance
instance (d : Desc) (v : GVal) : Decidable (nulFree d v) := by unfold nulFree; split <;> infer_instance

def valueOK (d : Desc) (tag : UInt8) (v : GVal) : Prop :=
  valueTyped d tag v ∧ tagInRange d tag ∧ tagIntFits d v ∧ nulFree d v

instance (d : Desc) (tag : UInt8) (v : GVal) : Decidable (valueOK d tag v) := by
  unfold valueOK; infer_instance

/-- the value a getter returns for a stored `v`: addresses in their 4- / 16-byte form, a prefix
    with its host bits cleared (`maskIP'` = `RV.C10.maskIP`), everything else unchanged -/
def canon (d : Desc) (v : GVal) : GVal :=
  match d.kind, v with
  | .ipaddr, .bytes ip => .bytes ((to4 ip).getD ip)
  | .ipv6addr, .bytes ip => .bytes ((to16 ip).getD ip)
  | .ipv6prefix, .pfx (some (ip, m)) =>
    (match maskOnes m with
     | some n => .pfx (some (maskIP' ip n, m))
     | none => v)
  | _, _ => v

section
variable (H : Hash)

/-! ### the encrypt= stage -/

theorem obfuscate_eq (d : Desc) (a secret auth salt : Bytes) :
    obfuscate H d a secret auth salt =
      if d.encrypt = 1 ∧ d.kind.isText = true then newUserPassword H a secret auth
      else if d.usesSalt = true then newTunnelPassword H a salt secret auth
      else .ok a := by
  unfold obfuscate
  split
  · next h => by_cases ht : d.kind.isText = true <;> simp [h, ht, Desc.usesSalt]
  · next h => simp [h]
  · next h1 h2 =>
    have hs : d.usesSalt = false := by
      unfold Desc.usesSalt; rw [Bool.and_eq_false_iff]; left; simpa using h2
    rw [if_neg (fun h => h1 h.1), if_neg (by rw [hs]; exact Bool.false_ne_true)]

theorem usesSalt_encrypt {d : Desc} (h : d.usesSalt = true) : d.encrypt = 2 := by
  simp only [Desc.usesSalt, Bool.and_eq_true, decide_eq_true_eq] at h; exact h.1

/-- the reading side of the `encrypt=` stage for non-text kinds -/
def unsalt (d : Desc) (c secret auth : Bytes) : Res Bytes :=
  if d.usesSalt then tpPlain H c secret auth else .ok c

theorem tpPlain_roundtrip (hH : ∀ x, (H x).length = 16) (pw salt secret auth c : Bytes)
    (h : newTunnelPassword H pw salt secret auth = .ok c) : tpPlain H c secret auth = .ok pw := by
  unfold tpPlain; rw [tunnelPassword_roundtrip H hH pw salt secret auth c h]

theorem obfuscate_unsalt (hH : ∀ x, (H x).length = 16) (d : Desc) (a secret auth salt c : Bytes)
    (hk : d.kind.isText = false) (h : obfuscate H d a secret auth salt = .ok c) :
    unsalt H d c secret auth = .ok a := by
  rw [obfuscate_eq] at h
  simp only [hk, Bool.false_eq_true, and_false, if_false] at h
  unfold unsalt
  by_cases hs : d.usesSalt = true
  · rw [if_pos hs] at h ⊢; exact tpPlain_roundtrip H hH _ _ _ _ _ h
  · rw [if_neg hs] at h ⊢; cases h; rfl

theorem obfuscate_ne_fault (d : Desc) (a secret auth salt : Bytes) :
    obfuscate H d a secret auth salt ≠ .fault := by
  rw [obfuscate_eq]
  split
  · exact newUserPassword_ne_fault H _ _ _
  · split
    · exact newTunnelPassword_ne_fault H _ _ _ _
    · intro h; cases h

/-! ### text kinds -/

/-- writing side of the `encrypt=` stage of a text attribute -/
def textCipher (d : Desc) (b secret auth salt : Bytes) : Res Bytes :=
  if d.encrypt = 0 then newBytes b else obfuscate H d b secret auth salt

/-- reading side -/
def textPlain (d : Desc) (c secret auth : Bytes) : Res Bytes :=
  if d.encrypt = 1 then userPassword H c secret auth
  else if d.encrypt = 2 then tpPlain H c secret auth
  else .ok c

/-- tag split of the getters of a tagged text attribute -/
def untag (d : Desc) (a : Bytes) : UInt8 × Bytes :=
  if d.hasTag ∧ a.length ≥ 1 ∧ (a.getD 0 0).toNat ≤ 0x1F then (a.getD 0 0, a.drop 1) else (0, a)

theorem encodeValue_text (d : Desc) (hk : d.kind = .string ∨ d.kind = .octets) (tag : UInt8)
    (b secret auth salt : Bytes) :
    encodeValue H d tag (.bytes b) secret auth salt =
    if d.size.isSome ∧ d.size ≠ some b.length then .err
    else
      match textCipher H d b secret auth salt with
      | .ok a =>
        if d.hasTag ∧ tag.toNat ≤ 0x1F then
          if a.length > 252 then .err else .ok (tag :: a)
        else .ok a
      | .err => .err
      | .fault => .fault := by
  have e : (match d.encrypt with
             | 0 => newBytes b
             | _ => obfuscate H d b secret auth salt) = textCipher H d b secret auth salt := by
    unfold textCipher; split <;> simp_all
  rw [← e]
  rcases hk with h | h <;> simp only [encodeValue, h] <;> rfl

theorem decodeValue_text (d : Desc) (hk : d.kind = .string ∨ d.kind = .octets ∨ d.kind = .concat)
    (a secret auth : Bytes) :
    decodeValue H d a secret auth =
      match textPlain H d (untag d a).2 secret auth with
      | .ok v => if d.size.isSome ∧ d.size ≠ some v.length then .err else .ok ((untag d a).1, .bytes v)
      | .err => .err
      | .fault => .fault := by
  have e : ∀ c, (match d.encrypt with
           | 1 => userPassword H c secret auth
           | 2 => tpPlain H c secret auth
           | _ => (.ok c : Res Bytes)) = textPlain H d c secret auth := by
    intro c; unfold textPlain; split <;> simp_all
  unfold untag
  rcases hk with h | h | h <;> simp only [decodeValue, h] <;> rw [← e] <;> rfl

theorem text_roundtrip (hH : ∀ x, (H x).length = 16) (d : Desc) (hwf : d.wf)
    (hk : d.kind = .string ∨ d.kind = .octets) (b secret auth salt c : Bytes)
    (hn : d.encrypt = 1 → ∀ x ∈ b, x ≠ 0)
    (h : textCipher H d b secret auth salt = .ok c) : textPlain H d c secret auth = .ok b := by
  have htext : d.kind.isText = true := by rcases hk with h | h <;> simp [h, Kind.isText]
  unfold textCipher at h
  unfold textPlain
  rcases hwf.2.2.1 with e | e | e
  · rw [if_pos e] at h
    rw [if_neg (by omega), if_neg (by omega)]
    unfold newBytes at h
    split at h
    · cases h
    · cases h; rfl
  · rw [if_neg (by omega), obfuscate_eq, if_pos ⟨e, htext⟩] at h
    rw [if_pos e]
    rw [userPassword_roundtrip H hH b secret auth c h, takeWhile_nulfree b (hn e)]
  · have hs : d.usesSalt = true := by
      rcases hk with h | h <;> simp [Desc.usesSalt, e, h]
    rw [if_neg (by omega), obfuscate_eq, if_neg (by omega), if_pos hs] at h
    rw [if_neg (by omega), if_pos e]
    exact tpPlain_roundtrip H hH _ _ _ _ _ h

/-- length of what the `encrypt=` stage of a text attribute produces -/
theorem textCipher_length (hH : ∀ x, (H x).length = 16) (d : Desc)
    (hk : d.kind = .string ∨ d.kind = .octets) (b secret auth salt c : Bytes)
    (h : textCipher H d b secret auth salt = .ok c) :
    (d.encrypt = 0 → c = b ∧ b.length ≤ 253) ∧
    (d.encrypt = 1 → c = Rfc2865.userPasswordCipher H b secret auth ∧ 16 ≤ c.length ∧ c.length ≤ 128) ∧
    (d.encrypt = 2 → c = Rfc2868.tunnelPasswordCipher H b salt secret auth ∧ 18 ≤ c.length ∧ c.length ≤ 252) := by
  have htext : d.kind.isText = true := by rcases hk with h | h <;> simp [h, Kind.isText]
  unfold textCipher at h
  refine ⟨fun e => ?_, fun e => ?_, fun e => ?_⟩
  · rw [if_pos e] at h
    unfold newBytes at h
    split at h
    · cases h
    · cases h; exact ⟨rfl, by omega⟩
  · rw [if_neg (by omega), obfuscate_eq, if_pos ⟨e, htext⟩] at h
    have h1 := newUserPassword_eq_rfc H hH b secret auth c h
    have h2 := userPasswordCipher_length H hH b secret auth
    have h3 := (newUserPassword_ok H b secret auth c h).1
    rw [← h1] at h2
    refine ⟨h1, ?_, ?_⟩ <;> omega
  · have hs : d.usesSalt = true := by
      rcases hk with h | h <;> simp [Desc.usesSalt, e, h]
    rw [if_neg (by omega), obfuscate_eq, if_neg (by omega), if_pos hs] at h
    have h1 := newTunnelPassword_eq_rfc H b salt secret auth c h
    have h2 := newTunnelPassword_length H hH b salt secret auth c h
    have h3 := (newTunnelPassword_ok H b salt secret auth c h).1
    refine ⟨h1, ?_, ?_⟩ <;> omega

/-! ### decode ∘ encode, kind by kind -/

theorem decode_encode_text (hH : ∀ x, (H x).length = 16) (d : Desc) (hwf : d.wf)
    (hk : d.kind = .string ∨ d.kind = .octets) (tag : UInt8) (b secret auth salt a : Bytes)
    (hv : valueOK d tag (.bytes b))
    (he : encodeValue H d tag (.bytes b) secret auth salt = .ok a) :
    decodeValue H d a secret auth = .ok (tag, .bytes b) := by
  have htext : d.kind.isText = true := by rcases hk with h | h <;> simp [h, Kind.isText]
  obtain ⟨⟨ht0, _⟩, htr, _, hnul⟩ := hv
  simp only [nulFree] at hnul
  rw [encodeValue_text H d hk] at he
  split at he
  · cases he
  next hsz =>
  cases hc : textCipher H d b secret auth salt with
  | err => simp [hc] at he
  | fault => simp [hc] at he
  | ok c =>
    have hrt := text_roundtrip H hH d hwf hk b secret auth salt c (fun e => hnul e htext) hc
    simp only [hc] at he
    rw [decodeValue_text H d (by rcases hk with h | h <;> simp [h])]
    by_cases ht : d.hasTag = true
    · have htag := htr ht
      rw [if_pos ⟨ht, htag⟩] at he
      split at he
      · cases he
      · cases he
        have hu : untag d (tag :: c) = (tag, c) := by
          unfold untag; rw [if_pos ⟨ht, by simp, by simpa using htag⟩]; simp
        simp only [hu, hrt]
        rw [if_neg hsz]
    · rw [if_neg (fun h => ht h.1)] at he
      cases he
      have hu : untag d a = (0, a) := by
        unfold untag; rw [if_neg (fun h => ht h.1)]
      simp only [hu, hrt]
      rw [if_neg hsz, ht0 (by simpa using ht)]

theorem encodeValue_int (d : Desc) (w : Nat) (hk : d.kind.intBytes = some w) (tag : UInt8) (n : Nat)
    (secret auth salt : Bytes) :
    encodeValue H d tag (.nat n) secret auth salt =
      if d.hasTag then
        .ok ((if 1 ≤ tag.toNat ∧ tag.toNat ≤ 0x1F then tag else 0) :: (beBytes w n).drop 1)
      else obfuscate H d (beBytes w n) secret auth salt := by
  cases hkind : d.kind <;> simp [Kind.intBytes, hkind] at hk <;> subst hk <;>
    simp only [encodeValue, hkind, Kind.intBytes]

theorem decodeValue_int (d : Desc) (w : Nat) (hk : d.kind.intBytes = some w) (a secret auth : Bytes) :
    decodeValue H d a secret auth =
      if d.hasTag then
        (if (if a.length ≥ 1 ∧ (a.getD 0 0).toNat ≤ 0x1F then (a.getD 0 0, (0 : UInt8) :: a.drop 1) else (0, a)).2.length ≠ w
         then .err
         else .ok ((if a.length ≥ 1 ∧ (a.getD 0 0).toNat ≤ 0x1F then (a.getD 0 0, (0 : UInt8) :: a.drop 1) else (0, a)).1,
                   .nat (beNat (if a.length ≥ 1 ∧ (a.getD 0 0).toNat ≤ 0x1F then (a.getD 0 0, (0 : UInt8) :: a.drop 1) else (0, a)).2)))
      else
        match unsalt H d a secret auth with
        | .ok a => if a.length ≠ w then .err else .ok (0, .nat (beNat a))
        | .err => .err
        | .fault => .fault := by
  cases hkind : d.kind <;> simp [Kind.intBytes, hkind] at hk <;> subst hk <;>
    simp only [decodeValue, hkind, Kind.intBytes, unsalt] <;> rfl

theorem decode_encode_int (hH : ∀ x, (H x).length = 16) (d : Desc) (hwf : d.wf) (w : Nat)
    (hk : d.kind.intBytes = some w) (tag : UInt8) (n : Nat) (secret auth salt a : Bytes)
    (hn : n < 256 ^ w) (hv : valueOK d tag (.nat n))
    (he : encodeValue H d tag (.nat n) secret auth salt = .ok a) :
    decodeValue H d a secret auth = .ok (tag, .nat n) := by
  obtain ⟨⟨ht0, _⟩, htr, hfit, _⟩ := hv
  simp only [tagIntFits] at hfit
  rw [encodeValue_int H d w hk] at he
  rw [decodeValue_int H d w hk]
  have hnt : d.kind.isText = false := by
    cases hkind : d.kind <;> simp [Kind.intBytes, hkind] at hk <;> rfl
  by_cases ht : d.hasTag = true
  · have htag := htr ht
    have hn24 := hfit ht
    have hw : w = 4 := by
      rcases hwf.2.2.2.1 ht with h | h | h <;> simp [h, Kind.intBytes] at hk <;> omega
    subst hw
    rw [if_pos ht] at he ⊢
    have e1 : (if 1 ≤ tag.toNat ∧ tag.toNat ≤ 0x1F then tag else 0) = tag := by
      by_cases h1 : 1 ≤ tag.toNat
      · rw [if_pos ⟨h1, htag⟩]
      · rw [if_neg (fun h => h1 h.1)]
        have : tag.toNat = 0 := by omega
        exact (UInt8.toNat_inj.1 (by simpa using this)).symm
    rw [e1] at he
    cases he
    have e2 : (beBytes 4 n).drop 1 = beBytes 3 n := rfl
    rw [e2]
    have hc : (tag :: beBytes 3 n).length ≥ 1 ∧ ((tag :: beBytes 3 n).getD 0 0).toNat ≤ 0x1F := ⟨by simp, by simpa using htag⟩
    rw [if_pos hc]
    simp only [List.drop_succ_cons, List.drop_zero, List.length_cons, beBytes_length, List.getD_cons_zero]
    rw [if_neg (by omega)]
    have : beNat (0 :: beBytes 3 n) = n := by
      simp only [beNat, UInt8.toNat_zero, Nat.zero_mul, Nat.zero_add]
      exact beNat_beBytes 3 n (by omega)
    rw [this]
  · rw [if_neg ht] at he ⊢
    have hu := obfuscate_unsalt H hH d _ secret auth salt a hnt he
    rw [hu]
    simp only [beBytes_length]
    rw [if_neg (by omega), beNat_beBytes w n hn, ht0 (by simpa using ht)]


theorem decode_encode_ipaddr (hH : ∀ x, (H x).length = 16) (d : Desc)
    (hk : d.kind = .ipaddr) (tag : UInt8) (ip secret auth salt a : Bytes)
    (he : encodeValue H d tag (.bytes ip) secret auth salt = .ok a) :
    decodeValue H d a secret auth = .ok (0, .bytes ((to4 ip).getD ip)) := by
  have hnt : d.kind.isText = false := by rw [hk]; rfl
  simp only [encodeValue, hk] at he
  simp only [decodeValue, hk]
  unfold newIPAddr at he
  cases h4 : to4 ip with
  | none => simp [h4] at he
  | some x =>
    simp only [h4] at he
    have hu := obfuscate_unsalt H hH d _ secret auth salt a hnt he
    unfold unsalt at hu
    rw [hu]
    have hx : x.length = 4 := by
      unfold to4 at h4
      split at h4
      · cases h4; assumption
      · split at h4
        · cases h4; simp; omega
        · cases h4
    simp [ipAddr, hx]

theorem decode_encode_ipv6addr (hH : ∀ x, (H x).length = 16) (d : Desc)
    (hk : d.kind = .ipv6addr) (tag : UInt8) (ip secret auth salt a : Bytes)
    (he : encodeValue H d tag (.bytes ip) secret auth salt = .ok a) :
    decodeValue H d a secret auth = .ok (0, .bytes ((to16 ip).getD ip)) := by
  have hnt : d.kind.isText = false := by rw [hk]; rfl
  simp only [encodeValue, hk] at he
  simp only [decodeValue, hk]
  unfold newIPv6Addr at he
  cases h4 : to16 ip with
  | none => simp [h4] at he
  | some x =>
    simp only [h4] at he
    have hu := obfuscate_unsalt H hH d _ secret auth salt a hnt he
    unfold unsalt at hu
    rw [hu]
    have hx : x.length = 16 := by
      unfold to16 at h4
      split at h4
      · cases h4; simp [v4InV6Prefix]; omega
      · split at h4
        · cases h4; assumption
        · cases h4
    simp [ipv6Addr, hx]

theorem decode_encode_ifid (d : Desc)
    (hk : d.kind = .ifid) (tag : UInt8) (x secret auth salt a : Bytes)
    (he : encodeValue H d tag (.bytes x) secret auth salt = .ok a) :
    decodeValue H d a secret auth = .ok (0, .bytes x) := by
  simp only [encodeValue, hk] at he
  simp only [decodeValue, hk]
  unfold newIFID at he
  split at he
  · cases he
  · cases he; simp_all [ifid]

theorem decode_encode_date (d : Desc)
    (hk : d.kind = .date) (tag : UInt8) (u : Int) (secret auth salt a : Bytes)
    (he : encodeValue H d tag (.time u) secret auth salt = .ok a) :
    decodeValue H d a secret auth = .ok (0, .time u) := by
  simp only [encodeValue, hk] at he
  simp only [decodeValue, hk]
  rw [(date_roundtrip' u a he).2]

theorem decode_encode_byte (d : Desc)
    (hk : d.kind = .byte) (tag : UInt8) (n : Nat) (hn : n < 256) (secret auth salt a : Bytes)
    (he : encodeValue H d tag (.nat n) secret auth salt = .ok a) :
    decodeValue H d a secret auth = .ok (0, .nat n) := by
  simp only [encodeValue, hk] at he
  simp only [decodeValue, hk]
  cases he
  simp [u8_ofNat_toNat_lt hn]

theorem decode_encode_prefix (d : Desc)
    (hk : d.kind = .ipv6prefix) (tag : UInt8) (p : Option (Bytes × Bytes)) (secret auth salt a : Bytes)
    (he : encodeValue H d tag (.pfx p) secret auth salt = .ok a) :
    decodeValue H d a secret auth = .ok (0, canon d (.pfx p)) := by
  simp only [encodeValue, hk] at he
  simp only [decodeValue, hk]
  match p with
  | none => cases he
  | some (ip, m) =>
    obtain ⟨_, _, hm⟩ := (prefix_enc_ok_iff' ip m).1 ⟨a, he⟩
    obtain ⟨n, hn⟩ := Option.isSome_iff_exists.1 hm
    rw [(prefix_roundtrip' ip m a n hn he).2]
    simp [canon, hk, hn]

/-- decode ∘ encode = (tag, canonical value) on the whole domain -/
theorem decode_encode_all (hH : ∀ x, (H x).length = 16) (d : Desc) (hwf : d.wf) (tag : UInt8) (v : GVal)
    (secret auth salt a : Bytes) (hv : valueOK d tag v)
    (he : encodeValue H d tag v secret auth salt = .ok a) :
    decodeValue H d a secret auth = .ok (tag, canon d v) := by
  have hty := hv.1
  obtain ⟨ht0, hty⟩ := hty
  cases hk : d.kind <;> cases v <;> simp only [hk] at hty
  case string.bytes b =>
    have := decode_encode_text H hH d hwf (Or.inl hk) tag b secret auth salt a hv he
    simpa [canon, hk] using this
  case octets.bytes b =>
    have := decode_encode_text H hH d hwf (Or.inr hk) tag b secret auth salt a hv he
    simpa [canon, hk] using this
  case concat.bytes b => simp [encodeValue, hk] at he
  case ipaddr.bytes ip =>
    have hnt : d.hasTag = false := by
      cases h : d.hasTag with
      | false => rfl
      | true => rcases hwf.2.2.2.1 h with h' | h' | h' <;> simp [hk] at h'
    rw [ht0 hnt]
    have := decode_encode_ipaddr H hH d hk 0 ip secret auth salt a (by rw [← ht0 hnt]; exact he)
    simpa [canon, hk] using this
  case ipv6addr.bytes ip =>
    have hnt : d.hasTag = false := by
      cases h : d.hasTag with
      | false => rfl
      | true => rcases hwf.2.2.2.1 h with h' | h' | h' <;> simp [hk] at h'
    rw [ht0 hnt]
    have := decode_encode_ipv6addr H hH d hk 0 ip secret auth salt a (by rw [← ht0 hnt]; exact he)
    simpa [canon, hk] using this
  case ifid.bytes x =>
    have hnt : d.hasTag = false := by
      cases h : d.hasTag with
      | false => rfl
      | true => rcases hwf.2.2.2.1 h with h' | h' | h' <;> simp [hk] at h'
    rw [ht0 hnt]
    have := decode_encode_ifid H d hk tag x secret auth salt a he
    simpa [canon, hk] using this
  case ipv6prefix.pfx p =>
    have hnt : d.hasTag = false := by
      cases h : d.hasTag with
      | false => rfl
      | true => rcases hwf.2.2.2.1 h with h' | h' | h' <;> simp [hk] at h'
    rw [ht0 hnt]
    exact decode_encode_prefix H d hk tag p secret auth salt a he
  case date.time u =>
    have hnt : d.hasTag = false := by
      cases h : d.hasTag with
      | false => rfl
      | true => rcases hwf.2.2.2.1 h with h' | h' | h' <;> simp [hk] at h'
    rw [ht0 hnt]
    have := decode_encode_date H d hk tag u secret auth salt a he
    simpa [canon, hk] using this
  case byte.nat n =>
    have hnt : d.hasTag = false := by
      cases h : d.hasTag with
      | false => rfl
      | true => rcases hwf.2.2.2.1 h with h' | h' | h' <;> simp [hk] at h'
    rw [ht0 hnt]
    have := decode_encode_byte H d hk tag n hty secret auth salt a he
    simpa [canon, hk] using this
  case integer.nat n =>
    have := decode_encode_int H hH d hwf 4 (by rw [hk]; rfl) tag n secret auth salt a (by omega) hv he
    simpa [canon, hk] using this
  case integer64.nat n =>
    have := decode_encode_int H hH d hwf 8 (by rw [hk]; rfl) tag n secret auth salt a (by omega) hv he
    simpa [canon, hk] using this
  case short.nat n =>
    have := decode_encode_int H hH d hwf 2 (by rw [hk]; rfl) tag n secret auth salt a (by omega) hv he
    simpa [canon, hk] using this


/-! ### reads depend on the packet only through `rawValues` -/

theorem hGets_eq (d : Desc) (as : Attrs) (secret auth : Bytes) :
    hGets H d as secret auth = hGets.go H d secret auth (rawValues d as) := rfl

theorem hGets_go_nil (d : Desc) (secret auth : Bytes) : hGets.go H d secret auth [] = ([], true) := rfl

theorem hGets_go_cons_ok (d : Desc) (secret auth a : Bytes) (rest : List Bytes) (tv : UInt8 × GVal)
    (h : decodeValue H d a secret auth = .ok tv) :
    hGets.go H d secret auth (a :: rest) =
      (tv :: (hGets.go H d secret auth rest).1, (hGets.go H d secret auth rest).2) := by
  rw [hGets.go, h]

theorem hGets_go_cons_fail (d : Desc) (secret auth a : Bytes) (rest : List Bytes)
    (h : ∀ tv, decodeValue H d a secret auth ≠ .ok tv) :
    hGets.go H d secret auth (a :: rest) = ([], false) := by
  rw [hGets.go]
  split
  · next tv heq => exact absurd heq (h tv)
  · rfl

theorem hGets_go_append_ok (d : Desc) (secret auth : Bytes) (xs ys : List Bytes)
    (vs : List (UInt8 × GVal)) (h : hGets.go H d secret auth xs = (vs, true)) :
    hGets.go H d secret auth (xs ++ ys) =
      (vs ++ (hGets.go H d secret auth ys).1, (hGets.go H d secret auth ys).2) := by
  induction xs generalizing vs with
  | nil => rw [hGets_go_nil] at h; cases h; rfl
  | cons a xs ih =>
    cases hd : decodeValue H d a secret auth with
    | ok tv =>
      rw [hGets_go_cons_ok H d secret auth a xs tv hd] at h
      rw [List.cons_append, hGets_go_cons_ok H d secret auth a (xs ++ ys) tv hd]
      simp only [Prod.mk.injEq] at h
      obtain ⟨h1, h2⟩ := h
      subst h1
      rw [ih _ (Prod.ext rfl h2)]
      rfl
    | err =>
      rw [hGets_go_cons_fail H d secret auth a xs (by intro tv; rw [hd]; intro h; cases h)] at h
      cases h
    | fault =>
      rw [hGets_go_cons_fail H d secret auth a xs (by intro tv; rw [hd]; intro h; cases h)] at h
      cases h

theorem hGets_go_append_fail (d : Desc) (secret auth : Bytes) (xs ys : List Bytes)
    (vs : List (UInt8 × GVal)) (h : hGets.go H d secret auth xs = (vs, false)) :
    hGets.go H d secret auth (xs ++ ys) = (vs, false) := by
  induction xs generalizing vs with
  | nil => rw [hGets_go_nil] at h; cases h
  | cons a xs ih =>
    cases hd : decodeValue H d a secret auth with
    | ok tv =>
      rw [hGets_go_cons_ok H d secret auth a xs tv hd] at h
      rw [List.cons_append, hGets_go_cons_ok H d secret auth a (xs ++ ys) tv hd]
      simp only [Prod.mk.injEq] at h
      obtain ⟨h1, h2⟩ := h
      subst h1
      rw [ih _ (Prod.ext rfl h2)]
    | err =>
      have hf := hGets_go_cons_fail H d secret auth a xs (by intro tv; rw [hd]; intro h; cases h)
      rw [hf] at h
      rw [List.cons_append, hGets_go_cons_fail H d secret auth a (xs ++ ys) (by intro tv; rw [hd]; intro h; cases h)]
      exact h
    | fault =>
      have hf := hGets_go_cons_fail H d secret auth a xs (by intro tv; rw [hd]; intro h; cases h)
      rw [hf] at h
      rw [List.cons_append, hGets_go_cons_fail H d secret auth a (xs ++ ys) (by intro tv; rw [hd]; intro h; cases h)]
      exact h

theorem hLookup_congr (d : Desc) (as as' : Attrs) (secret auth : Bytes)
    (h : rawValues d as' = rawValues d as) :
    hLookup H d as' secret auth = hLookup H d as secret auth := by
  unfold hLookup; rw [h]

theorem hGets_congr (d : Desc) (as as' : Attrs) (secret auth : Bytes)
    (h : rawValues d as' = rawValues d as) :
    hGets H d as' secret auth = hGets H d as secret auth := by
  rw [hGets_eq, hGets_eq, h]

theorem hLookup_of_raw_nil (d : Desc) (as : Attrs) (secret auth : Bytes) (h : rawValues d as = []) :
    hLookup H d as secret auth = .noAttr := by
  unfold hLookup; rw [h]; split <;> rfl

theorem hLookup_of_raw_single (d : Desc) (hk : d.kind ≠ .concat) (as : Attrs) (secret auth a : Bytes)
    (rest : List Bytes) (tv : UInt8 × GVal)
    (h : rawValues d as = a :: rest) (hd : decodeValue H d a secret auth = .ok tv) :
    hLookup H d as secret auth = .val tv.1 tv.2 := by
  unfold hLookup; rw [if_neg hk, h]; simp only [List.head?_cons, hd]

/-! ### rawValues after the writes -/

theorem rawValues_top (d : Desc) (h : d.vendorID = 0) (as : Attrs) :
    rawValues d as = (as.filter (fun a => a.typ = d.typ)).map (·.val) := by
  unfold rawValues; rw [if_pos h]

theorem rawValues_vendor (d : Desc) (h : d.vendorID ≠ 0) (as : Attrs) :
    rawValues d as = getsVendor d.vendorID d.vendorType as := by
  unfold rawValues; rw [if_neg h]

theorem hSet_ok (d : Desc) (hk : d.kind ≠ .concat) (as as' : Attrs) (tag : UInt8) (v : GVal)
    (secret auth salt : Bytes) (h : hSet H d as tag v secret auth salt = .ok as') :
    ∃ a, encodeValue H d tag v secret auth salt = .ok a ∧
      (d.vendorID = 0 → as' = as.set d.typ a) ∧
      (d.vendorID ≠ 0 → setVendor d.vendorID d.vendorType a as = .ok as') := by
  unfold hSet at h
  rw [if_neg hk] at h
  cases he : encodeValue H d tag v secret auth salt with
  | ok a =>
    simp only [he] at h
    refine ⟨a, rfl, fun h0 => ?_, fun h0 => ?_⟩
    · rw [if_pos h0] at h; cases h; rfl
    · rw [if_neg h0] at h; exact h
  | err => simp [he] at h
  | fault => simp [he] at h

theorem hAdd_ok (d : Desc) (as as' : Attrs) (tag : UInt8) (v : GVal)
    (secret auth salt : Bytes) (h : hAdd H d as tag v secret auth salt = .ok as') :
    d.kind ≠ .concat ∧ ∃ a, encodeValue H d tag v secret auth salt = .ok a ∧
      (d.vendorID = 0 → as' = as ++ [⟨d.typ, a⟩]) ∧
      (d.vendorID ≠ 0 → addVendor d.vendorID d.vendorType a as = .ok as') := by
  unfold hAdd at h
  by_cases hk : d.kind = .concat
  · rw [if_pos hk] at h; cases h
  rw [if_neg hk] at h
  refine ⟨hk, ?_⟩
  cases he : encodeValue H d tag v secret auth salt with
  | ok a =>
    simp only [he] at h
    refine ⟨a, rfl, fun h0 => ?_, fun h0 => ?_⟩
    · rw [if_pos h0] at h; cases h; rfl
    · rw [if_neg h0] at h; exact h
  | err => simp [he] at h
  | fault => simp [he] at h

theorem rawValues_hSet (d : Desc) (hwf : d.wf) (hk : d.kind ≠ .concat) (as as' : Attrs) (tag : UInt8)
    (v : GVal) (secret auth salt : Bytes) (h : hSet H d as tag v secret auth salt = .ok as') :
    ∃ a, encodeValue H d tag v secret auth salt = .ok a ∧ rawValues d as' = [a] := by
  obtain ⟨a, he, h0, h1⟩ := hSet_ok H d hk as as' tag v secret auth salt h
  refine ⟨a, he, ?_⟩
  by_cases hv : d.vendorID = 0
  · rw [rawValues_top d hv, h0 hv, set_eq_spec, specSet_filter_eq]; rfl
  · rw [rawValues_vendor d hv, getsVendor_setVendor _ _ _ _ _ _ _ (hwf.2.2.2.2.2.2 hv).2 (h1 hv),
      if_pos ⟨rfl, rfl⟩]

theorem rawValues_hAdd (d : Desc) (hwf : d.wf) (as as' : Attrs) (tag : UInt8)
    (v : GVal) (secret auth salt : Bytes) (h : hAdd H d as tag v secret auth salt = .ok as') :
    ∃ a, encodeValue H d tag v secret auth salt = .ok a ∧ rawValues d as' = rawValues d as ++ [a] := by
  obtain ⟨_, a, he, h0, h1⟩ := hAdd_ok H d as as' tag v secret auth salt h
  refine ⟨a, he, ?_⟩
  by_cases hv : d.vendorID = 0
  · rw [rawValues_top d hv, rawValues_top d hv, h0 hv]; simp
  · rw [rawValues_vendor d hv, rawValues_vendor d hv,
      getsVendor_addVendor _ _ _ _ _ _ _ (hwf.2.2.2.2.2.2 hv).2 (h1 hv), if_pos ⟨rfl, rfl⟩]

theorem rawValues_hDel (d : Desc) (as : Attrs) : rawValues d (hDel d as) = [] := by
  unfold hDel
  by_cases hv : d.vendorID = 0
  · rw [rawValues_top d hv, if_pos hv, del_eq_filter, List.filter_filter]; simp
  · rw [rawValues_vendor d hv, if_neg hv, getsVendor_delVendor, if_pos ⟨rfl, rfl⟩]


/-! ### independence of two descriptors -/

/-- two descriptors address different storage: different top-level types; a top-level type other
    than 26 and a vendor attribute; or different (vendor, vendor type) -/
def Desc.indep (d d' : Desc) : Prop :=
  if d.vendorID = 0 then
    (if d'.vendorID = 0 then d.typ ≠ d'.typ else d.typ ≠ 26)
  else
    (if d'.vendorID = 0 then d'.typ ≠ 26
     else (d.vendorID, d.vendorType) ≠ (d'.vendorID, d'.vendorType))

instance (d d' : Desc) : Decidable (d.indep d') := by unfold Desc.indep; infer_instance

theorem filter_eq_of_filter_ne (k k' : Int) (hk : k' ≠ k) (as : Attrs) :
    as.filter (fun a => a.typ = k') = (as.filter (fun a => a.typ ≠ k)).filter (fun a => a.typ = k') := by
  rw [List.filter_filter]
  apply List.filter_congr
  intro a _
  by_cases h : a.typ = k' <;> simp [h, hk]

theorem rawValues_of_filter_ne (d' : Desc) (k : Int) (as as' : Attrs)
    (hk : if d'.vendorID = 0 then d'.typ ≠ k else k ≠ 26)
    (h : as'.filter (fun a => a.typ ≠ k) = as.filter (fun a => a.typ ≠ k)) :
    rawValues d' as' = rawValues d' as := by
  by_cases hv : d'.vendorID = 0
  · rw [if_pos hv] at hk
    rw [rawValues_top d' hv, rawValues_top d' hv, filter_eq_of_filter_ne k d'.typ hk as,
      filter_eq_of_filter_ne k d'.typ hk as', h]
  · rw [if_neg hv] at hk
    rw [rawValues_vendor d' hv, rawValues_vendor d' hv]
    have hp : ∀ a, isVendorAttr d'.vendorID a = true → (fun a : AVP => decide (a.typ ≠ k)) a = true := by
      intro a ha
      have := isVendorAttr_typ ha
      simp only [decide_eq_true_eq]
      intro e; rw [this] at e; exact hk e.symm
    rw [← getsVendor_filter _ _ as _ hp, ← getsVendor_filter _ _ as' _ hp, h]

theorem rawValues_of_foreign (d' : Desc) (vid : Nat) (as as' : Attrs)
    (hv : d'.vendorID = 0) (h26 : d'.typ ≠ 26)
    (h : as'.filter (fun a => !isVendorAttr vid a) = as.filter (fun a => !isVendorAttr vid a)) :
    rawValues d' as' = rawValues d' as := by
  have key : ∀ l : Attrs, l.filter (fun a => a.typ = d'.typ) =
      (l.filter (fun a => !isVendorAttr vid a)).filter (fun a => a.typ = d'.typ) := by
    intro l
    rw [List.filter_filter]
    apply List.filter_congr
    intro a _
    by_cases ht : a.typ = d'.typ
    · have : isVendorAttr vid a = false := by
        cases hh : isVendorAttr vid a with
        | false => rfl
        | true => have := isVendorAttr_typ hh; rw [ht] at this; exact absurd this h26
      simp [ht, this]
    · simp [ht]
  rw [rawValues_top d' hv, rawValues_top d' hv, key as, key as', h]

/-- a write of `d`: a successful Set or Add, or a Del -/
def isWrite (d : Desc) (as as' : Attrs) : Prop :=
  (∃ tag v secret auth salt, hSet H d as tag v secret auth salt = .ok as') ∨
  (∃ tag v secret auth salt, hAdd H d as tag v secret auth salt = .ok as') ∨
  as' = hDel d as

theorem write_top_filter (d : Desc) (h0 : d.vendorID = 0) (as as' : Attrs) (hw : isWrite H d as as') :
    as'.filter (fun a => a.typ ≠ d.typ) = as.filter (fun a => a.typ ≠ d.typ) := by
  rcases hw with ⟨tag, v, secret, auth, salt, h⟩ | ⟨tag, v, secret, auth, salt, h⟩ | h
  · by_cases hk : d.kind = .concat
    · unfold hSet at h
      rw [if_pos hk] at h
      cases v with
      | bytes b =>
        simp only [Res.ok.injEq] at h
        subst h
        rw [List.filter_append, del_eq_filter, filter_ne_idem]
        have : ((chunks253 b).map (fun c => (⟨d.typ, c⟩ : AVP))).filter (fun a => a.typ ≠ d.typ) = [] := by
          rw [List.filter_eq_nil_iff]; intro a ha
          obtain ⟨c, _, rfl⟩ := List.mem_map.1 ha
          simp
        rw [this, List.append_nil]
      | nat n => cases h
      | time u => cases h
      | pfx p => cases h
    · obtain ⟨a, _, h1, _⟩ := hSet_ok H d hk as as' tag v secret auth salt h
      rw [h1 h0, set_eq_spec, specSet_filter_ne]
  · obtain ⟨_, a, _, h1, _⟩ := hAdd_ok H d as as' tag v secret auth salt h
    rw [h1 h0, List.filter_append]; simp
  · subst h
    unfold hDel; rw [if_pos h0, del_eq_filter, filter_ne_idem]

theorem write_vendor (d : Desc) (hwf : d.wf) (h0 : d.vendorID ≠ 0) (as as' : Attrs) (hw : isWrite H d as as') :
    othersView d.vendorID d.vendorType as' = othersView d.vendorID d.vendorType as ∧
    ∀ vid' typ', (vid', typ') ≠ (d.vendorID, d.vendorType) →
      getsVendor vid' typ' as' = getsVendor vid' typ' as := by
  have hvid := (hwf.2.2.2.2.2.2 h0).2
  have hk : d.kind ≠ .concat := fun hk => h0 (hwf.2.2.2.2.1 hk).2.2.2
  rcases hw with ⟨tag, v, secret, auth, salt, h⟩ | ⟨tag, v, secret, auth, salt, h⟩ | h
  · obtain ⟨a, _, _, h1⟩ := hSet_ok H d hk as as' tag v secret auth salt h
    refine ⟨othersView_setVendor _ _ _ _ _ hvid (h1 h0), fun vid' typ' hne => ?_⟩
    rw [getsVendor_setVendor _ _ _ _ _ _ _ hvid (h1 h0), if_neg]
    rintro ⟨rfl, rfl⟩; exact hne rfl
  · obtain ⟨_, a, _, _, h1⟩ := hAdd_ok H d as as' tag v secret auth salt h
    refine ⟨othersView_addVendor _ _ _ _ _ hvid (h1 h0), fun vid' typ' hne => ?_⟩
    rw [getsVendor_addVendor _ _ _ _ _ _ _ hvid (h1 h0), if_neg, List.append_nil]
    rintro ⟨rfl, rfl⟩; exact hne rfl
  · subst h
    unfold hDel; rw [if_neg h0]
    refine ⟨othersView_delVendor _ _ _, fun vid' typ' hne => ?_⟩
    rw [getsVendor_delVendor, if_neg]
    rintro ⟨rfl, rfl⟩; exact hne rfl

/-- a write of `d` does not change the stored values of an independent `d'` -/
theorem rawValues_indep (d d' : Desc) (hwf : d.wf) (hi : d.indep d') (as as' : Attrs)
    (hw : isWrite H d as as') : rawValues d' as' = rawValues d' as := by
  unfold Desc.indep at hi
  by_cases h0 : d.vendorID = 0
  · rw [if_pos h0] at hi
    apply rawValues_of_filter_ne d' d.typ as as' _ (write_top_filter H d h0 as as' hw)
    by_cases h0' : d'.vendorID = 0
    · rw [if_pos h0'] at hi ⊢; exact fun e => hi e.symm
    · rw [if_neg h0'] at hi ⊢; exact hi
  · rw [if_neg h0] at hi
    obtain ⟨hview, hgets⟩ := write_vendor H d hwf h0 as as' hw
    by_cases h0' : d'.vendorID = 0
    · rw [if_pos h0'] at hi
      apply rawValues_of_foreign d' d.vendorID as as' h0' hi
      have := congrArg (List.filterMap (fun x => x.getLeft?)) hview
      rwa [othersView_lefts, othersView_lefts] at this
    · rw [if_neg h0'] at hi
      rw [rawValues_vendor d' h0', rawValues_vendor d' h0']
      exact hgets _ _ (fun e => hi e.symm)

/-! ### the wire -/

theorem rawValues_filter_valid (d : Desc) (hwf : d.wf) (as : Attrs) :
    rawValues d (as.filter validType) = rawValues d as := by
  by_cases h0 : d.vendorID = 0
  · rw [rawValues_top d h0, rawValues_top d h0, List.filter_filter]
    congr 1
    apply List.filter_congr
    intro a _
    by_cases ht : a.typ = d.typ
    · have : validType a = true := by
        simp only [validType, Bool.and_eq_true, decide_eq_true_eq]; rw [ht]; exact ⟨hwf.1, hwf.2.1⟩
      simp [ht, this]
    · simp [ht]
  · rw [rawValues_vendor d h0, rawValues_vendor d h0]
    apply getsVendor_filter
    intro a ha
    have := isVendorAttr_typ ha
    simp [validType, this]

/-! ### concat -/

theorem chunks253_nil : chunks253 [] = [] := by rw [chunks253]; simp

theorem chunks253_ne (b : Bytes) (h : b ≠ []) : chunks253 b = b.take 253 :: chunks253 (b.drop 253) := by
  rw [chunks253]; simp [h]

theorem chunks253_flatten (b : Bytes) : (chunks253 b).flatten = b := by
  induction b using chunks253.induct with
  | case1 => rw [chunks253_nil]; rfl
  | case2 b h ih => rw [chunks253_ne b h, List.flatten_cons, ih, List.take_append_drop]

theorem chunks253_bound (b : Bytes) : ∀ c ∈ chunks253 b, 1 ≤ c.length ∧ c.length ≤ 253 := by
  induction b using chunks253.induct with
  | case1 => rw [chunks253_nil]; simp
  | case2 b h ih =>
    rw [chunks253_ne b h]
    intro c hc
    rcases List.mem_cons.1 hc with rfl | hc
    · have : 1 ≤ b.length := by cases b <;> simp_all
      simp only [List.length_take]; omega
    · exact ih c hc

theorem chunks253_eq_nil_iff (b : Bytes) : chunks253 b = [] ↔ b = [] := by
  constructor
  · intro h
    have := chunks253_flatten b
    rw [h] at this; exact this.symm
  · rintro rfl; exact chunks253_nil

theorem rawValues_hSet_concat (d : Desc) (hwf : d.wf) (hk : d.kind = .concat) (as as' : Attrs)
    (tag : UInt8) (v : GVal) (secret auth salt : Bytes)
    (h : hSet H d as tag v secret auth salt = .ok as') :
    ∃ b, v = .bytes b ∧ rawValues d as' = chunks253 b := by
  have h0 : d.vendorID = 0 := (hwf.2.2.2.2.1 hk).2.2.2
  unfold hSet at h
  rw [if_pos hk] at h
  cases v with
  | bytes b =>
    simp only [Res.ok.injEq] at h
    subst h
    refine ⟨b, rfl, ?_⟩
    rw [rawValues_top d h0, List.filter_append, del_eq_filter, List.filter_filter]
    have e1 : as.filter (fun a => decide (a.typ ≠ d.typ) && decide (a.typ = d.typ)) = [] := by
      rw [List.filter_eq_nil_iff]; intro a _; simp
    have e2 : ((chunks253 b).map (fun c => (⟨d.typ, c⟩ : AVP))).filter (fun a => a.typ = d.typ) =
        (chunks253 b).map (fun c => (⟨d.typ, c⟩ : AVP)) := by
      rw [List.filter_eq_self]; intro a ha
      obtain ⟨c, _, rfl⟩ := List.mem_map.1 ha
      simp
    rw [e2]
    simp only [Bool.and_comm] at e1 ⊢
    rw [e1]
    simp only [List.nil_append, List.map_map]
    exact List.map_id' _
  | nat n => cases h
  | time u => cases h
  | pfx p => cases h

theorem hLookup_concat (d : Desc) (hk : d.kind = .concat) (as : Attrs) (secret auth : Bytes) :
    hLookup H d as secret auth =
      if rawValues d as = [] then .noAttr else .val 0 (.bytes (rawValues d as).flatten) := by
  unfold hLookup; rw [if_pos hk]
  split
  · next h => rw [if_pos h]
  · next h => rw [if_neg (by intro e; exact h e)]


/-! ### no helper panics -/

theorem Res.err_iff {α} (r : Res α) (hf : r ≠ .fault) : r = .err ↔ ¬ ∃ a, r = .ok a := by
  cases r <;> simp_all

theorem newBytes_ne_fault (b : Bytes) : newBytes b ≠ .fault := by unfold newBytes; split <;> simp
theorem newIFID_ne_fault (b : Bytes) : newIFID b ≠ .fault := by unfold newIFID; split <;> simp
theorem newDate_ne_fault (u : Int) : newDate u ≠ .fault := by unfold newDate; repeat' split <;> simp
theorem newIPAddr_ne_fault (b : Bytes) : newIPAddr b ≠ .fault := by unfold newIPAddr; split <;> simp
theorem newIPv6Addr_ne_fault (b : Bytes) : newIPv6Addr b ≠ .fault := by unfold newIPv6Addr; split <;> simp
theorem newIPv6Prefix_ne_fault (p : Option (Bytes × Bytes)) : newIPv6Prefix p ≠ .fault := by
  unfold newIPv6Prefix
  split
  · simp
  · split
    · simp
    · simp only []
      split <;> simp

theorem textCipher_ne_fault (d : Desc) (b secret auth salt : Bytes) :
    textCipher H d b secret auth salt ≠ .fault := by
  unfold textCipher; split
  · exact newBytes_ne_fault b
  · exact obfuscate_ne_fault H d b secret auth salt

theorem encodeValue_ne_fault (d : Desc) (tag : UInt8) (v : GVal) (secret auth salt : Bytes) :
    encodeValue H d tag v secret auth salt ≠ .fault := by
  intro hf
  cases hk : d.kind <;> cases v <;> simp only [encodeValue, hk, Kind.intBytes] at hf <;>
    try (cases hf; done)
  case string.bytes b =>
    have := encodeValue_text H d (Or.inl hk) tag b secret auth salt
    simp only [encodeValue, hk] at this
    rw [this] at hf
    have := textCipher_ne_fault H d b secret auth salt
    split at hf
    · cases hf
    · split at hf
      · split at hf
        · split at hf <;> cases hf
        · cases hf
      · cases hf
      · next h => exact this h
  case octets.bytes b =>
    have := encodeValue_text H d (Or.inr hk) tag b secret auth salt
    simp only [encodeValue, hk] at this
    rw [this] at hf
    have := textCipher_ne_fault H d b secret auth salt
    split at hf
    · cases hf
    · split at hf
      · split at hf
        · split at hf <;> cases hf
        · cases hf
      · cases hf
      · next h => exact this h
  case ipaddr.bytes ip =>
    split at hf
    · exact obfuscate_ne_fault H _ _ _ _ _ hf
    · exact newIPAddr_ne_fault ip hf
  case ipv6addr.bytes ip =>
    split at hf
    · exact obfuscate_ne_fault H _ _ _ _ _ hf
    · exact newIPv6Addr_ne_fault ip hf
  case ifid.bytes x => exact newIFID_ne_fault x hf
  case ipv6prefix.pfx p => exact newIPv6Prefix_ne_fault p hf
  case date.time u => exact newDate_ne_fault u hf
  case integer.nat n => split at hf; cases hf; exact obfuscate_ne_fault H _ _ _ _ _ hf
  case integer64.nat n => split at hf; cases hf; exact obfuscate_ne_fault H _ _ _ _ _ hf
  case short.nat n => split at hf; cases hf; exact obfuscate_ne_fault H _ _ _ _ _ hf

theorem hSet_ne_fault (d : Desc) (as : Attrs) (tag : UInt8) (v : GVal) (secret auth salt : Bytes) :
    hSet H d as tag v secret auth salt ≠ .fault := by
  unfold hSet
  split
  · split <;> simp
  · have := encodeValue_ne_fault H d tag v secret auth salt
    split
    · split
      · simp
      · rw [setVendor_eq]; split <;> simp
    · simp
    · next h => exact absurd h this

theorem hAdd_ne_fault (d : Desc) (as : Attrs) (tag : UInt8) (v : GVal) (secret auth salt : Bytes) :
    hAdd H d as tag v secret auth salt ≠ .fault := by
  unfold hAdd
  split
  · simp
  · have := encodeValue_ne_fault H d tag v secret auth salt
    split
    · split
      · simp
      · rw [addVendor_eq]; split <;> simp
    · simp
    · next h => exact absurd h this


/-! ### refusals -/

/-- the `encrypt=` stage refuses a clear value of `n` bytes -/
def encFails (d : Desc) (n : Nat) (secret auth salt : Bytes) : Prop :=
  (d.encrypt = 1 ∧ d.kind.isText = true ∧ (n > 128 ∨ secret = [] ∨ auth.length ≠ 16)) ∨
  (d.usesSalt = true ∧
    (n > 239 ∨ salt.length ≠ 2 ∨ (salt.getD 0 0).toNat < 128 ∨ secret = [] ∨ auth.length ≠ 16))

theorem obfuscate_err_iff (d : Desc) (a secret auth salt : Bytes) :
    obfuscate H d a secret auth salt = .err ↔ encFails d a.length secret auth salt := by
  rw [obfuscate_eq]
  unfold encFails
  by_cases h1 : d.encrypt = 1 ∧ d.kind.isText = true
  · have hs : d.usesSalt = false := by
      cases h : d.usesSalt with
      | false => rfl
      | true => have := usesSalt_encrypt h; omega
    rw [if_pos h1, Res.err_iff _ (newUserPassword_ne_fault H a secret auth), newUserPassword_ok_iff]
    simp only [h1.1, h1.2, hs, true_and, Bool.false_eq_true, false_and, or_false]
    constructor
    · intro h; by_cases h2 : a.length > 128
      · exact Or.inl h2
      · by_cases h3 : secret = []
        · exact Or.inr (Or.inl h3)
        · by_cases h4 : auth.length = 16
          · exact absurd ⟨by omega, h3, h4⟩ h
          · exact Or.inr (Or.inr h4)
    · rintro (h | h | h) ⟨h2, h3, h4⟩
      · omega
      · exact h3 h
      · exact h h4
  · rw [if_neg h1]
    have e1 : ¬ (d.encrypt = 1 ∧ d.kind.isText = true ∧ (a.length > 128 ∨ secret = [] ∨ auth.length ≠ 16)) :=
      fun h => h1 ⟨h.1, h.2.1⟩
    by_cases hs : d.usesSalt = true
    · rw [if_pos hs, Res.err_iff _ (newTunnelPassword_ne_fault H a salt secret auth), newTunnelPassword_ok_iff]
      simp only [hs, true_and]
      constructor
      · intro h; right
        by_cases h2 : a.length > 239
        · exact Or.inl h2
        · by_cases h3 : salt.length = 2
          · by_cases h4 : (salt.getD 0 0).toNat < 128
            · exact Or.inr (Or.inr (Or.inl h4))
            · by_cases h5 : secret = []
              · exact Or.inr (Or.inr (Or.inr (Or.inl h5)))
              · by_cases h6 : auth.length = 16
                · exact absurd ⟨by omega, h3, by omega, h5, h6⟩ h
                · exact Or.inr (Or.inr (Or.inr (Or.inr h6)))
          · exact Or.inr (Or.inl h3)
      · rintro (h | h | h | h | h | h) ⟨h2, h3, h4, h5, h6⟩
        · exact e1 h
        · omega
        · exact h h3
        · omega
        · exact h5 h
        · exact h h6
    · rw [if_neg hs]
      constructor
      · intro h; cases h
      · rintro (h | h)
        · exact absurd h e1
        · exact absurd h.1 hs

theorem textCipher_err_iff (d : Desc) (b secret auth salt : Bytes) :
    textCipher H d b secret auth salt = .err ↔
      (d.encrypt = 0 ∧ b.length > 253) ∨ (d.encrypt ≠ 0 ∧ encFails d b.length secret auth salt) := by
  unfold textCipher
  by_cases h0 : d.encrypt = 0
  · rw [if_pos h0]
    unfold newBytes
    by_cases hl : b.length > 253 <;> simp [h0, hl]
  · rw [if_neg h0, obfuscate_err_iff]
    simp [h0]

/-- exactly when the encoding half of a setter reports an error -/
def encodeRefused (d : Desc) (tag : UInt8) (v : GVal) (secret auth salt : Bytes) : Prop :=
  match d.kind, v with
  | .string, .bytes b | .octets, .bytes b =>
      (d.size.isSome = true ∧ d.size ≠ some b.length) ∨                    -- wrong fixed size
      (d.encrypt = 0 ∧ b.length > 253) ∨                                   -- oversize
      (d.encrypt ≠ 0 ∧ encFails d b.length secret auth salt) ∨             -- failing encryption
      (d.hasTag = true ∧ tag.toNat ≤ 0x1F ∧ d.encrypt = 0 ∧ b.length = 253)  -- no room for the tag
  | .ipaddr, .bytes ip => to4 ip = none ∨ encFails d 4 secret auth salt     -- wrong address family
  | .ipv6addr, .bytes ip => to16 ip = none ∨ encFails d 16 secret auth salt
  | .ifid, .bytes x => x.length ≠ 8
  | .ipv6prefix, .pfx p =>
      ∀ ip mask, p = some (ip, mask) →
        ¬ (ip.length = 16 ∧ mask.length = 16 ∧ (maskOnes mask).isSome = true)
  | .date, .time u => u < 0 ∨ 4294967295 < u                               -- out-of-range time
  | .byte, .nat _ => False
  | .integer, .nat _ => d.hasTag = false ∧ encFails d 4 secret auth salt
  | .integer64, .nat _ => d.hasTag = false ∧ encFails d 8 secret auth salt
  | .short, .nat _ => d.hasTag = false ∧ encFails d 2 secret auth salt
  | _, _ => True   -- a value of another Go type (cannot be written in Go), or a concat attribute

theorem encodeValue_text_err_iff (hH : ∀ x, (H x).length = 16) (d : Desc) (hwf : d.wf)
    (hk : d.kind = .string ∨ d.kind = .octets) (tag : UInt8) (b secret auth salt : Bytes) :
    encodeValue H d tag (.bytes b) secret auth salt = .err ↔
      (d.size.isSome = true ∧ d.size ≠ some b.length) ∨
      (d.encrypt = 0 ∧ b.length > 253) ∨
      (d.encrypt ≠ 0 ∧ encFails d b.length secret auth salt) ∨
      (d.hasTag = true ∧ tag.toNat ≤ 0x1F ∧ d.encrypt = 0 ∧ b.length = 253) := by
  rw [encodeValue_text H d hk]
  by_cases hsz : d.size.isSome = true ∧ d.size ≠ some b.length
  · rw [if_pos hsz]; simp [hsz]
  · rw [if_neg hsz]
    have hce := textCipher_err_iff H d b secret auth salt
    cases hc : textCipher H d b secret auth salt with
    | fault => exact absurd hc (textCipher_ne_fault H d b secret auth salt)
    | err =>
      rw [hc] at hce
      simp only [true_iff] at hce ⊢
      rcases hce with h | h
      · exact Or.inr (Or.inl h)
      · exact Or.inr (Or.inr (Or.inl h))
    | ok c =>
      rw [hc] at hce
      have hne : ¬ ((d.encrypt = 0 ∧ b.length > 253) ∨ (d.encrypt ≠ 0 ∧ encFails d b.length secret auth salt)) := by
        intro h; have := hce.2 h; cases this
      obtain ⟨l0, l1, l2⟩ := textCipher_length H hH d hk b secret auth salt c hc
      simp only []
      constructor
      · intro h
        split at h
        · next ht =>
          split at h
          · next hlen =>
            right; right; right
            rcases hwf.2.2.1 with e | e | e
            · have := l0 e; rw [this.1] at hlen; exact ⟨ht.1, ht.2, e, by omega⟩
            · have := l1 e; omega
            · have := l2 e; omega
          · cases h
        · cases h
      · rintro (h | h | h | h)
        · exact absurd h hsz
        · exact absurd (Or.inl h) hne
        · exact absurd (Or.inr h) hne
        · have := (l0 h.2.2.1).1
          rw [if_pos ⟨h.1, h.2.1⟩, if_pos (by rw [this]; omega)]

theorem encFails_nontext (d : Desc) (n : Nat) (secret auth salt a : Bytes)
    (ha : a.length = n) :
    obfuscate H d a secret auth salt = .err ↔ encFails d n secret auth salt := by
  rw [obfuscate_err_iff, ha]

theorem encodeValue_err_iff (hH : ∀ x, (H x).length = 16) (d : Desc) (hwf : d.wf) (tag : UInt8)
    (v : GVal) (secret auth salt : Bytes) :
    encodeValue H d tag v secret auth salt = .err ↔ encodeRefused d tag v secret auth salt := by
  cases hk : d.kind <;> cases v <;> simp only [encodeRefused, hk] <;>
    try (simp only [encodeValue, hk, Kind.intBytes]; done)
  case string.bytes b => exact encodeValue_text_err_iff H hH d hwf (Or.inl hk) tag b secret auth salt
  case octets.bytes b => exact encodeValue_text_err_iff H hH d hwf (Or.inr hk) tag b secret auth salt
  case ipaddr.bytes ip =>
    simp only [encodeValue, hk, newIPAddr]
    cases h4 : to4 ip with
    | none => simp
    | some x =>
      have hx : x.length = 4 := by
        unfold to4 at h4
        split at h4
        · cases h4; assumption
        · split at h4
          · cases h4; simp; omega
          · cases h4
      simp only [reduceCtorEq, false_or]
      exact encFails_nontext H d 4 secret auth salt x hx
  case ipv6addr.bytes ip =>
    simp only [encodeValue, hk, newIPv6Addr]
    cases h4 : to16 ip with
    | none => simp
    | some x =>
      have hx : x.length = 16 := by
        unfold to16 at h4
        split at h4
        · cases h4; simp [v4InV6Prefix]; omega
        · split at h4
          · cases h4; assumption
          · cases h4
      simp only [reduceCtorEq, false_or]
      exact encFails_nontext H d 16 secret auth salt x hx
  case ifid.bytes x =>
    simp only [encodeValue, hk, newIFID]
    split <;> simp_all
  case ipv6prefix.pfx p =>
    simp only [encodeValue, hk]
    rw [Res.err_iff _ (newIPv6Prefix_ne_fault p)]
    match p with
    | none => simp [newIPv6Prefix]
    | some (ip, m) =>
      rw [prefix_enc_ok_iff']
      constructor
      · intro h ip' m' e; cases e; exact h
      · intro h; exact h ip m rfl
  case date.time u =>
    simp only [encodeValue, hk, newDate]
    split
    · simp; omega
    · split
      · simp; omega
      · simp; omega
  case byte.nat n => simp only [encodeValue, hk]; simp
  case integer.nat n =>
    simp only [encodeValue, hk, Kind.intBytes]
    cases ht : d.hasTag with
    | true => simp
    | false =>
      simp only [Bool.false_eq_true, if_false, true_and]
      exact encFails_nontext H d 4 secret auth salt _ (beBytes_length 4 n)
  case integer64.nat n =>
    simp only [encodeValue, hk, Kind.intBytes]
    cases ht : d.hasTag with
    | true => simp
    | false =>
      simp only [Bool.false_eq_true, if_false, true_and]
      exact encFails_nontext H d 8 secret auth salt _ (beBytes_length 8 n)
  case short.nat n =>
    simp only [encodeValue, hk, Kind.intBytes]
    cases ht : d.hasTag with
    | true => simp
    | false =>
      simp only [Bool.false_eq_true, if_false, true_and]
      exact encFails_nontext H d 2 secret auth salt _ (beBytes_length 2 n)


/-- a Set is refused exactly when the value cannot be encoded, or (vendor attribute) the encoded
    value is empty or longer than 247 bytes — a condition that does not mention the packet -/
theorem hSet_err_iff (hH : ∀ x, (H x).length = 16) (d : Desc) (hwf : d.wf) (as : Attrs) (tag : UInt8)
    (v : GVal) (secret auth salt : Bytes) :
    hSet H d as tag v secret auth salt = .err ↔
      if d.kind = .concat then (∀ b, v ≠ .bytes b)
      else encodeRefused d tag v secret auth salt ∨
        (d.vendorID ≠ 0 ∧ ∃ a, encodeValue H d tag v secret auth salt = .ok a ∧
          (a.length = 0 ∨ 247 < a.length)) := by
  unfold hSet
  by_cases hk : d.kind = .concat
  · rw [if_pos hk, if_pos hk]
    cases v <;> simp
  · rw [if_neg hk, if_neg hk, ← encodeValue_err_iff H hH d hwf]
    cases he : encodeValue H d tag v secret auth salt with
    | fault => exact absurd he (encodeValue_ne_fault H d tag v secret auth salt)
    | err => simp
    | ok a =>
      simp only [reduceCtorEq, false_or, Res.ok.injEq, exists_eq_left']
      by_cases h0 : d.vendorID = 0
      · simp [h0]
      · rw [if_neg h0, setVendor_eq]
        simp only [h0, not_false_eq_true, true_and, ne_eq]
        by_cases hl : 1 ≤ a.length ∧ a.length ≤ 247
        · rw [if_pos hl]
          simp only [reduceCtorEq, false_iff]
          omega
        · rw [if_neg hl]
          simp only [true_iff]
          omega

theorem hAdd_err_iff (hH : ∀ x, (H x).length = 16) (d : Desc) (hwf : d.wf) (as : Attrs) (tag : UInt8)
    (v : GVal) (secret auth salt : Bytes) :
    hAdd H d as tag v secret auth salt = .err ↔
      d.kind = .concat ∨ encodeRefused d tag v secret auth salt ∨
        (d.vendorID ≠ 0 ∧ ∃ a, encodeValue H d tag v secret auth salt = .ok a ∧
          (a.length = 0 ∨ 247 < a.length)) := by
  unfold hAdd
  by_cases hk : d.kind = .concat
  · rw [if_pos hk]; simp [hk]
  · rw [if_neg hk, ← encodeValue_err_iff H hH d hwf]
    simp only [hk, false_or]
    cases he : encodeValue H d tag v secret auth salt with
    | fault => exact absurd he (encodeValue_ne_fault H d tag v secret auth salt)
    | err => simp
    | ok a =>
      simp only [reduceCtorEq, false_or, Res.ok.injEq, exists_eq_left']
      by_cases h0 : d.vendorID = 0
      · simp [h0]
      · rw [if_neg h0, addVendor_eq]
        simp only [h0, not_false_eq_true, true_and, ne_eq]
        by_cases hl : 1 ≤ a.length ∧ a.length ≤ 247
        · rw [if_pos hl]
          simp only [reduceCtorEq, false_iff]
          omega
        · rw [if_neg hl]
          simp only [true_iff]
          omega

/-! ### what is stored -/

/-- the tag octet in front of a stored text value -/
def tagPrefix (d : Desc) (tag : UInt8) : Bytes :=
  if d.hasTag = true ∧ tag.toNat ≤ 0x1F then [tag] else []

theorem stored_text (d : Desc) (hk : d.kind = .string ∨ d.kind = .octets) (tag : UInt8)
    (b secret auth salt a : Bytes) (he : encodeValue H d tag (.bytes b) secret auth salt = .ok a) :
    ∃ c, textCipher H d b secret auth salt = .ok c ∧ a = tagPrefix d tag ++ c := by
  rw [encodeValue_text H d hk] at he
  split at he
  · cases he
  · cases hc : textCipher H d b secret auth salt with
    | err => simp [hc] at he
    | fault => simp [hc] at he
    | ok c =>
      simp only [hc] at he
      refine ⟨c, rfl, ?_⟩
      unfold tagPrefix
      split at he
      · next ht =>
        split at he
        · cases he
        · cases he; rw [if_pos ht]; rfl
      · next ht => cases he; rw [if_neg ht]; rfl

/-- the clear octets of a value, before the `encrypt=` stage -/
def clearBytes (d : Desc) (v : GVal) : Option Bytes :=
  match d.kind, v with
  | .string, .bytes b | .octets, .bytes b => some b
  | .ipaddr, .bytes ip => to4 ip
  | .ipv6addr, .bytes ip => to16 ip
  | .integer, .nat n => some (beBytes 4 n)
  | .integer64, .nat n => some (beBytes 8 n)
  | .short, .nat n => some (beBytes 2 n)
  | _, _ => none

theorem obfuscate_salted (d : Desc) (hs : d.usesSalt = true) (x secret auth salt a : Bytes)
    (h : obfuscate H d x secret auth salt = .ok a) :
    a = Rfc2868.tunnelPasswordCipher H x salt secret auth := by
  have := usesSalt_encrypt hs
  rw [obfuscate_eq, if_neg (by omega), if_pos hs] at h
  exact newTunnelPassword_eq_rfc H x salt secret auth a h

theorem stored_salted (hH : ∀ x, (H x).length = 16) (d : Desc) (hwf : d.wf) (hs : d.usesSalt = true)
    (tag : UInt8) (v : GVal) (secret auth salt a : Bytes)
    (he : encodeValue H d tag v secret auth salt = .ok a) :
    ∃ p, clearBytes d v = some p ∧
      a = tagPrefix d tag ++ Rfc2868.tunnelPasswordCipher H p salt secret auth := by
  have henc := usesSalt_encrypt hs
  have hnotag : ∀ (_ : d.kind ≠ .string) (_ : d.kind ≠ .octets), tagPrefix d tag = [] := by
    intro h1 h2
    unfold tagPrefix
    rw [if_neg]
    rintro ⟨ht, _⟩
    rcases hwf.2.2.2.1 ht with h | h | h
    · exact h1 h
    · exact h2 h
    · simp [Desc.usesSalt, h, ht] at hs
  cases hk : d.kind <;> cases v <;> simp only [encodeValue, hk, Kind.intBytes] at he <;>
    try (cases he; done)
  case string.bytes b =>
    have he' : encodeValue H d tag (.bytes b) secret auth salt = .ok a := by
      simp only [encodeValue, hk]; exact he
    obtain ⟨c, hc, ha⟩ := stored_text H d (Or.inl hk) tag b secret auth salt a he'
    exact ⟨b, by simp [clearBytes, hk],
      by rw [ha, ((textCipher_length H hH d (Or.inl hk) b secret auth salt c hc).2.2 henc).1]⟩
  case octets.bytes b =>
    have he' : encodeValue H d tag (.bytes b) secret auth salt = .ok a := by
      simp only [encodeValue, hk]; exact he
    obtain ⟨c, hc, ha⟩ := stored_text H d (Or.inr hk) tag b secret auth salt a he'
    exact ⟨b, by simp [clearBytes, hk],
      by rw [ha, ((textCipher_length H hH d (Or.inr hk) b secret auth salt c hc).2.2 henc).1]⟩
  case ipaddr.bytes ip =>
    rw [hnotag (by simp [hk]) (by simp [hk])]
    unfold newIPAddr at he
    cases h4 : to4 ip with
    | none => simp [h4] at he
    | some x =>
      simp only [h4] at he
      exact ⟨x, by simp [clearBytes, hk, h4], obfuscate_salted H d hs x secret auth salt a he⟩
  case ipv6addr.bytes ip =>
    rw [hnotag (by simp [hk]) (by simp [hk])]
    unfold newIPv6Addr at he
    cases h4 : to16 ip with
    | none => simp [h4] at he
    | some x =>
      simp only [h4] at he
      exact ⟨x, by simp [clearBytes, hk, h4], obfuscate_salted H d hs x secret auth salt a he⟩
  case ifid.bytes x => simp [Desc.usesSalt, hk] at hs
  case ipv6prefix.pfx p => simp [Desc.usesSalt, hk] at hs
  case date.time u => simp [Desc.usesSalt, hk] at hs
  case byte.nat n => simp [Desc.usesSalt, hk] at hs
  case integer.nat n =>
    rw [hnotag (by simp [hk]) (by simp [hk])]
    have ht : d.hasTag = false := by have := hs; simp [Desc.usesSalt, hk] at this; exact this.2
    simp only [ht, Bool.false_eq_true, if_false] at he
    exact ⟨_, by simp [clearBytes, hk], obfuscate_salted H d hs _ secret auth salt a he⟩
  case integer64.nat n =>
    rw [hnotag (by simp [hk]) (by simp [hk])]
    have ht : d.hasTag = false := by have := hs; simp [Desc.usesSalt, hk] at this; exact this.2
    simp only [ht, Bool.false_eq_true, if_false] at he
    exact ⟨_, by simp [clearBytes, hk], obfuscate_salted H d hs _ secret auth salt a he⟩
  case short.nat n =>
    rw [hnotag (by simp [hk]) (by simp [hk])]
    have ht : d.hasTag = false := by have := hs; simp [Desc.usesSalt, hk] at this; exact this.2
    simp only [ht, Bool.false_eq_true, if_false] at he
    exact ⟨_, by simp [clearBytes, hk], obfuscate_salted H d hs _ secret auth salt a he⟩


end
end RV
