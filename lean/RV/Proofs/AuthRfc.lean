/- Lemmas linking RV.Model.Auth (byte offsets) to the field-level RFC specification
   RV/Spec/Authenticator.lean; used by RV.Props.C03. -/
import RV.Proofs.Auth
namespace RV
open RfcAuth

/-! ### datagram ↔ fields -/

theorem lengthOctets_lengthField (w : Bytes) :
    Rfc2865.lengthOctets (lengthField w) = [w.getD 2 0, w.getD 3 0] := by
  simp only [Rfc2865.lengthOctets, lengthField, be16_div, be16_mod]

theorem wireFields_length (w : Bytes) (h1 : 20 ≤ lengthField w) (h2 : lengthField w ≤ w.length) :
    (wireFields w).length = lengthField w := by
  simp only [Rfc2865.Fields.length, wireFields, List.length_drop, List.length_take]
  omega

theorem drop20_split (w : Bytes) (h1 : 20 ≤ lengthField w) (h2 : lengthField w ≤ w.length) :
    w.drop 20 = (wireFields w).attributes ++ padding w := by
  simp only [wireFields, padding]
  have h : w.drop 20 = ((w.take (lengthField w)) ++ w.drop (lengthField w)).drop 20 := by
    rw [List.take_append_drop]
  rw [h, List.drop_append_of_le_length (by simp; omega)]

/-- the hash input of the code, in terms of fields: the Length octets are the TRANSMITTED ones, and
    the padding follows the attributes -/
theorem authInput_fields (w a s : Bytes) (h0 : 20 ≤ w.length)
    (h1 : 20 ≤ lengthField w) (h2 : lengthField w ≤ w.length) :
    authInput w a s =
      [(wireFields w).code] ++ [(wireFields w).identifier] ++
        Rfc2865.lengthOctets (wireFields w).length ++ a ++
        ((wireFields w).attributes ++ padding w) ++ s := by
  unfold authInput
  rw [take4_eq w (by omega), drop20_split w h1 h2, wireFields_length w h1 h2,
    lengthOctets_lengthField]
  simp [wireFields]

theorem padding_nil (w : Bytes) (h : lengthField w = w.length) : padding w = [] := by
  simp [padding, h]

theorem zeros16 : zeros 16 = [0, 0, 0, 0, 0, 0, 0, 0, 0, 0, 0, 0, 0, 0, 0, 0] := rfl

/-- without padding the code's hash input is the RFC's -/
theorem hash_authInput_response (H : Hash) (w a s : Bytes) (h0 : 20 ≤ w.length)
    (h : lengthField w = w.length) :
    H (authInput w a s) = Rfc2865.responseAuth H (wireFields w) a s := by
  rw [authInput_fields w a s h0 (by omega) (by omega), padding_nil w h, List.append_nil]
  rfl

theorem hash_authInput_request (H : Hash) (w s : Bytes) (h0 : 20 ≤ w.length)
    (h : lengthField w = w.length) :
    H (authInput w (zeros 16) s) = Rfc2866.requestAuth H (wireFields w) s := by
  rw [authInput_fields w _ s h0 (by omega) (by omega), padding_nil w h, List.append_nil, zeros16]
  rfl

/-! ### `serialize` and `wireFields` are mutually inverse -/

theorem serialize_length (f : Rfc2865.Fields) (ha : f.authenticator.length = 16) :
    (Rfc2865.serialize f).length = f.length := by
  simp [Rfc2865.serialize, Rfc2865.lengthOctets, Rfc2865.Fields.length, ha]; omega

theorem serialize_eq_header (f : Rfc2865.Fields) :
    Rfc2865.serialize f =
      header (f.code.toNat : Int) f.identifier f.length f.authenticator ++ f.attributes := by
  simp [Rfc2865.serialize, Rfc2865.lengthOctets, header, codeByte_toNat]

theorem lengthField_serialize (f : Rfc2865.Fields) (hl : f.length < 65536) :
    lengthField (Rfc2865.serialize f) = f.length := by
  rw [serialize_eq_header]; exact lengthField_header _ _ _ _ _ hl

theorem wireFields_serialize (f : Rfc2865.Fields) (ha : f.authenticator.length = 16)
    (hl : f.length < 65536) : wireFields (Rfc2865.serialize f) = f := by
  have hlf := lengthField_serialize f hl
  have hlen := serialize_length f ha
  unfold wireFields
  rw [hlf, ← hlen, List.take_length]
  obtain ⟨c, i, a, attrs⟩ := f
  simp only at ha
  have h4 : (Rfc2865.serialize ⟨c, i, a, attrs⟩).drop 4 = a ++ attrs := by
    simp [Rfc2865.serialize, Rfc2865.lengthOctets]
  have h20 : (Rfc2865.serialize ⟨c, i, a, attrs⟩).drop 20 = attrs := by
    have : (Rfc2865.serialize ⟨c, i, a, attrs⟩).drop 20 =
        ((Rfc2865.serialize ⟨c, i, a, attrs⟩).drop 4).drop 16 := by simp
    rw [this, h4, List.drop_left' ha]
  rw [h4, h20, List.take_left' ha]
  simp [Rfc2865.serialize, Rfc2865.lengthOctets]

theorem serialize_wireFields (w : Bytes) (h0 : 20 ≤ w.length) (h : lengthField w = w.length) :
    Rfc2865.serialize (wireFields w) = w := by
  rw [serialize_eq_header, wireFields_length w (by omega) (by omega)]
  have := take20_eq_header w h0
  simp only [wireFields]
  rw [← this, h, List.take_length, List.take_append_drop]

/-! ### the code switch against the per-RFC classification -/

/-- the treatment `Encode` must give a packet whose authenticator follows rule `r` -/
def classOf : AuthRule → EncClass
  | .unpredictable => .verbatim
  | .overRequestAuthenticator => .hashReqAuth
  | .overZeroOctets => .hashZero

theorem rule_functional (k : Kind) (r r' : AuthRule) (h : Rule k r) (h' : Rule k r') : r = r' := by
  cases h <;> cases h' <;> rfl

theorem rule_total (k : Kind) : ∃ r, Rule k r := by
  cases k <;> exact ⟨_, by constructor⟩

theorem kind_code_injective (k k' : Kind) (h : k.code = k'.code) : k = k' := by
  cases k <;> cases k' <;> first | rfl | (exact absurd h (by decide))

theorem kind_code_range (k : Kind) : 1 ≤ k.code ∧ k.code ≤ 45 := by
  cases k <;> decide

theorem encodeClass_of_rule (k : Kind) (r : AuthRule) (h : Rule k r) :
    encodeClass (k.code : Int) = classOf r := by
  cases h <;> rfl

theorem kind_of_encodeClass (c : Int) (h : encodeClass c ≠ .refused) :
    ∃ k r, (k.code : Int) = c ∧ Rule k r := by
  have hc : c = 1 ∨ c = 12 ∨ c = 4 ∨ c = 40 ∨ c = 43 ∨ c = 2 ∨ c = 3 ∨ c = 5 ∨ c = 11 ∨ c = 41 ∨
      c = 42 ∨ c = 44 ∨ c = 45 := by
    apply Decidable.by_contra
    intro hn
    simp only [not_or] at hn
    apply h
    simp [encodeClass, hn]
  rcases hc with rfl | rfl | rfl | rfl | rfl | rfl | rfl | rfl | rfl | rfl | rfl | rfl | rfl
  · exact ⟨.accessRequest, _, rfl, .accessRequest⟩
  · exact ⟨.statusServer, _, rfl, .statusServer⟩
  · exact ⟨.accountingRequest, _, rfl, .accountingRequest⟩
  · exact ⟨.disconnectRequest, _, rfl, .disconnectRequest⟩
  · exact ⟨.coaRequest, _, rfl, .coaRequest⟩
  · exact ⟨.accessAccept, _, rfl, .accessAccept⟩
  · exact ⟨.accessReject, _, rfl, .accessReject⟩
  · exact ⟨.accountingResponse, _, rfl, .accountingResponse⟩
  · exact ⟨.accessChallenge, _, rfl, .accessChallenge⟩
  · exact ⟨.disconnectACK, _, rfl, .disconnectACK⟩
  · exact ⟨.disconnectNAK, _, rfl, .disconnectNAK⟩
  · exact ⟨.coaACK, _, rfl, .coaACK⟩
  · exact ⟨.coaNAK, _, rfl, .coaNAK⟩

theorem encodeClass_eq_classOf_iff (c : Int) (r : AuthRule) :
    encodeClass c = classOf r ↔ ∃ k, (k.code : Int) = c ∧ Rule k r := by
  constructor
  · intro h
    obtain ⟨k, r', hk, hr'⟩ := kind_of_encodeClass c (by rw [h]; cases r <;> simp [classOf])
    have := encodeClass_of_rule k r' hr'
    rw [hk, h] at this
    have hrr : r = r' := by cases r <;> cases r' <;> first | rfl | cases this
    exact ⟨k, hk, hrr ▸ hr'⟩
  · rintro ⟨k, rfl, hr⟩
    exact encodeClass_of_rule k r hr

theorem encodeClass_refused_iff (c : Int) :
    encodeClass c = .refused ↔ ∀ k : Kind, (k.code : Int) ≠ c := by
  constructor
  · intro h k hk
    obtain ⟨r, hr⟩ := rule_total k
    have := encodeClass_of_rule k r hr
    rw [hk, h] at this
    cases r <;> cases this
  · intro h
    apply Decidable.by_contra
    intro hn
    obtain ⟨k, _, hk, _⟩ := kind_of_encodeClass c hn
    exact h k hk

/-- the receiving side: what `IsAuthenticRequest` must do with a request of a given rule -/
def reqClassOf : AuthRule → ReqClass
  | .unpredictable => .always
  | .overRequestAuthenticator => .never
  | .overZeroOctets => .hashZero

theorem requestClass_of_rule (k : Kind) (r : AuthRule) (h : Rule k r) :
    requestClass k.code = reqClassOf r := by
  cases h <;> rfl

theorem requestClass_unknown (n : Nat) (h : ∀ k : Kind, k.code ≠ n) : requestClass n = .never := by
  have h1 := h .accessRequest
  have h2 := h .statusServer
  have h3 := h .accountingRequest
  have h4 := h .disconnectRequest
  have h5 := h .coaRequest
  simp only [Kind.code] at h1 h2 h3 h4 h5
  simp [requestClass, Ne.symm h1, Ne.symm h2, Ne.symm h3, Ne.symm h4, Ne.symm h5]

theorem requestClass_iff (n : Nat) (r : AuthRule) (hr : r ≠ .overRequestAuthenticator) :
    requestClass n = reqClassOf r ↔ ∃ k, k.code = n ∧ Rule k r := by
  constructor
  · intro h
    by_cases hk : ∃ k : Kind, k.code = n
    · obtain ⟨k, rfl⟩ := hk
      obtain ⟨r', hr'⟩ := rule_total k
      have := requestClass_of_rule k r' hr'
      rw [h] at this
      have hrr : r = r' := by
        cases r <;> cases r' <;> first | rfl | cases this | exact absurd rfl hr
      exact ⟨k, rfl, hrr ▸ hr'⟩
    · have := requestClass_unknown n (fun k hk' => hk ⟨k, hk'⟩)
      rw [this] at h
      cases r <;> first | exact absurd rfl hr | cases h
  · rintro ⟨k, rfl, hk⟩
    exact requestClass_of_rule k r hk

theorem requestClass_never_iff (n : Nat) :
    requestClass n = .never ↔
      ∀ k : Kind, k.code = n → Rule k .overRequestAuthenticator := by
  constructor
  · intro h k hk
    subst hk
    obtain ⟨r, hr⟩ := rule_total k
    have := requestClass_of_rule k r hr
    rw [h] at this
    cases r
    · cases this
    · exact hr
    · cases this
  · intro h
    by_cases hk : ∃ k : Kind, k.code = n
    · obtain ⟨k, rfl⟩ := hk
      exact requestClass_of_rule k _ (h k rfl)
    · exact requestClass_unknown n (fun k hk' => hk ⟨k, hk'⟩)

/-! ### (a) Encode, field by field -/

theorem codeByte_kind (k : Kind) : codeByte (k.code : Int) = UInt8.ofNat k.code := by
  cases k <;> rfl

theorem getD_of_take4 (w b : Bytes) (h : w.take 4 = b.take 4) (i : Nat) (hi : i < 4) :
    w.getD i 0 = b.getD i 0 := by
  rw [← getD_take w i 4 hi, ← getD_take b i 4 hi, h]

theorem lengthField_of_take4 (w b : Bytes) (h : w.take 4 = b.take 4) :
    lengthField w = lengthField b := by
  unfold lengthField
  rw [getD_of_take4 w b h 2 (by omega), getD_of_take4 w b h 3 (by omega)]

theorem encode_fields_aux (H : Hash) (hH : ∀ x, (H x).length = 16) (p : Packet) (w : Bytes)
    (ha : p.auth.length = 16) (h : encode H p = .ok w) :
    ∃ k r, (k.code : Int) = p.code ∧ Rule k r ∧
      lengthField w = w.length ∧ w.length = 20 + (encodeBytes p.attrs).length ∧
      (wireFields w).code = UInt8.ofNat k.code ∧
      (wireFields w).identifier = p.id ∧
      (wireFields w).length = 20 + (encodeBytes p.attrs).length ∧
      (wireFields w).authenticator = authenticatorFor H r (wireFields w) p.auth p.secret ∧
      (wireFields w).attributes = encodeBytes p.attrs ∧
      w = Rfc2865.serialize (wireFields w) := by
  obtain ⟨hauth, b, hm, ht4, hd20, hlen⟩ := encode_auth_field H hH p w ha h
  have hne : encodeClass p.code ≠ .refused := by
    rw [encodeClass_eq_rfc]
    exact ((encode_ok_iff_cond H p).1 ⟨w, h⟩).1
  obtain ⟨k, r, hk, hr⟩ := kind_of_encodeClass p.code hne
  have hcls : Rfc.encClass p.code = classOf r := by
    rw [← encodeClass_eq_rfc, ← hk]; exact encodeClass_of_rule k r hr
  -- shape of the marshalled datagram
  have hm' := hm
  rw [marshal_eq] at hm'
  by_cases hcond : okLens p.attrs = true ∧ 20 + (encodeBytes p.attrs).length ≤ 4096
  · rw [if_pos hcond] at hm'
    simp only [Res.ok.injEq] at hm'
    have hhl := header_length p.code p.id (20 + (encodeBytes p.attrs).length) p.auth
    rw [ha] at hhl
    have hbl : b.length = 20 + (encodeBytes p.attrs).length := by
      rw [← hm', List.length_append, hhl]
    have hlfb : lengthField b = 20 + (encodeBytes p.attrs).length := by
      rw [← hm']; exact lengthField_header _ _ _ _ _ (by omega)
    have hlf : lengthField w = w.length := by
      rw [lengthField_of_take4 w b ht4, hlfb, hlen, hbl]
    have hw20 : 20 ≤ w.length := by omega
    have hb0 : b.getD 0 0 = codeByte p.code := marshal_ok_code p b hm
    have hb1 : b.getD 1 0 = p.id := by rw [← hm']; simp [header]
    have hbd : b.drop 20 = encodeBytes p.attrs := by rw [← hm', List.drop_left' hhl]
    have hattr : (wireFields w).attributes = encodeBytes p.attrs := by
      simp only [wireFields]
      rw [hlf, List.take_length, hd20, hbd]
    have hflen : (wireFields w).length = 20 + (encodeBytes p.attrs).length := by
      rw [wireFields_length w (by omega) (by omega), hlf, hlen, hbl]
    refine ⟨k, r, hk, hr, hlf, by omega, ?_, ?_, hflen, ?_, hattr,
      (serialize_wireFields w hw20 hlf).symm⟩
    · simp only [wireFields]
      rw [getD_of_take4 w b ht4 0 (by omega), hb0, ← hk, codeByte_kind]
    · simp only [wireFields]
      rw [getD_of_take4 w b ht4 1 (by omega), hb1]
    · have : (wireFields w).authenticator = (w.drop 4).take 16 := rfl
      rw [this, hauth, hcls]
      cases r
      · rfl
      · simp only [classOf, authenticatorFor]
        rw [replyAuth_eq, hash_authInput_response H w _ _ hw20 hlf]
      · simp only [classOf, authenticatorFor]
        rw [replyAuth_eq, hash_authInput_request H w _ hw20 hlf]
  · rw [if_neg hcond] at hm'; cases hm'

/-! ### (b), (c) the response predicate -/

theorem isAuthenticResponse_padding (H : Hash) (w req s : Bytes)
    (h1 : 20 ≤ lengthField w) (h2 : lengthField w ≤ w.length) :
    isAuthenticResponse H w req s = true ↔
      s ≠ [] ∧ 20 ≤ req.length ∧
      (wireFields w).authenticator =
        H ([(wireFields w).code] ++ [(wireFields w).identifier] ++
            Rfc2865.lengthOctets (wireFields w).length ++ (wireFields req).authenticator ++
            ((wireFields w).attributes ++ padding w) ++ s) := by
  rw [isAuthenticResponse_iff_rfc, replyAuth_eq, authInput_fields w _ s (by omega) h1 h2]
  constructor
  · rintro ⟨_, hq, hs, he⟩; exact ⟨hs, hq, he⟩
  · rintro ⟨hs, hq, he⟩; exact ⟨by omega, hq, hs, he⟩

theorem isAuthenticResponse_fields (H : Hash) (w req s : Bytes) (hpad : lengthField w = w.length) :
    isAuthenticResponse H w req s = true ↔
      s ≠ [] ∧ 20 ≤ w.length ∧ 20 ≤ req.length ∧
      (wireFields w).authenticator =
        Rfc2865.responseAuth H (wireFields w) (wireFields req).authenticator s := by
  rw [isAuthenticResponse_iff_rfc, replyAuth_eq]
  constructor
  · rintro ⟨hw, hq, hs, he⟩
    rw [hash_authInput_response H w _ s hw hpad] at he
    exact ⟨hs, hw, hq, he⟩
  · rintro ⟨hs, hw, hq, he⟩
    rw [hash_authInput_response H w _ s hw hpad]
    exact ⟨hw, hq, hs, he⟩

theorem wireFields_append (w pad : Bytes) (h1 : 20 ≤ lengthField w) (h2 : lengthField w ≤ w.length) :
    wireFields (w ++ pad) = wireFields w ∧ padding (w ++ pad) = padding w ++ pad ∧
      lengthField (w ++ pad) = lengthField w := by
  have hl := lengthField_append w pad (by omega)
  refine ⟨?_, ?_, hl⟩
  · simp only [wireFields]
    rw [hl, getD_append_left w pad 0 (by omega), getD_append_left w pad 1 (by omega),
      auth_append w pad (by omega), List.take_append_of_le_length h2]
  · simp only [padding]
    rw [hl, List.drop_append_of_le_length h2]

/-! ### (d) the request predicate -/

theorem isAuthenticRequest_padding (H : Hash) (q s : Bytes)
    (h1 : 20 ≤ lengthField q) (h2 : lengthField q ≤ q.length) :
    isAuthenticRequest H q s = true ↔
      s ≠ [] ∧
      ∃ k : Kind, k.code = (wireFields q).code.toNat ∧
        (Rule k .unpredictable ∨
         (Rule k .overZeroOctets ∧
          (wireFields q).authenticator =
            H ([(wireFields q).code] ++ [(wireFields q).identifier] ++
                Rfc2865.lengthOctets (wireFields q).length ++
                [0, 0, 0, 0, 0, 0, 0, 0, 0, 0, 0, 0, 0, 0, 0, 0] ++
                ((wireFields q).attributes ++ padding q) ++ s))) := by
  rw [isAuthenticRequest_iff_rfc, replyAuth_eq, authInput_fields q _ s (by omega) h1 h2,
    ← requestClass_eq_rfc, zeros16]
  have hcode : (wireFields q).code = q.getD 0 0 := rfl
  rw [← hcode]
  constructor
  · rintro ⟨_, hs, hm⟩
    refine ⟨hs, ?_⟩
    cases hc : requestClass (wireFields q).code.toNat with
    | always =>
      obtain ⟨k, hk, hr⟩ := (requestClass_iff _ .unpredictable (by simp)).1 hc
      exact ⟨k, hk, Or.inl hr⟩
    | hashZero =>
      rw [hc] at hm
      obtain ⟨k, hk, hr⟩ := (requestClass_iff _ .overZeroOctets (by simp)).1 hc
      exact ⟨k, hk, Or.inr ⟨hr, hm⟩⟩
    | never => rw [hc] at hm; exact hm.elim
  · rintro ⟨hs, k, hk, hr⟩
    refine ⟨by omega, hs, ?_⟩
    rcases hr with hr | ⟨hr, he⟩
    · rw [← hk, requestClass_of_rule k _ hr]; trivial
    · rw [← hk, requestClass_of_rule k _ hr]; exact he

theorem isAuthenticRequest_fields (H : Hash) (q s : Bytes) (hpad : lengthField q = q.length) :
    isAuthenticRequest H q s = true ↔
      s ≠ [] ∧ 20 ≤ q.length ∧
      ∃ k : Kind, k.code = (wireFields q).code.toNat ∧
        (Rule k .unpredictable ∨
         (Rule k .overZeroOctets ∧
          (wireFields q).authenticator = Rfc2866.requestAuth H (wireFields q) s)) := by
  by_cases h20 : 20 ≤ q.length
  · rw [isAuthenticRequest_padding H q s (by omega) (by omega), padding_nil q hpad, List.append_nil]
    constructor
    · rintro ⟨hs, k, hk, hr⟩; exact ⟨hs, h20, k, hk, hr⟩
    · rintro ⟨hs, _, k, hk, hr⟩; exact ⟨hs, k, hk, hr⟩
  · constructor
    · intro h
      have := ((isAuthenticRequest_iff_rfc H q s).1 h).1
      omega
    · rintro ⟨_, h, _⟩; omega

/-! ### `parse` reads exactly these fields -/

theorem parse_fields_aux (w s : Bytes) (p : Packet) (h : parse w s = .ok p) :
    p.code = ((wireFields w).code.toNat : Int) ∧ p.id = (wireFields w).identifier ∧
      p.auth = (wireFields w).authenticator ∧
      parseAttrs (wireFields w).attributes = .ok p.attrs ∧
      encodeBytes p.attrs = (wireFields w).attributes ∧
      (wireFields w).length = lengthField w := by
  obtain ⟨h1, h2, h3, h4, as, hp, rfl⟩ := (parse_ok_iff w s p).1 h
  exact ⟨rfl, rfl, rfl, hp, (encode_parseAttrs _ _ hp).1, wireFields_length w h2 h4⟩

/-! ### tampering -/

theorem isAuthenticResponse_eq_true_iff (H : Hash) (r q s : Bytes) :
    isAuthenticResponse H r q s = true ↔
      20 ≤ r.length ∧ 20 ≤ q.length ∧ s ≠ [] ∧
      (r.drop 4).take 16 = H (authInput r ((q.drop 4).take 16) s) := by
  rw [isAuthenticResponse_iff_rfc, replyAuth_eq]

theorem not_true_eq_false' {b : Bool} (h : ¬ b = true) : b = false := by
  cases b <;> simp_all

/-- the authenticator field itself altered, everything else kept: rejected outright -/
theorem tamper_authfield_aux (H : Hash) (r r' q s : Bytes)
    (hok : isAuthenticResponse H r q s = true)
    (h4 : r'.take 4 = r.take 4) (h20 : r'.drop 20 = r.drop 20)
    (hne : (r'.drop 4).take 16 ≠ (r.drop 4).take 16) :
    isAuthenticResponse H r' q s = false := by
  apply not_true_eq_false'
  intro h'
  obtain ⟨_, _, _, e⟩ := (isAuthenticResponse_eq_true_iff H r q s).1 hok
  obtain ⟨_, _, _, e'⟩ := (isAuthenticResponse_eq_true_iff H r' q s).1 h'
  apply hne
  rw [e, e']
  unfold authInput
  rw [h4, h20]

/-- the covered octets of the response altered (authenticator field kept): the hash inputs differ,
    and the altered datagram is rejected unless `H` collides on exactly these two inputs -/
theorem tamper_covered_aux (H : Hash) (r r' q s : Bytes)
    (hok : isAuthenticResponse H r q s = true) (hr' : 20 ≤ r'.length)
    (hauth : (r'.drop 4).take 16 = (r.drop 4).take 16)
    (hne : r'.take 4 ≠ r.take 4 ∨ r'.drop 20 ≠ r.drop 20) :
    authInput r' ((q.drop 4).take 16) s ≠ authInput r ((q.drop 4).take 16) s ∧
    (H (authInput r' ((q.drop 4).take 16) s) ≠ H (authInput r ((q.drop 4).take 16) s) →
      isAuthenticResponse H r' q s = false) := by
  obtain ⟨hr, hq, hs, e⟩ := (isAuthenticResponse_eq_true_iff H r q s).1 hok
  constructor
  · intro heq
    unfold authInput at heq
    simp only [List.append_assoc] at heq
    have hl4 : (r'.take 4).length = (r.take 4).length := by simp; omega
    obtain ⟨e1, heq⟩ := List.append_inj heq hl4
    obtain ⟨_, heq⟩ := List.append_inj heq rfl
    have e3 := List.append_cancel_right heq
    rcases hne with hne | hne
    · exact hne e1
    · exact hne e3
  · intro hH
    apply not_true_eq_false'
    intro h'
    obtain ⟨_, _, _, e'⟩ := (isAuthenticResponse_eq_true_iff H r' q s).1 h'
    apply hH
    rw [← e, ← e', hauth]

theorem short_rejected_aux (H : Hash) (r q s : Bytes) (h : r.length < 20 ∨ q.length < 20 ∨ s = []) :
    isAuthenticResponse H r q s = false := by
  apply not_true_eq_false'
  intro h'
  obtain ⟨h1, h2, h3, _⟩ := (isAuthenticResponse_eq_true_iff H r q s).1 h'
  rcases h with h | h | h
  · omega
  · omega
  · exact h3 h

/-- another secret (ANY other: other length included) -/
theorem tamper_secret_aux (H : Hash) (r q s s' : Bytes)
    (hok : isAuthenticResponse H r q s = true) (hne : s' ≠ s) :
    authInput r ((q.drop 4).take 16) s' ≠ authInput r ((q.drop 4).take 16) s ∧
    (H (authInput r ((q.drop 4).take 16) s') ≠ H (authInput r ((q.drop 4).take 16) s) →
      isAuthenticResponse H r q s' = false) := by
  obtain ⟨hr, hq, hs, e⟩ := (isAuthenticResponse_eq_true_iff H r q s).1 hok
  constructor
  · intro heq
    unfold authInput at heq
    exact hne (List.append_cancel_left heq)
  · intro hH
    apply not_true_eq_false'
    intro h'
    obtain ⟨_, _, _, e'⟩ := (isAuthenticResponse_eq_true_iff H r q s').1 h'
    apply hH
    rw [← e, ← e']

/-- another request authenticator -/
theorem tamper_reqauth_aux (H : Hash) (r q q' s : Bytes)
    (hok : isAuthenticResponse H r q s = true) (hq' : 20 ≤ q'.length)
    (hne : (q'.drop 4).take 16 ≠ (q.drop 4).take 16) :
    authInput r ((q'.drop 4).take 16) s ≠ authInput r ((q.drop 4).take 16) s ∧
    (H (authInput r ((q'.drop 4).take 16) s) ≠ H (authInput r ((q.drop 4).take 16) s) →
      isAuthenticResponse H r q' s = false) := by
  obtain ⟨hr, hq, hs, e⟩ := (isAuthenticResponse_eq_true_iff H r q s).1 hok
  constructor
  · intro heq
    unfold authInput at heq
    simp only [List.append_assoc] at heq
    obtain ⟨_, heq⟩ := List.append_inj heq rfl
    have hl : ((q'.drop 4).take 16).length = ((q.drop 4).take 16).length := by simp; omega
    exact hne (List.append_inj heq hl).1
  · intro hH
    apply not_true_eq_false'
    intro h'
    obtain ⟨_, _, _, e'⟩ := (isAuthenticResponse_eq_true_iff H r q' s).1 h'
    apply hH
    rw [← e, ← e']

/-- only octets 4..19 of the request are looked at -/
theorem request_rest_not_covered_aux (H : Hash) (r q q' s : Bytes)
    (hq : 20 ≤ q.length) (hq' : 20 ≤ q'.length)
    (he : (q'.drop 4).take 16 = (q.drop 4).take 16) :
    isAuthenticResponse H r q' s = isAuthenticResponse H r q s := by
  unfold isAuthenticResponse
  rw [he]
  have h1 : ¬ q.length < 20 := by omega
  have h2 : ¬ q'.length < 20 := by omega
  simp [h1, h2]

/-! one altered octet -/

theorem set_authfield_same (r : Bytes) (i : Nat) (b : UInt8) (hi : i < 4 ∨ 20 ≤ i) :
    ((r.set i b).drop 4).take 16 = (r.drop 4).take 16 := by
  apply List.ext_getElem?
  intro j
  simp only [List.getElem?_take, List.getElem?_drop]
  split
  · rw [List.getElem?_set_ne (by omega)]
  · rfl

theorem set_take4_same (r : Bytes) (i : Nat) (b : UInt8) (hi : 4 ≤ i) :
    (r.set i b).take 4 = r.take 4 := by
  apply List.ext_getElem?
  intro j
  simp only [List.getElem?_take]
  split
  · rw [List.getElem?_set_ne (by omega)]
  · rfl

theorem set_drop20_same (r : Bytes) (i : Nat) (b : UInt8) (hi : i < 20) :
    (r.set i b).drop 20 = r.drop 20 := by
  apply List.ext_getElem?
  intro j
  simp only [List.getElem?_drop]
  rw [List.getElem?_set_ne (by omega)]

theorem set_covered_differs (r : Bytes) (i : Nat) (b : UInt8) (hlt : i < r.length)
    (hb : b ≠ r[i]) (hi : i < 4 ∨ 20 ≤ i) :
    (r.set i b).take 4 ≠ r.take 4 ∨ (r.set i b).drop 20 ≠ r.drop 20 := by
  rcases hi with hi | hi
  · left
    intro heq
    have := congrArg (fun l => l[i]?) heq
    simp only [List.getElem?_take, hi, if_true, List.getElem?_set_self hlt,
      List.getElem?_eq_getElem hlt, Option.some.injEq] at this
    exact hb this
  · right
    intro heq
    have := congrArg (fun l => l[i - 20]?) heq
    have h20 : 20 + (i - 20) = i := by omega
    simp only [List.getElem?_drop, h20, List.getElem?_set_self hlt,
      List.getElem?_eq_getElem hlt, Option.some.injEq] at this
    exact hb this

theorem set_authfield_differs (r : Bytes) (i : Nat) (b : UInt8) (hlt : i < r.length)
    (hb : b ≠ r[i]) (h4 : 4 ≤ i) (h20 : i < 20) :
    ((r.set i b).drop 4).take 16 ≠ (r.drop 4).take 16 := by
  intro heq
  have := congrArg (fun l => l[i - 4]?) heq
  have h1 : i - 4 < 16 := by omega
  have h2 : 4 + (i - 4) = i := by omega
  simp only [List.getElem?_take, h1, if_true, List.getElem?_drop, h2, List.getElem?_set_self hlt,
    List.getElem?_eq_getElem hlt, Option.some.injEq] at this
  exact hb this

/-- without padding the Length field delimits the attributes, so the covered data determine the
    hash input injectively whatever the lengths of the secrets -/
theorem authInput_injective_nopad (r r' a a' s s' : Bytes)
    (hr : 20 ≤ r.length) (hr' : 20 ≤ r'.length) (ha : a.length = 16) (ha' : a'.length = 16)
    (hp : lengthField r = r.length) (hp' : lengthField r' = r'.length)
    (h : authInput r a s = authInput r' a' s') :
    r.take 4 = r'.take 4 ∧ a = a' ∧ r.drop 20 = r'.drop 20 ∧ s = s' := by
  unfold authInput at h
  simp only [List.append_assoc] at h
  have h4 : (r.take 4).length = (r'.take 4).length := by simp; omega
  obtain ⟨e1, h⟩ := List.append_inj h h4
  obtain ⟨e2, h⟩ := List.append_inj h (by omega)
  have hl : r.length = r'.length := by rw [← hp, ← hp', lengthField_of_take4 r r' e1]
  obtain ⟨e3, e4⟩ := List.append_inj h (by simp; omega)
  exact ⟨e1, e2, e3, e4⟩

/-! ### New and the entropy source -/

theorem newFrom_ok_iff (src : Bytes) (c : Int) (s : Bytes) (p : Packet) (rest : Bytes) :
    newFrom src c s = .ok (p, rest) ↔
      src = (p.id :: p.auth) ++ rest ∧ p.auth.length = 16 ∧ p.code = c ∧ p.secret = s ∧
        p.attrs = [] := by
  unfold newFrom
  constructor
  · intro h
    split at h
    · cases h
    · rename_i hl
      simp only [Res.ok.injEq, Prod.mk.injEq] at h
      obtain ⟨rfl, rfl⟩ := h
      match src, hl with
      | x :: xs, hl =>
        have hx : 16 ≤ xs.length := by simp at hl; omega
        refine ⟨?_, by simp [newPacket]; omega, rfl, rfl, rfl⟩
        simp [newPacket, List.take_take]
  · rintro ⟨rfl, ha, rfl, rfl, hat⟩
    have hl : ¬ ((p.id :: p.auth) ++ rest).length < 17 := by simp; omega
    rw [if_neg hl]
    obtain ⟨c, i, a, s, at_⟩ := p
    simp only at ha hat
    subst hat
    simp [newPacket, ← ha]

theorem newFrom_fault_iff (src : Bytes) (c : Int) (s : Bytes) :
    newFrom src c s = .fault ↔ src.length < 17 := by
  unfold newFrom
  split <;> simp_all

theorem newFrom_ne_err (src : Bytes) (c : Int) (s : Bytes) : newFrom src c s ≠ .err := by
  unfold newFrom
  split <;> simp

theorem newFrom_prefix (src more : Bytes) (c : Int) (s : Bytes) (p : Packet) (rest : Bytes)
    (h : newFrom src c s = .ok (p, rest)) :
    newFrom (src.take 17 ++ more) c s = .ok (p, more) := by
  obtain ⟨rfl, ha, hc, hs, hat⟩ := (newFrom_ok_iff src c s p rest).1 h
  rw [newFrom_ok_iff]
  refine ⟨?_, ha, hc, hs, hat⟩
  have : ((p.id :: p.auth) ++ rest).take 17 = p.id :: p.auth := by
    rw [List.take_append_of_le_length (by simp; omega)]
    exact List.take_of_length_le (by simp; omega)
  rw [this]

theorem newFrom_eq_newPacket (rnd : Bytes) (c : Int) (s : Bytes) (h : rnd.length = 17) :
    newFrom rnd c s = .ok (newPacket rnd c s, []) := by
  unfold newFrom
  rw [if_neg (by omega), List.take_of_length_le (by omega), List.drop_eq_nil_of_le (by omega)]

theorem newMany_ok (calls : List (Int × Bytes)) (src : Bytes) (ps : List Packet) (rest : Bytes)
    (h : newMany calls src = .ok (ps, rest)) :
    ps.length = calls.length ∧ rest = src.drop (17 * calls.length) ∧
      17 * calls.length ≤ src.length ∧
      ∀ k (hk : k < calls.length), ∃ p, ps[k]? = some p ∧
        newStream src k calls[k].1 calls[k].2 = .ok p := by
  induction calls generalizing src ps rest with
  | nil =>
    simp only [newMany, Res.ok.injEq, Prod.mk.injEq] at h
    obtain ⟨rfl, rfl⟩ := h
    simp
  | cons cs calls ih =>
    obtain ⟨c, s⟩ := cs
    unfold newMany at h
    cases hn : newFrom src c s with
    | ok pr =>
      obtain ⟨p, r1⟩ := pr
      rw [hn] at h
      simp only at h
      cases hm : newMany calls r1 with
      | ok qr =>
        obtain ⟨qs, r2⟩ := qr
        rw [hm] at h
        simp only [Res.ok.injEq, Prod.mk.injEq] at h
        obtain ⟨rfl, rfl⟩ := h
        obtain ⟨hlen, hrest, hle, hwin⟩ := ih r1 qs r2 hm
        obtain ⟨hsrc, ha, _, _, _⟩ := (newFrom_ok_iff src c s p r1).1 hn
        have hr1 : r1 = src.drop 17 := by
          rw [hsrc]; exact (List.drop_left' (by simp; omega)).symm
        have hsl : src.length = 17 + r1.length := by rw [hsrc]; simp; omega
        refine ⟨by simp [hlen], ?_, by simp only [List.length_cons]; omega, ?_⟩
        · rw [hrest, hr1, List.drop_drop]
          congr 1
          simp only [List.length_cons]; omega
        · intro k hk
          cases k with
          | zero =>
            refine ⟨p, rfl, ?_⟩
            simp only [newStream, Nat.mul_zero, List.drop_zero, List.getElem_cons_zero, hn]
          | succ k =>
            obtain ⟨q, hq, hs⟩ := hwin k (by simpa using hk)
            refine ⟨q, by simpa using hq, ?_⟩
            simp only [List.getElem_cons_succ]
            have : src.drop (17 * (k + 1)) = r1.drop (17 * k) := by
              rw [hr1, List.drop_drop]; congr 1; omega
            unfold newStream at hs ⊢
            rw [this]; exact hs
      | err => rw [hm] at h; cases h
      | fault => rw [hm] at h; cases h
    | err => rw [hn] at h; cases h
    | fault => rw [hn] at h; cases h

theorem newStream_ok (src : Bytes) (k : Nat) (c : Int) (s : Bytes) (p : Packet)
    (h : newStream src k c s = .ok p) :
    17 * k + 17 ≤ src.length ∧
    p.id = src.getD (17 * k) 0 ∧ p.auth = (src.drop (17 * k + 1)).take 16 ∧
      (∀ j, j < 16 → p.auth.getD j 0 = src.getD (17 * k + 1 + j) 0) ∧
      p.auth.length = 16 ∧ p.code = c ∧ p.secret = s ∧ p.attrs = [] := by
  unfold newStream at h
  cases hn : newFrom (src.drop (17 * k)) c s with
  | ok pr =>
    obtain ⟨q, rest⟩ := pr
    rw [hn] at h
    simp only [Res.ok.injEq] at h
    subst h
    obtain ⟨hsrc, ha, hc, hs, hat⟩ := (newFrom_ok_iff _ c s q rest).1 hn
    have hlen : 17 * k + 17 ≤ src.length := by
      have := congrArg List.length hsrc
      simp at this; omega
    have hid : q.id = src.getD (17 * k) 0 := by
      have := congrArg (fun l => l.getD 0 0) hsrc
      simp only [List.cons_append, List.getD_cons_zero] at this
      rw [← this, List.getD_eq_getElem?_getD, List.getElem?_drop]
      simp [List.getD_eq_getElem?_getD]
    have hau : q.auth = (src.drop (17 * k + 1)).take 16 := by
      have h1 : src.drop (17 * k + 1) = (src.drop (17 * k)).drop 1 := by
        rw [List.drop_drop]
      rw [h1, hsrc]
      simp only [List.cons_append, List.drop_succ_cons, List.drop_zero]
      rw [List.take_left' ha]
    refine ⟨hlen, hid, hau, ?_, ha, hc, hs, hat⟩
    intro j hj
    rw [hau]
    simp only [List.getD_eq_getElem?_getD, List.getElem?_take, hj, if_true, List.getElem?_drop]
  | err => rw [hn] at h; cases h
  | fault => rw [hn] at h; cases h

theorem newStream_fault_iff (src : Bytes) (k : Nat) (c : Int) (s : Bytes) :
    newStream src k c s = .fault ↔ src.length < 17 * k + 17 := by
  unfold newStream
  cases hn : newFrom (src.drop (17 * k)) c s with
  | ok pr =>
    obtain ⟨q, rest⟩ := pr
    obtain ⟨hsrc, ha, _⟩ := (newFrom_ok_iff _ c s q rest).1 hn
    have := congrArg List.length hsrc
    simp at this
    constructor
    · intro h; cases h
    · intro h; omega
  | err => exact absurd hn (newFrom_ne_err _ c s)
  | fault =>
    have := (newFrom_fault_iff _ c s).1 hn
    simp at this
    constructor
    · intro _; omega
    · intro _; rfl

end RV
