/-
  Helper lemmas for C20 (dictionary Merge): the check loops decide the statement's conflict condition,
  the assembly loop computes the ordered union, the repaired Merge only allocates.
-/
import RV.Model.DictMerge
namespace RV.DictMerge
open RV.Dict

/-! ## generic list facts -/

theorem find?_congr' {α} {p q : α → Bool} {l : List α} (h : ∀ x ∈ l, p x = q x) :
    l.find? p = l.find? q := by
  induction l with
  | nil => rfl
  | cons x xs ih =>
    have hx := h x (by simp)
    simp only [List.find?_cons, hx]
    rw [ih (fun y hy => h y (by simp [hy]))]

/-- in a list without repeated keys, looking a member's key up finds that member -/
theorem find?_key_of_nodup {α β} [BEq β] [LawfulBEq β] (f : α → β) {l : List α} (hn : (l.map f).Nodup)
    {a : α} (ha : a ∈ l) : l.find? (fun x => f x == f a) = some a := by
  induction l with
  | nil => cases ha
  | cons x xs ih =>
    rw [List.map_cons, List.nodup_cons] at hn
    rw [List.find?_cons]
    rcases List.mem_cons.mp ha with rfl | hxs
    · simp
    · have hne : f x ≠ f a := by
        intro heq
        exact hn.1 (heq ▸ List.mem_map.mpr ⟨a, hxs, rfl⟩)
      have : (f x == f a) = false := by simp [hne]
      simp only [this]
      exact ih hn.2 hxs

theorem eq_of_nodup_map {α β} [BEq β] [LawfulBEq β] (f : α → β) {l : List α} (hn : (l.map f).Nodup)
    {a b : α} (ha : a ∈ l) (hb : b ∈ l) (h : f a = f b) : a = b := by
  have h1 := find?_key_of_nodup f hn ha
  have h2 := find?_key_of_nodup f hn hb
  rw [h] at h1
  exact Option.some.inj (h1.symm.trans h2)

/-- replacing the first element with key `n` = mapping over the elements with key `n`, when keys are unique -/
theorem set_findIdx?_eq_map {α β} [BEq β] [LawfulBEq β] (k : α → β) (g : α → α) (d : α) (n : β) :
    ∀ {l : List α} {i : Nat}, (l.map k).Nodup → l.findIdx? (fun w => k w == n) = some i →
      l.set i (g (l.getD i d)) = l.map (fun a => if k a == n then g a else a) := by
  intro l
  induction l with
  | nil => intro i _ h; simp at h
  | cons x xs ih =>
    intro i hn h
    rw [List.map_cons, List.nodup_cons] at hn
    rw [List.findIdx?_cons] at h
    by_cases hx : (k x == n) = true
    · simp only [hx, if_true, Option.some.injEq] at h
      subst h
      have hid : xs.map (fun a => if k a == n then g a else a) = xs := by
        have : xs.map (fun a => if k a == n then g a else a) = xs.map (fun a => a) := by
          apply List.map_congr_left
          intro a ha
          have hne : k a ≠ n := by
            intro he
            have hxn : k x = n := by simpa using hx
            exact hn.1 (List.mem_map.mpr ⟨a, ha, by rw [he, hxn]⟩)
          have : (k a == n) = false := by simp [hne]
          simp only [this, Bool.false_eq_true, if_false]
        rw [this, List.map_id']
      simp only [List.set_cons_zero, List.getD_cons_zero, List.map_cons, hx, if_true, hid]
    · have hx' : (k x == n) = false := by simpa using hx
      simp only [hx', Bool.false_eq_true, if_false] at h
      cases hj : xs.findIdx? (fun w => k w == n) with
      | none => simp [hj] at h
      | some j =>
        simp only [hj, Option.map_some, Option.some.injEq] at h
        subst h
        have := ih hn.2 hj
        simp only [List.set_cons_succ, List.map_cons, hx', Bool.false_eq_true, if_false]
        rw [← this]
        simp

/-! ## the store -/

theorem deref_append_left {st ext : Store} {r : Ref} (h : r < st.length) :
    deref (st ++ ext) r = deref st r := by
  simp [deref, List.getElem?_append_left h]

theorem deref_append_length (st : Store) (v : Vendor) : deref (st ++ [v]) st.length = v := by
  simp [deref]

theorem map_deref_append {st ext : Store} {rs : List Ref} (h : ∀ r ∈ rs, r < st.length) :
    rs.map (deref (st ++ ext)) = rs.map (deref st) :=
  List.map_congr_left (fun r hr => deref_append_left (h r hr))

/-! ## the check loops -/

theorem attrConflict_iff (ex : List Attribute) (a : Attribute) :
    attrConflict ex a = true ↔ ∃ b ∈ ex, b.name = a.name ∨ b.oid = a.oid := by
  unfold attrConflict attributeByName attributeByOID
  cases hn : ex.find? (fun x => x.name == a.name) with
  | some b =>
    simp only [true_iff]
    exact ⟨b, List.mem_of_find?_eq_some hn, Or.inl (by simpa using List.find?_some hn)⟩
  | none =>
    simp only [List.find?_isSome]
    rw [List.find?_eq_none] at hn
    constructor
    · rintro ⟨b, hb, hp⟩
      exact ⟨b, hb, Or.inr (by simpa using hp)⟩
    · rintro ⟨b, hb, h | h⟩
      · exact absurd (by simpa using h) (hn b hb)
      · exact ⟨b, hb, by simpa using h⟩

theorem any_attrConflict_false_iff (a1 a2 : List Attribute) :
    a2.any (attrConflict a1) = false ↔ Spec.AttrsDisjoint a1 a2 := by
  unfold Spec.AttrsDisjoint
  rw [← Bool.not_eq_true, List.any_eq_true]
  constructor
  · intro h a ha b hb
    constructor
    · intro he; exact h ⟨a, ha, (attrConflict_iff a1 a).mpr ⟨b, hb, Or.inl he⟩⟩
    · intro he; exact h ⟨a, ha, (attrConflict_iff a1 a).mpr ⟨b, hb, Or.inr he⟩⟩
  · rintro h ⟨a, ha, hc⟩
    obtain ⟨b, hb, he⟩ := (attrConflict_iff a1 a).mp hc
    rcases he with he | he
    · exact (h a ha b hb).1 he
    · exact (h a ha b hb).2 he

theorem checkTop_ok_iff (a1 a2 : List Attribute) :
    checkTop a1 a2 = .ok () ↔ Spec.AttrsDisjoint a1 a2 := by
  rw [← any_attrConflict_false_iff]
  induction a2 with
  | nil => simp [checkTop]
  | cons a rest ih =>
    unfold checkTop
    cases hc : attrConflict a1 a <;> simp [ih, hc]

/-- what the vendor loop checks, reference by reference -/
def VendorPass (st : Store) (vs1 : List Ref) (r : Ref) : Prop :=
  refByName st vs1 (deref st r).name = refByNumber st vs1 (deref st r).number ∧
  ∀ q, refByName st vs1 (deref st r).name = some q →
    Spec.AttrsDisjoint (deref st q).attributes (deref st r).attributes

theorem checkVendors_ok_iff (st : Store) (vs1 vs2 : List Ref) :
    checkVendors st vs1 vs2 = .ok () ↔ ∀ r ∈ vs2, VendorPass st vs1 r := by
  induction vs2 with
  | nil => simp [checkVendors]
  | cons r rest ih =>
    unfold checkVendors
    simp only [List.mem_cons, forall_eq_or_imp, VendorPass]
    by_cases hne : refByName st vs1 (deref st r).name = refByNumber st vs1 (deref st r).number
    · simp only [hne, bne_self_eq_false, Bool.false_eq_true, if_false]
      cases hq : refByNumber st vs1 (deref st r).number with
      | none => simp [ih, VendorPass]
      | some q =>
        simp only [true_and]
        cases hany : (deref st r).attributes.any (attrConflict (deref st q).attributes) with
        | true =>
          simp only [if_true, reduceCtorEq, false_iff]
          rintro ⟨h, _⟩
          have := (any_attrConflict_false_iff _ _).mpr (h q rfl)
          rw [hany] at this; cases this
        | false =>
          simp only [Bool.false_eq_true, if_false, ih, VendorPass]
          constructor
          · intro h
            refine ⟨?_, h⟩
            intro q' hq'; cases hq'
            exact (any_attrConflict_false_iff _ _).mp hany
          · exact fun h => h.2
    · have : (refByName st vs1 (deref st r).name != refByNumber st vs1 (deref st r).number) = true := by
        simpa using hne
      simp only [this, if_true, reduceCtorEq, false_iff]
      exact fun h => hne h.1.1

/-- under unique names and numbers in `vs1`, pointer equality of the two lookups is the statement's
    "matches on both name and number or on neither" -/
theorem lookups_agree_iff (st : Store) (vs1 : List Ref) (v : Vendor)
    (hn : (vs1.map (fun r => (deref st r).name)).Nodup)
    (hk : (vs1.map (fun r => (deref st r).number)).Nodup) :
    refByName st vs1 v.name = refByNumber st vs1 v.number ↔ Spec.VendorOK (vs1.map (deref st)) v := by
  unfold refByName refByNumber Spec.VendorOK
  constructor
  · intro h
    cases hq : vs1.find? (fun r => (deref st r).name == v.name) with
    | none =>
      right
      rw [hq] at h
      have h1 := List.find?_eq_none.mp hq
      have h2 := List.find?_eq_none.mp h.symm
      intro v1 hv1
      obtain ⟨r, hr, rfl⟩ := List.mem_map.mp hv1
      exact ⟨by simpa using h1 r hr, by simpa using h2 r hr⟩
    | some q =>
      left
      rw [hq] at h
      refine ⟨deref st q, List.mem_map.mpr ⟨q, List.mem_of_find?_eq_some hq, rfl⟩, ?_, ?_⟩
      · simpa using List.find?_some hq
      · simpa using List.find?_some h.symm
  · rintro (⟨v1, hv1, hname, hnum⟩ | h)
    · obtain ⟨q, hq, rfl⟩ := List.mem_map.mp hv1
      have h1 := find?_key_of_nodup (fun r => (deref st r).name) hn hq
      have h2 := find?_key_of_nodup (fun r => (deref st r).number) hk hq
      simp only [hname, hnum] at h1 h2
      rw [h1, h2]
    · have h1 : vs1.find? (fun r => (deref st r).name == v.name) = none := by
        rw [List.find?_eq_none]; intro r hr
        simpa using (h _ (List.mem_map.mpr ⟨r, hr, rfl⟩)).1
      have h2 : vs1.find? (fun r => (deref st r).number == v.number) = none := by
        rw [List.find?_eq_none]; intro r hr
        simpa using (h _ (List.mem_map.mpr ⟨r, hr, rfl⟩)).2
      rw [h1, h2]

theorem matched_disjoint_iff (st : Store) (vs1 : List Ref) (v : Vendor)
    (hn : (vs1.map (fun r => (deref st r).name)).Nodup)
    (hag : refByName st vs1 v.name = refByNumber st vs1 v.number) :
    (∀ q, refByName st vs1 v.name = some q → Spec.AttrsDisjoint (deref st q).attributes v.attributes) ↔
    (∀ v1 ∈ vs1.map (deref st), v1.name = v.name → v1.number = v.number →
        Spec.AttrsDisjoint v1.attributes v.attributes) := by
  constructor
  · intro h v1 hv1 hname _
    obtain ⟨q, hq, rfl⟩ := List.mem_map.mp hv1
    have h1 := find?_key_of_nodup (fun r => (deref st r).name) hn hq
    simp only [hname] at h1
    exact h q h1
  · intro h q hq
    have hq2 := hag ▸ hq
    refine h _ (List.mem_map.mpr ⟨q, List.mem_of_find?_eq_some hq, rfl⟩) ?_ ?_
    · simpa using List.find?_some hq
    · simpa using List.find?_some hq2

theorem wf_resolve (st : Store) (d : DictR) :
    Spec.WF (resolve st d) ↔
      (d.vendors.map (fun r => (deref st r).name)).Nodup ∧
      (d.vendors.map (fun r => (deref st r).number)).Nodup := by
  simp [Spec.WF, resolve, List.map_map, Function.comp_def]

theorem checkVendors_ok_iff_spec (st : Store) (vs1 vs2 : List Ref)
    (hn : (vs1.map (fun r => (deref st r).name)).Nodup)
    (hk : (vs1.map (fun r => (deref st r).number)).Nodup) :
    checkVendors st vs1 vs2 = .ok () ↔
      (∀ v2 ∈ vs2.map (deref st), Spec.VendorOK (vs1.map (deref st)) v2) ∧
      (∀ v2 ∈ vs2.map (deref st), ∀ v1 ∈ vs1.map (deref st), v1.name = v2.name → v1.number = v2.number →
          Spec.AttrsDisjoint v1.attributes v2.attributes) := by
  rw [checkVendors_ok_iff]
  constructor
  · intro h
    constructor
    · intro v2 hv2
      obtain ⟨r, hr, rfl⟩ := List.mem_map.mp hv2
      exact (lookups_agree_iff st vs1 _ hn hk).mp (h r hr).1
    · intro v2 hv2
      obtain ⟨r, hr, rfl⟩ := List.mem_map.mp hv2
      exact (matched_disjoint_iff st vs1 _ hn (h r hr).1).mp (h r hr).2
  · rintro ⟨h1, h2⟩ r hr
    have hm : deref st r ∈ vs2.map (deref st) := List.mem_map.mpr ⟨r, hr, rfl⟩
    have hag := (lookups_agree_iff st vs1 _ hn hk).mpr (h1 _ hm)
    exact ⟨hag, (matched_disjoint_iff st vs1 _ hn hag).mpr (h2 _ hm)⟩

/-- Merge (either variant) succeeds iff the statement's three-part condition holds -/
theorem merge_ok_iff_conflictFree (m : Mode) (d1 d2 : DictR) (st : Store) (hw1 : Spec.WF (resolve st d1)) :
    (∃ out, merge m d1 d2 st = .ok out) ↔ Spec.ConflictFree (resolve st d1) (resolve st d2) := by
  obtain ⟨hn, hk⟩ := (wf_resolve st d1).mp hw1
  have hv := checkVendors_ok_iff_spec st d1.vendors d2.vendors hn hk
  have ht := checkTop_ok_iff d1.attributes d2.attributes
  unfold Spec.ConflictFree
  simp only [resolve]
  rw [← ht, ← hv]
  unfold merge
  cases h1 : checkTop d1.attributes d2.attributes with
  | error e => simp
  | ok u =>
    cases h2 : checkVendors st d1.vendors d2.vendors with
    | error e => simp
    | ok u' => simp

/-! ## the assembly loop -/

/-- the assembly loop on vendor *values* (what the loop computes when no vendor object is shared) -/
def assembleV : List Vendor → List Vendor → List Vendor
  | acc, [] => acc
  | acc, v :: rest =>
    match acc.findIdx? (fun w => w.number == v.number) with
    | none => assembleV (acc ++ [v]) rest
    | some i => assembleV (acc.set i (extend (acc.getD i nilVendor) v)) rest

theorem getD_map_deref {st : Store} {acc : List Ref} {i : Nat} (hi : i < acc.length) :
    (acc.map (deref st)).getD i nilVendor = deref st (acc.getD i 0) := by
  simp [List.getD_eq_getElem?_getD, List.getElem?_map, List.getElem?_eq_getElem hi]

/-- the repaired loop only allocates; read through the final store it computes `assembleV` -/
theorem assemble_fixed_spec : ∀ (vs2 : List Ref) (st : Store) (acc : List Ref),
    (∀ r ∈ acc, r < st.length) → (∀ r ∈ vs2, r < st.length) →
    ∃ ext, (assemble .fixed st acc vs2).2 = st ++ ext ∧
      (∀ r ∈ (assemble .fixed st acc vs2).1, r < (st ++ ext).length) ∧
      (assemble .fixed st acc vs2).1.map (deref (st ++ ext)) =
        assembleV (acc.map (deref st)) (vs2.map (deref st)) := by
  intro vs2
  induction vs2 with
  | nil =>
    intro st acc hacc _
    exact ⟨[], by simp [assemble], by simpa [assemble] using hacc, by simp [assemble, assembleV]⟩
  | cons r rest ih =>
    intro st acc hacc hvs
    have hr : r < st.length := hvs r (by simp)
    have hrest : ∀ x ∈ rest, x < st.length := fun x hx => hvs x (by simp [hx])
    have hfi : acc.findIdx? (fun q => (deref st q).number == (deref st r).number) =
        (acc.map (deref st)).findIdx? (fun w => w.number == (deref st r).number) := by
      rw [List.findIdx?_map]; rfl
    unfold assemble
    simp only [List.map_cons, assembleV]
    rw [← hfi]
    cases hq : acc.findIdx? (fun q => (deref st q).number == (deref st r).number) with
    | none =>
      simp only []
      have hacc' : ∀ x ∈ acc ++ [r], x < st.length := by
        intro x hx
        rcases List.mem_append.mp hx with h | h
        · exact hacc x h
        · simp at h; exact h ▸ hr
      obtain ⟨ext, h1, h2, h3⟩ := ih st (acc ++ [r]) hacc' hrest
      refine ⟨ext, h1, h2, ?_⟩
      rw [h3, List.map_append]; rfl
    | some i =>
      simp only []
      have hi : i < acc.length := by
        have := (List.findIdx?_eq_some_iff_getElem.mp hq).1; exact this
      let nv := extend (deref st (acc.getD i 0)) (deref st r)
      have hacc' : ∀ x ∈ acc.set i st.length, x < (st ++ [nv]).length := by
        intro x hx
        rcases List.mem_or_eq_of_mem_set hx with h | h
        · exact Nat.lt_of_lt_of_le (hacc x h) (by simp)
        · simp [h]
      have hrest' : ∀ x ∈ rest, x < (st ++ [nv]).length := by
        intro x hx; exact Nat.lt_of_lt_of_le (hrest x hx) (by simp)
      obtain ⟨ext, h1, h2, h3⟩ := ih (st ++ [nv]) (acc.set i st.length) hacc' hrest'
      refine ⟨[nv] ++ ext, ?_, ?_, ?_⟩
      · rw [h1, List.append_assoc]
      · intro x hx; have := h2 x hx; rw [← List.append_assoc]; exact this
      · rw [← List.append_assoc, h3, List.map_set, deref_append_length,
          map_deref_append hacc, map_deref_append hrest, getD_map_deref hi]

/-- with unique numbers on both sides, the loop is: every vendor of `acc` absorbs the vendor of `vs2`
    with its number, then the vendors of `vs2` whose number `acc` does not have -/
theorem assembleV_eq : ∀ (vs2 acc : List Vendor),
    (acc.map (·.number)).Nodup → (vs2.map (·.number)).Nodup →
    assembleV acc vs2 =
      acc.map (fun a => match vs2.find? (fun v => v.number == a.number) with
                        | some v => extend a v
                        | none => a)
      ++ vs2.filter (fun v => acc.all (fun a => a.number != v.number)) := by
  intro vs2
  induction vs2 with
  | nil => intro acc _ _; simp [assembleV]
  | cons v rest ih =>
    intro acc hacc hvs
    rw [List.map_cons, List.nodup_cons] at hvs
    have hvrest : ∀ w ∈ rest, w.number ≠ v.number := by
      intro w hw he
      exact hvs.1 (List.mem_map.mpr ⟨w, hw, he⟩)
    have hfind_v : rest.find? (fun w => w.number == v.number) = none := by
      rw [List.find?_eq_none]; intro w hw; simpa using hvrest w hw
    unfold assembleV
    cases hq : acc.findIdx? (fun w => w.number == v.number) with
    | none =>
      simp only []
      have hno : ∀ a ∈ acc, (a.number == v.number) = false := List.findIdx?_eq_none_iff.mp hq
      have hacc' : ((acc ++ [v]).map (·.number)).Nodup := by
        rw [List.map_append, List.nodup_append]
        refine ⟨hacc, by simp, ?_⟩
        intro x hx y hy
        obtain ⟨a, ha, rfl⟩ := List.mem_map.mp hx
        simp at hy; subst hy
        simpa using hno a ha
      rw [ih (acc ++ [v]) hacc' hvs.2, List.map_append, List.append_assoc]
      congr 1
      · apply List.map_congr_left
        intro a ha
        have : (v.number == a.number) = false := by
          have := hno a ha; simp at this ⊢; exact fun h => this h.symm
        simp only [List.find?_cons, this]
      · have hGv : acc.all (fun a => a.number != v.number) = true := by
          rw [List.all_eq_true]; intro a ha; simpa using hno a ha
        simp only [List.map_cons, List.map_nil, hfind_v, List.filter_cons, hGv, if_true,
          List.singleton_append]
        congr 1
        apply List.filter_congr
        intro w hw
        have : (v.number != w.number) = true := by
          simpa using fun h => hvrest w hw h.symm
        simp [List.all_append, this]
    | some i =>
      simp only []
      have hset := set_findIdx?_eq_map (fun w : Vendor => w.number) (fun a => extend a v) nilVendor
        v.number hacc hq
      rw [hset]
      have hnum : ∀ a : Vendor, (if a.number == v.number then extend a v else a).number = a.number := by
        intro a; split <;> rfl
      have hacc' : ((acc.map (fun a => if a.number == v.number then extend a v else a)).map (·.number)).Nodup := by
        rw [List.map_map]
        have : ((fun x : Vendor => x.number) ∘ fun a => if a.number == v.number then extend a v else a)
            = (fun x : Vendor => x.number) := by
          funext a; exact hnum a
        rw [this]; exact hacc
      rw [ih _ hacc' hvs.2, List.map_map]
      have hex : ∃ a ∈ acc, (a.number == v.number) = true := by
        obtain ⟨hi, hp, _⟩ := List.findIdx?_eq_some_iff_getElem.mp hq
        exact ⟨acc[i], List.getElem_mem hi, hp⟩
      have hGv : acc.all (fun a => a.number != v.number) = false := by
        rw [← Bool.not_eq_true, List.all_eq_true]
        intro h
        obtain ⟨a, ha, hp⟩ := hex
        have := h a ha
        simp at this hp; exact this hp
      congr 1
      · apply List.map_congr_left
        intro a _
        simp only [Function.comp]
        by_cases hav : a.number = v.number
        · have h1 : (a.number == v.number) = true := by simp [hav]
          have h2 : (v.number == a.number) = true := by simp [hav]
          simp only [h1, if_true, List.find?_cons, h2]
          have : (extend a v).number = v.number := hav
          rw [this, hfind_v]
        · have h1 : (a.number == v.number) = false := by simp [hav]
          have h2 : (v.number == a.number) = false := by simp; exact fun h => hav h.symm
          simp only [h1, Bool.false_eq_true, if_false, List.find?_cons, h2]
      · rw [List.filter_cons]
        simp only [hGv, Bool.false_eq_true, if_false]
        apply List.filter_congr
        intro w _
        rw [List.all_map]
        congr 1
        funext a
        simp only [Function.comp, hnum]

/-! ## from "by number" to the statement's "same name and number" -/

theorem find_by_number_eq_matchOf (vs1 vs2 : List Vendor) (hk1 : (vs1.map (·.number)).Nodup)
    (hok : ∀ v2 ∈ vs2, Spec.VendorOK vs1 v2) {a : Vendor} (ha : a ∈ vs1) :
    vs2.find? (fun v => v.number == a.number) = Spec.matchOf vs2 a := by
  unfold Spec.matchOf
  apply find?_congr'
  intro w hw
  by_cases h : w.number = a.number
  · have hname : w.name = a.name := by
      rcases hok w hw with ⟨v1, hv1, hn, hk⟩ | hnone
      · have : v1 = a := eq_of_nodup_map (fun v : Vendor => v.number) hk1 hv1 ha (hk.trans h)
        subst this; exact hn.symm
      · exact absurd h.symm (hnone a ha).2
    simp [h, hname]
  · simp [h]

theorem unmatched_fresh {vs1 : List Vendor} {v2 : Vendor} (hok : Spec.VendorOK vs1 v2)
    (hm : Spec.matchOf vs1 v2 = none) : ∀ v1 ∈ vs1, v1.name ≠ v2.name ∧ v1.number ≠ v2.number := by
  rcases hok with ⟨v1, hv1, hn, hk⟩ | h
  · have := List.find?_eq_none.mp hm v1 hv1
    simp [hn, hk] at this
  · exact h

theorem all_number_ne_eq_matchOf_isNone {vs1 : List Vendor} {v2 : Vendor} (hok : Spec.VendorOK vs1 v2) :
    vs1.all (fun a => a.number != v2.number) = (Spec.matchOf vs1 v2).isNone := by
  cases hm : Spec.matchOf vs1 v2 with
  | none =>
    have := unmatched_fresh hok hm
    simp only [Option.isNone_none, List.all_eq_true]
    intro a ha; simpa using (this a ha).2
  | some v1 =>
    have hv1 := List.mem_of_find?_eq_some hm
    have hp := List.find?_some hm
    simp only [Option.isNone_some]
    rw [← Bool.not_eq_true, List.all_eq_true]
    intro h
    have := h v1 hv1
    simp at this hp
    exact this hp.2

theorem resolve_append {st : Store} {d : DictR} (ext : Store) (hv : Valid st d) :
    resolve (st ++ ext) d = resolve st d := by
  simp only [resolve, map_deref_append hv]

theorem valid_append {st : Store} {d : DictR} (ext : Store) (hv : Valid st d) : Valid (st ++ ext) d := by
  intro r hr; exact Nat.lt_of_lt_of_le (hv r hr) (by simp)

/-- the repaired Merge: the store only grows, the result is valid in it and denotes `Spec.merge` -/
theorem merge_fixed_result {d1 d2 r : DictR} {st st' : Store}
    (hv1 : Valid st d1) (hv2 : Valid st d2)
    (hw1 : Spec.WF (resolve st d1)) (hw2 : Spec.WF (resolve st d2))
    (h : merge .fixed d1 d2 st = .ok (r, st')) :
    (∃ ext, st' = st ++ ext) ∧ Valid st' r ∧
      Spec.merge (resolve st d1) (resolve st d2) = some (resolve st' r) := by
  have hcf := (merge_ok_iff_conflictFree .fixed d1 d2 st hw1).mp ⟨_, h⟩
  unfold merge at h
  cases h1 : checkTop d1.attributes d2.attributes with
  | error e => simp [h1] at h
  | ok u =>
    cases h2 : checkVendors st d1.vendors d2.vendors with
    | error e => simp [h1, h2] at h
    | ok u' =>
      simp only [h1, h2, Except.ok.injEq, Prod.mk.injEq] at h
      obtain ⟨hr, hst⟩ := h
      subst hr hst
      obtain ⟨ext, e1, e2, e3⟩ := assemble_fixed_spec d2.vendors st d1.vendors hv1 hv2
      refine ⟨⟨ext, e1⟩, ?_, ?_⟩
      · intro x hx; rw [e1]; exact e2 x hx
      · unfold Spec.merge
        rw [if_pos hcf]
        simp only [resolve, Option.some.injEq, Dictionary.mk.injEq, true_and]
        rw [e1, e3, assembleV_eq (d2.vendors.map (deref st)) (d1.vendors.map (deref st)) hw1.2 hw2.2]
        symm
        congr 1
        · apply List.map_congr_left
          intro a ha
          unfold Spec.combine
          rw [← find_by_number_eq_matchOf (d1.vendors.map (deref st)) (d2.vendors.map (deref st))
            hw1.2 hcf.2.1 ha]
          rfl
        · apply List.filter_congr
          intro v hv
          exact all_number_ne_eq_matchOf_isNone (vs1 := d1.vendors.map (deref st)) (hcf.2.1 v hv)

/-- what a Merge call lets an observer see of its result -/
def observe : Except Err (DictR × Store) → Option Dictionary
  | .ok (r, st') => some (resolve st' r)
  | .error _ => none

theorem merge_fixed_refines {d1 d2 : DictR} {st : Store}
    (hv1 : Valid st d1) (hv2 : Valid st d2)
    (hw1 : Spec.WF (resolve st d1)) (hw2 : Spec.WF (resolve st d2)) :
    observe (merge .fixed d1 d2 st) = Spec.merge (resolve st d1) (resolve st d2) := by
  cases h : merge .fixed d1 d2 st with
  | ok out =>
    obtain ⟨r, st'⟩ := out
    rw [(merge_fixed_result hv1 hv2 hw1 hw2 h).2.2]; rfl
  | error e =>
    have : ¬ Spec.ConflictFree (resolve st d1) (resolve st d2) := by
      intro hcf
      obtain ⟨out, ho⟩ := (merge_ok_iff_conflictFree .fixed d1 d2 st hw1).mpr hcf
      rw [h] at ho; cases ho
    simp [observe, Spec.merge, this]

/-! ## facts about the specification itself -/

theorem combine_name (vs2 : List Vendor) (v : Vendor) : (Spec.combine vs2 v).name = v.name := by
  unfold Spec.combine; split <;> rfl

theorem combine_number (vs2 : List Vendor) (v : Vendor) : (Spec.combine vs2 v).number = v.number := by
  unfold Spec.combine; split <;> rfl

theorem combine_key (vs2 : List Vendor) (v : Vendor) : Spec.key (Spec.combine vs2 v) = Spec.key v := by
  simp [Spec.key, combine_name, combine_number]

theorem spec_merge_eq {d1 d2 r : Dictionary} (h : Spec.merge d1 d2 = some r) :
    Spec.ConflictFree d1 d2 ∧
    r = { attributes := d1.attributes ++ d2.attributes, values := d1.values ++ d2.values,
          vendors := d1.vendors.map (Spec.combine d2.vendors) ++
                     d2.vendors.filter (fun v2 => (Spec.matchOf d1.vendors v2).isNone) } := by
  unfold Spec.merge at h
  split at h
  · rename_i hcf; exact ⟨hcf, (Option.some.inj h).symm⟩
  · cases h

/-- the result of a merge of well-formed dictionaries is well-formed (so merges can be chained) -/
theorem spec_merge_wf {d1 d2 r : Dictionary} (h1 : Spec.WF d1) (h2 : Spec.WF d2)
    (h : Spec.merge d1 d2 = some r) : Spec.WF r := by
  obtain ⟨hcf, rfl⟩ := spec_merge_eq h
  have hfresh : ∀ v2 ∈ d2.vendors.filter (fun v2 => (Spec.matchOf d1.vendors v2).isNone),
      ∀ v1 ∈ d1.vendors, v1.name ≠ v2.name ∧ v1.number ≠ v2.number := by
    intro v2 hv2
    rw [List.mem_filter] at hv2
    exact unmatched_fresh (hcf.2.1 v2 hv2.1) (by simpa using hv2.2)
  constructor
  · simp only [List.map_append, List.map_map]
    have : (fun v : Vendor => v.name) ∘ Spec.combine d2.vendors = fun v => v.name := by
      funext v; exact combine_name _ v
    rw [this, List.nodup_append]
    refine ⟨h1.1, List.Nodup.sublist (List.Sublist.map _ List.filter_sublist) h2.1, ?_⟩
    intro x hx y hy
    obtain ⟨v1, hv1, rfl⟩ := List.mem_map.mp hx
    obtain ⟨v2, hv2, rfl⟩ := List.mem_map.mp hy
    exact (hfresh v2 hv2 v1 hv1).1
  · simp only [List.map_append, List.map_map]
    have : (fun v : Vendor => v.number) ∘ Spec.combine d2.vendors = fun v => v.number := by
      funext v; exact combine_number _ v
    rw [this, List.nodup_append]
    refine ⟨h1.2, List.Nodup.sublist (List.Sublist.map _ List.filter_sublist) h2.2, ?_⟩
    intro x hx y hy
    obtain ⟨v1, hv1, rfl⟩ := List.mem_map.mp hx
    obtain ⟨v2, hv2, rfl⟩ := List.mem_map.mp hy
    exact (hfresh v2 hv2 v1 hv1).2

theorem key_beq_iff (a b : Vendor) :
    (Spec.key a == Spec.key b) = true ↔ a.name = b.name ∧ a.number = b.number := by
  simp [Spec.key]

theorem nodup_key_of_nodup_name {l : List Vendor} (h : (l.map (·.name)).Nodup) :
    (l.map Spec.key).Nodup := by
  rw [List.nodup_iff_pairwise_ne, List.pairwise_map] at *
  exact h.imp (fun hne heq => hne (congrArg Prod.fst heq))

theorem filter_key_singleton {l : List Vendor} (hn : (l.map (·.name)).Nodup) {a : Vendor} (ha : a ∈ l) :
    l.filter (fun v => Spec.key v == Spec.key a) = [a] := by
  induction l with
  | nil => cases ha
  | cons x xs ih =>
    rw [List.map_cons, List.nodup_cons] at hn
    rcases List.mem_cons.mp ha with rfl | hxs
    · have : xs.filter (fun v => Spec.key v == Spec.key a) = [] := by
        rw [List.filter_eq_nil_iff]; intro y hy hk
        exact hn.1 (List.mem_map.mpr ⟨y, hy, ((key_beq_iff y a).mp hk).1⟩)
      rw [List.filter_cons, this]; simp
    · have hx : (Spec.key x == Spec.key a) = false := by
        rw [← Bool.not_eq_true]; intro hk
        exact hn.1 (List.mem_map.mpr ⟨a, hxs, ((key_beq_iff x a).mp hk).1.symm⟩)
      rw [List.filter_cons]; simp only [hx, Bool.false_eq_true, if_false]; exact ih hn.2 hxs

theorem filter_key_nil {l : List Vendor} {a : Vendor} (h : Spec.matchOf l a = none) :
    l.filter (fun v => Spec.key v == Spec.key a) = [] := by
  rw [List.filter_eq_nil_iff]; intro y hy hk
  have := List.find?_eq_none.mp h y hy
  obtain ⟨h1, h2⟩ := (key_beq_iff y a).mp hk
  simp [h1, h2] at this

theorem matchOf_some {l : List Vendor} {a b : Vendor} (h : Spec.matchOf l a = some b) :
    b ∈ l ∧ Spec.key b = Spec.key a := by
  refine ⟨List.mem_of_find?_eq_some h, ?_⟩
  have := List.find?_some h
  simp at this
  simp [Spec.key, this.1, this.2]

/-- declarations of one kind (`f` = attributes or values) carried by an entry of the merged vendor list -/
theorem decl_count {β} [BEq β] (f : Vendor → List β)
    (hext : ∀ v1 v2 : Vendor, f (extend v1 v2) = f v1 ++ f v2)
    {d1 d2 : Dictionary} (h1 : Spec.WF d1) (h2 : Spec.WF d2) :
    ∀ w ∈ d1.vendors.map (Spec.combine d2.vendors) ++
          d2.vendors.filter (fun v2 => (Spec.matchOf d1.vendors v2).isNone), ∀ x,
      (f w).count x =
        ((d1.vendors.filter (fun v => Spec.key v == Spec.key w)).flatMap f).count x +
        ((d2.vendors.filter (fun v => Spec.key v == Spec.key w)).flatMap f).count x := by
  intro w hw x
  rcases List.mem_append.mp hw with hw | hw
  · obtain ⟨v1, hv1, rfl⟩ := List.mem_map.mp hw
    rw [combine_key, filter_key_singleton h1.1 hv1]
    unfold Spec.combine
    cases hm : Spec.matchOf d2.vendors v1 with
    | none =>
      simp only []
      rw [filter_key_nil hm]; simp
    | some v2 =>
      simp only []
      obtain ⟨hv2, hk⟩ := matchOf_some hm
      rw [← hk, filter_key_singleton h2.1 hv2]
      have := hext v1 v2
      unfold extend at this
      rw [this]; simp [List.count_append]
  · rw [List.mem_filter] at hw
    have hm : Spec.matchOf d1.vendors w = none := by simpa using hw.2
    rw [filter_key_nil hm, filter_key_singleton h2.1 hw.1]; simp

theorem spec_exactly_once {d1 d2 r : Dictionary} (h1 : Spec.WF d1) (h2 : Spec.WF d2)
    (h : Spec.merge d1 d2 = some r) : Spec.ExactlyOnce d1 d2 r := by
  have hwf := spec_merge_wf h1 h2 h
  obtain ⟨_, rfl⟩ := spec_merge_eq h
  refine ⟨fun a => List.count_append, fun v => List.count_append, nodup_key_of_nodup_name hwf.1, ?_,
    decl_count (fun v => v.attributes) (fun _ _ => rfl) h1 h2,
    decl_count (fun v => v.values) (fun _ _ => rfl) h1 h2⟩
  intro k
  simp only [List.map_append, List.map_map, List.mem_append]
  have hc : Spec.key ∘ Spec.combine d2.vendors = Spec.key := by funext v; exact combine_key _ v
  rw [hc]
  constructor
  · rintro (h | h)
    · exact Or.inl h
    · obtain ⟨v2, hv2, rfl⟩ := List.mem_map.mp h
      exact Or.inr (List.mem_map.mpr ⟨v2, (List.mem_filter.mp hv2).1, rfl⟩)
  · rintro (h | h)
    · exact Or.inl h
    · obtain ⟨v2, hv2, rfl⟩ := List.mem_map.mp h
      cases hm : Spec.matchOf d1.vendors v2 with
      | none => exact Or.inr (List.mem_map.mpr ⟨v2, List.mem_filter.mpr ⟨hv2, by simp [hm]⟩, rfl⟩)
      | some v1 =>
        obtain ⟨hv1, hk⟩ := matchOf_some hm
        exact Or.inl (List.mem_map.mpr ⟨v1, hv1, hk⟩)

/-- the oracle's executable count check accepts whatever satisfies `ExactlyOnce` -/
theorem exactlyOnce_of_ExactlyOnce {d1 d2 r : Dictionary} (h : Spec.ExactlyOnce d1 d2 r) :
    Spec.exactlyOnce d1 d2 r = true := by
  unfold Spec.exactlyOnce
  simp only [Bool.and_eq_true, List.all_eq_true, beq_iff_eq, decide_eq_true_eq, List.contains_iff_mem]
  refine ⟨⟨⟨⟨fun a _ => h.attrs a, fun v _ => h.values v⟩, h.entries_nodup⟩, ?_⟩, ?_⟩
  · intro v hv
    rw [h.entries]
    rcases List.mem_append.mp hv with hv | hv
    · exact Or.inl (List.mem_map.mpr ⟨v, hv, rfl⟩)
    · exact Or.inr (List.mem_map.mpr ⟨v, hv, rfl⟩)
  · intro w hw
    refine ⟨⟨?_, fun a _ => h.vendor_attrs w hw a⟩, fun v _ => h.vendor_values w hw v⟩
    rw [List.map_append, List.mem_append]
    exact (h.entries _).mp (List.mem_map.mpr ⟨w, hw, rfl⟩)

/-! ## chains and repeated merges (repaired Merge) -/

theorem wf_resolve_append {st : Store} {d : DictR} (ext : Store) (hv : Valid st d)
    (hw : Spec.WF (resolve st d)) : Spec.WF (resolve (st ++ ext) d) := by
  rw [resolve_append ext hv]; exact hw

/-- left folds: the repaired Merge computes the specification's fold, and no dictionary that was
    valid before the chain (in particular none of the inputs, however often it is used) changes -/
theorem mergeChain_fixed_refines : ∀ (ds : List DictR) (acc : DictR) (st : Store),
    Valid st acc → Spec.WF (resolve st acc) →
    (∀ d ∈ ds, Valid st d ∧ Spec.WF (resolve st d)) →
    observe (mergeChain .fixed acc ds st) = Spec.mergeChain (resolve st acc) (ds.map (resolve st)) ∧
    ∀ r st', mergeChain .fixed acc ds st = .ok (r, st') → ∃ ext, st' = st ++ ext := by
  intro ds
  induction ds with
  | nil =>
    intro acc st _ _ _
    refine ⟨rfl, ?_⟩
    intro r st' h
    simp only [mergeChain, Except.ok.injEq, Prod.mk.injEq] at h
    exact ⟨[], by simp [h.2]⟩
  | cons d ds ih =>
    intro acc st hva hwa hds
    obtain ⟨hvd, hwd⟩ := hds d (by simp)
    have href := merge_fixed_refines hva hvd hwa hwd
    unfold mergeChain
    simp only [List.map_cons, Spec.mergeChain]
    cases hm : merge .fixed acc d st with
    | error e =>
      rw [hm] at href
      simp only [observe] at href
      simp [← href, observe]
    | ok out =>
      obtain ⟨r, st1⟩ := out
      obtain ⟨⟨ext, rfl⟩, hvr, hspec⟩ := merge_fixed_result hva hvd hwa hwd hm
      have hwr : Spec.WF (resolve (st ++ ext) r) := spec_merge_wf hwa hwd hspec
      have hds' : ∀ d' ∈ ds, Valid (st ++ ext) d' ∧ Spec.WF (resolve (st ++ ext) d') := by
        intro d' hd'
        obtain ⟨hv', hw'⟩ := hds d' (by simp [hd'])
        exact ⟨valid_append ext hv', wf_resolve_append ext hv' hw'⟩
      obtain ⟨ih1, ih2⟩ := ih r (st ++ ext) hvr hwr hds'
      have hmap : ds.map (resolve (st ++ ext)) = ds.map (resolve st) :=
        List.map_congr_left (fun d' hd' => resolve_append ext (hds d' (by simp [hd'])).1)
      simp only [hspec, Option.bind_some]
      rw [← hmap]
      refine ⟨ih1, ?_⟩
      intro r' st' h
      obtain ⟨ext', rfl⟩ := ih2 r' st' h
      exact ⟨ext ++ ext', by rw [List.append_assoc]⟩

/-- when nothing is matched (no number of `vs2` occurs in `acc`, numbers of `vs2` distinct) the loop
    of either variant just appends and leaves the heap alone -/
theorem assemble_unmatched (m : Mode) : ∀ (vs2 acc : List Ref) (st : Store),
    (∀ r2 ∈ vs2, ∀ r1 ∈ acc, (deref st r1).number ≠ (deref st r2).number) →
    (vs2.map (fun r => (deref st r).number)).Nodup →
    assemble m st acc vs2 = (acc ++ vs2, st) := by
  intro vs2
  induction vs2 with
  | nil => intro acc st _ _; simp [assemble]
  | cons r rest ih =>
    intro acc st hno hk
    rw [List.map_cons, List.nodup_cons] at hk
    have hnone : acc.findIdx? (fun q => (deref st q).number == (deref st r).number) = none := by
      rw [List.findIdx?_eq_none_iff]; intro q hq
      simpa using hno r (by simp) q hq
    unfold assemble
    simp only [hnone]
    rw [ih (acc ++ [r]) st ?_ hk.2]
    · simp
    · intro r2 hr2 r1 hr1
      rcases List.mem_append.mp hr1 with h | h
      · exact hno r2 (by simp [hr2]) r1 h
      · simp at h; subst h
        intro he
        exact hk.1 (List.mem_map.mpr ⟨r2, hr2, he.symm⟩)

theorem assemble_current_unmatched (vs2 acc : List Ref) (st : Store)
    (hno : ∀ r2 ∈ vs2, ∀ r1 ∈ acc, (deref st r1).number ≠ (deref st r2).number)
    (hk : (vs2.map (fun r => (deref st r).number)).Nodup) :
    (assemble .current st acc vs2).2 = st := by
  rw [assemble_unmatched .current vs2 acc st hno hk]

/-! ## the unrepaired loop, when the two inputs share no vendor object -/

theorem nodup_of_nodup_map {α β} (f : α → β) {l : List α} (h : (l.map f).Nodup) : l.Nodup := by
  rw [List.nodup_iff_pairwise_ne, List.pairwise_map] at h
  rw [List.nodup_iff_pairwise_ne]
  exact h.imp (fun hne heq => hne (congrArg f heq))

theorem deref_set {st : Store} {q x : Ref} {nv : Vendor} (hq : q < st.length) :
    deref (st.set q nv) x = if x = q then nv else deref st x := by
  unfold deref
  rw [List.getElem?_set]
  by_cases h : q = x
  · subst h; simp [hq]
  · have : ¬ x = q := fun e => h e.symm
    simp [h, this]

theorem getD_mem {acc : List Ref} {i : Nat} (hi : i < acc.length) : acc.getD i 0 ∈ acc := by
  rw [List.getD_eq_getElem?_getD, List.getElem?_eq_getElem hi]; exact List.getElem_mem hi

theorem map_deref_set_nodup {st : Store} {nv : Vendor} : ∀ {acc : List Ref} {i : Nat},
    acc.Nodup → i < acc.length → acc.getD i 0 < st.length →
    acc.map (deref (st.set (acc.getD i 0) nv)) = (acc.map (deref st)).set i nv := by
  intro acc
  induction acc with
  | nil => intro i _ hi; simp at hi
  | cons x xs ih =>
    intro i hn hi hq
    rw [List.nodup_cons] at hn
    cases i with
    | zero =>
      simp only [List.getD_cons_zero] at hq ⊢
      simp only [List.map_cons, List.set_cons_zero, deref_set hq, if_true]
      congr 1
      apply List.map_congr_left
      intro y hy
      have : y ≠ x := fun e => hn.1 (e ▸ hy)
      simp [deref_set hq, this]
    | succ k =>
      simp only [List.getD_cons_succ] at hq ⊢
      have hk : k < xs.length := by simpa using hi
      have hx : x ≠ xs.getD k 0 := fun e => hn.1 (e ▸ getD_mem hk)
      simp only [List.map_cons, List.set_cons_succ, deref_set hq, hx, if_false]
      rw [ih hn.2 hk hq]

/-- the unrepaired loop writes through `acc`'s pointers; if those are distinct objects, none of which
    is a vendor of `vs2`, the final heap still shows `assembleV` of the original values -/
theorem assemble_current_spec : ∀ (vs2 : List Ref) (st : Store) (acc : List Ref),
    (∀ r ∈ acc, r < st.length) → (∀ r ∈ vs2, r < st.length) →
    acc.Nodup → vs2.Nodup → (∀ r ∈ vs2, r ∉ acc) →
    (assemble .current st acc vs2).2.length = st.length ∧
    (assemble .current st acc vs2).1.map (deref (assemble .current st acc vs2).2) =
      assembleV (acc.map (deref st)) (vs2.map (deref st)) := by
  intro vs2
  induction vs2 with
  | nil => intro st acc _ _ _ _ _; simp [assemble, assembleV]
  | cons r rest ih =>
    intro st acc hacc hvs hna hnv hdis
    rw [List.nodup_cons] at hnv
    have hr : r < st.length := hvs r (by simp)
    have hrest : ∀ x ∈ rest, x < st.length := fun x hx => hvs x (by simp [hx])
    have hfi : acc.findIdx? (fun q => (deref st q).number == (deref st r).number) =
        (acc.map (deref st)).findIdx? (fun w => w.number == (deref st r).number) := by
      rw [List.findIdx?_map]; rfl
    unfold assemble
    simp only [List.map_cons, assembleV]
    rw [← hfi]
    cases hq : acc.findIdx? (fun q => (deref st q).number == (deref st r).number) with
    | none =>
      simp only []
      have hacc' : ∀ x ∈ acc ++ [r], x < st.length := by
        intro x hx
        rcases List.mem_append.mp hx with h | h
        · exact hacc x h
        · simp at h; exact h ▸ hr
      have hna' : (acc ++ [r]).Nodup := by
        rw [List.nodup_append]
        refine ⟨hna, by simp, ?_⟩
        intro a ha b hb
        simp at hb; subst hb
        exact fun e => hdis b (by simp) (e ▸ ha)
      have hdis' : ∀ x ∈ rest, x ∉ acc ++ [r] := by
        intro x hx hmem
        rcases List.mem_append.mp hmem with h | h
        · exact hdis x (by simp [hx]) h
        · simp at h; exact hnv.1 (h ▸ hx)
      obtain ⟨h1, h2⟩ := ih st (acc ++ [r]) hacc' hrest hna' hnv.2 hdis'
      refine ⟨h1, ?_⟩
      rw [h2, List.map_append]; rfl
    | some i =>
      simp only []
      have hi : i < acc.length := (List.findIdx?_eq_some_iff_getElem.mp hq).1
      have hqa : acc.getD i 0 ∈ acc := getD_mem hi
      have hql : acc.getD i 0 < st.length := hacc _ hqa
      let nv := extend (deref st (acc.getD i 0)) (deref st r)
      have hlen : (st.set (acc.getD i 0) nv).length = st.length := List.length_set
      have hacc' : ∀ x ∈ acc, x < (st.set (acc.getD i 0) nv).length := by
        intro x hx; rw [hlen]; exact hacc x hx
      have hrest' : ∀ x ∈ rest, x < (st.set (acc.getD i 0) nv).length := by
        intro x hx; rw [hlen]; exact hrest x hx
      have hdis' : ∀ x ∈ rest, x ∉ acc := fun x hx => hdis x (by simp [hx])
      obtain ⟨h1, h2⟩ := ih (st.set (acc.getD i 0) nv) acc hacc' hrest' hna hnv.2 hdis'
      refine ⟨by rw [h1, hlen], ?_⟩
      rw [h2, map_deref_set_nodup hna hi hql, getD_map_deref hi]
      congr 1
      apply List.map_congr_left
      intro x hx
      have : x ≠ acc.getD i 0 := fun e => hdis' x hx (e ▸ hqa)
      rw [deref_set hql, if_neg this]

/-- the unrepaired Merge computes the right result when `d1` and `d2` share no vendor object -/
theorem merge_current_result {d1 d2 r : DictR} {st st' : Store}
    (hv1 : Valid st d1) (hv2 : Valid st d2)
    (hw1 : Spec.WF (resolve st d1)) (hw2 : Spec.WF (resolve st d2))
    (hdis : ∀ x ∈ d2.vendors, x ∉ d1.vendors)
    (h : merge .current d1 d2 st = .ok (r, st')) :
    Spec.merge (resolve st d1) (resolve st d2) = some (resolve st' r) := by
  have hcf := (merge_ok_iff_conflictFree .current d1 d2 st hw1).mp ⟨_, h⟩
  have hn1 := nodup_of_nodup_map _ ((wf_resolve st d1).mp hw1).1
  have hn2 := nodup_of_nodup_map _ ((wf_resolve st d2).mp hw2).1
  unfold merge at h
  cases h1 : checkTop d1.attributes d2.attributes with
  | error e => simp [h1] at h
  | ok u =>
    cases h2 : checkVendors st d1.vendors d2.vendors with
    | error e => simp [h1, h2] at h
    | ok u' =>
      simp only [h1, h2, Except.ok.injEq, Prod.mk.injEq] at h
      obtain ⟨hr, hst⟩ := h
      subst hr hst
      obtain ⟨_, e3⟩ := assemble_current_spec d2.vendors st d1.vendors hv1 hv2 hn1 hn2 hdis
      unfold Spec.merge
      rw [if_pos hcf]
      simp only [resolve, Option.some.injEq, Dictionary.mk.injEq, true_and]
      rw [e3, assembleV_eq (d2.vendors.map (deref st)) (d1.vendors.map (deref st)) hw1.2 hw2.2]
      symm
      congr 1
      · apply List.map_congr_left
        intro a ha
        unfold Spec.combine
        rw [← find_by_number_eq_matchOf (d1.vendors.map (deref st)) (d2.vendors.map (deref st))
          hw1.2 hcf.2.1 ha]
        rfl
      · apply List.filter_congr
        intro v hv
        exact all_number_ne_eq_matchOf_isNone (vs1 := d1.vendors.map (deref st)) (hcf.2.1 v hv)

end RV.DictMerge
