/- Lemmas about the fine machine RV.Model.Server2 (`serveRead` / `serveSpawn` as separate steps), used by
   RV.Props.C06 and RV.Props.C07.  The invariants of the coarse machine (`InvG`, `InvF`, `InvO`, `InvC`) are
   invariants of the `base` component of the fine machine: every fine step is a coarse step on `base`, no
   step on `base` (`serveRead`), or `spawn` by a Serve call that is still running (`serveSpawn`, by `Inv2`). -/
import RV.Model.Server2
import RV.Proofs.Server
namespace RV.Server

/-! ### `step2`, label by label -/

theorem step2_serveRead_eq (H : Hash) (cfg : Cfg) (s : St2) (i peer : Nat) (d : Bytes) :
    step2 H cfg s (.serveRead i peer d) =
      if s.base.serves[i]? = some .running ∧ s.holds i = none ∧
          s.base.connClosed.getD (s.base.connOf.getD i 0) 0 = 0
      then some { s with held := s.held.set i (some (peer, d)) } else none := by
  simp only [step2]
  split
  · next hs hh =>
    by_cases hc : s.base.connClosed.getD (s.base.connOf.getD i 0) 0 > 0
    · rw [if_pos hc, if_neg]; omega
    · rw [if_neg hc, if_pos]; exact ⟨hs, hh, by omega⟩
  · next hn =>
    rw [if_neg]
    rintro ⟨h1, h2, _⟩
    exact hn h1 h2

theorem step2_serveSpawn_eq (H : Hash) (cfg : Cfg) (s : St2) (i : Nat) :
    step2 H cfg s (.serveSpawn i) =
      match s.holds i with
      | some (peer, d) => some { base := spawn H cfg s.base i peer d, held := s.held.set i none }
      | none => none := rfl

theorem step2_serveRead {H : Hash} {cfg : Cfg} {s s' : St2} {i peer : Nat} {d : Bytes}
    (h : step2 H cfg s (.serveRead i peer d) = some s') :
    s.base.serves[i]? = some .running ∧ s.holds i = none ∧
    s.base.connClosed.getD (s.base.connOf.getD i 0) 0 = 0 ∧
    s' = { s with held := s.held.set i (some (peer, d)) } := by
  rw [step2_serveRead_eq] at h
  split at h
  · next hc => exact ⟨hc.1, hc.2.1, hc.2.2, (Option.some.inj h).symm⟩
  · cases h

theorem step2_serveSpawn {H : Hash} {cfg : Cfg} {s s' : St2} {i : Nat}
    (h : step2 H cfg s (.serveSpawn i) = some s') :
    ∃ peer d, s.holds i = some (peer, d) ∧
      s' = { base := spawn H cfg s.base i peer d, held := s.held.set i none } := by
  rw [step2_serveSpawn_eq] at h
  split at h
  · next peer d hh => exact ⟨peer, d, hh, (Option.some.inj h).symm⟩
  · cases h

theorem step2_base {H : Hash} {cfg : Cfg} {s s' : St2} {l : Label}
    (h : step2 H cfg s (.base l) = some s') :
    ∃ b, step H cfg s.base l = some b ∧ s' = { s with base := b } ∧
      ∀ i, l.readLoopOf = some i → s.holds i = none := by
  simp only [step2] at h
  split at h
  · next i hi =>
    split at h
    · cases h
    · next hn =>
      cases hb : step H cfg s.base l with
      | none => rw [hb] at h; cases h
      | some b =>
        rw [hb] at h
        refine ⟨b, rfl, (Option.some.inj h).symm, ?_⟩
        intro i' hi'
        rw [hi] at hi'; cases hi'
        cases hh : s.holds i with
        | none => rfl
        | some x => rw [hh] at hn; exact absurd rfl hn
  · next hi =>
    cases hb : step H cfg s.base l with
    | none => rw [hb] at h; cases h
    | some b =>
      rw [hb] at h
      refine ⟨b, rfl, (Option.some.inj h).symm, ?_⟩
      intro i' hi'; rw [hi] at hi'; cases hi'

/-- while no Serve call of the read loop of `l` holds a datagram, `base l` is the coarse step -/
theorem step2_base_eq {H : Hash} {cfg : Cfg} {s : St2} {l : Label}
    (hh : ∀ i, l.readLoopOf = some i → s.holds i = none) :
    step2 H cfg s (.base l) = (step H cfg s.base l).map fun b => { s with base := b } := by
  simp only [step2]
  split
  · next i hi => rw [hh i hi]; rfl
  · rfl

theorem run2_append (H : Hash) (cfg : Cfg) (s : St2) (l1 l2 : List Label2) :
    run2 H cfg s (l1 ++ l2) = run2 H cfg (run2 H cfg s l1) l2 := by
  induction l1 generalizing s with
  | nil => rfl
  | cons l ls ih =>
    simp only [List.cons_append, run2]
    split <;> exact ih _

theorem run2_preserves (H : Hash) (cfg : Cfg) (P : St2 → Prop)
    (hstep : ∀ s l s', P s → step2 H cfg s l = some s' → P s') :
    ∀ ls s, P s → P (run2 H cfg s ls) := by
  intro ls
  induction ls with
  | nil => intro s h; exact h
  | cons l ls ih =>
    intro s h
    simp only [run2]
    split
    · next s' hs => exact ih _ (hstep s l s' h hs)
    · exact ih _ h

/-! ### a running Serve call stays running except by a step of its own read loop -/

theorem step_serves_length {H : Hash} {cfg : Cfg} {s s' : St} {l : Label} (hs : step H cfg s l = some s') :
    s'.serves.length = s.serves.length := by
  cases l with
  | serveEnter i =>
    obtain ⟨_, hh | hh | hh⟩ := step_serveEnter hs
    · obtain ⟨_, rfl⟩ := hh; simp
    · obtain ⟨_, _, rfl⟩ := hh; simp
    · obtain ⟨_, _, rfl⟩ := hh; simp
  | serveCount i => obtain ⟨_, rfl⟩ := step_serveCount hs; simp
  | serveRecv i peer d => obtain ⟨_, _, rfl⟩ := step_serveRecv hs; rfl
  | serveReadErr i => obtain ⟨_, _, _, rfl⟩ := step_serveReadErr hs; simp
  | serveReadFail i k =>
    obtain ⟨_, hh | hh | hh⟩ := step_serveReadFail hs
    · obtain ⟨_, rfl⟩ := hh; simp
    · obtain ⟨_, _, rfl⟩ := hh; simp
    · obtain ⟨_, _, rfl⟩ := hh; rfl
  | taskRun t =>
    obtain ⟨i, fate, ht, hh | hh⟩ := step_taskRun hs
    · obtain ⟨key, p, rfl, hk, rfl⟩ := hh; rfl
    · obtain ⟨_, rfl⟩ := hh; simp
  | taskFinish t => obtain ⟨i, key, ht, rfl⟩ := step_taskFinish hs; simp
  | taskReply t code attrs => obtain ⟨i, key, p, w, _, _, _, rfl⟩ := step_taskReply hs; rfl
  | downEnter j =>
    obtain ⟨c, hj, hh | hh⟩ := step_downEnter hs
    · obtain ⟨_, rfl⟩ := hh; rfl
    · obtain ⟨_, rfl⟩ := hh; simp
  | downReturnNil j => obtain ⟨c, hj, _, rfl⟩ := step_downReturnNil hs; rfl
  | downReturnCtx j => obtain ⟨hj, rfl⟩ := step_downReturnCtx hs; rfl
  | ctxExpire j => obtain ⟨pc, hj, rfl⟩ := step_ctxExpire hs; rfl

theorem running_set_ne {serves : List ServePc} {i j : Nat} {a b : ServePc} (hj : serves[j]? = some a)
    (ha : a ≠ .running) (hi : serves[i]? = some .running) : (serves.set j b)[i]? = some .running := by
  have : j ≠ i := by
    intro e; subst e; rw [hj] at hi; cases hi; exact ha rfl
  rw [List.getElem?_set_ne this]; exact hi

/-- In the coarse machine a Serve call in its read loop leaves it only by a `serveReadErr` /
    `serveReadFail` step of its own: no other thread's step, and no datagram of its own, ends it. -/
theorem step_running_stable {H : Hash} {cfg : Cfg} {s s' : St} {l : Label} (hs : step H cfg s l = some s')
    {i : Nat} (hi : s.serves[i]? = some .running)
    (hl : l.readLoopOf ≠ some i ∨ ∃ peer d, l = .serveRecv i peer d) :
    s'.serves[i]? = some .running := by
  cases l with
  | serveEnter j =>
    obtain ⟨hj, hh | hh | hh⟩ := step_serveEnter hs
    · obtain ⟨_, rfl⟩ := hh; exact running_set_ne hj (by simp) hi
    · obtain ⟨_, _, rfl⟩ := hh; exact running_set_ne hj (by simp) hi
    · obtain ⟨_, _, rfl⟩ := hh; exact running_set_ne hj (by simp) hi
  | serveCount j => obtain ⟨hj, rfl⟩ := step_serveCount hs; exact running_set_ne hj (by simp) hi
  | serveRecv j peer d => obtain ⟨_, _, rfl⟩ := step_serveRecv hs; exact hi
  | serveReadErr j =>
    obtain ⟨_, _, _, rfl⟩ := step_serveReadErr hs
    have hne : j ≠ i := by
      rcases hl with hl | ⟨_, _, hl⟩
      · intro e; subst e; exact hl rfl
      · cases hl
    simp only [serveLeave_serves]
    rw [List.getElem?_set_ne hne]; exact hi
  | serveReadFail j k =>
    have hne : j ≠ i := by
      rcases hl with hl | ⟨_, _, hl⟩
      · intro e; subst e; exact hl rfl
      · cases hl
    obtain ⟨_, hh | hh | hh⟩ := step_serveReadFail hs
    · obtain ⟨_, rfl⟩ := hh
      simp only [serveLeave_serves]; rw [List.getElem?_set_ne hne]; exact hi
    · obtain ⟨_, _, rfl⟩ := hh
      simp only [serveLeave_serves]; rw [List.getElem?_set_ne hne]; exact hi
    · obtain ⟨_, _, rfl⟩ := hh; exact hi
  | taskRun t =>
    obtain ⟨i', fate, ht, hh | hh⟩ := step_taskRun hs
    · obtain ⟨key, p, rfl, hk, rfl⟩ := hh; exact hi
    · obtain ⟨_, rfl⟩ := hh; simpa using hi
  | taskFinish t => obtain ⟨i', key, ht, rfl⟩ := step_taskFinish hs; simpa using hi
  | taskReply t code attrs => obtain ⟨i', key, p, w, _, _, _, rfl⟩ := step_taskReply hs; exact hi
  | downEnter j =>
    obtain ⟨c, hj, hh | hh⟩ := step_downEnter hs
    · obtain ⟨_, rfl⟩ := hh; exact hi
    · obtain ⟨_, rfl⟩ := hh; simpa using hi
  | downReturnNil j => obtain ⟨c, hj, _, rfl⟩ := step_downReturnNil hs; exact hi
  | downReturnCtx j => obtain ⟨hj, rfl⟩ := step_downReturnCtx hs; exact hi
  | ctxExpire j => obtain ⟨pc, hj, rfl⟩ := step_ctxExpire hs; exact hi

/-- while Shutdown has not been requested a Serve call in its read loop can always take a datagram
    (coarse machine, invariants of the repaired server: no conn is closed before Shutdown) -/
theorem serveRecv_enabled_before_shutdown {H : Hash} {cfg : Cfg} {s : St} (h : InvF s) {i : Nat}
    (hi : s.serves[i]? = some .running) (hsd : s.sd = false) (peer : Nat) (d : Bytes) :
    step H cfg s (.serveRecv i peer d) = some (spawn H cfg s i peer d) := by
  simp only [step, hi]
  rw [if_neg]
  rw [h.nsd hsd]; omega

/-- … and `shutdownRequested` is set by `downEnter` only and never cleared -/
theorem step_sd_mono {H : Hash} {cfg : Cfg} {s s' : St} {l : Label} (hs : step H cfg s l = some s') :
    (s.sd = true → s'.sd = true) ∧ ((∀ j, l ≠ .downEnter j) → s'.sd = s.sd) := by
  cases l with
  | serveEnter i =>
    obtain ⟨_, hh | hh | hh⟩ := step_serveEnter hs
    · obtain ⟨_, rfl⟩ := hh; exact ⟨id, fun _ => rfl⟩
    · obtain ⟨_, _, rfl⟩ := hh; exact ⟨id, fun _ => rfl⟩
    · obtain ⟨_, _, rfl⟩ := hh; exact ⟨id, fun _ => rfl⟩
  | serveCount i => obtain ⟨_, rfl⟩ := step_serveCount hs; exact ⟨id, fun _ => rfl⟩
  | serveRecv i peer d => obtain ⟨_, _, rfl⟩ := step_serveRecv hs; exact ⟨id, fun _ => rfl⟩
  | serveReadErr i => obtain ⟨_, _, _, rfl⟩ := step_serveReadErr hs; exact ⟨by simp, fun _ => by simp⟩
  | serveReadFail i k =>
    obtain ⟨_, hh | hh | hh⟩ := step_serveReadFail hs
    · obtain ⟨_, rfl⟩ := hh; exact ⟨by simp, fun _ => by simp⟩
    · obtain ⟨_, _, rfl⟩ := hh; exact ⟨by simp, fun _ => by simp⟩
    · obtain ⟨_, _, rfl⟩ := hh; exact ⟨id, fun _ => rfl⟩
  | taskRun t =>
    obtain ⟨i, fate, ht, hh | hh⟩ := step_taskRun hs
    · obtain ⟨key, p, rfl, hk, rfl⟩ := hh; exact ⟨id, fun _ => rfl⟩
    · obtain ⟨_, rfl⟩ := hh; exact ⟨by simp, fun _ => by simp⟩
  | taskFinish t => obtain ⟨i, key, ht, rfl⟩ := step_taskFinish hs; exact ⟨by simp, fun _ => by simp⟩
  | taskReply t code attrs => obtain ⟨i, key, p, w, _, _, _, rfl⟩ := step_taskReply hs; exact ⟨id, fun _ => rfl⟩
  | downEnter j =>
    refine ⟨?_, fun h => absurd rfl (h j)⟩
    obtain ⟨c, hj, hh | hh⟩ := step_downEnter hs
    · obtain ⟨_, rfl⟩ := hh; exact id
    · obtain ⟨_, rfl⟩ := hh; simp
  | downReturnNil j => obtain ⟨c, hj, _, rfl⟩ := step_downReturnNil hs; exact ⟨id, fun _ => rfl⟩
  | downReturnCtx j => obtain ⟨hj, rfl⟩ := step_downReturnCtx hs; exact ⟨id, fun _ => rfl⟩
  | ctxExpire j => obtain ⟨pc, hj, rfl⟩ := step_ctxExpire hs; exact ⟨id, fun _ => rfl⟩

/-! ### the invariant of the fine machine: a Serve call that holds a datagram is in its read loop -/

structure Inv2 (s : St2) : Prop where
  len : s.held.length = s.base.serves.length
  run : ∀ (i : Nat) (x : Nat × Bytes), s.holds i = some x → s.base.serves[i]? = some .running

theorem holds_set (s : St2) (i j : Nat) (v : Option (Nat × Bytes)) :
    ({ s with held := s.held.set i v } : St2).holds j = if i = j ∧ i < s.held.length then v else s.holds j := by
  simp only [St2.holds]; exact getD_set _ _ _ _ _

theorem holds_mk_set (b : St) (held : List (Option (Nat × Bytes))) (i j : Nat) (v : Option (Nat × Bytes)) :
    ({ base := b, held := held.set i v } : St2).holds j = if i = j ∧ i < held.length then v else held.getD j none := by
  simp only [St2.holds]; exact getD_set _ _ _ _ _

theorem Inv2_initWith2 (conns : List Nat) (nD : Nat) : Inv2 (initWith2 conns nD) := by
  refine ⟨by simp [initWith2, initWith], ?_⟩
  intro i x h
  simp [St2.holds, initWith2, List.getD_eq_getElem?_getD, List.getElem?_replicate] at h
  split at h <;> simp at h

theorem spawn_serves (H : Hash) (cfg : Cfg) (s : St) (i peer : Nat) (d : Bytes) :
    (spawn H cfg s i peer d).serves = s.serves := rfl

theorem Inv2_step {H : Hash} {cfg : Cfg} {s s' : St2} (l : Label2) (h : Inv2 s)
    (hs : step2 H cfg s l = some s') : Inv2 s' := by
  cases l with
  | serveRead i peer d =>
    obtain ⟨hrun, _, _, rfl⟩ := step2_serveRead hs
    refine ⟨by simpa using h.len, ?_⟩
    intro j x hj
    rw [holds_set] at hj
    split at hj
    · next hc => rw [← hc.1]; exact hrun
    · exact h.run j x hj
  | serveSpawn i =>
    obtain ⟨peer, d, hh, rfl⟩ := step2_serveSpawn hs
    refine ⟨by simpa [spawn_serves] using h.len, ?_⟩
    intro j x hj
    rw [holds_mk_set] at hj
    split at hj
    · cases hj
    · exact h.run j x hj
  | base l =>
    obtain ⟨b, hb, rfl, hno⟩ := step2_base hs
    refine ⟨by rw [step_serves_length hb]; exact h.len, ?_⟩
    intro j x hj
    have hj' : s.holds j = some x := hj
    refine step_running_stable hb (h.run j x hj') (Or.inl ?_)
    intro hl
    rw [hno j hl] at hj'; cases hj'

/-- In the fine machine a Serve call in its read loop leaves it only by a `serveReadErr` / `serveReadFail`
    step of its own. -/
theorem step2_running_stable {H : Hash} {cfg : Cfg} {s s' : St2} {l : Label2} (hs : step2 H cfg s l = some s')
    {i : Nat} (hi : s.base.serves[i]? = some .running)
    (hl : ∀ l0, l = .base l0 → l0.readLoopOf ≠ some i ∨ ∃ peer d, l0 = .serveRecv i peer d) :
    s'.base.serves[i]? = some .running := by
  cases l with
  | serveRead j peer d => obtain ⟨_, _, _, rfl⟩ := step2_serveRead hs; exact hi
  | serveSpawn j => obtain ⟨peer, d, _, rfl⟩ := step2_serveSpawn hs; exact hi
  | base l0 =>
    obtain ⟨b, hb, rfl, _⟩ := step2_base hs
    exact step_running_stable hb hi (hl l0 rfl)

/-- every invariant of the coarse machine that `spawn` by a running Serve call preserves is an invariant
    of the `base` component of the fine machine -/
theorem base_step2 {H : Hash} {cfg : Cfg} {P : St → Prop}
    (hstep : ∀ s l s', P s → step H cfg s l = some s' → P s')
    (hspawn : ∀ s i peer d, P s → s.serves[i]? = some .running → P (spawn H cfg s i peer d))
    {s s' : St2} (l : Label2) (h2 : Inv2 s) (h : P s.base) (hs : step2 H cfg s l = some s') : P s'.base := by
  cases l with
  | serveRead i peer d => obtain ⟨_, _, _, rfl⟩ := step2_serveRead hs; exact h
  | serveSpawn i =>
    obtain ⟨peer, d, hh, rfl⟩ := step2_serveSpawn hs
    exact hspawn _ i peer d h (h2.run i _ hh)
  | base l =>
    obtain ⟨b, hb, rfl, _⟩ := step2_base hs
    exact hstep _ l b h hb

theorem base_run2 {H : Hash} {cfg : Cfg} {P : St → Prop}
    (hstep : ∀ s l s', P s → step H cfg s l = some s' → P s')
    (hspawn : ∀ s i peer d, P s → s.serves[i]? = some .running → P (spawn H cfg s i peer d))
    (ls : List Label2) (s : St2) (h2 : Inv2 s) (h : P s.base) :
    Inv2 (run2 H cfg s ls) ∧ P (run2 H cfg s ls).base :=
  run2_preserves H cfg (fun s => Inv2 s ∧ P s.base)
    (fun _ l _ hh hs => ⟨Inv2_step l hh.1 hs, base_step2 hstep hspawn l hh.1 hh.2 hs⟩) ls s ⟨h2, h⟩

theorem Inv2_run (H : Hash) (cfg : Cfg) (conns : List Nat) (nD : Nat) (ls : List Label2) :
    Inv2 (run2 H cfg (initWith2 conns nD) ls) :=
  run2_preserves H cfg Inv2 (fun _ l _ h hs => Inv2_step l h hs) ls _ (Inv2_initWith2 conns nD)

theorem InvG_run2 (H : Hash) (cfg : Cfg) (conns : List Nat) (nD : Nat) (ls : List Label2) :
    InvG (run2 H cfg (initWith2 conns nD) ls).base :=
  (base_run2 (P := InvG) (fun _ l _ h hs => InvG_step l h hs) (fun _ _ _ _ h hr => InvG_spawn h hr)
    ls _ (Inv2_initWith2 conns nD) (InvG_initWith conns nD)).2

theorem InvF_run2_from (H : Hash) (cfg : Cfg) (hv : cfg.variant = .fixed) (ls : List Label2) (s : St2)
    (h2 : Inv2 s) (h : InvF s.base) : Inv2 (run2 H cfg s ls) ∧ InvF (run2 H cfg s ls).base :=
  base_run2 (P := InvF) (fun _ l _ h hs => InvF_step hv l h hs) (fun _ _ _ _ h hr => InvF_spawn h hr) ls s h2 h

theorem InvF_run2 (H : Hash) (cfg : Cfg) (hv : cfg.variant = .fixed) (conns : List Nat) (nD : Nat)
    (ls : List Label2) : InvF (run2 H cfg (initWith2 conns nD) ls).base :=
  (InvF_run2_from H cfg hv ls _ (Inv2_initWith2 conns nD) (InvF_initWith conns nD)).2

theorem InvO_run2 (H : Hash) (cfg : Cfg) (conns : List Nat) (nD : Nat) (ls : List Label2) :
    InvO H cfg (run2 H cfg (initWith2 conns nD) ls).base :=
  (base_run2 (P := InvO H cfg) (fun _ l _ h hs => InvO_step l h hs) (fun _ i peer d h _ => InvO_spawn i peer d h)
    ls _ (Inv2_initWith2 conns nD) (InvO_initWith H cfg conns nD)).2

theorem InvC_run2 (H : Hash) (cfg : Cfg) (conns : List Nat) (nD : Nat) (ls : List Label2) :
    InvC (run2 H cfg (initWith2 conns nD) ls).base :=
  (base_run2 (P := InvC) (fun _ l _ h hs => InvC_step l h hs) (fun _ i peer d h _ => InvC_spawn i peer d h)
    ls _ (Inv2_initWith2 conns nD) (InvC_initWith conns nD)).2

theorem connOf_run2 (H : Hash) (cfg : Cfg) (conns : List Nat) (nD : Nat) (ls : List Label2) :
    (run2 H cfg (initWith2 conns nD) ls).base.connOf = conns :=
  (base_run2 (P := fun s => s.connOf = conns) (fun _ _ _ h hs => (step_connOf hs).trans h)
    (fun _ _ _ _ h _ => h) ls _ (Inv2_initWith2 conns nD) rfl).2

/-! ### drained states of the fine machine are absorbing -/

structure Drained2 (s : St2) : Prop where
  base : Drained s.base
  held : ∀ i, s.holds i = none

theorem Drained2_step {H : Hash} {cfg : Cfg} {s s' : St2} (l : Label2) (h : Drained2 s)
    (hs : step2 H cfg s l = some s') :
    Drained2 s' ∧ s'.base.log.filter isHS = s.base.log.filter isHS := by
  cases l with
  | serveRead i peer d =>
    obtain ⟨hr, _⟩ := step2_serveRead hs
    have := h.base.serves _ (List.mem_of_getElem? hr)
    cases this
  | serveSpawn i =>
    obtain ⟨peer, d, hh, _⟩ := step2_serveSpawn hs
    rw [h.held i] at hh; cases hh
  | base l =>
    obtain ⟨b, hb, rfl, _⟩ := step2_base hs
    obtain ⟨hd, hl⟩ := Drained_step l h.base hb
    exact ⟨⟨hd, h.held⟩, hl⟩

theorem Drained2_run (H : Hash) (cfg : Cfg) (ls : List Label2) (s : St2) (h : Drained2 s) :
    Drained2 (run2 H cfg s ls) ∧ (run2 H cfg s ls).base.log.filter isHS = s.base.log.filter isHS := by
  induction ls generalizing s with
  | nil => exact ⟨h, rfl⟩
  | cons l ls ih =>
    simp only [run2]
    split
    · next s' hs =>
      obtain ⟨hd, hl⟩ := Drained2_step l h hs
      obtain ⟨hd', hl'⟩ := ih s' hd
      exact ⟨hd', hl'.trans hl⟩
    · exact ih s h

/-- … and no goroutine is spawned in a drained state -/
theorem Drained2_step_tasks {H : Hash} {cfg : Cfg} {s s' : St2} (l : Label2) (h : Drained2 s)
    (hs : step2 H cfg s l = some s') : s'.base.tasks.length = s.base.tasks.length := by
  cases l with
  | serveRead i peer d => obtain ⟨_, _, _, rfl⟩ := step2_serveRead hs; rfl
  | serveSpawn i =>
    obtain ⟨peer, d, hh, _⟩ := step2_serveSpawn hs
    rw [h.held i] at hh; cases hh
  | base l =>
    obtain ⟨b, hb, rfl, _⟩ := step2_base hs
    have := step_tasks_length hb
    cases l with
    | serveRecv i peer d =>
      obtain ⟨hr, _⟩ := step_serveRecv hb
      have := h.base.serves _ (List.mem_of_getElem? hr)
      cases this
    | _ => simpa [recvLabel] using this

theorem Drained2_run_tasks (H : Hash) (cfg : Cfg) (ls : List Label2) (s : St2) (h : Drained2 s) :
    (run2 H cfg s ls).base.tasks.length = s.base.tasks.length := by
  induction ls generalizing s with
  | nil => rfl
  | cons l ls ih =>
    simp only [run2]
    split
    · next s' hs =>
      rw [ih s' (Drained2_step l h hs).1, Drained2_step_tasks l h hs]
    · exact ih s h

theorem no_held_of_drained {s : St2} (h2 : Inv2 s) (hd : Drained s.base) : ∀ i, s.holds i = none := by
  intro i
  cases hh : s.holds i with
  | none => rfl
  | some x =>
    have := hd.serves _ (List.mem_of_getElem? (h2.run i x hh))
    cases this

theorem Drained2_of_closed {s : St2} (h2 : Inv2 s) (h : InvF s.base) (hc : s.base.closes ≥ 1) : Drained2 s :=
  ⟨Drained_of_closed h hc, no_held_of_drained h2 (Drained_of_closed h hc)⟩

/-! ### the key fact: a Serve call that holds a datagram is itself counted -/

/-- In a state satisfying the invariants, a Serve call that holds a read-but-not-yet-spawned datagram is
    in its read loop, hence counted in `activeCount`; so `lastActive` has not been closed and no Shutdown
    call has returned nil. -/
theorem held_is_counted {s : St2} (h2 : Inv2 s) (h : InvF s.base) {i : Nat} {x : Nat × Bytes}
    (hh : s.holds i = some x) :
    s.base.serves[i]? = some .running ∧ countedServes s.base ≥ 1 ∧
    s.base.active ≥ (if s.base.sd then 0 else 1) ∧ s.base.closes = 0 ∧
    ∀ (j : Nat) (c : Bool), s.base.downs[j]? ≠ some (⟨.returned .nil, c⟩ : Down) := by
  have hrun := h2.run i x hh
  have hpos := counted_pos hrun
  have hact := h.act
  have hcl0 : s.base.closes = 0 := by
    have h1 := h.cl1
    have : ¬ s.base.closes = 1 := by intro hx; have := h.cl2.mp hx; omega
    omega
  refine ⟨hrun, hpos, ?_, hcl0, ?_⟩
  · cases hsd : s.base.sd <;> simp [hsd] at hact ⊢ <;> omega
  · intro j c hj
    have := h.nil j c hj
    omega

/-! ### progress of the fine machine towards the drained state -/

/-- the coarse measure, plus 3 for every datagram a Serve call holds: its `serveSpawn` adds a goroutine
    that has not run its pipeline (weight 2 in `drainMeasure`) -/
def measure2 (s : St2) : Nat := drainMeasure s.base + 3 * heldCount s

/-- labels of the fine machine whose step brings the server closer to the drained state -/
def isDrainLabel2 : Label2 → Bool
  | .serveSpawn _ => true
  | .base l => isDrainLabel l
  | .serveRead .. => false

/-- … those among them that are steps of the server itself (no `serveReadFail` of the environment) -/
def isOwnDrainLabel2 : Label2 → Bool
  | .serveSpawn _ => true
  | .base l => isOwnDrainLabel l
  | .serveRead .. => false

theorem isDrain2_of_own {l : Label2} (h : isOwnDrainLabel2 l = true) : isDrainLabel2 l = true := by
  cases l with
  | serveRead i peer d => cases h
  | serveSpawn i => rfl
  | base l => exact isDrain_of_own h

theorem held_getElem? {s : St2} {i : Nat} (hi : i < s.held.length) : s.held[i]? = some (s.holds i) := by
  simp [St2.holds, List.getD_eq_getElem?_getD, List.getElem?_eq_getElem hi]

theorem heldCount_set {s : St2} {i : Nat} (hi : i < s.held.length) (v : Option (Nat × Bytes)) :
    heldCount { s with held := s.held.set i v } + (if (s.holds i).isSome then 1 else 0) =
      heldCount s + (if v.isSome then 1 else 0) := by
  have := filter_set_length Option.isSome s.held i (s.holds i) v (held_getElem? hi)
  simpa [heldCount] using this

theorem drainMeasure_spawn (H : Hash) (cfg : Cfg) (s : St) (i peer : Nat) (d : Bytes) :
    drainMeasure (spawn H cfg s i peer d) = drainMeasure s + 2 := by
  have h1 : liveTasks (spawn H cfg s i peer d) = liveTasks s + 1 := by
    simp [spawn_eq, liveTasks, List.filter_append]
  have h2 : spawnedTasks (spawn H cfg s i peer d) = spawnedTasks s + 1 := by
    simp [spawn_eq, spawnedTasks, List.filter_append, List.filter_cons]
  have h3 : countedServes (spawn H cfg s i peer d) = countedServes s := rfl
  simp only [drainMeasure, h1, h2, h3]; omega

theorem sd_spawn (H : Hash) (cfg : Cfg) (s : St) (i peer : Nat) (d : Bytes) :
    (spawn H cfg s i peer d).sd = s.sd := rfl

/-- `serveSpawn i` is enabled whenever Serve call `i` holds a datagram — also after Shutdown has been
    requested and its conn has been closed — and it releases the datagram -/
theorem serveSpawn_enabled {H : Hash} {cfg : Cfg} {s : St2} {i : Nat} {x : Nat × Bytes}
    (hh : s.holds i = some x) :
    step2 H cfg s (.serveSpawn i) =
      some { base := spawn H cfg s.base i x.1 x.2, held := s.held.set i none } := by
  rw [step2_serveSpawn_eq, hh]

/-- After Shutdown has been requested (invariants of the repaired server): every enabled step of the
    fine machine keeps shutdown requested and does not increase `measure2`; steps with a drain label
    decrease it strictly, all others leave it unchanged; `serveRead` is not enabled (the conn of a
    running Serve call has been closed) — but `serveSpawn` IS, for a datagram read before. -/
theorem step2_drain_le {H : Hash} {cfg : Cfg} {s s' : St2} {l : Label2} (h2 : Inv2 s) (h : InvF s.base)
    (hsd : s.base.sd = true) (hs : step2 H cfg s l = some s') :
    s'.base.sd = true ∧ measure2 s' ≤ measure2 s ∧
      (isDrainLabel2 l = true → measure2 s' < measure2 s) ∧
      (isDrainLabel2 l = false → measure2 s' = measure2 s) ∧
      (∀ i peer d, l ≠ .serveRead i peer d) := by
  cases l with
  | serveRead i peer d =>
    obtain ⟨hrun, _, hcl, _⟩ := step2_serveRead hs
    have hlp : s.base.listeners.getD (s.base.connOf.getD i 0) 0 > 0 := by
      rw [h.cnt]; exact runOnL_pos hrun
    have := (h.sdc hsd).2 _ hlp
    omega
  | serveSpawn i =>
    obtain ⟨peer, d, hh, rfl⟩ := step2_serveSpawn hs
    have hil : i < s.held.length := by rw [h2.len]; exact lt_of_getElem?_eq_some (h2.run i _ hh)
    have hc := heldCount_set hil none
    rw [hh] at hc
    simp only [Option.isSome_some, if_true, Option.isSome_none, Bool.false_eq_true, if_false] at hc
    have hm := drainMeasure_spawn H cfg s.base i peer d
    have hlt : measure2 { base := spawn H cfg s.base i peer d, held := s.held.set i none } + 1 = measure2 s := by
      simp only [measure2, hm]
      have : heldCount { base := spawn H cfg s.base i peer d, held := s.held.set i none } =
          heldCount { s with held := s.held.set i none } := rfl
      rw [this]; omega
    refine ⟨by rw [sd_spawn]; exact hsd, by omega, fun _ => by omega, (by intro hx; cases hx), ?_⟩
    intro _ _ _ hx; cases hx
  | base l =>
    obtain ⟨b, hb, rfl, _⟩ := step2_base hs
    obtain ⟨a1, a2, a3, a4⟩ := step_drain_le h hsd hb
    have hk : heldCount { s with base := b } = heldCount s := rfl
    refine ⟨a1, ?_, ?_, ?_, ?_⟩
    · simp only [measure2, hk]; omega
    · intro hd; have := a3 hd; simp only [measure2, hk]; omega
    · intro hd; have := a4 hd; simp only [measure2, hk]; omega
    · intro _ _ _ hx; cases hx

theorem exists_held_or_none (s : St2) : (∃ i x, s.holds i = some x) ∨ ∀ i, s.holds i = none := by
  by_cases h0 : heldCount s = 0
  · right
    intro i
    simp only [St2.holds, List.getD_eq_getElem?_getD]
    cases hi : s.held[i]? with
    | none => rfl
    | some a =>
      have := filter_length_zero h0 a (List.mem_of_getElem? hi)
      cases a with
      | none => rfl
      | some x => cases this
  · left
    obtain ⟨i, a, hi, ha⟩ := exists_of_filter_pos h0
    cases a with
    | none => cases ha
    | some x => exact ⟨i, x, by simp [St2.holds, List.getD_eq_getElem?_getD, hi]⟩

/-- while the server is not drained, one of the server's own drain steps is enabled in the fine machine:
    a held datagram can be spawned; otherwise the coarse machine's own step is enabled here too -/
theorem own_drain_label_enabled2 {H : Hash} {cfg : Cfg} {s : St2} (h2 : Inv2 s) (h : InvF s.base)
    (hsd : s.base.sd = true) (hm : countedServes s.base + liveTasks s.base ≠ 0) :
    ∃ l s', isOwnDrainLabel2 l = true ∧ step2 H cfg s l = some s' ∧ s'.base.sd = true ∧
      measure2 s' < measure2 s := by
  rcases exists_held_or_none s with ⟨i, x, hh⟩ | hnone
  · refine ⟨.serveSpawn i, _, rfl, serveSpawn_enabled hh, ?_⟩
    obtain ⟨a1, _, a3, _⟩ := step2_drain_le h2 h hsd (serveSpawn_enabled (H := H) (cfg := cfg) hh)
    exact ⟨a1, a3 rfl⟩
  · obtain ⟨l, b, hown, hb, _, _⟩ := drain_progress_own (H := H) (cfg := cfg) h hsd hm
    have hs : step2 H cfg s (.base l) = some { s with base := b } := by
      rw [step2_base_eq (fun i _ => hnone i), hb]; rfl
    obtain ⟨a1, _, a3, _⟩ := step2_drain_le h2 h hsd hs
    exact ⟨.base l, _, hown, hs, a1, a3 (isDrain_of_own hown)⟩

theorem measure2_zero {s : St2} (h : measure2 s = 0) : countedServes s.base = 0 ∧ liveTasks s.base = 0 := by
  simp only [measure2, drainMeasure] at h; omega

/-- the number of enabled steps with one of the server's own drain labels in a fine schedule -/
def ownDrainSteps2 (H : Hash) (cfg : Cfg) : St2 → List Label2 → Nat
  | _, [] => 0
  | s, l :: ls =>
    match step2 H cfg s l with
    | some s' => (if isOwnDrainLabel2 l then 1 else 0) + ownDrainSteps2 H cfg s' ls
    | none => ownDrainSteps2 H cfg s ls

theorem drain2_bound (H : Hash) (cfg : Cfg) (hv : cfg.variant = .fixed) :
    ∀ (ls : List Label2) (s : St2), Inv2 s → InvF s.base → s.base.sd = true →
      (run2 H cfg s ls).base.sd = true ∧
        ownDrainSteps2 H cfg s ls + measure2 (run2 H cfg s ls) ≤ measure2 s := by
  intro ls
  induction ls with
  | nil => intro s _ _ hsd; exact ⟨hsd, by simp [ownDrainSteps2, run2]⟩
  | cons l ls ih =>
    intro s h2 h hsd
    simp only [run2, ownDrainSteps2]
    cases hs : step2 H cfg s l with
    | none => exact ih s h2 h hsd
    | some s' =>
      simp only []
      obtain ⟨hsd', hle, hlt, _⟩ := step2_drain_le h2 h hsd hs
      have hI := InvF_run2_from H cfg hv [l] s h2 h
      simp only [run2, hs] at hI
      obtain ⟨h1, hb⟩ := ih s' hI.1 hI.2 hsd'
      refine ⟨h1, ?_⟩
      cases hd : isOwnDrainLabel2 l with
      | true => have := hlt (isDrain2_of_own hd); simp only [if_true]; omega
      | false => simp only [Bool.false_eq_true, if_false]; omega

/-- a draining schedule of the fine machine made of the server's own steps only -/
theorem drain2_own {H cfg} (hv : cfg.variant = .fixed) :
    ∀ (n : Nat) (s : St2), Inv2 s → InvF s.base → s.base.sd = true → measure2 s ≤ n →
      ∃ ls', (∀ l ∈ ls', isOwnDrainLabel2 l = true) ∧ (run2 H cfg s ls').base.sd = true ∧
        countedServes (run2 H cfg s ls').base = 0 ∧ liveTasks (run2 H cfg s ls').base = 0 := by
  intro n
  induction n with
  | zero =>
    intro s _ _ hsd hm
    have := measure2_zero (s := s) (by omega)
    exact ⟨[], by simp, hsd, this.1, this.2⟩
  | succ n ih =>
    intro s h2 h hsd hm
    by_cases hz : countedServes s.base + liveTasks s.base = 0
    · refine ⟨[], by simp, hsd, ?_, ?_⟩ <;> simp only [run2] <;> omega
    · obtain ⟨l, s', hown, hs, hsd', hlt⟩ := own_drain_label_enabled2 (H := H) (cfg := cfg) h2 h hsd hz
      have hI := InvF_run2_from H cfg hv [l] s h2 h
      simp only [run2, hs] at hI
      obtain ⟨ls', hall, h0, h1, h2'⟩ := ih s' hI.1 hI.2 hsd' (by omega)
      refine ⟨l :: ls', ?_, ?_, ?_, ?_⟩
      · intro l' hl'
        rcases List.mem_cons.mp hl' with rfl | hm'
        · exact hown
        · exact hall l' hm'
      all_goals simp only [run2, hs]; assumption

/-! ### the coarse machine is the fine machine on schedules in which `serveRead`, `serveSpawn` are adjacent -/

theorem step_serveRecv_eq (H : Hash) (cfg : Cfg) (s : St) (i peer : Nat) (d : Bytes) :
    step H cfg s (.serveRecv i peer d) =
      if s.serves[i]? = some .running ∧ s.connClosed.getD (s.connOf.getD i 0) 0 = 0
      then some (spawn H cfg s i peer d) else none := by
  simp only [step]
  split
  · next hs =>
    by_cases hc : s.connClosed.getD (s.connOf.getD i 0) 0 > 0
    · rw [if_pos hc, if_neg]; omega
    · rw [if_neg hc, if_pos]; exact ⟨hs, by omega⟩
  · next hn =>
    rw [if_neg]
    rintro ⟨h1, _⟩
    exact hn h1

theorem refine_cons_base {l : Label} (hl : ∀ i peer d, l ≠ .serveRecv i peer d) (ls : List Label) :
    refine (l :: ls) = .base l :: refine ls := by
  cases l <;> first | rfl | exact absurd rfl (hl _ _ _)

theorem replicate_getD_none {α} (n i : Nat) : (List.replicate n (none : Option α)).getD i none = none := by
  simp only [List.getD_eq_getElem?_getD, List.getElem?_replicate]
  split <;> rfl

theorem replicate_set_set_none {α} (n i : Nat) (v : Option α) :
    ((List.replicate n (none : Option α)).set i v).set i none = List.replicate n none := by
  apply List.ext_getElem?
  intro j
  simp only [List.set_set, List.getElem?_set, List.getElem?_replicate, List.length_replicate]
  split
  · next h => subst h; split <;> rfl
  · rfl

/-- Simulation.  From any state in which no Serve call holds a datagram, EVERY schedule of the fine
    machine in which each `serveRead` is immediately followed by its `serveSpawn` leads to the state the
    coarse machine reaches under the coarsened schedule (the pair read as `serveRecv`), again with nothing
    held: on these schedules the fine machine IS the coarse machine. -/
theorem adjacent_run (H : Hash) (cfg : Cfg) {ls2 : List Label2} (hadj : PairsAdjacent ls2) :
    ∀ (s : St),
      run2 H cfg { base := s, held := List.replicate s.serves.length none } ls2 =
        { base := run H cfg s (coarsen ls2), held := List.replicate s.serves.length none } := by
  induction hadj with
  | nil => intro s; rfl
  | pair i peer d _ ih =>
    intro s
    simp only [coarsen, run2, run]
    rw [step2_serveRead_eq, step_serveRecv_eq]
    simp only [St2.holds, replicate_getD_none, true_and]
    by_cases hc : s.serves[i]? = some .running ∧ s.connClosed.getD (s.connOf.getD i 0) 0 = 0
    · rw [if_pos hc, if_pos hc]
      have hil : i < s.serves.length := lt_of_getElem?_eq_some hc.1
      simp only []
      rw [step2_serveSpawn_eq]
      have hh : ({ base := s, held := (List.replicate s.serves.length none).set i (some (peer, d)) } : St2).holds i
          = some (peer, d) := by
        simp [St2.holds, List.getD_eq_getElem?_getD, hil]
      rw [hh]
      simp only [replicate_set_set_none]
      have := ih (spawn H cfg s i peer d)
      rw [spawn_serves] at this
      exact this
    · rw [if_neg hc, if_neg hc]
      simp only []
      rw [step2_serveSpawn_eq]
      simp only [St2.holds, replicate_getD_none]
      exact ih s
  | base l _ ih =>
    intro s
    simp only [coarsen, run2, run]
    rw [step2_base_eq (by intro i _; exact replicate_getD_none _ _)]
    cases hs : step H cfg s l with
    | none => exact ih s
    | some s' =>
      simp only [Option.map_some]
      have := ih s'
      rw [step_serves_length hs] at this
      exact this

theorem refine_adjacent : ∀ ls : List Label, PairsAdjacent (refine ls) ∧ coarsen (refine ls) = ls := by
  intro ls
  induction ls with
  | nil => exact ⟨.nil, rfl⟩
  | cons l ls ih =>
    by_cases hl : ∃ i peer d, l = .serveRecv i peer d
    · obtain ⟨i, peer, d, rfl⟩ := hl
      exact ⟨.pair i peer d ih.1, by simp only [refine, coarsen, ih.2]⟩
    · have hl' : ∀ i peer d, l ≠ .serveRecv i peer d := fun i peer d e => hl ⟨i, peer, d, e⟩
      rw [refine_cons_base hl']
      exact ⟨.base l ih.1, by simp only [coarsen, ih.2]⟩

/-- Refinement.  A schedule of the coarse machine and its refinement (`serveRecv` ↦ `serveRead`,
    `serveSpawn` adjacent, every other label as it is) lead to the same state: every coarse run is a
    fine run. -/
theorem refine_run (H : Hash) (cfg : Cfg) (ls : List Label) (s : St) :
    run2 H cfg { base := s, held := List.replicate s.serves.length none } (refine ls) =
      { base := run H cfg s ls, held := List.replicate s.serves.length none } := by
  have := adjacent_run H cfg (refine_adjacent ls).1 s
  rw [(refine_adjacent ls).2] at this
  exact this

end RV.Server
