/- Helper lemmas about RV.Model.Server used by RV.Props.C06 and RV.Props.C07. -/
import RV.Model.Server
import RV.Props.C03
namespace RV.Server

/-! ### generic list lemmas -/

theorem filter_set_length {α} (p : α → Bool) (l : List α) (i : Nat) (a b : α) (h : l[i]? = some a) :
    ((l.set i b).filter p).length + (if p a then 1 else 0) = (l.filter p).length + (if p b then 1 else 0) := by
  induction l generalizing i with
  | nil => simp at h
  | cons x xs ih =>
    cases i with
    | zero =>
      simp at h; subst h
      simp [List.filter_cons]
      split <;> split <;> simp <;> omega
    | succ n =>
      simp at h
      have := ih n h
      simp only [List.set_cons_succ, List.filter_cons]
      split <;> (try simp only [List.length_cons]) <;> omega

theorem getD_set {α} (l : List α) (i j : Nat) (a d : α) :
    (l.set i a).getD j d = if i = j ∧ i < l.length then a else l.getD j d := by
  simp only [List.getD_eq_getElem?_getD, List.getElem?_set]
  by_cases h : i = j
  · subst h
    by_cases h2 : i < l.length <;> simp [h2]
  · simp [h]

theorem lt_of_getElem?_eq_some {α} {l : List α} {i : Nat} {a : α} (h : l[i]? = some a) : i < l.length := by
  have := List.getElem?_eq_some_iff.mp h
  exact this.1

/-! ### `activeDone` projections -/

@[simp] theorem activeDone_sd (s : St) : (activeDone s).sd = s.sd := by
  by_cases h : s.active - 1 = -1 <;> simp [activeDone, h]
@[simp] theorem activeDone_serves (s : St) : (activeDone s).serves = s.serves := by
  by_cases h : s.active - 1 = -1 <;> simp [activeDone, h]
@[simp] theorem activeDone_listeners (s : St) : (activeDone s).listeners = s.listeners := by
  by_cases h : s.active - 1 = -1 <;> simp [activeDone, h]
@[simp] theorem activeDone_connOf (s : St) : (activeDone s).connOf = s.connOf := by
  by_cases h : s.active - 1 = -1 <;> simp [activeDone, h]
@[simp] theorem activeDone_connClosed (s : St) : (activeDone s).connClosed = s.connClosed := by
  by_cases h : s.active - 1 = -1 <;> simp [activeDone, h]
@[simp] theorem activeDone_inflight (s : St) : (activeDone s).inflight = s.inflight := by
  by_cases h : s.active - 1 = -1 <;> simp [activeDone, h]
@[simp] theorem activeDone_tasks (s : St) : (activeDone s).tasks = s.tasks := by
  by_cases h : s.active - 1 = -1 <;> simp [activeDone, h]
@[simp] theorem activeDone_origin (s : St) : (activeDone s).origin = s.origin := by
  by_cases h : s.active - 1 = -1 <;> simp [activeDone, h]
@[simp] theorem activeDone_downs (s : St) : (activeDone s).downs = s.downs := by
  by_cases h : s.active - 1 = -1 <;> simp [activeDone, h]
@[simp] theorem activeDone_ctxCancelled (s : St) : (activeDone s).ctxCancelled = s.ctxCancelled := by
  by_cases h : s.active - 1 = -1 <;> simp [activeDone, h]
@[simp] theorem activeDone_active (s : St) : (activeDone s).active = s.active - 1 := by
  by_cases h : s.active - 1 = -1 <;> simp [activeDone, h]
theorem activeDone_closes (s : St) :
    (activeDone s).closes = if s.active = 0 then s.closes + 1 else s.closes := by
  unfold activeDone
  by_cases h : s.active = 0
  · have : s.active - 1 = -1 := by omega
    simp [h]
  · have : ¬ (s.active - 1 = -1) := by omega
    simp [h, this]

theorem activeDone_log (s : St) :
    (activeDone s).log = s.log ∨ (activeDone s).log = s.log ++ [.doubleClose] := by
  by_cases h : s.active - 1 = -1
  · by_cases h2 : s.closes ≥ 1
    · right; simp [activeDone, h, h2]
    · left; simp [activeDone, h, h2]
  · left; simp [activeDone, h]

/-- our copy of `C07.isHandlerStart` -/
def isHS : Event → Bool
  | .handlerStart _ _ => true
  | _ => false

theorem activeDone_log_filter (s : St) : (activeDone s).log.filter isHS = s.log.filter isHS := by
  rcases activeDone_log s with h | h <;> rw [h]
  simp [isHS]

theorem activeDone_log_mem (s : St) (t : Nat) (k : Key) :
    Event.handlerStart t k ∈ (activeDone s).log ↔ Event.handlerStart t k ∈ s.log := by
  rcases activeDone_log s with h | h <;> rw [h]
  simp

@[simp] theorem countedServes_activeDone (s : St) : countedServes (activeDone s) = countedServes s := by
  simp [countedServes]
@[simp] theorem liveTasks_activeDone (s : St) : liveTasks (activeDone s) = liveTasks s := by
  simp [liveTasks]

/-! ### `run` -/

theorem run_append (H : Hash) (cfg : Cfg) (s : St) (l1 l2 : List Label) :
    run H cfg s (l1 ++ l2) = run H cfg (run H cfg s l1) l2 := by
  induction l1 generalizing s with
  | nil => rfl
  | cons l ls ih =>
    simp only [List.cons_append, run]
    split <;> exact ih _

theorem run_preserves (H : Hash) (cfg : Cfg) (P : St → Prop)
    (hstep : ∀ s l s', P s → step H cfg s l = some s' → P s') :
    ∀ ls s, P s → P (run H cfg s ls) := by
  intro ls
  induction ls with
  | nil => intro s h; exact h
  | cons l ls ih =>
    intro s h
    simp only [run]
    split
    · next s' hs => exact ih _ (hstep s l s' h hs)
    · exact ih _ h

/-! ### inversion of `step`, label by label -/

theorem step_serveEnter {H : Hash} {cfg : Cfg} {s s' : St} {i : Nat}
    (h : step H cfg s (.serveEnter i) = some s') :
    s.serves[i]? = some .notStarted ∧
    ((s.sd = true ∧ s' = { s with serves := s.serves.set i (.returned .errShutdown),
                                   log := s.log ++ [.serveReturned i] }) ∨
     (s.sd = false ∧ cfg.variant = .fixed ∧
        s' = { s with listeners := s.listeners.set (s.connOf.getD i 0) (s.listeners.getD (s.connOf.getD i 0) 0 + 1),
                      serves := s.serves.set i .running,
                      active := s.active + 1 }) ∨
     (s.sd = false ∧ cfg.variant = .current ∧
        s' = { s with listeners := s.listeners.set (s.connOf.getD i 0) (s.listeners.getD (s.connOf.getD i 0) 0 + 1),
                      serves := s.serves.set i .registered })) := by
  simp only [step] at h
  split at h
  · next hs =>
    refine ⟨hs, ?_⟩
    split at h
    · next hsd => left; exact ⟨hsd, (Option.some.inj h).symm⟩
    · next hsd =>
      right
      have hsd' : s.sd = false := by simpa using hsd
      split at h
      · next hv => left; exact ⟨hsd', hv, (Option.some.inj h).symm⟩
      · next hv => right; exact ⟨hsd', hv, (Option.some.inj h).symm⟩
  · cases h

theorem step_serveCount {H : Hash} {cfg : Cfg} {s s' : St} {i : Nat}
    (h : step H cfg s (.serveCount i) = some s') :
    s.serves[i]? = some .registered ∧
    s' = { s with serves := s.serves.set i .running, active := s.active + 1 } := by
  simp only [step] at h
  split at h
  · next hs => exact ⟨hs, (Option.some.inj h).symm⟩
  · cases h

theorem step_serveRecv {H : Hash} {cfg : Cfg} {s s' : St} {i peer : Nat} {d : Bytes}
    (h : step H cfg s (.serveRecv i peer d) = some s') :
    s.serves[i]? = some .running ∧ s.connClosed.getD (s.connOf.getD i 0) 0 = 0 ∧
    s' = { s with tasks := s.tasks ++ [⟨i, .spawned (classify H cfg peer d)⟩],
                  origin := s.origin ++ [⟨i, peer, d⟩],
                  log := s.log ++ [.recv s.tasks.length i peer d],
                  active := s.active + 1 } := by
  simp only [step] at h
  split at h
  · next hs =>
    split at h
    · cases h
    · next hc => exact ⟨hs, by omega, (Option.some.inj h).symm⟩
  · cases h

/-- the state after an enabled `serveRecv` is `spawn` of the state before -/
theorem step_serveRecv_spawn {H : Hash} {cfg : Cfg} {s s' : St} {i peer : Nat} {d : Bytes}
    (h : step H cfg s (.serveRecv i peer d) = some s') :
    s.serves[i]? = some .running ∧ s.connClosed.getD (s.connOf.getD i 0) 0 = 0 ∧ s' = spawn H cfg s i peer d := by
  obtain ⟨a, b, c⟩ := step_serveRecv h
  exact ⟨a, b, c⟩

theorem spawn_eq (H : Hash) (cfg : Cfg) (s : St) (i peer : Nat) (d : Bytes) :
    spawn H cfg s i peer d =
      { s with tasks := s.tasks ++ [⟨i, .spawned (classify H cfg peer d)⟩],
               origin := s.origin ++ [⟨i, peer, d⟩],
               log := s.log ++ [.recv s.tasks.length i peer d],
               active := s.active + 1 } := rfl

/-- a running Serve call returns with result `r`: the deferred cleanup (unregister, `activeDone`) -/
def serveLeave (s : St) (i : Nat) (r : ServeRes) : St :=
  activeDone { s with serves := s.serves.set i (.returned r),
                      listeners := s.listeners.set (s.connOf.getD i 0) (s.listeners.getD (s.connOf.getD i 0) 0 - 1),
                      log := s.log ++ [.serveReturned i] }

theorem step_serveReadErr {H : Hash} {cfg : Cfg} {s s' : St} {i : Nat}
    (h : step H cfg s (.serveReadErr i) = some s') :
    s.serves[i]? = some .running ∧ s.connClosed.getD (s.connOf.getD i 0) 0 > 0 ∧ s.sd = true ∧
    s' = serveLeave s i .errShutdown := by
  simp only [step] at h
  split at h
  · next hs =>
    split at h
    · next hc => exact ⟨hs, hc.1, hc.2, (Option.some.inj h).symm⟩
    · cases h
  · cases h

theorem step_serveReadFail {H : Hash} {cfg : Cfg} {s s' : St} {i : Nat} {k : ReadErrKind}
    (h : step H cfg s (.serveReadFail i k) = some s') :
    s.serves[i]? = some .running ∧
    ((s.sd = true ∧ s' = serveLeave s i .errShutdown) ∨
     (s.sd = false ∧ k = .nonTemporary ∧ s' = serveLeave s i .readError) ∨
     (s.sd = false ∧ k = .other ∧ s' = s)) := by
  simp only [step] at h
  split at h
  · next hs =>
    refine ⟨hs, ?_⟩
    split at h
    · next hsd => left; exact ⟨hsd, (Option.some.inj h).symm⟩
    · next hsd =>
      right
      have hsd' : s.sd = false := by simpa using hsd
      split at h
      · next hk => left; exact ⟨hsd', hk, (Option.some.inj h).symm⟩
      · next hk =>
        right
        refine ⟨hsd', ?_, (Option.some.inj h).symm⟩
        cases k
        · exact absurd rfl hk
        · rfl
  · cases h

theorem step_taskRun {H : Hash} {cfg : Cfg} {s s' : St} {t : Nat}
    (h : step H cfg s (.taskRun t) = some s') :
    ∃ i fate, s.tasks[t]? = some ⟨i, .spawned fate⟩ ∧
    ((∃ key p, fate = .handle key p ∧ key ∉ s.inflight.getD i [] ∧
        s' = { s with tasks := s.tasks.set t ⟨i, .inHandler key⟩,
                      inflight := s.inflight.set i (key :: s.inflight.getD i []),
                      log := s.log ++ [.request t p (s.peerOf t) (s.connOf.getD i 0) .server,
                                       .handlerStart t key] }) ∨
     ((¬ ∃ key p, fate = .handle key p ∧ key ∉ s.inflight.getD i []) ∧
        s' = activeDone { s with tasks := s.tasks.set t ⟨i, .done⟩, log := s.log ++ [.dropped t] })) := by
  simp only [step] at h
  split at h
  · next i fate hs =>
    refine ⟨i, fate, hs, ?_⟩
    split at h
    · next key p =>
      split at h
      · next hc =>
        right
        refine ⟨?_, (Option.some.inj h).symm⟩
        rintro ⟨key', p', he, hn⟩
        cases he
        simp at hc
        exact hn hc
      · next hc =>
        left
        refine ⟨key, p, rfl, ?_, (Option.some.inj h).symm⟩
        simpa using hc
    · next hne =>
      right
      refine ⟨?_, (Option.some.inj h).symm⟩
      rintro ⟨key', p', he, _⟩
      exact hne key' p' he
  · cases h

theorem step_taskFinish {H : Hash} {cfg : Cfg} {s s' : St} {t : Nat}
    (h : step H cfg s (.taskFinish t) = some s') :
    ∃ i key, s.tasks[t]? = some ⟨i, .inHandler key⟩ ∧
      s' = activeDone { s with tasks := s.tasks.set t ⟨i, .done⟩,
                               inflight := s.inflight.set i ((s.inflight.getD i []).erase key),
                               log := s.log ++ [.handlerEnd t] } := by
  simp only [step] at h
  split at h
  · next i key hs => exact ⟨i, key, hs, (Option.some.inj h).symm⟩
  · cases h

theorem step_taskReply {H : Hash} {cfg : Cfg} {s s' : St} {t : Nat} {code : Int} {attrs : Attrs}
    (h : step H cfg s (.taskReply t code attrs) = some s') :
    ∃ i key p w, s.tasks[t]? = some ⟨i, .inHandler key⟩ ∧ s.packetOf H cfg t = some p ∧
      encode H { response p code with attrs := attrs } = .ok w ∧
      s' = { s with log := s.log ++ [.reply t (s.connOf.getD i 0) (s.peerOf t) w] } := by
  simp only [step] at h
  split at h
  · next i key hs =>
    split at h
    · next p hp =>
      split at h
      · next w hw => exact ⟨i, key, p, w, hs, hp, hw, (Option.some.inj h).symm⟩
      · cases h
    · cases h
  · cases h

/-- `packetOf` read off the origin: the goroutine's datagram was classified `handle _ p` -/
theorem packetOf_some {H : Hash} {cfg : Cfg} {s : St} {t : Nat} {p : Packet} (h : s.packetOf H cfg t = some p) :
    ∃ o key, s.origin[t]? = some o ∧ classify H cfg o.peer o.dgram = .handle key p := by
  unfold St.packetOf at h
  split at h
  · next o ho =>
    split at h
    · next key p' hc => cases h; exact ⟨o, key, ho, hc⟩
    · cases h
  · cases h

theorem packetOf_of_origin {H : Hash} {cfg : Cfg} {s : St} {t : Nat} {o : Origin} {key : Key} {p : Packet}
    (ho : s.origin[t]? = some o) (hc : classify H cfg o.peer o.dgram = .handle key p) :
    s.packetOf H cfg t = some p := by
  simp [St.packetOf, ho, hc]

theorem step_downEnter {H : Hash} {cfg : Cfg} {s s' : St} {j : Nat}
    (h : step H cfg s (.downEnter j) = some s') :
    ∃ c, s.downs[j]? = some ⟨.notStarted, c⟩ ∧
    ((s.sd = true ∧ s' = { s with downs := s.downs.set j ⟨.waiting, c⟩ }) ∨
     (s.sd = false ∧
       s' = activeDone { s with
              downs := s.downs.set j ⟨.waiting, c⟩
              sd := true
              ctxCancelled := true
              connClosed := (List.range s.connClosed.length).map
                 (fun c => s.connClosed.getD c 0 + (if s.listeners.getD c 0 > 0 then 1 else 0))
              log := s.log ++ ((List.range s.listeners.length).filter
                 (fun c => s.listeners.getD c 0 > 0)).map .listenerClosed })) := by
  simp only [step] at h
  split at h
  · next c hs =>
    refine ⟨c, hs, ?_⟩
    split at h
    · next hsd => left; exact ⟨hsd, (Option.some.inj h).symm⟩
    · next hsd =>
      right
      exact ⟨by simpa using hsd, (Option.some.inj h).symm⟩
  · cases h

theorem step_downReturnNil {H : Hash} {cfg : Cfg} {s s' : St} {j : Nat}
    (h : step H cfg s (.downReturnNil j) = some s') :
    ∃ c, s.downs[j]? = some ⟨.waiting, c⟩ ∧ s.closes ≥ 1 ∧
      s' = { s with downs := s.downs.set j ⟨.returned .nil, c⟩, log := s.log ++ [.downReturned j .nil] } := by
  simp only [step] at h
  split at h
  · next c hs =>
    split at h
    · next hc => exact ⟨c, hs, hc, (Option.some.inj h).symm⟩
    · cases h
  · cases h

theorem step_downReturnCtx {H : Hash} {cfg : Cfg} {s s' : St} {j : Nat}
    (h : step H cfg s (.downReturnCtx j) = some s') :
    s.downs[j]? = some ⟨.waiting, true⟩ ∧
      s' = { s with downs := s.downs.set j ⟨.returned .ctxErr, true⟩,
                    log := s.log ++ [.downReturned j .ctxErr] } := by
  simp only [step] at h
  split at h
  · next hs => exact ⟨hs, (Option.some.inj h).symm⟩
  · cases h

theorem step_ctxExpire {H : Hash} {cfg : Cfg} {s s' : St} {j : Nat}
    (h : step H cfg s (.ctxExpire j) = some s') :
    ∃ pc, s.downs[j]? = some ⟨pc, false⟩ ∧ s' = { s with downs := s.downs.set j ⟨pc, true⟩ } := by
  simp only [step] at h
  split at h
  · next pc hs => exact ⟨pc, hs, (Option.some.inj h).symm⟩
  · cases h

/-! ### `serveLeave` projections -/

@[simp] theorem serveLeave_sd (s : St) (i : Nat) (r : ServeRes) : (serveLeave s i r).sd = s.sd := by
  simp [serveLeave]
@[simp] theorem serveLeave_serves (s : St) (i : Nat) (r : ServeRes) :
    (serveLeave s i r).serves = s.serves.set i (.returned r) := by simp [serveLeave]
@[simp] theorem serveLeave_listeners (s : St) (i : Nat) (r : ServeRes) :
    (serveLeave s i r).listeners =
      s.listeners.set (s.connOf.getD i 0) (s.listeners.getD (s.connOf.getD i 0) 0 - 1) := by simp [serveLeave]
@[simp] theorem serveLeave_connOf (s : St) (i : Nat) (r : ServeRes) : (serveLeave s i r).connOf = s.connOf := by
  simp [serveLeave]
@[simp] theorem serveLeave_connClosed (s : St) (i : Nat) (r : ServeRes) :
    (serveLeave s i r).connClosed = s.connClosed := by simp [serveLeave]
@[simp] theorem serveLeave_inflight (s : St) (i : Nat) (r : ServeRes) :
    (serveLeave s i r).inflight = s.inflight := by simp [serveLeave]
@[simp] theorem serveLeave_tasks (s : St) (i : Nat) (r : ServeRes) : (serveLeave s i r).tasks = s.tasks := by
  simp [serveLeave]
@[simp] theorem serveLeave_origin (s : St) (i : Nat) (r : ServeRes) : (serveLeave s i r).origin = s.origin := by
  simp [serveLeave]
@[simp] theorem serveLeave_downs (s : St) (i : Nat) (r : ServeRes) : (serveLeave s i r).downs = s.downs := by
  simp [serveLeave]
@[simp] theorem serveLeave_ctxCancelled (s : St) (i : Nat) (r : ServeRes) :
    (serveLeave s i r).ctxCancelled = s.ctxCancelled := by simp [serveLeave]
@[simp] theorem serveLeave_active (s : St) (i : Nat) (r : ServeRes) :
    (serveLeave s i r).active = s.active - 1 := by simp [serveLeave]
theorem serveLeave_closes (s : St) (i : Nat) (r : ServeRes) :
    (serveLeave s i r).closes = if s.active = 0 then s.closes + 1 else s.closes := by
  simp [serveLeave, activeDone_closes]
theorem serveLeave_log_filter (s : St) (i : Nat) (r : ServeRes) :
    (serveLeave s i r).log.filter isHS = s.log.filter isHS := by
  simp [serveLeave, activeDone_log_filter, isHS]
theorem serveLeave_log_mem (s : St) (i : Nat) (r : ServeRes) (t : Nat) (k : Key) :
    Event.handlerStart t k ∈ (serveLeave s i r).log ↔ Event.handlerStart t k ∈ s.log := by
  simp [serveLeave, activeDone_log_mem]
@[simp] theorem liveTasks_serveLeave (s : St) (i : Nat) (r : ServeRes) :
    liveTasks (serveLeave s i r) = liveTasks s := by simp [liveTasks]

/-! ### general invariant (any variant): dedup table, log, caller contexts -/

theorem getElem?_set_some {α} {l : List α} {i j : Nat} {a b : α} (h : (l.set i a)[j]? = some b) :
    (i = j ∧ a = b ∧ i < l.length) ∨ (i ≠ j ∧ l[j]? = some b) := by
  rw [List.getElem?_set] at h
  by_cases hij : i = j
  · simp only [hij, if_true] at h
    split at h
    · next hl => left; exact ⟨hij, Option.some.inj h, hij ▸ hl⟩
    · cases h
  · simp only [hij, if_false] at h
    right; exact ⟨hij, h⟩

theorem getElem?_append_singleton_some {α} {l : List α} {j : Nat} {x b : α}
    (h : (l ++ [x])[j]? = some b) : l[j]? = some b ∨ (j = l.length ∧ x = b) := by
  rw [List.getElem?_append] at h
  split at h
  · left; exact h
  · next hl =>
    right
    have : j - l.length = 0 := by
      by_cases h0 : j - l.length = 0
      · exact h0
      · have : ([x] : List α)[j - l.length]? = none := by
          apply List.getElem?_eq_none; simp; omega
        rw [this] at h; cases h
    rw [this] at h
    simp at h
    exact ⟨by omega, h⟩

structure InvG (s : St) : Prop where
  len : s.inflight.length = s.serves.length
  bound : ∀ (t : Nat) (tk : Task), s.tasks[t]? = some tk → tk.serve < s.serves.length
  nodup : ∀ i, (s.inflight.getD i []).Nodup
  mem : ∀ (i : Nat) (key : Key), key ∈ s.inflight.getD i [] ↔ ∃ t : Nat, s.tasks[t]? = some (⟨i, .inHandler key⟩ : Task)
  uniq : ∀ (t t' i : Nat) (key : Key), s.tasks[t]? = some (⟨i, .inHandler key⟩ : Task) →
    s.tasks[t']? = some (⟨i, .inHandler key⟩ : Task) → t = t'
  log : ∀ (t : Nat) (key : Key), Event.handlerStart t key ∈ s.log →
    ∃ i : Nat, s.tasks[t]? = some (⟨i, .inHandler key⟩ : Task) ∨ s.tasks[t]? = some (⟨i, .done⟩ : Task)
  ctx : ∀ (j : Nat) (c : Bool), s.downs[j]? = some (⟨.returned .ctxErr, c⟩ : Down) → c = true

theorem InvG.of_same {s s' : St} (h : InvG s) (hi : s'.inflight = s.inflight) (ht : s'.tasks = s.tasks)
    (hl : s'.serves.length = s.serves.length)
    (hlog : ∀ (t : Nat) (k : Key), Event.handlerStart t k ∈ s'.log → Event.handlerStart t k ∈ s.log)
    (hctx : ∀ (j : Nat) (c : Bool), s'.downs[j]? = some (⟨.returned .ctxErr, c⟩ : Down) → c = true) : InvG s' := by
  refine ⟨?_, ?_, ?_, ?_, ?_, ?_, hctx⟩
  · rw [hi, hl]; exact h.len
  · rw [ht, hl]; exact h.bound
  · rw [hi]; exact h.nodup
  · rw [hi, ht]; exact h.mem
  · rw [ht]; exact h.uniq
  · rw [ht]; intro t k hm; exact h.log t k (hlog t k hm)

theorem InvG_initWith (conns : List Nat) (nD : Nat) : InvG (initWith conns nD) := by
  refine ⟨?_, ?_, ?_, ?_, ?_, ?_, ?_⟩
  · simp [initWith]
  · intro t tk h; simp [initWith] at h
  · intro i; simp [initWith, List.getD_eq_getElem?_getD, List.getElem?_replicate]
    split <;> simp
  · intro i key
    simp [initWith, List.getD_eq_getElem?_getD, List.getElem?_replicate]
    split <;> simp
  · intro t t' i key h; simp [initWith] at h
  · intro t key h; simp [initWith] at h
  · intro j c h
    simp [initWith, List.getElem?_replicate] at h


theorem ctx_set {downs : List Down} {j : Nat} {d : Down}
    (h : ∀ (j : Nat) (c : Bool), downs[j]? = some (⟨.returned .ctxErr, c⟩ : Down) → c = true)
    (hd : ∀ c, d = ⟨.returned .ctxErr, c⟩ → c = true) :
    ∀ (j' : Nat) (c : Bool), (downs.set j d)[j']? = some (⟨.returned .ctxErr, c⟩ : Down) → c = true := by
  intro j' c hh
  rcases getElem?_set_some hh with ⟨_, he, _⟩ | ⟨_, he⟩
  · exact hd c he
  · exact h j' c he

theorem InvG_serveEnter {H cfg s s' i} (h : InvG s) (hs : step H cfg s (.serveEnter i) = some s') : InvG s' := by
  obtain ⟨_, hh | hh | hh⟩ := step_serveEnter hs
  · obtain ⟨_, rfl⟩ := hh
    refine h.of_same rfl rfl (by simp) ?_ h.ctx
    intro t k; simp
  · obtain ⟨_, _, rfl⟩ := hh
    exact h.of_same rfl rfl (by simp) (fun _ _ x => x) h.ctx
  · obtain ⟨_, _, rfl⟩ := hh
    exact h.of_same rfl rfl (by simp) (fun _ _ x => x) h.ctx

theorem InvG_serveCount {H cfg s s' i} (h : InvG s) (hs : step H cfg s (.serveCount i) = some s') : InvG s' := by
  obtain ⟨_, rfl⟩ := step_serveCount hs
  exact h.of_same rfl rfl (by simp) (fun _ _ x => x) h.ctx

theorem InvG_serveLeave {s : St} (h : InvG s) (i : Nat) (r : ServeRes) : InvG (serveLeave s i r) := by
  refine h.of_same (by simp) (by simp) (by simp) ?_ (by simpa using h.ctx)
  intro t k; rw [serveLeave_log_mem]; exact id

theorem InvG_serveReadErr {H cfg s s' i} (h : InvG s) (hs : step H cfg s (.serveReadErr i) = some s') : InvG s' := by
  obtain ⟨_, _, _, rfl⟩ := step_serveReadErr hs
  exact InvG_serveLeave h i _

theorem InvG_serveReadFail {H cfg s s' i k} (h : InvG s) (hs : step H cfg s (.serveReadFail i k) = some s') :
    InvG s' := by
  obtain ⟨_, hh | hh | hh⟩ := step_serveReadFail hs
  · obtain ⟨_, rfl⟩ := hh; exact InvG_serveLeave h i _
  · obtain ⟨_, _, rfl⟩ := hh; exact InvG_serveLeave h i _
  · obtain ⟨_, _, rfl⟩ := hh; exact h

theorem InvG_downEnter {H cfg s s' j} (h : InvG s) (hs : step H cfg s (.downEnter j) = some s') : InvG s' := by
  obtain ⟨c, _, hh | hh⟩ := step_downEnter hs
  · obtain ⟨_, rfl⟩ := hh
    refine h.of_same rfl rfl rfl (fun _ _ x => x) ?_
    exact ctx_set h.ctx (by intro c hc; cases hc)
  · obtain ⟨_, rfl⟩ := hh
    refine h.of_same (by simp) (by simp) (by simp) ?_ ?_
    · intro t k; rw [activeDone_log_mem]; simp
    · simp only [activeDone_downs]
      exact ctx_set h.ctx (by intro c hc; cases hc)

theorem InvG_downReturnNil {H cfg s s' j} (h : InvG s) (hs : step H cfg s (.downReturnNil j) = some s') : InvG s' := by
  obtain ⟨c, _, _, rfl⟩ := step_downReturnNil hs
  refine h.of_same rfl rfl rfl ?_ ?_
  · intro t k; simp
  · exact ctx_set h.ctx (by intro c hc; cases hc)

theorem InvG_downReturnCtx {H cfg s s' j} (h : InvG s) (hs : step H cfg s (.downReturnCtx j) = some s') : InvG s' := by
  obtain ⟨_, rfl⟩ := step_downReturnCtx hs
  refine h.of_same rfl rfl rfl ?_ ?_
  · intro t k; simp
  · exact ctx_set h.ctx (by intro c hc; cases hc; rfl)

theorem InvG_ctxExpire {H cfg s s' j} (h : InvG s) (hs : step H cfg s (.ctxExpire j) = some s') : InvG s' := by
  obtain ⟨pc, _, rfl⟩ := step_ctxExpire hs
  refine h.of_same rfl rfl rfl (fun _ _ x => x) ?_
  exact ctx_set h.ctx (by intro c hc; cases hc; rfl)


/-- `spawn` by a running Serve call (the second half of `serveRecv`; `serveSpawn` of the fine machine) -/
theorem InvG_spawn {H : Hash} {cfg : Cfg} {s : St} {i peer : Nat} {d : Bytes} (h : InvG s)
    (hrun : s.serves[i]? = some .running) : InvG (spawn H cfg s i peer d) := by
  rw [spawn_eq]
  have hi : i < s.serves.length := lt_of_getElem?_eq_some hrun
  have old : ∀ (t : Nat) (i' : Nat) (k : Key),
      (s.tasks ++ [(⟨i, .spawned (classify H cfg peer d)⟩ : Task)])[t]? = some (⟨i', .inHandler k⟩ : Task) →
      s.tasks[t]? = some (⟨i', .inHandler k⟩ : Task) := by
    intro t i' k hh
    rcases getElem?_append_singleton_some hh with h1 | ⟨_, h1⟩
    · exact h1
    · cases h1
  have new : ∀ (t : Nat) (x : Task), s.tasks[t]? = some x →
      (s.tasks ++ [(⟨i, .spawned (classify H cfg peer d)⟩ : Task)])[t]? = some x := by
    intro t x hh
    rw [List.getElem?_append_left (lt_of_getElem?_eq_some hh)]; exact hh
  refine ⟨h.len, ?_, h.nodup, ?_, ?_, ?_, h.ctx⟩
  · intro t tk hh
    rcases getElem?_append_singleton_some hh with h1 | ⟨_, h1⟩
    · exact h.bound t tk h1
    · subst h1; exact hi
  · intro i' k
    rw [h.mem]
    constructor
    · rintro ⟨t, ht⟩; exact ⟨t, new t _ ht⟩
    · rintro ⟨t, ht⟩; exact ⟨t, old t _ _ ht⟩
  · intro t t' i' k h1 h2
    exact h.uniq t t' i' k (old _ _ _ h1) (old _ _ _ h2)
  · intro t k hm
    have hm' : Event.handlerStart t k ∈ s.log := by simpa using hm
    obtain ⟨i', h1 | h1⟩ := h.log t k hm'
    · exact ⟨i', Or.inl (new _ _ h1)⟩
    · exact ⟨i', Or.inr (new _ _ h1)⟩

theorem InvG_serveRecv {H cfg s s' i peer d} (h : InvG s)
    (hs : step H cfg s (.serveRecv i peer d) = some s') : InvG s' := by
  obtain ⟨hrun, _, rfl⟩ := step_serveRecv_spawn hs
  exact InvG_spawn h hrun


/-- replacing a task that is not in a handler by one that is not in a handler does not change the
    set of (index, in-handler task) pairs -/
theorem inHandler_set_irrel {tasks : List Task} {t : Nat} {a b : Task}
    (ha : tasks[t]? = some a) (hna : ∀ k, a.pc ≠ .inHandler k) (hnb : ∀ k, b.pc ≠ .inHandler k)
    (t' i : Nat) (k : Key) :
    (tasks.set t b)[t']? = some (⟨i, .inHandler k⟩ : Task) ↔ tasks[t']? = some (⟨i, .inHandler k⟩ : Task) := by
  constructor
  · intro hh
    rcases getElem?_set_some hh with ⟨_, he, _⟩ | ⟨_, he⟩
    · subst he; exact absurd rfl (hnb k)
    · exact he
  · intro hh
    rw [List.getElem?_set]
    by_cases htt : t = t'
    · subst htt; rw [ha] at hh; cases hh; exact absurd rfl (hna k)
    · simp [htt, hh]

theorem InvG_taskDrop {s : St} {t i : Nat} {fate : Fate} (h : InvG s)
    (ht : s.tasks[t]? = some (⟨i, .spawned fate⟩ : Task)) :
    InvG (activeDone { s with tasks := s.tasks.set t ⟨i, .done⟩, log := s.log ++ [.dropped t] }) := by
  have irr := @inHandler_set_irrel s.tasks t ⟨i, .spawned fate⟩ ⟨i, .done⟩ ht (by intro k; simp) (by intro k; simp)
  have htl := lt_of_getElem?_eq_some ht
  refine ⟨by simpa using h.len, ?_, by simpa using h.nodup, ?_, ?_, ?_, by simpa using h.ctx⟩
  · intro t' tk hh
    simp only [activeDone_tasks, activeDone_serves] at hh ⊢
    rcases getElem?_set_some hh with ⟨_, he, _⟩ | ⟨_, he⟩
    · subst he; exact h.bound t ⟨i, .spawned fate⟩ ht
    · exact h.bound t' tk he
  · intro i' k
    simp only [activeDone_tasks, activeDone_inflight]
    rw [h.mem]
    constructor
    · rintro ⟨t', h1⟩; exact ⟨t', (irr t' i' k).mpr h1⟩
    · rintro ⟨t', h1⟩; exact ⟨t', (irr t' i' k).mp h1⟩
  · intro t1 t2 i' k h1 h2
    simp only [activeDone_tasks] at h1 h2
    exact h.uniq t1 t2 i' k ((irr _ _ _).mp h1) ((irr _ _ _).mp h2)
  · intro t' k hm
    rw [activeDone_log_mem] at hm
    simp only [activeDone_tasks]
    have hm' : Event.handlerStart t' k ∈ s.log := by simpa using hm
    obtain ⟨i', h1 | h1⟩ := h.log t' k hm'
    · exact ⟨i', Or.inl ((irr _ _ _).mpr h1)⟩
    · have : t ≠ t' := by
        intro htt; subst htt; rw [ht] at h1; cases h1
      refine ⟨i', Or.inr ?_⟩
      rw [List.getElem?_set]; simp [this, h1]


theorem InvG_taskEnter {s : St} {t i : Nat} {key : Key} {p : Packet} (h : InvG s)
    (ht : s.tasks[t]? = some (⟨i, .spawned (.handle key p)⟩ : Task))
    (hk : key ∉ s.inflight.getD i []) :
    InvG { s with tasks := s.tasks.set t ⟨i, .inHandler key⟩,
                  inflight := s.inflight.set i (key :: s.inflight.getD i []),
                  log := s.log ++ [.request t p (s.peerOf t) (s.connOf.getD i 0) .server,
                                   .handlerStart t key] } := by
  have htl := lt_of_getElem?_eq_some ht
  have hil : i < s.inflight.length := by rw [h.len]; exact h.bound t _ ht
  have hnew : (s.tasks.set t (⟨i, .inHandler key⟩ : Task))[t]? = some ⟨i, .inHandler key⟩ := by
    rw [List.getElem?_set]; simp [htl]
  have hold : ∀ (t' : Nat) (x : Task), t ≠ t' → s.tasks[t']? = some x →
      (s.tasks.set t (⟨i, .inHandler key⟩ : Task))[t']? = some x := by
    intro t' x hne hx; rw [List.getElem?_set]; simp [hne, hx]
  have hnot : ∀ (t' i' : Nat) (k : Key), s.tasks[t']? = some (⟨i', .inHandler k⟩ : Task) → t ≠ t' := by
    intro t' i' k hx htt; subst htt; rw [ht] at hx; cases hx
  refine ⟨by simpa using h.len, ?_, ?_, ?_, ?_, ?_, h.ctx⟩
  · intro t' tk hh
    rcases getElem?_set_some hh with ⟨_, he, _⟩ | ⟨_, he⟩
    · subst he; exact h.bound t ⟨i, .spawned (.handle key p)⟩ ht
    · exact h.bound t' tk he
  · intro i'
    simp only [getD_set]
    split
    · exact List.nodup_cons.mpr ⟨hk, h.nodup i⟩
    · exact h.nodup i'
  · intro i' k
    simp only [getD_set]
    by_cases hii : i = i'
    · subst hii
      simp only [hil, and_self, if_true, List.mem_cons]
      constructor
      · rintro (rfl | hm)
        · exact ⟨t, hnew⟩
        · obtain ⟨t', ht'⟩ := (h.mem i k).mp hm
          exact ⟨t', hold t' _ (hnot _ _ _ ht') ht'⟩
      · rintro ⟨t', ht'⟩
        rcases getElem?_set_some ht' with ⟨_, he, _⟩ | ⟨_, he⟩
        · cases he; left; rfl
        · right; exact (h.mem i k).mpr ⟨t', he⟩
    · simp only [hii, false_and, if_false]
      rw [h.mem]
      constructor
      · rintro ⟨t', ht'⟩; exact ⟨t', hold t' _ (hnot _ _ _ ht') ht'⟩
      · rintro ⟨t', ht'⟩
        rcases getElem?_set_some ht' with ⟨_, he, _⟩ | ⟨_, he⟩
        · cases he; exact absurd rfl hii
        · exact ⟨t', he⟩
  · intro t1 t2 i' k h1 h2
    rcases getElem?_set_some h1 with ⟨e1, he1, _⟩ | ⟨n1, he1⟩ <;>
    rcases getElem?_set_some h2 with ⟨e2, he2, _⟩ | ⟨n2, he2⟩
    · omega
    · cases he1; exact absurd ((h.mem i key).mpr ⟨t2, he2⟩) hk
    · cases he2; exact absurd ((h.mem i key).mpr ⟨t1, he1⟩) hk
    · exact h.uniq t1 t2 i' k he1 he2
  · intro t' k hm
    simp only [List.mem_append, List.mem_cons, List.mem_nil_iff, or_false, reduceCtorEq, false_or] at hm
    rcases hm with hm | hm
    · obtain ⟨i', h1 | h1⟩ := h.log t' k hm
      · exact ⟨i', Or.inl (hold t' _ (hnot _ _ _ h1) h1)⟩
      · have : t ≠ t' := by intro htt; subst htt; rw [ht] at h1; cases h1
        exact ⟨i', Or.inr (hold t' _ this h1)⟩
    · cases hm; exact ⟨i, Or.inl hnew⟩

theorem InvG_taskRun {H cfg s s' t} (h : InvG s) (hs : step H cfg s (.taskRun t) = some s') : InvG s' := by
  obtain ⟨i, fate, ht, hh | hh⟩ := step_taskRun hs
  · obtain ⟨key, p, rfl, hk, rfl⟩ := hh
    exact InvG_taskEnter h ht hk
  · obtain ⟨_, rfl⟩ := hh
    exact InvG_taskDrop h ht

theorem InvG_taskFinish {H cfg s s' t} (h : InvG s) (hs : step H cfg s (.taskFinish t) = some s') : InvG s' := by
  obtain ⟨i, key, ht, rfl⟩ := step_taskFinish hs
  have htl := lt_of_getElem?_eq_some ht
  have hil : i < s.inflight.length := by rw [h.len]; exact h.bound t _ ht
  have hnew : (s.tasks.set t (⟨i, .done⟩ : Task))[t]? = some ⟨i, .done⟩ := by
    rw [List.getElem?_set]; simp [htl]
  have hold : ∀ (t' : Nat) (x : Task), t ≠ t' → s.tasks[t']? = some x →
      (s.tasks.set t (⟨i, .done⟩ : Task))[t']? = some x := by
    intro t' x hne hx; rw [List.getElem?_set]; simp [hne, hx]
  refine ⟨by simpa using h.len, ?_, ?_, ?_, ?_, ?_, by simpa using h.ctx⟩
  · intro t' tk hh
    simp only [activeDone_tasks, activeDone_serves] at hh ⊢
    rcases getElem?_set_some hh with ⟨_, he, _⟩ | ⟨_, he⟩
    · subst he; exact h.bound t ⟨i, .inHandler key⟩ ht
    · exact h.bound t' tk he
  · intro i'
    simp only [activeDone_inflight, getD_set]
    split
    · exact (h.nodup i).erase key
    · exact h.nodup i'
  · intro i' k
    simp only [activeDone_inflight, activeDone_tasks, getD_set]
    by_cases hii : i = i'
    · subst hii
      simp only [hil, and_self, if_true]
      rw [(h.nodup i).mem_erase_iff]
      constructor
      · rintro ⟨hne, hm⟩
        obtain ⟨t', ht'⟩ := (h.mem i k).mp hm
        have : t ≠ t' := by
          intro htt; subst htt; rw [ht] at ht'; cases ht'; exact hne rfl
        exact ⟨t', hold t' _ this ht'⟩
      · rintro ⟨t', ht'⟩
        rcases getElem?_set_some ht' with ⟨_, he, _⟩ | ⟨hne, he⟩
        · cases he
        · refine ⟨?_, (h.mem i k).mpr ⟨t', he⟩⟩
          intro hkk; subst hkk
          exact hne (h.uniq t t' i k ht he)
    · simp only [hii, false_and, if_false]
      rw [h.mem]
      constructor
      · rintro ⟨t', ht'⟩
        have : t ≠ t' := by
          intro htt; subst htt; rw [ht] at ht'; cases ht'; exact hii rfl
        exact ⟨t', hold t' _ this ht'⟩
      · rintro ⟨t', ht'⟩
        rcases getElem?_set_some ht' with ⟨_, he, _⟩ | ⟨_, he⟩
        · cases he
        · exact ⟨t', he⟩
  · intro t1 t2 i' k h1 h2
    simp only [activeDone_tasks] at h1 h2
    rcases getElem?_set_some h1 with ⟨e1, he1, _⟩ | ⟨n1, he1⟩
    · cases he1
    rcases getElem?_set_some h2 with ⟨e2, he2, _⟩ | ⟨n2, he2⟩
    · cases he2
    exact h.uniq t1 t2 i' k he1 he2
  · intro t' k hm
    rw [activeDone_log_mem] at hm
    simp only [activeDone_tasks]
    have hm' : Event.handlerStart t' k ∈ s.log := by simpa using hm
    by_cases htt : t = t'
    · subst htt; exact ⟨i, Or.inr hnew⟩
    · obtain ⟨i', h1 | h1⟩ := h.log t' k hm'
      · exact ⟨i', Or.inl (hold t' _ htt h1)⟩
      · exact ⟨i', Or.inr (hold t' _ htt h1)⟩

theorem InvG_taskReply {H cfg s s' t code attrs} (h : InvG s)
    (hs : step H cfg s (.taskReply t code attrs) = some s') : InvG s' := by
  obtain ⟨i, key, p, w, _, _, _, rfl⟩ := step_taskReply hs
  refine h.of_same rfl rfl rfl ?_ h.ctx
  intro t k; simp

theorem InvG_step {H cfg s s'} (l : Label) (h : InvG s) (hs : step H cfg s l = some s') : InvG s' := by
  cases l with
  | serveEnter i => exact InvG_serveEnter h hs
  | serveCount i => exact InvG_serveCount h hs
  | serveRecv i peer d => exact InvG_serveRecv h hs
  | serveReadErr i => exact InvG_serveReadErr h hs
  | serveReadFail i k => exact InvG_serveReadFail h hs
  | taskRun t => exact InvG_taskRun h hs
  | taskFinish t => exact InvG_taskFinish h hs
  | taskReply t code attrs => exact InvG_taskReply h hs
  | downEnter j => exact InvG_downEnter h hs
  | downReturnNil j => exact InvG_downReturnNil h hs
  | downReturnCtx j => exact InvG_downReturnCtx h hs
  | ctxExpire j => exact InvG_ctxExpire h hs

theorem InvG_run (H : Hash) (cfg : Cfg) (conns : List Nat) (nD : Nat) (ls : List Label) :
    InvG (run H cfg (initWith conns nD) ls) :=
  run_preserves H cfg InvG (fun _ l _ h hs => InvG_step l h hs) ls _ (InvG_initWith conns nD)

/-! ### counting over `List.range` -/

/-- number of `i < n` with `p i` -/
def cntR (p : Nat → Bool) (n : Nat) : Nat := ((List.range n).filter p).length

theorem cntR_succ (p : Nat → Bool) (n : Nat) :
    cntR p (n + 1) = cntR p n + (if p n = true then 1 else 0) := by
  simp only [cntR, List.range_succ, List.filter_append, List.length_append]
  by_cases h : p n = true <;> simp [h]

theorem cntR_congr {p q : Nat → Bool} {n : Nat} (h : ∀ j, j < n → p j = q j) : cntR p n = cntR q n := by
  induction n with
  | zero => rfl
  | succ n ih =>
    rw [cntR_succ, cntR_succ, ih (fun j hj => h j (by omega)), h n (by omega)]

theorem cntR_zero {p : Nat → Bool} {n : Nat} (h : ∀ j, j < n → p j = false) : cntR p n = 0 := by
  induction n with
  | zero => rfl
  | succ n ih =>
    rw [cntR_succ, ih (fun j hj => h j (by omega)), h n (by omega)]
    simp

theorem cntR_pos {p : Nat → Bool} {n i : Nat} (hi : i < n) (hp : p i = true) : cntR p n ≥ 1 := by
  induction n with
  | zero => omega
  | succ n ih =>
    rw [cntR_succ]
    by_cases hin : i = n
    · subst hin; simp [hp]
    · have := ih (by omega); omega

/-- if `p` and `q` differ at most at index `i < n`, their counts differ by the values at `i` -/
theorem cntR_update {p q : Nat → Bool} {n i : Nat} (hi : i < n) (h : ∀ j, j < n → j ≠ i → p j = q j) :
    cntR q n + (if p i = true then 1 else 0) = cntR p n + (if q i = true then 1 else 0) := by
  induction n with
  | zero => omega
  | succ n ih =>
    rw [cntR_succ, cntR_succ]
    by_cases hin : i = n
    · subst hin
      have : cntR q i = cntR p i := cntR_congr (fun j hj => (h j (by omega) (by omega)).symm)
      omega
    · have h1 := ih (by omega) (fun j hj hne => h j (by omega) hne)
      have h2 := h n (by omega) (fun e => hin e.symm)
      rw [h2]; omega

/-- Serve call `i` is in its read loop on conn `c` -/
def runOnL (serves : List ServePc) (connOf : List Nat) (c : Nat) : Nat → Bool :=
  fun i => serves[i]? == some .running && connOf.getD i 0 == c

theorem cnt_set {serves : List ServePc} {connOf : List Nat} {i : Nat} {a : ServePc} (b : ServePc) (c : Nat)
    (h : serves[i]? = some a) :
    cntR (runOnL (serves.set i b) connOf c) serves.length
        + (if a = .running ∧ connOf.getD i 0 = c then 1 else 0) =
      cntR (runOnL serves connOf c) serves.length
        + (if b = .running ∧ connOf.getD i 0 = c then 1 else 0) := by
  have hi := lt_of_getElem?_eq_some h
  have key := @cntR_update (runOnL serves connOf c) (runOnL (serves.set i b) connOf c) serves.length i hi
    (by intro j _ hne; simp [runOnL, Ne.symm hne])
  have e1 : (runOnL serves connOf c i = true) ↔ (a = .running ∧ connOf.getD i 0 = c) := by
    simp [runOnL, h]
  have e2 : (runOnL (serves.set i b) connOf c i = true) ↔ (b = .running ∧ connOf.getD i 0 = c) := by
    simp [runOnL, hi]
  simp only [e1, e2] at key
  exact key

theorem runOnL_pos {serves : List ServePc} {connOf : List Nat} {i : Nat} (h : serves[i]? = some .running) :
    cntR (runOnL serves connOf (connOf.getD i 0)) serves.length ≥ 1 :=
  cntR_pos (lt_of_getElem?_eq_some h) (by simp [runOnL, h])

theorem lt_of_getD_pos {l : List Nat} {i : Nat} (h : l.getD i 0 > 0) : i < l.length := by
  by_cases hl : i < l.length
  · exact hl
  · rw [List.getD_eq_getElem?_getD, List.getElem?_eq_none (by omega)] at h
    simp at h

theorem foldl_max_le (l : List Nat) : ∀ a, a ≤ l.foldl max a ∧ ∀ c ∈ l, c ≤ l.foldl max a := by
  induction l with
  | nil => intro a; simp
  | cons x xs ih =>
    intro a
    simp only [List.foldl_cons, List.mem_cons]
    obtain ⟨h1, h2⟩ := ih (max a x)
    refine ⟨by omega, ?_⟩
    rintro c (rfl | hc)
    · omega
    · exact h2 c hc

theorem getD_lt_foldl_max (conns : List Nat) (i : Nat) (hi : i < conns.length) :
    conns.getD i 0 < conns.foldl max 0 + 1 := by
  have := (foldl_max_le conns 0).2 (conns.getD i 0) (by
    rw [List.getD_eq_getElem?_getD, List.getElem?_eq_getElem hi]; simp)
  omega

/-! ### invariant of the repaired server (variant `.fixed`): accounting, single close, listeners -/

structure InvF (s : St) : Prop where
  lenC : s.connOf.length = s.serves.length
  lenL : s.connClosed.length = s.listeners.length
  connB : ∀ i : Nat, i < s.serves.length → s.connOf.getD i 0 < s.listeners.length
  noReg : ∀ i : Nat, s.serves[i]? ≠ some .registered
  act : s.active = (countedServes s : Int) + (liveTasks s : Int) - (if s.sd then 1 else 0)
  cl1 : s.closes ≤ 1
  cl2 : s.closes = 1 ↔ (s.sd = true ∧ countedServes s = 0 ∧ liveTasks s = 0)
  sdc : s.sd = true → s.ctxCancelled = true ∧
    ∀ c : Nat, s.listeners.getD c 0 > 0 → s.connClosed.getD c 0 ≥ 1
  nsd : s.sd = false → ∀ c : Nat, s.connClosed.getD c 0 = 0
  cnt : ∀ c : Nat, s.listeners.getD c 0 = cntR (runOnL s.serves s.connOf c) s.serves.length
  nil : ∀ (j : Nat) (c : Bool), s.downs[j]? = some (⟨.returned .nil, c⟩ : Down) → s.closes ≥ 1

theorem InvF_initWith (conns : List Nat) (nD : Nat) : InvF (initWith conns nD) := by
  refine ⟨by simp [initWith], by simp [initWith], ?_, ?_, ?_, by simp [initWith], ?_, by simp [initWith],
    ?_, ?_, ?_⟩
  · intro i hi
    simp only [initWith, List.length_replicate] at hi ⊢
    exact getD_lt_foldl_max conns i hi
  · intro i; simp [initWith, List.getElem?_replicate]
  · simp [initWith, countedServes, liveTasks]
  · simp [initWith]
  · intro _ c
    simp [initWith, List.getD_eq_getElem?_getD, List.getElem?_replicate]
    split <;> rfl
  · intro c
    have h0 : cntR (runOnL (initWith conns nD).serves (initWith conns nD).connOf c)
        (initWith conns nD).serves.length = 0 := by
      apply cntR_zero
      intro j _
      simp [runOnL, initWith, List.getElem?_replicate]
    rw [h0]
    simp [initWith, List.getD_eq_getElem?_getD, List.getElem?_replicate]
    split <;> rfl
  · intro j c; simp [initWith, List.getElem?_replicate]

theorem counted_set {s : St} {i : Nat} {a : ServePc} (b : ServePc) (h : s.serves[i]? = some a) :
    ((s.serves.set i b).filter (· == .running)).length + (if a = .running then 1 else 0) =
      countedServes s + (if b = .running then 1 else 0) := by
  have := filter_set_length (· == ServePc.running) s.serves i a b h
  simpa [countedServes] using this

theorem live_set {s : St} {t : Nat} {a : Task} (b : Task) (h : s.tasks[t]? = some a) :
    ((s.tasks.set t b).filter (fun t => t.pc != .done)).length + (if a.pc = .done then 0 else 1) =
      liveTasks s + (if b.pc = .done then 0 else 1) := by
  have := filter_set_length (fun t : Task => t.pc != .done) s.tasks t a b h
  simp [liveTasks] at this ⊢
  by_cases h1 : a.pc = .done <;> by_cases h2 : b.pc = .done <;> simp [h1, h2] at this ⊢ <;> omega

theorem noReg_set {serves : List ServePc} {i : Nat} {b : ServePc} (hb : b ≠ .registered)
    (h : ∀ i : Nat, serves[i]? ≠ some .registered) : ∀ i' : Nat, (serves.set i b)[i']? ≠ some .registered := by
  intro i' hh
  rcases getElem?_set_some hh with ⟨_, he, _⟩ | ⟨_, he⟩
  · exact hb he
  · exact h i' he


theorem nil_set {downs : List Down} {j : Nat} {d : Down} {n : Nat}
    (h : ∀ (j : Nat) (c : Bool), downs[j]? = some (⟨.returned .nil, c⟩ : Down) → n ≥ 1)
    (hd : ∀ c, d = ⟨.returned .nil, c⟩ → n ≥ 1) :
    ∀ (j' : Nat) (c : Bool), (downs.set j d)[j']? = some (⟨.returned .nil, c⟩ : Down) → n ≥ 1 := by
  intro j' c hh
  rcases getElem?_set_some hh with ⟨_, he, _⟩ | ⟨_, he⟩
  · exact hd c he
  · exact h j' c he

theorem InvF_serveEnter {H cfg s s' i} (hv : cfg.variant = .fixed) (h : InvF s)
    (hs : step H cfg s (.serveEnter i) = some s') : InvF s' := by
  obtain ⟨hns, hh | hh | hh⟩ := step_serveEnter hs
  · obtain ⟨hsd, rfl⟩ := hh
    have hc := counted_set (.returned .errShutdown) hns
    simp at hc
    have hcs : countedServes { s with serves := s.serves.set i (.returned .errShutdown), log := s.log ++ [.serveReturned i] } = countedServes s := by
      simp only [countedServes]; exact hc
    refine ⟨by simpa using h.lenC, h.lenL, by simpa using h.connB, noReg_set (by simp) h.noReg, ?_, h.cl1, ?_,
      h.sdc, h.nsd, ?_, h.nil⟩
    · rw [hcs]; exact h.act
    · rw [hcs]; exact h.cl2
    · intro c
      have := cnt_set (connOf := s.connOf) (.returned .errShutdown) c hns
      simp only [reduceCtorEq, false_and, if_false] at this
      show s.listeners.getD c 0 = cntR (runOnL (s.serves.set i _) s.connOf c) (s.serves.set i _).length
      rw [List.length_set, h.cnt c]; omega
  · obtain ⟨hsd, _, rfl⟩ := hh
    have hil := lt_of_getElem?_eq_some hns
    have hc := counted_set .running hns
    simp at hc
    have hcs : countedServes { s with listeners := s.listeners.set (s.connOf.getD i 0) (s.listeners.getD (s.connOf.getD i 0) 0 + 1), serves := s.serves.set i .running, active := s.active + 1 } = countedServes s + 1 := by
      simp only [countedServes]; exact hc
    have hact := h.act
    have hcl2 := h.cl2
    simp only [hsd] at hact hcl2
    have hcb := h.connB i hil
    refine ⟨by simpa using h.lenC, by simpa using h.lenL, by simpa using h.connB, noReg_set (by simp) h.noReg,
      ?_, h.cl1, ?_, ?_, h.nsd, ?_, h.nil⟩
    · rw [hcs]; simp only [liveTasks, hsd] at hact ⊢; omega
    · simp only [hsd]; simp at hcl2 ⊢; exact hcl2
    · intro hsd'; simp only [hsd] at hsd'; cases hsd'
    · intro c
      have := cnt_set (connOf := s.connOf) .running c hns
      simp only [reduceCtorEq, false_and, true_and, if_false] at this
      show (s.listeners.set _ _).getD c 0 = cntR (runOnL (s.serves.set i _) s.connOf c) (s.serves.set i _).length
      rw [getD_set, List.length_set]
      have h1 := h.cnt c
      have h2 := h.cnt (s.connOf.getD i 0)
      by_cases hcc : s.connOf.getD i 0 = c
      · subst hcc
        simp only [hcb, and_self, if_true] at this ⊢
        omega
      · simp only [hcc, false_and, if_false] at this ⊢
        omega
  · obtain ⟨_, hv', _⟩ := hh
    rw [hv] at hv'; cases hv'


theorem InvF_serveCount {H cfg s s' i} (h : InvF s)
    (hs : step H cfg s (.serveCount i) = some s') : InvF s' := by
  obtain ⟨hr, _⟩ := step_serveCount hs
  exact absurd hr (h.noReg i)

theorem pos_of_getElem?_filter {α} {l : List α} {p : α → Bool} {i : Nat} {a : α}
    (h : l[i]? = some a) (hp : p a = true) : (l.filter p).length ≥ 1 := by
  have hm : a ∈ l.filter p := List.mem_filter.mpr ⟨List.mem_of_getElem? h, hp⟩
  exact List.length_pos_of_mem hm

theorem counted_pos {s : St} {i : Nat} (h : s.serves[i]? = some .running) : countedServes s ≥ 1 :=
  pos_of_getElem?_filter h (by simp)

theorem live_pos {s : St} {t : Nat} {a : Task} (h : s.tasks[t]? = some a) (ha : a.pc ≠ .done) :
    liveTasks s ≥ 1 :=
  pos_of_getElem?_filter h (by simpa using ha)

/-- `spawn` by a running Serve call: the goroutine is counted before it exists, and `lastActive` cannot
    have been closed because the Serve call itself is counted (`hpos`) -/
theorem InvF_spawn {H : Hash} {cfg : Cfg} {s : St} {i peer : Nat} {d : Bytes} (h : InvF s)
    (hrun : s.serves[i]? = some .running) : InvF (spawn H cfg s i peer d) := by
  rw [spawn_eq]
  have hpos := counted_pos hrun
  have hl : liveTasks { s with tasks := s.tasks ++ [⟨i, .spawned (classify H cfg peer d)⟩], origin := s.origin ++ [⟨i, peer, d⟩], log := s.log ++ [.recv s.tasks.length i peer d], active := s.active + 1 } = liveTasks s + 1 := by
    simp [liveTasks, List.filter_append]
  have hcs : countedServes { s with tasks := s.tasks ++ [⟨i, .spawned (classify H cfg peer d)⟩], origin := s.origin ++ [⟨i, peer, d⟩], log := s.log ++ [.recv s.tasks.length i peer d], active := s.active + 1 } = countedServes s := rfl
  have hact := h.act
  have hcl2 := h.cl2
  have hcl1 := h.cl1
  refine ⟨h.lenC, h.lenL, h.connB, h.noReg, ?_, h.cl1, ?_, h.sdc, h.nsd, h.cnt, h.nil⟩
  · rw [hl, hcs]; simp only []; omega
  · rw [hl, hcs]; simp only []
    constructor
    · intro hc; have := hcl2.mp hc; omega
    · intro hc; omega

theorem InvF_serveRecv {H cfg s s' i peer d} (h : InvF s)
    (hs : step H cfg s (.serveRecv i peer d) = some s') : InvF s' := by
  obtain ⟨hrun, _, rfl⟩ := step_serveRecv_spawn hs
  exact InvF_spawn h hrun

theorem countedServes_serveLeave {s : St} {i : Nat} (r : ServeRes) (hrun : s.serves[i]? = some .running) :
    countedServes (serveLeave s i r) + 1 = countedServes s := by
  have hc := counted_set (.returned r) hrun
  simp at hc
  simp only [countedServes, serveLeave_serves] at hc ⊢
  exact hc

/-- a running Serve call returns (read error after Close, or any read failure): deferred cleanup -/
theorem InvF_serveLeave {s : St} {i : Nat} (r : ServeRes) (h : InvF s) (hrun : s.serves[i]? = some .running) :
    InvF (serveLeave s i r) := by
  have hil := lt_of_getElem?_eq_some hrun
  have hpos := counted_pos hrun
  have hc := countedServes_serveLeave r hrun
  have hact := h.act
  have hcl2 := h.cl2
  have hcl1 := h.cl1
  have hcl0 : s.closes = 0 := by
    have : ¬ s.closes = 1 := by intro hx; have := hcl2.mp hx; omega
    omega
  have hcb := h.connB i hil
  refine ⟨by simpa using h.lenC, by simpa using h.lenL, by simpa using h.connB, ?_, ?_, ?_, ?_, ?_, ?_, ?_, ?_⟩
  · simp only [serveLeave_serves]; exact noReg_set (by simp) h.noReg
  · simp only [serveLeave_active, liveTasks_serveLeave, serveLeave_sd]
    omega
  · rw [serveLeave_closes]; split <;> omega
  · rw [serveLeave_closes]
    simp only [liveTasks_serveLeave, serveLeave_sd]
    cases hsd : s.sd <;> simp [hsd] at hact ⊢ <;> split <;> omega
  · intro hsd
    simp only [serveLeave_sd] at hsd
    simp only [serveLeave_ctxCancelled, serveLeave_listeners, serveLeave_connClosed]
    refine ⟨(h.sdc hsd).1, ?_⟩
    intro c hl
    rw [getD_set] at hl
    apply (h.sdc hsd).2 c
    split at hl
    · next hcc => rw [← hcc.1]; omega
    · exact hl
  · simpa using h.nsd
  · intro c
    have := cnt_set (connOf := s.connOf) (.returned r) c hrun
    simp only [reduceCtorEq, false_and, true_and, if_false] at this
    simp only [serveLeave_listeners, serveLeave_serves, serveLeave_connOf]
    rw [getD_set, List.length_set]
    have h1 := h.cnt c
    have h2 := h.cnt (s.connOf.getD i 0)
    by_cases hcc : s.connOf.getD i 0 = c
    · subst hcc
      simp only [hcb, and_self, if_true] at this ⊢
      omega
    · simp only [hcc, false_and, if_false] at this ⊢
      omega
  · intro j c hh
    simp only [serveLeave_downs] at hh
    have := h.nil j c hh
    omega

theorem InvF_serveReadErr {H cfg s s' i} (h : InvF s)
    (hs : step H cfg s (.serveReadErr i) = some s') : InvF s' := by
  obtain ⟨hrun, _, _, rfl⟩ := step_serveReadErr hs
  exact InvF_serveLeave _ h hrun

theorem InvF_serveReadFail {H cfg s s' i k} (h : InvF s)
    (hs : step H cfg s (.serveReadFail i k) = some s') : InvF s' := by
  obtain ⟨hrun, hh | hh | hh⟩ := step_serveReadFail hs
  · obtain ⟨_, rfl⟩ := hh; exact InvF_serveLeave _ h hrun
  · obtain ⟨_, _, rfl⟩ := hh; exact InvF_serveLeave _ h hrun
  · obtain ⟨_, _, rfl⟩ := hh; exact h


/-- a live task finishes (dropped, or handler returned): common part of `taskRun`/`taskFinish` -/
theorem InvF_taskDone {s s0 : St} {t i : Nat} {a : Task} (h : InvF s)
    (ht : s.tasks[t]? = some a) (ha : a.pc ≠ .done)
    (h1 : s0.sd = s.sd) (h2 : s0.active = s.active) (h3 : s0.closes = s.closes)
    (h4 : s0.ctxCancelled = s.ctxCancelled) (h5 : s0.serves = s.serves) (h6 : s0.listeners = s.listeners)
    (h7 : s0.connClosed = s.connClosed) (h8 : s0.tasks = s.tasks.set t ⟨i, .done⟩) (h9 : s0.downs = s.downs)
    (h10 : s0.connOf = s.connOf) :
    InvF (activeDone s0) := by
  have hpos := live_pos ht ha
  have hc := live_set ⟨i, .done⟩ ht
  simp [ha] at hc
  have hact := h.act
  have hcl2 := h.cl2
  have hcl1 := h.cl1
  have hcl0 : s.closes = 0 := by
    have : ¬ s.closes = 1 := by intro hx; have := hcl2.mp hx; omega
    omega
  have hcs : countedServes s0 = countedServes s := by simp [countedServes, h5]
  have hls : liveTasks s0 + 1 = liveTasks s := by simp only [liveTasks, h8]; exact hc
  refine ⟨?_, ?_, ?_, ?_, ?_, ?_, ?_, ?_, ?_, ?_, ?_⟩
  · simp only [activeDone_serves, activeDone_connOf, h5, h10]; exact h.lenC
  · simp only [activeDone_listeners, activeDone_connClosed, h6, h7]; exact h.lenL
  · simp only [activeDone_serves, activeDone_connOf, activeDone_listeners, h5, h6, h10]; exact h.connB
  · simp only [activeDone_serves, h5]; exact h.noReg
  · simp only [activeDone_active, countedServes_activeDone, liveTasks_activeDone, activeDone_sd, h1, h2, hcs]
    omega
  · rw [activeDone_closes, h2, h3]; split <;> omega
  · rw [activeDone_closes, h2, h3]
    simp only [countedServes_activeDone, liveTasks_activeDone, activeDone_sd, h1, hcs]
    cases hsd : s.sd <;> simp [hsd] at hact ⊢ <;> split <;> omega
  · simp only [activeDone_sd, activeDone_ctxCancelled, activeDone_listeners, activeDone_connClosed, h1, h4, h6, h7]
    exact h.sdc
  · simp only [activeDone_sd, activeDone_connClosed, h1, h7]; exact h.nsd
  · simp only [activeDone_serves, activeDone_connOf, activeDone_listeners, h5, h6, h10]; exact h.cnt
  · intro j c hh
    simp only [activeDone_downs, h9] at hh
    have := h.nil j c hh
    omega

theorem InvF_taskRun {H cfg s s' t} (h : InvF s) (hs : step H cfg s (.taskRun t) = some s') : InvF s' := by
  obtain ⟨i, fate, ht, hh | hh⟩ := step_taskRun hs
  · obtain ⟨key, p, rfl, hk, rfl⟩ := hh
    have hc := live_set ⟨i, .inHandler key⟩ ht
    simp at hc
    have hls : liveTasks { s with tasks := s.tasks.set t ⟨i, .inHandler key⟩, inflight := s.inflight.set i (key :: s.inflight.getD i []), log := s.log ++ [.request t p (s.peerOf t) (s.connOf.getD i 0) .server, .handlerStart t key] } = liveTasks s := by
      simp only [liveTasks]; exact hc
    have hcs : countedServes { s with tasks := s.tasks.set t ⟨i, .inHandler key⟩, inflight := s.inflight.set i (key :: s.inflight.getD i []), log := s.log ++ [.request t p (s.peerOf t) (s.connOf.getD i 0) .server, .handlerStart t key] } = countedServes s := rfl
    refine ⟨h.lenC, h.lenL, h.connB, h.noReg, ?_, h.cl1, ?_, h.sdc, h.nsd, h.cnt, h.nil⟩
    · rw [hls, hcs]; exact h.act
    · rw [hls, hcs]; exact h.cl2
  · obtain ⟨_, rfl⟩ := hh
    exact InvF_taskDone (i := i) h ht (by simp) rfl rfl rfl rfl rfl rfl rfl rfl rfl rfl

theorem InvF_taskFinish {H cfg s s' t} (h : InvF s) (hs : step H cfg s (.taskFinish t) = some s') : InvF s' := by
  obtain ⟨i, key, ht, rfl⟩ := step_taskFinish hs
  exact InvF_taskDone (i := i) h ht (by simp) rfl rfl rfl rfl rfl rfl rfl rfl rfl rfl


theorem getD_map_range {β} (n i : Nat) (f : Nat → β) (d : β) (h : i < n) :
    ((List.range n).map f).getD i d = f i := by
  simp [List.getD_eq_getElem?_getD, List.getElem?_map, List.getElem?_range h]

theorem InvF_downEnter {H cfg s s' j} (h : InvF s) (hs : step H cfg s (.downEnter j) = some s') : InvF s' := by
  obtain ⟨c, _, hh | hh⟩ := step_downEnter hs
  · obtain ⟨_, rfl⟩ := hh
    refine ⟨h.lenC, h.lenL, h.connB, h.noReg, h.act, h.cl1, h.cl2, h.sdc, h.nsd, h.cnt, ?_⟩
    exact nil_set h.nil (by intro c hc; cases hc)
  · obtain ⟨hsd, rfl⟩ := hh
    have hact := h.act
    have hcl2 := h.cl2
    have hcl1 := h.cl1
    simp [hsd] at hact hcl2
    have hcl0 : s.closes = 0 := by omega
    refine ⟨by simpa using h.lenC, by simpa using h.lenL, by simpa using h.connB, by simpa using h.noReg,
      ?_, ?_, ?_, ?_, ?_, ?_, ?_⟩
    · simp only [activeDone_active, countedServes_activeDone, liveTasks_activeDone, activeDone_sd, if_true]
      simp only [countedServes, liveTasks] at hact ⊢
      omega
    · rw [activeDone_closes]; simp only []; split <;> omega
    · rw [activeDone_closes]
      simp only [countedServes_activeDone, liveTasks_activeDone, activeDone_sd, true_and]
      simp only [countedServes, liveTasks] at hact ⊢
      split <;> omega
    · intro _
      simp only [activeDone_ctxCancelled, activeDone_listeners, activeDone_connClosed, true_and]
      intro c hl
      have hil : c < s.connClosed.length := by rw [h.lenL]; exact lt_of_getD_pos hl
      rw [getD_map_range _ _ _ _ hil]
      simp only [hl, if_true]; omega
    · intro hsd'; simp at hsd'
    · simpa using h.cnt
    · intro j' c' hh
      simp only [activeDone_downs] at hh
      have := nil_set h.nil (by intro c hc; cases hc) j' c' hh
      omega

theorem InvF_downReturnNil {H cfg s s' j} (h : InvF s) (hs : step H cfg s (.downReturnNil j) = some s') : InvF s' := by
  obtain ⟨c, _, hc, rfl⟩ := step_downReturnNil hs
  refine ⟨h.lenC, h.lenL, h.connB, h.noReg, h.act, h.cl1, h.cl2, h.sdc, h.nsd, h.cnt, ?_⟩
  exact nil_set h.nil (fun _ _ => hc)

theorem InvF_downReturnCtx {H cfg s s' j} (h : InvF s) (hs : step H cfg s (.downReturnCtx j) = some s') : InvF s' := by
  obtain ⟨_, rfl⟩ := step_downReturnCtx hs
  refine ⟨h.lenC, h.lenL, h.connB, h.noReg, h.act, h.cl1, h.cl2, h.sdc, h.nsd, h.cnt, ?_⟩
  exact nil_set h.nil (by intro c hc; cases hc)

theorem InvF_ctxExpire {H cfg s s' j} (h : InvF s) (hs : step H cfg s (.ctxExpire j) = some s') : InvF s' := by
  obtain ⟨pc, hd, rfl⟩ := step_ctxExpire hs
  refine ⟨h.lenC, h.lenL, h.connB, h.noReg, h.act, h.cl1, h.cl2, h.sdc, h.nsd, h.cnt, ?_⟩
  refine nil_set h.nil ?_
  intro c hc; cases hc
  exact h.nil j false hd

theorem InvF_taskReply {H cfg s s' t code attrs} (h : InvF s)
    (hs : step H cfg s (.taskReply t code attrs) = some s') : InvF s' := by
  obtain ⟨i, key, p, w, _, _, _, rfl⟩ := step_taskReply hs
  exact ⟨h.lenC, h.lenL, h.connB, h.noReg, h.act, h.cl1, h.cl2, h.sdc, h.nsd, h.cnt, h.nil⟩

theorem InvF_step {H cfg s s'} (hv : cfg.variant = .fixed) (l : Label) (h : InvF s)
    (hs : step H cfg s l = some s') : InvF s' := by
  cases l with
  | serveEnter i => exact InvF_serveEnter hv h hs
  | serveCount i => exact InvF_serveCount h hs
  | serveRecv i peer d => exact InvF_serveRecv h hs
  | serveReadErr i => exact InvF_serveReadErr h hs
  | serveReadFail i k => exact InvF_serveReadFail h hs
  | taskRun t => exact InvF_taskRun h hs
  | taskFinish t => exact InvF_taskFinish h hs
  | taskReply t code attrs => exact InvF_taskReply h hs
  | downEnter j => exact InvF_downEnter h hs
  | downReturnNil j => exact InvF_downReturnNil h hs
  | downReturnCtx j => exact InvF_downReturnCtx h hs
  | ctxExpire j => exact InvF_ctxExpire h hs

theorem InvF_run_from (H : Hash) (cfg : Cfg) (hv : cfg.variant = .fixed) (ls : List Label) (s : St)
    (h : InvF s) : InvF (run H cfg s ls) :=
  run_preserves H cfg InvF (fun _ l _ h hs => InvF_step hv l h hs) ls s h

theorem InvF_run (H : Hash) (cfg : Cfg) (hv : cfg.variant = .fixed) (conns : List Nat) (nD : Nat)
    (ls : List Label) : InvF (run H cfg (initWith conns nD) ls) :=
  InvF_run_from H cfg hv ls _ (InvF_initWith conns nD)

/-! ### drained states are absorbing; every shutdown state can be drained -/

/-- our copy of `C07.terminalServe` -/
def terminalS : ServePc → Bool
  | .notStarted | .returned _ => true
  | _ => false

structure Drained (s : St) : Prop where
  sd : s.sd = true
  serves : ∀ pc ∈ s.serves, terminalS pc = true
  tasks : ∀ t ∈ s.tasks, t.pc = .done

theorem mem_set_cases {α} {l : List α} {i : Nat} {a x : α} (h : x ∈ l.set i a) : x = a ∨ x ∈ l := by
  obtain ⟨j, hj⟩ := List.mem_iff_getElem?.mp h
  rcases getElem?_set_some hj with ⟨_, he, _⟩ | ⟨_, he⟩
  · left; exact he.symm
  · right; exact List.mem_of_getElem? he

theorem Drained_step {H cfg s s'} (l : Label) (h : Drained s) (hs : step H cfg s l = some s') :
    Drained s' ∧ s'.log.filter isHS = s.log.filter isHS := by
  cases l with
  | serveEnter i =>
    obtain ⟨_, hh | hh | hh⟩ := step_serveEnter hs
    · obtain ⟨_, rfl⟩ := hh
      refine ⟨⟨h.sd, ?_, h.tasks⟩, by simp [isHS]⟩
      intro pc hpc
      rcases mem_set_cases hpc with rfl | hm
      · rfl
      · exact h.serves pc hm
    · have := h.sd; rw [hh.1] at this; cases this
    · have := h.sd; rw [hh.1] at this; cases this
  | serveCount i =>
    obtain ⟨hr, _⟩ := step_serveCount hs
    have := h.serves _ (List.mem_of_getElem? hr)
    cases this
  | serveRecv i peer d =>
    obtain ⟨hr, _⟩ := step_serveRecv hs
    have := h.serves _ (List.mem_of_getElem? hr)
    cases this
  | serveReadErr i =>
    obtain ⟨hr, _⟩ := step_serveReadErr hs
    have := h.serves _ (List.mem_of_getElem? hr)
    cases this
  | serveReadFail i k =>
    obtain ⟨hr, _⟩ := step_serveReadFail hs
    have := h.serves _ (List.mem_of_getElem? hr)
    cases this
  | taskRun t =>
    obtain ⟨i, fate, ht, _⟩ := step_taskRun hs
    have := h.tasks _ (List.mem_of_getElem? ht)
    cases this
  | taskFinish t =>
    obtain ⟨i, key, ht, _⟩ := step_taskFinish hs
    have := h.tasks _ (List.mem_of_getElem? ht)
    cases this
  | taskReply t code attrs =>
    obtain ⟨i, key, p, w, ht, _⟩ := step_taskReply hs
    have := h.tasks _ (List.mem_of_getElem? ht)
    cases this
  | downEnter j =>
    obtain ⟨c, _, hh | hh⟩ := step_downEnter hs
    · obtain ⟨_, rfl⟩ := hh
      exact ⟨⟨h.sd, h.serves, h.tasks⟩, rfl⟩
    · have := h.sd; rw [hh.1] at this; cases this
  | downReturnNil j =>
    obtain ⟨c, _, _, rfl⟩ := step_downReturnNil hs
    exact ⟨⟨h.sd, h.serves, h.tasks⟩, by simp [isHS]⟩
  | downReturnCtx j =>
    obtain ⟨_, rfl⟩ := step_downReturnCtx hs
    exact ⟨⟨h.sd, h.serves, h.tasks⟩, by simp [isHS]⟩
  | ctxExpire j =>
    obtain ⟨pc, _, rfl⟩ := step_ctxExpire hs
    exact ⟨⟨h.sd, h.serves, h.tasks⟩, rfl⟩

theorem Drained_run (H : Hash) (cfg : Cfg) (ls : List Label) (s : St) (h : Drained s) :
    Drained (run H cfg s ls) ∧ (run H cfg s ls).log.filter isHS = s.log.filter isHS := by
  induction ls generalizing s with
  | nil => exact ⟨h, rfl⟩
  | cons l ls ih =>
    simp only [run]
    split
    · next s' hs =>
      obtain ⟨hd, hl⟩ := Drained_step l h hs
      obtain ⟨hd', hl'⟩ := ih s' hd
      exact ⟨hd', hl'.trans hl⟩
    · exact ih s h

theorem filter_length_zero {α} {l : List α} {p : α → Bool} (h : (l.filter p).length = 0) :
    ∀ a ∈ l, p a = false := by
  intro a ha
  have := List.filter_eq_nil_iff.mp (List.length_eq_zero_iff.mp h) a ha
  simpa using this

theorem exists_of_filter_pos {α} {l : List α} {p : α → Bool} (h : (l.filter p).length ≠ 0) :
    ∃ (i : Nat) (a : α), l[i]? = some a ∧ p a = true := by
  have hne : l.filter p ≠ [] := by intro he; rw [he] at h; exact h rfl
  obtain ⟨a, ha⟩ := List.exists_mem_of_ne_nil _ hne
  obtain ⟨hal, hpa⟩ := List.mem_filter.mp ha
  obtain ⟨i, hi⟩ := List.mem_iff_getElem?.mp hal
  exact ⟨i, a, hi, hpa⟩

theorem Drained_of_counts {s : St} (h : InvF s) (hsd : s.sd = true) (hc : countedServes s = 0)
    (hl : liveTasks s = 0) : Drained s := by
  refine ⟨hsd, ?_, ?_⟩
  · intro pc hpc
    have h1 := filter_length_zero hc pc hpc
    obtain ⟨i, hi⟩ := List.mem_iff_getElem?.mp hpc
    have h2 := h.noReg i
    cases pc with
    | notStarted => rfl
    | registered => exact absurd hi h2
    | running => simp at h1
    | returned r => rfl
  · intro t ht
    have h1 := filter_length_zero hl t ht
    simpa using h1

theorem Drained_of_closed {s : St} (h : InvF s) (hc : s.closes ≥ 1) : Drained s := by
  have h1 := h.cl1
  obtain ⟨a, b, c⟩ := h.cl2.mp (by omega)
  exact Drained_of_counts h a b c


def isSpawned : TaskPc → Bool
  | .spawned _ => true
  | _ => false

@[simp] theorem isSpawned_spawned (f : Fate) : isSpawned (.spawned f) = true := rfl
@[simp] theorem isSpawned_inHandler (k : Key) : isSpawned (.inHandler k) = false := rfl
@[simp] theorem isSpawned_done : isSpawned .done = false := rfl

def spawnedTasks (s : St) : Nat := (s.tasks.filter (fun t => isSpawned t.pc)).length

theorem spawned_set {s : St} {t : Nat} {a : Task} (b : Task) (h : s.tasks[t]? = some a) :
    ((s.tasks.set t b).filter (fun t => isSpawned t.pc)).length + (if isSpawned a.pc then 1 else 0) =
      spawnedTasks s + (if isSpawned b.pc then 1 else 0) :=
  filter_set_length (fun t : Task => isSpawned t.pc) s.tasks t a b h

@[simp] theorem spawnedTasks_activeDone (s : St) : spawnedTasks (activeDone s) = spawnedTasks s := by
  simp [spawnedTasks]

def drainMeasure (s : St) : Nat := countedServes s + liveTasks s + spawnedTasks s

theorem taskRun_enabled {H cfg} {s : St} {t i : Nat} {fate : Fate}
    (ht : s.tasks[t]? = some (⟨i, .spawned fate⟩ : Task)) :
    ∃ s', step H cfg s (.taskRun t) = some s' := by
  simp only [step, ht]
  cases fate with
  | handle key p =>
    by_cases hc : (s.inflight.getD i []).contains key = true
    · simp only [hc, if_true]; exact ⟨_, rfl⟩
    · simp only [hc]; exact ⟨_, rfl⟩
  | _ => exact ⟨_, rfl⟩

theorem serveReadErr_enabled {H cfg} {s : St} {i : Nat}
    (hi : s.serves[i]? = some .running) (hc : s.connClosed.getD (s.connOf.getD i 0) 0 > 0) (hsd : s.sd = true) :
    ∃ s', step H cfg s (.serveReadErr i) = some s' := by
  simp only [step, hi]
  rw [if_pos ⟨hc, hsd⟩]
  exact ⟨_, rfl⟩

theorem taskFinish_enabled {H cfg} {s : St} {t i : Nat} {key : Key}
    (ht : s.tasks[t]? = some (⟨i, .inHandler key⟩ : Task)) :
    ∃ s', step H cfg s (.taskFinish t) = some s' := by
  simp only [step, ht]
  exact ⟨_, rfl⟩

/-- the drain labels that are steps of the SERVER ITSELF: the read of a Serve call fails because
    Shutdown closed its conn, a datagram goroutine runs its pipeline, a handler returns.  The
    environment's `serveReadFail` (a read error that does not come from `Close`) is NOT among them. -/
def isOwnDrainLabel : Label → Bool
  | .serveReadErr _ | .taskRun _ | .taskFinish _ => true
  | _ => false

/-- `drain_progress` with the label named: progress never needs the environment's `serveReadFail` -/
theorem drain_progress_own {H cfg} {s : St} (h : InvF s) (hsd : s.sd = true)
    (hm : countedServes s + liveTasks s ≠ 0) :
    ∃ l s', isOwnDrainLabel l = true ∧ step H cfg s l = some s' ∧ s'.sd = true ∧ drainMeasure s' < drainMeasure s := by
  by_cases hsp : spawnedTasks s = 0
  · by_cases hlv : liveTasks s = 0
    · -- a running serve
      have hcs : countedServes s ≠ 0 := by omega
      obtain ⟨i, pc, hi, hp⟩ := exists_of_filter_pos hcs
      have : pc = .running := by simpa using hp
      subst this
      -- the Serve call is counted in `listeners[connOf i]`, so Shutdown closed its conn
      have hlp : s.listeners.getD (s.connOf.getD i 0) 0 > 0 := by
        rw [h.cnt]; exact runOnL_pos hi
      have hcc := (h.sdc hsd).2 _ hlp
      obtain ⟨s', hs'⟩ := serveReadErr_enabled (H := H) (cfg := cfg) hi hcc hsd
      refine ⟨.serveReadErr i, s', rfl, hs', ?_⟩
      obtain ⟨_, _, _, rfl⟩ := step_serveReadErr hs'
      refine ⟨by simp [hsd], ?_⟩
      · have hc := countedServes_serveLeave .errShutdown hi
        have hsp' : spawnedTasks (serveLeave s i .errShutdown) = spawnedTasks s := by simp [spawnedTasks]
        simp only [drainMeasure, liveTasks_serveLeave, hsp']
        omega
    · -- a task in its handler
      obtain ⟨t, a, ht, hp⟩ := exists_of_filter_pos hlv
      have hns := filter_length_zero hsp a (List.mem_of_getElem? ht)
      obtain ⟨i, pc⟩ := a
      cases pc with
      | spawned f => simp at hns
      | done => simp at hp
      | inHandler key =>
        obtain ⟨s', hs'⟩ := taskFinish_enabled (H := H) (cfg := cfg) ht
        refine ⟨.taskFinish t, s', rfl, hs', ?_⟩
        obtain ⟨i', key', ht', rfl⟩ := step_taskFinish hs'
        rw [ht] at ht'; cases ht'
        refine ⟨by simp [hsd], ?_⟩
        · have hc := live_set ⟨i, .done⟩ ht
          have hc2 := spawned_set ⟨i, .done⟩ ht
          simp at hc hc2
          simp only [drainMeasure, countedServes_activeDone, liveTasks_activeDone, spawnedTasks_activeDone]
          simp only [countedServes, liveTasks, spawnedTasks] at *
          omega
  · obtain ⟨t, a, ht, hp⟩ := exists_of_filter_pos hsp
    obtain ⟨i, pc⟩ := a
    cases pc with
    | inHandler key => simp at hp
    | done => simp at hp
    | spawned fate =>
      obtain ⟨s', hs'⟩ := taskRun_enabled (H := H) (cfg := cfg) ht
      refine ⟨.taskRun t, s', rfl, hs', ?_⟩
      obtain ⟨i', fate', ht', hh | hh⟩ := step_taskRun hs'
      · obtain ⟨key, p, rfl, hk, rfl⟩ := hh
        rw [ht] at ht'; cases ht'
        refine ⟨hsd, ?_⟩
        have hc := live_set ⟨i, .inHandler key⟩ ht
        have hc2 := spawned_set ⟨i, .inHandler key⟩ ht
        simp at hc hc2
        simp only [drainMeasure]
        simp only [countedServes, liveTasks, spawnedTasks] at *
        omega
      · obtain ⟨_, rfl⟩ := hh
        rw [ht] at ht'; cases ht'
        refine ⟨by simp [hsd], ?_⟩
        have hc := live_set ⟨i, .done⟩ ht
        have hc2 := spawned_set ⟨i, .done⟩ ht
        simp at hc hc2
        simp only [drainMeasure, countedServes_activeDone, liveTasks_activeDone, spawnedTasks_activeDone]
        simp only [countedServes, liveTasks, spawnedTasks] at *
        omega

theorem drain_progress {H cfg} {s : St} (h : InvF s) (hsd : s.sd = true)
    (hm : countedServes s + liveTasks s ≠ 0) :
    ∃ l s', step H cfg s l = some s' ∧ s'.sd = true ∧ drainMeasure s' < drainMeasure s := by
  obtain ⟨l, s', _, h1, h2, h3⟩ := drain_progress_own (H := H) (cfg := cfg) h hsd hm
  exact ⟨l, s', h1, h2, h3⟩

/-- a draining schedule made of the server's own steps only -/
theorem drain_own {H cfg} (hv : cfg.variant = .fixed) :
    ∀ (n : Nat) (s : St), InvF s → s.sd = true → drainMeasure s ≤ n →
      ∃ ls', (∀ l ∈ ls', isOwnDrainLabel l = true) ∧ (run H cfg s ls').sd = true ∧
        countedServes (run H cfg s ls') = 0 ∧ liveTasks (run H cfg s ls') = 0 := by
  intro n
  induction n with
  | zero =>
    intro s h hsd hm
    refine ⟨[], by simp, hsd, ?_, ?_⟩ <;> simp only [run, drainMeasure] at hm ⊢ <;> omega
  | succ n ih =>
    intro s h hsd hm
    by_cases hz : countedServes s + liveTasks s = 0
    · refine ⟨[], by simp, hsd, ?_, ?_⟩ <;> simp only [run] <;> omega
    · obtain ⟨l, s', hown, hs, hsd', hlt⟩ := drain_progress_own (H := H) (cfg := cfg) h hsd hz
      obtain ⟨ls', hall, h0, h1, h2⟩ := ih s' (InvF_step hv l h hs) hsd' (by omega)
      refine ⟨l :: ls', ?_, ?_, ?_, ?_⟩
      · intro l' hl'
        rcases List.mem_cons.mp hl' with rfl | hm'
        · exact hown
        · exact hall l' hm'
      all_goals simp only [run, hs]; assumption

theorem drain {H cfg} (hv : cfg.variant = .fixed) :
    ∀ (n : Nat) (s : St), InvF s → s.sd = true → drainMeasure s ≤ n →
      ∃ ls', (run H cfg s ls').sd = true ∧
        countedServes (run H cfg s ls') = 0 ∧ liveTasks (run H cfg s ls') = 0 := by
  intro n s h hsd hm
  obtain ⟨ls', _, h0, h1, h2⟩ := drain_own (H := H) hv n s h hsd hm
  exact ⟨ls', h0, h1, h2⟩

theorem serveEnter_shutdown {H : Hash} {cfg : Cfg} {s : St} {i : Nat} (hsd : s.sd = true)
    (hi : s.serves[i]? = some .notStarted) :
    step H cfg s (.serveEnter i) =
      some { s with serves := s.serves.set i (.returned .errShutdown), log := s.log ++ [.serveReturned i] } := by
  simp only [step, hi, hsd, if_true]

/-- `C07.read_failure` -/
theorem read_failure' (H : Hash) (cfg : Cfg) (s : St) (i : Nat) (k : ReadErrKind)
    (hi : s.serves[i]? = some .running) :
    ∃ s', step H cfg s (.serveReadFail i k) = some s' ∧
      (s.sd = true → s'.serves[i]? = some (.returned .errShutdown)) ∧
      (s.sd = false → k = .nonTemporary → s'.serves[i]? = some (.returned .readError) ∧
          s'.listeners.getD (s.connOf.getD i 0) 0 = s.listeners.getD (s.connOf.getD i 0) 0 - 1) ∧
      (s.sd = false → k = .other → s' = s) := by
  have hil := lt_of_getElem?_eq_some hi
  have hg : ∀ r, (serveLeave s i r).serves[i]? = some (.returned r) := by
    intro r; simp [hil]
  have hl : ∀ r, (serveLeave s i r).listeners.getD (s.connOf.getD i 0) 0 =
      s.listeners.getD (s.connOf.getD i 0) 0 - 1 := by
    intro r
    rw [serveLeave_listeners, getD_set]
    split
    · rfl
    · next hn =>
      have : ¬ s.connOf.getD i 0 < s.listeners.length := fun hlt => hn ⟨rfl, hlt⟩
      rw [List.getD_eq_getElem?_getD, List.getElem?_eq_none (by omega)]
      rfl
  by_cases hsd : s.sd = true
  · refine ⟨serveLeave s i .errShutdown, ?_, fun _ => hg _, by simp [hsd], by simp [hsd]⟩
    simp only [step, hi]
    rw [if_pos hsd]; rfl
  · have hsd' : s.sd = false := by simpa using hsd
    cases k
    · refine ⟨serveLeave s i .readError, ?_, by simp [hsd'], fun _ _ => ⟨hg _, hl _⟩, by simp⟩
      simp only [step, hi]
      rw [if_neg hsd, if_pos trivial]; rfl
    · refine ⟨s, ?_, by simp [hsd'], by simp, fun _ _ => rfl⟩
      simp only [step, hi]
      rw [if_neg hsd, if_neg (by simp)]

/-- the datagram of the non-vacuity example of C07 passes the pipeline -/
theorem classify_example :
    classify (fun _ => zeros 16) { secretOf := fun _ => .secret [1] } 0 ([1, 7, 0, 20] ++ zeros 16)
      = .handle (0, 7) ⟨1, 7, zeros 16, [1], []⟩ := by
  simp [classify, isAuthenticRequest, requestClass, parse, lengthField, be16, zeros, parseAttrs,
    maxPacketLength]

/-! ### C06: the datagram pipeline and the dedup table -/

theorem classify_handle_iff' (H : Hash) (cfg : Cfg) (peer : Nat) (d : Bytes) (key : Key) (p : Packet) :
    classify H cfg peer d = .handle key p ↔
      ∃ s, cfg.secretOf peer = .secret s ∧ s ≠ [] ∧
        (cfg.skipVerify = true ∨ isAuthenticRequest H d s = true) ∧
        parse d s = .ok p ∧ key = (peer, p.id) := by
  unfold classify
  cases hsec : cfg.secretOf peer with
  | error => simp
  | empty => simp
  | secret s =>
    simp only [SecretAns.secret.injEq]
    by_cases hs0 : s.length = 0
    · have hs : s = [] := List.length_eq_zero_iff.mp hs0
      rw [if_pos hs0]
      constructor
      · intro h; cases h
      · rintro ⟨s', rfl, hne, _⟩; exact absurd hs hne
    · have hs : s ≠ [] := fun h => hs0 (by simp [h])
      rw [if_neg hs0]
      by_cases hau : (!cfg.skipVerify && !isAuthenticRequest H d s) = true
      · rw [if_pos hau]
        simp only [Bool.and_eq_true, Bool.not_eq_true'] at hau
        constructor
        · intro h; cases h
        · rintro ⟨s', rfl, _, h1 | h1, _⟩
          · rw [hau.1] at h1; cases h1
          · rw [hau.2] at h1; cases h1
      · rw [if_neg hau]
        have hau' : cfg.skipVerify = true ∨ isAuthenticRequest H d s = true := by
          cases h1 : cfg.skipVerify <;> cases h2 : isAuthenticRequest H d s <;> simp [h1, h2] at hau ⊢
        cases hp : parse d s with
        | ok p' =>
          simp only [Fate.handle.injEq]
          constructor
          · rintro ⟨rfl, rfl⟩
            exact ⟨s, rfl, hs, hau', hp, rfl⟩
          · rintro ⟨s', rfl, _, _, h1, h2⟩
            rw [hp] at h1; cases h1
            exact ⟨h2.symm, rfl⟩
        | err =>
          constructor
          · intro h; cases h
          · rintro ⟨s', rfl, _, _, h1, _⟩; rw [hp] at h1; cases h1
        | fault =>
          constructor
          · intro h; cases h
          · rintro ⟨s', rfl, _, _, h1, _⟩; rw [hp] at h1; cases h1

theorem parse_secret {d s : Bytes} {p : Packet} (h : parse d s = .ok p) :
    p.secret = s ∧ 20 ≤ d.length ∧ (d.drop 4).take 16 = p.auth ∧ p.auth.length = 16 := by
  obtain ⟨h20, _, _, _, as, _, rfl⟩ := (parse_ok_iff d s p).mp h
  refine ⟨rfl, h20, rfl, ?_⟩
  simp; omega

theorem reply_authentic' (H : Hash) (hH : ∀ x, (H x).length = 16) (cfg : Cfg) (peer : Nat) (d : Bytes)
    (key : Key) (p : Packet) (code : Int) (attrs : Attrs) (w : Bytes)
    (h : classify H cfg peer d = .handle key p)
    (hc : Rfc.encClass code = .hashReqAuth)
    (he : encode H { response p code with attrs := attrs } = .ok w) :
    isAuthenticResponse H w d p.secret = true := by
  obtain ⟨s, _, hs, _, hp, _⟩ := (classify_handle_iff' H cfg peer d key p).mp h
  obtain ⟨h1, h2, h3, h4⟩ := parse_secret hp
  exact C03.response_verifies H hH p d code attrs w h2 h3 h4 (by rw [h1]; exact hs) hc he

theorem handler_iff' (H : Hash) (cfg : Cfg) (s : St) (t i : Nat) (fate : Fate)
    (ht : s.tasks[t]? = some (⟨i, .spawned fate⟩ : Task)) :
    (∃ s' key, step H cfg s (.taskRun t) = some s' ∧ s'.tasks[t]? = some (⟨i, .inHandler key⟩ : Task)) ↔
    (∃ key p, fate = .handle key p ∧ key ∉ s.inflight.getD i []) := by
  have htl := lt_of_getElem?_eq_some ht
  constructor
  · rintro ⟨s', key, hs, hk⟩
    obtain ⟨i', fate', ht', hh | hh⟩ := step_taskRun hs
    · rw [ht] at ht'; cases ht'
      obtain ⟨key', p, rfl, hn, _⟩ := hh
      exact ⟨key', p, rfl, hn⟩
    · obtain ⟨_, rfl⟩ := hh
      rw [ht] at ht'; cases ht'
      simp [htl] at hk
  · rintro ⟨key, p, rfl, hn⟩
    obtain ⟨s', hs⟩ := taskRun_enabled (H := H) (cfg := cfg) ht
    refine ⟨s', key, hs, ?_⟩
    obtain ⟨i', fate', ht', hh | hh⟩ := step_taskRun hs
    · rw [ht] at ht'; cases ht'
      obtain ⟨key', p', he, _, rfl⟩ := hh
      cases he
      simp [htl]
    · rw [ht] at ht'; cases ht'
      exact absurd ⟨key, p, rfl, hn⟩ hh.1


theorem dropped_otherwise_of_no_close (H : Hash) (cfg : Cfg) (s : St) (t i : Nat) (fate : Fate)
    (ht : s.tasks[t]? = some (⟨i, .spawned fate⟩ : Task))
    (hn : ¬ ∃ key p, fate = .handle key p ∧ key ∉ s.inflight.getD i [])
    (hnc : s.closes = 0 ∨ s.active ≠ 0) :
    ∃ s', step H cfg s (.taskRun t) = some s' ∧ s'.tasks[t]? = some (⟨i, .done⟩ : Task) ∧
      s'.log = s.log ++ [.dropped t] ∧ s'.inflight = s.inflight := by
  have htl := lt_of_getElem?_eq_some ht
  obtain ⟨s', hs⟩ := taskRun_enabled (H := H) (cfg := cfg) ht
  refine ⟨s', hs, ?_⟩
  obtain ⟨i', fate', ht', hh | hh⟩ := step_taskRun hs
  · rw [ht] at ht'; cases ht'
    obtain ⟨key, p, he, hk, _⟩ := hh
    exact absurd ⟨key, p, he, hk⟩ hn
  · rw [ht] at ht'; cases ht'
    obtain ⟨_, rfl⟩ := hh
    refine ⟨by simp [htl], ?_, by simp⟩
    unfold activeDone
    by_cases ha : s.active - 1 = -1
    · have h0 : s.active = 0 := by omega
      have hc0 : s.closes = 0 := by
        rcases hnc with h | h
        · exact h
        · exact absurd h0 h
      simp [h0, hc0]
    · simp [ha]

theorem dropped_otherwise_reach (H : Hash) (cfg : Cfg) (hv : cfg.variant = .fixed) (conns : List Nat) (nD : Nat)
    (ls : List Label) (t i : Nat) (fate : Fate)
    (ht : (run H cfg (initWith conns nD) ls).tasks[t]? = some (⟨i, .spawned fate⟩ : Task))
    (hn : ¬ ∃ key p, fate = .handle key p ∧ key ∉ (run H cfg (initWith conns nD) ls).inflight.getD i []) :
    ∃ s', step H cfg (run H cfg (initWith conns nD) ls) (.taskRun t) = some s' ∧
      s'.tasks[t]? = some (⟨i, .done⟩ : Task) ∧
      s'.log = (run H cfg (initWith conns nD) ls).log ++ [.dropped t] ∧
      s'.inflight = (run H cfg (initWith conns nD) ls).inflight := by
  have hI := InvF_run H cfg hv conns nD ls
  refine dropped_otherwise_of_no_close H cfg _ t i fate ht hn (Or.inl ?_)
  have hpos := live_pos ht (by simp)
  have h1 := hI.cl1
  have h2 := hI.cl2
  have : ¬ (run H cfg (initWith conns nD) ls).closes = 1 := by
    intro hx; have := h2.mp hx; omega
  omega

theorem released_after_return' (H : Hash) (cfg : Cfg) (conns : List Nat) (nD : Nat) (ls : List Label) (t i : Nat) (key : Key)
    (ht : (run H cfg (initWith conns nD) ls).tasks[t]? = some (⟨i, .inHandler key⟩ : Task)) :
    ∃ s', step H cfg (run H cfg (initWith conns nD) ls) (.taskFinish t) = some s' ∧
      key ∉ s'.inflight.getD i [] := by
  have hI := InvG_run H cfg conns nD ls
  obtain ⟨s', hs⟩ := taskFinish_enabled (H := H) (cfg := cfg) ht
  refine ⟨s', hs, ?_⟩
  obtain ⟨i', key', ht', rfl⟩ := step_taskFinish hs
  rw [ht] at ht'; cases ht'
  simp only [activeDone_inflight, getD_set]
  split
  · intro hm
    have := ((hI.nodup i).mem_erase_iff).mp hm
    exact this.1 rfl
  · next hne =>
    have hil : i < (run H cfg (initWith conns nD) ls).inflight.length := by
      rw [hI.len]; exact hI.bound t _ ht
    exact absurd (by simpa using hil) hne


def cex : St := { closes := 1, active := 0, tasks := [⟨0, .spawned .dropSecretError⟩] }
def cexCfg : Cfg := { secretOf := fun _ => .error }

/-- `C06.dropped_otherwise` is false as stated -/
theorem dropped_otherwise_false :
    ¬ (∀ (H : Hash) (cfg : Cfg) (s : St) (t i : Nat) (fate : Fate)
      (_ : s.tasks[t]? = some (⟨i, .spawned fate⟩ : Task))
      (_ : ¬ ∃ key p, fate = .handle key p ∧ key ∉ s.inflight.getD i []),
      ∃ s', step H cfg s (.taskRun t) = some s' ∧ s'.tasks[t]? = some (⟨i, .done⟩ : Task) ∧
        s'.log = s.log ++ [.dropped t] ∧ s'.inflight = s.inflight) := by
  intro h
  obtain ⟨s', hs, _, hl, _⟩ := h (fun _ => []) cexCfg cex 0 0 .dropSecretError rfl (by rintro ⟨k, p, h, _⟩; cases h)
  have : step (fun _ => []) cexCfg cex (.taskRun 0) =
      some { cex with active := -1, closes := 2, tasks := [⟨0, .done⟩], log := [.dropped 0, .doubleClose] } := by
    rfl
  rw [this] at hs
  cases hs
  revert hl
  decide


/-! ### the trace: which events a step appends, and where an event of the log came from -/

/-- the events a step with label `l` may append to the log, given the state `s` it is taken in -/
def NewEv (H : Hash) (cfg : Cfg) (s : St) : Label → Event → Prop
  | .serveEnter i, e => e = .serveReturned i
  | .serveCount _, _ => False
  | .serveRecv i peer d, e => e = .recv s.tasks.length i peer d
  | .serveReadErr i, e => e = .serveReturned i ∨ e = .doubleClose
  | .serveReadFail i _, e => e = .serveReturned i ∨ e = .doubleClose
  | .taskRun t, e => e = .dropped t ∨ e = .doubleClose ∨
      ∃ i key p, s.tasks[t]? = some (⟨i, .spawned (.handle key p)⟩ : Task) ∧ key ∉ s.inflight.getD i [] ∧
        (e = .request t p (s.peerOf t) (s.connOf.getD i 0) .server ∨ e = .handlerStart t key)
  | .taskFinish t, e => e = .handlerEnd t ∨ e = .doubleClose
  | .taskReply t code attrs, e => ∃ i key p w, s.tasks[t]? = some (⟨i, .inHandler key⟩ : Task) ∧
      s.packetOf H cfg t = some p ∧ encode H { response p code with attrs := attrs } = .ok w ∧
      e = .reply t (s.connOf.getD i 0) (s.peerOf t) w
  | .downEnter _, e => (∃ c, e = .listenerClosed c) ∨ e = .doubleClose
  | .downReturnNil j, e => e = .downReturned j .nil
  | .downReturnCtx j, e => e = .downReturned j .ctxErr
  | .ctxExpire _, _ => False

theorem activeDone_log_append (s : St) :
    ∃ evs, (activeDone s).log = s.log ++ evs ∧ ∀ e ∈ evs, e = Event.doubleClose := by
  rcases activeDone_log s with h | h
  · exact ⟨[], by simp [h], by simp⟩
  · exact ⟨[.doubleClose], h, by simp⟩

/-- every step appends to the log, and only events that `NewEv` lists -/
theorem step_log {H : Hash} {cfg : Cfg} {s s' : St} {l : Label} (h : step H cfg s l = some s') :
    ∃ evs, s'.log = s.log ++ evs ∧ ∀ e ∈ evs, NewEv H cfg s l e := by
  cases l with
  | serveEnter i =>
    obtain ⟨_, hh | hh | hh⟩ := step_serveEnter h
    · obtain ⟨_, rfl⟩ := hh; exact ⟨[.serveReturned i], rfl, by simp [NewEv]⟩
    · obtain ⟨_, _, rfl⟩ := hh; exact ⟨[], by simp, by simp⟩
    · obtain ⟨_, _, rfl⟩ := hh; exact ⟨[], by simp, by simp⟩
  | serveCount i =>
    obtain ⟨_, rfl⟩ := step_serveCount h; exact ⟨[], by simp, by simp⟩
  | serveRecv i peer d =>
    obtain ⟨_, _, rfl⟩ := step_serveRecv h
    exact ⟨[.recv s.tasks.length i peer d], rfl, by simp [NewEv]⟩
  | serveReadErr i =>
    obtain ⟨_, _, _, rfl⟩ := step_serveReadErr h
    obtain ⟨evs, he, hd⟩ := activeDone_log_append
      { s with serves := s.serves.set i (.returned .errShutdown),
               listeners := s.listeners.set (s.connOf.getD i 0) (s.listeners.getD (s.connOf.getD i 0) 0 - 1),
               log := s.log ++ [.serveReturned i] }
    refine ⟨.serveReturned i :: evs, he.trans (by simp), ?_⟩
    intro e he'
    rcases List.mem_cons.mp he' with rfl | hm
    · left; rfl
    · right; exact hd e hm
  | serveReadFail i k =>
    have leave : ∀ r, ∃ evs, (serveLeave s i r).log = s.log ++ evs ∧ ∀ e ∈ evs, NewEv H cfg s (.serveReadFail i k) e := by
      intro r
      obtain ⟨evs, he, hd⟩ := activeDone_log_append
        { s with serves := s.serves.set i (.returned r),
                 listeners := s.listeners.set (s.connOf.getD i 0) (s.listeners.getD (s.connOf.getD i 0) 0 - 1),
                 log := s.log ++ [.serveReturned i] }
      refine ⟨.serveReturned i :: evs, he.trans (by simp), ?_⟩
      intro e he'
      rcases List.mem_cons.mp he' with rfl | hm
      · left; rfl
      · right; exact hd e hm
    obtain ⟨_, hh | hh | hh⟩ := step_serveReadFail h
    · obtain ⟨_, rfl⟩ := hh; exact leave _
    · obtain ⟨_, _, rfl⟩ := hh; exact leave _
    · obtain ⟨_, _, rfl⟩ := hh; exact ⟨[], by simp, by simp⟩
  | taskRun t =>
    obtain ⟨i, fate, ht, hh | hh⟩ := step_taskRun h
    · obtain ⟨key, p, rfl, hk, rfl⟩ := hh
      refine ⟨[.request t p (s.peerOf t) (s.connOf.getD i 0) .server, .handlerStart t key], rfl, ?_⟩
      intro e he
      right; right
      refine ⟨i, key, p, ht, hk, ?_⟩
      simpa using he
    · obtain ⟨_, rfl⟩ := hh
      obtain ⟨evs, he, hd⟩ := activeDone_log_append
        { s with tasks := s.tasks.set t ⟨i, .done⟩, log := s.log ++ [.dropped t] }
      refine ⟨.dropped t :: evs, he.trans (by simp), ?_⟩
      intro e he'
      rcases List.mem_cons.mp he' with rfl | hm
      · left; rfl
      · right; left; exact hd e hm
  | taskFinish t =>
    obtain ⟨i, key, ht, rfl⟩ := step_taskFinish h
    obtain ⟨evs, he, hd⟩ := activeDone_log_append
      { s with tasks := s.tasks.set t ⟨i, .done⟩,
               inflight := s.inflight.set i ((s.inflight.getD i []).erase key),
               log := s.log ++ [.handlerEnd t] }
    refine ⟨.handlerEnd t :: evs, he.trans (by simp), ?_⟩
    intro e he'
    rcases List.mem_cons.mp he' with rfl | hm
    · left; rfl
    · right; exact hd e hm
  | taskReply t code attrs =>
    obtain ⟨i, key, p, w, ht, hp, hw, rfl⟩ := step_taskReply h
    refine ⟨[.reply t (s.connOf.getD i 0) (s.peerOf t) w], rfl, ?_⟩
    intro e he
    exact ⟨i, key, p, w, ht, hp, hw, by simpa using he⟩
  | downEnter j =>
    obtain ⟨c, _, hh | hh⟩ := step_downEnter h
    · obtain ⟨_, rfl⟩ := hh; exact ⟨[], by simp, by simp⟩
    · obtain ⟨_, rfl⟩ := hh
      obtain ⟨evs, he, hd⟩ := activeDone_log_append
        { s with downs := s.downs.set j ⟨.waiting, c⟩, sd := true, ctxCancelled := true,
                 connClosed := (List.range s.connClosed.length).map
                   (fun c => s.connClosed.getD c 0 + (if s.listeners.getD c 0 > 0 then 1 else 0)),
                 log := s.log ++ ((List.range s.listeners.length).filter
                   (fun c => s.listeners.getD c 0 > 0)).map .listenerClosed }
      refine ⟨((List.range s.listeners.length).filter (fun c => s.listeners.getD c 0 > 0)).map .listenerClosed ++ evs,
        he.trans (by simp), ?_⟩
      intro e he'
      rcases List.mem_append.mp he' with hm | hm
      · obtain ⟨c, _, rfl⟩ := List.mem_map.mp hm
        left; exact ⟨c, rfl⟩
      · right; exact hd e hm
  | downReturnNil j =>
    obtain ⟨c, _, _, rfl⟩ := step_downReturnNil h
    exact ⟨[.downReturned j .nil], rfl, by simp [NewEv]⟩
  | downReturnCtx j =>
    obtain ⟨_, rfl⟩ := step_downReturnCtx h
    exact ⟨[.downReturned j .ctxErr], rfl, by simp [NewEv]⟩
  | ctxExpire j =>
    obtain ⟨pc, _, rfl⟩ := step_ctxExpire h; exact ⟨[], by simp, by simp⟩

theorem step_log_mono {H : Hash} {cfg : Cfg} {s s' : St} {l : Label} (h : step H cfg s l = some s')
    (e : Event) (he : e ∈ s.log) : e ∈ s'.log := by
  obtain ⟨evs, hl, _⟩ := step_log h
  rw [hl]; exact List.mem_append_left _ he

theorem run_log_mono (H : Hash) (cfg : Cfg) (e : Event) :
    ∀ (ls : List Label) (s : St), e ∈ s.log → e ∈ (run H cfg s ls).log := by
  intro ls
  induction ls with
  | nil => intro s h; exact h
  | cons l ls ih =>
    intro s h
    simp only [run]
    split
    · next s' hs => exact ih s' (step_log_mono hs e h)
    · exact ih s h

/-- Provenance: an event of the log that was not there initially was appended by one step of the
    schedule — the schedule splits at that step, the event is absent before it and `NewEv` holds. -/
theorem log_provenance (H : Hash) (cfg : Cfg) (e : Event) :
    ∀ (ls : List Label) (s0 : St), e ∈ (run H cfg s0 ls).log → e ∉ s0.log →
      ∃ ls1 l ls2 s', ls = ls1 ++ l :: ls2 ∧ step H cfg (run H cfg s0 ls1) l = some s' ∧
        e ∉ (run H cfg s0 ls1).log ∧ NewEv H cfg (run H cfg s0 ls1) l e := by
  intro ls
  induction ls with
  | nil => intro s0 h hn; exact absurd h hn
  | cons l ls ih =>
    intro s0 h hn
    simp only [run] at h
    split at h
    · next s' hs =>
      by_cases hm : e ∈ s'.log
      · obtain ⟨evs, hl, hev⟩ := step_log hs
        rw [hl] at hm
        rcases List.mem_append.mp hm with hm | hm
        · exact absurd hm hn
        · exact ⟨[], l, ls, s', rfl, hs, hn, hev e hm⟩
      · obtain ⟨ls1, l', ls2, s'', he, hst, hne, hnew⟩ := ih s' h hm
        refine ⟨l :: ls1, l', ls2, s'', by simp [he], ?_, ?_, ?_⟩ <;> simp only [run, hs] <;> assumption
    · next hs =>
      obtain ⟨ls1, l', ls2, s'', he, hst, hne, hnew⟩ := ih s0 h hn
      refine ⟨l :: ls1, l', ls2, s'', by simp [he], ?_, ?_, ?_⟩ <;> simp only [run, hs] <;> assumption


/-! ### the origin invariant: who spawned a goroutine, what it was handed, where its replies go -/

def isRecv : Event → Bool
  | .recv .. => true
  | _ => false

/-- the events the origin invariant speaks about -/
def isTraced : Event → Bool
  | .recv .. | .handlerStart .. | .request .. | .reply .. => true
  | _ => false

/-- the `recv` event of task `t` with origin `o` -/
def recvOf (t : Nat) (o : Origin) : Event := .recv t o.serve o.peer o.dgram

structure InvO (H : Hash) (cfg : Cfg) (s : St) : Prop where
  len : s.origin.length = s.tasks.length
  serve : ∀ (t : Nat) (tk : Task) (o : Origin), s.tasks[t]? = some tk → s.origin[t]? = some o → tk.serve = o.serve
  fate : ∀ (t i : Nat) (f : Fate) (o : Origin), s.tasks[t]? = some (⟨i, .spawned f⟩ : Task) →
    s.origin[t]? = some o → f = classify H cfg o.peer o.dgram
  hand : ∀ (t i : Nat) (key : Key) (o : Origin), s.tasks[t]? = some (⟨i, .inHandler key⟩ : Task) →
    s.origin[t]? = some o → ∃ p, classify H cfg o.peer o.dgram = .handle key p
  inH : ∀ (t i : Nat) (key : Key), s.tasks[t]? = some (⟨i, .inHandler key⟩ : Task) → Event.handlerStart t key ∈ s.log
  recvs : s.log.filter isRecv = s.origin.mapIdx recvOf
  hs : ∀ (t : Nat) (key : Key), Event.handlerStart t key ∈ s.log →
    ∃ o p, s.origin[t]? = some o ∧ classify H cfg o.peer o.dgram = .handle key p ∧
      Event.request t p o.peer (s.connOf.getD o.serve 0) .server ∈ s.log
  req : ∀ (t : Nat) (p : Packet) (peer conn : Nat) (ctx : Ctx), Event.request t p peer conn ctx ∈ s.log →
    ∃ o key, s.origin[t]? = some o ∧ classify H cfg o.peer o.dgram = .handle key p ∧
      peer = o.peer ∧ conn = s.connOf.getD o.serve 0 ∧ ctx = .server ∧ Event.handlerStart t key ∈ s.log
  rep : ∀ (t conn addr : Nat) (w : Bytes), Event.reply t conn addr w ∈ s.log →
    ∃ o key, s.origin[t]? = some o ∧ addr = o.peer ∧ conn = s.connOf.getD o.serve 0 ∧
      Event.handlerStart t key ∈ s.log ∧
      -- what was written: the encoding of a Response of the packet the goroutine's datagram parses to
      ∃ (p : Packet) (code : Int) (attrs : Attrs), classify H cfg o.peer o.dgram = .handle key p ∧
        encode H { response p code with attrs := attrs } = .ok w

theorem InvO_initWith (H : Hash) (cfg : Cfg) (conns : List Nat) (nD : Nat) : InvO H cfg (initWith conns nD) := by
  refine ⟨rfl, ?_, ?_, ?_, ?_, rfl, ?_, ?_, ?_⟩
  · intro t tk o h; simp [initWith] at h
  · intro t i f o h; simp [initWith] at h
  · intro t i k o h; simp [initWith] at h
  · intro t i k h; simp [initWith] at h
  · intro t k h; simp [initWith] at h
  · intro t p pe c x h; simp [initWith] at h
  · intro t c a w h; simp [initWith] at h

/-- a new event that is either outside the invariant's vocabulary or a well-formed reply -/
def GoodNew (H : Hash) (cfg : Cfg) (s : St) (e : Event) : Prop :=
  isTraced e = false ∨
  ∃ (t conn addr : Nat) (w : Bytes) (o : Origin) (key : Key), e = .reply t conn addr w ∧ s.origin[t]? = some o ∧
    addr = o.peer ∧ conn = s.connOf.getD o.serve 0 ∧ Event.handlerStart t key ∈ s.log ∧
    ∃ (p : Packet) (code : Int) (attrs : Attrs), classify H cfg o.peer o.dgram = .handle key p ∧
      encode H { response p code with attrs := attrs } = .ok w

theorem mem_old_of_good {H : Hash} {cfg : Cfg} {s : St} {evs : List Event} (hn : ∀ e ∈ evs, GoodNew H cfg s e) {e : Event}
    (he : e ∈ s.log ++ evs) (ht : isTraced e = true) (hr : ∀ t c a w, e ≠ .reply t c a w) : e ∈ s.log := by
  rcases List.mem_append.mp he with h | h
  · exact h
  · rcases hn e h with h1 | ⟨t, c, a, w, _, _, h1, _⟩
    · rw [h1] at ht; cases ht
    · exact absurd h1 (hr t c a w)

theorem InvO.of_same {H : Hash} {cfg : Cfg} {s s' : St} (h : InvO H cfg s)
    (ho : s'.origin = s.origin) (hc : s'.connOf = s.connOf) (hlen : s'.tasks.length = s.tasks.length)
    (htk : ∀ (t : Nat) (tk' : Task), s'.tasks[t]? = some tk' →
      ∃ tk, s.tasks[t]? = some tk ∧ tk.serve = tk'.serve ∧ (tk'.pc = tk.pc ∨ tk'.pc = .done))
    (hlog : ∃ evs, s'.log = s.log ++ evs ∧ ∀ e ∈ evs, GoodNew H cfg s e) : InvO H cfg s' := by
  obtain ⟨evs, hl, hn⟩ := hlog
  have lift : ∀ e, e ∈ s.log → e ∈ s'.log := by
    intro e he; rw [hl]; exact List.mem_append_left _ he
  refine ⟨by rw [ho, hlen]; exact h.len, ?_, ?_, ?_, ?_, ?_, ?_, ?_, ?_⟩
  · intro t tk' o h1 h2
    obtain ⟨tk, a, b, _⟩ := htk t tk' h1
    rw [ho] at h2; rw [← b]; exact h.serve t tk o a h2
  · intro t i f o h1 h2
    obtain ⟨⟨i', pc⟩, a, b, c⟩ := htk t _ h1
    simp only at b c
    rcases c with c | c
    · subst b; subst c; rw [ho] at h2; exact h.fate t i' f o a h2
    · cases c
  · intro t i k o h1 h2
    obtain ⟨⟨i', pc⟩, a, b, c⟩ := htk t _ h1
    simp only at b c
    rcases c with c | c
    · subst b; subst c; rw [ho] at h2; exact h.hand t i' k o a h2
    · cases c
  · intro t i k h1
    obtain ⟨⟨i', pc⟩, a, b, c⟩ := htk t _ h1
    simp only at b c
    rcases c with c | c
    · subst b; subst c; exact lift _ (h.inH t i' k a)
    · cases c
  · rw [hl, List.filter_append, ho, ← h.recvs]
    have : evs.filter isRecv = [] := by
      apply List.filter_eq_nil_iff.mpr
      intro e he
      rcases hn e he with h1 | ⟨t, c, a, w, _, _, h1, _⟩
      · cases e <;> simp [isTraced, isRecv] at h1 ⊢
      · subst h1; simp [isRecv]
    rw [this]; simp
  · intro t k hm
    rw [hl] at hm
    have hm' := mem_old_of_good hn hm rfl (by intro _ _ _ _ hh; cases hh)
    obtain ⟨o, p, h1, h2, h3⟩ := h.hs t k hm'
    exact ⟨o, p, by rw [ho]; exact h1, h2, by rw [hc]; exact lift _ h3⟩
  · intro t p pe c x hm
    rw [hl] at hm
    have hm' := mem_old_of_good hn hm rfl (by intro _ _ _ _ hh; cases hh)
    obtain ⟨o, k, h1, h2, h3, h4, h5, h6⟩ := h.req t p pe c x hm'
    exact ⟨o, k, by rw [ho]; exact h1, h2, h3, by rw [hc]; exact h4, h5, lift _ h6⟩
  · intro t c a w hm
    rw [hl] at hm
    rcases List.mem_append.mp hm with hm' | hm'
    · obtain ⟨o, k, h1, h2, h3, h4, h5⟩ := h.rep t c a w hm'
      exact ⟨o, k, by rw [ho]; exact h1, h2, by rw [hc]; exact h3, lift _ h4, h5⟩
    · rcases hn _ hm' with h1 | ⟨t', c', a', w', o, k, h1, h2, h3, h4, h5, h6⟩
      · cases h1
      · cases h1
        exact ⟨o, k, by rw [ho]; exact h2, h3, by rw [hc]; exact h4, lift _ h5, h6⟩

theorem tasks_same (s : St) : ∀ (t : Nat) (tk' : Task), s.tasks[t]? = some tk' →
    ∃ tk, s.tasks[t]? = some tk ∧ tk.serve = tk'.serve ∧ (tk'.pc = tk.pc ∨ tk'.pc = .done) :=
  fun _ tk' h => ⟨tk', h, rfl, Or.inl rfl⟩

theorem tasks_set_done {tasks : List Task} {t i : Nat} {pc : TaskPc} (ht : tasks[t]? = some (⟨i, pc⟩ : Task)) :
    ∀ (t' : Nat) (tk' : Task), (tasks.set t ⟨i, .done⟩)[t']? = some tk' →
    ∃ tk, tasks[t']? = some tk ∧ tk.serve = tk'.serve ∧ (tk'.pc = tk.pc ∨ tk'.pc = .done) := by
  intro t' tk' hh
  rcases getElem?_set_some hh with ⟨e, he, _⟩ | ⟨_, he⟩
  · subst e; subst he; exact ⟨_, ht, rfl, Or.inr rfl⟩
  · exact ⟨tk', he, rfl, Or.inl rfl⟩

/-- the events of a step that does not touch the vocabulary of `InvO` -/
theorem good_of_untraced {H : Hash} {cfg : Cfg} {s s' : St} {l : Label} (hs : step H cfg s l = some s')
    (hu : ∀ e, NewEv H cfg s l e → isTraced e = false) :
    ∃ evs, s'.log = s.log ++ evs ∧ ∀ e ∈ evs, GoodNew H cfg s e := by
  obtain ⟨evs, hl, hn⟩ := step_log hs
  exact ⟨evs, hl, fun e he => Or.inl (hu e (hn e he))⟩

theorem peerOf_eq {s : St} {t : Nat} {o : Origin} (h : s.origin[t]? = some o) : s.peerOf t = o.peer := by
  simp [St.peerOf, h]

theorem origin_of_task {H : Hash} {cfg : Cfg} {s : St} (h : InvO H cfg s) {t : Nat} {tk : Task}
    (ht : s.tasks[t]? = some tk) : ∃ o, s.origin[t]? = some o ∧ tk.serve = o.serve := by
  have hl : t < s.origin.length := by rw [h.len]; exact lt_of_getElem?_eq_some ht
  refine ⟨s.origin[t], List.getElem?_eq_getElem hl, ?_⟩
  exact h.serve t tk _ ht (List.getElem?_eq_getElem hl)

/-- `spawn`: the new goroutine's origin is what the Serve call read; nothing old changes -/
theorem InvO_spawn {H : Hash} {cfg : Cfg} {s : St} (i peer : Nat) (d : Bytes) (h : InvO H cfg s) :
    InvO H cfg (spawn H cfg s i peer d) := by
  rw [spawn_eq]
  have hlen := h.len
  have liftO : ∀ (t : Nat) (o : Origin), s.origin[t]? = some o → (s.origin ++ [(⟨i, peer, d⟩ : Origin)])[t]? = some o := by
    intro t o hh
    rw [List.getElem?_append_left (lt_of_getElem?_eq_some hh)]; exact hh
  -- a position is old in both lists or new in both
  have both : ∀ (t : Nat) (tk : Task) (o : Origin),
      (s.tasks ++ [(⟨i, .spawned (classify H cfg peer d)⟩ : Task)])[t]? = some tk →
      (s.origin ++ [(⟨i, peer, d⟩ : Origin)])[t]? = some o →
      (s.tasks[t]? = some tk ∧ s.origin[t]? = some o) ∨
      (tk = ⟨i, .spawned (classify H cfg peer d)⟩ ∧ o = ⟨i, peer, d⟩) := by
    intro t tk o h1 h2
    rcases getElem?_append_singleton_some h1 with a | ⟨a1, a2⟩ <;>
    rcases getElem?_append_singleton_some h2 with b | ⟨b1, b2⟩
    · exact Or.inl ⟨a, b⟩
    · have := lt_of_getElem?_eq_some a; omega
    · have := lt_of_getElem?_eq_some b; omega
    · exact Or.inr ⟨a2.symm, b2.symm⟩
  refine ⟨by simp [hlen], ?_, ?_, ?_, ?_, ?_, ?_, ?_, ?_⟩
  · intro t tk o h1 h2
    rcases both t tk o h1 h2 with ⟨a, b⟩ | ⟨rfl, rfl⟩
    · exact h.serve t tk o a b
    · rfl
  · intro t i' f o h1 h2
    rcases both t _ o h1 h2 with ⟨a, b⟩ | ⟨a, rfl⟩
    · exact h.fate t i' f o a b
    · cases a; rfl
  · intro t i' k o h1 h2
    rcases both t _ o h1 h2 with ⟨a, b⟩ | ⟨a, rfl⟩
    · exact h.hand t i' k o a b
    · cases a
  · intro t i' k h1
    rcases getElem?_append_singleton_some h1 with a | ⟨_, a⟩
    · exact List.mem_append_left _ (h.inH t i' k a)
    · cases a
  · show (s.log ++ [Event.recv s.tasks.length i peer d]).filter isRecv = (s.origin ++ [(⟨i, peer, d⟩ : Origin)]).mapIdx recvOf
    rw [List.filter_append, List.mapIdx_concat, ← h.recvs, hlen]
    simp [isRecv, recvOf]
  · intro t k hm
    have hm' : Event.handlerStart t k ∈ s.log := by simpa using hm
    obtain ⟨o, p, h1, h2, h3⟩ := h.hs t k hm'
    exact ⟨o, p, liftO t o h1, h2, List.mem_append_left _ h3⟩
  · intro t p pe c x hm
    have hm' : Event.request t p pe c x ∈ s.log := by simpa using hm
    obtain ⟨o, k, h1, h2, h3, h4, h5, h6⟩ := h.req t p pe c x hm'
    exact ⟨o, k, liftO t o h1, h2, h3, h4, h5, List.mem_append_left _ h6⟩
  · intro t c a w hm
    have hm' : Event.reply t c a w ∈ s.log := by simpa using hm
    obtain ⟨o, k, h1, h2, h3, h4, h5⟩ := h.rep t c a w hm'
    exact ⟨o, k, liftO t o h1, h2, h3, List.mem_append_left _ h4, h5⟩

theorem InvO_step {H : Hash} {cfg : Cfg} {s s' : St} (l : Label) (h : InvO H cfg s)
    (hs : step H cfg s l = some s') : InvO H cfg s' := by
  cases l with
  | serveEnter i =>
    have hg := good_of_untraced hs (by intro e he; simp only [NewEv] at he; subst he; rfl)
    obtain ⟨_, hh | hh | hh⟩ := step_serveEnter hs
    · obtain ⟨_, rfl⟩ := hh; exact h.of_same rfl rfl rfl (tasks_same s) hg
    · obtain ⟨_, _, rfl⟩ := hh; exact h.of_same rfl rfl rfl (tasks_same s) hg
    · obtain ⟨_, _, rfl⟩ := hh; exact h.of_same rfl rfl rfl (tasks_same s) hg
  | serveCount i =>
    have hg := good_of_untraced hs (by intro e he; simp only [NewEv] at he)
    obtain ⟨_, rfl⟩ := step_serveCount hs
    exact h.of_same rfl rfl rfl (tasks_same s) hg
  | serveRecv i peer d =>
    obtain ⟨_, _, rfl⟩ := step_serveRecv_spawn hs
    exact InvO_spawn i peer d h
  | serveReadErr i =>
    have hg := good_of_untraced hs (by intro e he; simp only [NewEv] at he; rcases he with rfl | rfl <;> rfl)
    obtain ⟨_, _, _, rfl⟩ := step_serveReadErr hs
    exact h.of_same (by simp) (by simp) (by simp) (by simpa using tasks_same s) hg
  | serveReadFail i k =>
    have hg := good_of_untraced hs (by intro e he; simp only [NewEv] at he; rcases he with rfl | rfl <;> rfl)
    obtain ⟨_, hh | hh | hh⟩ := step_serveReadFail hs
    · obtain ⟨_, rfl⟩ := hh; exact h.of_same (by simp) (by simp) (by simp) (by simpa using tasks_same s) hg
    · obtain ⟨_, _, rfl⟩ := hh; exact h.of_same (by simp) (by simp) (by simp) (by simpa using tasks_same s) hg
    · obtain ⟨_, _, rfl⟩ := hh; exact h
  | taskRun t =>
    obtain ⟨i, fate, ht, hh | hh⟩ := step_taskRun hs
    · obtain ⟨key, p, rfl, hk, rfl⟩ := hh
      obtain ⟨o, ho, hio⟩ := origin_of_task h ht
      simp only at hio
      have hf := h.fate t i _ o ht ho
      have hpe := peerOf_eq ho
      have htl := lt_of_getElem?_eq_some ht
      have lift : ∀ e, e ∈ s.log → e ∈ s.log ++ [Event.request t p (s.peerOf t) (s.connOf.getD i 0) .server,
          Event.handlerStart t key] := fun e he => List.mem_append_left _ he
      have hreq : Event.request t p o.peer (s.connOf.getD o.serve 0) .server ∈
          s.log ++ [Event.request t p (s.peerOf t) (s.connOf.getD i 0) .server, Event.handlerStart t key] := by
        rw [hpe, hio]; simp
      have hhs : Event.handlerStart t key ∈
          s.log ++ [Event.request t p (s.peerOf t) (s.connOf.getD i 0) .server, Event.handlerStart t key] := by
        simp
      refine ⟨by simpa using h.len, ?_, ?_, ?_, ?_, ?_, ?_, ?_, ?_⟩
      · intro t' tk o' h1 h2
        rcases getElem?_set_some h1 with ⟨e, he, _⟩ | ⟨_, he⟩
        · subst e; subst he; exact (h.serve t _ o' ht h2 : i = o'.serve)
        · exact h.serve t' tk o' he h2
      · intro t' i' f o' h1 h2
        rcases getElem?_set_some h1 with ⟨_, he, _⟩ | ⟨_, he⟩
        · cases he
        · exact h.fate t' i' f o' he h2
      · intro t' i' k o' h1 h2
        rcases getElem?_set_some h1 with ⟨e, he, _⟩ | ⟨_, he⟩
        · subst e; cases he
          have : o' = o := by
            have h2' : s.origin[t]? = some o' := h2
            rw [ho] at h2'; exact (Option.some.inj h2').symm
          subst this
          exact ⟨p, hf.symm⟩
        · exact h.hand t' i' k o' he h2
      · intro t' i' k h1
        rcases getElem?_set_some h1 with ⟨e, he, _⟩ | ⟨_, he⟩
        · subst e; cases he; exact hhs
        · exact lift _ (h.inH t' i' k he)
      · show (s.log ++ [Event.request t p (s.peerOf t) (s.connOf.getD i 0) .server,
            Event.handlerStart t key]).filter isRecv = s.origin.mapIdx recvOf
        rw [List.filter_append, ← h.recvs]; simp [isRecv]
      · intro t' k hm
        simp only [List.mem_append, List.mem_cons, List.mem_nil_iff, or_false, reduceCtorEq, false_or] at hm
        rcases hm with hm | hm
        · obtain ⟨o', p', h1, h2, h3⟩ := h.hs t' k hm
          exact ⟨o', p', h1, h2, lift _ h3⟩
        · cases hm
          exact ⟨o, p, ho, hf.symm, hreq⟩
      · intro t' p' pe c x hm
        simp only [List.mem_append, List.mem_cons, List.mem_nil_iff, or_false, reduceCtorEq, or_false] at hm
        rcases hm with hm | hm
        · obtain ⟨o', k, h1, h2, h3, h4, h5, h6⟩ := h.req t' p' pe c x hm
          exact ⟨o', k, h1, h2, h3, h4, h5, lift _ h6⟩
        · cases hm
          exact ⟨o, key, ho, hf.symm, hpe, by rw [hio], rfl, hhs⟩
      · intro t' c a w hm
        have hm' : Event.reply t' c a w ∈ s.log := by simpa using hm
        obtain ⟨o', k, h1, h2, h3, h4, h5⟩ := h.rep t' c a w hm'
        exact ⟨o', k, h1, h2, h3, lift _ h4, h5⟩
    · obtain ⟨hne, rfl⟩ := hh
      have hg : ∃ evs, (activeDone { s with tasks := s.tasks.set t ⟨i, .done⟩, log := s.log ++ [.dropped t] }).log
          = s.log ++ evs ∧ ∀ e ∈ evs, GoodNew H cfg s e := by
        obtain ⟨evs, hl, hn⟩ := step_log hs
        refine ⟨evs, hl, fun e he => Or.inl ?_⟩
        have := hn e he
        simp only [NewEv] at this
        rcases this with rfl | rfl | ⟨i', key, p, h1, h2, _⟩
        · rfl
        · rfl
        · rw [ht] at h1; cases h1
          exact absurd ⟨key, p, rfl, h2⟩ hne
      exact h.of_same (by simp) (by simp) (by simp) (by simpa using tasks_set_done ht) hg
  | taskFinish t =>
    have hg := good_of_untraced hs (by intro e he; simp only [NewEv] at he; rcases he with rfl | rfl <;> rfl)
    obtain ⟨i, key, ht, rfl⟩ := step_taskFinish hs
    exact h.of_same (by simp) (by simp) (by simp) (by simpa using tasks_set_done ht) hg
  | taskReply t code attrs =>
    obtain ⟨i, key, p, w, ht, hp, hw, rfl⟩ := step_taskReply hs
    obtain ⟨o, ho, hio⟩ := origin_of_task h ht
    simp only at hio
    -- the packet the handler answers is the one its goroutine's datagram was classified to, under the key of the handler
    obtain ⟨o', key', ho', hcl⟩ := packetOf_some hp
    rw [ho] at ho'; cases ho'
    obtain ⟨p', hcl'⟩ := h.hand t i key o ht ho
    rw [hcl] at hcl'; cases hcl'
    refine h.of_same rfl rfl rfl (tasks_same s) ⟨[.reply t (s.connOf.getD i 0) (s.peerOf t) w], rfl, ?_⟩
    intro e he
    right
    refine ⟨t, s.connOf.getD i 0, s.peerOf t, w, o, key, by simpa using he, ho, peerOf_eq ho, by rw [hio],
      h.inH t i key ht, p, code, attrs, hcl, hw⟩
  | downEnter j =>
    have hg := good_of_untraced hs (by
      intro e he; simp only [NewEv] at he; rcases he with ⟨c, rfl⟩ | rfl <;> rfl)
    obtain ⟨c, _, hh | hh⟩ := step_downEnter hs
    · obtain ⟨_, rfl⟩ := hh; exact h.of_same rfl rfl rfl (tasks_same s) hg
    · obtain ⟨_, rfl⟩ := hh
      exact h.of_same (by simp) (by simp) (by simp) (by simpa using tasks_same s) hg
  | downReturnNil j =>
    have hg := good_of_untraced hs (by intro e he; simp only [NewEv] at he; subst he; rfl)
    obtain ⟨c, _, _, rfl⟩ := step_downReturnNil hs
    exact h.of_same rfl rfl rfl (tasks_same s) hg
  | downReturnCtx j =>
    have hg := good_of_untraced hs (by intro e he; simp only [NewEv] at he; subst he; rfl)
    obtain ⟨_, rfl⟩ := step_downReturnCtx hs
    exact h.of_same rfl rfl rfl (tasks_same s) hg
  | ctxExpire j =>
    have hg := good_of_untraced hs (by intro e he; simp only [NewEv] at he)
    obtain ⟨pc, _, rfl⟩ := step_ctxExpire hs
    exact h.of_same rfl rfl rfl (tasks_same s) hg

theorem InvO_run (H : Hash) (cfg : Cfg) (conns : List Nat) (nD : Nat) (ls : List Label) :
    InvO H cfg (run H cfg (initWith conns nD) ls) :=
  run_preserves H cfg (InvO H cfg) (fun _ l _ h hs => InvO_step l h hs) ls _ (InvO_initWith H cfg conns nD)


/-! ### counting over the trace: one handler start or one drop per goroutine, one goroutine per read -/

def isHSof (t : Nat) : Event → Bool
  | .handlerStart t' _ => t' == t
  | _ => false
def isDropOf (t : Nat) : Event → Bool
  | .dropped t' => t' == t
  | _ => false
def isEndOf (t : Nat) : Event → Bool
  | .handlerEnd t' => t' == t
  | _ => false

/-- how often the handler was started for goroutine `t` -/
def hsCount (s : St) (t : Nat) : Nat := (s.log.filter (isHSof t)).length
/-- how often goroutine `t` was dropped without the handler -/
def dropCount (s : St) (t : Nat) : Nat := (s.log.filter (isDropOf t)).length
/-- how often the handler of goroutine `t` returned -/
def endCount (s : St) (t : Nat) : Nat := (s.log.filter (isEndOf t)).length

def isCounted : Event → Bool
  | .handlerStart .. | .dropped .. | .handlerEnd .. => true
  | _ => false

/-- what the three counts of a goroutine must be, given where it is -/
def countSpec : Option TaskPc → Nat → Nat → Nat → Prop
  | none, h, d, e => h = 0 ∧ d = 0 ∧ e = 0
  | some (.spawned _), h, d, e => h = 0 ∧ d = 0 ∧ e = 0
  | some (.inHandler _), h, d, e => h = 1 ∧ d = 0 ∧ e = 0
  | some .done, h, d, e => h + d = 1 ∧ e = h

def InvC (s : St) : Prop :=
  ∀ t : Nat, countSpec (s.tasks[t]?.map (·.pc)) (hsCount s t) (dropCount s t) (endCount s t)

theorem InvC_initWith (conns : List Nat) (nD : Nat) : InvC (initWith conns nD) := by
  intro t; simp [initWith, countSpec, hsCount, dropCount, endCount]

theorem filter_activeDone_log (s : St) (p : Event → Bool) (hp : p .doubleClose = false) :
    (activeDone s).log.filter p = s.log.filter p := by
  rcases activeDone_log s with h | h <;> rw [h]
  simp [hp]

theorem filter_uncounted {evs : List Event} (hn : ∀ e ∈ evs, isCounted e = false) (t : Nat) :
    evs.filter (isHSof t) = [] ∧ evs.filter (isDropOf t) = [] ∧ evs.filter (isEndOf t) = [] := by
  refine ⟨?_, ?_, ?_⟩ <;>
  · apply List.filter_eq_nil_iff.mpr
    intro e he
    have := hn e he
    cases e <;> simp [isCounted, isHSof, isDropOf, isEndOf] at this ⊢

theorem InvC_same {s s' : St} (h : InvC s) (ht : s'.tasks = s.tasks)
    (hl : ∃ evs, s'.log = s.log ++ evs ∧ ∀ e ∈ evs, isCounted e = false) : InvC s' := by
  obtain ⟨evs, hl, hn⟩ := hl
  intro t
  obtain ⟨h1, h2, h3⟩ := filter_uncounted hn t
  have := h t
  simp only [hsCount, dropCount, endCount, ht, hl, List.filter_append, h1, h2, h3, List.append_nil] at this ⊢
  exact this

/-- labels whose step changes the task list -/
def affectsTasks : Label → Bool
  | .serveRecv .. | .taskRun _ | .taskFinish _ => true
  | _ => false

theorem step_tasks_eq {H : Hash} {cfg : Cfg} {s s' : St} {l : Label} (hl : affectsTasks l = false)
    (hs : step H cfg s l = some s') : s'.tasks = s.tasks ∧ ∀ e, NewEv H cfg s l e → isCounted e = false := by
  cases l with
  | serveEnter i =>
    refine ⟨?_, by intro e he; simp only [NewEv] at he; subst he; rfl⟩
    obtain ⟨_, hh | hh | hh⟩ := step_serveEnter hs
    · obtain ⟨_, rfl⟩ := hh; rfl
    · obtain ⟨_, _, rfl⟩ := hh; rfl
    · obtain ⟨_, _, rfl⟩ := hh; rfl
  | serveCount i =>
    obtain ⟨_, rfl⟩ := step_serveCount hs
    exact ⟨rfl, by intro e he; simp only [NewEv] at he⟩
  | serveRecv i peer d => cases hl
  | serveReadErr i =>
    obtain ⟨_, _, _, rfl⟩ := step_serveReadErr hs
    exact ⟨by simp, by intro e he; simp only [NewEv] at he; rcases he with rfl | rfl <;> rfl⟩
  | serveReadFail i k =>
    refine ⟨?_, by intro e he; simp only [NewEv] at he; rcases he with rfl | rfl <;> rfl⟩
    obtain ⟨_, hh | hh | hh⟩ := step_serveReadFail hs
    · obtain ⟨_, rfl⟩ := hh; simp
    · obtain ⟨_, _, rfl⟩ := hh; simp
    · obtain ⟨_, _, rfl⟩ := hh; rfl
  | taskRun t => cases hl
  | taskFinish t => cases hl
  | taskReply t code attrs =>
    obtain ⟨i, key, p, w, _, _, _, rfl⟩ := step_taskReply hs
    exact ⟨rfl, by intro e he; simp only [NewEv] at he; obtain ⟨_, _, _, _, _, _, _, rfl⟩ := he; rfl⟩
  | downEnter j =>
    refine ⟨?_, by intro e he; simp only [NewEv] at he; rcases he with ⟨c, rfl⟩ | rfl <;> rfl⟩
    obtain ⟨c, _, hh | hh⟩ := step_downEnter hs
    · obtain ⟨_, rfl⟩ := hh; rfl
    · obtain ⟨_, rfl⟩ := hh; simp
  | downReturnNil j =>
    obtain ⟨c, _, _, rfl⟩ := step_downReturnNil hs
    exact ⟨rfl, by intro e he; simp only [NewEv] at he; subst he; rfl⟩
  | downReturnCtx j =>
    obtain ⟨_, rfl⟩ := step_downReturnCtx hs
    exact ⟨rfl, by intro e he; simp only [NewEv] at he; subst he; rfl⟩
  | ctxExpire j =>
    obtain ⟨pc, _, rfl⟩ := step_ctxExpire hs
    exact ⟨rfl, by intro e he; simp only [NewEv] at he⟩

theorem map_pc_set {tasks : List Task} {t t' : Nat} {b : Task} :
    (tasks.set t b)[t']?.map (·.pc) =
      if t = t' ∧ t < tasks.length then some b.pc else tasks[t']?.map (·.pc) := by
  rw [List.getElem?_set]
  by_cases h : t = t'
  · subst h
    by_cases h2 : t < tasks.length <;> simp [h2]
  · simp [h]

theorem InvC_spawn {H : Hash} {cfg : Cfg} {s : St} (i peer : Nat) (d : Bytes) (h : InvC s) :
    InvC (spawn H cfg s i peer d) := by
  rw [spawn_eq]
  intro t
  have := h t
  simp only [hsCount, dropCount, endCount, List.filter_append] at this ⊢
  have e1 : [Event.recv s.tasks.length i peer d].filter (isHSof t) = [] := by simp [isHSof]
  have e2 : [Event.recv s.tasks.length i peer d].filter (isDropOf t) = [] := by simp [isDropOf]
  have e3 : [Event.recv s.tasks.length i peer d].filter (isEndOf t) = [] := by simp [isEndOf]
  rw [e1, e2, e3]
  simp only [List.append_nil]
  by_cases hlt : t < s.tasks.length
  · rw [List.getElem?_append_left hlt]; exact this
  · have hnone : s.tasks[t]? = none := List.getElem?_eq_none (by omega)
    rw [hnone] at this
    simp only [Option.map_none, countSpec] at this
    by_cases heq : t = s.tasks.length
    · subst heq
      simp only [List.getElem?_concat_length, Option.map_some, countSpec]
      exact this
    · have hn2 : (s.tasks ++ [(⟨i, .spawned (classify H cfg peer d)⟩ : Task)])[t]? = none := by
        apply List.getElem?_eq_none
        simp only [List.length_append, List.length_cons, List.length_nil]
        omega
      rw [hn2]
      simp only [Option.map_none, countSpec]
      assumption

theorem InvC_step {H : Hash} {cfg : Cfg} {s s' : St} (l : Label) (h : InvC s)
    (hs : step H cfg s l = some s') : InvC s' := by
  by_cases hl : affectsTasks l = false
  · obtain ⟨ht, hn⟩ := step_tasks_eq hl hs
    obtain ⟨evs, he, hne⟩ := step_log hs
    exact InvC_same h ht ⟨evs, he, fun e hm => hn e (hne e hm)⟩
  · cases l with
    | serveRecv i peer d =>
      obtain ⟨_, _, rfl⟩ := step_serveRecv_spawn hs
      exact InvC_spawn i peer d h
    | taskRun t =>
      obtain ⟨i, fate, ht, hh | hh⟩ := step_taskRun hs
      · obtain ⟨key, p, rfl, hk, rfl⟩ := hh
        have htl := lt_of_getElem?_eq_some ht
        intro t'
        have := h t'
        simp only [hsCount, dropCount, endCount, List.filter_append, map_pc_set] at this ⊢
        have e2 : [Event.request t p (s.peerOf t) (s.connOf.getD i 0) .server, Event.handlerStart t key].filter
            (isDropOf t') = [] := by simp [isDropOf]
        have e3 : [Event.request t p (s.peerOf t) (s.connOf.getD i 0) .server, Event.handlerStart t key].filter
            (isEndOf t') = [] := by simp [isEndOf]
        rw [e2, e3]
        by_cases htt : t = t'
        · subst htt
          have e1 : [Event.request t p (s.peerOf t) (s.connOf.getD i 0) .server, Event.handlerStart t key].filter
              (isHSof t) = [Event.handlerStart t key] := by simp [isHSof]
          rw [e1]
          simp only [ht, Option.map_some, countSpec] at this
          simp only [htl, and_self, if_true, countSpec, List.length_append, List.length_cons, List.length_nil]
          omega
        · have e1 : [Event.request t p (s.peerOf t) (s.connOf.getD i 0) .server, Event.handlerStart t key].filter
              (isHSof t') = [] := by simp [isHSof, htt]
          rw [e1]
          simp only [htt, false_and, if_false, List.append_nil]
          exact this
      · obtain ⟨_, rfl⟩ := hh
        have htl := lt_of_getElem?_eq_some ht
        intro t'
        have := h t'
        simp only [hsCount, dropCount, endCount, activeDone_tasks, map_pc_set] at this ⊢
        rw [filter_activeDone_log _ _ rfl, filter_activeDone_log _ _ rfl, filter_activeDone_log _ _ rfl]
        simp only [List.filter_append]
        have e1 : [Event.dropped t].filter (isHSof t') = [] := by simp [isHSof]
        have e3 : [Event.dropped t].filter (isEndOf t') = [] := by simp [isEndOf]
        rw [e1, e3]
        by_cases htt : t = t'
        · subst htt
          have e2 : [Event.dropped t].filter (isDropOf t) = [Event.dropped t] := by simp [isDropOf]
          rw [e2]
          simp only [ht, Option.map_some, countSpec] at this
          simp only [htl, and_self, if_true, countSpec, List.length_append, List.length_cons, List.length_nil]
          omega
        · have e2 : [Event.dropped t].filter (isDropOf t') = [] := by simp [isDropOf, htt]
          rw [e2]
          simp only [htt, false_and, if_false, List.append_nil]
          exact this
    | taskFinish t =>
      obtain ⟨i, key, ht, rfl⟩ := step_taskFinish hs
      have htl := lt_of_getElem?_eq_some ht
      intro t'
      have := h t'
      simp only [hsCount, dropCount, endCount, activeDone_tasks, map_pc_set] at this ⊢
      rw [filter_activeDone_log _ _ rfl, filter_activeDone_log _ _ rfl, filter_activeDone_log _ _ rfl]
      simp only [List.filter_append]
      have e1 : [Event.handlerEnd t].filter (isHSof t') = [] := by simp [isHSof]
      have e2 : [Event.handlerEnd t].filter (isDropOf t') = [] := by simp [isDropOf]
      rw [e1, e2]
      by_cases htt : t = t'
      · subst htt
        have e3 : [Event.handlerEnd t].filter (isEndOf t) = [Event.handlerEnd t] := by simp [isEndOf]
        rw [e3]
        simp only [ht, Option.map_some, countSpec] at this
        simp only [htl, and_self, if_true, countSpec, List.length_append, List.length_cons, List.length_nil]
        omega
      · have e3 : [Event.handlerEnd t].filter (isEndOf t') = [] := by simp [isEndOf, htt]
        rw [e3]
        simp only [htt, false_and, if_false, List.append_nil]
        exact this
    | _ => exact absurd rfl hl

theorem InvC_run (H : Hash) (cfg : Cfg) (conns : List Nat) (nD : Nat) (ls : List Label) :
    InvC (run H cfg (initWith conns nD) ls) :=
  run_preserves H cfg InvC (fun _ l _ h hs => InvC_step l h hs) ls _ (InvC_initWith conns nD)

/-- 1 for a `serveRecv` label, 0 otherwise -/
def recvLabel : Label → Nat
  | .serveRecv .. => 1
  | _ => 0

/-- the number of enabled `serveRecv` steps a schedule takes from `s` -/
def recvSteps (H : Hash) (cfg : Cfg) : St → List Label → Nat
  | _, [] => 0
  | s, l :: ls =>
    match step H cfg s l with
    | some s' => recvLabel l + recvSteps H cfg s' ls
    | none => recvSteps H cfg s ls

theorem step_tasks_length {H : Hash} {cfg : Cfg} {s s' : St} {l : Label} (hs : step H cfg s l = some s') :
    s'.tasks.length = s.tasks.length + recvLabel l := by
  by_cases hl : affectsTasks l = false
  · rw [(step_tasks_eq hl hs).1]
    cases l <;> first | rfl | cases hl
  · cases l with
    | serveRecv i peer d => obtain ⟨_, _, rfl⟩ := step_serveRecv hs; simp [recvLabel]
    | taskRun t =>
      obtain ⟨i, fate, ht, hh | hh⟩ := step_taskRun hs
      · obtain ⟨key, p, rfl, hk, rfl⟩ := hh; simp [recvLabel]
      · obtain ⟨_, rfl⟩ := hh; simp [recvLabel]
    | taskFinish t => obtain ⟨i, key, ht, rfl⟩ := step_taskFinish hs; simp [recvLabel]
    | _ => exact absurd rfl hl

theorem tasks_length_run (H : Hash) (cfg : Cfg) :
    ∀ (ls : List Label) (s : St), (run H cfg s ls).tasks.length = s.tasks.length + recvSteps H cfg s ls := by
  intro ls
  induction ls with
  | nil => intro s; rfl
  | cons l ls ih =>
    intro s
    simp only [run, recvSteps]
    cases hs : step H cfg s l with
    | some s' => simp only []; rw [ih s', step_tasks_length hs]; omega
    | none => exact ih s


/-! ### C07: progress towards the drained state under EVERY schedule -/

/-- labels whose step brings the server closer to the drained state: a Serve call returns, a datagram
    goroutine runs its pipeline, a handler returns -/
def isDrainLabel : Label → Bool
  | .serveReadErr _ | .serveReadFail .. | .taskRun _ | .taskFinish _ => true
  | _ => false

@[simp] theorem spawnedTasks_serveLeave (s : St) (i : Nat) (r : ServeRes) :
    spawnedTasks (serveLeave s i r) = spawnedTasks s := by simp [spawnedTasks]

theorem drainMeasure_serveLeave {s : St} {i : Nat} (r : ServeRes) (hrun : s.serves[i]? = some .running) :
    drainMeasure (serveLeave s i r) + 1 = drainMeasure s := by
  have := countedServes_serveLeave r hrun
  simp only [drainMeasure, liveTasks_serveLeave, spawnedTasks_serveLeave]
  omega

/-- Once Shutdown has been requested, in a state satisfying the invariant of the repaired server NO
    step increases the drain measure, shutdown stays requested, the steps with a drain label strictly
    decrease it and all others leave it unchanged (`serveRecv` is not enabled at all: the conn of a
    running Serve call has been closed). -/
theorem step_drain_le {H : Hash} {cfg : Cfg} {s s' : St} {l : Label} (h : InvF s) (hsd : s.sd = true)
    (hs : step H cfg s l = some s') :
    s'.sd = true ∧ drainMeasure s' ≤ drainMeasure s ∧
      (isDrainLabel l = true → drainMeasure s' < drainMeasure s) ∧
      (isDrainLabel l = false → drainMeasure s' = drainMeasure s) := by
  cases l with
  | serveEnter i =>
    obtain ⟨hns, hh | hh | hh⟩ := step_serveEnter hs
    · obtain ⟨_, rfl⟩ := hh
      have hc := counted_set (.returned .errShutdown) hns
      simp at hc
      have hm : drainMeasure { s with serves := s.serves.set i (.returned .errShutdown), log := s.log ++ [.serveReturned i] } = drainMeasure s := by
        simp only [drainMeasure, countedServes, liveTasks, spawnedTasks] at hc ⊢
        omega
      exact ⟨hsd, by omega, (by intro hx; cases hx), fun _ => hm⟩
    · rw [hh.1] at hsd; cases hsd
    · rw [hh.1] at hsd; cases hsd
  | serveCount i =>
    obtain ⟨hr, _⟩ := step_serveCount hs
    exact absurd hr (h.noReg i)
  | serveRecv i peer d =>
    obtain ⟨hrun, hcl, _⟩ := step_serveRecv hs
    have hlp : s.listeners.getD (s.connOf.getD i 0) 0 > 0 := by
      rw [h.cnt]; exact runOnL_pos hrun
    have := (h.sdc hsd).2 _ hlp
    omega
  | serveReadErr i =>
    obtain ⟨hrun, _, _, rfl⟩ := step_serveReadErr hs
    have := drainMeasure_serveLeave .errShutdown hrun
    exact ⟨by simpa using hsd, by omega, fun _ => by omega, by intro hx; cases hx⟩
  | serveReadFail i k =>
    obtain ⟨hrun, hh | hh | hh⟩ := step_serveReadFail hs
    · obtain ⟨_, rfl⟩ := hh
      have := drainMeasure_serveLeave .errShutdown hrun
      exact ⟨by simpa using hsd, by omega, fun _ => by omega, by intro hx; cases hx⟩
    · rw [hh.1] at hsd; cases hsd
    · rw [hh.1] at hsd; cases hsd
  | taskRun t =>
    obtain ⟨i, fate, ht, hh | hh⟩ := step_taskRun hs
    · obtain ⟨key, p, rfl, hk, rfl⟩ := hh
      have hc := live_set ⟨i, .inHandler key⟩ ht
      have hc2 := spawned_set ⟨i, .inHandler key⟩ ht
      simp at hc hc2
      have hm : drainMeasure { s with tasks := s.tasks.set t ⟨i, .inHandler key⟩, inflight := s.inflight.set i (key :: s.inflight.getD i []), log := s.log ++ [.request t p (s.peerOf t) (s.connOf.getD i 0) .server, .handlerStart t key] } + 1 = drainMeasure s := by
        simp only [drainMeasure, countedServes, liveTasks, spawnedTasks] at *
        omega
      exact ⟨hsd, by omega, fun _ => by omega, by intro hx; cases hx⟩
    · obtain ⟨_, rfl⟩ := hh
      have hc := live_set ⟨i, .done⟩ ht
      have hc2 := spawned_set ⟨i, .done⟩ ht
      simp at hc hc2
      have hm : drainMeasure (activeDone { s with tasks := s.tasks.set t ⟨i, .done⟩, log := s.log ++ [.dropped t] }) + 2 = drainMeasure s := by
        simp only [drainMeasure, countedServes_activeDone, liveTasks_activeDone, spawnedTasks_activeDone]
        simp only [countedServes, liveTasks, spawnedTasks] at *
        omega
      exact ⟨by simpa using hsd, by omega, fun _ => by omega, by intro hx; cases hx⟩
  | taskFinish t =>
    obtain ⟨i, key, ht, rfl⟩ := step_taskFinish hs
    have hc := live_set ⟨i, .done⟩ ht
    have hc2 := spawned_set ⟨i, .done⟩ ht
    simp at hc hc2
    have hm : drainMeasure (activeDone { s with tasks := s.tasks.set t ⟨i, .done⟩, inflight := s.inflight.set i ((s.inflight.getD i []).erase key), log := s.log ++ [.handlerEnd t] }) + 1 = drainMeasure s := by
      simp only [drainMeasure, countedServes_activeDone, liveTasks_activeDone, spawnedTasks_activeDone]
      simp only [countedServes, liveTasks, spawnedTasks] at *
      omega
    exact ⟨by simpa using hsd, by omega, fun _ => by omega, by intro hx; cases hx⟩
  | taskReply t code attrs =>
    obtain ⟨i, key, p, w, _, _, _, rfl⟩ := step_taskReply hs
    exact ⟨hsd, Nat.le_refl _, (by intro hx; cases hx), fun _ => rfl⟩
  | downEnter j =>
    obtain ⟨c, _, hh | hh⟩ := step_downEnter hs
    · obtain ⟨_, rfl⟩ := hh
      exact ⟨hsd, Nat.le_refl _, (by intro hx; cases hx), fun _ => rfl⟩
    · rw [hh.1] at hsd; cases hsd
  | downReturnNil j =>
    obtain ⟨c, _, _, rfl⟩ := step_downReturnNil hs
    exact ⟨hsd, Nat.le_refl _, (by intro hx; cases hx), fun _ => rfl⟩
  | downReturnCtx j =>
    obtain ⟨_, rfl⟩ := step_downReturnCtx hs
    exact ⟨hsd, Nat.le_refl _, (by intro hx; cases hx), fun _ => rfl⟩
  | ctxExpire j =>
    obtain ⟨pc, _, rfl⟩ := step_ctxExpire hs
    exact ⟨hsd, Nat.le_refl _, (by intro hx; cases hx), fun _ => rfl⟩

/-- while the server is not drained, a step with a drain label is enabled -/
theorem drain_label_enabled {H : Hash} {cfg : Cfg} {s : St} (h : InvF s) (hsd : s.sd = true)
    (hm : countedServes s + liveTasks s ≠ 0) :
    ∃ l s', isDrainLabel l = true ∧ step H cfg s l = some s' ∧ s'.sd = true ∧ drainMeasure s' < drainMeasure s := by
  obtain ⟨l, s', hs, hsd', hlt⟩ := drain_progress (H := H) (cfg := cfg) h hsd hm
  refine ⟨l, s', ?_, hs, hsd', hlt⟩
  cases hd : isDrainLabel l with
  | true => rfl
  | false =>
    have := (step_drain_le h hsd hs).2.2.2 hd
    omega

theorem isDrain_of_own {l : Label} (h : isOwnDrainLabel l = true) : isDrainLabel l = true := by
  cases l <;> first | rfl | cases h

/-- while the server is not drained, one of the server's OWN drain steps is enabled -/
theorem own_drain_label_enabled {H : Hash} {cfg : Cfg} {s : St} (h : InvF s) (hsd : s.sd = true)
    (hm : countedServes s + liveTasks s ≠ 0) :
    ∃ l s', isOwnDrainLabel l = true ∧ step H cfg s l = some s' ∧ s'.sd = true ∧ drainMeasure s' < drainMeasure s :=
  drain_progress_own (H := H) (cfg := cfg) h hsd hm

/-- the number of enabled steps with one of the server's own drain labels that a schedule takes from `s` -/
def ownDrainSteps (H : Hash) (cfg : Cfg) : St → List Label → Nat
  | _, [] => 0
  | s, l :: ls =>
    match step H cfg s l with
    | some s' => (if isOwnDrainLabel l then 1 else 0) + ownDrainSteps H cfg s' ls
    | none => ownDrainSteps H cfg s ls

/-- the number of enabled steps with a drain label that a schedule takes from `s` -/
def drainSteps (H : Hash) (cfg : Cfg) : St → List Label → Nat
  | _, [] => 0
  | s, l :: ls =>
    match step H cfg s l with
    | some s' => (if isDrainLabel l then 1 else 0) + drainSteps H cfg s' ls
    | none => drainSteps H cfg s ls

/-- under EVERY schedule: shutdown stays requested, the measure never grows, and every drain step
    the schedule takes is paid for by the measure -/
theorem drain_bound (H : Hash) (cfg : Cfg) (hv : cfg.variant = .fixed) :
    ∀ (ls : List Label) (s : St), InvF s → s.sd = true →
      (run H cfg s ls).sd = true ∧ drainSteps H cfg s ls + drainMeasure (run H cfg s ls) ≤ drainMeasure s := by
  intro ls
  induction ls with
  | nil => intro s _ hsd; exact ⟨hsd, by simp [drainSteps, run]⟩
  | cons l ls ih =>
    intro s h hsd
    simp only [run, drainSteps]
    cases hs : step H cfg s l with
    | none => exact ih s h hsd
    | some s' =>
      simp only []
      obtain ⟨hsd', hle, hlt, _⟩ := step_drain_le h hsd hs
      obtain ⟨h1, h2⟩ := ih s' (InvF_step hv l h hs) hsd'
      refine ⟨h1, ?_⟩
      cases hd : isDrainLabel l with
      | true => have := hlt hd; simp only [if_true]; omega
      | false => simp only [Bool.false_eq_true, if_false]; omega

theorem ownDrainSteps_le (H : Hash) (cfg : Cfg) :
    ∀ (ls : List Label) (s : St), ownDrainSteps H cfg s ls ≤ drainSteps H cfg s ls := by
  intro ls
  induction ls with
  | nil => intro s; simp [ownDrainSteps, drainSteps]
  | cons l ls ih =>
    intro s
    simp only [ownDrainSteps, drainSteps]
    cases hs : step H cfg s l with
    | none => exact ih s
    | some s' =>
      simp only []
      have := ih s'
      cases ho : isOwnDrainLabel l with
      | true => rw [isDrain_of_own ho]; simp only [if_true]; omega
      | false => simp only [Bool.false_eq_true, if_false]; omega

theorem Drained_counts {s : St} (h : Drained s) : countedServes s = 0 ∧ liveTasks s = 0 := by
  constructor
  · simp only [countedServes, List.length_eq_zero_iff, List.filter_eq_nil_iff]
    intro pc hpc
    have := h.serves pc hpc
    cases pc <;> simp [terminalS] at this ⊢
  · simp only [liveTasks, List.length_eq_zero_iff, List.filter_eq_nil_iff]
    intro t ht
    simp [h.tasks t ht]

/-! ### C07: Shutdown calls only move forward -/

def downRank : DownPc → Nat
  | .notStarted => 0
  | .waiting => 1
  | .returned _ => 2

theorem rank_set {downs : List Down} {j : Nat} {d0 d1 : Down} (h0 : downs[j]? = some d0)
    (hr : downRank d0.pc ≤ downRank d1.pc) :
    ∀ (j' : Nat) (d : Down), downs[j']? = some d →
      ∃ d', (downs.set j d1)[j']? = some d' ∧ downRank d.pc ≤ downRank d'.pc := by
  intro j' d hd
  rw [List.getElem?_set]
  by_cases hjj : j = j'
  · subst hjj
    rw [h0] at hd; cases hd
    simp only [if_true, lt_of_getElem?_eq_some h0]
    exact ⟨d1, rfl, hr⟩
  · simp only [hjj, if_false]
    exact ⟨d, hd, Nat.le_refl _⟩

/-- a Shutdown call never moves backwards: not started → waiting → returned -/
theorem step_down_rank {H : Hash} {cfg : Cfg} {s s' : St} {l : Label} (hs : step H cfg s l = some s') :
    ∀ (j : Nat) (d : Down), s.downs[j]? = some d →
      ∃ d', s'.downs[j]? = some d' ∧ downRank d.pc ≤ downRank d'.pc := by
  have same : s'.downs = s.downs → ∀ (j : Nat) (d : Down), s.downs[j]? = some d →
      ∃ d', s'.downs[j]? = some d' ∧ downRank d.pc ≤ downRank d'.pc := by
    intro he j d hd; rw [he]; exact ⟨d, hd, Nat.le_refl _⟩
  cases l with
  | serveEnter i =>
    obtain ⟨_, hh | hh | hh⟩ := step_serveEnter hs
    · obtain ⟨_, rfl⟩ := hh; exact same rfl
    · obtain ⟨_, _, rfl⟩ := hh; exact same rfl
    · obtain ⟨_, _, rfl⟩ := hh; exact same rfl
  | serveCount i => obtain ⟨_, rfl⟩ := step_serveCount hs; exact same rfl
  | serveRecv i peer d => obtain ⟨_, _, rfl⟩ := step_serveRecv hs; exact same rfl
  | serveReadErr i => obtain ⟨_, _, _, rfl⟩ := step_serveReadErr hs; exact same (by simp)
  | serveReadFail i k =>
    obtain ⟨_, hh | hh | hh⟩ := step_serveReadFail hs
    · obtain ⟨_, rfl⟩ := hh; exact same (by simp)
    · obtain ⟨_, _, rfl⟩ := hh; exact same (by simp)
    · obtain ⟨_, _, rfl⟩ := hh; exact same rfl
  | taskRun t =>
    obtain ⟨i, fate, ht, hh | hh⟩ := step_taskRun hs
    · obtain ⟨key, p, rfl, hk, rfl⟩ := hh; exact same rfl
    · obtain ⟨_, rfl⟩ := hh; exact same (by simp)
  | taskFinish t => obtain ⟨i, key, ht, rfl⟩ := step_taskFinish hs; exact same (by simp)
  | taskReply t code attrs => obtain ⟨i, key, p, w, _, _, _, rfl⟩ := step_taskReply hs; exact same rfl
  | downEnter j =>
    obtain ⟨c, hj, hh | hh⟩ := step_downEnter hs
    · obtain ⟨_, rfl⟩ := hh
      exact rank_set hj (by simp [downRank])
    · obtain ⟨_, rfl⟩ := hh
      simp only [activeDone_downs]
      exact rank_set hj (by simp [downRank])
  | downReturnNil j =>
    obtain ⟨c, hj, _, rfl⟩ := step_downReturnNil hs
    exact rank_set hj (by simp [downRank])
  | downReturnCtx j =>
    obtain ⟨hj, rfl⟩ := step_downReturnCtx hs
    exact rank_set hj (by simp [downRank])
  | ctxExpire j =>
    obtain ⟨pc, hj, rfl⟩ := step_ctxExpire hs
    exact rank_set hj (Nat.le_refl _)

theorem run_down_rank (H : Hash) (cfg : Cfg) :
    ∀ (ls : List Label) (s : St) (j : Nat) (d : Down), s.downs[j]? = some d →
      ∃ d', (run H cfg s ls).downs[j]? = some d' ∧ downRank d.pc ≤ downRank d'.pc := by
  intro ls
  induction ls with
  | nil => intro s j d hd; exact ⟨d, hd, Nat.le_refl _⟩
  | cons l ls ih =>
    intro s j d hd
    simp only [run]
    cases hs : step H cfg s l with
    | none => exact ih s j d hd
    | some s' =>
      obtain ⟨d1, h1, r1⟩ := step_down_rank hs j d hd
      obtain ⟨d2, h2, r2⟩ := ih s' j d1 h1
      exact ⟨d2, h2, by omega⟩


/-! ### which step a traced event comes from; the conns never change -/

theorem newEv_recv {H : Hash} {cfg : Cfg} {s : St} {l : Label} {t i peer : Nat} {d : Bytes}
    (h : NewEv H cfg s l (.recv t i peer d)) :
    l = .serveRecv i peer d ∧ t = s.tasks.length := by
  cases l <;> simp only [NewEv] at h
  case serveRecv i' peer' d' => cases h; exact ⟨rfl, rfl⟩
  case serveEnter => cases h
  case serveReadErr => rcases h with h | h <;> cases h
  case serveReadFail => rcases h with h | h <;> cases h
  case taskRun => rcases h with h | h | ⟨_, _, _, _, _, h | h⟩ <;> cases h
  case taskFinish => rcases h with h | h <;> cases h
  case taskReply => obtain ⟨_, _, _, _, _, _, _, h⟩ := h; cases h
  case downEnter => rcases h with ⟨_, h⟩ | h <;> cases h
  case downReturnNil => cases h
  case downReturnCtx => cases h

theorem newEv_handlerStart {H : Hash} {cfg : Cfg} {s : St} {l : Label} {t : Nat} {key : Key}
    (h : NewEv H cfg s l (.handlerStart t key)) :
    l = .taskRun t ∧ ∃ i p, s.tasks[t]? = some (⟨i, .spawned (.handle key p)⟩ : Task) ∧ key ∉ s.inflight.getD i [] := by
  cases l <;> simp only [NewEv] at h
  case taskRun t' =>
    rcases h with h | h | ⟨i, k, p, h1, h2, h | h⟩
    · cases h
    · cases h
    · cases h
    · cases h; exact ⟨rfl, i, p, h1, h2⟩
  case serveRecv => cases h
  case serveEnter => cases h
  case serveReadErr => rcases h with h | h <;> cases h
  case serveReadFail => rcases h with h | h <;> cases h
  case taskFinish => rcases h with h | h <;> cases h
  case taskReply => obtain ⟨_, _, _, _, _, _, _, h⟩ := h; cases h
  case downEnter => rcases h with ⟨_, h⟩ | h <;> cases h
  case downReturnNil => cases h
  case downReturnCtx => cases h

theorem newEv_reply {H : Hash} {cfg : Cfg} {s : St} {l : Label} {t conn addr : Nat} {w : Bytes}
    (h : NewEv H cfg s l (.reply t conn addr w)) :
    ∃ code attrs, l = .taskReply t code attrs ∧ ∃ i key p, s.tasks[t]? = some (⟨i, .inHandler key⟩ : Task) ∧
      conn = s.connOf.getD i 0 ∧ addr = s.peerOf t ∧ s.packetOf H cfg t = some p ∧
      encode H { response p code with attrs := attrs } = .ok w := by
  cases l <;> simp only [NewEv] at h
  case taskReply t' code attrs =>
    obtain ⟨i, key, p, w', h1, hp, hw, h2⟩ := h
    cases h2; exact ⟨code, attrs, rfl, i, key, p, h1, rfl, rfl, hp, hw⟩
  case taskRun => rcases h with h | h | ⟨_, _, _, _, _, h | h⟩ <;> cases h
  case serveRecv => cases h
  case serveEnter => cases h
  case serveReadErr => rcases h with h | h <;> cases h
  case serveReadFail => rcases h with h | h <;> cases h
  case taskFinish => rcases h with h | h <;> cases h
  case downEnter => rcases h with ⟨_, h⟩ | h <;> cases h
  case downReturnNil => cases h
  case downReturnCtx => cases h

theorem step_connOf {H : Hash} {cfg : Cfg} {s s' : St} {l : Label} (hs : step H cfg s l = some s') :
    s'.connOf = s.connOf := by
  cases l with
  | serveEnter i =>
    obtain ⟨_, hh | hh | hh⟩ := step_serveEnter hs
    · obtain ⟨_, rfl⟩ := hh; rfl
    · obtain ⟨_, _, rfl⟩ := hh; rfl
    · obtain ⟨_, _, rfl⟩ := hh; rfl
  | serveCount i => obtain ⟨_, rfl⟩ := step_serveCount hs; rfl
  | serveRecv i peer d => obtain ⟨_, _, rfl⟩ := step_serveRecv hs; rfl
  | serveReadErr i => obtain ⟨_, _, _, rfl⟩ := step_serveReadErr hs; simp
  | serveReadFail i k =>
    obtain ⟨_, hh | hh | hh⟩ := step_serveReadFail hs
    · obtain ⟨_, rfl⟩ := hh; simp
    · obtain ⟨_, _, rfl⟩ := hh; simp
    · obtain ⟨_, _, rfl⟩ := hh; rfl
  | taskRun t =>
    obtain ⟨i, fate, ht, hh | hh⟩ := step_taskRun hs
    · obtain ⟨key, p, rfl, hk, rfl⟩ := hh; rfl
    · obtain ⟨_, rfl⟩ := hh; simp
  | taskFinish t => obtain ⟨i, key, ht, rfl⟩ := step_taskFinish hs; simp
  | taskReply t code attrs => obtain ⟨i, key, p, w, _, _, _, rfl⟩ := step_taskReply hs; rfl
  | downEnter j =>
    obtain ⟨c, hj, hh | hh⟩ := step_downEnter hs
    · obtain ⟨_, rfl⟩ := hh; rfl
    · obtain ⟨_, rfl⟩ := hh; simp
  | downReturnNil j => obtain ⟨c, hj, _, rfl⟩ := step_downReturnNil hs; rfl
  | downReturnCtx j => obtain ⟨hj, rfl⟩ := step_downReturnCtx hs; rfl
  | ctxExpire j => obtain ⟨pc, hj, rfl⟩ := step_ctxExpire hs; rfl

theorem connOf_run (H : Hash) (cfg : Cfg) (conns : List Nat) (nD : Nat) (ls : List Label) :
    (run H cfg (initWith conns nD) ls).connOf = conns :=
  run_preserves H cfg (fun s => s.connOf = conns) (fun _ _ _ h hs => (step_connOf hs).trans h) ls _ rfl

/-- the `recv` events of the log are exactly the origins, position by position -/
theorem recv_mem_iff {H : Hash} {cfg : Cfg} {s : St} (h : InvO H cfg s) (t i peer : Nat) (d : Bytes) :
    Event.recv t i peer d ∈ s.log ↔ s.origin[t]? = some ⟨i, peer, d⟩ := by
  have e : Event.recv t i peer d ∈ s.log ↔ Event.recv t i peer d ∈ s.log.filter isRecv := by
    rw [List.mem_filter]; simp [isRecv]
  rw [e, h.recvs, List.mem_mapIdx]
  constructor
  · rintro ⟨t', ht', he⟩
    simp only [recvOf, Event.recv.injEq] at he
    obtain ⟨rfl, h1, h2, h3⟩ := he
    rw [List.getElem?_eq_getElem ht']
    congr 1
    cases hh : s.origin[t'] with
    | mk a b c => rw [hh] at h1 h2 h3; simp only at h1 h2 h3; subst h1; subst h2; subst h3; rfl
  · intro ho
    have hl := lt_of_getElem?_eq_some ho
    refine ⟨t, hl, ?_⟩
    have := List.getElem?_eq_getElem hl
    rw [ho] at this
    have e2 : s.origin[t] = ⟨i, peer, d⟩ := (Option.some.inj this).symm
    rw [e2]; rfl

theorem two_le_length_of_mem_ne {α} {l : List α} {a b : α} (ha : a ∈ l) (hb : b ∈ l) (hne : a ≠ b) :
    2 ≤ l.length := by
  induction l with
  | nil => cases ha
  | cons x xs ih =>
    rcases List.mem_cons.mp ha with rfl | ha' <;> rcases List.mem_cons.mp hb with rfl | hb'
    · exact absurd rfl hne
    · have := List.length_pos_of_mem hb'; simp only [List.length_cons]; omega
    · have := List.length_pos_of_mem ha'; simp only [List.length_cons]; omega
    · have := ih ha' hb'; simp only [List.length_cons]; omega

theorem hsCount_pos {s : St} {t : Nat} {key : Key} (h : Event.handlerStart t key ∈ s.log) : 1 ≤ hsCount s t :=
  List.length_pos_of_mem (List.mem_filter.mpr ⟨h, by simp [isHSof]⟩)

theorem InvC_hsCount_le {s : St} (h : InvC s) (t : Nat) : hsCount s t ≤ 1 := by
  have := h t
  cases hh : s.tasks[t]?.map (·.pc) with
  | none => rw [hh] at this; simp only [countSpec] at this; omega
  | some pc =>
    rw [hh] at this
    cases pc <;> simp only [countSpec] at this <;> omega

theorem hs_key_unique {s : St} (h : InvC s) {t : Nat} {k k' : Key} (h1 : Event.handlerStart t k ∈ s.log)
    (h2 : Event.handlerStart t k' ∈ s.log) : k = k' := by
  by_cases hk : k = k'
  · exact hk
  · have m1 : Event.handlerStart t k ∈ s.log.filter (isHSof t) := List.mem_filter.mpr ⟨h1, by simp [isHSof]⟩
    have m2 : Event.handlerStart t k' ∈ s.log.filter (isHSof t) := List.mem_filter.mpr ⟨h2, by simp [isHSof]⟩
    have := two_le_length_of_mem_ne m1 m2 (by intro he; cases he; exact hk rfl)
    have := InvC_hsCount_le h t
    simp only [hsCount] at this
    omega

/-- What a `reply` event says, in any state satisfying the origin invariant: destination = source of the
    datagram that spawned the goroutine, socket = conn of the Serve call that read it, and the octets are
    the encoding of a Response (code and attributes of the handler's choice) of the packet that datagram
    parses to under the secret the secret source gave for that peer — hence, for a reply code, a datagram
    whose Response Authenticator is valid for the request datagram under that secret (C03). -/
theorem reply_answers_of_InvO {H : Hash} (hH : ∀ x, (H x).length = 16) {cfg : Cfg} {s : St} (hO : InvO H cfg s)
    {t conn addr : Nat} {w : Bytes} (h : Event.reply t conn addr w ∈ s.log) :
    ∃ (i peer : Nat) (d : Bytes) (key : Key) (p : Packet) (sec : Bytes) (code : Int) (attrs : Attrs),
      Event.recv t i peer d ∈ s.log ∧ s.origin[t]? = some ⟨i, peer, d⟩ ∧
      addr = peer ∧ conn = s.connOf.getD i 0 ∧
      Event.request t p peer (s.connOf.getD i 0) .server ∈ s.log ∧ Event.handlerStart t key ∈ s.log ∧
      classify H cfg peer d = .handle key p ∧
      cfg.secretOf peer = .secret sec ∧ sec ≠ [] ∧ parse d sec = .ok p ∧ p.secret = sec ∧
      encode H { response p code with attrs := attrs } = .ok w ∧
      (Rfc.encClass code = .hashReqAuth → isAuthenticResponse H w d sec = true) := by
  obtain ⟨⟨i, peer, d⟩, key, ho, ha, hc, hhs, p, code, attrs, hcl, henc⟩ := hO.rep t conn addr w h
  simp only at ha hc hcl
  obtain ⟨o', p', ho', hcl', hreq⟩ := hO.hs t key hhs
  rw [ho] at ho'; cases ho'
  simp only at hcl' hreq
  rw [hcl] at hcl'; cases hcl'
  obtain ⟨sec, hs, hne, _, hp, _⟩ := (classify_handle_iff' H cfg peer d key p).mp hcl
  have hps := (parse_secret hp).1
  refine ⟨i, peer, d, key, p, sec, code, attrs, (recv_mem_iff hO t i peer d).mpr ho, ho, ha, hc, hreq, hhs, hcl,
    hs, hne, hp, hps, henc, ?_⟩
  intro hcode
  rw [← hps]
  exact reply_authentic' H hH cfg peer d key p code attrs w hcl hcode henc

/-- a second datagram for the non-vacuity examples of C06: peer 5 -/
theorem classify_example5 :
    classify (fun _ => zeros 16) { secretOf := fun _ => .secret [1] } 5 ([1, 7, 0, 20] ++ zeros 16)
      = .handle (5, 7) ⟨1, 7, zeros 16, [1], []⟩ := by
  simp [classify, isAuthenticRequest, requestClass, parse, lengthField, be16, zeros, parseAttrs,
    maxPacketLength]

end RV.Server
