/- Helper lemmas about RV.Model.Server used by RV.Props.C06 and RV.Props.C07. -/
import RV.Model.Server
import RV.Props.C03
namespace RV
end RV
