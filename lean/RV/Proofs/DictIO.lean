/-
  Proofs for C15 about the layer RV.Model.DictParserIO (read and close failures of files).
    * `parseFileIO_refines`: without failure flags the layer IS `parseFile` of RV.Model.DictParser;
    * `parseFileIO_opensClosed`: every opened file is closed, whatever fails;
    * `parseFileIO_explained`: what each failure says about the file system (file, 1-based line,
      which file's reader or `Close` failed, and that everything before it went through).
-/
import RV.Model.DictParserIO
import RV.Proofs.DictWalk

namespace RV.DictParser
open RV RV.Dict RV.C15

/-! ## One line -/

/-- how the result of the include handler continues the line loop -/
def StepIO.ofResult (vb : Option Bytes) : ResultIO → StepIO
  | (none, st') => .next vb st'
  | (some e, st') => .fail e st'

/-- a step of RV.Model.DictParser as a step of this layer -/
def Step.lift : Step → StepIO
  | .next vb st => .next vb st
  | .fail e st => .fail (.base e) st

/-- a handler of RV.Model.DictParser as a handler of this layer -/
def IncludeHandler.lift (h : IncludeHandler) : IncludeHandlerIO := fun n f l st => (h n f l st).lift

theorem stepLineIO_of_local (cfg : Cfg) (ign : Bool) (h : IncludeHandlerIO) (file : Bytes) (lineNo : Nat)
    (vb : Option Bytes) (st : St) (raw : Bytes) (hT : includeTarget vb raw = none) :
    stepLineIO cfg ign h file lineNo vb st raw = (localStep cfg ign file lineNo vb st raw).lift := by
  unfold stepLineIO
  rw [stepLine_local cfg ign askInclude file lineNo vb st raw hT]
  rcases localStep_cases cfg ign file lineNo vb st raw with ⟨vb', st', hs, _⟩ | ⟨c, hs⟩
  · rw [hs]; rfl
  · rw [hs]; rfl

theorem stepLineIO_of_target (cfg : Cfg) (ign : Bool) (h : IncludeHandlerIO) (file : Bytes) (lineNo : Nat)
    (vb : Option Bytes) (st : St) (raw n : Bytes) (hT : includeTarget vb raw = some n) :
    stepLineIO cfg ign h file lineNo vb st raw = StepIO.ofResult none (h n file lineNo st) := by
  unfold stepLineIO
  rw [stepLine_target cfg ign askInclude file lineNo vb st raw n hT]
  obtain ⟨rfl, _⟩ := includeTarget_some hT
  simp only [askInclude, Step.ofResult]
  rcases h n file lineNo st with ⟨_ | e, st'⟩ <;> rfl

/-- FAITHFULNESS of the reuse: with a handler of RV.Model.DictParser the step of this layer is the
    step of RV.Model.DictParser -/
theorem stepLineIO_lift (cfg : Cfg) (ign : Bool) (h : IncludeHandler) (file : Bytes) (lineNo : Nat)
    (vb : Option Bytes) (st : St) (raw : Bytes) :
    stepLineIO cfg ign h.lift file lineNo vb st raw = (stepLine cfg ign h file lineNo vb st raw).lift := by
  rcases opt_cases (includeTarget vb raw) with hT | ⟨n, hT⟩
  · rw [stepLineIO_of_local _ _ _ _ _ _ _ _ hT, stepLine_local cfg ign h file lineNo vb st raw hT]
  · rw [stepLineIO_of_target _ _ _ _ _ _ _ _ n hT, stepLine_target cfg ign h file lineNo vb st raw n hT]
    simp only [IncludeHandler.lift]
    rcases h n file lineNo st with ⟨_ | e, st'⟩ <;> rfl

/-- what a line can do: change the dictionary only, be refused where it stands, or be a `$INCLUDE n`
    outside a vendor block and do what the handler does -/
theorem stepLineIO_cases (cfg : Cfg) (ign : Bool) (h : IncludeHandlerIO) (file : Bytes) (lineNo : Nat)
    (vb : Option Bytes) (st : St) (raw : Bytes) :
    (∃ vb' st', stepLineIO cfg ign h file lineNo vb st raw = .next vb' st' ∧ st'.log = st.log) ∨
    (∃ c, stepLineIO cfg ign h file lineNo vb st raw = .fail (.base (.decl c file lineNo)) st) ∨
    (∃ n, Lex.fields (Lex.stripComment raw) = [kwINCLUDE, n] ∧ vb = none ∧
      stepLineIO cfg ign h file lineNo vb st raw = StepIO.ofResult none (h n file lineNo st)) := by
  rcases opt_cases (includeTarget vb raw) with hT | ⟨n, hT⟩
  · rw [stepLineIO_of_local _ _ _ _ _ _ _ _ hT]
    rcases localStep_cases cfg ign file lineNo vb st raw with ⟨vb', st', hs, hl⟩ | ⟨c, hs⟩
    · exact Or.inl ⟨vb', st', by rw [hs]; rfl, hl⟩
    · exact Or.inr (Or.inl ⟨c, by rw [hs]; rfl⟩)
  · obtain ⟨hvb, hf⟩ := includeTarget_some hT
    exact Or.inr (Or.inr ⟨n, hf, hvb, stepLineIO_of_target _ _ _ _ _ _ _ _ n hT⟩)

/-! ## The line loop: logs -/

/-- the part of the log a run adds is balanced -/
def AddsBalancedIO (st : St) (r : ResultIO) : Prop := ∃ w, r.2.log = st.log ++ w ∧ OpensClosed w

theorem AddsBalancedIO_refl (st : St) (e : Option FailureIO) : AddsBalancedIO st (e, st) :=
  ⟨[], by simp, OpensClosed_nil⟩

theorem parseLinesIO_log (cfg : Cfg) (ign : Bool) (h : IncludeHandlerIO) (file : Bytes) (tooLong rf : Bool)
    (hh : ∀ n f l st, AddsBalancedIO st (h n f l st))
    (lines : List Bytes) (lineNo : Nat) (vb : Option Bytes) (st : St) :
    AddsBalancedIO st (parseLinesIO cfg ign h file tooLong rf lines lineNo vb st) := by
  induction lines generalizing lineNo vb st with
  | nil =>
    simp only [parseLinesIO]
    split
    · exact AddsBalancedIO_refl ..
    · split
      · exact AddsBalancedIO_refl ..
      · split <;> exact AddsBalancedIO_refl ..
  | cons raw ls ih =>
    simp only [parseLinesIO]
    rcases stepLineIO_cases cfg ign h file lineNo vb st raw with
      ⟨vb', st', hs, hl⟩ | ⟨c, hs⟩ | ⟨n, _, _, hs⟩
    · rw [hs]
      obtain ⟨w, hw, hoc⟩ := ih (lineNo + 1) vb' st'
      exact ⟨w, by rw [hw, hl], hoc⟩
    · rw [hs]; exact AddsBalancedIO_refl ..
    · rw [hs]
      obtain ⟨w1, hw1, hoc1⟩ := hh n file lineNo st
      rcases hr : h n file lineNo st with ⟨_ | e, st1⟩
      · simp only [StepIO.ofResult]
        rw [hr] at hw1
        obtain ⟨w2, hw2, hoc2⟩ := ih (lineNo + 1) none st1
        exact ⟨w1 ++ w2, by rw [hw2, hw1, List.append_assoc], OpensClosed_append hoc1 hoc2⟩
      · simp only [StepIO.ofResult]
        rw [hr] at hw1
        exact ⟨w1, hw1, hoc1⟩

theorem parseBodyIO_log (cfg : Cfg) (ign : Bool) (h : IncludeHandlerIO) (file text : Bytes) (rf : Bool) (st : St)
    (hh : ∀ n f l st, AddsBalancedIO st (h n f l st)) :
    AddsBalancedIO st (parseBodyIO cfg ign h file text rf st) :=
  parseLinesIO_log cfg ign h file _ rf hh _ _ _ _

/-! ## The `$INCLUDE` closure -/

section includeWithIO
variable (fs : FSIO) (onPath : Bytes → Bool)
  (recur : (name : Bytes) → (e : Bytes × Bool × Bool) → fs.lookup name = some e → onPath name = false →
    St → ResultIO)

theorem includeWithIO_none (name file : Bytes) (lineNo : Nat) (st : St) (h : fs.lookup name = none) :
    includeWithIO fs onPath recur name file lineNo st = (some (.base (.openErr file lineNo name)), st) := by
  unfold includeWithIO
  split
  · rfl
  · rename_i t ht; rw [h] at ht; cases ht

theorem includeWithIO_onPath (name : Bytes) (e : Bytes × Bool × Bool) (file : Bytes) (lineNo : Nat) (st : St)
    (h : fs.lookup name = some e) (hp : onPath name = true) :
    includeWithIO fs onPath recur name file lineNo st
      = (some (.base (.recursive file lineNo name)), (st.opened name).closed name) := by
  unfold includeWithIO
  split
  · rename_i ht; rw [h] at ht; cases ht
  · simp [hp]

theorem includeWithIO_rec (name : Bytes) (e : Bytes × Bool × Bool) (file : Bytes) (lineNo : Nat) (st : St)
    (h : fs.lookup name = some e) (hp : onPath name = false) :
    includeWithIO fs onPath recur name file lineNo st
      = afterIncludeIO e.2.2 name file lineNo (recur name e h hp (st.opened name)) := by
  unfold includeWithIO
  split
  · rename_i ht; rw [h] at ht; cases ht
  · rename_i e' ht
    have : e' = e := by rw [h] at ht; cases ht; rfl
    subst this
    simp [hp]

theorem includeWithIO_log
    (hrec : ∀ name e hl hp st, AddsBalancedIO st (recur name e hl hp st))
    (name file : Bytes) (lineNo : Nat) (st : St) :
    AddsBalancedIO st (includeWithIO fs onPath recur name file lineNo st) := by
  cases hl : fs.lookup name with
  | none =>
    rw [includeWithIO_none fs onPath recur name file lineNo st hl]
    exact AddsBalancedIO_refl ..
  | some e =>
    cases hp : onPath name with
    | true =>
      rw [includeWithIO_onPath fs onPath recur name e file lineNo st hl hp]
      refine ⟨[.opened name, .closed name], by simp [St.opened, St.closed], ?_⟩
      exact OpensClosed_bracket name (OpensClosed_closed name) (by simp)
    | false =>
      rw [includeWithIO_rec fs onPath recur name e file lineNo st hl hp]
      obtain ⟨w, hw, hoc⟩ := hrec name e hl hp (st.opened name)
      rcases hres : recur name e hl hp (st.opened name) with ⟨_ | e2, st2⟩
      · rw [hres] at hw
        simp only [St.opened] at hw
        refine ⟨.opened name :: (w ++ ([.closed name] ++ [.closed name])),
          by simp [afterIncludeIO, St.closed, hw], ?_⟩
        exact OpensClosed_bracket name
          (OpensClosed_append hoc (OpensClosed_append (OpensClosed_closed name) (OpensClosed_closed name)))
          (by simp)
      · rw [hres] at hw
        simp only [St.opened] at hw
        refine ⟨.opened name :: (w ++ [.closed name]), by simp [afterIncludeIO, St.closed, hw], ?_⟩
        exact OpensClosed_bracket name (OpensClosed_append hoc (OpensClosed_closed name)) (by simp)

end includeWithIO

/-! ## Logs of whole runs -/

theorem unvisitedIO_lt (fs : FSIO) (path : List Bytes) (n : Bytes) (e : Bytes × Bool × Bool)
    (hl : fs.lookup n = some e) (hp : path.contains n = false) :
    unvisited fs.erase (n :: path) < unvisited fs.erase path :=
  unvisited_lt fs.erase path n e.1 (FSIO.lookup_erase_some fs n e hl) (by simpa using hp)

theorem parseFileFixIO_log (cfg : Cfg) (ign : Bool) (fs : FSIO) (path : List Bytes) (file text : Bytes)
    (rf : Bool) (st : St) : AddsBalancedIO st (parseFileFixIO cfg ign fs path file text rf st) := by
  induction hm : unvisited fs.erase path using Nat.strongRecOn generalizing path file text rf st with
  | _ m ih =>
    rw [parseFileFixIO]
    apply parseBodyIO_log
    apply includeWithIO_log
    intro n e hl hp st0
    have hlt : unvisited fs.erase (n :: path) < m := by
      rw [← hm]; exact unvisitedIO_lt fs path n e hl hp
    exact ih _ hlt (n :: path) n e.1 e.2.1 st0 rfl

/-- EVERY OPENED FILE IS CLOSED, on every file system, whatever reads or `Close` calls fail -/
theorem parseFileIO_opensClosed (cfg : Cfg) (ign : Bool) (fs : FSIO) (root : Bytes) :
    OpensClosed (parseFileIO cfg ign fs root).2.log := by
  unfold parseFileIO
  split
  · exact OpensClosed_nil
  · rename_i e _
    obtain ⟨w, hw, hoc⟩ := parseFileFixIO_log cfg ign fs [root] root e.1 e.2.1 (St.opened {} root)
    show OpensClosed ((parseFileFixIO cfg ign fs [root] root e.1 e.2.1 (St.opened {} root)).2.log
      ++ [Event.closed root])
    rw [hw]
    have : (St.opened {} root).log ++ w ++ [Event.closed root]
        = Event.opened root :: (w ++ [Event.closed root]) := by simp [St.opened]
    rw [this]
    exact OpensClosed_bracket root (OpensClosed_append hoc (OpensClosed_closed root)) (by simp)

/-! ## The handler of the repaired rule -/

/-- the `$INCLUDE` closure `parseFileFixIO` runs while the include path is `path` -/
def fixHandlerIO (cfg : Cfg) (ign : Bool) (fs : FSIO) (path : List Bytes) : IncludeHandlerIO :=
  includeWithIO fs (fun n => path.contains n) fun name e _ _ st1 =>
    parseFileFixIO cfg ign fs (name :: path) name e.1 e.2.1 st1

theorem parseFileFixIO_eq (cfg : Cfg) (ign : Bool) (fs : FSIO) (path : List Bytes) (file text : Bytes)
    (rf : Bool) (st : St) :
    parseFileFixIO cfg ign fs path file text rf st
      = parseLinesIO cfg ign (fixHandlerIO cfg ign fs path) file (Lex.lines text).2 rf (Lex.lines text).1 1 none st := by
  rw [parseFileFixIO]
  rfl

theorem fixHandlerIO_none (cfg : Cfg) (ign : Bool) (fs : FSIO) (path : List Bytes) (n file : Bytes) (lineNo : Nat)
    (st : St) (hl : fs.lookup n = none) :
    fixHandlerIO cfg ign fs path n file lineNo st = (some (.base (.openErr file lineNo n)), st) :=
  includeWithIO_none fs _ _ n file lineNo st hl

theorem fixHandlerIO_onPath (cfg : Cfg) (ign : Bool) (fs : FSIO) (path : List Bytes) (n : Bytes)
    (e : Bytes × Bool × Bool) (file : Bytes) (lineNo : Nat) (st : St) (hl : fs.lookup n = some e)
    (hp : path.contains n = true) :
    fixHandlerIO cfg ign fs path n file lineNo st
      = (some (.base (.recursive file lineNo n)), (st.opened n).closed n) :=
  includeWithIO_onPath fs _ _ n e file lineNo st hl hp

theorem fixHandlerIO_rec (cfg : Cfg) (ign : Bool) (fs : FSIO) (path : List Bytes) (n : Bytes)
    (e : Bytes × Bool × Bool) (file : Bytes) (lineNo : Nat) (st : St) (hl : fs.lookup n = some e)
    (hp : path.contains n = false) :
    fixHandlerIO cfg ign fs path n file lineNo st
      = afterIncludeIO e.2.2 n file lineNo (parseFileFixIO cfg ign fs (n :: path) n e.1 e.2.1 (st.opened n)) := by
  unfold fixHandlerIO
  rw [includeWithIO_rec fs _ _ n e file lineNo st hl hp]

/-! ## Refinement: without failure flags this layer is RV.Model.DictParser -/

/-- no file of the file system has a failure flag -/
def FSIO.NoFlags (fs : FSIO) : Prop := ∀ x, x ∈ fs → x.2.2.1 = false ∧ x.2.2.2 = false

theorem FSIO.lookup_mem (fs : FSIO) (name : Bytes) (e : Bytes × Bool × Bool) (h : fs.lookup name = some e) :
    ∃ x, x ∈ fs ∧ x.2 = e := by
  unfold FSIO.lookup at h
  cases hf : fs.find? (·.1 == name) with
  | none => rw [hf] at h; cases h
  | some x =>
    rw [hf] at h
    exact ⟨x, List.mem_of_find?_eq_some hf, by simpa using h⟩

theorem FSIO.NoFlags.lookup {fs : FSIO} (hnf : fs.NoFlags) {name : Bytes} {e : Bytes × Bool × Bool}
    (h : fs.lookup name = some e) : e.2.1 = false ∧ e.2.2 = false := by
  obtain ⟨x, hx, rfl⟩ := FSIO.lookup_mem fs name e h
  exact hnf x hx

theorem FSIO.erase_ofFS (fs : FS) : (FSIO.ofFS fs).erase = fs := by
  unfold FSIO.erase FSIO.ofFS
  rw [List.map_map]
  exact List.map_id _

theorem FSIO.noFlags_ofFS (fs : FS) : (FSIO.ofFS fs).NoFlags := by
  intro x hx
  unfold FSIO.ofFS at hx
  obtain ⟨y, _, rfl⟩ := List.mem_map.mp hx
  exact ⟨rfl, rfl⟩

theorem parseLinesIO_lift (cfg : Cfg) (ign : Bool) (h : IncludeHandler) (file : Bytes) (tooLong : Bool)
    (lines : List Bytes) (lineNo : Nat) (vb : Option Bytes) (st : St) :
    parseLinesIO cfg ign h.lift file tooLong false lines lineNo vb st
      = (parseLines cfg ign h file tooLong lines lineNo vb st).lift := by
  induction lines generalizing lineNo vb st with
  | nil =>
    simp only [parseLinesIO, parseLines]
    cases tooLong with
    | true => rfl
    | false => cases vb <;> rfl
  | cons raw ls ih =>
    simp only [parseLinesIO, parseLines, stepLineIO_lift]
    cases stepLine cfg ign h file lineNo vb st raw with
    | next vb' st' => exact ih ..
    | fail e st' => rfl

theorem includeWithIO_lift (fs : FSIO) (hnf : fs.NoFlags) (onPath : Bytes → Bool)
    (recurIO : (name : Bytes) → (e : Bytes × Bool × Bool) → fs.lookup name = some e → onPath name = false →
      St → ResultIO)
    (recur : (name t : Bytes) → fs.erase.lookup name = some t → onPath name = false → St → Result)
    (hrec : ∀ name e hl hl' hp st, recurIO name e hl hp st = (recur name e.1 hl' hp st).lift)
    (name file : Bytes) (lineNo : Nat) (st : St) :
    includeWithIO fs onPath recurIO name file lineNo st
      = (includeWith fs.erase onPath recur name file lineNo st).lift := by
  rcases opt_cases (fs.lookup name) with hl | ⟨e, hl⟩
  · have hl' : fs.erase.lookup name = none := by rw [FSIO.lookup_erase, hl]; rfl
    rw [includeWithIO_none fs onPath recurIO name file lineNo st hl,
      includeWith_none fs.erase onPath recur name file lineNo st hl']
    rfl
  · have hl' := FSIO.lookup_erase_some fs name e hl
    rcases bool_cases (onPath name) with hp | hp
    · rw [includeWithIO_onPath fs onPath recurIO name e file lineNo st hl hp,
        includeWith_onPath fs.erase onPath recur name e.1 file lineNo st hl' hp]
      rfl
    · rw [includeWithIO_rec fs onPath recurIO name e file lineNo st hl hp,
        includeWith_rec fs.erase onPath recur name e.1 file lineNo st hl' hp,
        hrec name e hl hl' hp, (hnf.lookup hl).2]
      rcases recur name e.1 hl' hp (st.opened name) with ⟨_ | e2, st2⟩ <;> rfl

theorem parseFileFixIO_lift (cfg : Cfg) (ign : Bool) (fs : FSIO) (hnf : fs.NoFlags) (path : List Bytes)
    (file text : Bytes) (st : St) :
    parseFileFixIO cfg ign fs path file text false st
      = (parseFileFix cfg ign fs.erase path file text st).lift := by
  induction hm : unvisited fs.erase path using Nat.strongRecOn generalizing path file text st with
  | _ m ih =>
    rw [parseFileFixIO_eq, parseFileFix_eq]
    have hH : fixHandlerIO cfg ign fs path = (fixHandler cfg ign fs.erase path).lift := by
      funext name f l s
      unfold fixHandlerIO fixHandler IncludeHandler.lift
      apply includeWithIO_lift fs hnf
      intro n e hl hl' hp st0
      have hlt : unvisited fs.erase (n :: path) < m := by
        rw [← hm]; exact unvisitedIO_lt fs path n e hl hp
      rw [(hnf.lookup hl).1]
      exact ih _ hlt (n :: path) n e.1 st0 rfl
    rw [hH]
    exact parseLinesIO_lift ..

/-- REFINEMENT: on a file system none of whose files has a failure flag, `parseFileIO` is `parseFile`
    (repaired include rule) on the same files, the failure embedded by `FailureIO.base` -/
theorem parseFileIO_refines (cfg : Cfg) (ign : Bool) (fs : FSIO) (root : Bytes) (hc : cfg.includePath = true)
    (hnf : fs.NoFlags) : parseFileIO cfg ign fs root = (parseFile cfg ign fs.erase root).lift := by
  unfold parseFileIO parseFile
  rcases opt_cases (fs.lookup root) with hl | ⟨e, hl⟩
  · have hl' : fs.erase.lookup root = none := by rw [FSIO.lookup_erase, hl]; rfl
    rw [hl, hl']; rfl
  · have hl' := FSIO.lookup_erase_some fs root e hl
    rw [hl, hl']
    simp only [parseRoot, hc, if_true]
    rw [(hnf.lookup hl).1, parseFileFixIO_lift cfg ign fs hnf]
    rfl

theorem parseFileIO_ofFS (cfg : Cfg) (ign : Bool) (fs : FS) (root : Bytes) (hc : cfg.includePath = true) :
    parseFileIO cfg ign (FSIO.ofFS fs) root = (parseFile cfg ign fs root).lift := by
  rw [parseFileIO_refines cfg ign _ root hc (FSIO.noFlags_ofFS fs), FSIO.erase_ofFS]

/-! ## Failures: where they come from -/

/-- where a failure of the line loop comes from; `pre` = the lines of the file already passed.
    A read error reported HERE (second case) means: the scanner was content, every remaining line
    went through - with a reader that does not fail the loop ends in success, or in nothing but
    the unclosed vendor block. -/
def LinesFailIO (cfg : Cfg) (ign : Bool) (h : IncludeHandlerIO) (file : Bytes) (tooLong rf : Bool)
    (lines pre : List Bytes) (lineNo : Nat) (vb : Option Bytes) (st : St) (e : FailureIO) (st' : St) : Prop :=
  (e = .base .scanner ∧ tooLong = true) ∨
  (e = .readErr ∧ tooLong = false ∧ rf = true ∧
    (parseLinesIO cfg ign h file tooLong false lines lineNo vb st = (none, st') ∨
     ∃ l, parseLinesIO cfg ign h file tooLong false lines lineNo vb st
       = (some (.base (.decl .unclosedVendorBlock file l)), st'))) ∨
  (∃ c l, e = .base (.decl c file l) ∧ 1 ≤ l ∧ l ≤ (pre ++ lines).length) ∨
  (∃ raw n l st0 st1, (pre ++ lines)[l - 1]? = some raw ∧ 1 ≤ l ∧
    Lex.fields (Lex.stripComment raw) = [kwINCLUDE, n] ∧ h n file l st0 = (some e, st1))

theorem parseLinesIO_fail (cfg : Cfg) (ign : Bool) (h : IncludeHandlerIO) (file : Bytes) (tooLong rf : Bool)
    (lines pre : List Bytes) (lineNo : Nat) (vb : Option Bytes) (st : St) (e : FailureIO) (st' : St)
    (hno : lineNo = pre.length + 1) (hvb : vb ≠ none → pre ≠ [])
    (hr : parseLinesIO cfg ign h file tooLong rf lines lineNo vb st = (some e, st')) :
    LinesFailIO cfg ign h file tooLong rf lines pre lineNo vb st e st' := by
  unfold LinesFailIO
  induction lines generalizing pre lineNo vb st with
  | nil =>
    simp only [parseLinesIO] at hr
    cases tooLong with
    | true => simp at hr; exact Or.inl ⟨hr.1.symm, rfl⟩
    | false =>
      cases rf with
      | true =>
        simp at hr
        right; left
        refine ⟨hr.1.symm, rfl, rfl, ?_⟩
        rw [← hr.2]
        cases vb with
        | none => left; simp [parseLinesIO]
        | some v => right; exact ⟨lineNo - 1, by simp [parseLinesIO]⟩
      | false =>
        cases vb with
        | none => simp at hr
        | some v =>
          simp at hr
          have hne := hvb (by simp)
          have : 1 ≤ pre.length := by
            cases pre with
            | nil => exact absurd rfl hne
            | cons _ _ => simp
          right; right; left
          exact ⟨_, _, hr.1.symm, by omega, by simp; omega⟩
  | cons raw ls ih =>
    have hno' : lineNo + 1 = (pre ++ [raw]).length + 1 := by simp [hno]
    have happ : pre ++ [raw] ++ ls = pre ++ raw :: ls := by simp
    -- what the rest of the loop says, re-indexed
    have rest : ∀ vb1 st1, parseLinesIO cfg ign h file tooLong rf ls (lineNo + 1) vb1 st1 = (some e, st') →
        (∀ b, parseLinesIO cfg ign h file tooLong b (raw :: ls) lineNo vb st
          = parseLinesIO cfg ign h file tooLong b ls (lineNo + 1) vb1 st1) →
        LinesFailIO cfg ign h file tooLong rf (raw :: ls) pre lineNo vb st e st' := fun vb1 st1 hr1 hstep => by
      have := ih (pre ++ [raw]) (lineNo + 1) vb1 st1 hno' (fun _ => by simp) hr1
      unfold LinesFailIO
      rw [happ] at this
      rcases this with h1 | ⟨h1, h2, h3, h4⟩ | h1 | h1
      · exact Or.inl h1
      · exact Or.inr (Or.inl ⟨h1, h2, h3, by rw [hstep false]; exact h4⟩)
      · exact Or.inr (Or.inr (Or.inl h1))
      · exact Or.inr (Or.inr (Or.inr h1))
    rcases stepLineIO_cases cfg ign h file lineNo vb st raw with
      ⟨vb1, st1, hs, _⟩ | ⟨c, hs⟩ | ⟨n, hf, _, hs⟩
    · refine rest vb1 st1 ?_ (fun b => by simp only [parseLinesIO, hs])
      simpa only [parseLinesIO, hs] using hr
    · simp only [parseLinesIO, hs] at hr
      simp at hr
      right; right; left
      exact ⟨c, lineNo, hr.1.symm, by omega, by simp; omega⟩
    · rcases hres : h n file lineNo st with ⟨_ | e1, st1⟩
      · rw [hres] at hs
        refine rest none st1 ?_ (fun b => by simp only [parseLinesIO, hs, StepIO.ofResult])
        simpa only [parseLinesIO, hs, StepIO.ofResult] using hr
      · rw [hres] at hs
        simp only [parseLinesIO, hs, StepIO.ofResult] at hr
        simp at hr
        obtain ⟨rfl, rfl⟩ := hr
        right; right; right
        exact ⟨raw, n, lineNo, st, st1, by simp [hno], by omega, hf, hres⟩

/-- one level of the walk: why `parseFileFixIO` failed in `file` -/
theorem parseFileFixIO_fail_cases (cfg : Cfg) (ign : Bool) (fs : FSIO) (path : List Bytes) (file text : Bytes)
    (rf : Bool) (st : St) (e : FailureIO) (st' : St)
    (hr : parseFileFixIO cfg ign fs path file text rf st = (some e, st')) :
    (e = .base .scanner ∧ (Lex.lines text).2 = true) ∨
    (e = .readErr ∧ (Lex.lines text).2 = false ∧ rf = true ∧
      (parseFileFixIO cfg ign fs path file text false st = (none, st') ∨
       ∃ l, parseFileFixIO cfg ign fs path file text false st
         = (some (.base (.decl .unclosedVendorBlock file l)), st'))) ∨
    (∃ c l, e = .base (.decl c file l) ∧ 1 ≤ l ∧ l ≤ (Lex.lines text).1.length) ∨
    (∃ n l, IncludeLineAt text l n ∧
      ((e = .base (.openErr file l n) ∧ fs.lookup n = none) ∨
       (e = .base (.recursive file l n) ∧ path.contains n = true ∧ ∃ en, fs.lookup n = some en) ∨
       (∃ en st0, fs.lookup n = some en ∧ path.contains n = false ∧
         ((∃ st2, parseFileFixIO cfg ign fs (n :: path) n en.1 en.2.1 st0 = (some e, st2)) ∨
          (e = .closeErr file l n ∧ en.2.2 = true ∧
            ∃ st2, parseFileFixIO cfg ign fs (n :: path) n en.1 en.2.1 st0 = (none, st2)))))) := by
  rw [parseFileFixIO_eq] at hr
  have hlf := parseLinesIO_fail cfg ign _ file _ rf _ [] 1 none st e st' rfl (fun hne => absurd rfl hne) hr
  unfold LinesFailIO at hlf
  rcases hlf with
    h1 | ⟨h1, h2, h3, h4⟩ | h1 | ⟨raw, n, l, st0, st1, hget, hl1, hf, hh⟩
  · exact Or.inl h1
  · right; left
    refine ⟨h1, h2, h3, ?_⟩
    rw [parseFileFixIO_eq]
    exact h4
  · exact Or.inr (Or.inr (Or.inl (by simpa using h1)))
  · right; right; right
    refine ⟨n, l, ⟨hl1, raw, by simpa using hget, hf⟩, ?_⟩
    rcases opt_cases (fs.lookup n) with hl | ⟨en, hl⟩
    · rw [fixHandlerIO_none cfg ign fs path n file l st0 hl] at hh
      simp at hh
      exact Or.inl ⟨hh.1.symm, hl⟩
    · rcases bool_cases (path.contains n) with hp | hp
      · rw [fixHandlerIO_onPath cfg ign fs path n en file l st0 hl hp] at hh
        simp at hh
        exact Or.inr (Or.inl ⟨hh.1.symm, hp, en, hl⟩)
      · rw [fixHandlerIO_rec cfg ign fs path n en file l st0 hl hp] at hh
        right; right
        refine ⟨en, st0.opened n, hl, hp, ?_⟩
        rcases hres : parseFileFixIO cfg ign fs (n :: path) n en.1 en.2.1 (st0.opened n) with ⟨_ | e2, st2⟩
        · rw [hres] at hh
          simp only [afterIncludeIO] at hh
          cases hc : en.2.2 with
          | false => rw [hc] at hh; simp at hh
          | true =>
            rw [hc] at hh
            simp at hh
            exact Or.inr ⟨hh.1.symm, rfl, st2, rfl⟩
        · rw [hres] at hh
          simp only [afterIncludeIO] at hh
          simp at hh
          exact Or.inl ⟨st2, by rw [hh.1]⟩

/-! ## Failures: what they say about the file system -/

/-- `f` is the root file or a file the root leads to through `$INCLUDE` lines -/
def OnWalk (fs : FSIO) (root f : Bytes) : Prop := f = root ∨ Reaches fs.erase root f

/-- What a failure of a run started at `root` says.
    * a ParseError-class failure names a file ON THE WALK and a line of it, counted from 1; for the
      `$INCLUDE` failures that line is the directive `$INCLUDE n`;
    * `closeErr f l n`: line `l` of `f` is `$INCLUDE n`, `n` is a file whose `Close` fails, and the
      parse of `n` (on some include path, from some state) went through without failure;
    * `readErr`: some file `g` on the walk has a failing reader, the scanner was content with what
      `g` delivered, and all of its lines went through: with a reader that does not fail, the parse
      of `g` from the same state ends in success or in nothing but an unclosed vendor block;
    * `scanner`: some file on the walk has a line that does not fit the scanner's buffer. -/
def FailureIO.Explained (cfg : Cfg) (ign : Bool) (fs : FSIO) (root : Bytes) : FailureIO → Prop
  | .base .scanner => ∃ g e, OnWalk fs root g ∧ fs.lookup g = some e ∧ (Lex.lines e.1).2 = true
  | .base (.decl _ f l) =>
      ∃ e, OnWalk fs root f ∧ fs.lookup f = some e ∧ 1 ≤ l ∧ l ≤ (Lex.lines e.1).1.length
  | .base (.openErr f l n) =>
      ∃ e, OnWalk fs root f ∧ fs.lookup f = some e ∧ IncludeLineAt e.1 l n ∧ fs.lookup n = none
  | .base (.recursive f l n) =>
      ∃ e, OnWalk fs root f ∧ fs.lookup f = some e ∧ IncludeLineAt e.1 l n ∧ (fs.lookup n).isSome = true ∧
        (n = f ∨ Reaches fs.erase n f)
  | .base .rootOpen => fs.lookup root = none
  | .base .outOfFuel => False
  | .readErr =>
      ∃ g e path st0 st1, OnWalk fs root g ∧ fs.lookup g = some e ∧ e.2.1 = true ∧ (Lex.lines e.1).2 = false ∧
        (parseFileFixIO cfg ign fs path g e.1 false st0 = (none, st1) ∨
         ∃ l, parseFileFixIO cfg ign fs path g e.1 false st0
           = (some (.base (.decl .unclosedVendorBlock g l)), st1))
  | .closeErr f l n =>
      ∃ e en path st0 st1, OnWalk fs root f ∧ fs.lookup f = some e ∧ IncludeLineAt e.1 l n ∧
        fs.lookup n = some en ∧ en.2.2 = true ∧
        parseFileFixIO cfg ign fs path n en.1 en.2.1 st0 = (none, st1)

theorem IncludeLineAt.includes {fs : FSIO} {f n : Bytes} {e : Bytes × Bool × Bool} {l : Nat}
    (hl : fs.lookup f = some e) (h : IncludeLineAt e.1 l n) : Includes fs.erase f n := by
  obtain ⟨_, raw, hget, hf⟩ := h
  exact ⟨e.1, FSIO.lookup_erase_some fs f e hl, mem_includesOf.mpr ⟨raw, List.mem_of_getElem? hget, hf⟩⟩

theorem IncludeLineAt.le {t n : Bytes} {l : Nat} (h : IncludeLineAt t l n) : l ≤ (Lex.lines t).1.length := by
  obtain ⟨h1, raw, hget, _⟩ := h
  have := (List.getElem?_eq_some_iff.mp hget).1
  omega

theorem parseFileFixIO_explained (cfg : Cfg) (ign : Bool) (fs : FSIO) (root : Bytes)
    (path : List Bytes) (file : Bytes) (en : Bytes × Bool × Bool) (st : St) (e : FailureIO) (st' : St)
    (hl : fs.lookup file = some en)
    (hpath : ∀ p, p ∈ path → p = file ∨ Reaches fs.erase p file)
    (hroot : OnWalk fs root file)
    (hr : parseFileFixIO cfg ign fs path file en.1 en.2.1 st = (some e, st')) :
    e.Explained cfg ign fs root := by
  induction hm : unvisited fs.erase path using Nat.strongRecOn generalizing path file en st e st' with
  | _ m ih =>
    rcases parseFileFixIO_fail_cases cfg ign fs path file en.1 en.2.1 st e st' hr with
      ⟨rfl, h2⟩ | ⟨rfl, h2, h3, h4⟩ | ⟨c, l, rfl, h2, h3⟩ | ⟨n, l, hline, hcase⟩
    · exact ⟨file, en, hroot, hl, h2⟩
    · exact ⟨file, en, path, st, st', hroot, hl, h3, h2, h4⟩
    · exact ⟨en, hroot, hl, h2, h3⟩
    · have hinc : Includes fs.erase file n := hline.includes hl
      rcases hcase with ⟨rfl, hn⟩ | ⟨rfl, hp, en', hn⟩ | ⟨en', st0, hn, hp, hsub⟩
      · exact ⟨en, hroot, hl, hline, hn⟩
      · exact ⟨en, hroot, hl, hline, by simp [hn], hpath n (by simpa using hp)⟩
      · have hroot' : OnWalk fs root n := by
          rcases hroot with rfl | hreach
          · exact Or.inr (.step hinc)
          · exact Or.inr (hreach.snoc hinc)
        rcases hsub with ⟨st2, hsub⟩ | ⟨rfl, hcf, st2, hsub⟩
        · have hlt : unvisited fs.erase (n :: path) < m := by
            rw [← hm]; exact unvisitedIO_lt fs path n en' hn hp
          refine ih _ hlt (n :: path) n en' st0 e st2 hn ?_ hroot' hsub rfl
          intro p hpm
          rcases List.mem_cons.mp hpm with rfl | hpm
          · exact Or.inl rfl
          · rcases hpath p hpm with rfl | hreach
            · exact Or.inr (.step hinc)
            · exact Or.inr (hreach.snoc hinc)
        · exact ⟨en, en', n :: path, st0, st2, hroot, hl, hline, hn, hcf, hsub⟩

theorem parseFileIO_none (cfg : Cfg) (ign : Bool) (fs : FSIO) (root : Bytes) (hl : fs.lookup root = none) :
    parseFileIO cfg ign fs root = (some (.base .rootOpen), {}) := by
  simp [parseFileIO, hl]

theorem parseFileIO_some (cfg : Cfg) (ign : Bool) (fs : FSIO) (root : Bytes) (e : Bytes × Bool × Bool)
    (hl : fs.lookup root = some e) :
    parseFileIO cfg ign fs root
      = ((parseFileFixIO cfg ign fs [root] root e.1 e.2.1 (St.opened {} root)).1,
         (parseFileFixIO cfg ign fs [root] root e.1 e.2.1 (St.opened {} root)).2.closed root) := by
  simp [parseFileIO, hl]

/-- every failure of `ParseFile` over a file system with failure flags is explained -/
theorem parseFileIO_explained (cfg : Cfg) (ign : Bool) (fs : FSIO) (root : Bytes) (e : FailureIO)
    (he : (parseFileIO cfg ign fs root).1 = some e) : e.Explained cfg ign fs root := by
  rcases opt_cases (fs.lookup root) with hl | ⟨en, hl⟩
  · rw [parseFileIO_none cfg ign fs root hl] at he
    simp at he; subst he; exact hl
  · rw [parseFileIO_some cfg ign fs root en hl] at he
    rcases hres : parseFileFixIO cfg ign fs [root] root en.1 en.2.1 (St.opened {} root) with ⟨e', st'⟩
    rw [hres] at he; simp at he; subst he
    exact parseFileFixIO_explained cfg ign fs root [root] root en _ e st' hl
      (fun p hp => Or.inl (by simpa using hp)) (Or.inl rfl) hres

/-! ## Cycles -/

theorem parseFileIO_recursive_real (cfg : Cfg) (ign : Bool) (fs : FSIO) (root f n : Bytes) (l : Nat)
    (hr : (parseFileIO cfg ign fs root).1 = some (.base (.recursive f l n))) :
    Includes fs.erase f n ∧ (n = f ∨ Reaches fs.erase n f) ∧ (f = root ∨ Reaches fs.erase root f) := by
  obtain ⟨e, hw, hl, hline, _, hback⟩ := parseFileIO_explained cfg ign fs root _ hr
  exact ⟨hline.includes hl, hback, hw⟩

theorem parseFileIO_acyclic_not_recursive (cfg : Cfg) (ign : Bool) (fs : FSIO) (root : Bytes)
    (hac : ¬ HasCycle fs.erase root) (f n : Bytes) (l : Nat) :
    (parseFileIO cfg ign fs root).1 ≠ some (.base (.recursive f l n)) := by
  intro hr
  obtain ⟨hi, hback, hroot⟩ := parseFileIO_recursive_real cfg ign fs root f n l hr
  apply hac
  refine ⟨f, hroot, ?_⟩
  rcases hback with rfl | hreach
  · exact .step hi
  · exact .trans hi hreach

/-! ## Success: a run that succeeds met no failure flag, and is a run of RV.Model.DictParser -/

theorem parseLinesIO_ok_sim (cfg : Cfg) (ign : Bool) (hIO : IncludeHandlerIO) (h : IncludeHandler) (file : Bytes)
    (tooLong rf : Bool)
    (hh : ∀ n f l st st1, hIO n f l st = (none, st1) → h n f l st = (none, st1))
    (lines : List Bytes) (lineNo : Nat) (vb : Option Bytes) (st st' : St)
    (hr : parseLinesIO cfg ign hIO file tooLong rf lines lineNo vb st = (none, st')) :
    rf = false ∧ parseLines cfg ign h file tooLong lines lineNo vb st = (none, st') := by
  induction lines generalizing lineNo vb st with
  | nil =>
    simp only [parseLinesIO] at hr
    cases tooLong with
    | true => simp at hr
    | false =>
      cases rf with
      | true => simp at hr
      | false =>
        cases vb with
        | some v => simp at hr
        | none => simp at hr; exact ⟨rfl, by simp [parseLines, hr]⟩
  | cons raw ls ih =>
    simp only [parseLinesIO] at hr
    simp only [parseLines]
    rcases opt_cases (includeTarget vb raw) with hT | ⟨n, hT⟩
    · rw [stepLineIO_of_local _ _ _ _ _ _ _ _ hT] at hr
      rw [stepLine_local cfg ign h file lineNo vb st raw hT]
      cases hs : localStep cfg ign file lineNo vb st raw with
      | next vb1 st1 => rw [hs] at hr; exact ih _ _ _ hr
      | fail e1 st1 => rw [hs] at hr; simp [Step.lift] at hr
    · rw [stepLineIO_of_target _ _ _ _ _ _ _ _ n hT] at hr
      rw [stepLine_target cfg ign h file lineNo vb st raw n hT]
      rcases hres : hIO n file lineNo st with ⟨_ | e1, st1⟩
      · rw [hres] at hr
        rw [hh n file lineNo st st1 hres]
        exact ih _ _ _ hr
      · rw [hres] at hr; simp [StepIO.ofResult] at hr

/-- a successful `$INCLUDE` closure: the file exists, is not on the path, its `Close` does not fail,
    and its parse succeeded -/
theorem fixHandlerIO_ok_inv (cfg : Cfg) (ign : Bool) (fs : FSIO) (path : List Bytes) (n file : Bytes)
    (lineNo : Nat) (st st1 : St) (hr : fixHandlerIO cfg ign fs path n file lineNo st = (none, st1)) :
    ∃ en st2, fs.lookup n = some en ∧ path.contains n = false ∧ en.2.2 = false ∧
      parseFileFixIO cfg ign fs (n :: path) n en.1 en.2.1 (st.opened n) = (none, st2) ∧
      st1 = (st2.closed n).closed n := by
  rcases opt_cases (fs.lookup n) with hl | ⟨en, hl⟩
  · rw [fixHandlerIO_none cfg ign fs path n file lineNo st hl] at hr; simp at hr
  · rcases bool_cases (path.contains n) with hp | hp
    · rw [fixHandlerIO_onPath cfg ign fs path n en file lineNo st hl hp] at hr; simp at hr
    · rw [fixHandlerIO_rec cfg ign fs path n en file lineNo st hl hp] at hr
      rcases hres : parseFileFixIO cfg ign fs (n :: path) n en.1 en.2.1 (st.opened n) with ⟨_ | e2, st2⟩
      · rw [hres] at hr
        simp only [afterIncludeIO] at hr
        cases hc : en.2.2 with
        | true => rw [hc] at hr; simp at hr
        | false =>
          rw [hc] at hr; simp at hr
          exact ⟨en, st2, hl, hp, hc, hres, hr.symm⟩
      · rw [hres] at hr; simp [afterIncludeIO] at hr

theorem parseFileFixIO_ok_erase (cfg : Cfg) (ign : Bool) (fs : FSIO) (path : List Bytes) (file text : Bytes)
    (rf : Bool) (st st' : St) (hr : parseFileFixIO cfg ign fs path file text rf st = (none, st')) :
    rf = false ∧ parseFileFix cfg ign fs.erase path file text st = (none, st') := by
  induction hm : unvisited fs.erase path using Nat.strongRecOn generalizing path file text rf st st' with
  | _ m ih =>
    rw [parseFileFixIO_eq] at hr
    rw [parseFileFix_eq]
    refine parseLinesIO_ok_sim cfg ign _ _ file _ rf ?_ _ _ _ _ _ hr
    intro n f l st0 st1 hh
    obtain ⟨en, st2, hl, hp, _, hsub, rfl⟩ := fixHandlerIO_ok_inv cfg ign fs path n f l st0 st1 hh
    have hlt : unvisited fs.erase (n :: path) < m := by
      rw [← hm]; exact unvisitedIO_lt fs path n en hl hp
    have := (ih _ hlt (n :: path) n en.1 en.2.1 _ st2 hsub rfl).2
    rw [fixHandler_rec cfg ign fs.erase path n en.1 f l st0 (FSIO.lookup_erase_some fs n en hl)
      (by simpa using hp), ← parseFileFix_eq, this]
    rfl

/-- a run that succeeds on a file system with failure flags is, result and log, the run of
    RV.Model.DictParser on the same files -/
theorem parseFileIO_ok_erase (cfg : Cfg) (ign : Bool) (fs : FSIO) (root : Bytes) (hc : cfg.includePath = true)
    (st : St) (hr : parseFileIO cfg ign fs root = (none, st)) : parseFile cfg ign fs.erase root = (none, st) := by
  rcases opt_cases (fs.lookup root) with hl | ⟨en, hl⟩
  · rw [parseFileIO_none cfg ign fs root hl] at hr; simp at hr
  · rw [parseFileIO_some cfg ign fs root en hl] at hr
    rcases hres : parseFileFixIO cfg ign fs [root] root en.1 en.2.1 (St.opened {} root) with ⟨e', st'⟩
    rw [hres] at hr
    simp at hr
    obtain ⟨rfl, rfl⟩ := hr
    have := (parseFileFixIO_ok_erase cfg ign fs [root] root en.1 en.2.1 _ st' hres).2
    simp [parseFile, FSIO.lookup_erase_some fs root en hl, parseRoot, hc, this]

theorem parseFileIO_ok_acyclic (cfg : Cfg) (ign : Bool) (fs : FSIO) (root : Bytes) (hc : cfg.includePath = true)
    (hok : (parseFileIO cfg ign fs root).1 = none) : ¬ HasCycle fs.erase root := by
  apply parseFile_ok_acyclic cfg ign fs.erase root hc
  rw [parseFileIO_ok_erase cfg ign fs root hc (parseFileIO cfg ign fs root).2 (Prod.ext hok rfl)]

/-- the files a log says were opened have a reader that works, and - the root apart - a `Close` that works -/
def LogClean (fs : FSIO) (w : List Event) : Prop :=
  ∀ n, Event.opened n ∈ w → ∃ en, fs.lookup n = some en ∧ en.2.1 = false ∧ en.2.2 = false

theorem parseLinesIO_ok_clean (cfg : Cfg) (ign : Bool) (hIO : IncludeHandlerIO) (file : Bytes)
    (tooLong rf : Bool) (fs : FSIO)
    (hh : ∀ n f l st st1, hIO n f l st = (none, st1) → ∃ w, st1.log = st.log ++ w ∧ LogClean fs w)
    (lines : List Bytes) (lineNo : Nat) (vb : Option Bytes) (st st' : St)
    (hr : parseLinesIO cfg ign hIO file tooLong rf lines lineNo vb st = (none, st')) :
    ∃ w, st'.log = st.log ++ w ∧ LogClean fs w := by
  induction lines generalizing lineNo vb st with
  | nil =>
    have : st' = st := by
      simp only [parseLinesIO] at hr
      cases tooLong <;> cases rf <;> cases vb <;> simp at hr
      exact hr.symm
    exact ⟨[], by simp [this], fun n hn => by simp at hn⟩
  | cons raw ls ih =>
    simp only [parseLinesIO] at hr
    rcases stepLineIO_cases cfg ign hIO file lineNo vb st raw with
      ⟨vb1, st1, hs, hl⟩ | ⟨c, hs⟩ | ⟨n, _, _, hs⟩
    · rw [hs] at hr
      obtain ⟨w, hw, hc⟩ := ih _ _ _ hr
      exact ⟨w, by rw [hw, hl], hc⟩
    · rw [hs] at hr; simp at hr
    · rcases hres : hIO n file lineNo st with ⟨_ | e1, st1⟩
      · rw [hs, hres] at hr
        simp only [StepIO.ofResult] at hr
        obtain ⟨w1, hw1, hc1⟩ := hh n file lineNo st st1 hres
        obtain ⟨w2, hw2, hc2⟩ := ih _ _ _ hr
        refine ⟨w1 ++ w2, by rw [hw2, hw1, List.append_assoc], ?_⟩
        intro m hm
        rcases List.mem_append.mp hm with hm | hm
        · exact hc1 m hm
        · exact hc2 m hm
      · rw [hs, hres] at hr; simp [StepIO.ofResult] at hr

theorem parseFileFixIO_ok_clean (cfg : Cfg) (ign : Bool) (fs : FSIO) (path : List Bytes) (file text : Bytes)
    (rf : Bool) (st st' : St) (hr : parseFileFixIO cfg ign fs path file text rf st = (none, st')) :
    ∃ w, st'.log = st.log ++ w ∧ LogClean fs w := by
  induction hm : unvisited fs.erase path using Nat.strongRecOn generalizing path file text rf st st' with
  | _ m ih =>
    rw [parseFileFixIO_eq] at hr
    refine parseLinesIO_ok_clean cfg ign _ file _ rf fs ?_ _ _ _ _ _ hr
    intro n f l st0 st1 hh
    obtain ⟨en, st2, hl, hp, hcf, hsub, rfl⟩ := fixHandlerIO_ok_inv cfg ign fs path n f l st0 st1 hh
    have hlt : unvisited fs.erase (n :: path) < m := by
      rw [← hm]; exact unvisitedIO_lt fs path n en hl hp
    obtain ⟨w, hw, hc⟩ := ih _ hlt (n :: path) n en.1 en.2.1 _ st2 hsub rfl
    have hrf := (parseFileFixIO_ok_erase cfg ign fs (n :: path) n en.1 en.2.1 _ st2 hsub).1
    refine ⟨Event.opened n :: (w ++ [Event.closed n, Event.closed n]), by simp [St.closed, hw, St.opened], ?_⟩
    intro m' hm'
    simp only [List.mem_cons, List.mem_append, Event.opened.injEq, reduceCtorEq, List.not_mem_nil, or_false,
      or_self] at hm'
    rcases hm' with rfl | hm'
    · exact ⟨en, hl, hrf, hcf⟩
    · exact hc m' hm'

/-- NO FAILURE IS SWALLOWED: if `ParseFile` succeeds, the root's reader did not fail, and every file
    opened for an `$INCLUDE` has a reader that does not fail and a `Close` that does not fail -/
theorem parseFileIO_ok_no_flags (cfg : Cfg) (ign : Bool) (fs : FSIO) (root : Bytes) (st : St)
    (hr : parseFileIO cfg ign fs root = (none, st)) :
    (∃ en, fs.lookup root = some en ∧ en.2.1 = false) ∧
    ∃ w, st.log = Event.opened root :: (w ++ [Event.closed root]) ∧ LogClean fs w := by
  rcases opt_cases (fs.lookup root) with hl | ⟨en, hl⟩
  · rw [parseFileIO_none cfg ign fs root hl] at hr; simp at hr
  · rw [parseFileIO_some cfg ign fs root en hl] at hr
    rcases hres : parseFileFixIO cfg ign fs [root] root en.1 en.2.1 (St.opened {} root) with ⟨e', st'⟩
    rw [hres] at hr
    simp at hr
    obtain ⟨rfl, rfl⟩ := hr
    obtain ⟨w, hw, hc⟩ := parseFileFixIO_ok_clean cfg ign fs [root] root en.1 en.2.1 _ st' hres
    exact ⟨⟨en, hl, (parseFileFixIO_ok_erase cfg ign fs [root] root en.1 en.2.1 _ st' hres).1⟩,
      w, by simp [St.closed, hw, St.opened], hc⟩

/-! ## An executable twin with fuel (for evaluation by `decide`; never out of fuel) -/

def parseFuelIO (cfg : Cfg) (ign : Bool) (fs : FSIO) : Nat → List Bytes → Bytes → Bytes → Bool → St → ResultIO
  | 0, _, _, _, _, st => (some (.base .outOfFuel), st)
  | fuel + 1, path, file, text, rf, st =>
    parseBodyIO cfg ign
      (includeWithIO fs (fun n => path.contains n) fun name e _ _ st1 =>
        parseFuelIO cfg ign fs fuel (name :: path) name e.1 e.2.1 st1)
      file text rf st

theorem parseFuelIO_eq (cfg : Cfg) (ign : Bool) (fs : FSIO) (fuel : Nat) (path : List Bytes) (file text : Bytes)
    (rf : Bool) (st : St) (hf : unvisited fs.erase path < fuel) :
    parseFuelIO cfg ign fs fuel path file text rf st = parseFileFixIO cfg ign fs path file text rf st := by
  induction fuel generalizing path file text rf st with
  | zero => omega
  | succ k ih =>
    rw [parseFuelIO, parseFileFixIO_eq]
    have hH : (includeWithIO fs (fun n => path.contains n) fun name e _ _ st1 =>
        parseFuelIO cfg ign fs k (name :: path) name e.1 e.2.1 st1) = fixHandlerIO cfg ign fs path := by
      funext name f l s
      rcases opt_cases (fs.lookup name) with hl | ⟨en, hl⟩
      · rw [includeWithIO_none fs _ _ name f l s hl, fixHandlerIO_none cfg ign fs path name f l s hl]
      · rcases bool_cases (path.contains name) with hp | hp
        · rw [includeWithIO_onPath fs _ _ name en f l s hl hp, fixHandlerIO_onPath cfg ign fs path name en f l s hl hp]
        · rw [includeWithIO_rec fs _ _ name en f l s hl hp, fixHandlerIO_rec cfg ign fs path name en f l s hl hp]
          have := unvisitedIO_lt fs path name en hl hp
          rw [ih (name :: path) name en.1 en.2.1 (s.opened name) (by omega)]
    rw [hH]
    rfl

theorem unvisited_le_length (fs : FS) (path : List Bytes) : unvisited fs path ≤ fs.length := by
  induction fs with
  | nil => simp [unvisited]
  | cons e es ih => simp only [unvisited, List.length_cons]; split <;> omega

/-- `parseFileIO` with the recursion unfolded `fs.length + 1` levels deep: the same function -/
def parseFileFuelIO (cfg : Cfg) (ign : Bool) (fs : FSIO) (root : Bytes) : ResultIO :=
  match fs.lookup root with
  | none => (some (.base .rootOpen), {})
  | some e =>
    let r := parseFuelIO cfg ign fs (fs.length + 1) [root] root e.1 e.2.1 (St.opened {} root)
    (r.1, r.2.closed root)

theorem parseFileIO_eq_fuel (cfg : Cfg) (ign : Bool) (fs : FSIO) (root : Bytes) :
    parseFileIO cfg ign fs root = parseFileFuelIO cfg ign fs root := by
  rcases opt_cases (fs.lookup root) with hl | ⟨e, hl⟩
  · simp [parseFileIO, parseFileFuelIO, hl]
  · have : unvisited fs.erase [root] < fs.length + 1 := by
      have := unvisited_le_length fs.erase [root]
      have hlen : fs.erase.length = fs.length := by simp [FSIO.erase]
      omega
    simp only [parseFileIO, parseFileFuelIO, hl]
    rw [parseFuelIO_eq cfg ign fs _ _ _ _ _ _ this]

/-! ## Concrete file systems -/

/-- `VALUE A v 1\n` -/
def textLeaf : Bytes := kwVALUE ++ [32, 65, 32, 118, 32, 49, 10]

/-- root: `$INCLUDE a`, then a VALUE line; the reader of `a` fails after its only line -/
def fsReadFails : FSIO :=
  [(nmRoot, inc nmA ++ textLeaf, false, false), (nmA, textLeaf, true, false)]

/-- the same, but the reader of `a` fails in the middle of a second line: `VAL` has been delivered.
    The scanner hands `VAL` out as a last line, and its refusal is what `parse` reports -/
def fsReadTruncated : FSIO :=
  [(nmRoot, inc nmA ++ textLeaf, false, false), (nmA, textLeaf ++ [86, 65, 76], true, false)]

/-- `VENDOR v 1\nBEGIN-VENDOR v\n` -/
def textOpenBlock : Bytes :=
  kwVENDOR ++ [32, 118, 32, 49, 10] ++ kwBEGIN ++ [32, 118, 10]

/-- the reader of the root fails at the end of a text that leaves a vendor block open:
    `s.Err()` is looked at before the block -/
def fsReadThenUnclosed : FSIO := [(nmRoot, textOpenBlock, true, false)]

/-- root: `$INCLUDE a`, then a VALUE line; the first `Close` of `a` fails -/
def fsCloseFails : FSIO :=
  [(nmRoot, inc nmA ++ textLeaf, false, false), (nmA, textLeaf, false, true)]

/-- `Close` failures that cannot show: the root's (the error of `defer f.Close()` is dropped), and
    that of `a`, whose parse fails (root → a → root), so that only the deferred `Close` runs -/
def fsCloseIgnored : FSIO := [(nmRoot, inc nmA, false, true), (nmA, inc nmRoot, false, true)]

/-! ## Logs, per HANDLE: well nested; closed twice / once

`OpensClosed` (used by `parseFileIO_opensClosed`) matches opens and closes BY NAME.  Where one name
is open twice - every RecursiveInclude opens a file that is already open on the include path - the
later close of the OUTER handle also "closes" the re-opened one, so `OpensClosed` would hold of a
log in which the re-opened handle is never closed.  The statements of this section are about
handles: `Nested` (RV.Proofs.DictWalk) is the language of well-bracketed logs, every `opened n`
matched by its OWN `closed n` (once or twice, directly after one another); `ClosedTwice` and
`UnwoundIO` say which of the two it is. -/

/-- the log of a stretch in which every include SUCCEEDED: well bracketed, every handle closed
    exactly TWICE (the explicit `incFile.Close()` and the deferred one), the two directly after one another -/
inductive ClosedTwice : List Event → Prop where
  | nil : ClosedTwice []
  | file (n : Bytes) {inner rest : List Event} : ClosedTwice inner → ClosedTwice rest →
      ClosedTwice (Event.opened n :: (inner ++ Event.closed n :: Event.closed n :: rest))

theorem ClosedTwice.append {a b : List Event} (ha : ClosedTwice a) (hb : ClosedTwice b) : ClosedTwice (a ++ b) := by
  induction ha with
  | nil => exact hb
  | @file n inner rest h1 _ _ ih2 =>
    have := ClosedTwice.file n h1 ih2
    simpa [List.append_assoc] using this

theorem ClosedTwice.nested {w : List Event} (h : ClosedTwice w) : Nested w := by
  induction h with
  | nil => exact .nil
  | @file n inner rest _ _ ih1 ih2 => exact Nested.file n true ih1 ih2

/-- … so every name is closed exactly twice as often as it is opened -/
theorem ClosedTwice.count_eq {w : List Event} (h : ClosedTwice w) (n : Bytes) :
    w.count (Event.closed n) = 2 * w.count (Event.opened n) := by
  induction h with
  | nil => simp
  | @file m inner rest _ _ ih1 ih2 =>
    by_cases hm : m = n <;> simp [List.count_append, hm] <;> omega

/-- the file a ParseError-class failure names -/
def FailureIO.file? : FailureIO → Option Bytes
  | .base (.decl _ f _) | .base (.openErr f _ _) | .base (.recursive f _ _) | .closeErr f _ _ => some f
  | _ => none

/-- what the failing line itself adds to the log, in the file where the failure arises:
    * RecursiveInclude of `n`: the handle that was opened - a second handle on a file of the include
      path - and its ONE close (the deferred one);
    * a failing `Close` of `n`: the handle, the log of its (successful) parse, its TWO closes;
    * every other failure (refused line, scanner, reader, unclosed block, missing file): nothing. -/
inductive FaultTail : FailureIO → List Event → Prop where
  | plain {e : FailureIO} : (∀ f l n, e ≠ .base (.recursive f l n)) → (∀ f l n, e ≠ .closeErr f l n) →
      FaultTail e []
  | reopened (f : Bytes) (l : Nat) (n : Bytes) :
      FaultTail (.base (.recursive f l n)) [Event.opened n, Event.closed n]
  | closeFailed (f : Bytes) (l : Nat) (n : Bytes) {inner : List Event} : ClosedTwice inner →
      FaultTail (.closeErr f l n) (Event.opened n :: (inner ++ [Event.closed n, Event.closed n]))

theorem FaultTail.nested {e : FailureIO} {t : List Event} (h : FaultTail e t) : Nested t := by
  cases h with
  | plain => exact .nil
  | reopened f l n => exact Nested.openClose n
  | closeFailed f l n hin =>
    have := Nested.file n true hin.nested Nested.nil
    simpa using this

/-- The log that the parse of `file` (already open) adds when it fails with `e`; `ns` = the handles
    opened below `file` that are still open when the failure arises, outermost first.  Everything
    that completed before (`w`) is `ClosedTwice`; each handle of `ns` is opened once and, after the
    failure, closed exactly ONCE, innermost first (only the deferred `Close` runs on an error path);
    the failure arises in the last file of `file :: ns`, which is the file `e` names (if it names
    one), and adds its `FaultTail` there. -/
inductive UnwoundIO (e : FailureIO) : Bytes → List Bytes → List Event → Prop where
  | here {file : Bytes} {w t : List Event} : ClosedTwice w → FaultTail e t →
      (∀ g, e.file? = some g → g = file) → UnwoundIO e file [] (w ++ t)
  | into {file : Bytes} (n : Bytes) {ns : List Bytes} {w inner : List Event} : ClosedTwice w →
      UnwoundIO e n ns inner → UnwoundIO e file (n :: ns) (w ++ Event.opened n :: (inner ++ [Event.closed n]))

theorem UnwoundIO.nested {e : FailureIO} {file : Bytes} {ns : List Bytes} {w : List Event}
    (h : UnwoundIO e file ns w) : Nested w := by
  induction h with
  | here h1 h2 _ => exact h1.nested.append h2.nested
  | into n h1 _ ih =>
    have := Nested.file n false ih Nested.nil
    exact h1.nested.append (by simpa using this)

theorem UnwoundIO.prepend {e : FailureIO} {file : Bytes} {ns : List Bytes} {a w : List Event}
    (ha : ClosedTwice a) (h : UnwoundIO e file ns w) : UnwoundIO e file ns (a ++ w) := by
  cases h with
  | here h1 h2 h3 =>
    rw [← List.append_assoc]
    exact .here (ha.append h1) h2 h3
  | into n h1 h2 =>
    rw [← List.append_assoc]
    exact .into n (ha.append h1) h2

/-- the failure arises in the innermost file of the unwinding, and names it -/
theorem UnwoundIO.names_innermost {e : FailureIO} {file : Bytes} {ns : List Bytes} {w : List Event}
    (h : UnwoundIO e file ns w) : ∀ g, e.file? = some g → (file :: ns).getLast? = some g := by
  induction h with
  | here _ _ h3 => intro g hg; rw [h3 g hg]; rfl
  | @into file n ns w inner _ _ ih =>
    intro g hg
    rw [List.getLast?_cons_cons]
    exact ih g hg

/-- after the events of the failing line itself the log holds nothing but ONE close per handle that
    was open, innermost first -/
theorem UnwoundIO.suffix {e : FailureIO} {file : Bytes} {ns : List Bytes} {w : List Event}
    (h : UnwoundIO e file ns w) :
    ∃ pre t, FaultTail e t ∧ w = pre ++ t ++ ns.reverse.map Event.closed := by
  induction h with
  | @here file w t _ h2 _ => exact ⟨w, t, h2, by simp⟩
  | @into file n ns w inner _ _ ih =>
    obtain ⟨pre, t, ht, hw⟩ := ih
    exact ⟨w ++ Event.opened n :: pre, t, ht, by rw [hw]; simp⟩

theorem FaultTail.recursive_inv {f n : Bytes} {l : Nat} {t : List Event}
    (h : FaultTail (.base (.recursive f l n)) t) : t = [Event.opened n, Event.closed n] := by
  cases h with
  | plain h1 _ => exact absurd rfl (h1 f l n)
  | reopened => rfl

/-- the shape of what a run adds to the log, by outcome -/
def LogShape (st : St) (file : Bytes) (r : ResultIO) : Prop :=
  ∃ w, r.2.log = st.log ++ w ∧
    match r.1 with
    | none => ClosedTwice w
    | some e => ∃ ns, UnwoundIO e file ns w

theorem LogShape.ok {st st' : St} {file : Bytes} {w : List Event} (hw : st'.log = st.log ++ w)
    (h : ClosedTwice w) : LogShape st file (none, st') := ⟨w, hw, h⟩

theorem LogShape.fail {st st' : St} {file : Bytes} {e : FailureIO} {ns : List Bytes} {w : List Event}
    (hw : st'.log = st.log ++ w) (h : UnwoundIO e file ns w) : LogShape st file (some e, st') := ⟨w, hw, ns, h⟩

/-- a failure that arises in `file` itself and adds nothing to the log -/
theorem LogShape.plainHere (st : St) (file : Bytes) (e : FailureIO)
    (h1 : ∀ f l n, e ≠ .base (.recursive f l n)) (h2 : ∀ f l n, e ≠ .closeErr f l n)
    (h3 : ∀ g, e.file? = some g → g = file) : LogShape st file (some e, st) := by
  refine LogShape.fail (ns := []) (w := [] ++ []) (by simp) (.here .nil (.plain h1 h2) h3)

theorem parseLinesIO_shape (cfg : Cfg) (ign : Bool) (h : IncludeHandlerIO) (file : Bytes) (tooLong rf : Bool)
    (hh : ∀ n l st, LogShape st file (h n file l st))
    (lines : List Bytes) (lineNo : Nat) (vb : Option Bytes) (st : St) :
    LogShape st file (parseLinesIO cfg ign h file tooLong rf lines lineNo vb st) := by
  induction lines generalizing lineNo vb st with
  | nil =>
    simp only [parseLinesIO]
    cases tooLong with
    | true =>
      exact LogShape.plainHere st file _ (by intros; simp) (by intros; simp) (by intro g hg; simp [FailureIO.file?] at hg)
    | false =>
      cases rf with
      | true =>
        exact LogShape.plainHere st file _ (by intros; simp) (by intros; simp) (by intro g hg; simp [FailureIO.file?] at hg)
      | false =>
        cases vb with
        | none => exact LogShape.ok (w := []) (by simp) .nil
        | some v =>
          exact LogShape.plainHere st file _ (by intros; simp) (by intros; simp)
            (by intro g hg; simp [FailureIO.file?] at hg; exact hg.symm)
  | cons raw ls ih =>
    simp only [parseLinesIO]
    rcases stepLineIO_cases cfg ign h file lineNo vb st raw with
      ⟨vb', st', hs, hl⟩ | ⟨c, hs⟩ | ⟨n, _, _, hs⟩
    · rw [hs]
      obtain ⟨w, hw, hsh⟩ := ih (lineNo + 1) vb' st'
      exact ⟨w, by rw [hw, hl], hsh⟩
    · rw [hs]
      exact LogShape.plainHere st file _ (by intros; simp) (by intros; simp)
        (by intro g hg; simp [FailureIO.file?] at hg; exact hg.symm)
    · rw [hs]
      obtain ⟨w1, hw1, hsh1⟩ := hh n lineNo st
      rcases hr : h n file lineNo st with ⟨_ | e, st1⟩
      · simp only [StepIO.ofResult]
        rw [hr] at hw1 hsh1
        obtain ⟨w2, hw2, hsh2⟩ := ih (lineNo + 1) none st1
        refine ⟨w1 ++ w2, by rw [hw2, hw1, List.append_assoc], ?_⟩
        rcases hres : (parseLinesIO cfg ign h file tooLong rf ls (lineNo + 1) none st1).1 with _ | e2
        · rw [hres] at hsh2
          exact ClosedTwice.append hsh1 hsh2
        · rw [hres] at hsh2
          obtain ⟨ns, hu⟩ := hsh2
          exact ⟨ns, hu.prepend hsh1⟩
      · simp only [StepIO.ofResult]
        rw [hr] at hw1 hsh1
        exact ⟨w1, hw1, hsh1⟩

theorem parseFileFixIO_shape (cfg : Cfg) (ign : Bool) (fs : FSIO) (path : List Bytes) (file text : Bytes)
    (rf : Bool) (st : St) : LogShape st file (parseFileFixIO cfg ign fs path file text rf st) := by
  induction hm : unvisited fs.erase path using Nat.strongRecOn generalizing path file text rf st with
  | _ m ih =>
    rw [parseFileFixIO_eq]
    apply parseLinesIO_shape
    intro n l st0
    rcases opt_cases (fs.lookup n) with hl | ⟨en, hl⟩
    · rw [fixHandlerIO_none cfg ign fs path n file l st0 hl]
      exact LogShape.plainHere st0 file _ (by intros; simp) (by intros; simp)
        (by intro g hg; simp [FailureIO.file?] at hg; exact hg.symm)
    · rcases bool_cases (path.contains n) with hp | hp
      · rw [fixHandlerIO_onPath cfg ign fs path n en file l st0 hl hp]
        refine LogShape.fail (ns := []) (w := [] ++ [Event.opened n, Event.closed n])
          (by simp [St.opened, St.closed]) (.here .nil (.reopened file l n) ?_)
        intro g hg; simp [FailureIO.file?] at hg; exact hg.symm
      · rw [fixHandlerIO_rec cfg ign fs path n en file l st0 hl hp]
        have hlt : unvisited fs.erase (n :: path) < m := by
          rw [← hm]; exact unvisitedIO_lt fs path n en hl hp
        obtain ⟨w, hw, hsh⟩ := ih _ hlt (n :: path) n en.1 en.2.1 (st0.opened n) rfl
        rcases hres : parseFileFixIO cfg ign fs (n :: path) n en.1 en.2.1 (st0.opened n) with ⟨_ | e2, st2⟩
        · rw [hres] at hw hsh
          simp only [St.opened] at hw
          simp only [afterIncludeIO]
          cases hc : en.2.2 with
          | false =>
            refine LogShape.ok (w := Event.opened n :: (w ++ Event.closed n :: Event.closed n :: []))
              (by simp [St.closed, hw]) (.file n hsh .nil)
          | true =>
            refine LogShape.fail (ns := [])
              (w := [] ++ Event.opened n :: (w ++ [Event.closed n, Event.closed n]))
              (by simp [St.closed, hw]) (.here .nil (.closeFailed file l n hsh) ?_)
            intro g hg; simp [FailureIO.file?] at hg; exact hg.symm
        · rw [hres] at hw hsh
          simp only [St.opened] at hw
          obtain ⟨ns, hu⟩ := hsh
          simp only [afterIncludeIO]
          exact LogShape.fail (ns := n :: ns) (w := [] ++ Event.opened n :: (w ++ [Event.closed n]))
            (by simp [St.closed, hw]) (.into n .nil hu)

/-- the log of `ParseFile` over a file system with failure flags, root present: the root's handle is
    opened first and closed last, ONCE; in between, by outcome, `ClosedTwice` or `UnwoundIO` -/
theorem parseFileIO_log_shape (cfg : Cfg) (ign : Bool) (fs : FSIO) (root : Bytes) (en : Bytes × Bool × Bool)
    (hl : fs.lookup root = some en) :
    ∃ w, (parseFileIO cfg ign fs root).2.log = Event.opened root :: (w ++ [Event.closed root]) ∧
      match (parseFileIO cfg ign fs root).1 with
      | none => ClosedTwice w
      | some e => ∃ ns, UnwoundIO e root ns w := by
  obtain ⟨w, hw, hsh⟩ := parseFileFixIO_shape cfg ign fs [root] root en.1 en.2.1 (St.opened {} root)
  rw [parseFileIO_some cfg ign fs root en hl]
  refine ⟨w, ?_, hsh⟩
  simp only [St.closed]
  rw [hw]
  simp [St.opened]

/-- WELL NESTED PER HANDLE: every file system, any flags, every outcome -/
theorem parseFileIO_nested (cfg : Cfg) (ign : Bool) (fs : FSIO) (root : Bytes) :
    Nested (parseFileIO cfg ign fs root).2.log := by
  rcases opt_cases (fs.lookup root) with hl | ⟨en, hl⟩
  · rw [parseFileIO_none cfg ign fs root hl]; exact .nil
  · obtain ⟨w, hw, hsh⟩ := parseFileIO_log_shape cfg ign fs root en hl
    rw [hw]
    have hn : Nested w := by
      rcases hres : (parseFileIO cfg ign fs root).1 with _ | e
      · rw [hres] at hsh; exact hsh.nested
      · rw [hres] at hsh; obtain ⟨ns, hu⟩ := hsh; exact hu.nested
    have := Nested.file root false hn Nested.nil
    simpa using this

theorem parseFileIO_close_counts (cfg : Cfg) (ign : Bool) (fs : FSIO) (root n : Bytes) :
    (parseFileIO cfg ign fs root).2.log.count (Event.opened n) ≤ (parseFileIO cfg ign fs root).2.log.count (Event.closed n) ∧
    (parseFileIO cfg ign fs root).2.log.count (Event.closed n) ≤ 2 * (parseFileIO cfg ign fs root).2.log.count (Event.opened n) :=
  (parseFileIO_nested cfg ign fs root).count_le n

/-- the audit's log: root → a → a.  The re-opened handle of `a` is never closed, yet every open is
    followed by a close of that NAME; it is not well nested -/
theorem opensClosed_by_name_only :
    OpensClosed [Event.opened nmRoot, Event.opened nmA, Event.opened nmA, Event.closed nmA, Event.closed nmRoot] ∧
    ¬ Nested [Event.opened nmRoot, Event.opened nmA, Event.opened nmA, Event.closed nmA, Event.closed nmRoot] := by
  constructor
  · intro pre n post h
    match pre, h with
    | [], h => simp at h; obtain ⟨rfl, rfl⟩ := h; simp
    | [_], h => simp at h; obtain ⟨_, rfl, rfl⟩ := h; simp
    | [_, _], h => simp at h; obtain ⟨_, _, rfl, rfl⟩ := h; simp
    | [_, _, _], h => simp at h
    | [_, _, _, _], h => simp at h
    | _ :: _ :: _ :: _ :: _ :: rest, h => cases rest <;> simp at h
  · intro h
    exact absurd (h.count_le nmA).1 (by decide)

/-- root → a → a (self-include), the `Close` of `a` fails: `a` is open twice when the cycle is found -/
def fsSelfCycleCloseFails : FSIO := [(nmRoot, inc nmA, false, false), (nmA, inc nmA, false, true)]

/-- root → a → b, the reader of `b` fails -/
def fsReadFailsDeep : FSIO :=
  [(nmRoot, inc nmA ++ textLeaf, false, false), (nmA, inc nmB ++ textLeaf, false, false), (nmB, textLeaf, true, false)]

end RV.DictParser
