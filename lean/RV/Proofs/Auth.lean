/- Helper lemmas about RV.Model.Auth used by RV.Props.C03. -/
import RV.Model.Auth
import RV.Proofs.Wire
namespace RV
end RV
