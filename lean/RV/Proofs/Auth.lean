/- Helper lemmas about RV.Model.Auth used by RV.Props.C03. -/
import RV.Model.Auth
import RV.Proofs.Wire
namespace RV

/-! ### code tables -/

theorem encodeClass_eq_rfc (c : Int) : encodeClass c = Rfc.encClass c := by
  unfold Rfc.encClass
  split <;> simp_all [encodeClass]

theorem requestClass_eq_rfc (c : Nat) : requestClass c = Rfc.reqClass c := by
  unfold Rfc.reqClass
  split <;> simp_all [requestClass]

/-- on 0..255 the request switch is the encoder switch read on the code octet -/
theorem reqClass_of_encClass_hashZero (c : Int) (h : Rfc.encClass c = .hashZero) :
    Rfc.reqClass c.toNat = .hashZero := by
  unfold Rfc.encClass at h
  split at h <;> first | rfl | cases h

theorem reqClass_of_encClass_verbatim (c : Int) (h : Rfc.encClass c = .verbatim) :
    Rfc.reqClass c.toNat = .always := by
  unfold Rfc.encClass at h
  split at h <;> first | rfl | cases h

/-! ### shape of a marshalled datagram -/

theorem marshal_ok_shape (p : Packet) (b : Bytes) (h : marshal p = .ok b) :
    ∃ n body, b = header p.code p.id n p.auth ++ body := by
  rw [marshal_eq] at h
  split at h
  · cases h; exact ⟨_, _, rfl⟩
  · cases h

theorem marshal_ok_length (p : Packet) (b : Bytes) (h : marshal p = .ok b)
    (ha : p.auth.length = 16) : 20 ≤ b.length := by
  obtain ⟨n, body, rfl⟩ := marshal_ok_shape p b h
  rw [List.length_append, header_length, ha]; omega

theorem marshal_ok_code (p : Packet) (b : Bytes) (h : marshal p = .ok b) :
    b.getD 0 0 = codeByte p.code := by
  obtain ⟨n, body, rfl⟩ := marshal_ok_shape p b h
  simp [header]

theorem marshal_ok_auth (p : Packet) (b : Bytes) (h : marshal p = .ok b)
    (ha : p.auth.length = 16) : (b.drop 4).take 16 = p.auth := by
  obtain ⟨n, body, rfl⟩ := marshal_ok_shape p b h
  simp [header, ha]

/-! ### putAuth / authInput -/

theorem putAuth_take4 (b h : Bytes) (hb : 4 ≤ b.length) : (putAuth b h).take 4 = b.take 4 := by
  unfold putAuth
  rw [List.append_assoc, List.take_append_of_le_length (by simp; omega), List.take_take,
    Nat.min_self]

theorem putAuth_drop4 (b h : Bytes) (hb : 4 ≤ b.length) :
    (putAuth b h).drop 4 = h ++ b.drop 20 := by
  unfold putAuth
  rw [List.append_assoc, List.drop_append_of_le_length (by simp; omega)]
  simp [List.drop_eq_nil_of_le, hb]

theorem putAuth_auth (b h : Bytes) (hb : 4 ≤ b.length) (hh : h.length = 16) :
    ((putAuth b h).drop 4).take 16 = h := by
  rw [putAuth_drop4 b h hb, List.take_append_of_le_length (by omega)]
  exact List.take_of_length_le (by omega)

theorem putAuth_drop20 (b h : Bytes) (hb : 4 ≤ b.length) (hh : h.length = 16) :
    (putAuth b h).drop 20 = b.drop 20 := by
  have : (putAuth b h).drop 20 = ((putAuth b h).drop 4).drop 16 := by simp
  rw [this, putAuth_drop4 b h hb, List.drop_append_of_le_length (by omega)]
  simp [List.drop_eq_nil_of_le, hh]

theorem putAuth_length (b h : Bytes) (hb : 20 ≤ b.length) (hh : h.length = 16) :
    (putAuth b h).length = b.length := by
  simp [putAuth, hh]; omega

theorem putAuth_getD0 (b h : Bytes) (hb : 4 ≤ b.length) :
    (putAuth b h).getD 0 0 = b.getD 0 0 := by
  match b, hb with
  | a :: b :: c :: d :: rest, _ => simp [putAuth]

theorem authInput_putAuth (b h a s : Bytes) (hb : 4 ≤ b.length) (hh : h.length = 16) :
    authInput (putAuth b h) a s = authInput b a s := by
  unfold authInput
  rw [putAuth_take4 b h hb, putAuth_drop20 b h hb hh]

theorem replyAuth_eq (H : Hash) (w a s : Bytes) : Rfc.replyAuth H w a s = H (authInput w a s) := rfl

/-! ### encode -/

theorem encode_ok_cases (H : Hash) (p : Packet) (w : Bytes) (h : encode H p = .ok w) :
    ∃ b, marshal p = .ok b ∧
      (match Rfc.encClass p.code with
       | .verbatim => w = b
       | .hashReqAuth => w = putAuth b (H (authInput b p.auth p.secret))
       | .hashZero => w = putAuth b (H (authInput b (zeros 16) p.secret))
       | .refused => False) := by
  unfold encode at h
  rw [encodeClass_eq_rfc] at h
  cases hm : marshal p with
  | ok b =>
    rw [hm] at h
    refine ⟨b, rfl, ?_⟩
    cases hc : Rfc.encClass p.code <;> rw [hc] at h <;> simp_all
  | err => rw [hm] at h; cases h
  | fault => rw [hm] at h; cases h

theorem encode_ok_of (H : Hash) (p : Packet) (b : Bytes) (hm : marshal p = .ok b)
    (hc : Rfc.encClass p.code ≠ .refused) : ∃ w, encode H p = .ok w := by
  unfold encode
  rw [encodeClass_eq_rfc, hm]
  cases hc' : Rfc.encClass p.code <;> simp_all

theorem encode_ne_fault (H : Hash) (p : Packet) : encode H p ≠ .fault := by
  unfold encode
  have := marshal_ne_fault p
  cases hm : marshal p with
  | ok b => cases encodeClass p.code <;> simp
  | err => simp
  | fault => exact absurd hm this

theorem encode_ok_iff_cond (H : Hash) (p : Packet) :
    (∃ w, encode H p = .ok w) ↔ (Rfc.encClass p.code ≠ .refused ∧ ∃ b, marshal p = .ok b) := by
  constructor
  · rintro ⟨w, h⟩
    obtain ⟨b, hm, hcase⟩ := encode_ok_cases H p w h
    refine ⟨?_, b, hm⟩
    intro hc; rw [hc] at hcase; exact hcase
  · rintro ⟨hc, b, hm⟩
    exact encode_ok_of H p b hm hc

theorem encode_refused (H : Hash) (p : Packet) (h : Rfc.encClass p.code = .refused) (w : Bytes) :
    encode H p ≠ .ok w := by
  intro he
  obtain ⟨b, _, hcase⟩ := encode_ok_cases H p w he
  rw [h] at hcase; exact hcase

theorem encode_auth_field (H : Hash) (hH : ∀ x, (H x).length = 16) (p : Packet) (w : Bytes)
    (ha : p.auth.length = 16) (h : encode H p = .ok w) :
    (w.drop 4).take 16 =
      (match Rfc.encClass p.code with
       | .verbatim => p.auth
       | .hashZero => Rfc.replyAuth H w (zeros 16) p.secret
       | .hashReqAuth => Rfc.replyAuth H w p.auth p.secret
       | .refused => []) ∧
    ∃ b, marshal p = .ok b ∧ w.take 4 = b.take 4 ∧ w.drop 20 = b.drop 20 ∧ w.length = b.length := by
  obtain ⟨b, hm, hcase⟩ := encode_ok_cases H p w h
  have hb := marshal_ok_length p b hm ha
  have hb4 : 4 ≤ b.length := by omega
  cases hc : Rfc.encClass p.code <;> rw [hc] at hcase <;> simp only []
  · subst hcase
    exact ⟨marshal_ok_auth p w hm ha, w, hm, rfl, rfl, rfl⟩
  · subst hcase
    refine ⟨?_, b, hm, putAuth_take4 _ _ hb4, putAuth_drop20 _ _ hb4 (hH _),
      putAuth_length _ _ hb (hH _)⟩
    rw [putAuth_auth _ _ hb4 (hH _), replyAuth_eq, authInput_putAuth _ _ _ _ hb4 (hH _)]
  · subst hcase
    refine ⟨?_, b, hm, putAuth_take4 _ _ hb4, putAuth_drop20 _ _ hb4 (hH _),
      putAuth_length _ _ hb (hH _)⟩
    rw [putAuth_auth _ _ hb4 (hH _), replyAuth_eq, authInput_putAuth _ _ _ _ hb4 (hH _)]
  · exact hcase.elim

/-! ### predicates -/

theorem bytes_ne_nil_iff (s : Bytes) : ¬ s.length = 0 ↔ s ≠ [] := by
  simp

theorem isAuthenticResponse_iff_rfc (H : Hash) (r q s : Bytes) :
    isAuthenticResponse H r q s = true ↔
      20 ≤ r.length ∧ 20 ≤ q.length ∧ s ≠ [] ∧
      (r.drop 4).take 16 = Rfc.replyAuth H r ((q.drop 4).take 16) s := by
  unfold isAuthenticResponse
  rw [replyAuth_eq]
  split
  · rename_i hc
    constructor
    · intro h; cases h
    · rintro ⟨h1, h2, h3, _⟩
      rcases hc with hc | hc | hc
      · omega
      · omega
      · exact absurd (List.eq_nil_of_length_eq_zero hc) h3
  · rename_i hc
    have h1 : 20 ≤ r.length := by omega
    have h2 : 20 ≤ q.length := by omega
    have h3 : s ≠ [] := by
      intro hs; apply hc; right; right; simp [hs]
    rw [beq_iff_eq]
    constructor
    · intro h; exact ⟨h1, h2, h3, h.symm⟩
    · rintro ⟨_, _, _, h⟩; exact h.symm

theorem isAuthenticRequest_iff_rfc (H : Hash) (q s : Bytes) :
    isAuthenticRequest H q s = true ↔
      20 ≤ q.length ∧ s ≠ [] ∧
      (match Rfc.reqClass (q.getD 0 0).toNat with
       | .always => True
       | .hashZero => (q.drop 4).take 16 = Rfc.replyAuth H q (zeros 16) s
       | .never => False) := by
  unfold isAuthenticRequest
  rw [replyAuth_eq, requestClass_eq_rfc]
  split
  · rename_i hc
    constructor
    · intro h; cases h
    · rintro ⟨h1, h3, _⟩
      rcases hc with hc | hc
      · omega
      · exact absurd (List.eq_nil_of_length_eq_zero hc) h3
  · rename_i hc
    have h1 : 20 ≤ q.length := by omega
    have h3 : s ≠ [] := by
      intro hs; apply hc; right; simp [hs]
    cases Rfc.reqClass (q.getD 0 0).toNat
    · simp [h1, h3]
    · simp only [beq_iff_eq]
      constructor
      · intro h; exact ⟨h1, h3, h.symm⟩
      · rintro ⟨_, _, h⟩; exact h.symm
    · simp

/-! ### consistency -/

theorem response_verifies_aux (H : Hash) (hH : ∀ x, (H x).length = 16)
    (req : Packet) (reqWire : Bytes) (code : Int) (attrs : Attrs) (w : Bytes)
    (hq : 20 ≤ reqWire.length) (hqa : (reqWire.drop 4).take 16 = req.auth) (ha : req.auth.length = 16)
    (hs : req.secret ≠ [])
    (hc : Rfc.encClass code = .hashReqAuth)
    (h : encode H { response req code with attrs := attrs } = .ok w) :
    isAuthenticResponse H w reqWire req.secret = true := by
  rw [isAuthenticResponse_iff_rfc]
  obtain ⟨hauth, b, hm, _, _, hlen⟩ := encode_auth_field H hH _ w (by exact ha) h
  have hb := marshal_ok_length _ b hm (by exact ha)
  simp only [response] at hauth
  rw [hc] at hauth
  simp only [] at hauth
  refine ⟨by omega, hq, hs, ?_⟩
  rw [hqa]; exact hauth

theorem request_verifies_aux (H : Hash) (hH : ∀ x, (H x).length = 16) (p : Packet) (w : Bytes)
    (ha : p.auth.length = 16) (hs : p.secret ≠ [])
    (hc : Rfc.encClass p.code = .hashZero ∨ Rfc.encClass p.code = .verbatim)
    (hcode : 0 ≤ p.code ∧ p.code ≤ 255)
    (h : encode H p = .ok w) :
    isAuthenticRequest H w p.secret = true := by
  rw [isAuthenticRequest_iff_rfc]
  obtain ⟨hauth, b, hm, ht4, _, hlen⟩ := encode_auth_field H hH p w ha h
  have hb := marshal_ok_length p b hm ha
  have hw : 20 ≤ w.length := by omega
  have hcb : w.getD 0 0 = codeByte p.code := by
    have h1 := take4_eq w (by omega)
    have h2 := take4_eq b (by omega)
    rw [ht4, h2] at h1
    have := marshal_ok_code p b hm
    simp only [List.cons.injEq] at h1
    rw [← h1.1]; exact this
  have hnat : (w.getD 0 0).toNat = p.code.toNat := by
    rw [hcb]
    have := codeByte_cast hcode.1 hcode.2
    omega
  refine ⟨hw, hs, ?_⟩
  rw [hnat]
  rcases hc with hc | hc
  · rw [reqClass_of_encClass_hashZero _ hc]
    rw [hc] at hauth
    exact hauth
  · rw [reqClass_of_encClass_verbatim _ hc]
    trivial

/-! ### tampering -/

theorem authInput_injective (r r' a a' s s' : Bytes)
    (hr : 20 ≤ r.length) (hr' : 20 ≤ r'.length) (ha : a.length = 16) (ha' : a'.length = 16)
    (hs : s.length = s'.length)
    (h : authInput r a s = authInput r' a' s') :
    r.take 4 = r'.take 4 ∧ a = a' ∧ r.drop 20 = r'.drop 20 ∧ s = s' := by
  unfold authInput at h
  simp only [List.append_assoc] at h
  have h4 : (r.take 4).length = (r'.take 4).length := by simp; omega
  obtain ⟨e1, h⟩ := List.append_inj h h4
  obtain ⟨e2, h⟩ := List.append_inj h (by omega)
  obtain ⟨e3, e4⟩ := List.append_inj' h hs
  exact ⟨e1, e2, e3, e4⟩

/-! ### New -/

theorem newPacket_fields (rnd : Bytes) (c : Int) (s : Bytes) (h : rnd.length = 17) :
    (newPacket rnd c s).id = rnd.getD 0 0 ∧ (newPacket rnd c s).auth = rnd.drop 1 ∧
    (newPacket rnd c s).auth.length = 16 ∧ (newPacket rnd c s).code = c ∧
    (newPacket rnd c s).secret = s ∧ (newPacket rnd c s).attrs = [] := by
  have : (rnd.drop 1).take 16 = rnd.drop 1 := List.take_of_length_le (by simp; omega)
  refine ⟨rfl, this, ?_, rfl, rfl, rfl⟩
  simp [newPacket]; omega

/-! ### The entropy source as an `io.Reader` (short reads) -/

theorem readFull_some (lims : List Nat) (need : Nat) (src got rest : Bytes)
    (h : readFull lims need src = some (got, rest)) :
    got = src.take need ∧ rest = src.drop need := by
  induction lims generalizing need src got rest with
  | nil =>
    cases need with
    | zero => simp [readFull] at h; obtain ⟨rfl, rfl⟩ := h; simp
    | succ n => simp [readFull] at h
  | cons l ls ih =>
    cases need with
    | zero => simp [readFull] at h; obtain ⟨rfl, rfl⟩ := h; simp
    | succ n =>
      simp only [readFull] at h
      split at h
      · exact absurd h (by simp)
      · rename_i hlen
        split at h
        · rename_i g r hrec
          obtain ⟨hg, hr⟩ := ih _ _ _ _ hrec
          simp only [Option.some.injEq, Prod.mk.injEq] at h
          obtain ⟨rfl, rfl⟩ := h
          have hn : min (max l 1) (n + 1) ≤ n + 1 := Nat.min_le_right _ _
          refine ⟨?_, ?_⟩
          · rw [hg]
            have e : n + 1 = min (max l 1) (n + 1) + (n + 1 - min (max l 1) (n + 1)) := by omega
            conv => rhs; rw [e, List.take_add]
          · rw [hr, List.drop_drop]; congr 1; omega
        · exact absurd h (by simp)

theorem readFull_isSome (lims : List Nat) (need : Nat) (src : Bytes)
    (hl : need ≤ lims.length) (hs : need ≤ src.length) : (readFull lims need src).isSome := by
  induction lims generalizing need src with
  | nil => have : need = 0 := by simpa using hl
           subst this; simp [readFull]
  | cons l ls ih =>
    cases need with
    | zero => simp [readFull]
    | succ n =>
      simp only [readFull]
      have hn1 : 1 ≤ min (max l 1) (n + 1) := by omega
      have hn : min (max l 1) (n + 1) ≤ n + 1 := Nat.min_le_right _ _
      rw [if_neg (by omega)]
      have := ih (n + 1 - min (max l 1) (n + 1)) (src.drop (min (max l 1) (n + 1)))
        (by simp at hl; omega) (by simp; omega)
      cases hr : readFull ls (n + 1 - min (max l 1) (n + 1)) (src.drop (min (max l 1) (n + 1))) with
      | none => simp [hr] at this
      | some v => simp

theorem readFull_none_of_short (lims : List Nat) (need : Nat) (src : Bytes) (hs : src.length < need) :
    readFull lims need src = none := by
  cases h : readFull lims need src with
  | none => rfl
  | some v =>
    obtain ⟨g, r⟩ := v
    have := readFull_some lims need src g r h
    -- length of got: need? derive contradiction via structure
    exfalso
    induction lims generalizing need src g r with
    | nil => cases need with
      | zero => omega
      | succ n => simp [readFull] at h
    | cons l ls ih =>
      cases need with
      | zero => omega
      | succ n =>
        simp only [readFull] at h
        split at h
        · simp at h
        · rename_i hlen
          split at h
          · rename_i g' r' hrec
            have hn1 : 1 ≤ min (max l 1) (n + 1) := by omega
            exact ih (n + 1 - min (max l 1) (n + 1)) (src.drop (min (max l 1) (n + 1))) (by simp; omega) g' r' hrec
              (readFull_some _ _ _ _ _ hrec)
          · simp at h

theorem newFromReader_eq (lims : List Nat) (src : Bytes) (c : Int) (s : Bytes) (hl : 17 ≤ lims.length) :
    newFromReader lims src c s = newFrom src c s := by
  unfold newFromReader newFrom
  by_cases hs : src.length < 17
  · rw [readFull_none_of_short lims 17 src hs, if_pos hs]
  · rw [if_neg hs]
    have h := readFull_isSome lims 17 src hl (by omega)
    cases hr : readFull lims 17 src with
    | none => simp [hr] at h
    | some v =>
      obtain ⟨g, r⟩ := v
      obtain ⟨rfl, rfl⟩ := readFull_some lims 17 src g r hr
      rfl

end RV
