/-
  The named value constants and `String()` of an integer-kind attribute against the dictionary's
  VALUE declarations (RV/Model/ValueConsts.lean), over an arbitrary VALUE list.
-/
import RV.Model.ValueConsts
import RV.Proofs.GenBasic
namespace RV.Gen
open RV.Dict

/-! ### `attrValues` is `lastWins` of this attribute's VALUEs -/

def avStep (attrName : Bytes) (acc : List Value) (v : Value) : List Value :=
  if v.attrName == attrName then
    match acc.getLast? with
    | some l => if l.number == v.number then acc.dropLast ++ [v] else acc ++ [v]
    | none => [v]
  else acc

theorem attrValues_eq_foldl (attrName : Bytes) (all : List Value) :
    attrValues attrName all = all.foldl (avStep attrName) [] := rfl

theorem foldl_avStep_snoc (attrName : Bytes) (l : List Value) (init : List Value) (x : Value) :
    l.foldl (avStep attrName) (init ++ [x]) =
      init ++ lastWins (x :: l.filter (fun v => v.attrName == attrName)) := by
  induction l generalizing init x with
  | nil => simp [lastWins]
  | cons v l ih =>
    rw [List.foldl_cons]
    by_cases hm : (v.attrName == attrName) = true
    · have hf : (v :: l).filter (fun v => v.attrName == attrName) = v :: l.filter (fun v => v.attrName == attrName) := by
        rw [List.filter_cons, if_pos hm]
      rw [hf]
      by_cases he : (x.number == v.number) = true
      · have hs : avStep attrName (init ++ [x]) v = init ++ [v] := by
          unfold avStep
          rw [if_pos hm]
          simp [he]
        rw [hs, ih, lastWins, if_pos he]
      · have hs : avStep attrName (init ++ [x]) v = (init ++ [x]) ++ [v] := by
          unfold avStep
          rw [if_pos hm]
          simp [he]
        rw [hs, ih, lastWins, if_neg he]
        simp
    · have hf : (v :: l).filter (fun v => v.attrName == attrName) = l.filter (fun v => v.attrName == attrName) := by
        rw [List.filter_cons, if_neg hm]
      have hs : avStep attrName (init ++ [x]) v = init ++ [x] := by
        unfold avStep; rw [if_neg hm]
      rw [hf, hs, ih]

/-- the generator's loop keeps, of this attribute's VALUEs, the last of each run of equal numbers -/
theorem attrValues_eq_lastWins (attrName : Bytes) (all : List Value) :
    attrValues attrName all = lastWins (all.filter (fun v => v.attrName == attrName)) := by
  rw [attrValues_eq_foldl]
  induction all with
  | nil => rfl
  | cons v l ih =>
    rw [List.foldl_cons]
    by_cases hm : (v.attrName == attrName) = true
    · have hs : avStep attrName [] v = [] ++ [v] := by unfold avStep; rw [if_pos hm]; rfl
      rw [hs, foldl_avStep_snoc, List.filter_cons, if_pos hm]; rfl
    · have hs : avStep attrName [] v = [] := by unfold avStep; rw [if_neg hm]
      rw [hs, ih, List.filter_cons, if_neg hm]

/-! ### properties of `lastWins` -/

theorem lastWins_sublist (l : List Value) : (lastWins l).Sublist l := by
  fun_induction lastWins l with
  | case1 => exact List.Sublist.refl _
  | case2 v => exact List.Sublist.refl _
  | case3 v w rest he ih => exact List.Sublist.cons _ ih
  | case4 v w rest he ih => exact List.Sublist.cons_cons _ ih

theorem lastWins_mem (l : List Value) (v : Value) (h : v ∈ lastWins l) : v ∈ l :=
  (lastWins_sublist l).subset h

/-- every declared number keeps a representative -/
theorem lastWins_covers (l : List Value) (v : Value) (h : v ∈ l) :
    ∃ v' ∈ lastWins l, v'.number = v.number := by
  fun_induction lastWins l generalizing v with
  | case1 => cases h
  | case2 x => exact ⟨v, by simpa [lastWins] using h, rfl⟩
  | case3 x w rest he ih =>
    rcases List.mem_cons.1 h with rfl | h'
    · obtain ⟨v', hv', hn⟩ := ih w List.mem_cons_self
      exact ⟨v', hv', by rw [hn]; exact (beq_iff_eq.1 he).symm⟩
    · exact ih v h'
  | case4 x w rest he ih =>
    rcases List.mem_cons.1 h with rfl | h'
    · exact ⟨v, List.mem_cons_self, rfl⟩
    · obtain ⟨v', hv', hn⟩ := ih v h'
      exact ⟨v', List.mem_cons_of_mem _ hv', hn⟩

/-- sorted input ⇒ strictly increasing numbers in the output -/
theorem lastWins_strict (l : List Value) (hs : l.Pairwise (fun a b => a.number ≤ b.number)) :
    (lastWins l).Pairwise (fun a b => a.number < b.number) := by
  fun_induction lastWins l with
  | case1 => exact List.Pairwise.nil
  | case2 v => exact List.pairwise_singleton _ _
  | case3 v w rest he ih => exact ih (List.Pairwise.of_cons hs)
  | case4 v w rest he ih =>
    have hs' := List.Pairwise.of_cons hs
    refine List.Pairwise.cons (fun u hu => ?_) (ih hs')
    have hu' : u ∈ w :: rest := lastWins_mem _ _ hu
    have hvw : v.number ≤ w.number := (List.pairwise_cons.1 hs).1 w List.mem_cons_self
    have hne : v.number ≠ w.number := fun e => he (beq_iff_eq.2 e)
    have hwu : w.number ≤ u.number := by
      rcases List.mem_cons.1 hu' with rfl | h
      · exact Nat.le_refl _
      · exact (List.pairwise_cons.1 hs').1 u h
    omega

/-- which declarations survive: exactly those not followed by a declaration with the same number
    (on sorted input: every later declaration has a strictly larger number) -/
theorem lastWins_mem_iff (l : List Value) (hs : l.Pairwise (fun a b => a.number ≤ b.number)) (v : Value) :
    v ∈ lastWins l ↔ ∃ pre post, l = pre ++ v :: post ∧ ∀ w ∈ post, v.number < w.number := by
  constructor
  · intro h
    fun_induction lastWins l with
    | case1 => cases h
    | case2 x =>
      have : v = x := by simpa using h
      subst this
      exact ⟨[], [], rfl, fun w hw => by cases hw⟩
    | case3 x w rest he ih =>
      obtain ⟨pre, post, e, hp⟩ := ih (List.Pairwise.of_cons hs) h
      exact ⟨x :: pre, post, by rw [e]; rfl, hp⟩
    | case4 x w rest he ih =>
      have hs' := List.Pairwise.of_cons hs
      rcases List.mem_cons.1 h with rfl | h'
      · refine ⟨[], w :: rest, rfl, fun u hu => ?_⟩
        have hvw : v.number ≤ w.number := (List.pairwise_cons.1 hs).1 w List.mem_cons_self
        have hne : v.number ≠ w.number := fun e => he (beq_iff_eq.2 e)
        have hwu : w.number ≤ u.number := by
          rcases List.mem_cons.1 hu with rfl | h
          · exact Nat.le_refl _
          · exact (List.pairwise_cons.1 hs').1 u h
        omega
      · obtain ⟨pre, post, e, hp⟩ := ih hs' h'
        exact ⟨x :: pre, post, by rw [e]; rfl, hp⟩
  · rintro ⟨pre, post, e, hp⟩
    clear hs
    fun_induction lastWins l generalizing pre with
    | case1 => cases pre <;> cases e
    | case2 x =>
      cases pre with
      | nil => cases e; exact List.mem_cons_self
      | cons p pre => cases pre <;> cases e
    | case3 x w rest he ih =>
      cases pre with
      | nil =>
        cases e
        have := hp w List.mem_cons_self
        have := beq_iff_eq.1 he
        omega
      | cons p pre =>
        simp only [List.cons_append, List.cons.injEq] at e
        exact ih pre e.2
    | case4 x w rest he ih =>
      cases pre with
      | nil => cases e; exact List.mem_cons_self
      | cons p pre =>
        simp only [List.cons_append, List.cons.injEq] at e
        exact List.mem_cons_of_mem _ (ih pre e.2)

/-! ### the map literal and `String()` -/

theorem mapLookup_of_mem (m : List (Nat × Bytes)) (hn : (m.map (·.1)).Nodup) (k : Nat) (s : Bytes)
    (h : (k, s) ∈ m) : mapLookup m k = some s := by
  induction m with
  | nil => cases h
  | cons e m ih =>
    unfold mapLookup
    rw [List.map_cons, List.nodup_cons] at hn
    rcases List.mem_cons.1 h with rfl | h'
    · simp
    · have hne : e.1 ≠ k := by
        intro he
        apply hn.1
        rw [he]
        exact List.mem_map.2 ⟨(k, s), h', rfl⟩
      rw [List.find?_cons_of_neg (by simpa using hne)]
      exact ih hn.2 h'

theorem mapLookup_none (m : List (Nat × Bytes)) (k : Nat) (h : ∀ e ∈ m, e.1 ≠ k) : mapLookup m k = none := by
  unfold mapLookup
  rw [List.find?_eq_none.2 (by intro e he; simpa using h e he)]
  rfl

theorem sortValues_sorted (vs : List Value) :
    (sortValues vs).Pairwise (fun a b => a.number ≤ b.number) := by
  have := sortStable_pairwise (fun a b : Value => decide (a.number < b.number))
    (by intro a b h; simp at h ⊢; omega) (by intro a b c h1 h2; simp at h1 h2 ⊢; omega) vs
  refine List.Pairwise.imp ?_ this
  intro a b h; simp at h; exact h

end RV.Gen
