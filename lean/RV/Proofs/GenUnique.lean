/- C17 helper lemmas: declared names are pairwise distinct. -/
import RV.Proofs.GenBasic
namespace RV.Gen
open RV.Dict RV.Gen.Spec

/-! ### splitting a name into its alphanumeric prefix and the rest -/

/-- only ASCII letters and digits -/
private def clean (x : Bytes) : Prop := ∀ c ∈ x, isAlnum c = true
/-- empty, or starting with a byte that is not a letter or digit -/
private def good : Bytes → Bool
  | [] => true
  | c :: _ => !isAlnum c
private def own (n : Bytes) : Bytes := n.takeWhile isAlnum
private def rest (n : Bytes) : Bytes := n.dropWhile isAlnum

private theorem own_append {x s : Bytes} (hx : clean x) (hs : good s = true) : own (x ++ s) = x := by
  induction x with
  | nil =>
    cases s with
    | nil => rfl
    | cons c r =>
      have : isAlnum c = false := by simpa [good] using hs
      simp [own, this]
  | cons a x ih =>
    have ha : isAlnum a = true := hx a (by simp)
    have := ih (fun c hc => hx c (by simp [hc]))
    simp only [own] at this ⊢
    simp [ha, this]

private theorem rest_append {x s : Bytes} (hx : clean x) (hs : good s = true) : rest (x ++ s) = s := by
  induction x with
  | nil =>
    cases s with
    | nil => rfl
    | cons c r =>
      have : isAlnum c = false := by simpa [good] using hs
      simp [rest, this]
  | cons a x ih =>
    have ha : isAlnum a = true := hx a (by simp)
    have := ih (fun c hc => hx c (by simp [hc]))
    simp only [rest] at this ⊢
    simp [ha, this]

private theorem clean_ident (n : Bytes) : clean (identifier n) := identifier_alnum n

private theorem split_inj {x x' s s' : Bytes} (hx : clean x) (hx' : clean x') (hs : good s = true) (hs' : good s' = true)
    (h : x ++ s = x' ++ s') : x = x' ∧ s = s' := by
  have h1 := congrArg own h
  have h2 := congrArg rest h
  rw [own_append hx hs, own_append hx' hs'] at h1
  rw [rest_append hx hs, rest_append hx' hs'] at h2
  exact ⟨h1, h2⟩

/-! ### the names declared for one attribute -/

def ident (a : Attribute) : Bytes := identifier a.name

private def strSfx : List Bytes :=
  [bs "_Add", bs "_AddString", bs "_Get", bs "_GetString", bs "_Gets", bs "_GetStrings", bs "_Lookup",
   bs "_LookupString", bs "_Set", bs "_SetString", bs "_Del"]
private def concatSfx : List Bytes :=
  [bs "_Get", bs "_GetString", bs "_Lookup", bs "_LookupString", bs "_Set", bs "_SetString", bs "_Del"]
private def simpleSfx : List Bytes :=
  [bs "_Add", bs "_Get", bs "_Gets", bs "_Lookup", bs "_Set", bs "_Del"]
private def intTailSfx : List Bytes :=
  [bs "_Strings", bs ".String", bs "_Add", bs "_Get", bs "_Gets", bs "_Lookup", bs "_Set", bs "_Del"]
private def intSfx (vis : List Bytes) : List Bytes :=
  [[]] ++ vis.map (bs "_Value_" ++ ·) ++ intTailSfx

/-- suffix is fine: starts with a non-alphanumeric byte (or is empty) and is not `_Type` -/
private def sfxOK (s : Bytes) : Prop := good s = true ∧ s ≠ bs "_Type"

private theorem strSfx_ok : strSfx.Nodup ∧ ∀ s ∈ strSfx, sfxOK s := by
  unfold sfxOK; decide
private theorem concatSfx_ok : concatSfx.Nodup ∧ ∀ s ∈ concatSfx, sfxOK s := by
  unfold sfxOK; decide
private theorem simpleSfx_ok : simpleSfx.Nodup ∧ ∀ s ∈ simpleSfx, sfxOK s := by
  unfold sfxOK; decide
private theorem intTailSfx_ok : intTailSfx.Nodup ∧ (∀ s ∈ intTailSfx, sfxOK s) ∧ [] ∉ intTailSfx
    ∧ ∀ s ∈ intTailSfx, s.take 2 ≠ [95, 86] := by
  unfold sfxOK; decide

private theorem intSfx_ok (vis : List Bytes) (h : vis.Nodup) : (intSfx vis).Nodup ∧ ∀ s ∈ intSfx vis, sfxOK s := by
  obtain ⟨h1, h2, h3, h4⟩ := intTailSfx_ok
  have hval : ∀ v : Bytes, (bs "_Value_" ++ v).take 2 = [95, 86] := fun v => rfl
  constructor
  · unfold intSfx
    rw [List.nodup_append, List.nodup_append]
    refine ⟨⟨by simp, ?_, ?_⟩, h1, ?_⟩
    · rw [List.Nodup, List.pairwise_map]
      exact h.imp (fun hne he => hne (List.append_cancel_left he))
    · intro a ha b hb
      simp only [List.mem_singleton] at ha
      simp only [List.mem_map] at hb
      obtain ⟨v, _, rfl⟩ := hb
      subst ha
      intro he
      have := congrArg (List.take 2) he
      rw [hval] at this
      simp at this
    · intro a ha b hb he
      subst he
      simp only [List.mem_append, List.mem_singleton, List.mem_map] at ha
      rcases ha with rfl | ⟨v, _, rfl⟩
      · exact h3 hb
      · exact h4 _ hb (hval v)
  · intro s hs
    simp only [intSfx, List.mem_append, List.mem_singleton, List.mem_map] at hs
    rcases hs with (rfl | ⟨v, _, rfl⟩) | hs
    · exact ⟨rfl, by decide⟩
    · refine ⟨rfl, ?_⟩
      intro he
      have := congrArg (List.take 2) he
      rw [hval] at this
      revert this
      decide
    · exact h2 s hs

private def aNames (vendor : Bool) (a : Attribute) (vals : List Value) : List Bytes :=
  (attrDecls vendor a vals).map (·.name)

/-- VALUE identifiers of an integer attribute are distinct -/
def valsOK (a : Attribute) (vals : List Value) : Prop :=
  isIntKind a.typ = true → ((attrValues a.name vals).map (fun v => identifier v.name)).Nodup

private theorem aNames_sfx (vendor : Bool) (a : Attribute) (vals : List Value) (hv : valsOK a vals) :
    ∃ sfx : List Bytes, aNames vendor a vals = sfx.map (ident a ++ ·) ∧ sfx.Nodup ∧ ∀ s ∈ sfx, sfxOK s := by
  have hint : ∀ (bits : Nat), isIntKind a.typ = true →
      ∃ sfx : List Bytes, (intDecls (ident a) a bits (attrValues a.name vals)).map (·.name) = sfx.map (ident a ++ ·)
        ∧ sfx.Nodup ∧ ∀ s ∈ sfx, sfxOK s := by
    intro bits hk
    have := intSfx_ok _ (hv hk)
    refine ⟨_, ?_, this.1, this.2⟩
    simp [intDecls, intSfx, intTailSfx, fn, Role.suffix, List.map_map, Function.comp_def, List.append_assoc]
  unfold aNames attrDecls
  cases ht : a.typ <;> simp only []
  case string | octets =>
    split
    · exact ⟨concatSfx, rfl, concatSfx_ok.1, concatSfx_ok.2⟩
    · exact ⟨strSfx, rfl, strSfx_ok.1, strSfx_ok.2⟩
  case ipaddr | ipv6addr | ipv6prefix | ifid | date | byte =>
    exact ⟨simpleSfx, rfl, simpleSfx_ok.1, simpleSfx_ok.2⟩
  case short | integer | integer64 =>
    exact hint _ (by rw [ht]; rfl)
  all_goals exact ⟨[], rfl, List.nodup_nil, by simp⟩


private theorem clean_identA (a : Attribute) : clean (ident a) := identifier_alnum a.name

private theorem aNames_nodup (vendor : Bool) (a : Attribute) (vals : List Value) (hv : valsOK a vals) :
    (aNames vendor a vals).Nodup := by
  obtain ⟨sfx, he, hn, _⟩ := aNames_sfx vendor a vals hv
  rw [he, List.Nodup, List.pairwise_map]
  exact hn.imp (fun hne he => hne (List.append_cancel_left he))

private theorem aNames_own (vendor : Bool) (a : Attribute) (vals : List Value) (hv : valsOK a vals) :
    ∀ n ∈ aNames vendor a vals, own n = ident a ∧ rest n ≠ bs "_Type" := by
  obtain ⟨sfx, he, _, hs⟩ := aNames_sfx vendor a vals hv
  intro n hn
  rw [he, List.mem_map] at hn
  obtain ⟨s, hsm, rfl⟩ := hn
  obtain ⟨hg, hne⟩ := hs s hsm
  exact ⟨own_append (clean_identA _) hg, by rw [rest_append (clean_identA _) hg]; exact hne⟩

private def notInit (d : Decl) : Bool := d.role != .extInit

private theorem attrDecls_filter (vendor : Bool) (a : Attribute) (vals : List Value) :
    (attrDecls vendor a vals).filter notInit = attrDecls vendor a vals := by
  rw [List.filter_eq_self]
  intro d hd
  unfold attrDecls at hd
  cases ht : a.typ <;> simp only [ht] at hd
  case string | octets =>
    split at hd
    · simp [concatDecls, fn] at hd
      rcases hd with rfl | rfl | rfl | rfl | rfl | rfl | rfl <;> rfl
    · simp [stringDecls, fn] at hd
      rcases hd with rfl | rfl | rfl | rfl | rfl | rfl | rfl | rfl | rfl | rfl | rfl <;> rfl
  case ipaddr | ipv6addr | ipv6prefix | ifid | date | byte =>
    simp [simpleDecls, fn] at hd
    rcases hd with rfl | rfl | rfl | rfl | rfl | rfl <;> rfl
  case short | integer | integer64 =>
    simp [intDecls, fn] at hd
    rcases hd with rfl | ⟨v, _, rfl⟩ | rfl | rfl | rfl | rfl | rfl | rfl | rfl | rfl <;> rfl
  all_goals simp at hd


/-! ### what the checks guarantee -/

private theorem rep1 : Cfg.repaired.sortFixed = true := rfl
private theorem rep2 : Cfg.repaired.rejectDupIdents = true := rfl
private theorem rep3 : Cfg.repaired.rejectUnimplEncrypt = true := rfl
private theorem rep4 : Cfg.repaired.rejectBadIdent = true := rfl
private theorem rep5 : Cfg.repaired.rejectRanges = true := rfl
private theorem rep6 : Cfg.repaired.dropIgnoredVendorAttrs = true := rfl

theorem checkAttrs_ok (vendor : Bool) : ∀ (as : List Attribute) (seen seen' : List Bytes),
    checkAttrs Cfg.repaired vendor seen as = .ok seen' →
    (∀ x, x ∈ seen' ↔ x ∈ seen ∨ x ∈ as.map ident) ∧ (as.map ident).Nodup
    ∧ ∀ a ∈ as, ident a ∉ seen ∧ exportedIdent (ident a) = true := by
  intro as
  induction as with
  | nil =>
    intro seen seen' h
    simp only [checkAttrs, Except.ok.injEq] at h
    subst h
    simp
  | cons a rest ih =>
    intro seen seen' h
    simp only [checkAttrs, rep4, Bool.true_and] at h
    split at h
    · cases h
    rename_i hexp
    split at h
    · cases h
    rename_i hseen
    split at h
    · cases h
    obtain ⟨h1, h2, h3⟩ := ih _ _ h
    have hexp' : exportedIdent (ident a) = true := by simpa [ident] using hexp
    have hseen' : ident a ∉ seen := by simpa [ident] using hseen
    refine ⟨?_, ?_, ?_⟩
    · intro x
      rw [h1]
      simp only [List.mem_cons, List.map_cons, ident]
      constructor
      · rintro ((h | h) | h)
        · exact Or.inr (Or.inl h)
        · exact Or.inl h
        · exact Or.inr (Or.inr h)
      · rintro (h | h | h)
        · exact Or.inl (Or.inr h)
        · exact Or.inl (Or.inl h)
        · exact Or.inr h
    · rw [List.map_cons, List.nodup_cons]
      refine ⟨?_, h2⟩
      intro hm
      obtain ⟨b, hb, hbe⟩ := List.mem_map.1 hm
      have := (h3 b hb).1
      apply this
      rw [hbe]
      exact List.mem_cons_self
    · intro b hb
      rcases List.mem_cons.1 hb with rfl | hb
      · exact ⟨hseen', hexp'⟩
      · exact ⟨fun hm => (h3 b hb).1 (List.mem_cons_of_mem _ hm), (h3 b hb).2⟩

theorem forM_ok {α} (f : α → Except Err Unit) : ∀ l : List α, l.forM f = .ok () → ∀ x ∈ l, f x = .ok () := by
  intro l
  induction l with
  | nil => intro _ x hx; cases hx
  | cons a l ih =>
    intro h x hx
    have h : (f a >>= fun _ => l.forM f) = .ok () := h
    simp only [bind, Except.bind] at h
    split at h
    · cases h
    rename_i u hu
    rcases List.mem_cons.1 hx with rfl | hx
    · rw [hu]
    · exact ih h x hx

private theorem ite_err_ne {c : Prop} [Decidable c] {e1 e2 : Err} {u : Unit} :
    (if c then (Except.error e1 : Except Err Unit) else .error e2) ≠ .ok u := by
  by_cases c <;> simp [*]

theorem valuesOK_ok (bits : Option Nat) (vals : List Value) (h : valuesOK Cfg.repaired bits vals = .ok ()) :
    (vals.map (fun v => identifier v.name)).Nodup := by
  simp only [valuesOK, rep2, rep5, Bool.true_and] at h
  by_cases hn : (vals.map (fun v => identifier v.name)).Nodup
  · exact hn
  · exfalso
    simp only [hn, decide_false, Bool.not_false, if_true] at h
    exact ite_err_ne h

theorem checkAttrValues_ok (as : List Attribute) (vals : List Value)
    (h : checkAttrValues Cfg.repaired as vals = .ok ()) : ∀ a ∈ as, valsOK a vals := by
  intro a ha hk
  have := forM_ok _ _ h a ha
  simp only [isIntKind] at hk
  split at this
  · exact valuesOK_ok _ _ this
  · rename_i hnone
    rw [hnone] at hk
    cases hk

theorem mem_sortAttrs {cfg : Cfg} (as : List Attribute) (a : Attribute) : a ∈ sortAttrs cfg as ↔ a ∈ as :=
  mem_sortStable _ _ _

/-- per emitted vendor: what `checkVendors` guarantees, relative to the identifiers taken before -/
def vendorOK (seen vseen : List Bytes) (vs : List Vendor) (v : EVendor) : Prop :=
  (v.attrs.map ident).Nodup ∧ identifier v.name ∉ vseen ∧
  ∀ a ∈ v.attrs, ident a ∉ seen ∧ exportedIdent (ident a) = true ∧ (∃ v0 ∈ vs, a ∈ v0.attributes) ∧ valsOK a v.values

def vendorsApart (v w : EVendor) : Prop :=
  identifier v.name ≠ identifier w.name ∧ ∀ a ∈ v.attrs, ∀ b ∈ w.attrs, ident a ≠ ident b

theorem checkVendors_ok (o : Options) : ∀ (vs : List Vendor) (seen vseen : List Bytes) (evs : List EVendor) (imps : List Imp),
    checkVendors Cfg.repaired o seen vseen vs = .ok (evs, imps) →
    (∀ v ∈ evs, vendorOK seen vseen vs v) ∧ evs.Pairwise vendorsApart := by
  intro vs
  induction vs with
  | nil =>
    intro seen vseen evs imps h
    simp only [checkVendors, Except.ok.injEq, Prod.mk.injEq] at h
    obtain ⟨rfl, _⟩ := h
    simp
  | cons v rest ih =>
    intro seen vseen evs imps h
    simp only [checkVendors, rep2, rep5, rep6, Bool.true_and, if_true, bind, Except.bind, pure, Except.pure, throw, throwThe,
      MonadExceptOf.throw] at h
    split at h
    · cases h
    split at h
    · cases h
    split at h
    · cases h
    rename_i hvs
    split at h
    · cases h
    rename_i seen1 hca
    split at h
    · cases h
    rename_i u hcv
    split at h
    · cases h
    rename_i r hrec
    simp only [Except.ok.injEq, Prod.mk.injEq] at h
    obtain ⟨rfl, _⟩ := h
    obtain ⟨c1, c2, c3⟩ := checkAttrs_ok true _ _ _ hca
    have cv := checkAttrValues_ok _ _ hcv
    obtain ⟨i1, i2⟩ := ih seen1 _ r.1 r.2 hrec
    have hvs' : identifier v.name ∉ vseen := by simpa using hvs
    refine ⟨?_, ?_⟩
    · intro w hw
      rcases List.mem_cons.1 hw with rfl | hw
      · refine ⟨?_, hvs', ?_⟩
        · exact ((sortStable_perm _ _).map ident).nodup_iff.2 c2
        · intro a ha
          have ha' : a ∈ kept o v.attributes := (mem_sortAttrs _ _).1 ha
          refine ⟨(c3 a ha').1, (c3 a ha').2, ⟨v, List.mem_cons_self, ?_⟩, cv a ha⟩
          exact (List.mem_filter.1 ha').1
      · obtain ⟨w1, w2, w3⟩ := i1 w hw
        refine ⟨w1, fun hm => w2 (List.mem_cons_of_mem _ hm), ?_⟩
        intro a ha
        obtain ⟨a1, a2, ⟨v0, hv0, a3⟩, a4⟩ := w3 a ha
        exact ⟨fun hm => a1 ((c1 _).2 (Or.inl hm)), a2, ⟨v0, List.mem_cons_of_mem _ hv0, a3⟩, a4⟩
    · rw [List.pairwise_cons]
      refine ⟨?_, i2⟩
      intro w hw
      obtain ⟨w1, w2, w3⟩ := i1 w hw
      refine ⟨fun he => w2 (by rw [← he]; exact List.mem_cons_self), ?_⟩
      intro a ha b hb he
      have ha' : a ∈ kept o v.attributes := (mem_sortAttrs _ _).1 ha
      apply (w3 b hb).1
      rw [← he]
      exact (c1 _).2 (Or.inr (List.mem_map_of_mem ha'))


/-! ### the sections of a successful run -/

def gAttrs (cfg : Cfg) (d : Dictionary) (o : Options) : List Attribute := sortAttrs cfg (kept o d.attributes)
def gExts (o : Options) : List (Bytes × Bytes) := sortStable (fun a b => bytesLt a.1 b.1) o.refs
def gVals (_cfg : Cfg) (d : Dictionary) (o : Options) : List Value := d.values.filter (fun v => !o.ignore.contains v.attrName)
def gLocals (cfg : Cfg) (d : Dictionary) (o : Options) : List Value :=
  sortValues ((gVals cfg d o).filter (fun v => route (gAttrs cfg d o) (gExts o) v == .loc))
def gExtVals (cfg : Cfg) (d : Dictionary) (o : Options) (e : Bytes × Bytes) : List Value :=
  (gVals cfg d o).filter (fun v => route (gAttrs cfg d o) (gExts o) v == .ext e.1)

def gSections (cfg : Cfg) (d : Dictionary) (o : Options) (evs : List EVendor) : List (Origin × List Decl) :=
  (gAttrs cfg d o).map (fun a => (Origin.attr false a, [(⟨.const, .typeConst, identifier a.name ++ bs "_Type", [], [.radiusType]⟩ : Decl)]))
  ++ evs.map (fun v => (Origin.vendor v.name, [(⟨.const, .vendorId, bs "_" ++ identifier v.name ++ bs "_VendorID", [], [.untyped]⟩ : Decl)]))
  ++ (gExts o).map (fun e => (Origin.ext e.1,
      (⟨.func, .extInit, bs "init", [], []⟩ : Decl)
      :: (gExtVals cfg d o e).map (fun v => (⟨.const, .extValue, identifier v.attrName ++ bs "_Value_" ++ identifier v.name, [], [.named (identifier v.attrName)]⟩ : Decl))))
  ++ (gAttrs cfg d o).map (fun a => (Origin.attr false a, attrDecls false a (gLocals cfg d o)))
  ++ evs.flatMap (fun v => (Origin.vendor v.name, vendorHelperDecls (identifier v.name))
      :: v.attrs.map (fun a => (Origin.attr true a, attrDecls true a v.values)))

theorem generate_ok {cfg : Cfg} {d : Dictionary} {o : Options} {out : Output} (h : generate cfg d o = .ok out) :
    ∃ seen evs0 vimps,
      checkAttrs cfg false [] (kept o d.attributes) = .ok seen ∧
      checkAttrValues cfg (gAttrs cfg d o) (gLocals cfg d o) = .ok () ∧
      (gExts o).forM (fun e => valuesOK cfg none (gExtVals cfg d o e)) = .ok () ∧
      checkVendors cfg o seen [] d.vendors = .ok (evs0, vimps) ∧
      out.sections = gSections cfg d o (sortVendors cfg evs0) := by
  unfold generate at h
  simp only [bind, Except.bind, pure, Except.pure, throw, throwThe, MonadExceptOf.throw] at h
  split at h
  · cases h
  rename_i seen hca
  split at h
  · cases h
  split at h
  · cases h
  rename_i u1 hcv
  split at h
  · cases h
  rename_i u2 hfx
  split at h
  · cases h
  rename_i r hve
  split at h
  · cases h
  split at h
  · cases h
  split at h
  · cases h
  split at h
  · cases h
  simp only [Except.ok.injEq] at h
  subst h
  exact ⟨seen, r.1, r.2, hca, hcv, hfx, hve, rfl⟩

/-- names of the declarations of a list of sections, `init` functions aside -/
private def namesOf (secs : List (Origin × List Decl)) : List Bytes :=
  secs.flatMap (fun s => (s.2.filter notInit).map (·.name))

private theorem declaredNames_eq (out : Output) : declaredNames out = namesOf out.sections := by
  simp only [declaredNames, Output.decls, namesOf, List.filter_flatMap, List.map_flatMap]
  rfl

private def helperSfx : List Bytes :=
  [bs "_NewVendor", bs "_AddVendor", bs "_GetsVendor", bs "_LookupVendor", bs "_SetVendor", bs "_DelVendor"]

private def hNames (vid : Bytes) : List Bytes := helperSfx.map (fun s => bs "_" ++ vid ++ s)

private def L1 (cfg : Cfg) (d : Dictionary) (o : Options) : List Bytes := (gAttrs cfg d o).map (fun a => ident a ++ bs "_Type")
private def L2 (evs : List EVendor) : List Bytes := evs.map (fun v => bs "_" ++ identifier v.name ++ bs "_VendorID")
private def L3 (cfg : Cfg) (d : Dictionary) (o : Options) : List Bytes :=
  (gExts o).flatMap (fun e => (gExtVals cfg d o e).map (fun v => identifier v.attrName ++ bs "_Value_" ++ identifier v.name))
private def L4 (cfg : Cfg) (d : Dictionary) (o : Options) : List Bytes := (gAttrs cfg d o).flatMap (fun a => aNames false a (gLocals cfg d o))
private def L5 (evs : List EVendor) : List Bytes :=
  evs.flatMap (fun v => hNames (identifier v.name) ++ v.attrs.flatMap (fun a => aNames true a v.values))

private theorem flatMap_single {α β} (l : List α) (f : α → List β) (g : α → β) (h : ∀ a, f a = [g a]) :
    l.flatMap f = l.map g := by
  induction l with
  | nil => rfl
  | cons a l ih => simp [List.flatMap_cons, h, ih]

private theorem ext_names (l : List Value) :
    (((⟨.func, .extInit, bs "init", [], []⟩ : Decl) :: l.map (fun v => (⟨.const, .extValue, identifier v.attrName ++ bs "_Value_" ++ identifier v.name, [], [.named (identifier v.attrName)]⟩ : Decl))).filter notInit).map (·.name)
    = l.map (fun v => identifier v.attrName ++ bs "_Value_" ++ identifier v.name) := by
  have : ∀ l : List Value, ((l.map (fun v => (⟨.const, .extValue, identifier v.attrName ++ bs "_Value_" ++ identifier v.name, [], [.named (identifier v.attrName)]⟩ : Decl))).filter notInit).map (·.name)
      = l.map (fun v => identifier v.attrName ++ bs "_Value_" ++ identifier v.name) := by
    intro l
    induction l with
    | nil => rfl
    | cons v l ih =>
      rw [List.map_cons, List.filter_cons_of_pos (by rfl), List.map_cons, ih, List.map_cons]
  rw [List.filter_cons_of_neg (by decide)]
  exact this l

private theorem namesOf_gSections (cfg : Cfg) (d : Dictionary) (o : Options) (evs : List EVendor) :
    namesOf (gSections cfg d o evs) = L1 cfg d o ++ L2 evs ++ L3 cfg d o ++ L4 cfg d o ++ L5 evs := by
  simp only [namesOf, gSections, List.flatMap_append, List.flatMap_map, List.flatMap_assoc, List.flatMap_cons,
    attrDecls_filter, L1, L2, L3, L4, L5]
  congr 1
  congr 1
  congr 1
  congr 1
  · exact flatMap_single _ _ _ (fun a => rfl)
  · exact flatMap_single _ _ _ (fun a => rfl)
  · congr 1
    funext e
    exact ext_names _


/-! ### each group of names is duplicate-free -/

private theorem own_us (x : Bytes) : own (95 :: x) = [] := rfl

private theorem exported_ne_nil {x : Bytes} (h : exportedIdent x = true) : x ≠ [] := by
  intro e
  subst e
  cases h

private theorem L1_nodup (cfg : Cfg) (d : Dictionary) (o : Options) (hT : ((gAttrs cfg d o).map ident).Nodup) : (L1 cfg d o).Nodup := by
  unfold L1
  rw [List.Nodup, List.pairwise_map]
  exact (List.pairwise_map.1 hT).imp (fun hne he => hne (List.append_cancel_right he))

private theorem mem_L1 {cfg : Cfg} {d : Dictionary} {o : Options} {n : Bytes} (h : n ∈ L1 cfg d o) :
    (∃ a ∈ gAttrs cfg d o, own n = ident a) ∧ rest n = bs "_Type" := by
  obtain ⟨a, ha, rfl⟩ := List.mem_map.1 h
  exact ⟨⟨a, ha, own_append (clean_identA a) rfl⟩, rest_append (clean_identA a) rfl⟩

private theorem L2_nodup (evs : List EVendor) (hp : evs.Pairwise vendorsApart) : (L2 evs).Nodup := by
  unfold L2
  rw [List.Nodup, List.pairwise_map]
  exact hp.imp (fun hne he => hne.1 (List.append_cancel_left (List.append_cancel_right he)))

private theorem mem_L2 {evs : List EVendor} {n : Bytes} (h : n ∈ L2 evs) :
    ∃ v ∈ evs, n = 95 :: (identifier v.name ++ bs "_VendorID") := by
  obtain ⟨v, hv, rfl⟩ := List.mem_map.1 h
  exact ⟨v, hv, rfl⟩

private theorem extName_own (x z : Bytes) : own (identifier x ++ bs "_Value_" ++ z) = identifier x := by
  rw [List.append_assoc]
  exact own_append (clean_ident x) rfl

private theorem mem_L3 {cfg : Cfg} {d : Dictionary} {o : Options} {n : Bytes}
    (hn : ∀ e ∈ gExts o, ∀ v ∈ gExtVals cfg d o e, v.attrName = e.1) (h : n ∈ L3 cfg d o) :
    ∃ e ∈ gExts o, own n = identifier e.1 := by
  obtain ⟨e, he, hm⟩ := List.mem_flatMap.1 h
  obtain ⟨v, hv, rfl⟩ := List.mem_map.1 hm
  refine ⟨e, he, ?_⟩
  rw [hn e he v hv]
  exact extName_own _ _

private theorem L3_nodup (cfg : Cfg) (d : Dictionary) (o : Options)
    (hv : ∀ e ∈ gExts o, ((gExtVals cfg d o e).map (fun v => identifier v.name)).Nodup)
    (hn : ∀ e ∈ gExts o, ∀ v ∈ gExtVals cfg d o e, v.attrName = e.1)
    (hp : (gExts o).Pairwise (fun e e' => identifier e.1 ≠ identifier e'.1)) : (L3 cfg d o).Nodup := by
  unfold L3
  rw [List.Nodup, List.pairwise_flatMap]
  constructor
  · intro e he
    rw [List.pairwise_map]
    refine (List.pairwise_map.1 (hv e he)).imp_of_mem ?_
    intro v w hv hw hne heq
    rw [hn e he v hv, hn e he w hw] at heq
    exact hne (List.append_cancel_left heq)
  · refine hp.imp_of_mem ?_
    intro e e' he he' hne x hx y hy hxy
    obtain ⟨v, hv, rfl⟩ := List.mem_map.1 hx
    obtain ⟨w, hw, rfl⟩ := List.mem_map.1 hy
    have := congrArg own hxy
    rw [hn e he v hv, hn e' he' w hw, extName_own, extName_own] at this
    exact hne this

private theorem mem_attrsNames {vendor : Bool} {as : List Attribute} {vals : List Value} {n : Bytes}
    (hv : ∀ a ∈ as, valsOK a vals) (h : n ∈ as.flatMap (fun a => aNames vendor a vals)) :
    ∃ a ∈ as, own n = ident a ∧ rest n ≠ bs "_Type" := by
  obtain ⟨a, ha, hm⟩ := List.mem_flatMap.1 h
  exact ⟨a, ha, aNames_own vendor a vals (hv a ha) n hm⟩

private theorem attrsNames_nodup (vendor : Bool) (as : List Attribute) (vals : List Value)
    (hn : (as.map ident).Nodup) (hv : ∀ a ∈ as, valsOK a vals) :
    (as.flatMap (fun a => aNames vendor a vals)).Nodup := by
  rw [List.Nodup, List.pairwise_flatMap]
  refine ⟨fun a ha => aNames_nodup vendor a vals (hv a ha), ?_⟩
  refine (List.pairwise_map.1 hn).imp_of_mem ?_
  intro a b ha hb hne x hx y hy hxy
  have h1 := (aNames_own vendor a vals (hv a ha) x hx).1
  have h2 := (aNames_own vendor b vals (hv b hb) y hy).1
  rw [hxy, h2] at h1
  exact hne h1.symm

private theorem helperSfx_ok : helperSfx.Nodup ∧ (∀ s ∈ helperSfx, good s = true) ∧ bs "_VendorID" ∉ helperSfx := by
  decide

private theorem mem_hNames {vid n : Bytes} (h : n ∈ hNames vid) : ∃ s ∈ helperSfx, n = 95 :: (vid ++ s) := by
  obtain ⟨s, hs, rfl⟩ := List.mem_map.1 h
  exact ⟨s, hs, rfl⟩

private def block (v : EVendor) : List Bytes :=
  hNames (identifier v.name) ++ v.attrs.flatMap (fun a => aNames true a v.values)

private theorem mem_block {v : EVendor} {n : Bytes} (hv : ∀ a ∈ v.attrs, valsOK a v.values) (h : n ∈ block v) :
    (∃ s ∈ helperSfx, n = 95 :: (identifier v.name ++ s))
    ∨ (∃ a ∈ v.attrs, own n = ident a ∧ rest n ≠ bs "_Type") := by
  rcases List.mem_append.1 h with h | h
  · exact Or.inl (mem_hNames h)
  · exact Or.inr (mem_attrsNames hv h)

private theorem block_nodup (v : EVendor) (hn : (v.attrs.map ident).Nodup)
    (hv : ∀ a ∈ v.attrs, valsOK a v.values) (hne : ∀ a ∈ v.attrs, ident a ≠ []) : (block v).Nodup := by
  unfold block
  rw [List.nodup_append]
  refine ⟨?_, attrsNames_nodup true _ _ hn hv, ?_⟩
  · unfold hNames
    rw [List.Nodup, List.pairwise_map]
    exact helperSfx_ok.1.imp (fun hne he => hne (List.append_cancel_left he))
  · intro x hx y hy hxy
    obtain ⟨s, _, rfl⟩ := mem_hNames hx
    obtain ⟨a, ha, h1, _⟩ := mem_attrsNames hv hy
    rw [← hxy, own_us] at h1
    exact hne a ha h1.symm

private theorem L5_nodup (evs : List EVendor)
    (hok : ∀ v ∈ evs, (v.attrs.map ident).Nodup ∧ ∀ a ∈ v.attrs, ident a ≠ [] ∧ valsOK a v.values)
    (hp : evs.Pairwise vendorsApart) : (L5 evs).Nodup := by
  show (evs.flatMap block).Nodup
  rw [List.Nodup, List.pairwise_flatMap]
  refine ⟨fun v hv => block_nodup v (hok v hv).1 (fun a ha => ((hok v hv).2 a ha).2) (fun a ha => ((hok v hv).2 a ha).1), ?_⟩
  refine hp.imp_of_mem ?_
  intro v w hv hw hvw x hx y hy hxy
  subst hxy
  rcases mem_block (fun a ha => ((hok v hv).2 a ha).2) hx with ⟨s, hs, hx⟩ | ⟨a, ha, h1, _⟩
  · rcases mem_block (fun a ha => ((hok w hw).2 a ha).2) hy with ⟨s', hs', hy⟩ | ⟨b, hb, h2, _⟩
    · rw [hx] at hy
      have := split_inj (clean_ident _) (clean_ident _) (helperSfx_ok.2.1 s hs) (helperSfx_ok.2.1 s' hs')
        (List.cons.inj hy).2
      exact hvw.1 this.1
    · rw [hx, own_us] at h2
      exact ((hok w hw).2 b hb).1 h2.symm
  · rcases mem_block (fun a ha => ((hok w hw).2 a ha).2) hy with ⟨s', hs', hy⟩ | ⟨b, hb, h2, _⟩
    · rw [hy, own_us] at h1
      exact ((hok v hv).2 a ha).1 h1.symm
    · exact hvw.2 a ha b hb (h1.symm.trans h2)

private theorem mem_L5 {evs : List EVendor} {n : Bytes} (hv : ∀ v ∈ evs, ∀ a ∈ v.attrs, valsOK a v.values)
    (h : n ∈ L5 evs) :
    (∃ v ∈ evs, ∃ s ∈ helperSfx, n = 95 :: (identifier v.name ++ s))
    ∨ ((∃ v ∈ evs, ∃ a ∈ v.attrs, own n = ident a) ∧ rest n ≠ bs "_Type") := by
  obtain ⟨v, hve, hm⟩ := List.mem_flatMap.1 h
  rcases mem_block (hv v hve) hm with ⟨s, hs, hx⟩ | ⟨a, ha, h1, h2⟩
  · exact Or.inl ⟨v, hve, s, hs, hx⟩
  · exact Or.inr ⟨⟨v, hve, a, ha, h1⟩, h2⟩

private theorem nodup_append5 {α} {l1 l2 l3 l4 l5 : List α}
    (h1 : l1.Nodup) (h2 : l2.Nodup) (h3 : l3.Nodup) (h4 : l4.Nodup) (h5 : l5.Nodup)
    (d12 : ∀ n, n ∈ l1 → n ∈ l2 → False) (d13 : ∀ n, n ∈ l1 → n ∈ l3 → False)
    (d14 : ∀ n, n ∈ l1 → n ∈ l4 → False) (d15 : ∀ n, n ∈ l1 → n ∈ l5 → False)
    (d23 : ∀ n, n ∈ l2 → n ∈ l3 → False) (d24 : ∀ n, n ∈ l2 → n ∈ l4 → False)
    (d25 : ∀ n, n ∈ l2 → n ∈ l5 → False) (d34 : ∀ n, n ∈ l3 → n ∈ l4 → False)
    (d35 : ∀ n, n ∈ l3 → n ∈ l5 → False) (d45 : ∀ n, n ∈ l4 → n ∈ l5 → False) :
    (l1 ++ l2 ++ l3 ++ l4 ++ l5).Nodup := by
  simp only [List.nodup_append, List.mem_append]
  refine ⟨⟨⟨⟨h1, h2, ?_⟩, h3, ?_⟩, h4, ?_⟩, h5, ?_⟩
  · intro a ha b hb e; subst e; exact d12 _ ha hb
  · rintro a (ha | ha) b hb e <;> subst e
    · exact d13 _ ha hb
    · exact d23 _ ha hb
  · rintro a ((ha | ha) | ha) b hb e <;> subst e
    · exact d14 _ ha hb
    · exact d24 _ ha hb
    · exact d34 _ ha hb
  · rintro a (((ha | ha) | ha) | ha) b hb e <;> subst e
    · exact d15 _ ha hb
    · exact d25 _ ha hb
    · exact d35 _ ha hb
    · exact d45 _ ha hb


/-! ### the theorem -/

theorem route_ext {attrs : List Attribute} {exts : List (Bytes × Bytes)} {v : Value} {n : Bytes}
    (h : route attrs exts v = .ext n) : v.attrName = n := by
  unfold route at h
  split at h
  · cases h
  · split at h
    · rename_i e he
      have hf := List.find?_some he
      simp only [Route.ext.injEq] at h
      rw [← h]
      exact (eq_of_beq hf).symm
    · cases h

/-- Declared names are pairwise distinct for the repaired generator, provided the external (-ref)
    attributes are well-formed: their identifiers are exported Go identifiers, pairwise distinct, and
    distinct from the identifiers of the dictionary's own attributes. -/
theorem idents_unique_repaired' :
    ∀ (d : Dictionary) (o : Options) (out : Output), generate Cfg.repaired d o = .ok out →
    (∀ r ∈ o.refs, ∀ a, (a ∈ d.attributes ∨ ∃ v ∈ d.vendors, a ∈ v.attributes) → identifier r.1 ≠ identifier a.name) →
    (∀ r ∈ o.refs, exportedIdent (identifier r.1) = true) →
    (o.refs.map (fun r => identifier r.1)).Nodup →
    (declaredNames out).Nodup := by
  intro d o out h hdis hrefok hrefids
  obtain ⟨seen, evs0, vimps, hca, hcv, hfx, hve, hsec⟩ := generate_ok h
  rw [declaredNames_eq, hsec, namesOf_gSections]
  obtain ⟨c1, c2, c3⟩ := checkAttrs_ok false _ _ _ hca
  obtain ⟨v1, v2⟩ := checkVendors_ok o _ _ _ _ _ hve
  -- top-level attributes
  have memA : ∀ a, a ∈ gAttrs Cfg.repaired d o ↔ a ∈ kept o d.attributes := fun a => mem_sortAttrs _ _
  have hT : ((gAttrs Cfg.repaired d o).map ident).Nodup := ((sortStable_perm _ _).map ident).nodup_iff.2 c2
  have neT : ∀ a ∈ gAttrs Cfg.repaired d o, ident a ≠ [] := fun a ha => exported_ne_nil (c3 a ((memA a).1 ha)).2
  have inT : ∀ a ∈ gAttrs Cfg.repaired d o, a ∈ d.attributes := fun a ha => (List.mem_filter.1 ((memA a).1 ha)).1
  have seenT : ∀ a ∈ gAttrs Cfg.repaired d o, ident a ∈ seen :=
    fun a ha => (c1 _).2 (Or.inr (List.mem_map_of_mem ((memA a).1 ha)))
  have valT := checkAttrValues_ok _ _ hcv
  -- vendors
  generalize hevs : sortVendors Cfg.repaired evs0 = evs
  have memV : ∀ v, v ∈ evs ↔ v ∈ evs0 := fun v => by rw [← hevs]; exact mem_sortStable _ _ _
  have apV : evs.Pairwise vendorsApart := by
    rw [← hevs]
    exact (sortStable_perm _ _).symm.pairwise v2
      (fun h => ⟨Ne.symm h.1, fun a ha b hb e => h.2 b hb a ha e.symm⟩)
  have okV : ∀ v ∈ evs, vendorOK seen [] d.vendors v := fun v hv => v1 v ((memV v).1 hv)
  have valV : ∀ v ∈ evs, ∀ a ∈ v.attrs, valsOK a v.values := fun v hv a ha => ((okV v hv).2.2 a ha).2.2.2
  have neV : ∀ v ∈ evs, ∀ a ∈ v.attrs, ident a ≠ [] :=
    fun v hv a ha => exported_ne_nil ((okV v hv).2.2 a ha).2.1
  -- external attributes
  have memE : ∀ e, e ∈ gExts o ↔ e ∈ o.refs := fun e => mem_sortStable _ _ _
  have nameE : ∀ e ∈ gExts o, ∀ v ∈ gExtVals Cfg.repaired d o e, v.attrName = e.1 := by
    intro e _ v hv
    exact route_ext (eq_of_beq (List.mem_filter.1 hv).2)
  have valE : ∀ e ∈ gExts o, ((gExtVals Cfg.repaired d o e).map (fun v => identifier v.name)).Nodup :=
    fun e he => valuesOK_ok _ _ (forM_ok _ _ hfx e he)
  have apE : (gExts o).Pairwise (fun e e' => identifier e.1 ≠ identifier e'.1) :=
    (sortStable_perm _ _).symm.pairwise (List.pairwise_map.1 hrefids) (fun h => Ne.symm h)
  have neE : ∀ e ∈ gExts o, identifier e.1 ≠ [] := fun e he => exported_ne_nil (hrefok e ((memE e).1 he))
  have disET : ∀ e ∈ gExts o, ∀ a ∈ gAttrs Cfg.repaired d o, identifier e.1 ≠ ident a :=
    fun e he a ha => hdis e ((memE e).1 he) a (Or.inl (inT a ha))
  have disEV : ∀ e ∈ gExts o, ∀ v ∈ evs, ∀ a ∈ v.attrs, identifier e.1 ≠ ident a :=
    fun e he v hv a ha => hdis e ((memE e).1 he) a (Or.inr ((okV v hv).2.2 a ha).2.2.1)
  apply nodup_append5
  · exact L1_nodup _ d o hT
  · exact L2_nodup evs apV
  · exact L3_nodup _ d o valE nameE apE
  · exact attrsNames_nodup false _ _ hT valT
  · exact L5_nodup evs (fun v hv => ⟨(okV v hv).1, fun a ha => ⟨neV v hv a ha, valV v hv a ha⟩⟩) apV
  · -- `_Type` constants / vendor identifiers
    intro n h1 h2
    obtain ⟨⟨a, ha, e1⟩, _⟩ := mem_L1 h1
    obtain ⟨v, _, rfl⟩ := mem_L2 h2
    rw [own_us] at e1
    exact neT a ha e1.symm
  · intro n h1 h2
    obtain ⟨⟨a, ha, e1⟩, _⟩ := mem_L1 h1
    obtain ⟨e, he, e2⟩ := mem_L3 nameE h2
    exact disET e he a ha (e2.symm.trans e1)
  · intro n h1 h2
    obtain ⟨_, r1⟩ := mem_L1 h1
    obtain ⟨a, _, _, r2⟩ := mem_attrsNames valT h2
    exact r2 r1
  · intro n h1 h2
    obtain ⟨⟨a, ha, e1⟩, r1⟩ := mem_L1 h1
    rcases mem_L5 valV h2 with ⟨v, _, s, _, rfl⟩ | ⟨_, r2⟩
    · rw [own_us] at e1
      exact neT a ha e1.symm
    · exact r2 r1
  · intro n h1 h2
    obtain ⟨v, _, rfl⟩ := mem_L2 h1
    obtain ⟨e, he, e2⟩ := mem_L3 nameE h2
    rw [own_us] at e2
    exact neE e he e2.symm
  · intro n h1 h2
    obtain ⟨v, _, rfl⟩ := mem_L2 h1
    obtain ⟨a, ha, e2, _⟩ := mem_attrsNames valT h2
    rw [own_us] at e2
    exact neT a ha e2.symm
  · intro n h1 h2
    obtain ⟨v, _, rfl⟩ := mem_L2 h1
    rcases mem_L5 valV h2 with ⟨w, _, s, hs, e⟩ | ⟨⟨w, hw, a, ha, e2⟩, _⟩
    · have := split_inj (clean_ident _) (clean_ident _) (by rfl) (helperSfx_ok.2.1 s hs) (List.cons.inj e).2
      exact helperSfx_ok.2.2 (this.2 ▸ hs)
    · rw [own_us] at e2
      exact neV w hw a ha e2.symm
  · intro n h1 h2
    obtain ⟨e, he, e1⟩ := mem_L3 nameE h1
    obtain ⟨a, ha, e2, _⟩ := mem_attrsNames valT h2
    exact disET e he a ha (e1.symm.trans e2)
  · intro n h1 h2
    obtain ⟨e, he, e1⟩ := mem_L3 nameE h1
    rcases mem_L5 valV h2 with ⟨w, _, s, _, rfl⟩ | ⟨⟨w, hw, a, ha, e2⟩, _⟩
    · rw [own_us] at e1
      exact neE e he e1.symm
    · exact disEV e he w hw a ha (e1.symm.trans e2)
  · intro n h1 h2
    obtain ⟨a, ha, e1, _⟩ := mem_attrsNames valT h1
    rcases mem_L5 valV h2 with ⟨w, _, s, _, rfl⟩ | ⟨⟨w, hw, b, hb, e2⟩, _⟩
    · rw [own_us] at e1
      exact neT a ha e1.symm
    · apply ((okV w hw).2.2 b hb).1
      rw [← e2, e1]
      exact seenT a ha

/-! ### the code as found, top-level attributes only -/

private theorem checkAttrs_nodup (cfg : Cfg) (vendor : Bool) : ∀ (as : List Attribute) (seen seen' : List Bytes),
    checkAttrs cfg vendor seen as = .ok seen' → (as.map ident).Nodup ∧ ∀ a ∈ as, ident a ∉ seen := by
  intro as
  induction as with
  | nil => intro _ _ _; simp
  | cons a rest ih =>
    intro seen seen' h
    simp only [checkAttrs] at h
    split at h
    · cases h
    split at h
    · cases h
    rename_i hseen
    split at h
    · cases h
    obtain ⟨h2, h3⟩ := ih _ _ h
    have hseen' : ident a ∉ seen := by simpa [ident] using hseen
    refine ⟨?_, ?_⟩
    · rw [List.map_cons, List.nodup_cons]
      refine ⟨?_, h2⟩
      intro hm
      obtain ⟨b, hb, hbe⟩ := List.mem_map.1 hm
      apply h3 b hb
      rw [hbe]
      exact List.mem_cons_self
    · intro b hb
      rcases List.mem_cons.1 hb with rfl | hb
      · exact hseen'
      · exact fun hm => h3 b hb (List.mem_cons_of_mem _ hm)

/-- The code as found, restricted to dictionaries with top-level attributes only (no VENDOR, no VALUE,
    no -ref): declared names are pairwise distinct.  (`hexp` is not needed by the proof.) -/
theorem idents_unique_partial' (d : Dictionary) (o : Options) (out : Output)
    (h : generate Cfg.asIs d o = .ok out)
    (hvend : d.vendors = []) (hvals : d.values = []) (hrefs : o.refs = [])
    (hexp : ∀ a ∈ d.attributes, exportedIdent (identifier a.name) = true) :
    (declaredNames out).Nodup := by
  have _ := hexp
  obtain ⟨seen, evs0, vimps, hca, _, _, hve, hsec⟩ := generate_ok h
  rw [hvend] at hve
  simp only [checkVendors, Except.ok.injEq, Prod.mk.injEq] at hve
  obtain ⟨rfl, _⟩ := hve
  rw [declaredNames_eq, hsec, namesOf_gSections]
  have hl : gLocals Cfg.asIs d o = [] := by
    unfold gLocals gVals
    rw [hvals]
    rfl
  have he : gExts o = [] := by
    unfold gExts
    rw [hrefs]
    rfl
  have h3 : L3 Cfg.asIs d o = [] := by
    unfold L3
    rw [he]
    rfl
  have h2 : L2 (sortVendors Cfg.asIs []) = [] := rfl
  have h5 : L5 (sortVendors Cfg.asIs []) = [] := rfl
  rw [h2, h3, h5]
  simp only [List.append_nil]
  obtain ⟨c2, _⟩ := checkAttrs_nodup _ _ _ _ _ hca
  have hT : ((gAttrs Cfg.asIs d o).map ident).Nodup := ((sortStable_perm _ _).map ident).nodup_iff.2 c2
  have valT : ∀ a ∈ gAttrs Cfg.asIs d o, valsOK a (gLocals Cfg.asIs d o) := by
    intro a _ _
    rw [hl]
    exact List.nodup_nil
  rw [List.nodup_append]
  refine ⟨L1_nodup _ d o hT, attrsNames_nodup false _ _ hT valT, ?_⟩
  intro x h1 y h4 e
  subst e
  obtain ⟨_, r1⟩ := mem_L1 h1
  obtain ⟨a, _, _, r2⟩ := mem_attrsNames valT h4
  exact r2 r1

end RV.Gen
