/-
  C17 helper lemmas (audit round): independence of Go map iteration order (`-ref` options, ignore list),
  absence of panics, exported names, per-kind helper sets.
-/
import RV.Proofs.GenBasic
import RV.Proofs.GenOrder
import RV.Proofs.GenShape
import RV.Proofs.GenImports
import RV.Proofs.GenUnique
set_option linter.unusedSimpArgs false
namespace RV.Gen
open RV.Dict RV.Gen.Spec

/-! ### Go maps: `ExternalAttributes` and the ignore list -/

theorem nodup_map_inj {α β} {f : α → β} : ∀ {l : List α}, (l.map f).Nodup → ∀ {x y}, x ∈ l → y ∈ l → f x = f y → x = y
  | [], _, _, _, hx, _, _ => by cases hx
  | a :: l, h, x, y, hx, hy, e => by
    rw [List.map_cons, List.nodup_cons] at h
    rcases List.mem_cons.1 hx with rfl | hx' <;> rcases List.mem_cons.1 hy with rfl | hy'
    · rfl
    · exact absurd (by rw [e]; exact List.mem_map_of_mem hy') h.1
    · exact absurd (by rw [← e]; exact List.mem_map_of_mem hx') h.1
    · exact nodup_map_inj h.2 hx' hy' e

/-- `sortExternalAttributes`: a Go map has distinct keys, so the sorted slice does not depend on the
    order in which the map was iterated -/
theorem sortRefs_perm {l₁ l₂ : List (Bytes × Bytes)} (hp : l₁.Perm l₂) (hd : (l₁.map (·.1)).Nodup) :
    sortStable (fun a b => bytesLt a.1 b.1) l₁ = sortStable (fun a b => bytesLt a.1 b.1) l₂ := by
  refine sortStable_eq_of_perm _ (fun a b => bytesLt_asym a.1 b.1) (fun a b c => bytesLt_negtrans a.1 b.1 c.1) hp ?_
  intro a ha b hb h1 h2
  exact nodup_map_inj hd ha hb (bytesLt_total _ _ h1 h2)

theorem kept_congr {o o' : Options} (h : ∀ n, o.ignore.contains n = o'.ignore.contains n) : kept o = kept o' := by
  funext as
  simp only [kept, h]

theorem checkVendors_congr (cfg : Cfg) {o o' : Options} (h : kept o = kept o') :
    ∀ (vs : List Vendor) (seen vseen : List Bytes), checkVendors cfg o seen vseen vs = checkVendors cfg o' seen vseen vs := by
  intro vs
  induction vs with
  | nil => intro _ _; rfl
  | cons v rest ih =>
    intro seen vseen
    simp only [checkVendors, h, ih]

/-- `generate` sees the options only through the sorted `-ref` list and the membership test of the ignore list -/
theorem generate_congr (cfg : Cfg) (d : Dictionary) {o o' : Options}
    (hi : ∀ n, o.ignore.contains n = o'.ignore.contains n)
    (hr : sortStable (fun a b => bytesLt a.1 b.1) o.refs = sortStable (fun a b => bytesLt a.1 b.1) o'.refs) :
    generate cfg d o = generate cfg d o' := by
  have hk := kept_congr hi
  have hcv : checkVendors cfg o = checkVendors cfg o' := by
    funext seen vseen vs
    exact checkVendors_congr cfg hk vs seen vseen
  simp only [generate, hk, hcv, hi, hr]

theorem refs_order_irrelevant' (cfg : Cfg) (d : Dictionary) (o : Options) (refs' : List (Bytes × Bytes))
    (h : o.refs.Perm refs') (hd : (o.refs.map (·.1)).Nodup) :
    generate cfg d { o with refs := refs' } = generate cfg d o :=
  generate_congr cfg d (fun _ => rfl) (sortRefs_perm h hd).symm

theorem ignore_order_irrelevant' (cfg : Cfg) (d : Dictionary) (o : Options) (ignore' : List Bytes)
    (h : ∀ n, n ∈ o.ignore ↔ n ∈ ignore') :
    generate cfg d { o with ignore := ignore' } = generate cfg d o := by
  refine generate_congr cfg d (fun n => ?_) rfl
  rw [Bool.eq_iff_iff]
  simp only [List.contains_iff_mem]
  exact (h n).symm

/-! ### panics -/

theorem checkAttrs_ne_panic (cfg : Cfg) (vendor : Bool) : ∀ (as : List Attribute) (seen : List Bytes),
    checkAttrs cfg vendor seen as ≠ .error .panic := by
  intro as
  induction as with
  | nil => intro seen h; cases h
  | cons a rest ih =>
    intro seen h
    simp only [checkAttrs] at h
    split at h
    · cases h
    split at h
    · cases h
    split at h
    · cases h
    exact ih _ h

theorem valuesOK_ne_panic (cfg : Cfg) (bits : Option Nat) (vals : List Value) : valuesOK cfg bits vals ≠ .error .panic := by
  unfold valuesOK
  generalize (cfg.rejectRanges && _) = b1
  generalize (cfg.rejectDupIdents && _) = b2
  cases b1 <;> cases b2 <;> simp

theorem forM_ne_error {α} (e : Err) (f : α → Except Err Unit) (hf : ∀ x, f x ≠ .error e) :
    ∀ l : List α, l.forM f ≠ .error e := by
  intro l
  induction l with
  | nil => intro h; cases h
  | cons a l ih =>
    intro h
    have h : (f a >>= fun _ => l.forM f) = .error e := h
    simp only [bind, Except.bind] at h
    split at h
    · rename_i e' he
      cases h
      exact hf a he
    · exact ih h

theorem checkAttrValues_ne_panic (cfg : Cfg) (as : List Attribute) (vals : List Value) :
    checkAttrValues cfg as vals ≠ .error .panic := by
  unfold checkAttrValues
  apply forM_ne_error
  intro a h
  split at h
  · exact valuesOK_ne_panic _ _ _ h
  · cases h

theorem checkVendors_ne_panic (cfg : Cfg) (o : Options) : ∀ (vs : List Vendor) (seen vseen : List Bytes),
    checkVendors cfg o seen vseen vs ≠ .error .panic := by
  intro vs
  induction vs with
  | nil => intro _ _ h; cases h
  | cons v rest ih =>
    intro seen vseen h
    simp only [checkVendors, bind, Except.bind, pure, Except.pure, throw, throwThe, MonadExceptOf.throw] at h
    split at h
    · cases h
    split at h
    · cases h
    split at h
    · cases h
    split at h
    · rename_i e he
      cases h
      exact checkAttrs_ne_panic _ _ _ _ he
    split at h
    · rename_i e he
      cases h
      exact checkAttrValues_ne_panic _ _ _ he
    split at h
    · rename_i e he
      cases h
      exact ih _ _ he
    · cases h

theorem oid_of_valid {cfg : Cfg} {vendor : Bool} {a : Attribute} (hv : invalidAttr cfg vendor a = false) : a.oid.length = 1 := by
  simp only [invalidAttr, Bool.or_eq_false_iff] at hv
  simpa using hv.1.1.1.1.1.1.1

/-- the only way to `Err.panic`: the unrepaired generator emits an ignored (hence unchecked) vendor
    attribute that has a template and an empty OID -/
theorem generate_panic (cfg : Cfg) (d : Dictionary) (o : Options) (h : generate cfg d o = .error .panic) :
    cfg.dropIgnoredVendorAttrs = false ∧
    ∃ v ∈ d.vendors, ∃ a ∈ v.attributes, a.name ∈ o.ignore ∧ a.oid = [] ∧ hasTemplate a.typ = true := by
  simp only [generate, bind, Except.bind, pure, Except.pure, throw, throwThe, MonadExceptOf.throw] at h
  split at h
  · rename_i e he
    cases h
    exact absurd he (checkAttrs_ne_panic _ _ _ _)
  split at h
  · cases h
  split at h
  · rename_i e he
    cases h
    exact absurd he (checkAttrValues_ne_panic _ _ _)
  split at h
  · rename_i e he
    cases h
    exact absurd he (forM_ne_error _ _ (fun x => valuesOK_ne_panic _ _ _) _)
  split at h
  · rename_i e he
    cases h
    exact absurd he (checkVendors_ne_panic _ _ _ _ _)
  rename_i r hcv
  split at h
  · rename_i hp
    obtain ⟨hr1, _, hvalid⟩ := imp_checkVendors_struct cfg o d.vendors _ _ _ hcv
    obtain ⟨ev, hev, hp1⟩ := List.any_eq_true.1 hp
    obtain ⟨a, ha, hp2⟩ := List.any_eq_true.1 hp1
    simp only [sortVendors, mem_sortStable, hr1, List.mem_map] at hev
    obtain ⟨w, hw, rfl⟩ := hev
    simp only [vendorAttrPanics, Bool.and_eq_true, List.isEmpty_iff] at hp2
    have hnk : a ∉ kept o w.attributes := by
      intro hk
      have := oid_of_valid (hvalid w hw a hk)
      rw [hp2.2] at this
      cases this
    simp only [imp_mkEV, sortAttrs, mem_sortStable] at ha
    cases hdrop : cfg.dropIgnoredVendorAttrs
    · rw [hdrop] at ha
      simp only [Bool.false_eq_true, if_false] at ha
      refine ⟨rfl, w, hw, a, ha, ?_, hp2.2, hp2.1⟩
      apply Classical.byContradiction
      intro hni
      exact hnk (imp_mem_kept.2 ⟨ha, hni⟩)
    · rw [hdrop] at ha
      rw [if_pos rfl] at ha
      exact absurd ha hnk
  split at h
  · cases h
  split at h
  · cases h
  split at h
  · cases h
  · cases h

/-! ### the sections of a successful run, in full -/

namespace Spec

/-- `<Identifier>_Type radius.Type` -/
def typeConstDecl (a : Attribute) : Decl := ⟨.const, .typeConst, identifier a.name ++ bs "_Type", [], [.radiusType]⟩

/-- everything the output declares for the ATTRIBUTE `a` (top-level: `vendor = false`; inside a VENDOR
    block: `vendor = true`): the declarations of all sections of that origin, in emission order -/
def declsOf (out : Output) (vendor : Bool) (a : Attribute) : List Decl :=
  (out.sections.filter (fun s => s.1 == Origin.attr vendor a)).flatMap (·.2)

/-- `a` is declared by `d` — at top level (`vendor = false`) or inside a VENDOR block (`vendor = true`) —
    and `vs` are the VALUE lines of that scope -/
def AttrIn (d : Dictionary) (vendor : Bool) (a : Attribute) (vs : List Value) : Prop :=
  (vendor = false ∧ a ∈ d.attributes ∧ vs = d.values) ∨
  (vendor = true ∧ ∃ v ∈ d.vendors, a ∈ v.attributes ∧ vs = v.values)

end Spec

theorem generate_ok_full {cfg : Cfg} {d : Dictionary} {o : Options} {out : Output} (h : generate cfg d o = .ok out) :
    ∃ seen evs0 vimps,
      checkAttrs cfg false [] (kept o d.attributes) = .ok seen ∧
      checkAttrValues cfg (gAttrs cfg d o) (gLocals cfg d o) = .ok () ∧
      (gExts o).forM (fun e => valuesOK cfg none (gExtVals cfg d o e)) = .ok () ∧
      checkVendors cfg o seen [] d.vendors = .ok (evs0, vimps) ∧
      out.sections = gSections cfg d o (sortVendors cfg evs0) ∧
      out.imports =
        stdImports.filter ((kept o d.attributes).flatMap declaredImports ++ vimps
          ++ (if !(sortVendors cfg evs0).isEmpty then [Imp.std (bs "errors")] else [])).contains
        ++ (if !(gAttrs cfg d o).isEmpty || !(sortVendors cfg evs0).isEmpty then [Imp.radius] else [])
        ++ (if !(sortVendors cfg evs0).isEmpty then [Imp.rfc2865] else [])
        ++ (dedupBytes (((gExts o).filter (fun e => !(gExtVals cfg d o e).isEmpty)).map (·.2))).map Imp.dot ∧
      (∀ e ∈ gExts o, gExtVals cfg d o e ≠ [] → lexesAsIdent (identifier e.1) = true) := by
  unfold generate at h
  simp only [bind, Except.bind, pure, Except.pure, throw, throwThe, MonadExceptOf.throw] at h
  split at h
  · cases h
  rename_i seen hca
  split at h
  · cases h
  split at h
  · cases h
  rename_i u1 hcv
  split at h
  · cases h
  rename_i u2 hfx
  split at h
  · cases h
  rename_i r hve
  split at h
  · cases h
  split at h
  · cases h
  split at h
  · cases h
  split at h
  · cases h
  rename_i hext
  simp only [Except.ok.injEq] at h
  subst h
  refine ⟨seen, r.1, r.2, hca, hcv, hfx, hve, rfl, rfl, ?_⟩
  intro e he hne
  apply Classical.byContradiction
  intro hl
  apply hext
  refine List.any_eq_true.2 ⟨e, he, ?_⟩
  have h1 : (gExtVals cfg d o e).isEmpty = false := by
    cases hv : gExtVals cfg d o e with
    | nil => exact absurd hv hne
    | cons _ _ => rfl
  have h2 : lexesAsIdent (identifier e.1) = false := by simpa using hl
  simp only [gExtVals, gVals, gAttrs, gExts] at h1
  simp only [h1, h2, Bool.not_false, Bool.and_self]

theorem mem_gSections {cfg : Cfg} {d : Dictionary} {o : Options} {evs : List EVendor} {s : Origin × List Decl}
    (hs : s ∈ gSections cfg d o evs) :
    (∃ a ∈ gAttrs cfg d o, s = (Origin.attr false a, [typeConstDecl a])) ∨
    (∃ v ∈ evs, s = (Origin.vendor v.name, [(⟨.const, .vendorId, bs "_" ++ identifier v.name ++ bs "_VendorID", [], [.untyped]⟩ : Decl)])) ∨
    (∃ e ∈ gExts o, s = (Origin.ext e.1, (⟨.func, .extInit, bs "init", [], []⟩ : Decl)
        :: (gExtVals cfg d o e).map (fun v => (⟨.const, .extValue, identifier v.attrName ++ bs "_Value_" ++ identifier v.name, [], [.named (identifier v.attrName)]⟩ : Decl)))) ∨
    (∃ a ∈ gAttrs cfg d o, s = (Origin.attr false a, attrDecls false a (gLocals cfg d o))) ∨
    (∃ v ∈ evs, s = (Origin.vendor v.name, vendorHelperDecls (identifier v.name))) ∨
    (∃ v ∈ evs, ∃ a ∈ v.attrs, s = (Origin.attr true a, attrDecls true a v.values)) := by
  simp only [gSections, List.mem_append, List.mem_map, List.mem_flatMap, List.mem_cons] at hs
  rcases hs with (((⟨a, ha, rfl⟩ | ⟨v, hv, rfl⟩) | ⟨e, he, rfl⟩) | ⟨a, ha, rfl⟩) | ⟨v, hv, rfl | ⟨a, ha, rfl⟩⟩
  · exact Or.inl ⟨a, ha, rfl⟩
  · exact Or.inr (Or.inl ⟨v, hv, rfl⟩)
  · exact Or.inr (Or.inr (Or.inl ⟨e, he, rfl⟩))
  · exact Or.inr (Or.inr (Or.inr (Or.inl ⟨a, ha, rfl⟩)))
  · exact Or.inr (Or.inr (Or.inr (Or.inr (Or.inl ⟨v, hv, rfl⟩))))
  · exact Or.inr (Or.inr (Or.inr (Or.inr (Or.inr ⟨v, hv, a, ha, rfl⟩))))

/-! ### what the repaired checks guarantee about an accepted dictionary -/

/-- named constants fit the value type -/
def valsFit (a : Attribute) (vals : List Value) : Prop :=
  ∀ n, intBits a.typ = some n → ∀ v ∈ attrValues a.name vals, v.number < 2 ^ n

theorem valuesOK_fit (n : Nat) (vals : List Value) (h : valuesOK Cfg.repaired (some n) vals = .ok ()) :
    ∀ v ∈ vals, v.number < 2 ^ n := by
  intro v hv
  apply Classical.byContradiction
  intro hlt
  have hany : (vals.any fun v => decide (v.number ≥ 2 ^ n)) = true :=
    List.any_eq_true.2 ⟨v, hv, by simpa using Nat.le_of_not_lt hlt⟩
  simp [valuesOK, Cfg.repaired, hany] at h

theorem checkAttrValues_fit (as : List Attribute) (vals : List Value)
    (h : checkAttrValues Cfg.repaired as vals = .ok ()) : ∀ a ∈ as, valsFit a vals := by
  intro a ha n hn
  have := forM_ok _ _ h a ha
  simp only [hn] at this
  exact valuesOK_fit n _ this

theorem checkVendors_fit (o : Options) : ∀ (vs : List Vendor) (seen vseen : List Bytes) (r : List EVendor × List Imp),
    checkVendors Cfg.repaired o seen vseen vs = .ok r → ∀ ev ∈ r.1, ∀ a ∈ ev.attrs, valsFit a ev.values := by
  intro vs
  induction vs with
  | nil =>
    intro seen vseen r h
    simp only [checkVendors] at h
    cases h
    intro ev hev
    cases hev
  | cons v rest ih =>
    intro seen vseen r h
    simp only [checkVendors, bind, Except.bind, pure, Except.pure, throw, throwThe, MonadExceptOf.throw] at h
    split at h
    · cases h
    split at h
    · cases h
    split at h
    · cases h
    split at h
    · cases h
    split at h
    · cases h
    rename_i u hcv
    split at h
    · cases h
    rename_i r' hrec
    cases h
    intro ev hev
    rcases List.mem_cons.1 hev with rfl | hev
    · exact checkAttrValues_fit _ _ hcv
    · exact ih _ _ _ hrec ev hev

/-- facts about a run of the repaired generator that returned `out`; `evs` = the vendors as emitted -/
structure RunFacts (d : Dictionary) (o : Options) (out : Output) (evs : List EVendor) : Prop where
  secs : out.sections = gSections Cfg.repaired d o evs
  attrsMem : ∀ a, a ∈ gAttrs Cfg.repaired d o ↔ a ∈ d.attributes ∧ a.name ∉ o.ignore
  attrsNodup : ((gAttrs Cfg.repaired d o).map ident).Nodup
  attrsValid : ∀ a ∈ gAttrs Cfg.repaired d o, invalidAttr Cfg.repaired false a = false ∧ exportedIdent (ident a) = true
  attrsVals : ∀ a ∈ gAttrs Cfg.repaired d o, valsOK a (gLocals Cfg.repaired d o) ∧ valsFit a (gLocals Cfg.repaired d o)
  evsMem : ∀ ev, ev ∈ evs ↔ ∃ w ∈ d.vendors, ev = imp_mkEV Cfg.repaired o w
  evsApart : evs.Pairwise vendorsApart
  evAttrsNodup : ∀ ev ∈ evs, (ev.attrs.map ident).Nodup
  evAttrsValid : ∀ ev ∈ evs, ∀ a ∈ ev.attrs, invalidAttr Cfg.repaired true a = false ∧ exportedIdent (ident a) = true
    ∧ valsOK a ev.values ∧ valsFit a ev.values
  extVals : ∀ e ∈ gExts o, ((gExtVals Cfg.repaired d o e).map (fun v => identifier v.name)).Nodup
  /-- the format gate on `-ref` names: an external attribute that has a VALUE has a name that lexes -/
  extNames : ∀ e ∈ gExts o, gExtVals Cfg.repaired d o e ≠ [] → lexesAsIdent (identifier e.1) = true

theorem runFacts {d : Dictionary} {o : Options} {out : Output} (h : generate Cfg.repaired d o = .ok out) :
    ∃ evs, RunFacts d o out evs := by
  obtain ⟨seen, evs0, vimps, hca, hcv, hfx, hve, hsec, _, hext⟩ := generate_ok_full h
  obtain ⟨c1, c2, c3⟩ := checkAttrs_ok false _ _ _ hca
  obtain ⟨v1, v2⟩ := checkVendors_ok o _ _ _ _ _ hve
  obtain ⟨hr1, _, hvalid⟩ := imp_checkVendors_struct Cfg.repaired o d.vendors _ _ _ hve
  have hfit := checkVendors_fit o _ _ _ _ hve
  have htop := imp_checkAttrs_valid Cfg.repaired false _ _ _ hca
  have memV : ∀ v, v ∈ sortVendors Cfg.repaired evs0 ↔ v ∈ evs0 := fun v => mem_sortStable _ _ _
  refine ⟨sortVendors Cfg.repaired evs0, ⟨hsec, ?_, ?_, ?_, ?_, ?_, ?_, ?_, ?_, ?_, hext⟩⟩
  · intro a
    rw [gAttrs, mem_sortAttrs]
    exact imp_mem_kept
  · exact ((sortStable_perm _ _).map ident).nodup_iff.2 c2
  · intro a ha
    have ha' : a ∈ kept o d.attributes := (mem_sortAttrs _ _).1 ha
    exact ⟨htop a ha', (c3 a ha').2⟩
  · intro a ha
    exact ⟨checkAttrValues_ok _ _ hcv a ha, checkAttrValues_fit _ _ hcv a ha⟩
  · intro ev
    rw [memV]
    simp only at hr1
    rw [hr1, List.mem_map]
    constructor
    · rintro ⟨w, hw, rfl⟩; exact ⟨w, hw, rfl⟩
    · rintro ⟨w, hw, rfl⟩; exact ⟨w, hw, rfl⟩
  · exact (sortStable_perm _ _).symm.pairwise v2
      (fun h => ⟨Ne.symm h.1, fun a ha b hb e => h.2 b hb a ha e.symm⟩)
  · intro ev hev
    exact (v1 ev ((memV ev).1 hev)).1
  · intro ev hev a ha
    have hev0 := (memV ev).1 hev
    obtain ⟨_, _, w3⟩ := v1 ev hev0
    obtain ⟨_, a2, _, a4⟩ := w3 a ha
    refine ⟨?_, a2, a4, hfit ev hev0 a ha⟩
    simp only at hr1
    rw [hr1, List.mem_map] at hev0
    obtain ⟨w, hw, rfl⟩ := hev0
    exact hvalid w hw a ((imp_mkEV_attrs Cfg.repaired o w (Or.inl rfl) a).1 ha)
  · intro e he
    exact valuesOK_ok _ _ (forM_ok _ _ hfx e he)

/-! ### `declsOf`: the declarations of one attribute -/

theorem nodup_of_map {α β} (f : α → β) {l : List α} (h : (l.map f).Nodup) : l.Nodup := by
  rw [List.Nodup, List.pairwise_map] at h
  exact h.imp (fun hne e => hne (congrArg f e))

theorem filter_beq_single {α} [DecidableEq α] : ∀ {l : List α}, l.Nodup → ∀ {a : α}, a ∈ l → l.filter (· == a) = [a]
  | [], _, _, ha => by cases ha
  | b :: l, hn, a, ha => by
    rw [List.nodup_cons] at hn
    rw [List.filter_cons]
    by_cases hb : b = a
    · subst hb
      have : l.filter (· == b) = [] := by
        rw [List.filter_eq_nil_iff]
        intro x hx hxb
        have : x = b := by simpa using hxb
        exact hn.1 (this ▸ hx)
      simp [this]
    · have ha' : a ∈ l := by
        rcases List.mem_cons.1 ha with rfl | h
        · exact absurd rfl hb
        · exact h
      simp [hb, filter_beq_single hn.2 ha']

theorem flatMap_single_of_pairwise {α β} {R : α → α → Prop} {f : α → List β} :
    ∀ {l : List α} {x : α}, x ∈ l → l.Pairwise R → (∀ y, R x y ∨ R y x → f y = []) → l.flatMap f = f x
  | [], _, hx, _, _ => by cases hx
  | b :: l, x, hx, hp, h => by
    rw [List.pairwise_cons] at hp
    rw [List.flatMap_cons]
    by_cases hb : x = b
    · subst hb
      have : l.flatMap f = [] := by
        rw [List.flatMap_eq_nil_iff]
        intro y hy
        exact h y (Or.inl (hp.1 y hy))
      rw [this, List.append_nil]
    · have hx' : x ∈ l := by
        rcases List.mem_cons.1 hx with rfl | h'
        · exact absurd rfl hb
        · exact h'
      rw [h b (Or.inr (hp.1 x hx')), List.nil_append]
      exact flatMap_single_of_pairwise hx' hp.2 h

theorem origin_attr_beq (v : Bool) (a' a : Attribute) : (Origin.attr v a' == Origin.attr v a) = (a' == a) := by
  rw [Bool.eq_iff_iff]
  simp only [beq_iff_eq]
  constructor
  · intro e; cases e; rfl
  · intro e; rw [e]

theorem declsOf_top {d : Dictionary} {o : Options} {out : Output} {evs : List EVendor} (F : RunFacts d o out evs)
    {a : Attribute} (ha : a ∈ d.attributes) (hi : a.name ∉ o.ignore) :
    declsOf out false a = typeConstDecl a :: attrDecls false a (gLocals Cfg.repaired d o) := by
  have hmem : a ∈ gAttrs Cfg.repaired d o := (F.attrsMem a).2 ⟨ha, hi⟩
  have hnd : (gAttrs Cfg.repaired d o).Nodup := nodup_of_map ident F.attrsNodup
  have hsingle := filter_beq_single hnd hmem
  have hk : ∀ (g : Attribute → List Decl),
      ((gAttrs Cfg.repaired d o).map (fun a' => (Origin.attr false a', g a'))).filter (fun s => s.1 == Origin.attr false a)
        = [(Origin.attr false a, g a)] := by
    intro g
    rw [List.filter_map]
    have : ((fun s : Origin × List Decl => s.1 == Origin.attr false a) ∘ fun a' => (Origin.attr false a', g a')) = (· == a) := by
      funext a'
      exact origin_attr_beq false a' a
    rw [this, hsingle]
    rfl
  unfold declsOf
  rw [F.secs]
  simp only [gSections, List.filter_append, List.flatMap_append]
  rw [hk, hk]
  have h2 : ∀ (g : EVendor → List Decl), (evs.map (fun v => (Origin.vendor v.name, g v))).filter (fun s => s.1 == Origin.attr false a) = [] := by
    intro g
    rw [List.filter_eq_nil_iff]
    intro s hs
    obtain ⟨v, _, rfl⟩ := List.mem_map.1 hs
    simp
  have h3 : ∀ (g : Bytes × Bytes → List Decl), ((gExts o).map (fun e => (Origin.ext e.1, g e))).filter (fun s => s.1 == Origin.attr false a) = [] := by
    intro g
    rw [List.filter_eq_nil_iff]
    intro s hs
    obtain ⟨v, _, rfl⟩ := List.mem_map.1 hs
    simp
  have h5 : (evs.flatMap (fun v => (Origin.vendor v.name, vendorHelperDecls (identifier v.name))
        :: v.attrs.map (fun a => (Origin.attr true a, attrDecls true a v.values)))).filter (fun s => s.1 == Origin.attr false a) = [] := by
    rw [List.filter_eq_nil_iff]
    intro s hs
    obtain ⟨v, _, hs⟩ := List.mem_flatMap.1 hs
    rcases List.mem_cons.1 hs with rfl | hs
    · simp
    · obtain ⟨b, _, rfl⟩ := List.mem_map.1 hs
      simp
  rw [h2, h3, h5]
  simp [typeConstDecl]

theorem declsOf_vendor {d : Dictionary} {o : Options} {out : Output} {evs : List EVendor} (F : RunFacts d o out evs)
    {w : Vendor} {a : Attribute} (hw : w ∈ d.vendors) (ha : a ∈ w.attributes) (hi : a.name ∉ o.ignore) :
    declsOf out true a = attrDecls true a (sortValues w.values) := by
  have hev : imp_mkEV Cfg.repaired o w ∈ evs := (F.evsMem _).2 ⟨w, hw, rfl⟩
  have hmem : a ∈ (imp_mkEV Cfg.repaired o w).attrs :=
    (imp_mkEV_attrs Cfg.repaired o w (Or.inl rfl) a).2 (imp_mem_kept.2 ⟨ha, hi⟩)
  unfold declsOf
  rw [F.secs]
  simp only [gSections, List.filter_append, List.flatMap_append]
  have h1 : ∀ (g : Attribute → List Decl),
      ((gAttrs Cfg.repaired d o).map (fun a' => (Origin.attr false a', g a'))).filter (fun s => s.1 == Origin.attr true a) = [] := by
    intro g
    rw [List.filter_eq_nil_iff]
    intro s hs
    obtain ⟨v, _, rfl⟩ := List.mem_map.1 hs
    simp
  have h2 : ∀ (g : EVendor → List Decl), (evs.map (fun v => (Origin.vendor v.name, g v))).filter (fun s => s.1 == Origin.attr true a) = [] := by
    intro g
    rw [List.filter_eq_nil_iff]
    intro s hs
    obtain ⟨v, _, rfl⟩ := List.mem_map.1 hs
    simp
  have h3 : ∀ (g : Bytes × Bytes → List Decl), ((gExts o).map (fun e => (Origin.ext e.1, g e))).filter (fun s => s.1 == Origin.attr true a) = [] := by
    intro g
    rw [List.filter_eq_nil_iff]
    intro s hs
    obtain ⟨v, _, rfl⟩ := List.mem_map.1 hs
    simp
  rw [h1, h1, h2, h3]
  simp only [List.nil_append, List.flatMap_nil, List.filter_flatMap, List.flatMap_assoc]
  have hstep : ∀ v : EVendor,
      (((Origin.vendor v.name, vendorHelperDecls (identifier v.name))
        :: v.attrs.map (fun a => (Origin.attr true a, attrDecls true a v.values))).filter (fun s => s.1 == Origin.attr true a)).flatMap (·.2)
      = (v.attrs.filter (· == a)).flatMap (fun a' => attrDecls true a' v.values) := by
    intro v
    rw [List.filter_cons]
    simp only [beq_iff_eq, reduceCtorEq, if_false]
    rw [List.filter_map, List.flatMap_map]
    have : ((fun s : Origin × List Decl => s.1 == Origin.attr true a) ∘ fun a' => (Origin.attr true a', attrDecls true a' v.values)) = (· == a) := by
      funext a'
      exact origin_attr_beq true a' a
    rw [this]
  simp only [hstep]
  rw [flatMap_single_of_pairwise hev F.evsApart]
  · rw [filter_beq_single (nodup_of_map ident (F.evAttrsNodup _ hev)) hmem]
    simp [imp_mkEV]
  · intro y hy
    have hny : a ∉ y.attrs := by
      intro hay
      rcases hy with h | h
      · exact h.2 a hmem a hay rfl
      · exact h.2 a hay a hmem rfl
    have : y.attrs.filter (· == a) = [] := by
      rw [List.filter_eq_nil_iff]
      intro x hx hxa
      have : x = a := by simpa using hxa
      exact hny (this ▸ hx)
    rw [this]
    rfl

/-! ### VALUEs: sorting commutes with filtering; `attrValues` only sees the VALUEs of its attribute -/

theorem insertStable_all_ge {α} (less : α → α → Bool) (a : α) (l : List α) (h : ∀ c ∈ l, less c a = false) :
    insertStable less a l = a :: l := by
  cases l with
  | nil => rfl
  | cons b l => simp [insertStable, h b List.mem_cons_self]

theorem insertStable_filter_neg {α} (less : α → α → Bool) (p : α → Bool) (a : α) (hp : p a = false) :
    ∀ l : List α, (insertStable less a l).filter p = l.filter p
  | [] => by simp [insertStable, hp]
  | b :: l => by
    unfold insertStable
    split
    · rw [List.filter_cons, List.filter_cons, insertStable_filter_neg less p a hp l]
    · rw [List.filter_cons, hp]
      simp

theorem insertStable_filter_pos {α} (less : α → α → Bool)
    (htrans : ∀ a b c, less b a = false → less c b = false → less c a = false)
    (p : α → Bool) (a : α) (hp : p a = true) :
    ∀ l : List α, l.Pairwise (fun x y => less y x = false) →
      insertStable less a (l.filter p) = (insertStable less a l).filter p
  | [], _ => by simp [insertStable, hp]
  | b :: l, hl => by
    rw [List.pairwise_cons] at hl
    have ih := insertStable_filter_pos less htrans p a hp l hl.2
    show insertStable less a ((b :: l).filter p) = (if less b a then b :: insertStable less a l else a :: b :: l).filter p
    by_cases hba : less b a = true
    · rw [if_pos hba, List.filter_cons, List.filter_cons]
      by_cases hpb : p b = true
      · rw [if_pos hpb, if_pos hpb, ← ih]
        simp [insertStable, hba]
      · rw [if_neg hpb, if_neg hpb]
        exact ih
    · rw [if_neg hba]
      have hba : less b a = false := by simpa using hba
      rw [List.filter_cons (x := a), hp, if_pos rfl]
      rw [insertStable_all_ge]
      intro c hc
      have hc' : c ∈ b :: l := (List.mem_filter.1 hc).1
      rcases List.mem_cons.1 hc' with rfl | hcl
      · exact hba
      · exact htrans a b c hba (hl.1 c hcl)

theorem sortStable_filter {α} (less : α → α → Bool)
    (hasym : ∀ a b, less a b = true → less b a = false)
    (htrans : ∀ a b c, less b a = false → less c b = false → less c a = false)
    (p : α → Bool) : ∀ l : List α, sortStable less (l.filter p) = (sortStable less l).filter p
  | [] => rfl
  | a :: l => by
    have ih := sortStable_filter less hasym htrans p l
    rw [List.filter_cons]
    split
    · rename_i hp
      show insertStable less a (sortStable less (l.filter p)) = (insertStable less a (sortStable less l)).filter p
      rw [ih]
      exact insertStable_filter_pos less htrans p a hp _ (sortStable_pairwise less hasym htrans l)
    · rename_i hp
      have hp : p a = false := by simpa using hp
      show sortStable less (l.filter p) = (insertStable less a (sortStable less l)).filter p
      rw [insertStable_filter_neg less p a hp, ih]

theorem sortValues_filter (p : Value → Bool) (l : List Value) : sortValues (l.filter p) = (sortValues l).filter p := by
  unfold sortValues
  apply sortStable_filter
  · intro a b h
    simp only [decide_eq_true_eq, decide_eq_false_iff_not] at h ⊢
    omega
  · intro a b c h1 h2
    simp only [decide_eq_false_iff_not] at h1 h2 ⊢
    omega

/-- one step of the loop of `attributeValues` -/
def avStep (attrName : Bytes) (acc : List Value) (v : Value) : List Value :=
  if v.attrName == attrName then
    match acc.getLast? with
    | some l => if l.number == v.number then acc.dropLast ++ [v] else acc ++ [v]
    | none => [v]
  else acc

theorem attrValues_eq_foldl (n : Bytes) (l : List Value) : attrValues n l = l.foldl (avStep n) [] := rfl

theorem foldl_avStep_filter (n : Bytes) : ∀ (l : List Value) (acc : List Value),
    l.foldl (avStep n) acc = (l.filter (fun v => v.attrName == n)).foldl (avStep n) acc
  | [], _ => rfl
  | v :: l, acc => by
    rw [List.foldl_cons, List.filter_cons]
    split
    · rw [List.foldl_cons]
      exact foldl_avStep_filter n l _
    · rename_i hv
      have : avStep n acc v = acc := by simp [avStep, hv]
      rw [this]
      exact foldl_avStep_filter n l _

/-- `attrValues` depends only on the VALUE lines naming the attribute -/
theorem attrValues_filter (n : Bytes) (l : List Value) :
    attrValues n l = attrValues n (l.filter (fun v => v.attrName == n)) := by
  rw [attrValues_eq_foldl, attrValues_eq_foldl]
  exact foldl_avStep_filter n l []

theorem attrValues_sort_congr (n : Bytes) {l₁ l₂ : List Value}
    (h : l₁.filter (fun v => v.attrName == n) = l₂.filter (fun v => v.attrName == n)) :
    attrValues n (sortValues l₁) = attrValues n (sortValues l₂) := by
  rw [attrValues_filter n (sortValues l₁), attrValues_filter n (sortValues l₂), ← sortValues_filter, ← sortValues_filter, h]

/-- the constants of a top-level attribute come from exactly its own top-level VALUE lines -/
theorem attrValues_locals {d : Dictionary} {o : Options} {a : Attribute} (ha : a ∈ gAttrs Cfg.repaired d o)
    (hi : a.name ∉ o.ignore) :
    attrValues a.name (gLocals Cfg.repaired d o) = attrValues a.name (sortValues d.values) := by
  unfold gLocals
  apply attrValues_sort_congr
  unfold gVals
  rw [List.filter_filter, List.filter_filter]
  apply List.filter_congr
  intro v _
  by_cases hv : v.attrName = a.name
  · have h1 : o.ignore.contains v.attrName = false := by
      rw [hv]
      simpa using hi
    have h2 : route (gAttrs Cfg.repaired d o) (gExts o) v = Route.loc := by
      unfold route
      rw [if_pos]
      exact List.any_eq_true.2 ⟨a, ha, by simp [hv]⟩
    simp [hv, h2, hi]
  · have hv' : (v.attrName == a.name) = false := by simpa using hv
    simp [hv']

/-- the workhorse of the per-kind statements: everything declared for a non-ignored attribute of an
    accepted dictionary -/
theorem declsOf_eq {d : Dictionary} {o : Options} {out : Output} (h : generate Cfg.repaired d o = .ok out)
    {vendor : Bool} {a : Attribute} {vs : List Value} (hin : AttrIn d vendor a vs) (hi : a.name ∉ o.ignore) :
    ∃ vals, declsOf out vendor a = (if vendor then [] else [typeConstDecl a]) ++ attrDecls vendor a vals
      ∧ attrValues a.name vals = attrValues a.name (sortValues vs)
      ∧ invalidAttr Cfg.repaired vendor a = false ∧ exportedIdent (identifier a.name) = true
      ∧ valsOK a vals ∧ valsFit a vals := by
  obtain ⟨evs, F⟩ := runFacts h
  rcases hin with ⟨rfl, ha, rfl⟩ | ⟨rfl, w, hw, ha, rfl⟩
  · have hm : a ∈ gAttrs Cfg.repaired d o := (F.attrsMem a).2 ⟨ha, hi⟩
    refine ⟨gLocals Cfg.repaired d o, ?_, attrValues_locals hm hi, (F.attrsValid a hm).1, (F.attrsValid a hm).2,
      (F.attrsVals a hm).1, (F.attrsVals a hm).2⟩
    rw [declsOf_top F ha hi]
    rfl
  · have hev : imp_mkEV Cfg.repaired o w ∈ evs := (F.evsMem _).2 ⟨w, hw, rfl⟩
    have hmem : a ∈ (imp_mkEV Cfg.repaired o w).attrs :=
      (imp_mkEV_attrs Cfg.repaired o w (Or.inl rfl) a).2 (imp_mem_kept.2 ⟨ha, hi⟩)
    obtain ⟨f1, f2, f3, f4⟩ := F.evAttrsValid _ hev a hmem
    refine ⟨sortValues w.values, ?_, rfl, f1, f2, f3, f4⟩
    rw [declsOf_vendor F hw ha hi]
    rfl

/-! ### the templates, kind by kind -/

/-- what sort of Go declaration a role is -/
def Role.kind : Role → DKind
  | .typeConst | .vendorId | .extValue | .valueConst => .const
  | .valueType => .type
  | .strings => .var
  | .stringer => .method
  | _ => .func

theorem attrDecls_text (vendor : Bool) (a : Attribute) (vals : List Value)
    (hk : stringy a.typ = true) (hc : (concatenated a && !vendor) = false) :
    (attrDecls vendor a vals).map (·.role) =
      [.add, .addString, .get, .getString, .gets, .getStrings, .lookup, .lookupString, .set, .setString, .del] := by
  obtain ⟨name, oid, typ, size, enc, tag, cc⟩ := a
  cases typ <;> simp [stringy] at hk <;> simp [attrDecls, hc, stringDecls, fn]

theorem attrDecls_concat (a : Attribute) (vals : List Value)
    (hk : stringy a.typ = true) (hc : concatenated a = true) :
    (attrDecls false a vals).map (·.role) = [.get, .getString, .lookup, .lookupString, .set, .setString, .del] := by
  obtain ⟨name, oid, typ, size, enc, tag, cc⟩ := a
  cases typ <;> simp [stringy] at hk <;> simp [attrDecls, hc, concatDecls, fn]

theorem attrDecls_simple (vendor : Bool) (a : Attribute) (vals : List Value)
    (hk : hasTemplate a.typ = true) (hs : stringy a.typ = false) (hn : isIntKind a.typ = false) :
    (attrDecls vendor a vals).map (·.role) = [.add, .get, .gets, .lookup, .set, .del] := by
  obtain ⟨name, oid, typ, size, enc, tag, cc⟩ := a
  cases typ <;> simp [stringy, hasTemplate, isIntKind, intBits, isIPKind] at hk hs hn <;> simp [attrDecls, simpleDecls, fn]

theorem attrDecls_none (vendor : Bool) (a : Attribute) (vals : List Value) (hk : hasTemplate a.typ = false) :
    attrDecls vendor a vals = [] := by
  obtain ⟨name, oid, typ, size, enc, tag, cc⟩ := a
  cases typ <;> simp [stringy, hasTemplate, isIntKind, intBits, isIPKind] at hk <;> simp [attrDecls]

theorem attrDecls_int (vendor : Bool) (a : Attribute) (vals : List Value) (n : Nat) (hk : intBits a.typ = some n) :
    (attrDecls vendor a vals).map (fun dc => (dc.role, dc.name, dc.results)) =
      [(Role.valueType, identifier a.name, [if n = 64 then Ty.u64 else if n = 16 then Ty.u16 else Ty.u32])]
      ++ (attrValues a.name vals).map (fun v => (Role.valueConst, identifier a.name ++ bs "_Value_" ++ identifier v.name, [Ty.named (identifier a.name)]))
      ++ [(Role.strings, identifier a.name ++ bs "_Strings", [Ty.mapStr (identifier a.name)]),
          (Role.stringer, identifier a.name ++ bs ".String", [Ty.str]),
          (Role.add, identifier a.name ++ bs "_Add", [Ty.error]),
          (Role.get, identifier a.name ++ bs "_Get", tg a .byte ++ [Ty.named (identifier a.name)]),
          (Role.gets, identifier a.name ++ bs "_Gets", tg a .bytes ++ [Ty.slice (Ty.named (identifier a.name)), Ty.error]),
          (Role.lookup, identifier a.name ++ bs "_Lookup", tg a .byte ++ [Ty.named (identifier a.name), Ty.error]),
          (Role.set, identifier a.name ++ bs "_Set", [Ty.error]),
          (Role.del, identifier a.name ++ bs "_Del", [])] := by
  obtain ⟨name, oid, typ, size, enc, tag, cc⟩ := a
  cases typ <;> simp [intBits] at hk <;> subst hk <;>
    simp [attrDecls, intDecls, fn, Role.suffix, List.map_map, Function.comp_def]

theorem attrDecls_kinds (vendor : Bool) (a : Attribute) (vals : List Value) :
    ∀ dc ∈ attrDecls vendor a vals, dc.kind = dc.role.kind ∧ dc.role ≠ .typeConst ∧ dc.role ≠ .extInit := by
  obtain ⟨name, oid, typ, size, enc, tag, cc⟩ := a
  cases typ <;> cases vendor <;>
    simp [attrDecls, stringDecls, concatDecls, simpleDecls, intDecls, fn, or_imp, forall_and, Role.kind] <;>
    (try (split <;> simp [stringDecls, concatDecls, fn, or_imp, forall_and, Role.kind]))

theorem attrDecls_names1 (vendor : Bool) (a : Attribute) (vals : List Value) :
    ∀ dc ∈ attrDecls vendor a vals, dc.role ≠ .valueConst → dc.name = identifier a.name ++ bs dc.role.suffix := by
  obtain ⟨name, oid, typ, size, enc, tag, cc⟩ := a
  cases typ <;> cases vendor <;>
    simp [attrDecls, stringDecls, concatDecls, simpleDecls, intDecls, fn, or_imp, forall_and] <;>
    (try (split <;> simp [stringDecls, concatDecls, fn, or_imp, forall_and])) <;>
    (try (refine ⟨?_, ?_, ?_⟩ <;> rfl))

theorem attrDecls_names2 (vendor : Bool) (a : Attribute) (vals : List Value) :
    ∀ dc ∈ attrDecls vendor a vals, dc.role = .valueConst →
      ∃ v ∈ attrValues a.name vals, dc.name = identifier a.name ++ bs "_Value_" ++ identifier v.name := by
  obtain ⟨name, oid, typ, size, enc, tag, cc⟩ := a
  cases typ <;> cases vendor <;>
    simp [attrDecls, stringDecls, concatDecls, simpleDecls, intDecls, fn, or_imp, forall_and] <;>
    (try (split <;> simp [stringDecls, concatDecls, fn, or_imp, forall_and])) <;>
    (try exact fun v hv => ⟨v, hv, rfl⟩)

theorem hasTagParam_not_rw (dc : Decl) (h : (dc.role.isWriter || dc.role.isReader) = false) : hasTagParam dc = false := by
  obtain ⟨k, r, n, ps, rs⟩ := dc
  cases r <;> simp [Role.isWriter, Role.isReader] at h <;> simp [hasTagParam, Role.isWriter]

theorem attrDecls_roles_rw (vendor : Bool) (a : Attribute) (vals : List Value) :
    ∀ dc ∈ attrDecls vendor a vals, dc.role.isReader = false → hasRequestParam dc = false := by
  obtain ⟨name, oid, typ, size, enc, tag, cc⟩ := a
  rcases tag with _ | _ | _ <;> cases typ <;> cases vendor <;>
    simp [attrDecls, stringDecls, concatDecls, simpleDecls, intDecls, fn, or_imp, forall_and, hasRequestParam, Role.isReader, tg, tagged] <;>
    (try (split <;> simp [stringDecls, concatDecls, fn, or_imp, forall_and, hasRequestParam, Role.isReader, tg, tagged]))

end RV.Gen
