/-
  C17 helper lemmas: permutation invariance of `generate`.

  `generate` is split into four phases (top-level `checkAttrs`, the VALUE checks `gmid`, `checkVendors`,
  the emission `gtail`); success of each phase is characterised by an order-independent condition
  (`AGood`, `VGood`, ...), and with `Cfg.repaired` the sorted attribute / vendor lists of two
  permuted dictionaries coincide (`sortStable_eq_of_perm`), so the outputs are equal.
  Core Lean only.
-/
import RV.Proofs.GenBasic
namespace RV.Gen
open RV.Dict RV.Gen.Spec

private theorem perm_forM_ok_iff {α} (f : α → Except Err PUnit) : ∀ l : List α,
    l.forM f = .ok ⟨⟩ ↔ ∀ a ∈ l, f a = .ok ⟨⟩
  | [] => by simp [pure, Except.pure]
  | a :: l => by
    have ih := perm_forM_ok_iff f l
    rw [List.forM]
    cases h : f a with
    | error e => simp [bind, Except.bind, h]
    | ok u => cases u; simp only [bind, Except.bind, h, List.forall_mem_cons, true_and]; exact ih

private theorem perm_checkAttrValues_perm (cfg : Cfg) {as₁ as₂ : List Attribute} (vals : List Value) (hp : as₁.Perm as₂) :
    checkAttrValues cfg as₁ vals = .ok () ↔ checkAttrValues cfg as₂ vals = .ok () := by
  unfold checkAttrValues
  rw [perm_forM_ok_iff, perm_forM_ok_iff]
  exact ⟨fun h a ha => h a (hp.mem_iff.2 ha), fun h a ha => h a (hp.mem_iff.1 ha)⟩

/-! ### checkAttrs -/

private def aLocal (cfg : Cfg) (vendor : Bool) (a : Attribute) : Bool :=
  !(cfg.rejectBadIdent && !exportedIdent (identifier a.name)) && !invalidAttr cfg vendor a

private abbrev aid (a : Attribute) : Bytes := identifier a.name

private def AGood (cfg : Cfg) (vendor : Bool) (seen : List Bytes) (as : List Attribute) : Prop :=
  (∀ a ∈ as, aLocal cfg vendor a = true) ∧ (as.map aid).Nodup ∧ ∀ x ∈ as.map aid, x ∉ seen

private theorem perm_checkAttrs_iff (cfg : Cfg) (vendor : Bool) : ∀ (as : List Attribute) (seen s : List Bytes),
    checkAttrs cfg vendor seen as = .ok s ↔ AGood cfg vendor seen as ∧ s = (as.map aid).reverse ++ seen
  | [], seen, s => by
    simp only [checkAttrs, AGood, Except.ok.injEq, List.map_nil, List.reverse_nil, List.nil_append]
    constructor
    · intro h; exact ⟨⟨by simp, by simp, by simp⟩, h.symm⟩
    · intro h; exact h.2.symm
  | a :: rest, seen, s => by
    have ih := perm_checkAttrs_iff cfg vendor rest (aid a :: seen) s
    rw [checkAttrs]
    by_cases h1 : (cfg.rejectBadIdent && !exportedIdent (identifier a.name)) = true
    · simp only [h1, if_true, reduceCtorEq, false_iff]
      rintro ⟨⟨h, _, _⟩, _⟩
      have := h a (by simp)
      simp [aLocal, h1] at this
    by_cases h2 : seen.contains (identifier a.name) = true
    · simp only [h1, h2, if_true, if_false, reduceCtorEq, false_iff]
      rintro ⟨⟨_, _, h⟩, _⟩
      exact h (aid a) (by simp) (by simpa using h2)
    by_cases h3 : invalidAttr cfg vendor a = true
    · simp only [h1, h2, h3, if_true, if_false, reduceCtorEq, false_iff]
      rintro ⟨⟨h, _, _⟩, _⟩
      have := h a (by simp)
      simp [aLocal, h3] at this
    simp only [h1, h2, h3, if_false, Bool.false_eq_true]
    rw [ih]
    have h2' : aid a ∉ seen := by simpa using h2
    have hl : aLocal cfg vendor a = true := by
      simp only [Bool.not_eq_true] at h1 h3
      simp [aLocal, h1, h3]
    simp only [AGood, List.map_cons, List.nodup_cons, List.mem_cons, List.reverse_cons, List.append_assoc,
      List.singleton_append, forall_eq_or_imp, not_or]
    constructor
    · rintro ⟨⟨g1, g2, g3⟩, rfl⟩
      exact ⟨⟨⟨hl, g1⟩, ⟨fun hm => (g3 _ hm).1 rfl, g2⟩, h2', fun x hx => (g3 x hx).2⟩, rfl⟩
    · rintro ⟨⟨⟨_, g1⟩, ⟨g0, g2⟩, _, g3⟩, rfl⟩
      exact ⟨⟨g1, g2, fun x hx => ⟨fun e => g0 (e ▸ hx), g3 x hx⟩⟩, rfl⟩

private theorem perm_AGood_perm (cfg : Cfg) (vendor : Bool) {seen₁ seen₂ : List Bytes} {as₁ as₂ : List Attribute}
    (hs : ∀ x, x ∈ seen₁ ↔ x ∈ seen₂) (hp : as₁.Perm as₂) :
    AGood cfg vendor seen₁ as₁ ↔ AGood cfg vendor seen₂ as₂ := by
  have hm : (as₁.map aid).Perm (as₂.map aid) := hp.map _
  unfold AGood
  refine and_congr ?_ (and_congr hm.nodup_iff ?_)
  · exact ⟨fun h a ha => h a (hp.mem_iff.2 ha), fun h a ha => h a (hp.mem_iff.1 ha)⟩
  · exact ⟨fun h x hx => (not_congr (hs x)).1 (h x (hm.mem_iff.2 hx)), fun h x hx => (not_congr (hs x)).2 (h x (hm.mem_iff.1 hx))⟩


/-! ### checkVendors -/

private def vsrc (cfg : Cfg) (o : Options) (v : Vendor) : List Attribute :=
  if cfg.dropIgnoredVendorAttrs then kept o v.attributes else v.attributes

private def vev (cfg : Cfg) (o : Options) (v : Vendor) : EVendor :=
  ⟨v.name, v.number, sortAttrs cfg (vsrc cfg o v), sortValues v.values⟩

private def vids (o : Options) (v : Vendor) : List Bytes := (kept o v.attributes).map aid

private def vimps (o : Options) (v : Vendor) : List Imp := (kept o v.attributes).flatMap declaredImports

private abbrev vid (v : Vendor) : Bytes := identifier v.name

private def vLocal (cfg : Cfg) (o : Options) (v : Vendor) : Prop :=
  (v.lengthOctets.getD 1 != 1 || v.typeOctets.getD 1 != 1) = false ∧
  (cfg.rejectRanges && (decide (v.number < 0) || decide (v.number > 4294967295))) = false ∧
  (∀ a ∈ kept o v.attributes, aLocal cfg true a = true) ∧
  checkAttrValues cfg (sortAttrs cfg (vsrc cfg o v)) (sortValues v.values) = .ok ()

private theorem perm_checkVendors_step (cfg : Cfg) (o : Options) (seen vseen : List Bytes) (v : Vendor) (rest : List Vendor) :
    checkVendors cfg o seen vseen (v :: rest) =
      if (v.lengthOctets.getD 1 != 1 || v.typeOctets.getD 1 != 1) = true then .error .vendorFormat
      else if (cfg.rejectRanges && (decide (v.number < 0) || decide (v.number > 4294967295))) = true then .error .range
      else if (cfg.rejectDupIdents && vseen.contains (vid v)) = true then .error .duplicate
      else match checkAttrs cfg true seen (kept o v.attributes) with
        | .error e => .error e
        | .ok seen' =>
          match checkAttrValues cfg (sortAttrs cfg (vsrc cfg o v)) (sortValues v.values) with
          | .error e => .error e
          | .ok _ =>
            match checkVendors cfg o seen' (vid v :: vseen) rest with
            | .error e => .error e
            | .ok r => .ok (vev cfg o v :: r.1, vimps o v ++ r.2) := by
  rw [checkVendors]
  unfold vev vimps vsrc vid
  dsimp only
  generalize (v.lengthOctets.getD 1 != 1 || v.typeOctets.getD 1 != 1) = b1
  cases b1 with
  | true => rfl
  | false =>
    generalize (cfg.rejectRanges && (decide (v.number < 0) || decide (v.number > 4294967295))) = b2
    cases b2 with
    | true => rfl
    | false =>
      generalize (cfg.rejectDupIdents && vseen.contains (vid v)) = b3
      cases b3 with
      | true => rfl
      | false =>
        generalize checkAttrs cfg true seen (kept o v.attributes) = r1
        cases r1 with
        | error e => rfl
        | ok seen' =>
          generalize checkAttrValues cfg _ _ = r2
          cases r2 with
          | error e => rfl
          | ok u =>
            dsimp only [bind, Except.bind]
            generalize checkVendors cfg o seen' (identifier v.name :: vseen) rest = r3
            cases r3 with
            | error e => rfl
            | ok p => cases p; rfl


private def VGood (cfg : Cfg) (o : Options) (seen vseen : List Bytes) (vs : List Vendor) : Prop :=
  (∀ v ∈ vs, vLocal cfg o v) ∧ (vs.flatMap (vids o)).Nodup ∧ (∀ x ∈ vs.flatMap (vids o), x ∉ seen) ∧
  (cfg.rejectDupIdents = true → (vs.map vid).Nodup ∧ ∀ x ∈ vs.map vid, x ∉ vseen)

private theorem perm_VGood_cons (cfg : Cfg) (o : Options) (seen vseen : List Bytes) (v : Vendor) (rest : List Vendor) :
    VGood cfg o seen vseen (v :: rest) ↔
      vLocal cfg o v ∧ (cfg.rejectDupIdents = true → vid v ∉ vseen) ∧ (vids o v).Nodup ∧ (∀ x ∈ vids o v, x ∉ seen) ∧
      VGood cfg o ((vids o v).reverse ++ seen) (vid v :: vseen) rest := by
  simp only [VGood, List.forall_mem_cons]
  simp only [List.flatMap_cons, List.nodup_append, List.mem_append, List.map_cons,
    List.nodup_cons, List.mem_cons, List.mem_reverse, not_or]
  constructor
  · rintro ⟨⟨g1, g2⟩, ⟨g3, g4, g5⟩, g6, g7⟩
    refine ⟨g1, fun hd => ((g7 hd).2 _ (Or.inl rfl)), g3, fun x hx => g6 x (Or.inl hx), g2, g4,
      fun x hx => ⟨fun hx' => g5 x hx' x hx rfl, g6 x (Or.inr hx)⟩, fun hd => ⟨(g7 hd).1.2, fun x hx => ⟨?_, (g7 hd).2 x (Or.inr hx)⟩⟩⟩
    rintro rfl
    exact (g7 hd).1.1 hx
  · rintro ⟨g1, g2, g3, g4, g5, g6, g7, g8⟩
    refine ⟨⟨g1, g5⟩, ⟨g3, g6, fun a ha b hb e => (g7 b hb).1 (e ▸ ha)⟩, fun x hx => ?_, fun hd => ⟨⟨fun hm => ((g8 hd).2 _ hm).1 rfl, (g8 hd).1⟩, fun x hx => ?_⟩⟩
    · rcases hx with hx | hx
      · exact g4 x hx
      · exact (g7 x hx).2
    · rcases hx with rfl | hx
      · exact g2 hd
      · exact ((g8 hd).2 x hx).2

private theorem perm_checkVendors_iff (cfg : Cfg) (o : Options) : ∀ (vs : List Vendor) (seen vseen : List Bytes) (r : List EVendor × List Imp),
    checkVendors cfg o seen vseen vs = .ok r ↔
      VGood cfg o seen vseen vs ∧ r = (vs.map (vev cfg o), vs.flatMap (vimps o))
  | [], seen, vseen, r => by
    rw [checkVendors]
    constructor
    · intro h; cases h
      exact ⟨⟨by simp, by simp, by simp, fun _ => by simp⟩, rfl⟩
    · rintro ⟨_, rfl⟩; rfl
  | v :: rest, seen, vseen, r => by
    rw [perm_checkVendors_step, perm_VGood_cons]
    by_cases h1 : (v.lengthOctets.getD 1 != 1 || v.typeOctets.getD 1 != 1) = true
    · simp only [h1, if_true, reduceCtorEq, false_iff]
      rintro ⟨⟨⟨h, _⟩, _⟩, _⟩
      rw [h1] at h; cases h
    by_cases h2 : (cfg.rejectRanges && (decide (v.number < 0) || decide (v.number > 4294967295))) = true
    · simp only [h1, h2, if_true, if_false, reduceCtorEq, false_iff]
      rintro ⟨⟨⟨_, h, _⟩, _⟩, _⟩
      rw [h2] at h; cases h
    by_cases h3 : (cfg.rejectDupIdents && vseen.contains (vid v)) = true
    · simp only [h1, h2, h3, if_true, if_false, reduceCtorEq, false_iff]
      rintro ⟨⟨_, h, _⟩, _⟩
      simp only [Bool.and_eq_true, List.contains_iff_mem] at h3
      exact h h3.1 h3.2
    rw [if_neg h1, if_neg h2, if_neg h3]
    have h3' : cfg.rejectDupIdents = true → vid v ∉ vseen := by
      intro hd hm
      apply h3
      simp [hd, hm]
    cases hc : checkAttrs cfg true seen (kept o v.attributes) with
    | error e =>
      simp only [reduceCtorEq, false_iff]
      rintro ⟨⟨⟨_, _, hl, _⟩, _, hn, hd, _⟩, _⟩
      have := (perm_checkAttrs_iff cfg true _ seen ((vids o v).reverse ++ seen)).2 ⟨⟨hl, hn, hd⟩, rfl⟩
      rw [hc] at this; cases this
    | ok seen' =>
      obtain ⟨⟨hl, hn, hd⟩, hs⟩ := (perm_checkAttrs_iff cfg true _ seen seen').1 hc
      change seen' = (vids o v).reverse ++ seen at hs
      subst hs
      cases hv : checkAttrValues cfg (sortAttrs cfg (vsrc cfg o v)) (sortValues v.values) with
      | error e =>
        simp only [reduceCtorEq, false_iff]
        rintro ⟨⟨⟨_, _, _, h⟩, _⟩, _⟩
        rw [hv] at h; cases h
      | ok u =>
        have ih := perm_checkVendors_iff cfg o rest ((vids o v).reverse ++ seen) (vid v :: vseen)
        have hloc : vLocal cfg o v := ⟨by simpa using h1, by simpa using h2, hl, hv⟩
        cases hr : checkVendors cfg o ((vids o v).reverse ++ seen) (vid v :: vseen) rest with
        | error e =>
          simp only [hr, reduceCtorEq, false_iff]
          rintro ⟨⟨_, _, _, _, hg⟩, _⟩
          have := (ih _).2 ⟨hg, rfl⟩
          rw [hr] at this; cases this
        | ok r' =>
          obtain ⟨hg, hr'⟩ := (ih r').1 hr
          subst hr'
          simp only [hr, Except.ok.injEq, List.map_cons, List.flatMap_cons]
          constructor
          · rintro rfl
            exact ⟨⟨hloc, h3', hn, hd, hg⟩, rfl⟩
          · rintro ⟨_, rfl⟩; rfl


/-! ### invariance under VendorEquiv / Perm -/

private theorem perm_nodup_map_inj {α β} {f : α → β} : ∀ {l : List α}, (l.map f).Nodup → ∀ {x y}, x ∈ l → y ∈ l → f x = f y → x = y
  | [], _, _, _, hx, _, _ => by cases hx
  | a :: l, hn, x, y, hx, hy, e => by
    rw [List.map_cons, List.nodup_cons] at hn
    rcases List.mem_cons.1 hx with rfl | hx'
    · rcases List.mem_cons.1 hy with rfl | hy'
      · rfl
      · exact absurd (List.mem_map.2 ⟨y, hy', e.symm⟩) hn.1
    · rcases List.mem_cons.1 hy with rfl | hy'
      · exact absurd (List.mem_map.2 ⟨x, hx', e⟩) hn.1
      · exact perm_nodup_map_inj hn.2 hx' hy' e

private theorem perm_vsrc (cfg : Cfg) (o : Options) {v w : Vendor} (h : VendorEquiv v w) :
    (vsrc cfg o v).Perm (vsrc cfg o w) := by
  unfold vsrc
  split
  · exact h.2.2.2.2.2.filter _
  · exact h.2.2.2.2.2

private theorem perm_vLocal_equiv (cfg : Cfg) (o : Options) {v w : Vendor} (h : VendorEquiv v w) :
    vLocal cfg o v ↔ vLocal cfg o w := by
  obtain ⟨h1, h2, h3, h4, h5, h6⟩ := h
  have hk : (kept o v.attributes).Perm (kept o w.attributes) := h6.filter _
  have hs : (sortAttrs cfg (vsrc cfg o v)).Perm (sortAttrs cfg (vsrc cfg o w)) :=
    ((sortStable_perm _ _).trans (perm_vsrc cfg o ⟨h1, h2, h3, h4, h5, h6⟩)).trans (sortStable_perm _ _).symm
  unfold vLocal
  rw [h2, h3, h4, h5, perm_checkAttrValues_perm cfg _ hs]
  refine and_congr Iff.rfl (and_congr Iff.rfl (and_congr ?_ Iff.rfl))
  exact ⟨fun h a ha => h a (hk.mem_iff.2 ha), fun h a ha => h a (hk.mem_iff.1 ha)⟩

/-- everything `generate` looks at in the vendor list, up to order -/
private structure VSame (cfg : Cfg) (o : Options) (vs ws : List Vendor) : Prop where
  loc : (∀ v ∈ vs, vLocal cfg o v) ↔ (∀ w ∈ ws, vLocal cfg o w)
  ids : (vs.flatMap (vids o)).Perm (ws.flatMap (vids o))
  vid : (vs.map vid).Perm (ws.map vid)
  imps : (vs.flatMap (vimps o)).Perm (ws.flatMap (vimps o))
  any : ∀ P : Attribute → Bool, vs.any (fun v => (vsrc cfg o v).any P) = ws.any (fun v => (vsrc cfg o v).any P)

private theorem perm_VSame_trans {cfg : Cfg} {o : Options} {a b c : List Vendor} (h1 : VSame cfg o a b) (h2 : VSame cfg o b c) :
    VSame cfg o a c :=
  ⟨h1.loc.trans h2.loc, h1.ids.trans h2.ids, h1.vid.trans h2.vid, h1.imps.trans h2.imps, fun P => (h1.any P).trans (h2.any P)⟩

private theorem perm_VSame_of_perm (cfg : Cfg) (o : Options) {vs ws : List Vendor} (h : vs.Perm ws) : VSame cfg o vs ws :=
  ⟨⟨fun g w hw => g w (h.mem_iff.2 hw), fun g w hw => g w (h.mem_iff.1 hw)⟩,
   h.flatMap_right _, h.map _, h.flatMap_right _, fun _ => h.any_eq⟩

private theorem perm_VSame_of_equiv (cfg : Cfg) (o : Options) {vs ws : List Vendor} (h : VendorsEquiv vs ws) : VSame cfg o vs ws := by
  induction h with
  | nil => exact ⟨Iff.rfl, .refl _, .refl _, .refl _, fun _ => rfl⟩
  | @cons v w vs ws hvw _ ih =>
    have hk : (kept o v.attributes).Perm (kept o w.attributes) := hvw.2.2.2.2.2.filter _
    refine ⟨?_, ?_, ?_, ?_, ?_⟩
    · simp only [List.forall_mem_cons]
      exact and_congr (perm_vLocal_equiv cfg o hvw) ih.loc
    · simp only [List.flatMap_cons]
      exact List.Perm.append (hk.map _) ih.ids
    · simp only [List.map_cons]
      have : vid v = vid w := by unfold vid; rw [hvw.1]
      rw [this]
      exact ih.vid.cons _
    · simp only [List.flatMap_cons]
      exact List.Perm.append (hk.flatMap_right _) ih.imps
    · intro P
      simp only [List.any_cons]
      rw [ih.any P, (perm_vsrc cfg o hvw).any_eq]

private theorem perm_VSame_of_rel (cfg : Cfg) (o : Options) {vs ws : List Vendor}
    (h : ∃ vs', VendorsEquiv vs vs' ∧ vs'.Perm ws) : VSame cfg o vs ws := by
  obtain ⟨vs', he, hp⟩ := h
  exact perm_VSame_trans (perm_VSame_of_equiv cfg o he) (perm_VSame_of_perm cfg o hp)

private theorem perm_VGood_same {cfg : Cfg} {o : Options} {vs ws : List Vendor} (h : VSame cfg o vs ws)
    {seen₁ seen₂ : List Bytes} (hs : ∀ x, x ∈ seen₁ ↔ x ∈ seen₂) (vseen : List Bytes) :
    VGood cfg o seen₁ vseen vs ↔ VGood cfg o seen₂ vseen ws := by
  unfold VGood
  refine and_congr h.loc (and_congr h.ids.nodup_iff (and_congr ?_ (imp_congr Iff.rfl (and_congr h.vid.nodup_iff ?_))))
  · exact ⟨fun g x hx => (not_congr (hs x)).1 (g x (h.ids.mem_iff.2 hx)), fun g x hx => (not_congr (hs x)).2 (g x (h.ids.mem_iff.1 hx))⟩
  · exact ⟨fun g x hx => g x (h.vid.mem_iff.2 hx), fun g x hx => g x (h.vid.mem_iff.1 hx)⟩

/-- the `any` tests of the emission phase only see the vendors' attribute sets -/
private theorem perm_evs_any (cfg : Cfg) (o : Options) (vs : List Vendor) (P : Attribute → Bool) :
    (sortVendors cfg (vs.map (vev cfg o))).any (fun v => v.attrs.any P) = vs.any (fun v => (vsrc cfg o v).any P) := by
  unfold sortVendors
  rw [(sortStable_perm _ _).any_eq, List.any_map]
  congr 1
  funext v
  exact (sortStable_perm (attrLess cfg) (vsrc cfg o v)).any_eq


/-! ### `generate` in three phases -/

private def fmtBad (a : Attribute) : Bool :=
  !lexesAsIdent (identifier a.name) || (isIntKind a.typ && (identifier a.name).isEmpty)

private def gmid (cfg : Cfg) (o : Options) (values : List Value)
    (rt : List (Bytes × Bytes) → Value → Route) (attrs : List Attribute) : Except Err Unit := do
  let exts := sortStable (fun a b => bytesLt a.1 b.1) o.refs
  let vals := values.filter (fun v => !o.ignore.contains v.attrName)
  if vals.any (fun v => rt exts v == .unknown) then throw .unknownValue
  let locals := sortValues (vals.filter (fun v => rt exts v == .loc))
  let extVals (e : Bytes × Bytes) := vals.filter (fun v => rt exts v == .ext e.1)
  checkAttrValues cfg attrs locals
  exts.forM (fun e => valuesOK cfg none (extVals e))

private def gtail (o : Options) (values : List Value) (rt : List (Bytes × Bytes) → Value → Route)
    (attrs : List Attribute) (evs : List EVendor) (stdI : List Imp) : Except Err Output := do
  let exts := sortStable (fun a b => bytesLt a.1 b.1) o.refs
  let vals := values.filter (fun v => !o.ignore.contains v.attrName)
  let locals := sortValues (vals.filter (fun v => rt exts v == .loc))
  let extVals (e : Bytes × Bytes) := vals.filter (fun v => rt exts v == .ext e.1)
  if evs.any (fun v => v.attrs.any vendorAttrPanics) then throw .panic
  if attrs.any fmtBad then throw .format
  if evs.any (fun v => v.attrs.any (fun a => hasTemplate a.typ && fmtBad a)) then throw .format
  if exts.any (fun e => !(extVals e).isEmpty && !lexesAsIdent (identifier e.1)) then throw .format
  let imports :=
    stdI
    ++ (if !attrs.isEmpty || !evs.isEmpty then [Imp.radius] else [])
    ++ (if !evs.isEmpty then [Imp.rfc2865] else [])
    ++ (dedupBytes ((exts.filter (fun e => !(extVals e).isEmpty)).map (·.2))).map Imp.dot
  let sections : List (Origin × List Decl) :=
    attrs.map (fun a => (Origin.attr false a, [(⟨.const, .typeConst, identifier a.name ++ bs "_Type", [], [.radiusType]⟩ : Decl)]))
    ++ evs.map (fun v => (Origin.vendor v.name, [(⟨.const, .vendorId, bs "_" ++ identifier v.name ++ bs "_VendorID", [], [.untyped]⟩ : Decl)]))
    ++ exts.map (fun e => (Origin.ext e.1,
        (⟨.func, .extInit, bs "init", [], []⟩ : Decl)
        :: (extVals e).map (fun v => (⟨.const, .extValue, identifier v.attrName ++ bs "_Value_" ++ identifier v.name, [], [.named (identifier v.attrName)]⟩ : Decl))))
    ++ attrs.map (fun a => (Origin.attr false a, attrDecls false a locals))
    ++ evs.flatMap (fun v => (Origin.vendor v.name, vendorHelperDecls (identifier v.name))
        :: v.attrs.map (fun a => (Origin.attr true a, attrDecls true a v.values)))
  pure ⟨imports, sections⟩

/-- the format gate on the external attributes: one with a VALUE whose name does not lex as an identifier -/
private def extBad (o : Options) (values : List Value) (rt : List (Bytes × Bytes) → Value → Route) : Bool :=
  (sortStable (fun a b => bytesLt a.1 b.1) o.refs).any (fun e =>
    !((values.filter (fun v => !o.ignore.contains v.attrName)).filter
        (fun v => rt (sortStable (fun a b => bytesLt a.1 b.1) o.refs) v == .ext e.1)).isEmpty
    && !lexesAsIdent (identifier e.1))

/-- the standard-library part of the import list -/
private def gstd (top vimps : List Imp) (evs : List EVendor) : List Imp :=
  stdImports.filter (top ++ vimps ++ (if !evs.isEmpty then [Imp.std (bs "errors")] else [])).contains

private theorem perm_generate_eq (cfg : Cfg) (d : Dictionary) (o : Options) :
    generate cfg d o = (do
      let seen ← checkAttrs cfg false [] (kept o d.attributes)
      gmid cfg o d.values (route (sortAttrs cfg (kept o d.attributes))) (sortAttrs cfg (kept o d.attributes))
      let r ← checkVendors cfg o seen [] d.vendors
      gtail o d.values (route (sortAttrs cfg (kept o d.attributes))) (sortAttrs cfg (kept o d.attributes)) (sortVendors cfg r.1)
        (gstd ((kept o d.attributes).flatMap declaredImports) r.2 (sortVendors cfg r.1))) := by
  unfold generate gmid gtail fmtBad gstd
  dsimp only
  generalize checkAttrs cfg false [] (kept o d.attributes) = r1
  cases r1 with
  | error e => rfl
  | ok seen =>
    generalize (List.any (List.filter (fun v => !o.ignore.contains v.attrName) d.values) _) = b
    cases b with
    | true => rfl
    | false =>
      generalize checkAttrValues cfg _ _ = r2
      cases r2 with
      | error e => rfl
      | ok u =>
        generalize (List.forM (m := Except Err) _ _ : Except Err PUnit) = r3
        cases r3 with
        | error e => rfl
        | ok u =>
          generalize checkVendors cfg o seen [] d.vendors = r4
          cases r4 with
          | error e => rfl
          | ok p =>
            cases p with
            | mk evs vimps => rfl

private theorem perm_bind_ok_iff {α β} (x : Except Err α) (f : α → Except Err β) (b : β) :
    (x >>= f) = .ok b ↔ ∃ a, x = .ok a ∧ f a = .ok b := by
  cases x <;> simp [bind, Except.bind]

private theorem perm_gtail_ok_iff (o : Options) (values : List Value) (rt : List (Bytes × Bytes) → Value → Route)
    (attrs : List Attribute) (evs : List EVendor) (stdI : List Imp) :
    (∃ out, gtail o values rt attrs evs stdI = .ok out) ↔
      evs.any (fun v => v.attrs.any vendorAttrPanics) = false ∧ attrs.any fmtBad = false ∧
      evs.any (fun v => v.attrs.any (fun a => hasTemplate a.typ && fmtBad a)) = false ∧
      extBad o values rt = false := by
  unfold gtail extBad
  dsimp only
  generalize evs.any (fun v => v.attrs.any vendorAttrPanics) = b1
  generalize attrs.any fmtBad = b2
  generalize evs.any (fun v => v.attrs.any (fun a => hasTemplate a.typ && fmtBad a)) = b3
  generalize (sortStable (fun a b => bytesLt a.1 b.1) o.refs).any _ = b4
  cases b1 <;> cases b2 <;> cases b3 <;> cases b4 <;>
    simp [bind, Except.bind, pure, Except.pure, throw, throwThe, MonadExceptOf.throw]

private theorem perm_gmid_ok_iff (cfg : Cfg) (o : Options) (values : List Value)
    (rt : List (Bytes × Bytes) → Value → Route) {as₁ as₂ : List Attribute} (hp : as₁.Perm as₂) :
    gmid cfg o values rt as₁ = .ok () ↔ gmid cfg o values rt as₂ = .ok () := by
  unfold gmid
  dsimp only
  generalize (List.any (List.filter (fun v => !o.ignore.contains v.attrName) values) _) = b
  cases b with
  | true => simp [bind, Except.bind, throw, throwThe, MonadExceptOf.throw]
  | false =>
    dsimp only [bind, Except.bind]
    have := perm_checkAttrValues_perm cfg (sortValues (List.filter (fun v => rt (sortStable (fun a b => bytesLt a.fst b.fst) o.refs) v == Route.loc)
      (List.filter (fun v => !o.ignore.contains v.attrName) values))) hp
    revert this
    generalize checkAttrValues cfg as₁ _ = r1
    generalize checkAttrValues cfg as₂ _ = r2
    intro h
    cases r1 with
    | error e =>
      cases r2 with
      | error e' => simp
      | ok u => cases u; simp at h
    | ok u =>
      cases u
      cases r2 with
      | error e' => simp at h
      | ok u => rfl


private theorem perm_generate_ok_iff (cfg : Cfg) (d : Dictionary) (o : Options) (out : Output) :
    generate cfg d o = .ok out ↔
      AGood cfg false [] (kept o d.attributes) ∧
      gmid cfg o d.values (route (sortAttrs cfg (kept o d.attributes))) (sortAttrs cfg (kept o d.attributes)) = .ok () ∧
      VGood cfg o (((kept o d.attributes).map aid).reverse ++ []) [] d.vendors ∧
      gtail o d.values (route (sortAttrs cfg (kept o d.attributes))) (sortAttrs cfg (kept o d.attributes))
        (sortVendors cfg (d.vendors.map (vev cfg o)))
        (gstd ((kept o d.attributes).flatMap declaredImports) (d.vendors.flatMap (vimps o)) (sortVendors cfg (d.vendors.map (vev cfg o)))) = .ok out := by
  rw [perm_generate_eq, perm_bind_ok_iff]
  constructor
  · rintro ⟨seen, h1, h2⟩
    rw [perm_bind_ok_iff] at h2
    obtain ⟨u, h2, h3⟩ := h2
    rw [perm_bind_ok_iff] at h3
    obtain ⟨r, h3, h4⟩ := h3
    obtain ⟨g1, rfl⟩ := (perm_checkAttrs_iff cfg false _ _ _).1 h1
    obtain ⟨g3, rfl⟩ := (perm_checkVendors_iff cfg o _ _ _ _).1 h3
    exact ⟨g1, h2, g3, h4⟩
  · rintro ⟨g1, g2, g3, g4⟩
    refine ⟨_, (perm_checkAttrs_iff cfg false _ _ _).2 ⟨g1, rfl⟩, ?_⟩
    rw [perm_bind_ok_iff]
    refine ⟨(), g2, ?_⟩
    rw [perm_bind_ok_iff]
    exact ⟨_, (perm_checkVendors_iff cfg o _ _ _ _).2 ⟨g3, rfl⟩, g4⟩

private theorem perm_accept_iff (cfg : Cfg) (d : Dictionary) (o : Options) :
    accept cfg d o = true ↔ ∃ out, generate cfg d o = .ok out := by
  unfold accept
  cases generate cfg d o <;> simp

private theorem perm_route_perm {as₁ as₂ : List Attribute} (hp : as₁.Perm as₂) : route as₁ = route as₂ := by
  funext exts v
  unfold route
  rw [hp.any_eq]

/-- the four phases of `generate` succeed for `d₁` iff they do for `d₂` -/
private theorem perm_phases (cfg : Cfg) (d₁ d₂ : Dictionary) (o : Options) (h : PermRel d₁ d₂) :
    (AGood cfg false [] (kept o d₁.attributes) ↔ AGood cfg false [] (kept o d₂.attributes)) ∧
    (gmid cfg o d₁.values (route (sortAttrs cfg (kept o d₁.attributes))) (sortAttrs cfg (kept o d₁.attributes)) = .ok () ↔
      gmid cfg o d₂.values (route (sortAttrs cfg (kept o d₂.attributes))) (sortAttrs cfg (kept o d₂.attributes)) = .ok ()) ∧
    (VGood cfg o (((kept o d₁.attributes).map aid).reverse ++ []) [] d₁.vendors ↔
      VGood cfg o (((kept o d₂.attributes).map aid).reverse ++ []) [] d₂.vendors) ∧
    ((∃ out, gtail o d₁.values (route (sortAttrs cfg (kept o d₁.attributes))) (sortAttrs cfg (kept o d₁.attributes))
        (sortVendors cfg (d₁.vendors.map (vev cfg o)))
        (gstd ((kept o d₁.attributes).flatMap declaredImports) (d₁.vendors.flatMap (vimps o)) (sortVendors cfg (d₁.vendors.map (vev cfg o)))) = .ok out) ↔
     (∃ out, gtail o d₂.values (route (sortAttrs cfg (kept o d₂.attributes))) (sortAttrs cfg (kept o d₂.attributes))
        (sortVendors cfg (d₂.vendors.map (vev cfg o)))
        (gstd ((kept o d₂.attributes).flatMap declaredImports) (d₂.vendors.flatMap (vimps o)) (sortVendors cfg (d₂.vendors.map (vev cfg o)))) = .ok out)) := by
  obtain ⟨ha, hv, hvs⟩ := h
  have hk : (kept o d₁.attributes).Perm (kept o d₂.attributes) := ha.filter _
  have hsa : (sortAttrs cfg (kept o d₁.attributes)).Perm (sortAttrs cfg (kept o d₂.attributes)) :=
    ((sortStable_perm _ _).trans hk).trans (sortStable_perm _ _).symm
  have hsame := perm_VSame_of_rel cfg o hvs
  refine ⟨perm_AGood_perm cfg false (fun _ => Iff.rfl) hk, ?_, ?_, ?_⟩
  · rw [hv, perm_route_perm hsa]
    exact perm_gmid_ok_iff cfg o _ _ hsa
  · refine perm_VGood_same hsame (fun x => ?_) []
    simp only [List.append_nil, List.mem_reverse]
    exact (hk.map aid).mem_iff
  · rw [perm_gtail_ok_iff, perm_gtail_ok_iff, perm_evs_any, perm_evs_any, perm_evs_any, perm_evs_any,
      hsame.any, hsame.any, hsa.any_eq, hv, perm_route_perm hsa]

theorem accept_perm' (cfg : Cfg) (d₁ d₂ : Dictionary) (o : Options) (h : PermRel d₁ d₂) :
    accept cfg d₁ o = accept cfg d₂ o := by
  obtain ⟨p1, p2, p3, p4⟩ := perm_phases cfg d₁ d₂ o h
  rw [Bool.eq_iff_iff, perm_accept_iff, perm_accept_iff]
  simp only [perm_generate_ok_iff]
  constructor
  · rintro ⟨out, g1, g2, g3, g4⟩
    obtain ⟨out', g4'⟩ := p4.1 ⟨out, g4⟩
    exact ⟨out', p1.1 g1, p2.1 g2, p3.1 g3, g4'⟩
  · rintro ⟨out, g1, g2, g3, g4⟩
    obtain ⟨out', g4'⟩ := p4.2 ⟨out, g4⟩
    exact ⟨out', p1.2 g1, p2.2 g2, p3.2 g3, g4'⟩

/-! ### bytesLt is a strict total order -/

private theorem perm_bytesLt_asymm : ∀ a b : Bytes, bytesLt a b = true → bytesLt b a = false
  | _, [], h => by simp [bytesLt] at h
  | [], _ :: _, _ => by simp [bytesLt]
  | x :: a, y :: b, h => by
    have ih := perm_bytesLt_asymm a b
    simp only [bytesLt, Bool.or_eq_true, Bool.and_eq_true, decide_eq_true_eq, beq_iff_eq] at h
    simp only [bytesLt, Bool.or_eq_false_iff, Bool.and_eq_false_iff, decide_eq_false_iff_not, beq_eq_false_iff_ne]
    rcases h with h | ⟨h1, h2⟩
    · have := UInt8.lt_iff_toNat_lt.1 h
      refine ⟨fun h' => ?_, Or.inl (fun e => ?_)⟩
      · have := UInt8.lt_iff_toNat_lt.1 h'; omega
      · subst e; omega
    · subst h1
      exact ⟨fun h' => by have := UInt8.lt_iff_toNat_lt.1 h'; omega, Or.inr (ih h2)⟩

private theorem perm_bytesLt_negtrans : ∀ a b c : Bytes, bytesLt b a = false → bytesLt c b = false → bytesLt c a = false
  | [], _, c, _, _ => by cases c <;> rfl
  | _ :: _, [], _, h1, _ => by simp [bytesLt] at h1
  | _ :: _, _ :: _, [], _, h2 => by simp [bytesLt] at h2
  | x :: a, y :: b, z :: c, h1, h2 => by
    have ih := perm_bytesLt_negtrans a b c
    have exy : y = x ↔ y.toNat = x.toNat := UInt8.toNat_inj.symm
    have eyz : z = y ↔ z.toNat = y.toNat := UInt8.toNat_inj.symm
    have exz : z = x ↔ z.toNat = x.toNat := UInt8.toNat_inj.symm
    simp only [bytesLt, Bool.or_eq_false_iff, Bool.and_eq_false_iff, decide_eq_false_iff_not, beq_eq_false_iff_ne,
      UInt8.lt_iff_toNat_lt, ne_eq, exy, eyz, exz] at h1 h2 ⊢
    rcases h1 with ⟨h1, h1'⟩
    rcases h2 with ⟨h2, h2'⟩
    refine ⟨by omega, ?_⟩
    rcases h1' with h1' | h1'
    · left; omega
    · rcases h2' with h2' | h2'
      · left; omega
      · right; exact ih h1' h2'

private theorem perm_bytesLt_tricho : ∀ a b : Bytes, bytesLt a b = false → bytesLt b a = false → a = b
  | [], [], _, _ => rfl
  | [], _ :: _, h, _ => by simp [bytesLt] at h
  | _ :: _, [], _, h => by simp [bytesLt] at h
  | x :: a, y :: b, h1, h2 => by
    have ih := perm_bytesLt_tricho a b
    simp only [bytesLt, Bool.or_eq_false_iff, Bool.and_eq_false_iff, decide_eq_false_iff_not, beq_eq_false_iff_ne,
      UInt8.lt_iff_toNat_lt] at h1 h2
    have hxy : x = y := UInt8.toNat_inj.1 (by omega)
    subst hxy
    rcases h1 with ⟨_, h1 | h1⟩
    · exact absurd rfl h1
    rcases h2 with ⟨_, h2 | h2⟩
    · exact absurd rfl h2
    rw [ih h1 h2]

private theorem perm_oidLess_nil_right : ∀ a : List Int, oidLess a [] = oidNilLess a
  | [] => rfl
  | _ :: _ => rfl

private theorem perm_oidLess_step (a b : List Int) :
    oidLess a b = if a.headD 0 ≠ b.headD 0 then decide (a.headD 0 < b.headD 0) else oidLess a.tail b.tail := by
  cases a with
  | nil =>
    cases b with
    | nil => rfl
    | cons y b => by_cases h : 0 = y <;> simp [oidLess, oidLessNil, h]
  | cons x a =>
    cases b with
    | nil => by_cases h : x = 0 <;> simp [oidLess, perm_oidLess_nil_right, h]
    | cons y b => by_cases h : x = y <;> simp [oidLess, h]

private theorem perm_oidLess_asymm_aux : ∀ (n : Nat) (a b : List Int), a.length ≤ n → b.length ≤ n →
    oidLess a b = true → oidLess b a = false
  | 0, a, b, ha, hb, _ => by
    have : a = [] := List.eq_nil_of_length_eq_zero (by omega)
    have : b = [] := List.eq_nil_of_length_eq_zero (by omega)
    subst_vars; rfl
  | n + 1, a, b, ha, hb, h => by
    have ih := perm_oidLess_asymm_aux n a.tail b.tail (by simp; omega) (by simp; omega)
    rw [perm_oidLess_step] at h ⊢
    by_cases e : a.headD 0 = b.headD 0
    · simp only [e, ne_eq, not_true_eq_false, if_false] at h ⊢
      exact ih h
    · have e' : ¬ b.headD 0 = a.headD 0 := fun h => e h.symm
      simp only [ne_eq, e, e', not_false_eq_true, if_true, decide_eq_true_eq, decide_eq_false_iff_not] at h ⊢
      omega

private theorem perm_oidLess_asymm (a b : List Int) : oidLess a b = true → oidLess b a = false :=
  perm_oidLess_asymm_aux (a.length + b.length) a b (by omega) (by omega)

private theorem perm_oidLess_negtrans_aux : ∀ (n : Nat) (a b c : List Int), a.length ≤ n → b.length ≤ n → c.length ≤ n →
    oidLess b a = false → oidLess c b = false → oidLess c a = false
  | 0, a, b, c, ha, hb, hc, _, _ => by
    have : a = [] := List.eq_nil_of_length_eq_zero (by omega)
    have : c = [] := List.eq_nil_of_length_eq_zero (by omega)
    subst_vars; rfl
  | n + 1, a, b, c, ha, hb, hc, h1, h2 => by
    have ih := perm_oidLess_negtrans_aux n a.tail b.tail c.tail (by simp; omega) (by simp; omega) (by simp; omega)
    rw [perm_oidLess_step] at h1 h2 ⊢
    generalize a.headD 0 = x at *
    generalize b.headD 0 = y at *
    generalize c.headD 0 = z at *
    by_cases e1 : y = x
    · subst e1
      simp only [ne_eq, not_true_eq_false, if_false] at h1
      by_cases e2 : z = y
      · subst e2
        simp only [ne_eq, not_true_eq_false, if_false] at h2 ⊢
        exact ih h1 h2
      · simp only [ne_eq, e2, not_false_eq_true, if_true, decide_eq_false_iff_not] at h2 ⊢
        exact h2
    · simp only [ne_eq, e1, not_false_eq_true, if_true, decide_eq_false_iff_not] at h1
      by_cases e2 : z = y
      · subst e2
        simp only [ne_eq, e1, not_false_eq_true, if_true, decide_eq_false_iff_not]
        exact h1
      · simp only [ne_eq, e2, not_false_eq_true, if_true, decide_eq_false_iff_not] at h2
        have e3 : ¬ z = x := by omega
        simp only [ne_eq, e3, not_false_eq_true, if_true, decide_eq_false_iff_not]
        omega

private theorem perm_oidLess_negtrans (a b c : List Int) : oidLess b a = false → oidLess c b = false → oidLess c a = false :=
  perm_oidLess_negtrans_aux (a.length + b.length + c.length) a b c (by omega) (by omega) (by omega)


private theorem perm_attrLess_rep (a b : Attribute) :
    attrLess Cfg.repaired a b = (oidLess a.oid b.oid || (!oidLess b.oid a.oid && bytesLt a.name b.name)) := rfl

private theorem perm_attrLess_asymm (a b : Attribute) : attrLess Cfg.repaired a b = true → attrLess Cfg.repaired b a = false := by
  rw [perm_attrLess_rep, perm_attrLess_rep]
  have h1 := perm_oidLess_asymm a.oid b.oid
  have h2 := perm_oidLess_asymm b.oid a.oid
  have h3 := perm_bytesLt_asymm a.name b.name
  revert h1 h2 h3
  cases oidLess a.oid b.oid <;> cases oidLess b.oid a.oid <;> cases bytesLt a.name b.name <;> cases bytesLt b.name a.name <;> simp

private theorem perm_attrLess_negtrans (a b c : Attribute) :
    attrLess Cfg.repaired b a = false → attrLess Cfg.repaired c b = false → attrLess Cfg.repaired c a = false := by
  rw [perm_attrLess_rep, perm_attrLess_rep, perm_attrLess_rep]
  have h1 := perm_oidLess_negtrans a.oid b.oid c.oid
  have h2 := perm_oidLess_negtrans b.oid c.oid a.oid
  have h3 := perm_oidLess_negtrans c.oid a.oid b.oid
  have h4 := perm_bytesLt_negtrans a.name b.name c.name
  revert h1 h2 h3 h4
  cases oidLess a.oid b.oid <;> cases oidLess b.oid a.oid <;> cases oidLess b.oid c.oid <;> cases oidLess c.oid b.oid <;>
    cases oidLess a.oid c.oid <;> cases oidLess c.oid a.oid <;> cases bytesLt b.name a.name <;> cases bytesLt c.name b.name <;>
    cases bytesLt c.name a.name <;> simp

private theorem perm_attrLess_name (a b : Attribute) :
    attrLess Cfg.repaired a b = false → attrLess Cfg.repaired b a = false → a.name = b.name := by
  rw [perm_attrLess_rep, perm_attrLess_rep]
  have h := perm_bytesLt_tricho a.name b.name
  revert h
  cases oidLess a.oid b.oid <;> cases oidLess b.oid a.oid <;> cases bytesLt a.name b.name <;> cases bytesLt b.name a.name <;> simp

private theorem perm_evLess_rep (a b : EVendor) :
    evendorLess Cfg.repaired a b = (decide (a.number < b.number) || (a.number == b.number && bytesLt a.name b.name)) := rfl

private theorem perm_evLess_asymm (a b : EVendor) : evendorLess Cfg.repaired a b = true → evendorLess Cfg.repaired b a = false := by
  rw [perm_evLess_rep, perm_evLess_rep]
  have h3 := perm_bytesLt_asymm a.name b.name
  by_cases e : a.number = b.number
  · simp only [e, Int.lt_irrefl, decide_false, beq_self_eq_true, Bool.true_and, Bool.false_or]; exact h3
  · have e' : ¬ b.number = a.number := fun h => e h.symm
    have e1 : (a.number == b.number) = false := by simp [e]
    have e2 : (b.number == a.number) = false := by simp [e']
    simp only [e1, e2, Bool.false_and, Bool.or_false, decide_eq_true_eq, decide_eq_false_iff_not]
    omega

private theorem perm_evLess_negtrans (a b c : EVendor) :
    evendorLess Cfg.repaired b a = false → evendorLess Cfg.repaired c b = false → evendorLess Cfg.repaired c a = false := by
  rw [perm_evLess_rep, perm_evLess_rep, perm_evLess_rep]
  have h4 := perm_bytesLt_negtrans a.name b.name c.name
  simp only [Bool.or_eq_false_iff, Bool.and_eq_false_iff, decide_eq_false_iff_not, beq_eq_false_iff_ne, ne_eq]
  rintro ⟨h1, h1'⟩ ⟨h2, h2'⟩
  refine ⟨by omega, ?_⟩
  rcases h1' with h1' | h1'
  · left; omega
  · rcases h2' with h2' | h2'
    · left; omega
    · by_cases e : c.number = a.number
      · right; exact h4 h1' h2'
      · left; exact e

private theorem perm_evLess_eq (a b : EVendor) :
    evendorLess Cfg.repaired a b = false → evendorLess Cfg.repaired b a = false → a.number = b.number ∧ a.name = b.name := by
  rw [perm_evLess_rep, perm_evLess_rep]
  have h := perm_bytesLt_tricho a.name b.name
  simp only [Bool.or_eq_false_iff, Bool.and_eq_false_iff, decide_eq_false_iff_not, beq_eq_false_iff_ne, ne_eq]
  rintro ⟨h1, h1'⟩ ⟨h2, h2'⟩
  have e : a.number = b.number := by omega
  refine ⟨e, h ?_ ?_⟩
  · rcases h1' with h1' | h1'
    · exact absurd e h1'
    · exact h1'
  · rcases h2' with h2' | h2'
    · exact absurd e.symm h2'
    · exact h2'


/-! ### repaired configuration: the sorted lists coincide -/

private theorem perm_sortAttrs_rep {l₁ l₂ : List Attribute} (hp : l₁.Perm l₂) (hn : (l₁.map aid).Nodup) :
    sortAttrs Cfg.repaired l₁ = sortAttrs Cfg.repaired l₂ := by
  unfold sortAttrs
  refine sortStable_eq_of_perm _ perm_attrLess_asymm perm_attrLess_negtrans hp ?_
  intro a ha b hb h1 h2
  refine perm_nodup_map_inj hn ha hb ?_
  show identifier a.name = identifier b.name
  rw [perm_attrLess_name a b h1 h2]

private theorem perm_vev_rep (o : Options) {v w : Vendor} (h : VendorEquiv v w) (hn : (vids o v).Nodup) :
    vev Cfg.repaired o v = vev Cfg.repaired o w := by
  have hs : sortAttrs Cfg.repaired (vsrc Cfg.repaired o v) = sortAttrs Cfg.repaired (vsrc Cfg.repaired o w) :=
    perm_sortAttrs_rep (perm_vsrc _ o h) hn
  unfold vev
  rw [hs, h.1, h.2.1, h.2.2.2.2.1]

private theorem perm_map_vev_rep (o : Options) {vs ws : List Vendor} (h : VendorsEquiv vs ws)
    (hn : (vs.flatMap (vids o)).Nodup) : vs.map (vev Cfg.repaired o) = ws.map (vev Cfg.repaired o) := by
  induction h with
  | nil => rfl
  | @cons v w vs ws hvw _ ih =>
    rw [List.flatMap_cons, List.nodup_append] at hn
    rw [List.map_cons, List.map_cons, perm_vev_rep o hvw hn.1, ih hn.2.1]

private theorem perm_sortVendors_rep (o : Options) {vs ws : List Vendor} (hp : vs.Perm ws) (hn : (vs.map vid).Nodup) :
    sortVendors Cfg.repaired (vs.map (vev Cfg.repaired o)) = sortVendors Cfg.repaired (ws.map (vev Cfg.repaired o)) := by
  unfold sortVendors
  refine sortStable_eq_of_perm _ perm_evLess_asymm perm_evLess_negtrans (hp.map _) ?_
  intro a ha b hb h1 h2
  obtain ⟨v, hv, rfl⟩ := List.mem_map.1 ha
  obtain ⟨w, hw, rfl⟩ := List.mem_map.1 hb
  have hname : v.name = w.name := (perm_evLess_eq _ _ h1 h2).2
  have : v = w := perm_nodup_map_inj hn hv hw (by show identifier v.name = identifier w.name; rw [hname])
  rw [this]

theorem perm_invariant_repaired' :
    ∀ (d₁ d₂ : Dictionary) (o : Options), PermRel d₁ d₂ →
    (generate Cfg.repaired d₁ o).toOption = (generate Cfg.repaired d₂ o).toOption := by
  intro d₁ d₂ o h
  have hacc := accept_perm' Cfg.repaired d₁ d₂ o h
  cases h₁ : generate Cfg.repaired d₁ o with
  | error e =>
    cases h₂ : generate Cfg.repaired d₂ o with
    | error e' => rfl
    | ok out => simp [accept, h₁, h₂] at hacc
  | ok out =>
    obtain ⟨p1, p2, p3, _⟩ := perm_phases Cfg.repaired d₁ d₂ o h
    obtain ⟨g1, g2, g3, g4⟩ := (perm_generate_ok_iff _ _ _ _).1 h₁
    obtain ⟨ha, hv, vs', he, hp⟩ := h
    have hk : (kept o d₁.attributes).Perm (kept o d₂.attributes) := ha.filter _
    have hsame := perm_VSame_of_rel Cfg.repaired o ⟨vs', he, hp⟩
    -- the sorted attribute lists coincide
    have eA : sortAttrs Cfg.repaired (kept o d₁.attributes) = sortAttrs Cfg.repaired (kept o d₂.attributes) :=
      perm_sortAttrs_rep hk g1.2.1
    -- the sorted vendor lists coincide
    have eV : sortVendors Cfg.repaired (d₁.vendors.map (vev Cfg.repaired o)) =
        sortVendors Cfg.repaired (d₂.vendors.map (vev Cfg.repaired o)) := by
      rw [perm_map_vev_rep o he g3.2.1]
      refine perm_sortVendors_rep o hp ?_
      have := (g3.2.2.2 rfl).1
      exact ((perm_VSame_of_equiv Cfg.repaired o he).vid.nodup_iff).1 this
    -- the standard imports coincide
    have eI : gstd ((kept o d₁.attributes).flatMap declaredImports) (d₁.vendors.flatMap (vimps o))
          (sortVendors Cfg.repaired (d₁.vendors.map (vev Cfg.repaired o))) =
        gstd ((kept o d₂.attributes).flatMap declaredImports) (d₂.vendors.flatMap (vimps o))
          (sortVendors Cfg.repaired (d₂.vendors.map (vev Cfg.repaired o))) := by
      rw [eV]
      unfold gstd
      apply List.filter_congr
      intro x _
      exact (List.Perm.append_right _ (List.Perm.append (hk.flatMap_right _) hsame.imps)).contains_eq
    have h₂ : generate Cfg.repaired d₂ o = .ok out := by
      rw [perm_generate_ok_iff]
      refine ⟨p1.1 g1, p2.1 g2, p3.1 g3, ?_⟩
      rw [← eI, ← eA, ← eV, ← hv]
      exact g4
    rw [h₂]

end RV.Gen
