/- C17 helper lemmas: the orders used by the repaired sort (OID with zero padding, then name) are strict weak orders. -/
import RV.Proofs.GenBasic
set_option linter.unusedSimpArgs false
namespace RV.Gen
open RV.Dict RV.Gen.Spec

theorem oidLess_nil_right (a : List Int) : oidLess a [] = oidNilLess a := by
  cases a <;> simp [oidLess, oidLessNil, oidNilLess]

/-- `[]` behaves like `0 :: []` -/
theorem oidLess_unfold (a b : List Int) :
    oidLess a b = if a.headD 0 ≠ b.headD 0 then decide (a.headD 0 < b.headD 0) else oidLess a.tail b.tail := by
  cases a with
  | nil =>
    cases b with
    | nil => simp [oidLess, oidLessNil]
    | cons y b => simp [oidLess, oidLessNil]
  | cons x a =>
    cases b with
    | nil => simp [oidLess, oidLess_nil_right]
    | cons y b => simp [oidLess]

theorem oidLess_asym : ∀ (n : Nat) (a b : List Int), a.length + b.length ≤ n → oidLess a b = true → oidLess b a = false := by
  intro n
  induction n with
  | zero =>
    intro a b h
    have ha : a = [] := List.eq_nil_of_length_eq_zero (by omega)
    have hb : b = [] := List.eq_nil_of_length_eq_zero (by omega)
    subst ha hb
    simp [oidLess, oidLessNil]
  | succ n ih =>
    intro a b h hab
    by_cases hnil : a = [] ∧ b = []
    · rw [hnil.1, hnil.2]; simp [oidLess, oidLessNil]
    · rw [oidLess_unfold] at hab ⊢
      have hlen : a.tail.length + b.tail.length ≤ n := by
        cases a <;> cases b <;> simp_all <;> omega
      generalize a.headD 0 = xa at hab ⊢
      generalize b.headD 0 = xb at hab ⊢
      by_cases hx : xa = xb
      · subst hx
        simp at hab ⊢
        exact ih _ _ hlen hab
      · have hx' : xb ≠ xa := fun h => hx h.symm
        simp [hx] at hab
        simp [hx']
        omega

theorem oidLess_negtrans : ∀ (n : Nat) (a b c : List Int), a.length + b.length + c.length ≤ n →
    oidLess b a = false → oidLess c b = false → oidLess c a = false := by
  intro n
  induction n with
  | zero =>
    intro a b c h
    have ha : a = [] := List.eq_nil_of_length_eq_zero (by omega)
    have hc : c = [] := List.eq_nil_of_length_eq_zero (by omega)
    subst ha hc
    simp [oidLess, oidLessNil]
  | succ n ih =>
    intro a b c h hba hcb
    by_cases hnil : a = [] ∧ b = [] ∧ c = []
    · rw [hnil.1, hnil.2.2]; simp [oidLess, oidLessNil]
    · rw [oidLess_unfold] at hba hcb ⊢
      have hlen : a.tail.length + b.tail.length + c.tail.length ≤ n := by
        cases a <;> cases b <;> cases c <;> simp_all <;> omega
      generalize a.headD 0 = xa at hba hcb ⊢
      generalize b.headD 0 = xb at hba hcb ⊢
      generalize c.headD 0 = xc at hba hcb ⊢
      by_cases h1 : xb = xa <;> by_cases h2 : xc = xb
      · subst h1 h2
        simp at hba hcb ⊢
        exact ih _ _ _ hlen hba hcb
      · subst h1
        simp at hba; simp [h2] at hcb
        simp [h2]; omega
      · subst h2
        simp [h1] at hba; simp at hcb
        simp [h1]; omega
      · simp [h1] at hba; simp [h2] at hcb
        have h3 : xc ≠ xa := by omega
        simp [h3]; omega

/-! bytesLt: strict total order -/
theorem bytesLt_irrefl (a : Bytes) : bytesLt a a = false := by
  induction a with
  | nil => rfl
  | cons x a ih => simp [bytesLt, ih]

theorem bytesLt_asym (a b : Bytes) : bytesLt a b = true → bytesLt b a = false := by
  induction a generalizing b with
  | nil => cases b <;> simp [bytesLt]
  | cons x a ih =>
    cases b with
    | nil => simp [bytesLt]
    | cons y b =>
      simp only [bytesLt, Bool.or_eq_true, Bool.and_eq_true, decide_eq_true_eq, beq_iff_eq, Bool.or_eq_false_iff, Bool.and_eq_false_iff, decide_eq_false_iff_not]
      rintro (h | ⟨h, h'⟩)
      · refine ⟨?_, Or.inl ?_⟩
        · exact UInt8.not_lt.mpr (UInt8.le_of_lt h)
        · simp only [beq_eq_false_iff_ne, ne_eq]; intro e; subst e; exact absurd h (UInt8.lt_irrefl _)
      · subst h
        exact ⟨UInt8.lt_irrefl _, Or.inr (ih b h')⟩

theorem bytesLt_negtrans (a b c : Bytes) : bytesLt b a = false → bytesLt c b = false → bytesLt c a = false := by
  induction a generalizing b c with
  | nil => intro _ _; cases c <;> simp [bytesLt]
  | cons x a ih =>
    cases c with
    | nil =>
      cases b with
      | nil => simp [bytesLt]
      | cons y b => simp [bytesLt]
    | cons z c =>
      cases b with
      | nil => simp [bytesLt]
      | cons y b =>
        simp only [bytesLt, Bool.or_eq_false_iff, Bool.and_eq_false_iff, decide_eq_false_iff_not, beq_eq_false_iff_ne, ne_eq]
        rintro ⟨h1, h1'⟩ ⟨h2, h2'⟩
        have hyx : x ≤ y := UInt8.not_lt.mp h1
        have hzy : y ≤ z := UInt8.not_lt.mp h2
        refine ⟨UInt8.not_lt.mpr (UInt8.le_trans hyx hzy), ?_⟩
        by_cases hzx : z = x
        · right
          subst hzx
          have hxy : y = z := UInt8.le_antisymm hzy hyx
          subst hxy
          rcases h1' with h | h
          · exact absurd rfl h
          · rcases h2' with h' | h'
            · exact absurd rfl h'
            · exact ih b c h h'
        · left; exact hzx

theorem bytesLt_total (a b : Bytes) : bytesLt a b = false → bytesLt b a = false → a = b := by
  induction a generalizing b with
  | nil => cases b <;> simp [bytesLt]
  | cons x a ih =>
    cases b with
    | nil => simp [bytesLt]
    | cons y b =>
      simp only [bytesLt, Bool.or_eq_false_iff, Bool.and_eq_false_iff, decide_eq_false_iff_not, beq_eq_false_iff_ne, ne_eq]
      rintro ⟨h1, h1'⟩ ⟨h2, h2'⟩
      have hxy : x = y := UInt8.le_antisymm (UInt8.not_lt.mp h2) (UInt8.not_lt.mp h1)
      subst hxy
      rcases h1' with h | h
      · exact absurd rfl h
      · rcases h2' with h' | h'
        · exact absurd rfl h'
        · rw [ih b h h']

theorem oidLess_asym' (a b : List Int) : oidLess a b = true → oidLess b a = false := oidLess_asym _ a b (Nat.le_refl _)
theorem oidLess_negtrans' (a b c : List Int) : oidLess b a = false → oidLess c b = false → oidLess c a = false :=
  oidLess_negtrans _ a b c (Nat.le_refl _)

theorem attrLess_repaired_eq (a b : Attribute) :
    attrLess Cfg.repaired a b = (oidLess a.oid b.oid || (!oidLess b.oid a.oid && bytesLt a.name b.name)) := by
  simp [attrLess, Cfg.repaired]

theorem attrLess_repaired_asym (a b : Attribute) : attrLess Cfg.repaired a b = true → attrLess Cfg.repaired b a = false := by
  rw [attrLess_repaired_eq, attrLess_repaired_eq]
  intro h
  have h1 := oidLess_asym' a.oid b.oid
  have h1' := oidLess_asym' b.oid a.oid
  have h2 := bytesLt_asym a.name b.name
  cases hab : oidLess a.oid b.oid <;> cases hba : oidLess b.oid a.oid <;> cases hn : bytesLt a.name b.name <;> simp_all

theorem attrLess_repaired_negtrans (a b c : Attribute) :
    attrLess Cfg.repaired b a = false → attrLess Cfg.repaired c b = false → attrLess Cfg.repaired c a = false := by
  rw [attrLess_repaired_eq, attrLess_repaired_eq, attrLess_repaired_eq]
  intro hba hcb
  have t1 := oidLess_negtrans' a.oid b.oid c.oid
  have t2 := oidLess_negtrans' b.oid c.oid a.oid
  have t3 := oidLess_negtrans' c.oid a.oid b.oid
  have n := bytesLt_negtrans a.name b.name c.name
  cases h1 : oidLess b.oid a.oid <;> cases h2 : oidLess a.oid b.oid <;> cases h3 : oidLess c.oid b.oid <;>
    cases h4 : oidLess b.oid c.oid <;> cases h5 : oidLess c.oid a.oid <;> cases h6 : oidLess a.oid c.oid <;>
    simp_all

theorem sortAttrs_repaired_pairwise (as : List Attribute) :
    (sortAttrs Cfg.repaired as).Pairwise (fun a b => attrLess Cfg.repaired b a = false) :=
  sortStable_pairwise _ attrLess_repaired_asym attrLess_repaired_negtrans as

end RV.Gen
