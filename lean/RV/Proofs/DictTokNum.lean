/-
  C16, token level (L1), part 2: hexadecimal numbers, VALUE numbers, dotted numbers (OIDs), the
  VENDOR `format=t,l` token.  The parsers of RV.Model.DictParser accept exactly the grammar of
  RV.Model.DictGrammar and return what the grammar says the token denotes.
-/
import RV.Proofs.DictTokBase
namespace RV.DictParser
open RV RV.Dict RV.DictParser.Spec RV.DictParser.Grammar

/-! ### hexadecimal numbers -/

theorem hexVal_iff (b : UInt8) (d : Nat) : hexVal? b = some d ↔ HexDigit b ∧ d = hexDigitValue b := by
  unfold hexVal? HexDigit hexDigitValue
  simp only [Bool.and_eq_true, decide_eq_true_eq, UInt8.le_iff_toNat_le]
  have hlt := b.toNat_lt
  have e48 : (48 : UInt8).toNat = 48 := rfl
  have e57 : (57 : UInt8).toNat = 57 := rfl
  have e65 : (65 : UInt8).toNat = 65 := rfl
  have e70 : (70 : UInt8).toNat = 70 := rfl
  have e97 : (97 : UInt8).toNat = 97 := rfl
  have e102 : (102 : UInt8).toNat = 102 := rfl
  rw [e48, e57, e65, e70, e97, e102]
  generalize b.toNat = n at *
  by_cases h1 : 48 ≤ n ∧ n ≤ 57
  · rw [if_pos h1, if_pos h1.2, Option.some.injEq]
    constructor
    · intro h; exact ⟨Or.inl h1, h.symm⟩
    · intro h; exact h.2.symm
  · rw [if_neg h1]
    by_cases h2 : 97 ≤ n ∧ n ≤ 102
    · rw [if_pos h2, if_neg (by omega), if_neg (by omega), Option.some.injEq]
      constructor
      · intro h; exact ⟨Or.inr (Or.inl h2), h.symm⟩
      · intro h; exact h.2.symm
    · rw [if_neg h2]
      by_cases h3 : 65 ≤ n ∧ n ≤ 70
      · rw [if_pos h3, if_neg (by omega), if_pos h3.2, Option.some.injEq]
        constructor
        · intro h; exact ⟨Or.inr (Or.inr h3), h.symm⟩
        · intro h; exact h.2.symm
      · rw [if_neg h3]
        constructor
        · intro h; cases h
        · rintro ⟨h | h | h, _⟩
          · exact absurd h h1
          · exact absurd h h2
          · exact absurd h h3

theorem hexVal_none (b : UInt8) : hexVal? b = none ↔ ¬ HexDigit b := by
  constructor
  · intro h hd
    have := (hexVal_iff b (hexDigitValue b)).mpr ⟨hd, rfl⟩
    rw [h] at this; cases this
  · intro h
    cases hv : hexVal? b with
    | none => rfl
    | some d => exact absurd ((hexVal_iff b d).mp hv).1 h

theorem foldl_hexStep_none (s : Bytes) : s.foldl hexStep none = none := by
  induction s with
  | nil => rfl
  | cons b s ih => simpa [hexStep] using ih

/-- Horner's rule over `Option Nat`: every byte is a hexadecimal digit, and the result is the
    positional value -/
theorem foldl_hex (s : Bytes) (a n : Nat) :
    s.foldl hexStep (some a) = some n ↔ (∀ b ∈ s, HexDigit b) ∧ n = a * 16 ^ s.length + hexValue s := by
  induction s generalizing a with
  | nil => simp [hexValue, eq_comm]
  | cons b s ih =>
    simp only [List.foldl_cons, List.length_cons, hexValue, List.mem_cons, forall_eq_or_imp]
    cases hv : hexVal? b with
    | none =>
      have hnd := (hexVal_none b).mp hv
      have : hexStep (some a) b = none := by simp [hexStep, hv]
      rw [this, foldl_hexStep_none]
      simp [hnd]
    | some d =>
      obtain ⟨hd, hdv⟩ := (hexVal_iff b d).mp hv
      have : hexStep (some a) b = some (a * 16 + d) := by simp [hexStep, hv]
      rw [this, ih, hdv]
      simp only [hd, true_and, Nat.pow_succ, Nat.add_mul]
      rw [Nat.mul_assoc, Nat.mul_comm 16, Nat.add_assoc]

theorem hexNat_iff (s : Bytes) (n : Nat) : hexNat? s = some n ↔ Hexadecimal s ∧ hexValue s = n := by
  unfold hexNat? Hexadecimal
  by_cases he : s = []
  · subst he; simp
  · have hf := foldl_hex s 0 n
    simp only [Nat.zero_mul, Nat.zero_add] at hf
    have : s.isEmpty = false := by simpa using he
    simp only [this, Bool.false_eq_true, if_false]
    show s.foldl hexStep (some 0) = some n ↔ _
    rw [hf]
    simp [he, eq_comm]

/-- L1: `strconv.ParseUint(s, 16, 32)` -/
theorem parseUint32Hex_iff (s : Bytes) (n : Nat) :
    parseUint32Hex s = some n ↔ Hexadecimal s ∧ hexValue s = n ∧ n < 2 ^ 32 := by
  unfold parseUint32Hex
  cases h : hexNat? s with
  | none =>
    simp only [Option.bind_none, reduceCtorEq, false_iff]
    rintro ⟨hd, hv, _⟩
    have := (hexNat_iff s n).mpr ⟨hd, hv⟩
    rw [h] at this; cases this
  | some m =>
    obtain ⟨hd, hv⟩ := (hexNat_iff s m).mp h
    simp only [Option.bind_some]
    constructor
    · intro hm
      split at hm
      · cases hm; exact ⟨hd, hv, by assumption⟩
      · cases hm
    · rintro ⟨_, hv', hlt⟩
      have : m = n := by rw [← hv, hv']
      subst this
      simp [hlt]

/-! ### the number of a VALUE -/

theorem take2_0x_iff (num : Bytes) : (num.take 2 == kw0x) = true ↔ ∃ h, num = kw0x ++ h := by
  constructor
  · intro h
    have h' : num.take 2 = kw0x := by simpa using h
    refine ⟨num.drop 2, ?_⟩
    rw [← h', List.take_append_drop]
  · rintro ⟨h, rfl⟩
    simp [kw0x]

/-- a decimal string does not begin with `0x` (`x` is no digit) -/
theorem decimal_not_0x (h : Bytes) : ¬ Decimal (kw0x ++ h) := by
  rintro ⟨_, hall⟩
  have := hall 120 (by simp [kw0x])
  exact absurd this.2 (by decide)

/-- the number switch of `parseValue` -/
theorem valueNumber_iff (num : Bytes) (n : Nat) :
    (if num.take 2 == kw0x then parseUint32Hex (num.drop 2) else parseUint32Dec num) = some n ↔ ValueNumber num n := by
  unfold ValueNumber
  by_cases h0 : (num.take 2 == kw0x) = true
  · obtain ⟨h, rfl⟩ := (take2_0x_iff num).mp h0
    have hdrop : (kw0x ++ h).drop 2 = h := by simp [kw0x]
    rw [if_pos h0, hdrop, parseUint32Hex_iff]
    constructor
    · intro hh; exact Or.inl ⟨h, rfl, hh⟩
    · rintro (⟨h', he, hh⟩ | ⟨hd, _⟩)
      · have : h = h' := List.append_cancel_left he
        subst this; exact hh
      · exact absurd hd (decimal_not_0x h)
  · rw [if_neg h0, parseUint32Dec_iff]
    constructor
    · intro hh; exact Or.inr hh
    · rintro (⟨h', he, _⟩ | hh)
      · exact absurd ((take2_0x_iff num).mpr ⟨h', he⟩) h0
      · exact hh

/-- L1: `VALUE attr name number` -/
theorem parseValue_iff (attr name num : Bytes) (v : Value) :
    parseValue attr name num = .ok v ↔ ValueArgs attr name num v := by
  unfold parseValue ValueArgs
  simp only
  cases hn : (if num.take 2 == kw0x then parseUint32Hex (num.drop 2) else parseUint32Dec num) with
  | none =>
    simp only [reduceCtorEq, false_iff]
    rintro ⟨_, _, hv⟩
    have := (valueNumber_iff num v.number).mpr hv
    rw [hn] at this; cases this
  | some n =>
    have hvn := (valueNumber_iff num n).mp hn
    simp only [Except.ok.injEq]
    constructor
    · intro h; subst h; exact ⟨rfl, rfl, hvn⟩
    · rintro ⟨ha, hb, hv⟩
      have := (valueNumber_iff num v.number).mpr hv
      rw [hn] at this
      cases v
      simp only [Option.some.injEq] at this
      simp_all

theorem parseValue_error (attr name num : Bytes) (e : ErrClass) (h : parseValue attr name num = .error e) :
    e = .strconv := by
  unfold parseValue at h
  simp only at h
  split at h
  · cases h
  · cases h; rfl

/-! ### dotted numbers (OIDs) -/

/-- `.c₁.c₂…` -/
def dotTail (cs : List Bytes) : Bytes := (cs.map fun c => 46 :: c).flatten

theorem dotTail_nil : dotTail [] = [] := rfl

theorem dotTail_cons (c : Bytes) (cs : List Bytes) : dotTail (c :: cs) = 46 :: (c ++ dotTail cs) := by
  simp [dotTail]

theorem intercalate_dotTail (c : Bytes) (cs : List Bytes) : Spec.intercalate 46 (c :: cs) = c ++ dotTail cs := by
  induction cs generalizing c with
  | nil => simp [Spec.intercalate, dotTail]
  | cons d ds ih => rw [Spec.intercalate, ih, dotTail_cons]

theorem dotTail_head (cs : List Bytes) : dotTail cs = [] ∨ ∃ t, dotTail cs = 46 :: t := by
  cases cs with
  | nil => exact Or.inl rfl
  | cons c cs => exact Or.inr ⟨_, dotTail_cons c cs⟩

/-- a string that begins with a digit does not begin with the `.` of the next component -/
theorem digits_ne_nil {d : UInt8} {rest ds : Bytes} {cs : List Bytes} (hd : isDigit d = true)
    (h : d :: rest = ds ++ dotTail cs) : ds ≠ [] := by
  rintro rfl
  rcases dotTail_head cs with h0 | ⟨t, ht⟩
  · rw [h0] at h; cases h
  · rw [ht] at h
    simp only [List.nil_append, List.cons.injEq] at h
    have := (isDigit_ne hd).2.2
    rw [h.1] at this
    exact absurd this (by decide)

theorem foldl_decStep_zero (ds : Bytes) : ds.foldl decStep 0 = decValue ds := by
  have := foldl_dec ds 0
  simp only [Nat.zero_mul, Nat.zero_add] at this
  exact this

theorem decimal_of_digits {ds : Bytes} (hne : ds ≠ []) (h : ds.all isDigit = true) : Decimal ds :=
  ⟨hne, (all_isDigit_iff ds).mp h⟩

/-- fix #13: a step that is taken stays below 2⁶³ and does not wrap -/
theorem oidStep_some (cfg : Cfg) (h13 : cfg.oidOverflowRejected = true) (cur : Nat) (d : UInt8) (v : Int)
    (hd : isDigit d = true) (h : oidStep cfg (cur : Int) d = some v) :
    decStep cur d < 2 ^ 63 ∧ v = ((decStep cur d : Nat) : Int) := by
  by_cases hov : decStep cur d < 2 ^ 63
  · rw [oidStep_ok cfg cur d hd hov] at h
    cases h
    exact ⟨hov, rfl⟩
  · have hlt := digitVal_lt d hd
    have : oidStep cfg (cur : Int) d = none := by
      unfold decStep at hov
      have : (cur : Int) > (maxInt64 - (digitVal d : Int)) / 10 := by
        unfold maxInt64; omega
      simp [oidStep, h13, this]
    rw [this] at h; cases h

/-- what the loop of `parseOID` has read when it succeeds: the remaining digits of the current
    component, then `.`-led components; with fix #13 every component's value is below 2⁶³ and the
    result lists these values -/
theorem oidLoop_some (cfg : Cfg) (rest : Bytes) : ∀ (done : List Int) (cur : Int) (o : List Int),
    oidLoop cfg rest done cur = some o →
    ∃ ds cs, ds.all isDigit = true ∧ (∀ c ∈ cs, Decimal c) ∧ rest = ds ++ dotTail cs ∧
      (cfg.oidOverflowRejected = true → ∀ n : Nat, cur = (n : Int) → n < 2 ^ 63 →
        ds.foldl decStep n < 2 ^ 63 ∧ (∀ c ∈ cs, decValue c < 2 ^ 63) ∧
        o = done.reverse ++ ((ds.foldl decStep n : Nat) : Int) :: oidOf cs) := by
  induction rest with
  | nil =>
    intro done cur o h
    refine ⟨[], [], rfl, by simp, rfl, ?_⟩
    intro _ n hn hlt
    simp only [oidLoop, Option.some.injEq] at h
    refine ⟨hlt, by simp, ?_⟩
    rw [← h, hn]
    simp [oidOf]
  | cons c rest ih =>
    intro done cur o h
    rw [oidLoop.eq_def] at h
    simp only at h
    by_cases h46 : (c == 46) = true
    · have hc : c = 46 := by simpa using h46
      simp only [h46, if_true] at h
      cases rest with
      | nil => cases h
      | cons d rest' =>
        simp only at h
        by_cases hd : isDigit d = true
        · simp only [hd, if_true] at h
          obtain ⟨ds', cs', hdig, hdec, hrest, hval⟩ := ih (cur :: done) 0 o h
          have hne := digits_ne_nil hd hrest
          refine ⟨[], ds' :: cs', rfl, ?_, ?_, ?_⟩
          · intro x hx
            simp only [List.mem_cons] at hx
            rcases hx with rfl | hx
            · exact decimal_of_digits hne hdig
            · exact hdec x hx
          · rw [List.nil_append, dotTail_cons, hc, hrest]
          · intro h13 n hn hlt
            obtain ⟨h1, h2, h3⟩ := hval h13 0 rfl (by decide)
            rw [foldl_decStep_zero] at h1 h3
            refine ⟨hlt, ?_, ?_⟩
            · intro x hx
              simp only [List.mem_cons] at hx
              rcases hx with rfl | hx
              · exact h1
              · exact h2 x hx
            · rw [h3, hn]
              simp [oidOf]
        · simp [hd] at h
    · simp only [h46, Bool.false_eq_true, if_false] at h
      by_cases hd : isDigit c = true
      · simp only [hd, if_true] at h
        cases hs : oidStep cfg cur c with
        | none => rw [hs] at h; cases h
        | some v =>
          rw [hs] at h
          simp only at h
          obtain ⟨ds', cs', hdig, hdec, hrest, hval⟩ := ih done v o h
          refine ⟨c :: ds', cs', by simp [hd, hdig], hdec, by rw [hrest]; rfl, ?_⟩
          intro h13 n hn hlt
          subst hn
          obtain ⟨hlt', hv⟩ := oidStep_some cfg h13 n c v hd hs
          exact hval h13 (decStep n c) hv hlt'
      · simp [hd] at h

/-- the loop accepts every tail of `.`-led components whose values fit -/
theorem oidLoop_dotTail (cfg : Cfg) : ∀ (cs : List Bytes) (done : List Int) (cur : Nat),
    (∀ c ∈ cs, Decimal c) → (∀ c ∈ cs, decValue c < 2 ^ 63) →
    oidLoop cfg (dotTail cs) done (cur : Int) = some (done.reverse ++ (cur : Int) :: oidOf cs)
  | [], done, cur, _, _ => by simp [dotTail, oidLoop, oidOf]
  | c :: cs, done, cur, hdec, hval => by
    obtain ⟨d, c', rfl, hd⟩ := decimal_head (hdec c (by simp))
    have hall : (d :: c').all isDigit = true := (all_isDigit_iff _).mpr (hdec _ (by simp)).2
    have hv : (d :: c').foldl decStep 0 < 2 ^ 63 := by
      rw [foldl_decStep_zero]; exact hval _ (by simp)
    rw [dotTail_cons, List.cons_append, oidLoop_dot cfg d _ done _ hd]
    refine Eq.trans (oidLoop_digits cfg (d :: c') (dotTail cs) ((cur : Int) :: done) 0 hall hv) ?_
    rw [oidLoop_dotTail cfg cs _ _ (fun x hx => hdec x (by simp [hx])) (fun x hx => hval x (by simp [hx])),
      foldl_decStep_zero]
    simp [oidOf]

theorem parseOID_eq_loop (cfg : Cfg) (c : UInt8) (rest : Bytes) (hd : isDigit c = true) :
    parseOID cfg (c :: rest) = oidLoop cfg (c :: rest) [] 0 := by
  conv => rhs; unfold oidLoop
  simp only [parseOID, hd, if_true, (isDigit_ne hd).2.2, Bool.false_eq_true, if_false]

/-- L1: with fix #13, `parseOID` accepts exactly the dotted numbers whose components fit Go's `int` -/
theorem parseOID_iff (cfg : Cfg) (h13 : cfg.oidOverflowRejected = true) (s : Bytes) (o : List Int) :
    parseOID cfg s = some o ↔
      ∃ comps, DottedNumber s comps ∧ (∀ c ∈ comps, decValue c < 2 ^ 63) ∧ o = oidOf comps := by
  constructor
  · intro h
    cases s with
    | nil => simp [parseOID] at h
    | cons c rest =>
      by_cases hd : isDigit c = true
      · rw [parseOID_eq_loop cfg c rest hd] at h
        obtain ⟨ds, cs, hdig, hdec, hrest, hval⟩ := oidLoop_some cfg _ [] 0 o h
        have hne := digits_ne_nil hd hrest
        obtain ⟨h1, h2, h3⟩ := hval h13 0 rfl (by decide)
        rw [foldl_decStep_zero] at h1 h3
        refine ⟨ds :: cs, ⟨by simp, ?_, ?_⟩, ?_, ?_⟩
        · intro x hx
          simp only [List.mem_cons] at hx
          rcases hx with rfl | hx
          · exact decimal_of_digits hne hdig
          · exact hdec x hx
        · rw [intercalate_dotTail]; exact hrest
        · intro x hx
          simp only [List.mem_cons] at hx
          rcases hx with rfl | hx
          · exact h1
          · exact h2 x hx
        · rw [h3]; simp [oidOf]
      · simp [parseOID, hd] at h
  · rintro ⟨comps, ⟨hne, hdec, hs⟩, hval, ho⟩
    cases comps with
    | nil => exact absurd rfl hne
    | cons c cs =>
      obtain ⟨d, c', rfl, hd⟩ := decimal_head (hdec c (by simp))
      have hall : (d :: c').all isDigit = true := (all_isDigit_iff _).mpr (hdec _ (by simp)).2
      have hv : (d :: c').foldl decStep 0 < 2 ^ 63 := by
        rw [foldl_decStep_zero]; exact hval _ (by simp)
      rw [hs, intercalate_dotTail, List.cons_append, parseOID_eq_loop cfg d _ hd]
      refine Eq.trans (oidLoop_digits cfg (d :: c') (dotTail cs) [] 0 hall hv) ?_
      rw [oidLoop_dotTail cfg cs _ _ (fun x hx => hdec x (by simp [hx])) (fun x hx => hval x (by simp [hx])),
        foldl_decStep_zero, ho]
      simp [oidOf]

/-- in every configuration the SYNTAX of an accepted OID is that of a dotted number -/
theorem parseOID_dotted (cfg : Cfg) (s : Bytes) (o : List Int) (h : parseOID cfg s = some o) :
    ∃ comps, DottedNumber s comps := by
  cases s with
  | nil => simp [parseOID] at h
  | cons c rest =>
    by_cases hd : isDigit c = true
    · rw [parseOID_eq_loop cfg c rest hd] at h
      obtain ⟨ds, cs, hdig, hdec, hrest, _⟩ := oidLoop_some cfg _ [] 0 o h
      have hne := digits_ne_nil hd hrest
      refine ⟨ds :: cs, by simp, ?_, ?_⟩
      · intro x hx
        simp only [List.mem_cons] at hx
        rcases hx with rfl | hx
        · exact decimal_of_digits hne hdig
        · exact hdec x hx
      · rw [intercalate_dotTail]; exact hrest
    · simp [parseOID, hd] at h

/-! ### the VENDOR format token -/

/-- the nine format tokens, with the byte arithmetic `parseVendor` does on them -/
theorem formatTok_cases {f : Bytes} {t l : Nat} (h : FormatTok f t l) (cfg : Cfg) (h12 : cfg.formatLenChecked = true) :
    formatOK cfg f = true ∧ ((f.getD 7 0) - 48).toNat = t ∧ ((f.getD 9 0) - 48).toNat = l := by
  obtain ⟨ht, hl, rfl⟩ := h
  rcases ht with rfl | rfl | rfl <;> rcases hl with rfl | rfl | rfl <;>
    exact ⟨by simp [formatOK, kwFormat, h12], by decide, by decide⟩

/-- L1: with fix #12, the format test accepts exactly `format=t,l`, t ∈ {1,2,4}, l ∈ {0,1,2} -/
theorem formatOK_iff (cfg : Cfg) (h12 : cfg.formatLenChecked = true) (f : Bytes) :
    formatOK cfg f = true ↔ ∃ t l, FormatTok f t l := by
  constructor
  · intro h
    obtain ⟨t, l, ht, hl, hf⟩ := formatOK_shape cfg h12 f h
    exact ⟨t, l, ht, hl, hf⟩
  · rintro ⟨t, l, h⟩
    exact (formatTok_cases h cfg h12).1

/-- a format token spells its two numbers -/
theorem formatTok_inj {f : Bytes} {t l t' l' : Nat} (h : FormatTok f t l) (h' : FormatTok f t' l') : t = t' ∧ l = l' := by
  have c := formatTok_cases h Cfg.repaired rfl
  have c' := formatTok_cases h' Cfg.repaired rfl
  exact ⟨c.2.1.symm.trans c'.2.1, c.2.2.symm.trans c'.2.2⟩

/-- L1: `VENDOR name number [format=t,l]` -/
theorem parseVendor_iff (cfg : Cfg) (h12 : cfg.formatLenChecked = true) (name num : Bytes) (fmt : Option Bytes) (v : Vendor) :
    parseVendor cfg name num fmt = .ok v ↔ VendorArgs name num fmt v := by
  unfold parseVendor VendorArgs
  cases hn : parseInt32 num with
  | none =>
    simp only [reduceCtorEq, false_iff]
    rintro ⟨_, hlit, _⟩
    have := (parseInt32_iff num v.number).mpr hlit
    rw [hn] at this; cases this
  | some n =>
    have hlit := (parseInt32_iff num n).mp hn
    have hnum : ∀ m, Int32Lit num m → m = n := by
      intro m hm
      have := (parseInt32_iff num m).mpr hm
      rw [hn] at this
      cases this; rfl
    simp only
    cases fmt with
    | none =>
      constructor
      · intro h; cases h
        exact ⟨rfl, hlit, rfl, rfl, Or.inl ⟨rfl, rfl, rfl⟩⟩
      · rintro ⟨h1, h2, h3, h4, (⟨_, h5, h6⟩ | ⟨f, t, l, hf, _⟩)⟩
        · have := hnum _ h2
          cases v
          simp_all
        · cases hf
    | some f =>
      simp only
      by_cases hok : formatOK cfg f = true
      · obtain ⟨t, l, hft⟩ := (formatOK_iff cfg h12 f).mp hok
        obtain ⟨_, ht, hl⟩ := formatTok_cases hft cfg h12
        rw [if_pos hok, ht, hl]
        constructor
        · intro h; cases h
          exact ⟨rfl, hlit, rfl, rfl, Or.inr ⟨f, t, l, rfl, hft, rfl, rfl⟩⟩
        · rintro ⟨h1, h2, h3, h4, (⟨hf, _, _⟩ | ⟨f', t', l', hf, hft', h5, h6⟩)⟩
          · cases hf
          · cases hf
            obtain ⟨rfl, rfl⟩ := formatTok_inj hft hft'
            have := hnum _ h2
            cases v
            simp_all
      · rw [if_neg hok]
        simp only [reduceCtorEq, false_iff]
        rintro ⟨_, _, _, _, (⟨hf, _, _⟩ | ⟨f', t', l', hf, hft', _, _⟩)⟩
        · cases hf
        · cases hf
          exact hok ((formatOK_iff cfg h12 f).mpr ⟨t', l', hft'⟩)

/-! ### non-vacuity -/

example : ValueNumber [48, 120, 49, 70] 31 := Or.inl ⟨[49, 70], rfl, by decide, by decide, by decide⟩
example : ValueNumber [51, 49] 31 := Or.inr (by decide)
example : parseValue [65] [66] [48, 120, 49, 70] = .ok ⟨[65], [66], 31⟩ := by rfl
example : ¬ ValueNumber [48, 120] 0 := by
  intro h; have := (valueNumber_iff _ _).mpr h; revert this; decide
example : Hexadecimal [97, 70, 48] ∧ hexValue [97, 70, 48] = 0xaf0 ∧ ¬ Hexadecimal [] ∧ ¬ Hexadecimal [71] := by decide
example : DottedNumber [49, 46, 48, 50] [[49], [48, 50]] := by unfold DottedNumber; decide
example : oidOf [[49], [48, 50]] = [1, 2] := by decide
example : parseOID Cfg.repaired [49, 46, 48, 50] = some [1, 2] := by decide
example : ¬ ∃ comps, DottedNumber [49, 46] comps := by
  rintro ⟨comps, h⟩
  obtain ⟨o, ho⟩ : ∃ o, parseOID Cfg.current [49, 46] = some o := by
    obtain ⟨hne, hdec, hs⟩ := h
    cases comps with
    | nil => exact absurd rfl hne
    | cons c cs =>
      rw [intercalate_dotTail] at hs
      rcases dotTail_head cs with h0 | ⟨t, ht⟩
      · rw [h0, List.append_nil] at hs
        exact absurd (hdec c (by simp)) (by rw [← hs]; decide)
      · cases cs with
        | nil => simp [dotTail] at ht
        | cons c2 cs2 =>
          rw [dotTail_cons] at hs
          obtain ⟨d, c', rfl, hd⟩ := decimal_head (hdec c (by simp))
          obtain ⟨d2, c2', rfl, hd2⟩ := decimal_head (hdec c2 (by simp))
          cases c' with
          | nil => simp at hs
          | cons x c'' =>
            simp only [List.cons_append, List.cons.injEq] at hs
            obtain ⟨_, hx, hnil⟩ := hs
            cases c'' <;> simp at hnil
  have : parseOID Cfg.current [49, 46] = none := by decide
  rw [this] at ho; cases ho
example : FormatTok (kwFormat ++ [52, 44, 48]) 4 0 := by unfold FormatTok; decide
example : ¬ ∃ t l, FormatTok (kwFormat ++ [52, 44, 51]) t l := by
  rw [← formatOK_iff Cfg.repaired rfl]; decide
example : VendorArgs [65] [57] (some (kwFormat ++ [50, 44, 49])) ⟨[65], 9, some 2, some 1, [], []⟩ :=
  (parseVendor_iff Cfg.repaired rfl _ _ _ _).mp (by rfl)

end RV.DictParser
