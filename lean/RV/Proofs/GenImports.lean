/- C17 helper lemmas: ignore list and imports. -/
import RV.Proofs.GenBasic
namespace RV.Gen
open RV.Dict RV.Gen.Spec

/-! ### per-attribute facts -/

set_option maxHeartbeats 400000 in
private theorem imp_attr_imports (cfg : Cfg) (vendor : Bool) (a : Attribute)
    (hv : invalidAttr cfg vendor a = false) (he : encryptSupported a = true) (i : Imp) :
    (i ∈ declaredImports a ↔ i ∈ usedImports vendor a) := by
  rcases a with ⟨name, oid, typ, size, encrypt, hasTag, isConcat⟩
  cases vendor <;> cases typ <;> cases size <;> cases encrypt <;>
    simp_all [invalidAttr, encryptSupported, declaredImports, usedImports, stringy, isIPKind, isIntKind,
      intBits, salted, tagged, concatenated, hasTemplate] <;> first
      | exact or_comm
      | (intro _ ht hc; rw [hv.2 hc] at ht; cases ht)

private theorem imp_used_std (vendor : Bool) (a : Attribute) (i : Imp) (h : i ∈ usedImports vendor a) :
    i ∈ stdImports ∧ hasTemplate a.typ = true := by
  rcases a with ⟨name, oid, typ, size, encrypt, hasTag, isConcat⟩
  cases typ <;>
    simp_all [usedImports, stringy, isIPKind, isIntKind, intBits, hasTemplate, stdImports] <;>
    rcases h with h | h <;> simp_all

private theorem imp_attrDecls_roles (vendor : Bool) (a : Attribute) (vals : List Value)
    (h : hasTemplate a.typ = true) : (attrDecls vendor a vals).all (·.role == .typeConst) = false := by
  rcases a with ⟨name, oid, typ, size, encrypt, hasTag, isConcat⟩
  cases typ <;> simp_all [hasTemplate, stringy, isIPKind, isIntKind, intBits, attrDecls, simpleDecls, intDecls, fn]
  all_goals (split <;> simp [concatDecls, stringDecls, fn])

/-! ### the validity loops -/

theorem imp_checkAttrs_valid (cfg : Cfg) (vendor : Bool) (as : List Attribute) :
    ∀ (seen seen' : List Bytes), checkAttrs cfg vendor seen as = .ok seen' →
      ∀ a ∈ as, invalidAttr cfg vendor a = false := by
  induction as with
  | nil => intro _ _ _ a ha; cases ha
  | cons b rest ih =>
    intro seen seen' h a ha
    simp only [checkAttrs] at h
    split at h
    · cases h
    · split at h
      · cases h
      · split at h
        · cases h
        · rename_i hinv
          rcases List.mem_cons.1 ha with rfl | ha
          · simpa using hinv
          · exact ih _ _ h a ha

/-- a vendor as emitted -/
def imp_mkEV (cfg : Cfg) (o : Options) (v : Vendor) : EVendor :=
  ⟨v.name, v.number,
    sortAttrs cfg (if cfg.dropIgnoredVendorAttrs then kept o v.attributes else v.attributes),
    sortValues v.values⟩

theorem imp_checkVendors_struct (cfg : Cfg) (o : Options) (vs : List Vendor) :
    ∀ (seen vseen : List Bytes) (r : List EVendor × List Imp),
      checkVendors cfg o seen vseen vs = .ok r →
      r.1 = vs.map (imp_mkEV cfg o)
      ∧ r.2 = vs.flatMap (fun v => (kept o v.attributes).flatMap declaredImports)
      ∧ ∀ v ∈ vs, ∀ a ∈ kept o v.attributes, invalidAttr cfg true a = false := by
  induction vs with
  | nil =>
    intro seen vseen r h
    simp only [checkVendors] at h
    cases h
    simp
  | cons v rest ih =>
    intro seen vseen r h
    simp only [checkVendors, bind, Except.bind, pure, Except.pure, throw, throwThe, MonadExceptOf.throw] at h
    split at h
    · cases h
    split at h
    · cases h
    split at h
    · cases h
    split at h
    · cases h
    rename_i seen1 hca
    split at h
    · cases h
    split at h
    · cases h
    rename_i r' hcv
    cases h
    obtain ⟨h1, h2, h3⟩ := ih _ _ _ hcv
    refine ⟨?_, ?_, ?_⟩
    · simp [h1, imp_mkEV]
    · simp [h2]
    · intro w hw a ha
      rcases List.mem_cons.1 hw with rfl | hw
      · exact imp_checkAttrs_valid cfg true _ _ _ hca a ha
      · exact h3 w hw a ha

/-! ### shape of a successful `generate` -/

def imp_secs (attrs : List Attribute) (evs : List EVendor) (locals : List Value)
    (extSecs : List (Origin × List Decl)) : List (Origin × List Decl) :=
  attrs.map (fun a => (Origin.attr false a, [(⟨.const, .typeConst, identifier a.name ++ bs "_Type", [], [.radiusType]⟩ : Decl)]))
  ++ evs.map (fun v => (Origin.vendor v.name, [(⟨.const, .vendorId, bs "_" ++ identifier v.name ++ bs "_VendorID", [], [.untyped]⟩ : Decl)]))
  ++ extSecs
  ++ attrs.map (fun a => (Origin.attr false a, attrDecls false a locals))
  ++ evs.flatMap (fun v => (Origin.vendor v.name, vendorHelperDecls (identifier v.name))
      :: v.attrs.map (fun a => (Origin.attr true a, attrDecls true a v.values)))

theorem imp_gen_struct (cfg : Cfg) (d : Dictionary) (o : Options) (out : Output)
    (h : generate cfg d o = .ok out) :
    ∃ (seen : List Bytes) (r : List EVendor × List Imp) (locals : List Value)
      (extSecs : List (Origin × List Decl)) (dots : List Bytes),
      checkAttrs cfg false [] (kept o d.attributes) = .ok seen ∧
      checkVendors cfg o seen [] d.vendors = .ok r ∧
      (∀ s ∈ extSecs, ∃ n, s.1 = Origin.ext n) ∧
      out.imports =
        stdImports.filter ((kept o d.attributes).flatMap declaredImports ++ r.2
          ++ (if !(sortVendors cfg r.1).isEmpty then [Imp.std (bs "errors")] else [])).contains
        ++ (if !(sortAttrs cfg (kept o d.attributes)).isEmpty || !(sortVendors cfg r.1).isEmpty then [Imp.radius] else [])
        ++ (if !(sortVendors cfg r.1).isEmpty then [Imp.rfc2865] else [])
        ++ dots.map Imp.dot ∧
      out.sections = imp_secs (sortAttrs cfg (kept o d.attributes)) (sortVendors cfg r.1) locals extSecs := by
  simp only [generate, bind, Except.bind, pure, Except.pure, throw, throwThe, MonadExceptOf.throw] at h
  split at h
  · cases h
  rename_i seen hca
  split at h
  · cases h
  split at h
  · cases h
  split at h
  · cases h
  split at h
  · cases h
  rename_i r hcv
  split at h
  · cases h
  split at h
  · cases h
  split at h
  · cases h
  split at h
  · cases h
  cases h
  refine ⟨seen, r, _, _, _, hca, hcv, ?_, rfl, rfl⟩
  intro s hs
  simp only [List.mem_map] at hs
  obtain ⟨e, _, rfl⟩ := hs
  exact ⟨_, rfl⟩

/-! ### `neededImports` of the emitted sections -/

private theorem imp_needed_append (l₁ l₂ : List (Origin × List Decl)) :
    neededImports (l₁ ++ l₂) = neededImports l₁ ++ neededImports l₂ := by
  simp [neededImports]

private theorem imp_needed_tc (i : Imp) (attrs : List Attribute) (n : Attribute → Bytes) :
    i ∈ neededImports (attrs.map (fun a => (Origin.attr false a,
      [(⟨.const, .typeConst, n a, [], [.radiusType]⟩ : Decl)]))) ↔ i = Imp.radius ∧ ∃ a, a ∈ attrs := by
  simp only [neededImports, List.mem_flatMap, List.mem_map]
  constructor
  · rintro ⟨s, ⟨a, ha, rfl⟩, h⟩
    refine ⟨?_, a, ha⟩
    simpa using h
  · rintro ⟨rfl, a, ha⟩
    exact ⟨_, ⟨a, ha, rfl⟩, by simp⟩

private theorem imp_needed_vid (i : Imp) (evs : List EVendor) (f : EVendor → List Decl) :
    i ∈ neededImports (evs.map (fun v => (Origin.vendor v.name, f v))) ↔
      (i = Imp.radius ∨ i = Imp.rfc2865 ∨ i = Imp.std (bs "errors")) ∧ ∃ v, v ∈ evs := by
  simp only [neededImports, List.mem_flatMap, List.mem_map]
  constructor
  · rintro ⟨s, ⟨a, ha, rfl⟩, h⟩
    refine ⟨?_, a, ha⟩
    simpa using h
  · rintro ⟨h, a, ha⟩
    exact ⟨_, ⟨a, ha, rfl⟩, by simpa using h⟩

private theorem imp_needed_ext (i : Imp) (extSecs : List (Origin × List Decl))
    (h : ∀ s ∈ extSecs, ∃ n, s.1 = Origin.ext n) : i ∉ neededImports extSecs := by
  simp only [neededImports, List.mem_flatMap, not_exists, not_and]
  intro s hs
  obtain ⟨n, hn⟩ := h s hs
  simp [hn]

private theorem imp_needed_attrs (i : Imp) (vendor : Bool) (attrs : List Attribute) (vals : List Value) :
    i ∈ neededImports (attrs.map (fun a => (Origin.attr vendor a, attrDecls vendor a vals))) ↔
      ∃ a ∈ attrs, i = Imp.radius ∨
        ((attrDecls vendor a vals).all (·.role == .typeConst) = false ∧ i ∈ usedImports vendor a) := by
  simp only [neededImports, List.mem_flatMap, List.mem_map]
  constructor
  · rintro ⟨s, ⟨a, ha, rfl⟩, h⟩
    refine ⟨a, ha, ?_⟩
    simp only [List.mem_cons] at h
    rcases h with h | h
    · exact Or.inl h
    · split at h
      · cases h
      · rename_i hh; exact Or.inr ⟨by simpa using hh, h⟩
  · rintro ⟨a, ha, h⟩
    refine ⟨_, ⟨a, ha, rfl⟩, ?_⟩
    simp only [List.mem_cons]
    rcases h with h | ⟨h1, h2⟩
    · exact Or.inl h
    · right; rw [if_neg (by simp [h1])]; exact h2

private theorem imp_needed_vend (i : Imp) (evs : List EVendor) (f : EVendor → List Decl) :
    i ∈ neededImports (evs.flatMap (fun v => (Origin.vendor v.name, f v)
        :: v.attrs.map (fun a => (Origin.attr true a, attrDecls true a v.values)))) ↔
      ∃ v ∈ evs, (i = Imp.radius ∨ i = Imp.rfc2865 ∨ i = Imp.std (bs "errors")) ∨ ∃ a ∈ v.attrs, i = Imp.radius ∨
        ((attrDecls true a v.values).all (·.role == .typeConst) = false ∧ i ∈ usedImports true a) := by
  induction evs with
  | nil => simp [neededImports]
  | cons v rest ih =>
    rw [List.flatMap_cons, imp_needed_append, List.mem_append, ih]
    have : ((Origin.vendor v.name, f v) :: v.attrs.map (fun a => (Origin.attr true a, attrDecls true a v.values)))
        = [(Origin.vendor v.name, f v)] ++ v.attrs.map (fun a => (Origin.attr true a, attrDecls true a v.values)) := rfl
    rw [this, imp_needed_append, List.mem_append, imp_needed_attrs]
    simp [neededImports]

/-! ### membership in the emitted sections -/

theorem imp_mem_secs {attrs : List Attribute} {evs : List EVendor} {locals : List Value}
    {extSecs : List (Origin × List Decl)} {s : Origin × List Decl}
    (hs : s ∈ imp_secs attrs evs locals extSecs) :
    (∃ a ∈ attrs, s.1 = Origin.attr false a) ∨ (∃ v ∈ evs, s.1 = Origin.vendor v.name) ∨ s ∈ extSecs
    ∨ (∃ v ∈ evs, ∃ a ∈ v.attrs, s.1 = Origin.attr true a) := by
  simp only [imp_secs, List.mem_append, List.mem_map, List.mem_flatMap, List.mem_cons] at hs
  rcases hs with (((⟨a, ha, rfl⟩ | ⟨v, hv, rfl⟩) | hs) | ⟨a, ha, rfl⟩) | ⟨v, hv, rfl | ⟨a, ha, rfl⟩⟩
  · exact Or.inl ⟨a, ha, rfl⟩
  · exact Or.inr (Or.inl ⟨v, hv, rfl⟩)
  · exact Or.inr (Or.inr (Or.inl hs))
  · exact Or.inl ⟨a, ha, rfl⟩
  · exact Or.inr (Or.inl ⟨v, hv, rfl⟩)
  · exact Or.inr (Or.inr (Or.inr ⟨v, hv, a, ha, rfl⟩))

theorem imp_mem_kept {o : Options} {as : List Attribute} {a : Attribute} :
    a ∈ kept o as ↔ a ∈ as ∧ a.name ∉ o.ignore := by
  simp [kept]

theorem imp_kept_eq_self (o : Options) (as : List Attribute)
    (h : ∀ a ∈ as, a.name ∉ o.ignore) : kept o as = as := by
  simp only [kept, List.filter_eq_self]
  intro a ha
  simpa using h a ha

theorem imp_mkEV_attrs (cfg : Cfg) (o : Options) (w : Vendor)
    (hdrop : cfg.dropIgnoredVendorAttrs = true ∨ ∀ a ∈ w.attributes, a.name ∉ o.ignore) (a : Attribute) :
    a ∈ (imp_mkEV cfg o w).attrs ↔ a ∈ kept o w.attributes := by
  simp only [imp_mkEV, sortAttrs, mem_sortStable]
  rcases hdrop with h | h
  · simp [h]
  · rw [imp_kept_eq_self o _ h]; split <;> rfl

private theorem imp_enc_of_valid (cfg : Cfg) (vendor : Bool) (a : Attribute)
    (hv : invalidAttr cfg vendor a = false) (hc : cfg.rejectUnimplEncrypt = true) :
    encryptSupported a = true := by
  cases h : encryptSupported a
  · simp [invalidAttr, hc, h] at hv
  · rfl

/-! ### the ignore list -/

private theorem imp_ignored (cfg : Cfg) (d : Dictionary) (o : Options) (out : Output)
    (h : generate cfg d o = .ok out) :
    ∀ s ∈ out.sections, ∀ vendor a, s.1 = Origin.attr vendor a →
      (vendor = false ∨ cfg.dropIgnoredVendorAttrs = true) → a.name ∉ o.ignore := by
  obtain ⟨seen, r, locals, extSecs, dots, hca, hcv, hext, himp, hsec⟩ := imp_gen_struct cfg d o out h
  obtain ⟨hr1, hr2, hvalid⟩ := imp_checkVendors_struct cfg o d.vendors _ _ _ hcv
  intro s hs vendor a hsa hc
  rw [hsec] at hs
  rcases imp_mem_secs hs with ⟨b, hb, hb'⟩ | ⟨v, hv, hv'⟩ | hx | ⟨v, hv, b, hb, hb'⟩
  · rw [hsa] at hb'
    cases hb'
    exact (imp_mem_kept.1 ((mem_sortStable _ _ _).1 hb)).2
  · rw [hsa] at hv'; cases hv'
  · obtain ⟨n, hn⟩ := hext s hx
    rw [hsa] at hn; cases hn
  · rw [hsa] at hb'
    cases hb'
    rcases hc with hc | hc
    · cases hc
    · simp only [sortVendors, mem_sortStable, hr1, List.mem_map] at hv
      obtain ⟨w, hw, rfl⟩ := hv
      exact (imp_mem_kept.1 ((imp_mkEV_attrs cfg o w (Or.inl hc) a).1 hb)).2

theorem ignored_top' (cfg : Cfg) (d : Dictionary) (o : Options) (out : Output)
    (h : generate cfg d o = .ok out) :
    ∀ s ∈ out.sections, ∀ a, s.1 = .attr false a → a.name ∉ o.ignore := by
  intro s hs a hsa
  exact imp_ignored cfg d o out h s hs false a hsa (Or.inl rfl)

theorem ignored_repaired' :
    ∀ (d : Dictionary) (o : Options) (out : Output), generate Cfg.repaired d o = .ok out →
    ∀ s ∈ out.sections, match s.1 with
      | .attr _ a => a.name ∉ o.ignore
      | _ => True := by
  intro d o out h s hs
  split
  · rename_i vendor a hsa
    exact imp_ignored Cfg.repaired d o out h s hs vendor a hsa (Or.inr rfl)
  · trivial

/-! ### imports -/

private theorem imp_imports_exact (cfg : Cfg) (d : Dictionary) (o : Options) (out : Output)
    (h : generate cfg d o = .ok out)
    (hdrop : cfg.dropIgnoredVendorAttrs = true ∨ ∀ v ∈ d.vendors, ∀ a ∈ v.attributes, a.name ∉ o.ignore)
    (henc : cfg.rejectUnimplEncrypt = true ∨
      ∀ a, (a ∈ d.attributes ∨ ∃ v ∈ d.vendors, a ∈ v.attributes) → encryptSupported a = true) :
    ∀ i, (∀ p, i ≠ Imp.dot p) → (i ∈ out.imports ↔ i ∈ neededImports out.sections) := by
  obtain ⟨seen, r, locals, extSecs, dots, hca, hcv, hext, himp, hsec⟩ := imp_gen_struct cfg d o out h
  obtain ⟨hr1, hr2, hvalid⟩ := imp_checkVendors_struct cfg o d.vendors _ _ _ hcv
  have htop := imp_checkAttrs_valid cfg false _ _ _ hca
  have hA : ∀ a, a ∈ sortAttrs cfg (kept o d.attributes) ↔ a ∈ kept o d.attributes :=
    fun a => mem_sortStable _ _ _
  have hE : ∀ ev, ev ∈ sortVendors cfg r.1 ↔ ∃ w ∈ d.vendors, imp_mkEV cfg o w = ev := by
    intro ev; simp only [sortVendors, mem_sortStable, hr1, List.mem_map]
  have hencT : ∀ a ∈ kept o d.attributes, encryptSupported a = true := by
    intro a ha
    rcases henc with hc | hc
    · exact imp_enc_of_valid cfg false a (htop a ha) hc
    · exact hc a (Or.inl (imp_mem_kept.1 ha).1)
  have hencV : ∀ w ∈ d.vendors, ∀ a ∈ kept o w.attributes, encryptSupported a = true := by
    intro w hw a ha
    rcases henc with hc | hc
    · exact imp_enc_of_valid cfg true a (hvalid w hw a ha) hc
    · exact hc a (Or.inr ⟨w, hw, (imp_mem_kept.1 ha).1⟩)
  have hM : ∀ w ∈ d.vendors, ∀ a, a ∈ (imp_mkEV cfg o w).attrs ↔ a ∈ kept o w.attributes := by
    intro w hw a
    refine imp_mkEV_attrs cfg o w ?_ a
    rcases hdrop with hc | hc
    · exact Or.inl hc
    · exact Or.inr (hc w hw)
  intro i hi
  have hx := imp_needed_ext i extSecs hext
  rw [himp, hsec]
  simp only [imp_secs, imp_needed_append, List.mem_append, imp_needed_tc, imp_needed_vid,
    imp_needed_attrs, imp_needed_vend, hx, or_false]
  have hus : ∀ (j : Imp) (vendor : Bool) (a : Attribute), j ∉ stdImports → j ∉ usedImports vendor a :=
    fun j vendor a hj hu => hj (imp_used_std vendor a j hu).1
  cases i with
  | dot p => exact absurd rfl (hi p)
  | radius =>
    have hns : Imp.radius ∉ stdImports := by simp [stdImports]
    have hnu := fun vendor a => hus Imp.radius vendor a hns
    clear hA hE himp hsec
    generalize sortAttrs cfg (kept o d.attributes) = attrs
    generalize sortVendors cfg r.1 = evs
    cases attrs <;> cases evs <;> simp [hns, hnu]
  | rfc2865 =>
    have hns : Imp.rfc2865 ∉ stdImports := by simp [stdImports]
    have hnu := fun vendor a => hus Imp.rfc2865 vendor a hns
    clear hA hE himp hsec
    generalize sortAttrs cfg (kept o d.attributes) = attrs
    generalize sortVendors cfg r.1 = evs
    cases attrs <;> cases evs <;> simp [hns, hnu]
  | std p =>
    have hn1 : ∀ (c : Bool), Imp.std p ∉ (if c = true then [Imp.radius] else []) := by
      intro c; split <;> simp
    have hn2 : ∀ (c : Bool), Imp.std p ∉ (if c = true then [Imp.rfc2865] else []) := by
      intro c; split <;> simp
    have hn3 : Imp.std p ∉ List.map Imp.dot dots := by simp
    simp only [hn1, hn2, hn3, or_false, false_and, false_or, reduceCtorEq]
    have hn4 : Imp.std p ∈ (if (!(sortVendors cfg r.1).isEmpty) = true then [Imp.std (bs "errors")] else []) ↔
        (Imp.std p = Imp.std (bs "errors") ∧ ∃ v, v ∈ sortVendors cfg r.1) := by
      generalize sortVendors cfg r.1 = evs
      cases evs <;> simp
    simp only [List.mem_filter, List.contains_iff_mem, List.mem_append, List.mem_flatMap, hr2, hn4]
    have herr : Imp.std (bs "errors") ∈ stdImports := by simp [stdImports]
    constructor
    · rintro ⟨hs, (⟨a, ha, hd⟩ | ⟨w, hw, a, ha, hd⟩) | he⟩
      · have hu := (imp_attr_imports cfg false a (htop a ha) (hencT a ha) _).1 hd
        exact Or.inl (Or.inr ⟨a, (hA a).2 ha,
          imp_attrDecls_roles false a locals (imp_used_std _ _ _ hu).2, hu⟩)
      · have hu := (imp_attr_imports cfg true a (hvalid w hw a ha) (hencV w hw a ha) _).1 hd
        exact Or.inr ⟨imp_mkEV cfg o w, (hE _).2 ⟨w, hw, rfl⟩, Or.inr ⟨a, (hM w hw a).2 ha,
          imp_attrDecls_roles true a _ (imp_used_std _ _ _ hu).2, hu⟩⟩
      · exact Or.inl (Or.inl he)
    · rintro ((⟨he, hv⟩ | ⟨a, ha, _, hu⟩) | ⟨ev, hev, he | ⟨a, ha, _, hu⟩⟩)
      · exact ⟨he ▸ herr, Or.inr ⟨he, hv⟩⟩
      · have ha' := (hA a).1 ha
        exact ⟨(imp_used_std _ _ _ hu).1,
          Or.inl (Or.inl ⟨a, ha', (imp_attr_imports cfg false a (htop a ha') (hencT a ha') _).2 hu⟩)⟩
      · exact ⟨he ▸ herr, Or.inr ⟨he, ev, hev⟩⟩
      · obtain ⟨w, hw, rfl⟩ := (hE ev).1 hev
        have ha' := (hM w hw a).1 ha
        exact ⟨(imp_used_std _ _ _ hu).1, Or.inl (Or.inr ⟨w, hw, a, ha',
          (imp_attr_imports cfg true a (hvalid w hw a ha') (hencV w hw a ha') _).2 hu⟩)⟩

theorem imports_exact_partial' (d : Dictionary) (o : Options) (out : Output)
    (h : generate Cfg.asIs d o = .ok out)
    (hi : ∀ v ∈ d.vendors, ∀ a ∈ v.attributes, a.name ∉ o.ignore)
    (he : ∀ a, (a ∈ d.attributes ∨ ∃ v ∈ d.vendors, a ∈ v.attributes) → encryptSupported a = true) :
    ∀ i, (∀ p, i ≠ Imp.dot p) → (i ∈ out.imports ↔ i ∈ neededImports out.sections) :=
  imp_imports_exact Cfg.asIs d o out h (Or.inr hi) (Or.inr he)

theorem imports_exact_repaired' :
    ∀ (d : Dictionary) (o : Options) (out : Output), generate Cfg.repaired d o = .ok out →
    ∀ i, (∀ p, i ≠ Imp.dot p) → (i ∈ out.imports ↔ i ∈ neededImports out.sections) :=
  fun d o out h => imp_imports_exact Cfg.repaired d o out h (Or.inl rfl) (Or.inl rfl)

end RV.Gen
