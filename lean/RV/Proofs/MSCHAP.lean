/-
  Helper lemmas for C19 (MS-CHAPv2 / MPPE).  Core Lean only.
-/
import RV.Model.MSCHAP
namespace RV
open Model.MSCHAP

/-! ### UTF-8 → UTF-16LE: on valid UTF-8 the Go encoder is the specification -/

theorem goRunes_of_scalars (fuel : Nat) : ∀ (b : Bytes) (us : List Nat),
    UTF16.Spec.scalars? fuel b = some us → UTF16.goRunes fuel b = us := by
  induction fuel with
  | zero =>
    intro b us h
    cases b with
    | nil => simp [UTF16.Spec.scalars?] at h; simp [UTF16.goRunes, h]
    | cons x xs => simp [UTF16.Spec.scalars?] at h
  | succ n ih =>
    intro b us h
    cases b with
    | nil => simp [UTF16.Spec.scalars?] at h; simp [UTF16.goRunes, h]
    | cons x xs =>
      simp only [UTF16.Spec.scalars?] at h
      simp only [UTF16.goRunes]
      cases hd : UTF16.decode1 (x :: xs) with
      | none => simp [hd] at h
      | some p =>
        obtain ⟨u, rest⟩ := p
        simp only [hd] at h
        cases hs : UTF16.Spec.scalars? n rest with
        | none => simp [hs] at h
        | some us' =>
          simp only [hs, Option.some.injEq] at h
          simp [ih rest us' hs, h]

theorem goUnits_eq_units (r : Nat) : UTF16.goUnits r = UTF16.Spec.units r := by
  unfold UTF16.goUnits UTF16.Spec.units
  have h1 : ∀ x : Nat, x &&& 0x3ff = x % 1024 := fun x => Nat.and_two_pow_sub_one_eq_mod x 10
  have h2 : ∀ x : Nat, x >>> 10 = x / 1024 := fun x => Nat.shiftRight_eq_div_pow x 10
  by_cases h : r ≤ 0xffff
  · have : r < 0x10000 := by omega
    simp [h, this]
  · have : ¬ r < 0x10000 := by omega
    simp only [h, this, if_false, h1, h2]

theorem goEncodeLE_of_valid (b u : Bytes) (h : UTF16.Spec.utf16le? b = some u) : UTF16.goEncodeLE b = u := by
  unfold UTF16.Spec.utf16le? at h
  cases hs : UTF16.Spec.scalars? b.length b with
  | none => simp [hs] at h
  | some us =>
    simp only [hs, Option.map_some, Option.some.injEq] at h
    unfold UTF16.goEncodeLE
    rw [goRunes_of_scalars _ _ _ hs, ← h]
    unfold UTF16.Spec.encodeLE
    simp [goUnits_eq_units]

/-! ### the key expansion -/

/-- the seven bits of a 7-bit number, most significant first -/
def bits7 (v : Nat) : List Bool := (List.range 7).map fun j => v / 2 ^ (6 - j) % 2 == 1

/-- the specification's octet for the 7-bit group `v` -/
def specByteOfGroup (v : Nat) : UInt8 :=
  Spec.Rfc2759.byteOfBits (bits7 v ++ [Spec.Rfc2759.oddParityBit (bits7 v)])

/-- per-octet fact, by evaluation over all 256 values of `byte(in>>offset)`:
    shift-and-fix-parity is the specification's octet of the low seven bits -/
theorem fixParity_table : ∀ n, n < 256 → fixParity (UInt8.ofNat n <<< 1) = specByteOfGroup (n % 128) := by
  decide +kernel

/-- … its upper seven bits are the group, and its parity is odd -/
theorem fixParity_upper_odd : ∀ n, n < 256 →
    (fixParity (UInt8.ofNat n <<< 1)).toNat / 2 = n % 128 ∧ popCount (fixParity (UInt8.ofNat n <<< 1)) % 2 = 1 := by
  decide +kernel

theorem beNat_lt (bs : Bytes) : beNat bs < 256 ^ bs.length := by
  induction bs with
  | nil => simp [beNat]
  | cons b rest ih =>
    have hb := b.toNat_lt
    simp only [beNat, List.length_cons, Nat.pow_succ]
    have : b.toNat * 256 ^ rest.length + 256 ^ rest.length ≤ 256 * 256 ^ rest.length := by
      have : (b.toNat + 1) * 256 ^ rest.length ≤ 256 * 256 ^ rest.length :=
        Nat.mul_le_mul_right _ (by omega)
      rwa [Nat.add_mul, Nat.one_mul] at this
    omega

/-- the first loop computes the big-endian value (no `uint64` overflow for up to 8 octets) -/
theorem padAccum_eq (bs : Bytes) : ∀ a : Nat, bs.length ≤ 8 →
    padAccum bs (a * 256 ^ bs.length) = a * 256 ^ bs.length + beNat bs := by
  induction bs with
  | nil => intro a _; simp [padAccum, beNat]
  | cons b rest ih =>
    intro a hlen
    simp only [List.length_cons] at hlen
    have hb := b.toNat_lt
    have hr : rest.length ≤ 7 := by omega
    have e1 : b.toNat <<< (8 * rest.length) = b.toNat * 256 ^ rest.length := by
      rw [Nat.shiftLeft_eq, Nat.pow_mul]
    have hlt : b.toNat * 256 ^ rest.length < 256 ^ (rest.length + 1) := by
      rw [Nat.pow_succ, Nat.mul_comm (256 ^ rest.length) 256]
      exact Nat.mul_lt_mul_of_pos_right (by omega) (Nat.pow_pos (by omega))
    have h64 : b.toNat * 256 ^ rest.length < 2 ^ 64 := by
      have : (256 : Nat) ^ (rest.length + 1) ≤ 256 ^ 8 := Nat.pow_le_pow_right (by omega) (by omega)
      have : (256 : Nat) ^ 8 = 2 ^ 64 := by decide
      omega
    have e2 : (256 : Nat) ^ (rest.length + 1) = 2 ^ (8 * (rest.length + 1)) := by
      rw [Nat.pow_mul]
    have hor : a * 256 ^ (rest.length + 1) ||| b.toNat * 256 ^ rest.length
        = a * 256 ^ (rest.length + 1) + b.toNat * 256 ^ rest.length := by
      rw [e2] at hlt ⊢
      rw [Nat.mul_comm a]
      exact (Nat.two_pow_add_eq_or_of_lt hlt a).symm
    simp only [padAccum, List.length_cons, e1, Nat.mod_eq_of_lt h64, hor, beNat]
    have e3 : a * 256 ^ (rest.length + 1) + b.toNat * 256 ^ rest.length
        = (a * 256 + b.toNat) * 256 ^ rest.length := by
      rw [Nat.pow_succ, Nat.add_mul, Nat.mul_assoc, Nat.mul_comm (256 ^ rest.length) 256]
    rw [e3, ih (a * 256 + b.toNat) (by omega)]
    omega

theorem padAccum_zero (bs : Bytes) (h : bs.length ≤ 8) : padAccum bs 0 = beNat bs := by
  have := padAccum_eq bs 0 h
  simpa using this

theorem padByte_eq (inp i : Nat) (hi : i < 8) :
    padByte inp i = specByteOfGroup (inp / 2 ^ (7 * (7 - i)) % 128) := by
  unfold padByte
  have e : 8 - i - 1 = 7 - i := by omega
  have hofNat : UInt8.ofNat (inp >>> (7 * (7 - i))) = UInt8.ofNat (inp >>> (7 * (7 - i)) % 256) := by
    apply UInt8.toNat_inj.mp
    simp
  rw [e, hofNat, fixParity_table _ (Nat.mod_lt _ (by omega)), Nat.shiftRight_eq_div_pow]
  congr 1
  omega

set_option maxRecDepth 4000 in
/-- the seven key bits the specification puts into octet `i` are the bits of the `i`-th 7-bit group
    of the 56-bit big-endian key value -/
theorem group_bits (b0 b1 b2 b3 b4 b5 b6 : UInt8) (i : Nat) (hi : i < 8) :
    (List.range 7).map (fun j => Spec.Rfc2759.bitAt [b0, b1, b2, b3, b4, b5, b6] (7 * i + j))
      = bits7 (beNat [b0, b1, b2, b3, b4, b5, b6] / 2 ^ (7 * (7 - i)) % 128) := by
  have h0 := b0.toNat_lt; have h1 := b1.toNat_lt; have h2 := b2.toNat_lt; have h3 := b3.toNat_lt
  have h4 := b4.toNat_lt; have h5 := b5.toNat_lt; have h6 := b6.toNat_lt
  have hi' : i = 0 ∨ i = 1 ∨ i = 2 ∨ i = 3 ∨ i = 4 ∨ i = 5 ∨ i = 6 ∨ i = 7 := by omega
  rcases hi' with rfl | rfl | rfl | rfl | rfl | rfl | rfl | rfl <;>
    (simp [List.range, List.range.loop, Spec.Rfc2759.bitAt, bits7, beNat]
     and_intros <;> (congr 1; omega))

theorem seven_bytes (k : Bytes) (h : k.length = 7) : ∃ b0 b1 b2 b3 b4 b5 b6, k = [b0, b1, b2, b3, b4, b5, b6] := by
  match k, h with
  | [b0, b1, b2, b3, b4, b5, b6], _ => exact ⟨b0, b1, b2, b3, b4, b5, b6, rfl⟩

theorem expandKey_eq_groups (k : Bytes) (h : k.length = 7) :
    Spec.Rfc2759.expandKey k = (List.range 8).map fun i => specByteOfGroup (beNat k / 2 ^ (7 * (7 - i)) % 128) := by
  obtain ⟨b0, b1, b2, b3, b4, b5, b6, rfl⟩ := seven_bytes k h
  unfold Spec.Rfc2759.expandKey
  apply List.map_congr_left
  intro i hi
  have hi : i < 8 := by simpa using hi
  simp only [group_bits b0 b1 b2 b3 b4 b5 b6 i hi, specByteOfGroup]

theorem parityPad_eq_groups (k : Bytes) (h : k.length ≤ 8) :
    parityPadDESKey k = (List.range 8).map fun i => specByteOfGroup (beNat k / 2 ^ (7 * (7 - i)) % 128) := by
  unfold parityPadDESKey
  rw [padAccum_zero k h]
  apply List.map_congr_left
  intro i hi
  exact padByte_eq _ i (by simpa using hi)

theorem parityPad_eq_expandKey (k : Bytes) (h : k.length = 7) : parityPadDESKey k = Spec.Rfc2759.expandKey k := by
  rw [parityPad_eq_groups k (by omega), expandKey_eq_groups k h]

theorem parityPad_length (k : Bytes) : (parityPadDESKey k).length = 8 := by
  simp [parityPadDESKey]

theorem parityPad_getD (k : Bytes) (i : Nat) (hi : i < 8) :
    (parityPadDESKey k).getD i 0 = padByte (padAccum k 0) i := by
  unfold parityPadDESKey
  rw [List.getD_eq_getElem?_getD, List.getElem?_map, List.getElem?_range hi]
  rfl

theorem padByte_upper_odd (inp i : Nat) (hi : i < 8) :
    (padByte inp i).toNat / 2 = inp / 2 ^ (7 * (7 - i)) % 128 ∧ popCount (padByte inp i) % 2 = 1 := by
  unfold padByte
  have e : 8 - i - 1 = 7 - i := by omega
  have hofNat : UInt8.ofNat (inp >>> (7 * (7 - i))) = UInt8.ofNat (inp >>> (7 * (7 - i)) % 256) := by
    apply UInt8.toNat_inj.mp
    simp
  rw [e, hofNat]
  have := fixParity_upper_odd _ (Nat.mod_lt (inp >>> (7 * (7 - i))) (by omega : 0 < 256))
  refine ⟨?_, this.2⟩
  rw [this.1, Nat.shiftRight_eq_div_pow]
  omega

/-! ### DESCrypt, ChallengeResponse -/

theorem desCrypt_seven (P : Prims) (key clear : Bytes) (hk : key.length = 7) (hc : clear.length = 8) :
    desCrypt P key clear = .ok (Spec.Rfc2759.desEncrypt P clear key) := by
  have ht : clear.take 8 = clear := List.take_of_length_le (by omega)
  have hl : (Spec.Rfc2759.expandKey key).length = 8 := by simp [Spec.Rfc2759.expandKey]
  simp [desCrypt, hk, hc, ht, hl, Spec.Rfc2759.desEncrypt, parityPad_eq_expandKey key hk]

theorem desCrypt_eight (P : Prims) (key clear : Bytes) (hk : key.length = 8) (hc : clear.length = 8) :
    desCrypt P key clear = .ok (P.des key clear) := by
  have ht : clear.take 8 = clear := List.take_of_length_le (by omega)
  simp [desCrypt, hk, hc, ht]

theorem desCrypt_fault_iff (P : Prims) (key clear : Bytes) :
    desCrypt P key clear = .fault ↔ (key.length ≠ 7 ∧ key.length ≠ 8) ∨ clear.length < 8 := by
  by_cases h7 : key.length = 7
  · by_cases hc : clear.length < 8 <;> simp [desCrypt, h7, hc, parityPad_length]
  · by_cases h8 : key.length = 8
    · by_cases hc : clear.length < 8 <;> simp [desCrypt, h8, hc]
    · simp [desCrypt, h7, h8]

theorem desCrypt_never_err (P : Prims) (key clear : Bytes) : desCrypt P key clear ≠ .err := by
  by_cases h1 : (if key.length = 7 then parityPadDESKey key else key).length = 8 <;>
    by_cases h2 : clear.length < 8 <;> simp [desCrypt, h1, h2]

theorem desCrypt_ok_length (P : Prims) (hP : P.WF) (key clear r : Bytes) (h : desCrypt P key clear = .ok r) :
    r.length = 8 := by
  by_cases h1 : (if key.length = 7 then parityPadDESKey key else key).length = 8 <;>
    by_cases h2 : clear.length < 8 <;> simp [desCrypt, h1, h2] at h
  rw [← h]; exact hP.des_len _ _

theorem challengeResponse_eq (P : Prims) (ch ph : Bytes) (hc : ch.length = 8) (hp : ph.length = 16) :
    challengeResponse P ch ph = .ok (Spec.Rfc2759.challengeResponse P ch ph) := by
  have ht : ph.take 21 = ph := List.take_of_length_le (by omega)
  have hz : (ph ++ zeros (21 - ph.length)).length = 21 := by simp [zeros, hp]
  simp only [challengeResponse, Spec.Rfc2759.challengeResponse, ht]
  rw [desCrypt_seven P _ ch (by simp [hz]) hc,
      desCrypt_seven P _ ch (by simp [hz]) hc,
      desCrypt_seven P _ ch (by simp [hz]) hc]

theorem challengeResponse_ok_length (P : Prims) (hP : P.WF) (ch ph r : Bytes)
    (h : challengeResponse P ch ph = .ok r) : r.length = 24 := by
  simp only [challengeResponse] at h
  split at h
  · rename_i r0 h0
    split at h
    · rename_i r1 h1
      split at h
      · rename_i r2 h2
        simp only [Res.ok.injEq] at h
        have := desCrypt_ok_length P hP _ _ _ h0
        have := desCrypt_ok_length P hP _ _ _ h1
        have := desCrypt_ok_length P hP _ _ _ h2
        rw [← h]; simp; omega
      · simp at h
      · simp at h
    · simp at h
    · simp at h
  · simp at h
  · simp at h

theorem challengeResponse_never_err (P : Prims) (ch ph : Bytes) : challengeResponse P ch ph ≠ .err := by
  intro h
  simp only [challengeResponse] at h
  split at h
  · split at h
    · split at h
      · simp at h
      · rename_i h2; exact desCrypt_never_err _ _ _ h2
      · simp at h
    · rename_i h1; exact desCrypt_never_err _ _ _ h1
    · simp at h
  · rename_i h0; exact desCrypt_never_err _ _ _ h0
  · simp at h

theorem challengeHash_length (P : Prims) (hP : P.WF) (a b c : Bytes) : (challengeHash P a b c).length = 8 := by
  simp [challengeHash, hP.sha1_len]

/-! ### hexadecimal -/

theorem toUpper_lower_digit : ∀ n, n < 16 →
    toUpper (lowerHexDigits.getD n '?') = Spec.Rfc2759.upperHexDigits.getD n '?' := by
  decide

theorem upper_digit_mem : ∀ n, n < 16 →
    Spec.Rfc2759.upperHexDigits.getD n '?' ∈ Spec.Rfc2759.upperHexDigits := by
  decide

theorem hexLower_toUpper (d : Bytes) : (hexLower d).map toUpper = Spec.Rfc2759.hexUpper d := by
  induction d with
  | nil => rfl
  | cons x xs ih =>
    have hx := x.toNat_lt
    have h1 : x.toNat / 16 < 16 := by omega
    have h2 : x.toNat % 16 < 16 := by omega
    simp only [hexLower, Spec.Rfc2759.hexUpper, List.flatMap_cons, List.map_append, List.map_cons, List.map_nil] at ih ⊢
    rw [toUpper_lower_digit _ h1, toUpper_lower_digit _ h2, ih]

theorem hexUpper_length (d : Bytes) : (Spec.Rfc2759.hexUpper d).length = 2 * d.length := by
  induction d with
  | nil => rfl
  | cons x xs ih =>
    simp only [Spec.Rfc2759.hexUpper, List.flatMap_cons, List.length_append, List.length_cons, List.length_nil] at ih ⊢
    omega

theorem hexUpper_mem (d : Bytes) : ∀ c ∈ Spec.Rfc2759.hexUpper d, c ∈ Spec.Rfc2759.upperHexDigits := by
  induction d with
  | nil => intro c hc; simp [Spec.Rfc2759.hexUpper] at hc
  | cons x xs ih =>
    intro c hc
    have hx := x.toNat_lt
    simp only [Spec.Rfc2759.hexUpper, List.flatMap_cons, List.mem_append, List.mem_cons, List.not_mem_nil, or_false] at hc ih
    rcases hc with (rfl | rfl) | hc
    · exact upper_digit_mem _ (by omega)
    · exact upper_digit_mem _ (by omega)
    · exact ih c hc

/-! ### constants: the Go tables are the RFC tables -/

theorem magic1_eq : Model.MSCHAP.magic1 = Spec.Rfc2759.magic1 := rfl
theorem magic2_eq : Model.MSCHAP.magic2 = Spec.Rfc2759.magic2 := rfl
theorem shaPad1_eq : shaPad1 = Spec.Rfc3079.shsPad1 := rfl
theorem shaPad2_eq : shaPad2 = Spec.Rfc3079.shsPad2 := rfl
theorem mppeMagic1_eq : mppeMagic1 = Spec.Rfc3079.magic1 := rfl
theorem mppeMagic2_eq : mppeMagic2 = Spec.Rfc3079.magic2 := rfl
theorem mppeMagic3_eq : mppeMagic3 = Spec.Rfc3079.magic3 := rfl

/-! ### rfc3079 -/

theorem sliceDigest_le (d : Bytes) (n : Nat) (h : n ≤ d.length) : sliceDigest d n = .ok (d.take n) := by
  simp [sliceDigest, h]

theorem sliceDigest_ne_err (d : Bytes) (n : Nat) : sliceDigest d n ≠ .err := by
  by_cases h1 : n ≤ d.length <;> by_cases h2 : n ≤ 24 <;> simp [sliceDigest, h1, h2]

theorem getAsymmetricStartKey_eq (P : Prims) (hP : P.WF) (mk : Bytes) (n : Nat) (isSend : Bool)
    (hm : mk.length = 16) (hn : n ≤ 20) :
    getAsymmetricStartKey P mk n isSend = .ok (Spec.Rfc3079.getAsymmetricStartKey P mk n isSend true) := by
  unfold getAsymmetricStartKey Spec.Rfc3079.getAsymmetricStartKey
  simp only [hm, ne_eq, not_true_eq_false, if_false, if_true, shaPad1_eq, shaPad2_eq, mppeMagic2_eq, mppeMagic3_eq]
  rw [sliceDigest_le _ _ (by rw [hP.sha1_len]; exact hn)]

theorem getMasterKey_eq (P : Prims) (phh ntr : Bytes) :
    getMasterKey P phh ntr = Spec.Rfc3079.getMasterKey P phh ntr := by
  unfold getMasterKey Spec.Rfc3079.getMasterKey
  rw [mppeMagic1_eq]

theorem getMasterKey_length (P : Prims) (hP : P.WF) (phh ntr : Bytes) : (getMasterKey P phh ntr).length = 16 := by
  simp [getMasterKey, hP.sha1_len]

/-! ### compositions (helper forms of the C19 theorems) -/

theorem toUTF16_of_valid (pw u : Bytes) (h : UTF16.Spec.utf16le? pw = some u) : toUTF16 pw = .ok u := by
  simp [toUTF16, goEncodeLE_of_valid pw u h]

theorem generateNTResponse_eq (P : Prims) (hP : P.WF) (auth peer user pw r : Bytes)
    (h : Spec.Rfc2759.generateNTResponse P auth peer user pw = some r) :
    generateNTResponse P auth peer user pw = .ok r := by
  unfold Spec.Rfc2759.generateNTResponse at h
  cases hu : UTF16.Spec.utf16le? pw with
  | none => simp [hu] at h
  | some u =>
    simp only [hu, Option.map_some, Option.some.injEq] at h
    simp only [generateNTResponse, toUTF16_of_valid pw u hu]
    rw [challengeResponse_eq P (challengeHash P peer auth user) (ntPasswordHash P u)
      (challengeHash_length P hP _ _ _) (hP.md4_len u), ← h]
    rfl

theorem generateNTResponse_ok (P : Prims) (hP : P.WF) (auth peer user pw : Bytes) :
    ∃ r, generateNTResponse P auth peer user pw = .ok r := by
  simp only [generateNTResponse, toUTF16]
  exact ⟨_, challengeResponse_eq P (challengeHash P peer auth user) (ntPasswordHash P (UTF16.goEncodeLE pw))
    (challengeHash_length P hP _ _ _) (hP.md4_len _)⟩

theorem generateNTResponse_ok_length (P : Prims) (hP : P.WF) (auth peer user pw r : Bytes)
    (h : generateNTResponse P auth peer user pw = .ok r) : r.length = 24 := by
  simp only [generateNTResponse, toUTF16] at h
  exact challengeResponse_ok_length P hP _ _ r h

theorem generateAuthenticatorResponse_eq (P : Prims) (auth peer ntr user pw : Bytes) (s : List Char)
    (h : Spec.Rfc2759.generateAuthenticatorResponse P auth peer ntr user pw = some s) :
    generateAuthenticatorResponse P auth peer ntr user pw = .ok s := by
  unfold Spec.Rfc2759.generateAuthenticatorResponse at h
  cases hu : UTF16.Spec.utf16le? pw with
  | none => simp [hu] at h
  | some u =>
    simp only [hu, Option.map_some, Option.some.injEq] at h
    simp only [generateAuthenticatorResponse, toUTF16_of_valid pw u hu, hexLower_toUpper, magic1_eq, magic2_eq]
    rw [← h]
    rfl

theorem generateAuthenticatorResponse_shape (P : Prims) (hP : P.WF) (auth peer ntr user pw : Bytes) :
    ∃ digits : List Char,
      generateAuthenticatorResponse P auth peer ntr user pw = .ok ('S' :: '=' :: digits) ∧
      digits.length = 40 ∧ ∀ c ∈ digits, c ∈ Spec.Rfc2759.upperHexDigits := by
  simp only [generateAuthenticatorResponse, toUTF16, hexLower_toUpper]
  exact ⟨_, rfl, by rw [hexUpper_length, hP.sha1_len], hexUpper_mem _⟩

theorem makeKey_eq (P : Prims) (hP : P.WF) (ntr pw k : Bytes) (isSend : Bool) (hn : ntr.length = 24)
    (h : Spec.Rfc2548.mppeKey P ntr pw isSend = some k) :
    makeKey P ntr pw isSend = .ok k := by
  unfold Spec.Rfc2548.mppeKey at h
  cases hu : UTF16.Spec.utf16le? pw with
  | none => simp [hu] at h
  | some u =>
    simp only [hu, Option.map_some, Option.some.injEq] at h
    simp only [makeKey, hn, ne_eq, not_true_eq_false, if_false, toUTF16_of_valid pw u hu]
    rw [getAsymmetricStartKey_eq P hP _ 16 isSend (getMasterKey_length P hP _ _) (by omega), getMasterKey_eq, ← h]
    rfl

theorem startKey_ok_length (P : Prims) (hP : P.WF) (mk k : Bytes) (n : Nat) (isSend : Bool) (hn : n ≤ 20)
    (h : getAsymmetricStartKey P mk n isSend = .ok k) : k.length = n := by
  by_cases hm : mk.length = 16
  · rw [getAsymmetricStartKey_eq P hP mk n isSend hm hn] at h
    simp only [Res.ok.injEq] at h
    rw [← h]
    simp [Spec.Rfc3079.getAsymmetricStartKey, hP.sha1_len, hn]
  · simp [getAsymmetricStartKey, hm] at h

theorem makeKey_ok_length (P : Prims) (hP : P.WF) (ntr pw k : Bytes) (isSend : Bool)
    (h : makeKey P ntr pw isSend = .ok k) : k.length = 16 := by
  by_cases hn : ntr.length = 24
  · simp only [makeKey, hn, ne_eq, not_true_eq_false, if_false, toUTF16] at h
    exact startKey_ok_length P hP _ k 16 isSend (by omega) h
  · simp [makeKey, hn] at h

theorem startKey_err_iff (P : Prims) (mk : Bytes) (n : Nat) (isSend : Bool) :
    getAsymmetricStartKey P mk n isSend = .err ↔ mk.length ≠ 16 := by
  by_cases hm : mk.length = 16
  · simp only [getAsymmetricStartKey, hm, ne_eq, not_true_eq_false, if_false, iff_false]
    exact sliceDigest_ne_err _ _
  · simp [getAsymmetricStartKey, hm]

theorem makeKey_err_iff (P : Prims) (hP : P.WF) (ntr pw : Bytes) (isSend : Bool) :
    makeKey P ntr pw isSend = .err ↔ ntr.length ≠ 24 := by
  by_cases hn : ntr.length = 24
  · simp only [makeKey, hn, ne_eq, not_true_eq_false, if_false, toUTF16, iff_false]
    rw [startKey_err_iff]
    simp [getMasterKey_length P hP]
  · simp [makeKey, hn]

theorem parityPad_upper_odd (k : Bytes) (h : k.length = 7) (i : Nat) (hi : i < 8) :
    (parityPadDESKey k).length = 8 ∧
    ((parityPadDESKey k).getD i 0).toNat / 2 = beNat k / 2 ^ (7 * (7 - i)) % 128 ∧
    popCount ((parityPadDESKey k).getD i 0) % 2 = 1 := by
  refine ⟨parityPad_length k, ?_⟩
  rw [parityPad_getD k i hi, padAccum_zero k (by omega)]
  exact padByte_upper_odd _ i hi

theorem expandKey_bitwise (k : Bytes) (i j : Nat) (hi : i < 8) (hj : j < 7) :
    (Spec.Rfc2759.expandKey k).length = 8 ∧
    ∃ g : List Bool, g.length = 7 ∧ g.getD j false = Spec.Rfc2759.bitAt k (7 * i + j) ∧
      (Spec.Rfc2759.expandKey k).getD i 0 = Spec.Rfc2759.byteOfBits (g ++ [Spec.Rfc2759.oddParityBit g]) := by
  refine ⟨by simp [Spec.Rfc2759.expandKey], (List.range 7).map (fun j => Spec.Rfc2759.bitAt k (7 * i + j)), by simp, ?_, ?_⟩
  · rw [List.getD_eq_getElem?_getD, List.getElem?_map, List.getElem?_range hj]; rfl
  · unfold Spec.Rfc2759.expandKey
    rw [List.getD_eq_getElem?_getD, List.getElem?_map, List.getElem?_range hi]; rfl

end RV
