-- root of the library: everything that must build (models, facts ties, property theorems, driver)
import RV.Model.MD5Test
import RV.Model.CryptoTest
import RV.Facts.Tie
import RV.Driver.Main
