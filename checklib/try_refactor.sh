#!/bin/sh
# try_refactor.sh <patch.diff>: runs EVERY check (quick tier) against a scratch worktree with a behaviour-preserving
# patch applied; any VIOLATION line is a false alarm of the machinery.  Scratch copies only (see try_seed.sh).
P=$(readlink -f "$1")
OUT=$("$(dirname "$0")"/try_seed.sh "$P" C01 C02 C03 C04 C05 C06 C07 C08 C09 C10 C11 C12 C13 C14 C15 C16 C17 C18 C19 C20 2>&1)
echo "$OUT" | grep -E "^C[0-9]+ quick:|^VIOLATION|PATCH DOES NOT BUILD|replay:" | cut -c1-300
if echo "$OUT" | grep -q "^VIOLATION\|PATCH DOES NOT BUILD"; then echo "RESULT: ALARM"; else echo "RESULT: quiet"; fi
