#!/bin/sh
# try_seed.sh <patch.diff> <Cxx> [<Cxx>…] [-- tier]
# Runs the named checks against a scratch worktree of /repo with the patch applied, from a scratch copy
# of /verif (so that neither /repo nor /verif/.work is disturbed), and prints each check's verdict lines.
set -e
PATCH=$(readlink -f "$1"); shift
V=/var/tmp/vseed${SEED_SLOT:-}
R=/var/tmp/rseed${SEED_SLOT:-}
if [ ! -d "$R" ]; then git -C /repo worktree add -q --detach "$R" HEAD; fi
git -C "$R" checkout -q --detach "$(git -C /repo rev-parse HEAD)"
git -C "$R" checkout -q -- . && git -C "$R" clean -fdq
mkdir -p "$V"
# VERIF_SRC: a frozen copy of /verif to take the checks from (so that /verif can be edited meanwhile)
rsync -a --delete --exclude .git --exclude evidence --exclude replays "${VERIF_SRC:-/verif}"/ "$V"/
mkdir -p "$V/evidence" "$V/replays"
git -C "$R" apply "$PATCH"
( cd "$R" && GOFLAGS=-mod=mod GOPROXY=off GOSUMDB=off go build ./... ) || { echo "PATCH DOES NOT BUILD"; exit 3; }
for P in "$@"; do
  echo "=== $P"
  ( cd "$V" && VERIF_REPO="$R" ./check "$P" 2>&1 | grep -v "^KNOWN-FINDING" | tail -6 ) || true
  for f in "$V"/replays/$P-*.json; do [ -f "$f" ] && python3 -c "
import json,sys; d=json.load(open('$f')); print('  replay:', (d.get('case') or '')[:240].replace(chr(9),' '), '| impl:', str(d.get('impl'))[:120], '| clause:', d.get('spec_clause_failed'), '|', str(d.get('broken'))[:200])" ; done 2>/dev/null | head -6
done
git -C "$R" checkout -q -- . && git -C "$R" clean -fdq
