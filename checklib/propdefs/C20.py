# configuration of ./check C20 (see checklib/props.py)
PROP = {'level': 'proof',
 'rule': 'Exhaustive small scope: all pairs of dictionaries with <= 2 top-level attributes over 5 name/OID combinations (incl. a two-component '
         'OID), all pairs of vendor lists with <= 2 vendors over names {A,B} x numbers {1,2} x 2 (quick) / 4 (thorough) declaration sets '
         '(ill-formed lists included: correspondence only), each merged twice, every third with spare slice capacity; thorough adds <= 1 '
         'attribute x <= 2 well-formed vendors on both sides under the program Merge(d1,d2), Merge(d1,d2), Merge(result,d2). Random: pairs '
         '(merged 1-3 times) and chains of 1-4 dictionaries (left folds, the fold repeated from the start, Merge(d,d), merges with earlier '
         'results and arbitrary index pairs) drawn from a per-case name space with collision probability 0..1/4 per name / OID / vendor field: '
         'overlapping and disjoint attribute names and OIDs (multi-component, prefix/extension near misses, empty), values, flags, vendors '
         'with same name/other number and same number/other name, matched vendors with and without conflicting attributes, values-only and '
         'empty dictionaries, spare capacity on about half of all slices. Around every Merge call every live dictionary (inputs and earlier '
         'results) is deep-snapshotted: all fields, pointer identities, slice len/cap and the contents of the spare capacity.',
 'level_text': 'Lean theorems about a model of helpers.go on a vendor heap (dictionaries hold vendor references, so mutation of an argument is '
               'expressible): for well-formed inputs Merge succeeds iff the three-part condition of the statement holds; the result denotes the '
               'ordered union (d1 items first, a matched vendor combined under d1\'s entry, then the unmatched vendors of d2) and contains '
               'every attribute, value and vendor declaration exactly once; the result is well-formed again; the repaired Merge only allocates, '
               'so every input denotes the same value afterwards, a repeated Merge gives the same result, and left folds (inputs reused, '
               'vendors shared) compute the specification\'s fold. For the unrepaired variant: a kernel-checked counter-example (d1\'s vendor '
               'is extended in place; the second Merge of the same inputs fails). Tied to helpers.go by a differential run whose oracle is '
               'written against the value-level specification, not the model.',
 'level_note': 'Trusted: Lean kernel; RV.Model.DictMerge as a hand mirror of helpers.go (same checks in the same order, pointer comparison of the '
               'two vendor lookups, VendorByNumber on the growing result list), validated by the correspondence run; the harness incl. its '
               'snapshot function; driver glue; ./check. Spare-capacity aliasing is observed by the harness only, not modelled.',
 'trusted': ['RV.Model.DictMerge mirrors dictionary/helpers.go by hand; tied by this run\'s correspondence',
             'the harness\'s deep snapshot (fmt of every field, pointer, len, cap and spare-capacity element) is what "input modified" means'],
 'assumptions': ['inputs are well-formed dictionaries: vendor names and vendor numbers unique inside one dictionary, no nil pointers '
                 '(ill-formed inputs are run for correspondence only, PROP_NA)',
                 'attributes and values are treated as values: Merge never writes through *Attribute / *Value (observed by the snapshot)']}
