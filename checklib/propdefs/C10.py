# configuration of ./check C10 (see checklib/props.py)
PROP = {'level': 'proof',
 'rule': 'All uint16 (every 7th in quick), boundary + random uint32/uint64, strings/octets 0..300 bytes, IPs of length 0..20 incl. v4-mapped and '
         'near-mapped, interface-ids 0..16 bytes, times from year 1 to beyond 2106 incl. negative Unix times and nanoseconds, vendor ids x payloads '
         '0..260, TLV values 0..260, every prefix length 0..128 x addresses x contiguous / non-contiguous / wrong-size masks, and every decoder on '
         'every length 0..300 (+ all 1-2 byte strings in thorough).',
 'level_text': 'Lean theorems per codec: decode(encode v) = canonical v, the encoder errs iff the value is unrepresentable, emitted values are <= '
               "253 bytes (255 for TLV), and each decoder's accept set is exactly its wire format; tied to attribute.go by a differential run whose "
               "oracle is written independently of the model's encoders.",
 'level_note': 'Trusted: Lean kernel; RV.Model.Codec as mirror of attribute.go incl. net.IP.To4/To16, IPMask.Size, CIDRMask, time.Unix as modelled '
               '(validated by correspondence).',
 'trusted': ['models of net.IP.To4/To16, net.IPMask.Size, net.CIDRMask, time.Time.Unix'],
 'assumptions': ["Go's fixed-width integer arguments are in range by typing (the harness offers only in-range values)"],
 'facts': ['acceptShort', 'acceptInteger', 'acceptInteger64', 'acceptIPAddr', 'acceptIPv6Addr', 'acceptIFID', 'acceptDate', 'acceptVSA', 'encString', 'encBytes', 'encVSA', 'encTLV']}
