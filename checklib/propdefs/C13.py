# configuration of ./check C13 (see checklib/props.py)
PROP = {'race': True,
 'level': 'proof',
 'rule': 'Every generated getter (Lookup, Get, Gets, GetString, LookupString, GetStrings) of every shipped and synthetic attribute on packets holding that attribute 1..3 times '
         '(plausible and hostile encodings, tags, salts) among other attributes: snapshot of the whole packet before / after, second read compared, every returned slice / IP / '
         'IPNet overwritten with its complement and the packet re-snapshotted; and the core observers on wire images (Parse vs. its input buffer incl. scribbling over the buffer afterwards, '
         'both predicates, MarshalBinary / Encode and the buffers they return, list Get/Lookup, all typed decoders incl. User-/Tunnel-Password on every attribute, debug dumper).',
 'level_text': 'In the Lean model every observer is a total pure function of the packet VALUE and every result is built from fresh lists (theorems: reads return the packet unchanged, '
               'repeated reads agree, for the mutation-capable variant of the getter templates); what a value-semantic model cannot express - Go slice aliasing - is checked on the real code '
               'by the scribble test for every generated getter and decoder.',
 'level_note': 'Trusted: Lean kernel; RV.Model.Helper / Codec as mirrors of the Go code. Aliasing through spare capacity of append and anything only the race detector would see are outside the model; '
               'the scribble test observes the former on the code.',
 'trusted': ['cmd/reggen', 'snapshot = all packet fields and attribute bytes'],
 'assumptions': [],
 'shards': 16}
