# configuration of ./check C17 (see checklib/props.py)
PROP = {'facts': ['c17Ident', 'c17Names'],
 'level': 'proof',
 'rule': 'Cases: the 32 shipped dictionaries with their go:generate options; every attribute type (17) x encrypt {-,1,2,3} x has_tag {-,false,true} x '
         'concat {-,false,true} x size {-,16}, top-level and inside a vendor, as one-attribute dictionaries; the identifier normalisation on a list '
         'of special names (keyword-like, digit-leading, "+", initialisms, separators only, colliding spellings); random dictionaries (0-8 '
         'top-level attributes, 0-3 vendors with 0-5 attributes, OIDs 0..300 / dotted / empty, VALUE lists with duplicate names and numbers and '
         'boundary numbers, VALUEs for unknown and for -ref attributes, ignore lists, vendor formats; 40% of them deliberately contain unsupported '
         'material). Each case: Generate under recover; on success format.Source idempotence, a second run, permutations of the ATTRIBUTE/VENDOR '
         'declarations (all of them for <= 4 declarations, else reversal, adjacent swaps and 6 shuffles), go/parser inventory, go/types check '
         'against the working tree. Names with non-ASCII bytes (op genu, every 10th random case) run under the Go-side clauses only.',
 'level_text': 'Lean theorems about the model Gen.generate of dictionarygen.Generate (acceptance rules, identifier normalisation, sorting, '
               'declaration inventory with signature shapes, imports): per kind exactly the documented helpers; tag parameter iff has_tag; '
               'request-packet parameter iff encrypt=2; nothing for ignored attributes; declared names pairwise distinct; imports = what the '
               'templates use; output invariant under permutation of ATTRIBUTE/VENDOR declarations; for each clause that the code as found '
               '(Cfg.asIs) violates, a kernel-checked counter-example. The model is tied to generator.go on every run: accept/refuse and the '
               'complete ordered inventory + import set of every case must equal go/parser\'s reading of the real output.',
 'level_note': 'The proofs are about the abstract model (which declarations, names, signatures, imports, order), NOT about Go type-checking. '
               '"The output compiles" is OBSERVED, not proved: every accepted case is type-checked with go/types (source importer; working-tree '
               'packages parsed from source), and every kind x flag combination is among the cases on every run. gofmt-formattedness, byte '
               'identity of repeated runs and of permuted inputs are likewise observed per case. The identifier model is ASCII-only; names with '
               'non-ASCII bytes are exercised under the oracle (error or compiling, formatted, deterministic output) without a model prediction. '
               'Cfg.current = Cfg.repaired: the model describes /repo with proposed_fixes/01-03 applied.',
 'trusted': ['go/parser, go/format, go/types as the judges of "formatted" and "compiles"',
             'sort.Stable modelled as stable insertion sort (unique result for a strict weak order)',
             'go/format assumed to sort and de-duplicate the import block and otherwise keep declarations'],
 'assumptions': ['package name is a valid Go identifier; -ref packages exist in the working tree, declare the referenced attribute type, and '
                 'export no name that collides with a generated one (the harness refers only to real attributes of shipped packages)',
                 'identifier normalisation modelled on ASCII names; the C17 "declaration order" is the order of ATTRIBUTE and VENDOR '
                 'declarations (VALUE lines keep their relative order: DESIGN 5c)'],
 'shards': 16}
