# configuration of ./check C05 (see checklib/props.py)
PROP = {'level': 'proof',
 # a failing case is run again alone (twice) before it is believed: real sockets and timers on a shared machine
 'retry': True,
 # every candidate of the shrinker is a real network exchange: bound the search (./check reads these two keys)
 'shrink_rounds': 12, 'shrink_candidates': 150,
 'rule': 'One evaluation = one real Client.Exchange call over loopback UDP against a scripted peer that sends a generated history of 0..12 '
         'concrete datagrams (authentic reply, one bit flipped, other secret, reply to another request, truncated, trailing bytes, malformed '
         'attributes signed correctly, random bytes, empty, larger than the 4096-byte read buffer incl. a 4096-byte authentic reply with excess '
         'bytes, replays, unknown reply code signed correctly, the request echoed) with the genuine reply at every position or absent, x '
         'MaxPacketErrors in {0,1,2,3,5,-1} x InsecureSkipVerify x request codes 1,4,12,40,43 x secrets incl. empty. The peer sends in lock-step '
         "with the client's receive queue (/proc/net/udp), so no datagram is dropped or reordered; when nothing ends the call the harness cancels "
         'the context after the last datagram was consumed (ctx-done). Runs in which the kernel counted a drop, and every ctx-done run, are '
         'repeated with conservative pacing before being reported. The outcome (index and fields of the returned packet / error type) is '
         'compared with the Lean loop on the same bytes and checked against the oracle clauses.',
 'level_text': 'Lean theorems, by induction over datagram histories of any length and for an arbitrary hash: a returned packet is the parse of a '
               'datagram that verifies against the request actually sent and the secret (or verification is off), it is the first such datagram, '
               'the call fails exactly when the count of unacceptable datagrams reaches a positive MaxPacketErrors and then with that '
               "datagram's own error, never with a zero or negative budget, later datagrams cannot change a decision, and the loop equals a "
               'loop-free declarative outcome; tied to client.go by running the real Exchange against a scripted loopback peer on generated '
               'histories with H := a Lean MD5.',
 'level_note': 'Trusted: Lean kernel; RV.Model.Client.recvLoop as mirror of client.go:97-129 (validated by the correspondence run, including the '
               '4096-byte truncation of the read buffer, which is an OS/Go fact the model states as `take 4096`; model AND oracle read "the datagram" as '
               'what conn.Read delivers, so an authentic 4096-byte reply followed by excess bytes is accepted while a shorter reply with trailing '
               'bytes is not - RFC 2865 treats octets beyond Length as padding, so neither is a defect); the Go int error counter is '
               'modelled without wrap-around; the loopback peer, /proc/net/udp lock-step and result classifier of the harness; driver glue, ./check.',
 'trusted': ['Lean MD5 (RFC 1321) compared with crypto/md5 through every accepted/rejected datagram',
             'UDP read of a datagram longer than the buffer yields its first 4096 bytes (observed on every oversize case)'],
 'assumptions': ['loopback UDP delivers datagrams of one sender in order',
                 'packetErrorCount does not overflow (2^63 datagrams)']}
