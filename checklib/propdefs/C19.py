# configuration of ./check C19 (see checklib/props.py)
PROP = {'level': 'proof',
 'rule': 'Every exported function of rfc2759 and rfc3079 (ToUTF16, ChallengeHash, NTPasswordHash, ChallengeResponse, DESCrypt with 7- and '
         '8-octet keys, GenerateNTResponse, GenerateAuthenticatorResponse, GetMasterKey, GetAsymmetricStartKey, MakeKey) and the unexported '
         'parityPadDESKey (reached through go:linkname) on: the RFC 2759 s9.2 / RFC 3079 s3.5 worked examples; challenges of 16 and other '
         'lengths; user names 0..256 octets; passwords 0..256 characters (every length once, ASCII, 2-, 3- and 4-octet UTF-8 incl. astral code '
         'points => surrogate pairs, boundary scalars U+7F/80/7FF/800/D7FF/E000/FFFF/10000/10FFFF alone and in pairs); every session key '
         'length 0..20 x both directions x 4 master keys; master keys and NT responses of every length 0..40; every single key bit and every '
         'octet value in every position of the 7-octet DES key; SHA-1/MD4 padding boundaries.  Outside the domain (invalid UTF-8, key lengths '
         '> 20, wrong-sized primitive arguments) only model = implementation is compared.',
 'level_text': 'Lean theorems, for arbitrary SHA-1/MD4/DES primitives with the right output lengths: each Go function (as modelled) equals the '
               'RFC 2759 s8 / RFC 3079 s3.4 / RFC 2548 s2.4.2 definition on its domain; the Go shift-and-mask DES key expansion equals the '
               "RFC's bit-wise parity expansion for all 2^56 keys (7 key bits in the upper bits of each octet, odd parity); responses are 24 "
               'octets, the authenticator response is "S=" + 40 upper-case hex digits, master keys 16 octets, start keys the requested length '
               '(<= 20); master keys != 16 octets and NT responses != 24 octets are refused.  The theorems other than the key expansion are '
               'thin (the Go code transcribes the RFC pseudo-code): the weight of C19 rests on the differential run of the Go code, with '
               "Go's crypto/sha1, x/crypto/md4, crypto/des and x/text UTF-16 encoder, against Lean implementations of SHA-1 (FIPS 180-4), "
               'MD4 (RFC 1320), DES (FIPS 46-3) and UTF-8->UTF-16LE (RFC 3629/2781) written from the standards and validated by the '
               "standards' test vectors; the oracle evaluates the RFC definitions on the inputs and compares with the implementation's output.",
 'level_note': 'Trusted: Lean kernel; RV.Model.MSCHAP as mirror of mschapv2.go / mppe.go (validated by the correspondence); the from-the-standards '
               'Lean primitives (known-answer tests in RV/Model/CryptoTest.lean + agreement with the Go libraries on every case).  The parity '
               'bits of the expanded DES key are NOT observable through any exported function (DES ignores them): they are observed only by '
               'calling the unexported rfc2759.parityPadDESKey through go:linkname; if that symbol is renamed the harness stops linking and '
               'the check reports a broken tie rather than a failing input.  Reading of "wrong-sized ... are refused": the functions that '
               'return an error (GetAsymmetricStartKey for the master key, MakeKey for the NT response); GetMasterKey and '
               'GenerateAuthenticatorResponse accept an NT response of any length (observed, not asserted).  Observed outside the domain: '
               'ToUTF16 never fails - every octet that is not part of valid UTF-8 becomes U+FFFD; GetAsymmetricStartKey with key length '
               '21..24 returns the 20-octet digest followed by zero octets (spare capacity of the slice, go1.23) and panics for > 24; '
               'DESCrypt / ChallengeResponse panic for key lengths other than 7/8 or a challenge shorter than 8 octets.',
 'trusted': ['Lean SHA-1 / MD4 / DES / UTF-16 written from FIPS 180-4, RFC 1320, FIPS 46-3, RFC 3629 + RFC 2781 (test vectors as #guard; compared '
             'with the Go libraries through every case)',
             'go:linkname access to the unexported rfc2759.parityPadDESKey'],
 'assumptions': ['the session key length of GetAsymmetricStartKey is at most 20 (RFC 3079 uses 8 and 16)',
                 'passwords are valid UTF-8 (outside: U+FFFD substitution, modelled and compared but not part of the property)']}
