# configuration of ./check C02 (see checklib/props.py)
PROP = {'level': 'proof',
 'rule': 'Arbitrary and structured datagrams (damaged lengths, truncations, padding, 0..4200 bytes) through Parse, ParseAttributes, both predicates, and - when they parse - through EVERY generated '
         'getter of every shipped and synthetic package, every typed decoder incl. User-/Tunnel-Password, the debug dumper and re-encoding; plus, for every attribute, packets whose values are '
         'adversarial for its declared type (truncated integers, hostile Vendor-Specific payloads, every password length) taken through the wire and read with that attribute\'s getters. '
         'Each case runs under recover() and a watchdog. The server clause (handler only sees parsed packets) is decided by C06.',
 'level_text': 'Lean theorems that no function of the decode-surface model ever yields `fault` (the outcome standing for a Go index/slice panic) and that all of them are total '
               '(structural or measured recursion, no fuel), for all inputs; the hand-mirrored guards are tied to the code by running every entry point, incl. all ~3300 generated getters, on hostile inputs.',
 'level_note': 'Trusted: Lean kernel; the models mirror the Go slice expressions by hand (a dropped guard in the code shows up as PANIC in the differential run, not as a failed theorem); '
               'memory safety of the Go runtime and standard library; bounded time is a step bound on the model and a watchdog on the code.',
 'trusted': ['cmd/reggen', 'recover() + watchdog'],
 'assumptions': [],
 'shards': 16}
