# configuration of ./check C18 (see checklib/props.py)
PROP = {'facts': ['c18pkg'],
 'level': 'proof',
 'rule': 'One case per artefact: every directory under /repo that holds a generate.go with a go:generate line (globbed at run time: 32 helper '
         'packages + debug). The go:generate line is parsed like cmd/radius-dict-gen/main.go parses its flags; the dictionary next to it is parsed '
         'with the working tree\'s parser (IgnoreIdenticalAttributes=true) and fed to the working tree\'s dictionarygen.Generator in-process; the '
         'result is compared with the checked-in generated.go at go/ast level (comments and positions dropped, literals by go/constant value, '
         'imports as a set, declarations in order). debug: the go:generate line names /usr/share/freeradius/dictionary.rfcNNNN, which are not '
         'part of the repository; the files of the same names checked in under /repo/rfcNNNN/ are substituted, Parse+Merge of generate_main.go is '
         're-run and the resulting *Dictionary is compared element by element with debug.IncludedDictionary. Second reading: the declaration '
         'inventory of each checked-in file (go/parser) must equal Gen.inventory (Lean) of its dictionary.',
 'level_text': 'The property quantifies over a finite table (the 32 checked-in helper packages + the debug dictionary). For each helper '
               'package one Lean theorem, closed by the kernel (`decide +kernel`, no axioms), states that the MODEL generator (Gen.generate '
               'Cfg.current — the model C17\'s theorems are about) applied to the package\'s dictionary (facts regenerated on every run: the '
               'dictionary as parsed by the tree\'s parser, the go:generate options) yields exactly the imports and declarations (kind, '
               'name, parameter and result types, order) found in the checked-in generated.go. Below the inventory — function bodies, '
               'literal values, the debug dictionary — the check is translation validation: regenerate with the tree\'s own generator '
               'and compare syntax trees.',
 'level_note': 'Proved per package: inventory equality against the Lean model (33 obligations incl. "32 packages present"). NOT '
               'proved, compared only: function bodies and constant values (the model does not contain template bodies), the debug '
               'package (Parse+Merge re-run, compared element by element; its go:generate line names FreeRADIUS system files, for '
               'which the checked-in rfc dictionaries of the same names are substituted — on this tree they reproduce '
               'IncludedDictionary exactly, 80 attributes, 116 values). The generator\'s output is required to be one text: 12 further '
               'runs must give the same bytes.',
 'technique': 'Lean 4 kernel-checked equality (decide +kernel) of model-generator inventory and checked-in inventory per package, facts regenerated from the tree; in-process regeneration + go/ast structural diff for bodies',
 'trusted': ['go/parser, go/constant; the harness\'s reading of the go:generate line (mirrors cmd/radius-dict-gen/main.go)'],
 'assumptions': ['debug: /usr/share/freeradius/dictionary.rfc2865 ... rfc5176 are taken to be the files of the same names checked in under /repo/rfc2865 ... /repo/rfc5176'],
 'shards': 1,
 'single_seed': True}
