# configuration of ./check C18 (see checklib/props.py)
PROP = {'facts': ['c18pkg'],
 'level': 'translation_validation',
 'rule': 'One case per artefact: every directory under /repo that holds a generate.go with a go:generate line (globbed at run time: 32 helper '
         'packages + debug). The go:generate line is parsed like cmd/radius-dict-gen/main.go parses its flags; the dictionary next to it is parsed '
         'with the working tree\'s parser (IgnoreIdenticalAttributes=true) and fed to the working tree\'s dictionarygen.Generator in-process; the '
         'result is compared with the checked-in generated.go at go/ast level (comments and positions dropped, literals by go/constant value, '
         'imports as a set, declarations in order). debug: the go:generate line names /usr/share/freeradius/dictionary.rfcNNNN, which are not '
         'part of the repository; the files of the same names checked in under /repo/rfcNNNN/ are substituted, Parse+Merge of generate_main.go is '
         're-run and the resulting *Dictionary is compared element by element with debug.IncludedDictionary. Second reading: the declaration '
         'inventory of each checked-in file (go/parser) must equal Gen.inventory (Lean) of its dictionary.',
 'level_text': 'Complete enumeration of a finite set (33 artefacts): regenerate from the checked-in dictionary and go:generate options with the '
               'working tree\'s own generator and compare with the checked-in file up to formatting, comments and literal spelling; plus an '
               'independent cross-check of each file\'s declaration inventory against the Lean model of the generator.',
 'level_note': 'Nothing universally quantified, hence no theorem; programs = artefacts compared, disagreements_checked = artefacts that differed '
               '(each is reported with its first differing declaration). The debug comparison uses the checked-in rfc dictionaries in place '
               'of the FreeRADIUS system files named on its go:generate line (substitution stated in rule); on this tree they reproduce '
               'IncludedDictionary exactly (80 attributes, 116 values).',
 'technique': 'in-process regeneration + go/ast structural diff; Lean model cross-check of the declaration inventory',
 'trusted': ['go/parser, go/constant; the harness\'s reading of the go:generate line (mirrors cmd/radius-dict-gen/main.go)'],
 'assumptions': ['debug: /usr/share/freeradius/dictionary.rfc2865 ... rfc5176 are taken to be the files of the same names checked in under /repo/rfc2865 ... /repo/rfc5176'],
 'shards': 1,
 'single_seed': True}
