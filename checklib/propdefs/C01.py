# configuration of ./check C01 (see checklib/props.py)
PROP = {'level': 'proof',
 'rule': 'Structured wire images (header + 0..40 TLVs, boundary value lengths, damaged length bytes, Length field '
         'exact/off-by-one/19/20/4095..4097/beyond buffer, trailing padding), arbitrary byte strings, and Packet values (codes -1..300, types '
         '-1..1000, value lengths 0..300, totals 4086..4100).',
 'level_text': "Lean theorems (all byte strings / all Packet values, by induction) that the model's Parse accepts exactly the well-formed inputs, "
               'that MarshalBinary after Parse reproduces the first Length bytes, that Parse after MarshalBinary returns the same packet, and that '
               'oversize is refused; the model is tied to packet.go/attributes.go by re-probed limits closed in the kernel and by a differential run '
               "with the statement's predicate evaluated on the implementation's own outputs.",
 'level_note': 'Trusted: Lean kernel; the hand-written mirror RV.Model.Wire of the Go code (validated, not verified, by the correspondence run); Go '
               'slice semantics as modelled; harness, driver glue and ./check.',
 'trusted': ["Model.Wire mirrors packet.go/attributes.go by hand; tied by this run's correspondence and by Facts.Tie (limits 20/4096/253/2 re-probed "
             'from the code)'],
 'assumptions': ['Go slice/append/copy semantics as mirrored in RV.Model.Wire'],
 'facts': ['maxPacketLengthConst', 'parseMinBuf', 'lenFieldMin', 'lenFieldMax', 'lenBeyondBuffer', 'attrLenMin', 'attrValMax', 'marshalMax']}
