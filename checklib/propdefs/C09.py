# configuration of ./check C09 (see checklib/props.py)
PROP = {'level': 'proof',
 'rule': 'Every operation sequence of length <= 3 (quick) / 4 (thorough) over Add/Set/Del/Get/Lookup x types {-1,1,2,255,256} x values '
         "{empty,'a','bb'} from three initial lists, plus random sequences of up to 60 operations with runs of duplicates and 253/254-byte values; "
         'the list after every step and the final wire form are compared.',
 'level_text': 'Lean theorems that the Go in-place loops (index walk with removal) for Del/Set and Add/Get/Lookup refine an ordered-multimap '
               'specification for every list and every operation sequence, and that the wire form lists exactly the valid-type attributes in order '
               'with reported length = bytes written; tied to attributes.go by exhaustive short programs and random long ones.',
 'level_note': 'Trusted: Lean kernel; the hand-written mirror of the loops in RV.Model.Wire (validated by the correspondence run); harness, driver '
               'glue, ./check.',
 'trusted': ["Model.Wire index-walk loops mirror attributes.go by hand; tied by this run's correspondence"],
 'assumptions': ['Go slice/append semantics as mirrored in RV.Model.Wire']}
