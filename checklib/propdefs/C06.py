# configuration of ./check C06 (see checklib/props.py)
PROP = {'shrink_rounds': 8, 'shrink_candidates': 48,
 'level': 'proof',
 'rule': 'Sequences of 2..14 steps on the real PacketServer with a fake PacketConn: datagrams from four peers (two with secrets, one with an empty secret, one for which the secret source fails): '
         'authentic Access-/Accounting-/Status requests, forged Accounting/CoA requests, reply codes, authentic-but-unparsable and short datagrams; duplicates of (peer, identifier) while the '
         'handler runs and after it returned, the same identifier from another peer or on another Serve call; handlers complete in random order and reply with reply / request / unknown codes; '
         'verification on and off.',
 'level_text': 'Lean theorems about the dispatch part of the server transition system, for any number of datagrams and every schedule: the handler runs for a datagram iff the secret source gave a '
               'non-empty secret, the request is authentic under it (unless checking is off), it parses and its (source, identifier) is not in flight on that Serve call; at most one handler per key; '
               'the key is released when the handler returns; the reply encodes with an authenticator valid for the request (via C03). Tied to server-packet.go by controlled sequences on the real server.',
 'level_note': 'Trusted: Lean kernel; RV.Model.Server as mirror of the per-datagram goroutine (validated by the run); atomicity of lookup+insert of the dedup table is assumed by the model and exercised only '
               'sequentially here (the thorough tier fires simultaneous duplicates under -race).',
 'trusted': ['hooks in /repo', 'deterministic lab'],
 'assumptions': [],
 'shards': 16,
 'facts': ['requestClass', 'dedupAtomic'],
 'race': True,
 'retry': True}
