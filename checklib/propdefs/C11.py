# configuration of ./check C11 (see checklib/props.py)
PROP = {'race': True,
 'level': 'proof',
 'rule': 'Every password length 0..260 x contents x salts (high bit set/clear, wrong lengths) x secrets x authenticators through NewTunnelPassword '
         'and the round trip; every attribute length 0..300 and genuine encodings with a corrupted embedded length through TunnelPassword.',
 'level_text': 'Lean theorems for an arbitrary 16-byte hash: NewTunnelPassword equals the RFC 2868 s3.5 encoding, the result plus a tag byte fits in '
               "one attribute, TunnelPassword returns the same password and salt, refusals are exactly the out-of-domain inputs, and the decoder's "
               'accept set is exact.',
 'level_note': 'Trusted: Lean kernel; RV.Model.Password as mirror of attribute.go (validated by correspondence); Lean MD5.',
 'trusted': ['Lean MD5 (RFC 1321)'],
 'assumptions': [],
 'facts': ['encTunnelPassword']}
