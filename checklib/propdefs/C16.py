# configuration of ./check C16 (see checklib/props.py)
PROP = {'level': 'proof',
 'facts': ['c16TypeCode', 'c16TypeSize', 'c16Flags', 'c16Format', 'c16ValueNumber', 'c16Oid', 'c16OidTokens', 'c16TypeTokens', 'c16FlagTokens', 'c16FormatTokens', 'c16ValueTokens'],
 'rule': 'Random abstract dictionaries (all 17 types and octets[n], every flag combination and order, dotted OIDs up to max int64, decimal and '
         '0x-hex values, vendor formats, several blocks per vendor) x random layouts (blank/tab runs, trailing comments, blank / '
         'whitespace-only / comment lines, LF and CRLF, with and without final newline, per-letter case of type names); every single-fault '
         'mutation of the fault classes named by the property (each kind at each position in thorough); hand-written edge texts (Unicode '
         'white space, invalid UTF-8, U+017F in type names, lines of 65534..70000 bytes); arbitrary bytes, token soup and one-byte edits of '
         'valid texts.',
 'level_text': 'Lean theorems about an executable model of dictionary/parser.go: lexer lemmas (ScanLines, Fields), parse(render layout d) = '
               'toDictionary d for every well-formed abstract dictionary and every layout (layout independence, declaration order, vendor '
               'attachment), one rejection theorem per fault class with error class and 1-based line; model tied to the Go parser by a '
               'differential run whose oracle is a specification-level reader of the language written from the property, not from the model.',
 'level_note': 'Trusted: Lean kernel; the model as mirror of parser.go incl. bufio.ScanLines / 64 KiB token limit, strings.Fields, '
               'strings.EqualFold, strconv.ParseInt/ParseUint as modelled on bytes (rune-boundary argument in RV/Model/DictParser.lean), '
               'validated by the correspondence run on arbitrary bytes.',
 'trusted': ['models of bufio.Scanner/ScanLines, strings.Fields, strings.EqualFold, strings.Split, strconv.ParseInt/ParseUint',
             'the specification-level reader DSpec in RV/Driver/C16.lean (oracle)'],
 'assumptions': ['lines shorter than 64 KiB (longer ones end in bufio.ErrTooLong, modelled and compared but outside the property)',
                 'white space = blanks and tabs; for VT, FF, a CR inside a line and the Unicode white-space runes the property is silent: '
                 'model and code are compared there, the language oracle is not applied',
                 'numbers are what strconv accepts for the Go field types (signed 32-bit vendor numbers / sizes / encrypt values, unsigned '
                 '32-bit values, OID components that fit int)',
                 'letter case of type names is ASCII case; U+017F / U+212A (folded by strings.EqualFold) are compared model-vs-code only',
                 'a VENDOR line inside a vendor block is accepted by the code; the property is silent, the oracle is not applied']}
