# configuration of ./check C07 (see checklib/props.py)
PROP = {'shrink_rounds': 8, 'shrink_candidates': 48,
 'level': 'proof',
 'rule': 'Schedules of the real PacketServer at hook granularity: Serve parked after its registration region (hook serve.registered), datagram goroutines parked in the SecretSource and in the '
         'handler, Shutdown parked before its select (hook shutdown.beforeWait), read errors and context cancellation released by the harness. Exhaustive interleavings of {Serve, Shutdown} and '
         '{Serve, datagram, Shutdown}; sampled interleavings of up to 2 Serve calls, 3 datagrams, 2 Shutdown calls (one with a cancelled context), a late Serve; every scenario ends with '
         '"release everything and require that every call returns". Each scenario runs in its own process so that an unrecoverable panic is an observation.',
 'level_text': 'Lean theorems about a transition system of Serve / datagram / Shutdown threads with any number of threads, for every schedule: lastActive is closed at most once (no panic), a nil '
               'return of Shutdown implies every Serve call has returned and every datagram goroutine has finished, a context error only if the context ended, every Serve entering after the request '
               'returns ErrServerShutdown, and from every reachable state all threads can run to completion (no deadlock); the model is tied to server-packet.go by replaying hook-level schedules '
               'on the real server.',
 'level_note': 'Trusted: Lean kernel; the atomicity granularity of the model (mutex regions are single steps; argument in RV/Model/Server.lean) validated by the hook-level replays; the Go scheduler below '
               'hook granularity and data-race freedom are NOT proved (the thorough tier runs a -race soak).',
 'trusted': ['hooks in /repo (build tag verif)', 'deterministic lab: fake PacketConn, parked SecretSource/handlers'],
 'assumptions': ['listener read errors originate from Shutdown\'s Close', 'handlers return when released'],
 'shards': 16,
 'facts': ['countedUnderLock', 'shutdownFlagUnderLock', 'activeAddBeforeGo', 'serveFlagUnderLock'],
 'race': True,
 'retry': True}
