# configuration of ./check C03 (see checklib/props.py)
PROP = {'race': True,
 'level': 'proof',
 'rule': 'Packets x all codes -2..300 x secrets (incl. empty) through Encode; request/reply pairs (reply built from the parsed request) with '
         'single-byte corruption and a different secret; authentic and damaged (bit flip, truncation, extension) datagrams through both predicates; '
         'New() called 64 times per case.',
 'level_text': "Lean theorems for an arbitrary 16-byte hash H: Encode's authenticator equals the RFC formula for every code (per-code table complete "
               'over 0..255, closed by kernel evaluation against the table probed from the code), the predicates are true iff the RFC formula holds, '
               'Encode and the predicates are mutually consistent, and acceptance of a tampered datagram is exactly an H-collision on distinct '
               'inputs; tied to packet.go by the probed tables and a differential run with H := a Lean MD5 written from RFC 1321.',
 'level_note': 'Trusted: Lean kernel; RV.Model.Auth as mirror of packet.go (validated by correspondence + per-code tables); no cryptographic '
               "strength of MD5 is claimed; freshness of crypto/rand is the OS's (call site checked syntactically, distinctness sampled).",
 'trusted': ['Lean MD5 (RFC 1321) compared with crypto/md5 on every case through the Encode/predicate results',
             'go/ast fact: New reads from crypto/rand'],
 'assumptions': ['crypto/rand returns fresh bytes'],
 'facts': ['encodeClass', 'requestClass', 'encodeClassOutOfRange', 'newUsesCryptoRand']}
