# configuration of ./check C14 (see checklib/props.py)
PROP = {'level': 'proof',
 'rule': 'Every vendor attribute of aruba, microsoft, mikrotik, wispr, rfc4679 and of the synthetic vendors generated on this run, on packets mixing base attributes, this vendor\'s '
         'and other vendors\' Vendor-Specific attributes with 0..4 sub-attributes (well-formed, zero-length, overrunning, dangling bytes, several per attribute); sequences of '
         'Add/Set/Del/Lookup/Encode->Parse; every step under recover() and a watchdog.',
 'level_text': 'Lean theorems about the model of the vendor walkers (all packets, incl. malformed payloads): total (structural / measured recursion, no fault), Gets/Lookup = the matching '
               'sub-attributes in packet order, Add appends one well-formed attribute, Set leaves exactly one occurrence, Del none, every other byte preserved in order, no empty '
               'attribute left, failure leaves the packet unchanged; tied to dictionarygen/vendor.go by a differential run over hostile packets through every generated vendor helper.',
 'level_note': 'Trusted: Lean kernel; RV.Model.Vendor as hand-written mirror of dictionarygen/vendor.go (validated by the run); termination of the Go loops is observed by watchdog, proved on the model.',
 'trusted': ['cmd/reggen', 'watchdog for hangs'],
 'assumptions': [],
 'shards': 16}
