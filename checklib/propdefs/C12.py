# configuration of ./check C12 (see checklib/props.py)
PROP = {'level': 'proof',
 'rule': 'Every attribute of every shipped helper package and of the synthetic packages generated on this run from the working tree\'s templates '
         '(every kind x flag combination, top-level and vendor) is driven through the registry regenerated from /repo (cmd/reggen): random prior '
         'packets (same type present, other attributes, other vendors), sequences of 1..6 of Set/Add/SetString/AddString/Del/Lookup/Encode->Parse with '
         'values of the Go type (boundary sizes, wrong address families, out-of-range times, tags 0..255), reads (Lookup, Gets) recorded after every step; '
         'plus the value constants of every integer attribute.',
 'level_text': 'Lean theorems about one descriptor-parameterised model of the templates (all kinds, flags, values, prior packets): Set->Lookup/Gets, Add appends, '
               'Del->ErrNoAttribute, non-interference, refusal leaves the packet unchanged, survival of Encode->Parse, stored obfuscation; the model is tied to '
               'EVERY generated function (shipped and freshly generated) by a registry-driven differential run with the laws evaluated on the implementation\'s observations.',
 'level_note': 'Trusted: Lean kernel; RV.Model.Helper as hand-written mirror of dictionarygen/attributes.go (validated by driving every generated function); descriptors come from the '
               'dictionary files parsed with the repo\'s own parser (C16) and C18 ties shipped code to the generator; crypto/rand salt is read off the stored attribute.',
 'trusted': ['cmd/reggen (go/ast mapping dictionary attribute -> generated identifiers)', 'Lean MD5'],
 'assumptions': ['request packet q carries the same authenticator as p (Response copies it)'],
 'shards': 16}
