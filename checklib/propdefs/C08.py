# configuration of ./check C08 (see checklib/props.py)
PROP = {'level': 'proof',
 # a failing case is run again alone (twice) before it is believed: real sockets and timers on a shared machine
 'retry': True,
 # every candidate of the shrinker is a real network exchange: bound the search (./check reads these two keys)
 'shrink_rounds': 3, 'shrink_candidates': 20,
 # regenerated fact tied in Facts/TieC08.lean: the argument of time.NewTicker is c.Retry (1 holds / 2 unknown / 0 violated)
 'facts': ['tickerPeriodIsRetry'],
 'rule': 'One evaluation = one scenario run on the real Client.Exchange over loopback UDP: peer behaviour (silent; closed port => ICMP => read '
         'error; reply at once or only after k retransmissions, preceded by garbage and followed by more datagrams; flood of garbage) x '
         'cancellation (context already cancelled / deadline already passed; cancel N ms after the peer received its j-th datagram; '
         'context.WithTimeout; never) x Retry in {-1, 0, 5 ms, 20 ms, 1 h} x MaxPacketErrors in {0,1,3,-1,10} x request codes 1,4,12,40,43, plus a '
         'request Encode refuses; plus an address DialContext refuses at once (no port / port 99999 / unixgram path that does not exist / unknown '
         'network: the dial error - or the error of a context that was done already - comes back, nothing reaches a listener of the harness), and '
         'Client.Net = unixgram with a peer that takes the first datagram and is then closed and unlinked (every retransmission fails while the '
         'Read stays pending; cancellation or a deadline must still end the call); every scenario with the context either of a standard library '
         'type or (about half) of a user-defined type with its own Done channel. Observed and reported as classes/booleans (plus the raw arrival instants behind the resend class, see below): identity of the returned error (nil+packet / '
         'context.Canceled / context.DeadlineExceeded by ==, net error, parse error, NonAuthenticResponseError), the first datagram at the peer, '
         'byte-identity of all datagrams the peer received, their number (exactly one when Retry <= 0; between elapsed/Retry/3-2 and elapsed/Retry+2 '
         'otherwise), return within 250 ms of the cancellation, nothing at the peer after a sentinel datagram sent at the moment of return during '
         'max(50 ms, 3 x Retry), no goroutine with radius.(*Client).Exchange on its stack, no more goroutines in the process than before the call (the harness\'s own, counted '
         'one by one, excluded: this sees goroutines parked in the context package for the call) and /proc/self/fd back to its size 200 ms after the return; '
         'a watchdog turns a call that does not return into the observation HANG. Scenarios run one at a time per process. The timing-dependent '
         'clauses (promptness, resend count with Retry > 0, goroutine census, descriptor count) are re-measured: a scenario in which one fails is '
         'run up to two more times and the clause is reported only if it fails in all three runs. The Lean side runs the logic machine on the '
         "scenario's abstract event sequence and compares the timing-independent parts (outcome class, returned packet, first datagram = encoded "
         'request, verbatim, no resend without retry, silence, clean-up). Timed layer: the harness also prints the arrival instant of every request '
         'datagram at the peer and the instant Exchange had returned by (whole ms since the instant just before Exchange was called) and the '
         'interval; the driver evaluates on these numbers the upper bounds the timed machine RV.Exchange.Timed proves for every well-timed run '
         '(i-th datagram not before t0 + i*Retry; at most 1 + (end - t0)/Retry datagrams; at most one when Retry <= 0) with an allowance of 1 ms, t0 being the instant the '
         'Dialer\'s Control hook returned (a dial that takes 0.6 x Retry in one scenario in three). Only upper bounds on the frequency are asserted on observations; that the '
         'ticker is not SLOWER than configured rests on the regenerated fact tickerPeriodIsRetry (the argument of time.NewTicker is c.Retry) and the loose count class.',
 'level_text': 'Lean theorems about the Exchange logic machine (dial, first write, ticker only if Retry > 0, helper goroutine, context, read '
               'completions, deferred cancel/close) for every event sequence: every write is the byte string Encode produced; at most one write '
               'when Retry <= 0; nothing is written and the result is fixed once returned; a read error with the context done returns the '
               "context's error whatever the budget, and once the helper has closed the conn no queued datagram is delivered; every sequence "
               'with a failed dial, a read error after the dial, an acceptable datagram on the open conn, or ctxDone -> helperObservesCtx -> read '
               'error ends returned; returned => socket closed and helper exit enabled and final. Timed refinement (time stamps; time.Ticker '
               'with a capacity-1 channel whose deliveries and receives are late by amounts the environment chooses), for every well-timed sequence: it '
               'refines the untimed machine; the i-th retransmission is not before t0 + i*Retry; at most 1 + (T - t0)/Retry writes by T; '
               'consecutive retransmissions come from different firings (spacing >= Retry minus the lateness of the earlier one); with Retry <= 0 '
               'no tick is ever enabled; under an explicit latency hypothesis L < Retry no tick is lost and at least (T - t0 - L)/Retry '
               'retransmissions happen. Proof for the LOGIC and the TIMING BOUNDS only - partial: promptness, '
               'socket closing, goroutine exit and ICMP behaviour are runtime facts validated on traces of the real code, not proved.',
 'level_note': 'Partial. Proved: the logic machine RV.Exchange.step (hand-written mirror of client.go:46-130) satisfies the clauses above. NOT '
               'proved, only validated on traces of the real code by this run: that the Go runtime schedules the helper after ctx.Done() and that '
               'closing the conn makes the blocked Read fail (the two events ctx_wins/returns_under_fairness need), how long that takes '
               '("promptly" = 250 ms here), that conn.Close releases the descriptor, that the helper goroutine exits (census within 200 ms), that a '
               'closed port yields a read error (ICMP). The code does not guarantee the context error when a datagram is read between the '
               'cancellation and the helper closing the conn (theorem ctx_window_processes_datagrams); the statement does not demand it. Trusted: '
               'Lean kernel, the mirror, the scripted peer / census / classifier of the harness, driver glue, ./check.',
 'trusted': ['scenario -> abstract event sequence mapping in RV.Driver.C08 (the number of ticks is timing dependent; a representative number is used)',
             'the Go runtime ticker is as RV.Exchange.Timed.wellTimed describes it (never delivers a tick before it is due, channel of capacity 1); '
             'a datagram is seen by the peer after it was written; time.Now and the runtime timers read the same monotonic clock',
             'runtime.Stack census and /proc/self/fd as observations of goroutine and descriptor leaks'],
 'assumptions': ['the Go scheduler eventually runs a runnable goroutine; net.Conn.Close unblocks a pending Read',
                 'loopback: a closed UDP port answers with ICMP port unreachable, datagrams of one sender arrive in order',
                 'tolerances: 250 ms promptness, 200 ms census, resend count within [elapsed/Retry/3-2, elapsed/Retry+2] (class token); '
                 'model bounds on the raw arrival instants (never early, never more than one per interval): allowance 1 ms']}
