# configuration of ./check C15 (see checklib/props.py)
PROP = {'level': 'proof',
 'rule': 'Exhaustive include graphs: 3 files, every ordered sequence of distinct $INCLUDE targets per file incl. self-includes (4096 graphs) x '
         'body styles (VALUE / ATTRIBUTE lines before and after the includes, a faulty line before / between / after, includes of a missing '
         'file, a duplicated include, blank and comment lines, CRLF, no final newline, include inside a vendor block); thorough: also every '
         'subset of the 16 edges on 4 files (65536 graphs); hand-written cycles, diamonds, chains of 150 and 199 files, over-long lines and '
         'unclosed blocks in included files; random file systems of 1..5 files. Every 29th (thorough: 5th) of these file systems once more '
         'with I/O failures planted (op walkio: per file a reader that fails after the text and/or a first Close that fails, reader '
         'chunk sizes 1..4096), plus about 180 hand-placed failure cases (read error in root / include / two levels down, mid-line, before '
         'an unclosed block, at the 64 KiB line limit; Close error at different lines and depths, and where it must not show) and '
         '150 (thorough: 4000) random ones.',
 'level_text': 'Lean theorems about an executable model of the $INCLUDE walk of dictionary/parser.go over an abstract finite file system with '
               'an open/close event log: the repaired rule terminates without fuel on every finite file system (well-founded measure), a '
               'successful parse implies an acyclic reachable include graph, a reported RecursiveInclude is a real cycle, acyclic graphs '
               '(diamonds, repeated includes) are never reported, every open is followed by a close on all paths, ParseErrors carry a parsed '
               'file and a 1-based line of it; for the rule as found: divergence on the non-root cycle for every fuel. An additive layer '
               '(files whose reader fails / whose first Close fails) refines that model when no file fails, and for it: every open is '
               'followed by a close whatever fails, a read error / Close error is reported exactly as parser.go does and is explained '
               '(file, 1-based $INCLUDE line, which file failed), no failure is swallowed by a successful parse; its log is well nested per '
               'handle on every outcome (a re-opened file of a RecursiveInclude is closed by its own close), closed exactly twice per '
               'successful include, exactly once per handle on the path of a failure and for the root. Model tied to the Go '
               'parser by a differential run with an in-memory Opener and an oracle written from the property.',
 'level_note': 'Trusted: Lean kernel; the model as mirror of parser.go (see C16); the in-memory opener of the harness with its depth cap of '
               '200 open files (unbounded recursion is observed as DEPTH-EXCEEDED instead of a fatal stack overflow).',
 'trusted': ['in-memory Opener of the harness (event trace, depth cap)', 'the specification-level reader DSpec in RV/Driver/C16.lean (oracle)'],
 'assumptions': ['file names are what File.Name() returns; the abstract file system maps a name to one content (first entry wins)',
                 'include depth below 200 (deeper legal chains are not generated)',
                 'I/O failures: a reader delivers its text with nil errors and fails on the following Read call (never together with data); '
                 'a failing Close fails on the first call on a handle; an Opener that fails for an existing file is the missing-file case',
                 'an Opener that returns (nil, nil) makes parser.go:214 (`defer incFile.Close()` / `incFile.Name()`) panic - the Opener '
                 'contract (non-nil File when err == nil) is assumed',
                 'the open/close trace names files, not handles: where one name is open twice the trace is checked to be well nested under '
                 'SOME reading; per-handle leaks are counted by the harness (HandleLeak for the in-memory opener, fds= for real files)',
                 '"every cycle is reported" is read as: when the depth-first walk in directive order reaches it; an earlier fault is reported instead']}
