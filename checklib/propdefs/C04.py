# configuration of ./check C04 (see checklib/props.py)
PROP = {'race': True,
 'level': 'proof',
 'rule': 'Every plaintext length 0..140 x contents (random, printable, embedded/trailing NULs) x secrets (incl. empty) x authenticators (incl. wrong '
         'sizes) through NewUserPassword and the round trip; every ciphertext length 0..300 through UserPassword.',
 'level_text': 'Lean theorems for an arbitrary 16-byte hash: NewUserPassword equals the RFC 2865 s5.2 ciphertext, has length 16*max(1,ceil(n/16)), '
               'refuses exactly the out-of-domain inputs, UserPassword inverts it up to the first NUL and accepts exactly lengths 16..128 in steps '
               'of 16; the Lean side computes the RFC ciphertext with its own MD5 so a two-sided error in the Go code is a disagreement.',
 'level_note': 'Trusted: Lean kernel; RV.Model.Password as mirror of attribute.go (validated by correspondence); Lean MD5.',
 'trusted': ['Lean MD5 (RFC 1321)'],
 'assumptions': [],
 'facts': ['encUserPassword', 'acceptUserPassword']}
