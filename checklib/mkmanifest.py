#!/usr/bin/env python3
"""Regenerates MANIFEST.json from checklib/props.py (run after editing props.py)."""
import json, os, sys
ROOT = os.path.dirname(os.path.dirname(os.path.abspath(__file__)))
sys.path.insert(0, os.path.join(ROOT, "checklib"))
from props import PROPS
ALL = ["C%02d" % i for i in range(1, 21)]
BASE = "cd /repo && go test -mod=mod -vet=off -count=1 ./..."
m = {
    "version": 1,
    "setup_cmd": "./setup.sh",
    "hooks": {
        "guard": "verif",
        "enable": "go build -tags verif (the harness module /verif/harness replaces layeh.com/radius with /repo)",
        "baseline_off_cmd": BASE,
        "source_commits": [],
        "add_only": True,
    },
    "engines": [{
        "name": "lean4-proof+correspondence",
        "path": "lean/ (model, theorems, driver) + harness/ (Go harness vh) + check",
        "serves_properties": sorted(PROPS),
        "kind_free_text": "Lean 4 theorems about an executable model; model tied to the Go source on every run by regenerated "
                          "facts closed in the kernel and by a differential correspondence check with a property oracle",
    }],
    "checks": [],
    "not_applicable": [],
    "notes": "See DESIGN.md. ./check <id> rebuilds the harness from /repo's working tree on every invocation.",
}
hooks_file = os.path.join(ROOT, "checklib", "hook_commits.txt")
if os.path.exists(hooks_file):
    m["hooks"]["source_commits"] = [l.strip() for l in open(hooks_file) if l.strip()]
for pid in ALL:
    if pid in PROPS:
        c = PROPS[pid]
        m["checks"].append({
            "property_id": pid,
            "quick_cmd": "./check %s --tier quick" % pid,
            "thorough_cmd": "./check %s --tier thorough" % pid,
            "evidence_file": "evidence/%s.json" % pid,
            "replay_cmd_template": "./check %s --replay {path}" % pid,
            "engine": "lean4-proof+correspondence",
            "level_claimed": {"category": c["level"], "text": c["level_text"], "design_ref": c.get("design_ref", "DESIGN.md §5 " + pid)},
            "level_note": c["level_note"],
            "technique": c.get("technique", "Lean 4 theorems about an executable model + differential correspondence with the Go code"),
        })
    else:
        m["not_applicable"].append({"property_id": pid, "reason": "check not built yet in this revision (work in progress; planned in DESIGN.md §5 %s)" % pid})
json.dump(m, open(os.path.join(ROOT, "MANIFEST.json"), "w"), indent=1)
print("MANIFEST.json:", len(m["checks"]), "checks,", len(m["not_applicable"]), "not claimed")
