#!/usr/bin/env python3
"""confirm_seed.py <seed dir> <name> [<Cxx> …]

Confirms a seeded change independently (scratch worktree of /repo, outside /repo and /verif):
  1. the demonstration passes on the clean tree,
  2. with the patch: the tree builds (with and without -tags verif), the unchanged suite passes,
     and the demonstration fails,
then runs the named checks against the patched scratch tree (checklib/try_seed.sh) and stores
everything under /verif/seeded/<name>/ (patch.diff, demo, meta.json incl. what was run and which
checks reported it).  Nothing is ever committed to /repo.
"""
import json, os, re, shutil, subprocess, sys

ENV = dict(os.environ, GOFLAGS="-mod=mod", GOPROXY="off", GOSUMDB="off", GOTOOLCHAIN="local")
WT = "/var/tmp/cseed" + os.environ.get("SEED_SLOT", "")
ROOT = os.path.dirname(os.path.dirname(os.path.abspath(__file__)))


def sh(cmd, cwd=None, timeout=1200):
    r = subprocess.run(cmd, shell=True, cwd=cwd, env=ENV, stdout=subprocess.PIPE, stderr=subprocess.STDOUT, text=True, timeout=timeout)
    return r.returncode, r.stdout


def clean():
    if not os.path.isdir(WT):
        sh("git -C /repo worktree add -q --detach %s HEAD" % WT)
    sh("git -C %s checkout -q --detach $(git -C /repo rev-parse HEAD) && git -C %s checkout -q -- . && git -C %s clean -fdq" % (WT, WT, WT))


def main():
    seed, name = sys.argv[1], sys.argv[2]
    checks = sys.argv[3:]
    meta = json.load(open(os.path.join(seed, "meta.json")))
    patch = os.path.join(seed, "patch.diff")
    demo = os.path.join(seed, "demo_test.go")
    rec = {"commands": []}
    if not os.path.exists(demo):
        print("no demo_test.go in", seed)
        return 2
    src = open(demo).read()
    pkg = re.search(r"^package\s+(\w+)", src, re.M).group(1)
    tests = re.findall(r"^func (Test\w+)\(", src, re.M)
    base = pkg[:-5] if pkg.endswith("_test") else pkg
    ddir = meta.get("demo_dir")
    if not ddir:
        if base == "radius":
            ddir = "."
        else:
            c, out = sh("grep -rl --include=*.go '^package %s$' %s | grep -v _test.go | head -1" % (base, "/repo"))
            ddir = os.path.relpath(os.path.dirname(out.strip()), "/repo") if out.strip() else "."
    tags = "-tags verif " if re.search(r"^//go:build\s+verif", src, re.M) else ""
    run_demo = "go test %s-mod=mod -vet=off -count=1 -run '^(%s)$' ./%s" % (tags, "|".join(tests), ddir)
    # 1. clean tree: demo passes
    clean()
    shutil.copy(demo, os.path.join(WT, ddir, "zz_seed_demo_test.go"))
    c1, o1 = sh(run_demo, cwd=WT)
    rec["commands"].append({"cmd": "(clean tree) " + run_demo, "exit": c1, "tail": o1[-400:]})
    # 2. patched tree
    clean()
    c, o = sh("git apply %s" % patch, cwd=WT)
    if c != 0:
        print("patch does not apply:", o)
        return 2
    cb, ob = sh("go build ./... && go build -tags verif ./...", cwd=WT)
    rec["commands"].append({"cmd": "(patched) go build ./... && go build -tags verif ./...", "exit": cb, "tail": ob[-300:]})
    cs, os_ = sh("go test -mod=mod -vet=off -count=1 ./...", cwd=WT)
    rec["commands"].append({"cmd": "(patched) go test -mod=mod -vet=off -count=1 ./...   [unchanged suite]", "exit": cs,
                            "tail": "\n".join(l for l in os_.splitlines() if not l.startswith("ok") and "no test files" not in l)[-400:]})
    shutil.copy(demo, os.path.join(WT, ddir, "zz_seed_demo_test.go"))
    c2, o2 = sh(run_demo, cwd=WT)
    rec["commands"].append({"cmd": "(patched) " + run_demo, "exit": c2, "tail": o2[-600:]})
    clean()
    ok = (c1 == 0 and cb == 0 and cs == 0 and c2 != 0)
    rec["confirmed"] = ok
    print("%s: demo clean=%s patched=%s build=%s suite=%s => %s" % (name, c1, c2, cb, cs, "CONFIRMED" if ok else "NOT CONFIRMED"))
    if not ok:
        for c in rec["commands"]:
            print("  ", c["cmd"], "->", c["exit"], c["tail"][-200:].replace("\n", " | "))
        return 1
    # 3. our checks
    detected = {}
    for pid in checks:
        c, o = sh("%s/checklib/try_seed.sh %s %s" % (ROOT, patch, pid), timeout=3600)
        viol = [l for l in o.splitlines() if l.startswith("VIOLATION")]
        replay = [l.strip() for l in o.splitlines() if l.strip().startswith("replay:")]
        summ = [l for l in o.splitlines() if re.match(r"C\d\d (quick|thorough):", l)]
        detected[pid] = {"reported": bool(viol), "violation_lines": viol[:3], "first_replay": replay[:1], "summary": summ[-1:] }
        print("   check %s: %s %s" % (pid, "REPORTED" if viol else "missed", (replay[:1] or [""])[0][:200]))
    out = os.path.join(ROOT, "seeded", name)
    os.makedirs(out, exist_ok=True)
    shutil.copy(patch, os.path.join(out, "patch.diff"))
    shutil.copy(demo, os.path.join(out, "demo_test.go"))
    meta.update({"confirmation": rec, "demo_dir": ddir, "demo_tests": tests, "detected_by": detected,
                 "how_confirmed": "checklib/confirm_seed.py: scratch worktree /var/tmp/cseed of /repo HEAD; demo passes clean, fails patched; build + unchanged suite pass patched"})
    json.dump(meta, open(os.path.join(out, "meta.json"), "w"), indent=1)
    return 0


if __name__ == "__main__":
    sys.exit(main())
