#!/usr/bin/env python3
"""Run before every `go build` of the harness: regenerates the synthetic helper packages and the
registry of generated helper functions from /repo's working tree (harness/cmd/reggen)."""
import os, subprocess, sys
ROOT = os.path.dirname(os.path.dirname(os.path.abspath(__file__)))
env = dict(os.environ, GOFLAGS="-mod=mod", GOPROXY="off", GOSUMDB="off", GOTOOLCHAIN="local")
# a stale registry that no longer compiles must not block reggen itself (it is a separate main package)
r = subprocess.run(["go", "run", "./cmd/reggen", "."], cwd=os.path.join(ROOT, "harness"), env=env,
                   stdout=subprocess.PIPE, stderr=subprocess.STDOUT, text=True)
if r.returncode != 0:
    print(r.stdout)
    sys.exit(1)
