# Per-property configuration of ./check.
PROPS = {
    "C01": {
        "level": "proof",
        "rule": "Structured wire images (header + 0..40 TLVs, boundary value lengths, damaged length bytes, Length field "
                "exact/off-by-one/19/20/4095..4097/beyond buffer, trailing padding), arbitrary byte strings, and Packet values "
                "(codes -1..300, types -1..1000, value lengths 0..300, totals 4086..4100).",
        "level_text": "Lean theorems (all byte strings / all Packet values, by induction) that the model's Parse accepts exactly the well-formed "
                      "inputs, that MarshalBinary after Parse reproduces the first Length bytes, that Parse after MarshalBinary returns the same packet, "
                      "and that oversize is refused; the model is tied to packet.go/attributes.go by re-probed limits closed in the kernel and by a "
                      "differential run with the statement's predicate evaluated on the implementation's own outputs.",
        "level_note": "Trusted: Lean kernel; the hand-written mirror RV.Model.Wire of the Go code (validated, not verified, by the correspondence run); "
                      "Go slice semantics as modelled; harness, driver glue and ./check.",
        "trusted": ["Model.Wire mirrors packet.go/attributes.go by hand; tied by this run's correspondence and by Facts.Tie (limits 20/4096/253/2 re-probed from the code)"],
        "assumptions": ["Go slice/append/copy semantics as mirrored in RV.Model.Wire"],
    },
    "C09": {
        "level": "proof",
        "rule": "Every operation sequence of length <= 3 (quick) / 4 (thorough) over Add/Set/Del/Get/Lookup x types {-1,1,2,255,256} x values "
                "{empty,'a','bb'} from three initial lists, plus random sequences of up to 60 operations with runs of duplicates and 253/254-byte values; "
                "the list after every step and the final wire form are compared.",
        "level_text": "Lean theorems that the Go in-place loops (index walk with removal) for Del/Set and Add/Get/Lookup refine an ordered-multimap "
                      "specification for every list and every operation sequence, and that the wire form lists exactly the valid-type attributes in order "
                      "with reported length = bytes written; tied to attributes.go by exhaustive short programs and random long ones.",
        "level_note": "Trusted: Lean kernel; the hand-written mirror of the loops in RV.Model.Wire (validated by the correspondence run); harness, driver glue, ./check.",
        "trusted": ["Model.Wire index-walk loops mirror attributes.go by hand; tied by this run's correspondence"],
        "assumptions": ["Go slice/append semantics as mirrored in RV.Model.Wire"],
    },
}
