# Per-property configuration of ./check: one file per property under checklib/propdefs/<id>.py,
# each defining PROP = {level, rule, level_text, level_note, trusted, assumptions, ...}.
import glob, os, importlib.util
PROPS = {}
for _p in sorted(glob.glob(os.path.join(os.path.dirname(os.path.abspath(__file__)), "propdefs", "C*.py"))):
    _spec = importlib.util.spec_from_file_location("propdef_" + os.path.basename(_p)[:-3], _p)
    _m = importlib.util.module_from_spec(_spec)
    _spec.loader.exec_module(_m)
    PROPS[os.path.basename(_p)[:-3]] = _m.PROP
