# Per-property configuration of ./check.
PROPS = {
    "C01": {
        "level": "proof",
        "rule": "Structured wire images (header + 0..40 TLVs, boundary value lengths, damaged length bytes, Length field "
                "exact/off-by-one/19/20/4095..4097/beyond buffer, trailing padding), arbitrary byte strings, and Packet values "
                "(codes -1..300, types -1..1000, value lengths 0..300, totals 4086..4100).",
        "level_text": "Lean theorems (all byte strings / all Packet values, by induction) that the model's Parse accepts exactly the well-formed "
                      "inputs, that MarshalBinary after Parse reproduces the first Length bytes, that Parse after MarshalBinary returns the same packet, "
                      "and that oversize is refused; the model is tied to packet.go/attributes.go by re-probed limits closed in the kernel and by a "
                      "differential run with the statement's predicate evaluated on the implementation's own outputs.",
        "level_note": "Trusted: Lean kernel; the hand-written mirror RV.Model.Wire of the Go code (validated, not verified, by the correspondence run); "
                      "Go slice semantics as modelled; harness, driver glue and ./check.",
        "trusted": ["Model.Wire mirrors packet.go/attributes.go by hand; tied by this run's correspondence and by Facts.Tie (limits 20/4096/253/2 re-probed from the code)"],
        "assumptions": ["Go slice/append/copy semantics as mirrored in RV.Model.Wire"],
    },
    "C09": {
        "level": "proof",
        "rule": "Every operation sequence of length <= 3 (quick) / 4 (thorough) over Add/Set/Del/Get/Lookup x types {-1,1,2,255,256} x values "
                "{empty,'a','bb'} from three initial lists, plus random sequences of up to 60 operations with runs of duplicates and 253/254-byte values; "
                "the list after every step and the final wire form are compared.",
        "level_text": "Lean theorems that the Go in-place loops (index walk with removal) for Del/Set and Add/Get/Lookup refine an ordered-multimap "
                      "specification for every list and every operation sequence, and that the wire form lists exactly the valid-type attributes in order "
                      "with reported length = bytes written; tied to attributes.go by exhaustive short programs and random long ones.",
        "level_note": "Trusted: Lean kernel; the hand-written mirror of the loops in RV.Model.Wire (validated by the correspondence run); harness, driver glue, ./check.",
        "trusted": ["Model.Wire index-walk loops mirror attributes.go by hand; tied by this run's correspondence"],
        "assumptions": ["Go slice/append semantics as mirrored in RV.Model.Wire"],
    },
    "C03": {
        "level": "proof",
        "rule": "Packets x all codes -2..300 x secrets (incl. empty) through Encode; request/reply pairs (reply built from the parsed request) "
                "with single-byte corruption and a different secret; authentic and damaged (bit flip, truncation, extension) datagrams through "
                "both predicates; New() called 64 times per case.",
        "level_text": "Lean theorems for an arbitrary 16-byte hash H: Encode's authenticator equals the RFC formula for every code (per-code table complete over 0..255, "
                      "closed by kernel evaluation against the table probed from the code), the predicates are true iff the RFC formula holds, Encode and the predicates "
                      "are mutually consistent, and acceptance of a tampered datagram is exactly an H-collision on distinct inputs; tied to packet.go by the probed tables "
                      "and a differential run with H := a Lean MD5 written from RFC 1321.",
        "level_note": "Trusted: Lean kernel; RV.Model.Auth as mirror of packet.go (validated by correspondence + per-code tables); no cryptographic strength of MD5 is claimed; "
                      "freshness of crypto/rand is the OS's (call site checked syntactically, distinctness sampled).",
        "trusted": ["Lean MD5 (RFC 1321) compared with crypto/md5 on every case through the Encode/predicate results", "go/ast fact: New reads from crypto/rand"],
        "assumptions": ["crypto/rand returns fresh bytes"],
    },
    "C04": {
        "level": "proof",
        "rule": "Every plaintext length 0..140 x contents (random, printable, embedded/trailing NULs) x secrets (incl. empty) x authenticators (incl. wrong sizes) through "
                "NewUserPassword and the round trip; every ciphertext length 0..300 through UserPassword.",
        "level_text": "Lean theorems for an arbitrary 16-byte hash: NewUserPassword equals the RFC 2865 s5.2 ciphertext, has length 16*max(1,ceil(n/16)), refuses exactly the "
                      "out-of-domain inputs, UserPassword inverts it up to the first NUL and accepts exactly lengths 16..128 in steps of 16; the Lean side computes the RFC ciphertext "
                      "with its own MD5 so a two-sided error in the Go code is a disagreement.",
        "level_note": "Trusted: Lean kernel; RV.Model.Password as mirror of attribute.go (validated by correspondence); Lean MD5.",
        "trusted": ["Lean MD5 (RFC 1321)"],
        "assumptions": [],
    },
    "C11": {
        "level": "proof",
        "rule": "Every password length 0..260 x contents x salts (high bit set/clear, wrong lengths) x secrets x authenticators through NewTunnelPassword and the round trip; "
                "every attribute length 0..300 and genuine encodings with a corrupted embedded length through TunnelPassword.",
        "level_text": "Lean theorems for an arbitrary 16-byte hash: NewTunnelPassword equals the RFC 2868 s3.5 encoding, the result plus a tag byte fits in one attribute, "
                      "TunnelPassword returns the same password and salt, refusals are exactly the out-of-domain inputs, and the decoder's accept set is exact.",
        "level_note": "Trusted: Lean kernel; RV.Model.Password as mirror of attribute.go (validated by correspondence); Lean MD5.",
        "trusted": ["Lean MD5 (RFC 1321)"],
        "assumptions": [],
    },
    "C10": {
        "level": "proof",
        "rule": "All uint16 (every 7th in quick), boundary + random uint32/uint64, strings/octets 0..300 bytes, IPs of length 0..20 incl. v4-mapped and near-mapped, "
                "interface-ids 0..16 bytes, times from year 1 to beyond 2106 incl. negative Unix times and nanoseconds, vendor ids x payloads 0..260, TLV values 0..260, "
                "every prefix length 0..128 x addresses x contiguous / non-contiguous / wrong-size masks, and every decoder on every length 0..300 (+ all 1-2 byte strings in thorough).",
        "level_text": "Lean theorems per codec: decode(encode v) = canonical v, the encoder errs iff the value is unrepresentable, emitted values are <= 253 bytes (255 for TLV), "
                      "and each decoder's accept set is exactly its wire format; tied to attribute.go by a differential run whose oracle is written independently of the model's encoders.",
        "level_note": "Trusted: Lean kernel; RV.Model.Codec as mirror of attribute.go incl. net.IP.To4/To16, IPMask.Size, CIDRMask, time.Unix as modelled (validated by correspondence).",
        "trusted": ["models of net.IP.To4/To16, net.IPMask.Size, net.CIDRMask, time.Time.Unix"],
        "assumptions": ["Go's fixed-width integer arguments are in range by typing (the harness offers only in-range values)"],
    },
}
