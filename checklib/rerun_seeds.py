#!/usr/bin/env python3
"""Re-runs every stored seeded change against the CURRENT checks (quick tier) and writes seeded/MATRIX.md.
For each seed the checks named in its meta.json `detected_by` are run (try_seed.sh: scratch copies only)."""
import json, os, re, subprocess, sys
ROOT = os.path.dirname(os.path.dirname(os.path.abspath(__file__)))
rows = []
only = sys.argv[1:]
for name in sorted(os.listdir(os.path.join(ROOT, "seeded"))):
    d = os.path.join(ROOT, "seeded", name)
    if not os.path.isdir(d) or (only and name not in only):
        continue
    meta = json.load(open(os.path.join(d, "meta.json")))
    checks = list(meta.get("detected_by", {}).keys()) or [name.split("-")[0]]
    res = {}
    for pid in checks:
        r = subprocess.run([os.path.join(ROOT, "checklib", "try_seed.sh"), os.path.join(d, "patch.diff"), pid],
                           stdout=subprocess.PIPE, stderr=subprocess.STDOUT, text=True)
        viol = [l for l in r.stdout.splitlines() if l.startswith("VIOLATION")]
        summ = [l for l in r.stdout.splitlines() if re.match(r"C\d\d (quick|thorough):", l)]
        res[pid] = {"reported": bool(viol), "violation_lines": viol[:2], "summary": summ[-1:]}
    meta["detected_by_current_checks"] = res
    json.dump(meta, open(os.path.join(d, "meta.json"), "w"), indent=1)
    caught = [p for p, v in res.items() if v["reported"]]
    rows.append((name, meta.get("summary", "")[:110], ", ".join(caught) or "MISSED", ", ".join(p for p in res if p not in caught)))
    print(name, "->", caught or "MISSED", flush=True)
# the matrix is rebuilt from every seed's stored result (so that partial / parallel re-runs compose)
rows = []
for name in sorted(os.listdir(os.path.join(ROOT, "seeded"))):
    d = os.path.join(ROOT, "seeded", name)
    if not os.path.isdir(d):
        continue
    meta = json.load(open(os.path.join(d, "meta.json")))
    res = meta.get("detected_by_current_checks") or meta.get("detected_by", {})
    caught = [p for p, v in res.items() if v["reported"]]
    rows.append((name, meta.get("summary", "")[:110].replace("\n", " "), ", ".join(caught) or "MISSED", ", ".join(p for p in res if p not in caught)))
with open(os.path.join(ROOT, "seeded", "MATRIX.md"), "w") as f:
    f.write("# Seeded changes vs. current checks (quick tier; regenerate with checklib/rerun_seeds.py)\n\n| seed | change | reported by | run but silent |\n|---|---|---|---|\n")
    for r in rows:
        f.write("| %s | %s | %s | %s |\n" % r)
