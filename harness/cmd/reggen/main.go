// reggen — regenerates, from /repo's working tree, everything the harness needs in order to drive
// EVERY generated helper function:
//
//  1. synthetic helper packages: a fixed family of dictionaries covering every attribute kind x flag
//     combination the generator supports (top-level and vendor) is passed through the working tree's
//     dictionary parser and dictionarygen.Generator and written to harness/synth/<name>/generated.go,
//     so that the templates AS THEY ARE NOW are compiled and driven even if shipped packages are stale;
//  2. harness/cmd/vh/registry_gen.go: one entry per attribute of every shipped helper package and of
//     the synthetic ones, with typed closures over a uniform value representation.  Attribute
//     descriptors (kind, flags, size, numbers) come from the DICTIONARY (parsed with the repo's own
//     parser); the Go identifiers are recovered from the generated file with go/ast.
package main

import (
	"bytes"
	"fmt"
	"go/ast"
	"go/parser"
	"go/token"
	"os"
	"path/filepath"
	"regexp"
	"sort"
	"strconv"
	"strings"

	"layeh.com/radius/dictionary"
	"layeh.com/radius/dictionarygen"
)

var repo = func() string {
	if r := os.Getenv("VERIF_REPO"); r != "" {
		return r
	}
	return "/repo"
}()

type pkgInfo struct {
	alias      string // import alias
	importPath string
	dir        string
	dictFile   string
	ignore     map[string]bool
	synthetic  bool
}

type entry struct {
	pkg        *pkgInfo
	ident      string
	dictName   string
	typ        int
	vendorID   int
	vendorType int
	vendorName string
	kind       string // string octets concat ipaddr ipv6addr ipv6prefix ifid date integer integer64 short byte
	hasTag     bool
	encrypt    int
	size       int
	values     []*dictionary.Value
	consts     []string // X_Value_* identifiers present in the generated file
	sigs       map[string]sigInfo
}

// sigInfo: the call plumbing of one generated function, read off its ACTUAL signature (whether the
// signature is the right one for the attribute's flags is C17's question, not the registry's)
type sigInfo struct {
	exists bool
	nPkt   int  // *radius.Packet parameters (1: p, 2: p, q)
	tagIn  bool // has a `tag byte` parameter
	tagOut bool // first result is the tag / tags
}

func sigOf(fd *ast.FuncDecl) sigInfo {
	si := sigInfo{exists: true}
	for _, f := range fd.Type.Params.List {
		if st, ok := f.Type.(*ast.StarExpr); ok {
			if sel, ok := st.X.(*ast.SelectorExpr); ok && sel.Sel.Name == "Packet" {
				si.nPkt += len(f.Names)
				continue
			}
		}
		for _, n := range f.Names {
			if n.Name == "tag" {
				si.tagIn = true
			}
		}
	}
	if fd.Type.Results != nil && len(fd.Type.Results.List) > 0 {
		for _, n := range fd.Type.Results.List[0].Names {
			if n.Name == "tag" || n.Name == "tags" {
				si.tagOut = true
			}
		}
	}
	return si
}

func must(err error) {
	if err != nil {
		fmt.Fprintln(os.Stderr, "reggen:", err)
		os.Exit(1)
	}
}

var goGenRe = regexp.MustCompile(`(?m)^//go:generate\s+go run\s+\S*radius-dict-gen/main\.go\s+(.*)$`)

func shippedPackages() []*pkgInfo {
	var out []*pkgInfo
	var files []string
	for _, pat := range []string{"*/generate.go", "vendors/*/generate.go", "internal/*/generate.go"} {
		m, _ := filepath.Glob(filepath.Join(repo, pat))
		files = append(files, m...)
	}
	sort.Strings(files)
	for _, f := range files {
		src, err := os.ReadFile(f)
		must(err)
		m := goGenRe.FindSubmatch(src)
		if m == nil {
			continue
		}
		args := strings.Fields(string(m[1]))
		p := &pkgInfo{dir: filepath.Dir(f), ignore: map[string]bool{}}
		for i := 0; i < len(args); i++ {
			switch args[i] {
			case "-package", "-output", "-ref":
				i++
			case "-ignore":
				i++
				p.ignore[args[i]] = true
			default:
				p.dictFile = args[i]
			}
		}
		rel, _ := filepath.Rel(repo, p.dir)
		p.importPath = "layeh.com/radius/" + filepath.ToSlash(rel)
		p.alias = "p_" + strings.NewReplacer("/", "_", "-", "_").Replace(filepath.ToSlash(rel))
		out = append(out, p)
	}
	return out
}

// ---- synthetic dictionaries ----

type synthDict struct {
	name string
	text string
	// optional: a dictionary at the edge of what a generator can support.  If the working tree's generator refuses
	// it, the package is left out; if it accepts it, its helpers are held to the same laws as all others.
	optional bool
}

func synthDicts() []synthDict {
	type kf struct{ typ, flags string }
	// every kind x flag combination the generator accepts (dictionarygen/generator.go: validity rules):
	//   string / octets / octets[n]: has_tag? x encrypt in {-,1,2}; concat alone
	//   integer: has_tag | encrypt=2 | plain;  short, integer64: encrypt=2 | plain
	//   ipaddr, ipv6addr: encrypt=2 | plain;  ipv6prefix, ifid, date, byte: plain
	var top []kf
	for _, typ := range []string{"string", "octets", "octets[6]"} {
		for _, tag := range []string{"", "has_tag"} {
			for _, enc := range []string{"", "encrypt=1", "encrypt=2"} {
				fl := tag
				if enc != "" {
					if fl != "" {
						fl += ","
					}
					fl += enc
				}
				top = append(top, kf{typ, fl})
			}
		}
	}
	top = append(top, kf{"octets", "concat"}, kf{"string", "concat"},
		kf{"ipaddr", ""}, kf{"ipaddr", "encrypt=2"}, kf{"ipv6addr", ""}, kf{"ipv6addr", "encrypt=2"},
		kf{"ipv6prefix", ""}, kf{"ifid", ""}, kf{"date", ""},
		kf{"integer", ""}, kf{"integer", "has_tag"}, kf{"integer", "encrypt=2"},
		kf{"integer64", ""}, kf{"integer64", "encrypt=2"}, kf{"short", ""}, kf{"short", "encrypt=2"}, kf{"byte", ""})
	var ds []synthDict
	for variant := 0; variant < 2; variant++ {
		var b strings.Builder
		// top-level attributes; numbers differ per variant (variant 1 uses high numbers and 26-adjacent ones)
		base := 100
		if variant == 1 {
			base = 200
		}
		for i, k := range top {
			fmt.Fprintf(&b, "ATTRIBUTE\tSyn%d-T%d-%s\t%d\t%s\t%s\n", variant, i, strings.NewReplacer("[", "", "]", "").Replace(k.typ), base+i, k.typ, k.flags)
		}
		for i, k := range top {
			name := fmt.Sprintf("Syn%d-T%d-%s", variant, i, k.typ)
			if k.typ == "integer" && k.flags == "" {
				fmt.Fprintf(&b, "VALUE\t%s\tAlpha\t1\nVALUE\t%s\tBeta-Two\t2\nVALUE\t%s\tBig\t0xffffffff\nVALUE\t%s\tBeta-Again\t2\n", name, name, name, name)
			}
			if k.typ == "short" && k.flags == "" {
				fmt.Fprintf(&b, "VALUE\t%s\tLow\t0\nVALUE\t%s\tHigh\t65535\n", name, name)
			}
		}
		// two vendors with the non-concat kinds
		for v := 0; v < 2; v++ {
			vid := 40000 + variant*10 + v
			if variant == 1 && v == 1 {
				vid = 16777215
			}
			fmt.Fprintf(&b, "VENDOR\tSynV%d%d\t%d\nBEGIN-VENDOR\tSynV%d%d\n", variant, v, vid, variant, v)
			n := 1
			for i, k := range top {
				if strings.Contains(k.flags, "concat") {
					continue
				}
				if v == 1 && i%2 == 0 {
					continue
				}
				num := n
				if v == 1 {
					num = 255 - n
				}
				fmt.Fprintf(&b, "ATTRIBUTE\tSynV%d%d-A%d-%s\t%d\t%s\t%s\n", variant, v, i, strings.NewReplacer("[", "", "]", "").Replace(k.typ), num, k.typ, k.flags)
				n++
			}
			fmt.Fprintf(&b, "END-VENDOR\tSynV%d%d\n", variant, v)
		}
		ds = append(ds, synthDict{name: fmt.Sprintf("s%d", variant), text: b.String()})
	}
	// numbers at and beyond the ends of the one-octet ranges: the Type of a top-level attribute, the vendor type of
	// a vendor attribute, the largest Vendor-Id (one dictionary each, so that refusing one does not hide the others;
	// Vendor-Id 0 is not probed: the descriptors of the line protocol use 0 for "no vendor")
	ds = append(ds,
		synthDict{name: "e0", text: "ATTRIBUTE\tSynE0-Zero\t0\tstring\nATTRIBUTE\tSynE0-Last\t255\tinteger\n", optional: true},
		synthDict{name: "e1", text: "ATTRIBUTE\tSynE1-Beyond\t256\tstring\n", optional: true},
		synthDict{name: "e2", text: "ATTRIBUTE\tSynE2-Far\t300\tinteger\nATTRIBUTE\tSynE2-Text\t65536\tstring\n", optional: true},
		synthDict{name: "e3", text: "VENDOR\tSynE3V\t4294967295\nBEGIN-VENDOR\tSynE3V\nATTRIBUTE\tSynE3-Edge\t255\tstring\nATTRIBUTE\tSynE3-Zero\t0\toctets\nEND-VENDOR\tSynE3V\n", optional: true},
	)
	return ds
}

type memFile struct {
	*bytes.Reader
	name string
}

func (m *memFile) Close() error { return nil }
func (m *memFile) Name() string { return m.name }

func genSynth(harnessDir string) []*pkgInfo {
	root := filepath.Join(harnessDir, "synth")
	os.RemoveAll(root)
	var out []*pkgInfo
	for _, d := range synthDicts() {
		dir := filepath.Join(root, d.name)
		must(os.MkdirAll(dir, 0o755))
		dictFile := filepath.Join(dir, "dictionary."+d.name)
		must(os.WriteFile(dictFile, []byte(d.text), 0o644))
		p := dictionary.Parser{Opener: &dictionary.FileSystemOpener{}, IgnoreIdenticalAttributes: true}
		dict, err := p.ParseFile(dictFile)
		if err != nil {
			if d.optional {
				os.RemoveAll(dir)
				continue
			}
			must(fmt.Errorf("synthetic dictionary %s does not parse with the working tree's parser: %v", d.name, err))
		}
		g := dictionarygen.Generator{Package: d.name}
		src, err := g.Generate(dict)
		if err != nil {
			if d.optional {
				os.RemoveAll(dir)
				continue
			}
			must(fmt.Errorf("the working tree's generator refuses synthetic dictionary %s: %v", d.name, err))
		}
		must(os.WriteFile(filepath.Join(dir, "generated.go"), src, 0o644))
		out = append(out, &pkgInfo{alias: "syn_" + d.name, importPath: "layeh.com/radius/verifharness/synth/" + d.name,
			dir: dir, dictFile: "dictionary." + d.name, ignore: map[string]bool{}, synthetic: true})
	}
	return out
}

// ---- analysis of one package ----

func kindOf(a *dictionary.Attribute) string {
	switch a.Type {
	case dictionary.AttributeString:
		if a.FlagConcat.Valid && a.FlagConcat.Bool {
			return "concat"
		}
		return "string"
	case dictionary.AttributeOctets:
		if a.FlagConcat.Valid && a.FlagConcat.Bool {
			return "concat"
		}
		return "octets"
	case dictionary.AttributeIPAddr:
		return "ipaddr"
	case dictionary.AttributeIPv6Addr:
		return "ipv6addr"
	case dictionary.AttributeIPv6Prefix:
		return "ipv6prefix"
	case dictionary.AttributeIFID:
		return "ifid"
	case dictionary.AttributeDate:
		return "date"
	case dictionary.AttributeInteger:
		return "integer"
	case dictionary.AttributeInteger64:
		return "integer64"
	case dictionary.AttributeShort:
		return "short"
	case dictionary.AttributeByte:
		return "byte"
	}
	return ""
}

func analyse(p *pkgInfo) []*entry {
	parser_ := dictionary.Parser{Opener: &dictionary.FileSystemOpener{Root: p.dir}, IgnoreIdenticalAttributes: true}
	dict, err := parser_.ParseFile(filepath.Join(p.dir, p.dictFile))
	must(err)
	fset := token.NewFileSet()
	f, err := parser.ParseFile(fset, filepath.Join(p.dir, "generated.go"), nil, 0)
	must(err)

	typeConst := map[int][]string{} // N -> X… (from X_Type)
	vendorID := map[string]int{}  // V -> id (from _V_VendorID)
	valueConsts := map[string][]string{}
	funcs := map[string]*ast.FuncDecl{}
	for _, d := range f.Decls {
		switch d := d.(type) {
		case *ast.GenDecl:
			if d.Tok != token.CONST {
				continue
			}
			for _, s := range d.Specs {
				vs := s.(*ast.ValueSpec)
				for i, n := range vs.Names {
					if i >= len(vs.Values) {
						continue
					}
					lit, ok := vs.Values[i].(*ast.BasicLit)
					if !ok {
						continue
					}
					v, err := strconv.ParseUint(lit.Value, 0, 64)
					if err != nil {
						continue
					}
					switch {
					case strings.HasSuffix(n.Name, "_Type"):
						typeConst[int(v)] = append(typeConst[int(v)], strings.TrimSuffix(n.Name, "_Type"))
					case strings.HasPrefix(n.Name, "_") && strings.HasSuffix(n.Name, "_VendorID"):
						vendorID[strings.TrimSuffix(strings.TrimPrefix(n.Name, "_"), "_VendorID")] = int(v)
					case strings.Contains(n.Name, "_Value_"):
						x := n.Name[:strings.Index(n.Name, "_Value_")]
						valueConsts[x] = append(valueConsts[x], n.Name)
					}
				}
			}
		case *ast.FuncDecl:
			if d.Recv == nil {
				funcs[d.Name.Name] = d
			}
		}
	}
	// vendor attribute identifiers: X_Set (or X_Add) calls _V_SetVendor(p, N, a)
	type vkey struct {
		vendor string
		n      int
	}
	vendorAttr := map[vkey][]string{}
	// any of X_Set → _V_SetVendor(p, N, a), X_Add → _V_AddVendor(p, N, a), X_Del → _V_DelVendor(p, N),
	// X_Lookup → _V_LookupVendor(p, N) identifies X as the helper set of vendor attribute N (a template slip in
	// one of them must reach the checks as behaviour, not stop the registry)
	for _, pair := range [][2]string{{"_Set", "_SetVendor"}, {"_Add", "_AddVendor"}, {"_Del", "_DelVendor"}, {"_Lookup", "_LookupVendor"}} {
		for name, fd := range funcs {
			if !strings.HasSuffix(name, pair[0]) || fd.Body == nil {
				continue
			}
			name := name
			ast.Inspect(fd.Body, func(n ast.Node) bool {
				c, ok := n.(*ast.CallExpr)
				if !ok {
					return true
				}
				id, ok := c.Fun.(*ast.Ident)
				if !ok || !strings.HasPrefix(id.Name, "_") || !strings.HasSuffix(id.Name, pair[1]) || len(c.Args) < 2 {
					return true
				}
				lit, ok := c.Args[1].(*ast.BasicLit)
				if !ok {
					return true
				}
				v, _ := strconv.Atoi(lit.Value)
				k := vkey{strings.TrimSuffix(strings.TrimPrefix(id.Name, "_"), pair[1]), v}
				x := strings.TrimSuffix(name, pair[0])
				for _, have := range vendorAttr[k] {
					if have == x {
						return true
					}
				}
				vendorAttr[k] = append(vendorAttr[k], x)
				return true
			})
		}
	}
	vendorIdentByID := map[int]string{}
	for v, id := range vendorID {
		vendorIdentByID[id] = v
	}

	var out []*entry
	mk := func(a *dictionary.Attribute, vendor *dictionary.Vendor, values []*dictionary.Value) {
		if p.ignore[a.Name] {
			return
		}
		k := kindOf(a)
		if k == "" || len(a.OID) != 1 {
			return
		}
		e := &entry{pkg: p, dictName: a.Name, kind: k, size: -1}
		e.hasTag = a.HasTag()
		if a.FlagEncrypt.Valid {
			e.encrypt = a.FlagEncrypt.Int
		}
		if a.Size.Valid {
			e.size = a.Size.Int
		}
		if vendor == nil {
			e.typ = a.OID[0]
			e.ident = pickIdent(typeConst[a.OID[0]], a.Name)
		} else {
			e.typ = 26
			e.vendorID = vendor.Number
			e.vendorType = a.OID[0]
			e.vendorName = vendorIdentByID[vendor.Number]
			e.ident = pickIdent(vendorAttr[vkey{e.vendorName, a.OID[0]}], a.Name)
		}
		if e.ident == "" {
			must(fmt.Errorf("%s: no generated identifier found for dictionary attribute %s (%v)", p.importPath, a.Name, a.OID))
		}
		for _, v := range values {
			if v.Attribute == a.Name {
				e.values = append(e.values, v)
			}
		}
		e.consts = valueConsts[e.ident]
		sort.Strings(e.consts)
		e.sigs = map[string]sigInfo{}
		for _, suf := range []string{"Add", "AddString", "Set", "SetString", "Get", "GetString", "Gets", "GetStrings", "Lookup", "LookupString", "Del"} {
			if fd, ok := funcs[e.ident+"_"+suf]; ok {
				e.sigs[suf] = sigOf(fd)
			}
		}
		out = append(out, e)
	}
	for _, a := range dict.Attributes {
		mk(a, nil, dict.Values)
	}
	for _, v := range dict.Vendors {
		for _, a := range v.Attributes {
			mk(a, v, v.Values)
		}
	}
	return out
}

// pickIdent chooses, among the generated identifiers that carry an attribute number, the one that
// belongs to the dictionary name (several attributes may share a number): letters and digits of the
// name, case-insensitively, must equal the identifier.  A single candidate is taken as it is.
func pickIdent(cands []string, dictName string) string {
	if len(cands) == 1 {
		return cands[0]
	}
	norm := func(s string) string {
		var b strings.Builder
		for _, r := range strings.ToLower(strings.ReplaceAll(s, "+", "plus")) {
			if (r >= 'a' && r <= 'z') || (r >= '0' && r <= '9') {
				b.WriteRune(r)
			}
		}
		return b.String()
	}
	sort.Strings(cands)
	for _, c := range cands {
		if norm(c) == norm(dictName) {
			return c
		}
	}
	return ""
}

// ---- emission ----

func goValType(e *entry) (field string, goType string) {
	switch e.kind {
	case "string", "octets", "concat":
		return "B", "[]byte"
	case "ipaddr", "ipv6addr":
		return "B", "net.IP"
	case "ifid":
		return "B", "net.HardwareAddr"
	case "ipv6prefix":
		return "Net", "*net.IPNet"
	case "date":
		return "T", "time.Time"
	case "byte":
		return "N", "byte"
	default:
		return "N", e.pkg.alias + "." + e.ident
	}
}

func emit(b *strings.Builder, e *entry) {
	q := e.pkg.alias + "." + e.ident
	field, typ := goValType(e)
	conv := func(expr string) string { // gval -> typed
		switch field {
		case "B":
			return typ + "(" + expr + ".B)"
		case "Net":
			return expr + ".Net"
		case "T":
			return expr + ".T"
		default:
			return typ + "(" + expr + ".N)"
		}
	}
	back := func(expr string) string { // typed -> gval
		switch field {
		case "B":
			return "gval{B: []byte(" + expr + ")}"
		case "Net":
			return "gval{Net: " + expr + "}"
		case "T":
			return "gval{T: " + expr + "}"
		default:
			return "gval{N: uint64(" + expr + ")}"
		}
	}
	tagArg := func(suf string) string {
		if e.sigs[suf].tagIn {
			return "tag, "
		}
		return ""
	}
	tagRet := func(suf, name string) string {
		if e.sigs[suf].tagOut {
			return name + ", "
		}
		return ""
	}
	pq := func(suf string) string {
		if e.sigs[suf].nPkt >= 2 {
			return "p, q"
		}
		return "p"
	}
	fmt.Fprintf(b, "\t{Pkg: %q, Ident: %q, DictName: %q, Typ: %d, VendorID: %d, VendorType: %d, Kind: %q, HasTag: %v, Encrypt: %d, Size: %d, Synthetic: %v,\n",
		e.pkg.importPath, e.ident, e.dictName, e.typ, e.vendorID, e.vendorType, e.kind, e.hasTag, e.encrypt, e.size, e.pkg.synthetic)
	if e.sigs["Add"].exists {
		fmt.Fprintf(b, "\t\tAdd: func(p *radius.Packet, tag byte, v gval) error { return %s_Add(p, %s%s) },\n", q, tagArg("Add"), conv("v"))
	}
	if e.sigs["Gets"].exists {
		fmt.Fprintf(b, "\t\tGets: func(p, q *radius.Packet) (tags []byte, vs []gval, err error) { %sxs, err := %s_Gets(%s); for _, x := range xs { vs = append(vs, %s) }; return }, \n", tagRet("Gets", "tags"), q, pq("Gets"), back("x"))
	}
	fmt.Fprintf(b, "\t\tSet: func(p *radius.Packet, tag byte, v gval) error { return %s_Set(p, %s%s) },\n", q, tagArg("Set"), conv("v"))
	fmt.Fprintf(b, "\t\tGet: func(p, q *radius.Packet) (tag byte, v gval) { %sx := %s_Get(%s); return tag, %s },\n", tagRet("Get", "tag"), q, pq("Get"), back("x"))
	fmt.Fprintf(b, "\t\tLookup: func(p, q *radius.Packet) (tag byte, v gval, err error) { %sx, err := %s_Lookup(%s); return tag, %s, err },\n", tagRet("Lookup", "tag"), q, pq("Lookup"), back("x"))
	fmt.Fprintf(b, "\t\tDel: func(p *radius.Packet) { %s_Del(p) },\n", q)
	if e.sigs["AddString"].exists {
		fmt.Fprintf(b, "\t\tAddString: func(p *radius.Packet, tag byte, s string) error { return %s_AddString(p, %ss) },\n", q, tagArg("AddString"))
	}
	if e.sigs["GetStrings"].exists {
		fmt.Fprintf(b, "\t\tGetStrings: func(p, q *radius.Packet) (tags []byte, vs []string, err error) { %svs, err = %s_GetStrings(%s); return },\n", tagRet("GetStrings", "tags"), q, pq("GetStrings"))
	}
	if e.sigs["SetString"].exists {
		fmt.Fprintf(b, "\t\tSetString: func(p *radius.Packet, tag byte, s string) error { return %s_SetString(p, %ss) },\n", q, tagArg("SetString"))
	}
	if e.sigs["GetString"].exists {
		fmt.Fprintf(b, "\t\tGetString: func(p, q *radius.Packet) (tag byte, s string) { %ss = %s_GetString(%s); return },\n", tagRet("GetString", "tag"), q, pq("GetString"))
	}
	if e.sigs["LookupString"].exists {
		fmt.Fprintf(b, "\t\tLookupString: func(p, q *radius.Packet) (tag byte, s string, err error) { %ss, err = %s_LookupString(%s); return },\n", tagRet("LookupString", "tag"), q, pq("LookupString"))
	}
	if e.kind == "integer" || e.kind == "integer64" || e.kind == "short" {
		fmt.Fprintf(b, "\t\tStr: func(n uint64) string { return %s(n).String() },\n", q)
		fmt.Fprintf(b, "\t\tStrings: func() map[uint64]string { m := map[uint64]string{}; for k, v := range %s_Strings { m[uint64(k)] = v }; return m },\n", q)
		fmt.Fprintf(b, "\t\tConsts: map[string]uint64{")
		for _, c := range e.consts {
			fmt.Fprintf(b, "%q: uint64(%s.%s), ", c, e.pkg.alias, c)
		}
		fmt.Fprintf(b, "},\n\t\tDictValues: []dictValue{")
		for _, v := range e.values {
			fmt.Fprintf(b, "{%q, %d}, ", v.Name, v.Number)
		}
		fmt.Fprintf(b, "},\n")
	}
	fmt.Fprintf(b, "\t},\n")
}

func main() {
	harnessDir := "."
	if len(os.Args) > 1 {
		harnessDir = os.Args[1]
	}
	harnessDir, _ = filepath.Abs(harnessDir)
	pkgs := shippedPackages()
	pkgs = append(pkgs, genSynth(harnessDir)...)
	var entries []*entry
	usesNet, usesTime := false, false
	for _, p := range pkgs {
		es := analyse(p)
		entries = append(entries, es...)
	}
	var b strings.Builder
	b.WriteString("// Code generated by reggen from /repo's working tree. DO NOT EDIT.\n\npackage main\n\nimport (\n")
	for _, e := range entries {
		switch e.kind {
		case "ipaddr", "ipv6addr", "ifid":
			usesNet = true
		case "date":
			usesTime = true
		}
	}
	_ = usesTime
	if usesNet {
		b.WriteString("\t\"net\"\n")
	}
	b.WriteString("\n\t\"layeh.com/radius\"\n")
	used := map[string]bool{}
	for _, e := range entries {
		used[e.pkg.alias] = true
	}
	for _, p := range pkgs {
		if used[p.alias] {
			fmt.Fprintf(&b, "\t%s %q\n", p.alias, p.importPath)
		} else if !strings.Contains(p.importPath, "verifharness") {
			// a shipped package with no attribute of its own (only VALUE lines for attributes of other
			// packages, rfc3580): linked in for its init()
			fmt.Fprintf(&b, "\t_ %q\n", p.importPath)
		}
	}
	b.WriteString(")\n\nvar registry = []*helperEntry{\n")
	for _, e := range entries {
		emit(&b, e)
	}
	b.WriteString("}\n")
	must(os.WriteFile(filepath.Join(harnessDir, "cmd", "vh", "registry_gen.go"), []byte(b.String()), 0o644))
	fmt.Printf("reggen: %d packages, %d attributes\n", len(pkgs), len(entries))
}
