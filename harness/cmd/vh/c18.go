package main

// C18: every checked-in generated helper package, and debug.IncludedDictionary, is what the
// working tree's own generator produces from the dictionary files and go:generate options checked
// in next to it (identical up to formatting, comments and literal spelling).
//
//	regen <package dir relative to the repository root>
//	  => same n=<declarations compared> | <attrs> <values> <vendors> <pkg> <ignore> <refs> | <imports> <dsInventory of the CHECKED-IN file>
//	  => same attrs=<n> values=<n> vendors=<n>                          (debug.IncludedDictionary)
//	  => differs <first differing declaration / dictionary element>
//	  => broken <why>                                                   (no go:generate line, unreadable file, generator error …)

import (
	"bytes"
	"flag"
	"fmt"
	"go/ast"
	"go/constant"
	"go/parser"
	"go/token"
	"io"
	"os"
	"os/exec"
	"path/filepath"
	"reflect"
	"sort"
	"strconv"
	"strings"

	"layeh.com/radius/debug"
	"layeh.com/radius/dictionary"
	"layeh.com/radius/dictionarygen"
)

func init() {
	props["C18"] = &prop{gen: genC18, eval: evalC18}
}

// c18Artefacts: every directory under the repository root holding a generate.go with a go:generate
// line (globbed at run time, so a new package is picked up).
func c18Artefacts(root string) []string {
	var dirs []string
	filepath.Walk(root, func(path string, info os.FileInfo, err error) error {
		if err != nil {
			return nil
		}
		if info.IsDir() && (info.Name() == ".git" || info.Name() == "testdata") {
			return filepath.SkipDir
		}
		if !info.IsDir() && info.Name() == "generate.go" {
			if _, ok := c18GenerateLine(path); ok {
				rel, _ := filepath.Rel(root, filepath.Dir(path))
				dirs = append(dirs, filepath.ToSlash(rel))
			}
		}
		return nil
	})
	sort.Strings(dirs)
	return dirs
}

func c18GenerateLine(file string) ([]string, bool) {
	b, err := os.ReadFile(file)
	if err != nil {
		return nil, false
	}
	for _, l := range strings.Split(string(b), "\n") {
		if strings.HasPrefix(l, "//go:generate ") {
			return strings.Fields(strings.TrimPrefix(l, "//go:generate ")), true
		}
	}
	return nil, false
}

func genC18(g *Gen, tier string, emit func(op string, args ...string)) {
	for _, d := range c18Artefacts(dsRepoRoot()) {
		emit("regen", d)
	}
}

type c18MultiFlag []string

func (m *c18MultiFlag) String() string     { return strings.Join(*m, ",") }
func (m *c18MultiFlag) Set(v string) error { *m = append(*m, v); return nil }

// c18DictGenInvocation parses `go run <…>/radius-dict-gen/main.go <flags> <dictionary>` exactly like
// cmd/radius-dict-gen/main.go does.
func c18DictGenInvocation(fields []string) (opts dsGenOpts, output, dictFile string, err error) {
	i := 0
	for i < len(fields) && !strings.HasSuffix(fields[i], "radius-dict-gen/main.go") {
		i++
	}
	if i == len(fields) {
		return opts, "", "", fmt.Errorf("not a radius-dict-gen invocation")
	}
	fs := flag.NewFlagSet("radius-dict-gen", flag.ContinueOnError)
	fs.SetOutput(io.Discard)
	pkg := fs.String("package", "main", "")
	out := fs.String("output", "-", "")
	var refs, ignored c18MultiFlag
	fs.Var(&refs, "ref", "")
	fs.Var(&ignored, "ignore", "")
	if err := fs.Parse(fields[i+1:]); err != nil {
		return opts, "", "", err
	}
	if fs.NArg() != 1 {
		return opts, "", "", fmt.Errorf("expected one dictionary file")
	}
	opts = dsGenOpts{pkg: *pkg, refs: map[string]string{}}
	seen := map[string]bool{}
	for _, n := range ignored {
		if !seen[n] {
			seen[n] = true
			opts.ignore = append(opts.ignore, n)
		}
	}
	sort.Strings(opts.ignore) // Set.List() of main.go
	for _, r := range refs {
		s := strings.Split(r, string(os.PathListSeparator))
		if len(s) != 2 || s[0] == "" || s[1] == "" {
			return opts, "", "", fmt.Errorf("invalid -ref %q", r)
		}
		if _, dup := opts.refs[s[0]]; dup {
			return opts, "", "", fmt.Errorf("duplicate -ref %q", r)
		}
		opts.refs[s[0]] = s[1]
	}
	return opts, *out, fs.Arg(0), nil
}

func (o dsGenOpts) generator() *dictionarygen.Generator {
	return &dictionarygen.Generator{Package: o.pkg, IgnoredAttributes: o.ignore, ExternalAttributes: o.refs}
}

// ---- AST comparison: comments and positions dropped, literals by constant value ----

func c18SerNode(b *strings.Builder, v reflect.Value) {
	switch v.Kind() {
	case reflect.Interface, reflect.Ptr:
		if v.IsNil() {
			b.WriteString("nil")
			return
		}
		if v.Kind() == reflect.Ptr {
			switch x := v.Interface().(type) {
			case *ast.BasicLit:
				c := constant.MakeFromLiteral(x.Value, x.Kind, 0)
				b.WriteString("lit(" + c.Kind().String() + ":" + c.ExactString() + ")")
				return
			case *ast.CommentGroup, *ast.Object, *ast.Scope:
				return
			}
		}
		c18SerNode(b, v.Elem())
	case reflect.Struct:
		t := v.Type()
		b.WriteString(t.Name() + "{")
		for i := 0; i < v.NumField(); i++ {
			f := t.Field(i)
			if f.Type == reflect.TypeOf(token.Pos(0)) || f.Name == "Doc" || f.Name == "Comment" || f.Name == "Obj" {
				// positions and comments are not content; Lparen/Rparen of GenDecl only say "grouped"
				continue
			}
			b.WriteString(f.Name + "=")
			c18SerNode(b, v.Field(i))
			b.WriteString(";")
		}
		b.WriteString("}")
	case reflect.Slice:
		b.WriteString("[")
		for i := 0; i < v.Len(); i++ {
			c18SerNode(b, v.Index(i))
			b.WriteString(",")
		}
		b.WriteString("]")
	case reflect.String:
		b.WriteString(strconv.Quote(v.String()))
	case reflect.Bool:
		b.WriteString(strconv.FormatBool(v.Bool()))
	case reflect.Int, reflect.Int64, reflect.Int32:
		if tok, ok := v.Interface().(token.Token); ok {
			b.WriteString(tok.String())
		} else {
			b.WriteString(strconv.FormatInt(v.Int(), 10))
		}
	default:
		b.WriteString("?" + v.Kind().String())
	}
}

func c18DeclName(d ast.Decl) string {
	switch d := d.(type) {
	case *ast.FuncDecl:
		if d.Recv != nil && len(d.Recv.List) == 1 {
			if id, ok := d.Recv.List[0].Type.(*ast.Ident); ok {
				return "func:" + id.Name + "." + d.Name.Name
			}
		}
		return "func:" + d.Name.Name
	case *ast.GenDecl:
		if len(d.Specs) > 0 {
			switch s := d.Specs[0].(type) {
			case *ast.ValueSpec:
				return d.Tok.String() + ":" + s.Names[0].Name
			case *ast.TypeSpec:
				return "type:" + s.Name.Name
			}
		}
		return d.Tok.String() + ":()"
	}
	return "?"
}

type c18ParsedFile struct {
	pkg     string
	imports []string
	decls   []ast.Decl
}

func c18ParseForCompare(name string, src []byte) (*c18ParsedFile, error) {
	fset := token.NewFileSet()
	f, err := parser.ParseFile(fset, name, src, 0) // comments are not even parsed
	if err != nil {
		return nil, err
	}
	pf := &c18ParsedFile{pkg: f.Name.Name}
	for _, im := range f.Imports {
		p, _ := strconv.Unquote(im.Path.Value)
		if im.Name != nil {
			p = im.Name.Name + " " + p
		}
		pf.imports = append(pf.imports, p)
	}
	sort.Strings(pf.imports)
	for _, d := range f.Decls {
		if gd, ok := d.(*ast.GenDecl); ok && gd.Tok == token.IMPORT {
			continue
		}
		pf.decls = append(pf.decls, d)
	}
	return pf, nil
}

// c18CompareSources returns ("", n) when the two files have the same package clause, import set and
// declaration sequence; otherwise the name of the first differing declaration.
func c18CompareSources(shipped, regenerated []byte) (string, int) {
	a, err := c18ParseForCompare("generated.go", shipped)
	if err != nil {
		return "checked-in-file-does-not-parse", 0
	}
	b, err := c18ParseForCompare("regenerated.go", regenerated)
	if err != nil {
		return "regenerated-file-does-not-parse", 0
	}
	if a.pkg != b.pkg {
		return "package-clause", 0
	}
	// comments are not part of the comparison - except those the toolchain reads: build constraints, compiler
	// directives, the generated-code marker
	if da, db := c18Directives(shipped), c18Directives(regenerated); da != db {
		return "directive-comments", 0
	}
	if strings.Join(a.imports, "|") != strings.Join(b.imports, "|") {
		return "imports", 0
	}
	for i := 0; i < len(a.decls) || i < len(b.decls); i++ {
		if i >= len(a.decls) {
			return "missing-in-checked-in:" + c18DeclName(b.decls[i]), i
		}
		if i >= len(b.decls) {
			return "extra-in-checked-in:" + c18DeclName(a.decls[i]), i
		}
		var sa, sb strings.Builder
		c18SerNode(&sa, reflect.ValueOf(a.decls[i]))
		c18SerNode(&sb, reflect.ValueOf(b.decls[i]))
		if sa.String() != sb.String() {
			n := c18DeclName(a.decls[i])
			if m := c18DeclName(b.decls[i]); m != n {
				n += "/regenerated:" + m
			}
			return n, i
		}
	}
	return "", len(a.decls)
}

func evalC18(op string, args []string) string {
	if op != "regen" || len(args) != 1 {
		return "BAD-CASE"
	}
	root := dsRepoRoot()
	rel := args[0]
	if strings.Contains(rel, "..") || filepath.IsAbs(rel) {
		return "BAD-CASE"
	}
	dir := filepath.Join(root, filepath.FromSlash(rel))
	fields, ok := c18GenerateLine(filepath.Join(dir, "generate.go"))
	if !ok {
		return "broken no-go:generate-line"
	}
	for _, f := range fields {
		if strings.HasSuffix(f, "generate_main.go") {
			return c18RegenDebug(root, dir, fields)
		}
	}
	opts, output, dictFile, err := c18DictGenInvocation(fields)
	if err != nil {
		return "broken go:generate-line:" + dsErrToken(err)
	}
	p := dictionary.Parser{Opener: &dictionary.FileSystemOpener{Root: dir}, IgnoreIdenticalAttributes: true}
	dict, err := p.ParseFile(dictFile)
	if err != nil {
		return "broken dictionary:" + dsErrToken(err)
	}
	regenerated, err := opts.generator().Generate(dict)
	if err != nil {
		return "differs generator-refuses-the-checked-in-dictionary:" + dsErrToken(err)
	}
	// the tree's own command (cmd/radius-dict-gen, built by ./check next to this binary), run with the
	// arguments of the go:generate line in the package's directory, must write the very same bytes: its
	// flag handling (-package, -ref, -ignore, the dictionary argument) is part of "the repository's own generator"
	if exe, err := os.Executable(); err == nil {
		tool := filepath.Join(filepath.Dir(exe), "radius-dict-gen")
		if _, err := os.Stat(filepath.Join(filepath.Dir(exe), "tools-failed")); err == nil {
			// ./check could not build the tree's own generator commands
			return "differs the-tree's-generator-commands-do-not-build"
		}
		if _, err := os.Stat(tool); err == nil {
			var targs []string
			seen := false
			for _, f := range fields {
				if seen {
					targs = append(targs, f)
				}
				if strings.HasSuffix(f, "radius-dict-gen/main.go") {
					seen = true
				}
			}
			for i := 0; i+1 < len(targs); i++ {
				if targs[i] == "-output" || targs[i] == "--output" {
					targs[i+1] = "-"
				}
			}
			for i := range targs {
				if strings.HasPrefix(targs[i], "-output=") || strings.HasPrefix(targs[i], "--output=") {
					targs[i] = "-output=-"
				}
			}
			cmd := exec.Command(tool, targs...)
			cmd.Dir = dir
			out, err := cmd.Output()
			if err != nil {
				return "differs the-tree's-radius-dict-gen-fails:" + dsErrToken(err)
			}
			if !bytes.Equal(out, regenerated) {
				return "differs the-tree's-radius-dict-gen-writes-something-else-than-the-library-call"
			}
		}
	}
	// "the generator's output" must be ONE text: further runs (fresh Generator values, freshly parsed
	// dictionary) give the same bytes — iteration over a Go map in the generator would show here
	for k := 0; k < 12; k++ {
		d2, err := p.ParseFile(dictFile)
		if err != nil {
			return "broken dictionary:" + dsErrToken(err)
		}
		again, err := opts.generator().Generate(d2)
		if err != nil || !bytes.Equal(again, regenerated) {
			return "differs generator-output-varies-between-runs"
		}
	}
	shipped, err := os.ReadFile(filepath.Join(dir, output))
	if err != nil {
		return "broken " + dsErrToken(err)
	}
	if d, n := c18CompareSources(shipped, regenerated); d != "" {
		return "differs " + d
	} else {
		decls, imports, err := dsInventory(shipped)
		if err != nil {
			return "broken " + dsErrToken(err)
		}
		a, v, vn := dsShowDict(dict)
		pk, ig, rf := opts.show()
		return fmt.Sprintf("same n=%d | %s %s %s %s %s %s | %s %s", n, a, v, vn, pk, ig, rf, dsJoin(imports), dsJoin(decls))
	}
}

// c18RegenDebug re-runs debug/generate_main.go's Parse+Merge pipeline.  The go:generate line names
// /usr/share/freeradius/dictionary.rfcNNNN; those files are not part of the repository, the
// dictionary files of the same names checked in under <root>/rfcNNNN/ are used instead.
func c18RegenDebug(root, dir string, fields []string) string {
	var files []string
	for i, f := range fields {
		if strings.HasSuffix(f, "generate_main.go") {
			fs := flag.NewFlagSet("generate_main", flag.ContinueOnError)
			fs.SetOutput(io.Discard)
			fs.String("o", "-", "")
			if err := fs.Parse(fields[i+1:]); err != nil {
				return "broken go:generate-line:" + dsErrToken(err)
			}
			files = fs.Args()
		}
	}
	if len(files) == 0 {
		return "broken go:generate-line:no-dictionaries"
	}
	parser := &dictionary.Parser{Opener: &dictionary.FileSystemOpener{}}
	dict := &dictionary.Dictionary{}
	for _, f := range files {
		base := filepath.Base(f) // dictionary.rfc2865
		sub := strings.TrimPrefix(base, "dictionary.")
		local := filepath.Join(root, sub, base)
		if _, err := os.Stat(local); err != nil {
			return "broken no-checked-in-substitute-for:" + f
		}
		next, err := parser.ParseFile(local)
		if err != nil {
			return "differs parse:" + base + ":" + dsErrToken(err)
		}
		dict, err = dictionary.Merge(dict, next)
		if err != nil {
			return "differs merge:" + base + ":" + dsErrToken(err)
		}
	}
	if r := c18CompareDicts(debug.IncludedDictionary, dict); !strings.HasPrefix(r, "same") {
		return r
	}
	// the tree's own generate_main.go (built by ./check next to this binary), run on the same files, must
	// write a file that declares the same IncludedDictionary as the checked-in debug/generated.go
	if exe, err := os.Executable(); err == nil {
		tool := filepath.Join(filepath.Dir(exe), "debug-generate")
		if _, err := os.Stat(filepath.Join(filepath.Dir(exe), "tools-failed")); err == nil {
			return "differs the-tree's-generator-commands-do-not-build"
		}
		if _, err := os.Stat(tool); err == nil {
			var local []string
			for _, f := range files {
				base := filepath.Base(f)
				local = append(local, filepath.Join(root, strings.TrimPrefix(base, "dictionary."), base))
			}
			cmd := exec.Command(tool, append([]string{"-o", "-"}, local...)...)
			cmd.Dir = dir
			out, err := cmd.Output()
			if err != nil {
				return "differs the-tree's-generate_main.go-fails:" + dsErrToken(err)
			}
			shipped, err := os.ReadFile(filepath.Join(dir, "generated.go"))
			if err != nil {
				return "broken " + dsErrToken(err)
			}
			if d, _ := c18CompareSources(shipped, out); d != "" {
				return "differs generate_main.go-output:" + d
			}
		}
	}
	return c18CompareDicts(debug.IncludedDictionary, dict)
}

// c18CompareDicts: deep structural comparison, element by element (nil and empty lists identified).
func c18CompareDicts(shipped, regen *dictionary.Dictionary) string {
	if shipped == nil {
		return "differs IncludedDictionary-is-nil"
	}
	cmp := func(what string, a, b []string) string {
		for i := 0; i < len(a) || i < len(b); i++ {
			switch {
			case i >= len(a):
				return "differs " + what + "[" + strconv.Itoa(i) + "]:missing-in-checked-in:" + b[i]
			case i >= len(b):
				return "differs " + what + "[" + strconv.Itoa(i) + "]:extra-in-checked-in:" + a[i]
			case a[i] != b[i]:
				return "differs " + what + "[" + strconv.Itoa(i) + "]:checked-in=" + a[i] + ":regenerated=" + b[i]
			}
		}
		return ""
	}
	sa, sv, sn := dsShowDict(shipped)
	ra, rv, rn := dsShowDict(regen)
	if d := cmp("vendor", dsSplit(sn), dsSplit(rn)); d != "" {
		return d
	}
	if d := cmp("attribute", dsSplit(sa), dsSplit(ra)); d != "" {
		return d
	}
	if d := cmp("value", dsSplit(sv), dsSplit(rv)); d != "" {
		return d
	}
	na, nv := len(dsSplit(sa)), len(dsSplit(sv))
	return fmt.Sprintf("same attrs=%d values=%d vendors=%d", na, nv, len(shipped.Vendors))
}

// c18Directives: the comment lines a Go toolchain acts on, in order
func c18Directives(src []byte) string {
	var out []string
	for _, l := range strings.Split(string(src), "\n") {
		t := strings.TrimSpace(l)
		if strings.HasPrefix(t, "//go:") || strings.HasPrefix(t, "// +build") || strings.HasPrefix(t, "//+build") ||
			strings.HasPrefix(t, "//line ") || strings.HasPrefix(t, "//export ") || strings.HasPrefix(t, "// Code generated") ||
			strings.HasPrefix(t, "// Deprecated:") || strings.HasPrefix(t, "#cgo") {
			out = append(out, t)
		}
	}
	return strings.Join(out, "\n")
}
