//go:build c19nolink

package main

const c19LinkAvailable = false

func rfc2759ParityPadDESKey(in []byte) []byte { return nil }
