package main

import (
	"math"
	"net"
	"strconv"
	"time"

	"layeh.com/radius"
)

func init() {
	props["C10"] = &prop{gen: genC10, eval: evalC10, pure: true, par: func(string) bool { return true }}
}

func u64(s string) uint64 {
	v, err := strconv.ParseUint(s, 10, 64)
	if err != nil {
		panic(badCase("bad uint in case line: " + s))
	}
	return v
}

// freshEnc: an encoder must hand out a fresh slice every time: scribbling over one result must not change
// what the next call with the same argument returns (no shared tables / caches behind the encoders)
func freshEncE(enc func() (radius.Attribute, error)) bool {
	return freshEnc(func() []byte {
		a, err := enc()
		if err != nil {
			return nil
		}
		return a
	})
}

func freshEnc(enc func() []byte) bool {
	a := enc()
	want := append([]byte{}, a...)
	for i := range a {
		a[i] ^= 0xff
	}
	b := enc()
	ok := string(b) == string(want)
	for i := range a {
		a[i] ^= 0xff
	}
	return ok
}

func evalC10(op string, args []string) string {
	r := evalC10Inner(op, args)
	return r
}

func evalC10Inner(op string, args []string) string {
	switch op {
	case "short":
		v := u64(args[0])
		if v > math.MaxUint16 {
			return "BAD-CASE"
		}
		if !freshEnc(func() []byte { return radius.NewShort(uint16(v)) }) {
			return "encoder-result-shared"
		}
		a := radius.NewShort(uint16(v))
		d, err := radius.Short(a)
		if err != nil {
			return "ok " + hx(a) + " err"
		}
		return "ok " + hx(a) + " ok " + strconv.FormatUint(uint64(d), 10)
	case "integer":
		v := u64(args[0])
		if v > math.MaxUint32 {
			return "BAD-CASE"
		}
		if !freshEnc(func() []byte { return radius.NewInteger(uint32(v)) }) {
			return "encoder-result-shared"
		}
		a := radius.NewInteger(uint32(v))
		d, err := radius.Integer(a)
		if err != nil {
			return "ok " + hx(a) + " err"
		}
		return "ok " + hx(a) + " ok " + strconv.FormatUint(uint64(d), 10)
	case "integer64":
		v := u64(args[0])
		if !freshEnc(func() []byte { return radius.NewInteger64(v) }) {
			return "encoder-result-shared"
		}
		a := radius.NewInteger64(v)
		d, err := radius.Integer64(a)
		if err != nil {
			return "ok " + hx(a) + " err"
		}
		return "ok " + hx(a) + " ok " + strconv.FormatUint(d, 10)
	case "string":
		if !freshEncE(func() (radius.Attribute, error) { return radius.NewString(string(unhx(args[0]))) }) {
			return "encoder-result-shared"
		}
		a, err := radius.NewString(string(unhx(args[0])))
		if err != nil {
			return "err"
		}
		return "ok " + hx(a) + " ok " + hx([]byte(radius.String(a)))
	case "bytes":
		if !freshEncE(func() (radius.Attribute, error) { return radius.NewBytes(unhx(args[0])) }) {
			return "encoder-result-shared"
		}
		a, err := radius.NewBytes(unhx(args[0]))
		if err != nil {
			return "err"
		}
		return "ok " + hx(a) + " ok " + hx(radius.Bytes(a))
	case "ipaddr":
		if !freshEncE(func() (radius.Attribute, error) { return radius.NewIPAddr(net.IP(unhx(args[0]))) }) {
			return "encoder-result-shared"
		}
		a, err := radius.NewIPAddr(net.IP(unhx(args[0])))
		if err != nil {
			return "err"
		}
		d, err := radius.IPAddr(a)
		if err != nil {
			return "ok " + hx(a) + " err"
		}
		return "ok " + hx(a) + " ok " + hx(d)
	case "ipv6addr":
		if !freshEncE(func() (radius.Attribute, error) { return radius.NewIPv6Addr(net.IP(unhx(args[0]))) }) {
			return "encoder-result-shared"
		}
		a, err := radius.NewIPv6Addr(net.IP(unhx(args[0])))
		if err != nil {
			return "err"
		}
		d, err := radius.IPv6Addr(a)
		if err != nil {
			return "ok " + hx(a) + " err"
		}
		return "ok " + hx(a) + " ok " + hx(d)
	case "ifid":
		if !freshEncE(func() (radius.Attribute, error) { return radius.NewIFID(net.HardwareAddr(unhx(args[0]))) }) {
			return "encoder-result-shared"
		}
		a, err := radius.NewIFID(net.HardwareAddr(unhx(args[0])))
		if err != nil {
			return "err"
		}
		d, err := radius.IFID(a)
		if err != nil {
			return "ok " + hx(a) + " err"
		}
		return "ok " + hx(a) + " ok " + hx(d)
	case "date":
		sec, err := strconv.ParseInt(args[0], 10, 64)
		if err != nil {
			panic(badCase("bad int in case line"))
		}
		ns := atoi(args[1])
		if ns < 0 || ns > 999999999 {
			return "BAD-CASE"
		}
		if !freshEncE(func() (radius.Attribute, error) { return radius.NewDate(time.Unix(sec, int64(ns))) }) {
			return "encoder-result-shared"
		}
		a, err := radius.NewDate(time.Unix(sec, int64(ns)))
		if err != nil {
			return "err"
		}
		d, err := radius.Date(a)
		if err != nil {
			return "ok " + hx(a) + " err"
		}
		return "ok " + hx(a) + " ok " + strconv.FormatInt(d.Unix(), 10)
	case "vsa":
		id := u64(args[0])
		if id > math.MaxUint32 {
			return "BAD-CASE"
		}
		if !freshEncE(func() (radius.Attribute, error) {
			return radius.NewVendorSpecific(uint32(id), radius.Attribute(unhx(args[1])))
		}) {
			return "encoder-result-shared"
		}
		a, err := radius.NewVendorSpecific(uint32(id), radius.Attribute(unhx(args[1])))
		if err != nil {
			return "err"
		}
		did, dv, err := radius.VendorSpecific(a)
		if err != nil {
			return "ok " + hx(a) + " err"
		}
		return "ok " + hx(a) + " ok " + strconv.FormatUint(uint64(did), 10) + " " + hx(dv)
	case "tlv":
		t := atoi(args[0])
		if t < 0 || t > 255 {
			return "BAD-CASE"
		}
		if !freshEncE(func() (radius.Attribute, error) { return radius.NewTLV(byte(t), radius.Attribute(unhx(args[1]))) }) {
			return "encoder-result-shared"
		}
		a, err := radius.NewTLV(byte(t), radius.Attribute(unhx(args[1])))
		if err != nil {
			return "err"
		}
		dt, dv, err := radius.TLV(a)
		if err != nil {
			return "ok " + hx(a) + " err"
		}
		return "ok " + hx(a) + " ok " + itoa(int(dt)) + " " + hx(dv)
	case "ipv6prefix":
		var n *net.IPNet
		if args[0] != "nil" {
			n = &net.IPNet{IP: net.IP(unhx(args[0])), Mask: net.IPMask(unhx(args[1]))}
		}
		if !freshEncE(func() (radius.Attribute, error) { return radius.NewIPv6Prefix(n) }) {
			return "encoder-result-shared"
		}
		a, err := radius.NewIPv6Prefix(n)
		if err != nil {
			return "err"
		}
		d, err := radius.IPv6Prefix(a)
		if err != nil {
			return "ok " + hx(a) + " err"
		}
		return "ok " + hx(a) + " ok " + hx(d.IP) + " " + hx(d.Mask)
	case "dec":
		a := radius.Attribute(unhx(args[1]))
		switch args[0] {
		case "short":
			v, err := radius.Short(a)
			if err != nil {
				return "err"
			}
			return "ok " + itoa(int(v))
		case "integer":
			v, err := radius.Integer(a)
			if err != nil {
				return "err"
			}
			return "ok " + strconv.FormatUint(uint64(v), 10)
		case "integer64":
			v, err := radius.Integer64(a)
			if err != nil {
				return "err"
			}
			return "ok " + strconv.FormatUint(v, 10)
		case "ipaddr":
			v, err := radius.IPAddr(a)
			if err != nil {
				return "err"
			}
			return "ok " + hx(v)
		case "ipv6addr":
			v, err := radius.IPv6Addr(a)
			if err != nil {
				return "err"
			}
			return "ok " + hx(v)
		case "ifid":
			v, err := radius.IFID(a)
			if err != nil {
				return "err"
			}
			return "ok " + hx(v)
		case "date":
			v, err := radius.Date(a)
			if err != nil {
				return "err"
			}
			return "ok " + strconv.FormatInt(v.Unix(), 10)
		case "string":
			return "ok " + hx([]byte(radius.String(a)))
		case "bytes":
			return "ok " + hx(radius.Bytes(a))
		case "vsa":
			id, v, err := radius.VendorSpecific(a)
			if err != nil {
				return "err"
			}
			return "ok " + strconv.FormatUint(uint64(id), 10) + " " + hx(v)
		case "tlv":
			t, v, err := radius.TLV(a)
			if err != nil {
				return "err"
			}
			return "ok " + itoa(int(t)) + " " + hx(v)
		case "ipv6prefix":
			n, err := radius.IPv6Prefix(a)
			if err != nil {
				return "err"
			}
			return "ok " + hx(n.IP) + " " + hx(n.Mask)
		}
	}
	return "UNKNOWN-OP"
}

var decoders = []string{"short", "integer", "integer64", "ipaddr", "ipv6addr", "ifid", "date", "string", "bytes", "vsa", "tlv", "ipv6prefix"}

func (g *Gen) boundaryU(bits uint) uint64 {
	max := uint64(1)<<bits - 1
	if bits == 64 {
		max = math.MaxUint64
	}
	switch g.Intn(8) {
	case 0:
		return 0
	case 1:
		return max
	case 2:
		return max - uint64(g.Intn(3))
	case 3:
		return uint64(g.Intn(300))
	case 4:
		return uint64(1) << uint(g.Intn(int(bits)))
	default:
		return g.U64() & max
	}
}

func (g *Gen) mask(n int) []byte {
	m := make([]byte, n)
	switch g.Intn(5) {
	case 0: // non-contiguous
		return g.RandBytes(n)
	case 1:
		copy(m, net.CIDRMask(g.Intn(n*8+1), n*8))
		if n > 0 && g.Bool() {
			m[g.Intn(n)] ^= byte(1 << uint(g.Intn(8)))
		}
		return m
	default:
		copy(m, net.CIDRMask(g.Intn(n*8+1), n*8))
		return m
	}
}

func genC10(g *Gen, tier string, emit func(op string, args ...string)) {
	// all uint16 values
	step := 1
	if tier == "quick" {
		step = 7
	}
	for v := 0; v <= 65535; v += step {
		emit("short", itoa(v))
	}
	emit("short", "65535")
	// (whatever the step: the values next to a change of octet, of sign and of width)
	for _, v := range []int{1, 127, 128, 254, 255, 256, 257, 511, 512, 32766, 32767, 32768, 32769, 65279, 65280, 65534} {
		emit("short", itoa(v))
	}
	n := 2500
	if tier == "thorough" {
		n = 40000
	}
	dates := []int64{-62135596800, -1, 0, 1, 4294967295, 4294967296, 4294967297, -2147483648, 2147483647, 2147483648,
		-315619200 /* 1960-01-01 */, 7258118400 /* 2200 */, math.MaxInt64, math.MinInt64, -4294967296, -4294967295, 8589934591, 8589934592}
	for _, d := range dates {
		emit("date", strconv.FormatInt(d, 10), "0")
		emit("date", strconv.FormatInt(d, 10), "999999999")
	}
	for i := 0; i < n; i++ {
		emit("integer", strconv.FormatUint(g.boundaryU(32), 10))
		emit("integer64", strconv.FormatUint(g.boundaryU(64), 10))
		emit("string", hxIn(g.Bytes(g.Pick(0, 1, 10, 252, 253, 254, 300))))
		emit("bytes", hxIn(g.Bytes(g.Pick(0, 1, 10, 252, 253, 254, 300))))
		// IPs of length 0..20 incl. v4-mapped
		ip := g.Bytes(g.Pick(0, 3, 4, 4, 5, 15, 16, 16, 17, 20, g.Intn(24)))
		if len(ip) == 16 && g.Chance(1, 2) {
			copy(ip, []byte{0, 0, 0, 0, 0, 0, 0, 0, 0, 0, 0xff, 0xff})
			if g.Chance(1, 4) {
				ip[g.Intn(12)] ^= 1
			}
		}
		emit("ipaddr", hxIn(ip))
		emit("ipv6addr", hxIn(ip))
		emit("ifid", hxIn(g.Bytes(g.Pick(0, 6, 7, 8, 8, 8, 9, 16, g.Intn(20)))))
		var sec int64
		switch g.Intn(5) {
		case 0:
			sec = int64(g.U64())
		case 1:
			// (back to year 1, and forward to year 4000 in the next case: conversions through nanoseconds wrap there)
			sec = -int64(g.U64() % 62000000000)
		case 2:
			sec = int64(g.U64() % 64000000000)
		default:
			sec = int64(g.U64() % 5000000000)
		}
		emit("date", strconv.FormatInt(sec, 10), itoa(g.Pick(0, 1, 500000000, 999999999)))
		emit("vsa", strconv.FormatUint(g.boundaryU(32), 10), hxIn(g.Bytes(g.Pick(0, 0, 1, 2, 100, 248, 249, 250, 260))))
		emit("tlv", itoa(g.Intn(256)), hxIn(g.Bytes(g.Pick(0, 0, 1, 2, 100, 252, 253, 254, 260))))
		// prefixes: every prefix length x addresses x contiguous and non-contiguous masks
		pip := g.RandBytes(g.Pick(4, 15, 16, 16, 16, 16, 16, 17))
		if g.Chance(1, 3) {
			for k := range pip {
				pip[k] = 0xff
			}
		}
		emit("ipv6prefix", hxIn(pip), hxIn(g.mask(g.Pick(4, 16, 16, 16, 16, 16, 15, 17, 0))))
		// decoders on arbitrary bytes
		codec := decoders[g.Intn(len(decoders))]
		a := g.Bytes(g.Pick(0, 1, 2, 3, 4, 5, 7, 8, 9, 15, 16, 17, 18, 19, 20, 100, 253, 254, 255, 256, 300))
		if codec == "tlv" && len(a) >= 2 && g.Chance(2, 3) {
			a[1] = byte(len(a))
		}
		if codec == "ipv6prefix" && len(a) >= 2 && g.Chance(3, 4) {
			a[1] = byte(g.Intn(130))
			if g.Chance(2, 3) {
				// clear host bits so that many inputs are valid
				pl := int(a[1])
				for bit := pl; bit < (len(a)-2)*8; bit++ {
					a[2+bit/8] &^= 1 << uint(7-bit%8)
				}
			}
		}
		emit("dec", codec, hxIn(a))
	}
	emit("ipv6prefix", "nil", "-")
	for pl := 0; pl <= 128; pl++ {
		ip := g.RandBytes(16)
		emit("ipv6prefix", hxIn(ip), hxIn(net.CIDRMask(pl, 128)))
		for k := range ip {
			ip[k] = 0xff
		}
		emit("ipv6prefix", hxIn(ip), hxIn(net.CIDRMask(pl, 128)))
	}
	// small integers repeatedly (an encoder that caches must still hand out fresh, correct slices)
	for v := 0; v < 70; v++ {
		emit("integer", itoa(v))
		emit("short", itoa(v))
		emit("integer64", itoa(v))
	}
	// every decoder on the OUTPUT of every other encoder (cross-codec confusion, e.g. a v4-mapped
	// 16-byte address offered to the IPv4 decoder)
	{
		var outs [][]byte
		add := func(a []byte, err error) {
			if err == nil {
				outs = append(outs, a)
			}
		}
		for k := 0; k < 6; k++ {
			ip4 := g.RandBytes(4)
			add(radius.NewIPAddr(net.IP(ip4)))
			add(radius.NewIPv6Addr(net.IP(ip4)))
			add(radius.NewIPv6Addr(net.IP(g.RandBytes(16))))
			add(radius.NewIFID(net.HardwareAddr(g.RandBytes(8))))
			add(radius.NewInteger(uint32(g.U64())), nil)
			add(radius.NewInteger64(g.U64()), nil)
			add(radius.NewShort(uint16(g.U64())), nil)
			add(radius.NewDate(time.Unix(int64(g.U64()%4294967296), 0)))
			add(radius.NewVendorSpecific(uint32(g.U64()), g.RandBytes(g.Range(1, 20))))
			add(radius.NewTLV(byte(g.Intn(256)), g.RandBytes(g.Range(1, 20))))
			pl := g.Intn(129)
			add(radius.NewIPv6Prefix(&net.IPNet{IP: net.IP(g.RandBytes(16)), Mask: net.CIDRMask(pl, 128)}))
			add(radius.NewBytes(g.RandBytes(g.Intn(20))))
		}
		for _, o := range outs {
			for _, codec := range decoders {
				emit("dec", codec, hxIn(o))
			}
		}
	}
	// every decoder on every length 0..300 and every byte string of <= 2 bytes
	for _, codec := range decoders {
		for l := 0; l <= 300; l++ {
			emit("dec", codec, hxIn(g.Bytes(l)))
		}
		if tier == "thorough" {
			for x := 0; x < 256; x++ {
				emit("dec", codec, hxIn([]byte{byte(x)}))
				for y := 0; y < 256; y += 5 {
					emit("dec", codec, hxIn([]byte{byte(x), byte(y)}))
					emit("dec", codec, hxIn([]byte{byte(x), byte(y), 0}))
				}
			}
		}
	}
}

// ---------- facts: accept-length sets of the decoders and limits of the encoders (lengths 0..300) ----------

func acceptLens(f func(a []byte) bool) []int {
	var out []int
	for n := 0; n <= 300; n++ {
		ok := true
		// three contents per length: zeros, 0xff, a pattern — a length is accepted only if all are
		for _, fill := range []byte{0x00, 0xff, 0x5a} {
			a := make([]byte, n)
			for i := range a {
				a[i] = fill
			}
			if !f(a) {
				ok = false
			}
		}
		if ok {
			out = append(out, n)
		}
	}
	return out
}

func init() {
	factProbes = append(factProbes, func(f *factSet) {
		add := func(name, codec string, fn func(a []byte) bool) {
			lens := acceptLens(fn)
			f.list(name, lens)
			for n := 0; n <= 300; n++ {
				f.addCase(name, n, "C10", "dec", codec, hx(make([]byte, n)))
			}
		}
		add("acceptShort", "short", func(a []byte) bool { _, err := radius.Short(a); return err == nil })
		add("acceptInteger", "integer", func(a []byte) bool { _, err := radius.Integer(a); return err == nil })
		add("acceptInteger64", "integer64", func(a []byte) bool { _, err := radius.Integer64(a); return err == nil })
		add("acceptIPAddr", "ipaddr", func(a []byte) bool { _, err := radius.IPAddr(a); return err == nil })
		add("acceptIPv6Addr", "ipv6addr", func(a []byte) bool { _, err := radius.IPv6Addr(a); return err == nil })
		add("acceptIFID", "ifid", func(a []byte) bool { _, err := radius.IFID(a); return err == nil })
		add("acceptDate", "date", func(a []byte) bool { _, err := radius.Date(a); return err == nil })
		add("acceptVSA", "vsa", func(a []byte) bool { _, _, err := radius.VendorSpecific(a); return err == nil })
		// encoder limits: the value lengths for which the encoder succeeds
		encLens := func(fn func(v []byte) bool) []int {
			var out []int
			for n := 0; n <= 300; n++ {
				if fn(make([]byte, n)) {
					out = append(out, n)
				}
			}
			return out
		}
		f.list("encString", encLens(func(v []byte) bool { _, err := radius.NewString(string(v)); return err == nil }))
		f.list("encBytes", encLens(func(v []byte) bool { _, err := radius.NewBytes(v); return err == nil }))
		f.list("encVSA", encLens(func(v []byte) bool { _, err := radius.NewVendorSpecific(9, v); return err == nil }))
		f.list("encTLV", encLens(func(v []byte) bool { _, err := radius.NewTLV(1, v); return err == nil }))
		for n := 0; n <= 300; n++ {
			f.addCase("encString", n, "C10", "string", hx(make([]byte, n)))
			f.addCase("encBytes", n, "C10", "bytes", hx(make([]byte, n)))
			f.addCase("encVSA", n, "C10", "vsa", "9", hx(make([]byte, n)))
			f.addCase("encTLV", n, "C10", "tlv", "1", hx(make([]byte, n)))
		}
		// C04 / C11: plaintext lengths accepted by the encoders, ciphertext lengths accepted by UserPassword
		sec, ra := []byte("s"), make([]byte, 16)
		f.list("encUserPassword", encLens(func(v []byte) bool { _, err := radius.NewUserPassword(v, sec, ra); return err == nil }))
		f.list("acceptUserPassword", acceptLens(func(a []byte) bool { _, err := radius.UserPassword(a, sec, ra); return err == nil }))
		f.list("encTunnelPassword", encLens(func(v []byte) bool {
			_, err := radius.NewTunnelPassword(v, []byte{0x80, 1}, sec, ra)
			return err == nil
		}))
		for n := 0; n <= 300; n++ {
			f.addCase("encUserPassword", n, "C04", "newup", hx(make([]byte, n)), "73", hx(ra))
			f.addCase("acceptUserPassword", n, "C04", "up", hx(make([]byte, n)), "73", hx(ra))
			f.addCase("encTunnelPassword", n, "C11", "newtp", hx(make([]byte, n)), "8001", "73", hx(ra))
		}
	})
}
