package main

// Shared by C17 and C18 (and usable by C15/C16/C20): the canonical one-line syntax of a parsed
// dictionary, generator options, and the go/parser declaration dsInventory of a generated file.
//
//	attrs   := attr  {"," attr}  | "-"      attr   := vkey ":" hex(name) ":" oid ":" type ":" size ":" encrypt ":" has_tag ":" concat
//	values  := value {"," value} | "-"      value  := vkey ":" hex(attribute) ":" hex(name) ":" number
//	vendors := vendor{"," vendor}| "-"      vendor := vkey ":" hex(name) ":" number ":" typeOctets ":" lengthOctets
//
// vkey is "-" for a top-level declaration, otherwise the key of the vendor the declaration belongs
// to (keys are arbitrary distinct tokens such as v0, v1; they are not part of the dictionary).
// oid = decimal components joined by "." ("-" = empty); type = the numeric dictionary.AttributeType;
// size/encrypt/typeOctets/lengthOctets = "-" (not Valid / nil) or a decimal int; has_tag/concat =
// "-" (not Valid), "0" (Valid, false) or "1" (Valid, true).  The lists keep declaration order.

import (
	"bytes"
	"fmt"
	"go/ast"
	"go/parser"
	"go/printer"
	"go/token"
	"os"
	"path/filepath"
	"reflect"
	"runtime"
	"sort"
	"strconv"
	"strings"

	"layeh.com/radius"
	"layeh.com/radius/dictionary"
)

// dsRepoRoot is the directory of the layeh.com/radius module the harness was built against (the
// `replace` target), found from the recorded source position of radius.New.
func dsRepoRoot() string {
	if r := os.Getenv("VERIF_REPO"); r != "" {
		return r
	}
	f := runtime.FuncForPC(reflect.ValueOf(radius.New).Pointer())
	file, _ := f.FileLine(f.Entry())
	return filepath.Dir(file)
}

func dsOptInt(v int, valid bool) string {
	if !valid {
		return "-"
	}
	return strconv.Itoa(v)
}

func dsOptBool(v, valid bool) string {
	if !valid {
		return "-"
	}
	if v {
		return "1"
	}
	return "0"
}

func dsShowOID(o dictionary.OID) string {
	if len(o) == 0 {
		return "-"
	}
	parts := make([]string, len(o))
	for i, e := range o {
		parts[i] = strconv.Itoa(e)
	}
	return strings.Join(parts, ".")
}

func dsShowAttr(vkey string, a *dictionary.Attribute) string {
	return strings.Join([]string{vkey, hx([]byte(a.Name)), dsShowOID(a.OID), strconv.Itoa(int(a.Type)),
		dsOptInt(a.Size.Int, a.Size.Valid), dsOptInt(a.FlagEncrypt.Int, a.FlagEncrypt.Valid),
		dsOptBool(a.FlagHasTag.Bool, a.FlagHasTag.Valid), dsOptBool(a.FlagConcat.Bool, a.FlagConcat.Valid)}, ":")
}

func dsShowValue(vkey string, v *dictionary.Value) string {
	return strings.Join([]string{vkey, hx([]byte(v.Attribute)), hx([]byte(v.Name)), strconv.FormatUint(v.Number, 10)}, ":")
}

func dsJoin(xs []string) string {
	if len(xs) == 0 {
		return "-"
	}
	return strings.Join(xs, ",")
}

// dsShowDict renders a dictionary as the three list arguments (attrs, values, vendors).
func dsShowDict(d *dictionary.Dictionary) (string, string, string) {
	var as, vs, vn []string
	for _, a := range d.Attributes {
		as = append(as, dsShowAttr("-", a))
	}
	for _, v := range d.Values {
		vs = append(vs, dsShowValue("-", v))
	}
	for i, v := range d.Vendors {
		key := "v" + strconv.Itoa(i)
		t, l := "-", "-"
		if v.TypeOctets != nil {
			t = strconv.Itoa(*v.TypeOctets)
		}
		if v.LengthOctets != nil {
			l = strconv.Itoa(*v.LengthOctets)
		}
		vn = append(vn, strings.Join([]string{key, hx([]byte(v.Name)), strconv.Itoa(v.Number), t, l}, ":"))
		for _, a := range v.Attributes {
			as = append(as, dsShowAttr(key, a))
		}
		for _, val := range v.Values {
			vs = append(vs, dsShowValue(key, val))
		}
	}
	return dsJoin(as), dsJoin(vs), dsJoin(vn)
}

func dsSplit(s string) []string {
	if s == "-" || s == "" {
		return nil
	}
	return strings.Split(s, ",")
}

func dsParseOptInt(s string) dictionary.IntFlag {
	if s == "-" {
		return dictionary.IntFlag{}
	}
	return dictionary.IntFlag{Int: atoi(s), Valid: true}
}

func dsParseOptBool(s string) dictionary.BoolFlag {
	switch s {
	case "-":
		return dictionary.BoolFlag{}
	case "0":
		return dictionary.BoolFlag{Valid: true}
	case "1":
		return dictionary.BoolFlag{Valid: true, Bool: true}
	}
	panic(badCase("bad flag in case line: " + s))
}

func dsParseOptIntPtr(s string) *int {
	if s == "-" {
		return nil
	}
	v := atoi(s)
	return &v
}

// dsParseDict is the inverse of dsShowDict (panics with "bad …" on malformed input ⇒ BAD-CASE).
func dsParseDict(attrs, values, vendors string) *dictionary.Dictionary {
	d := &dictionary.Dictionary{}
	byKey := map[string]*dictionary.Vendor{}
	for _, e := range dsSplit(vendors) {
		f := strings.Split(e, ":")
		if len(f) != 5 || f[0] == "-" {
			panic(badCase("bad vendor in case line: " + e))
		}
		if _, dup := byKey[f[0]]; dup {
			panic(badCase("bad vendor key in case line: " + e))
		}
		v := &dictionary.Vendor{Name: string(unhx(f[1])), Number: atoi(f[2]), TypeOctets: dsParseOptIntPtr(f[3]), LengthOctets: dsParseOptIntPtr(f[4])}
		byKey[f[0]] = v
		d.Vendors = append(d.Vendors, v)
	}
	for _, e := range dsSplit(attrs) {
		f := strings.Split(e, ":")
		if len(f) != 8 {
			panic(badCase("bad attribute in case line: " + e))
		}
		a := &dictionary.Attribute{Name: string(unhx(f[1])), Type: dictionary.AttributeType(atoi(f[3])),
			Size: dsParseOptInt(f[4]), FlagEncrypt: dsParseOptInt(f[5]), FlagHasTag: dsParseOptBool(f[6]), FlagConcat: dsParseOptBool(f[7])}
		if a.Type < 1 || a.Type > 17 {
			panic(badCase("bad attribute type in case line: " + e))
		}
		if f[2] != "-" {
			for _, c := range strings.Split(f[2], ".") {
				a.OID = append(a.OID, atoi(c))
			}
		}
		if f[0] == "-" {
			d.Attributes = append(d.Attributes, a)
		} else if v := byKey[f[0]]; v != nil {
			v.Attributes = append(v.Attributes, a)
		} else {
			panic(badCase("bad vendor key in case line: " + e))
		}
	}
	for _, e := range dsSplit(values) {
		f := strings.Split(e, ":")
		if len(f) != 4 {
			panic(badCase("bad value in case line: " + e))
		}
		n, err := strconv.ParseUint(f[3], 10, 64)
		if err != nil {
			panic(badCase("bad value number in case line: " + e))
		}
		val := &dictionary.Value{Attribute: string(unhx(f[1])), Name: string(unhx(f[2])), Number: n}
		if f[0] == "-" {
			d.Values = append(d.Values, val)
		} else if v := byKey[f[0]]; v != nil {
			v.Values = append(v.Values, val)
		} else {
			panic(badCase("bad vendor key in case line: " + e))
		}
	}
	return d
}

// generator options: package name, ignore list (hex names), refs (hex(name):import/path)
type dsGenOpts struct {
	pkg    string
	ignore []string
	refs   map[string]string
}

func (o dsGenOpts) show() (string, string, string) {
	var ig, rf []string
	for _, n := range o.ignore {
		ig = append(ig, hx([]byte(n)))
	}
	keys := make([]string, 0, len(o.refs))
	for k := range o.refs {
		keys = append(keys, k)
	}
	sort.Strings(keys)
	for _, k := range keys {
		rf = append(rf, hx([]byte(k))+":"+o.refs[k])
	}
	return o.pkg, dsJoin(ig), dsJoin(rf)
}

func dsParseOpts(pkg, ignore, refs string) dsGenOpts {
	o := dsGenOpts{pkg: pkg, refs: map[string]string{}}
	for _, e := range dsSplit(ignore) {
		o.ignore = append(o.ignore, string(unhx(e)))
	}
	for _, e := range dsSplit(refs) {
		f := strings.SplitN(e, ":", 2)
		if len(f) != 2 || f[1] == "" {
			panic(badCase("bad ref in case line: " + e))
		}
		o.refs[string(unhx(f[0]))] = f[1]
	}
	return o
}

// ---- declaration dsInventory of a Go source file (go/parser) ----

func dsTypeString(fset *token.FileSet, e ast.Expr) string {
	if e == nil {
		return ""
	}
	var b bytes.Buffer
	printer.Fprint(&b, fset, e)
	return strings.Join(strings.Fields(b.String()), "")
}

func dsFieldTypes(fset *token.FileSet, fl *ast.FieldList) string {
	if fl == nil {
		return ""
	}
	var ts []string
	for _, f := range fl.List {
		n := len(f.Names)
		if n == 0 {
			n = 1
		}
		for i := 0; i < n; i++ {
			ts = append(ts, dsTypeString(fset, f.Type))
		}
	}
	return strings.Join(ts, ";")
}

// dsInventory lists every top-level declaration other than imports, in source order:
//
//	c:<name>:<type or empty>      const        t:<name>:<underlying>     type
//	v:<name>:<type>               var (type of a composite-literal initialiser when not declared)
//	f:<name>:<params>><results>   func         m:<recv>.<name>:<params>><results>   method
//
// parameter/result lists are the Go type expressions without spaces joined by ";".
// The second result is the import set: "<path>" or ".<path>" (dot import), sorted.
func dsInventory(src []byte) (decls []string, imports []string, err error) {
	fset := token.NewFileSet()
	f, err := parser.ParseFile(fset, "generated.go", src, 0)
	if err != nil {
		return nil, nil, err
	}
	for _, im := range f.Imports {
		p, _ := strconv.Unquote(im.Path.Value)
		if im.Name != nil {
			p = im.Name.Name + p
		}
		imports = append(imports, p)
	}
	sort.Strings(imports)
	for _, d := range f.Decls {
		switch d := d.(type) {
		case *ast.GenDecl:
			var lastType string // a const spec without type/value repeats the previous one
			for _, s := range d.Specs {
				switch s := s.(type) {
				case *ast.ValueSpec:
					k := "v"
					if d.Tok == token.CONST {
						k = "c"
					}
					ty := dsTypeString(fset, s.Type)
					if s.Type == nil && len(s.Values) == 1 {
						if cl, ok := s.Values[0].(*ast.CompositeLit); ok {
							ty = dsTypeString(fset, cl.Type)
						}
					}
					if d.Tok == token.CONST && s.Type == nil && len(s.Values) == 0 {
						ty = lastType
					}
					lastType = ty
					for _, n := range s.Names {
						decls = append(decls, k+":"+n.Name+":"+ty)
					}
				case *ast.TypeSpec:
					decls = append(decls, "t:"+s.Name.Name+":"+dsTypeString(fset, s.Type))
				}
			}
		case *ast.FuncDecl:
			sig := dsFieldTypes(fset, d.Type.Params) + ">" + dsFieldTypes(fset, d.Type.Results)
			if d.Recv != nil {
				decls = append(decls, "m:"+dsFieldTypes(fset, d.Recv)+"."+d.Name.Name+":"+sig)
			} else {
				decls = append(decls, "f:"+d.Name.Name+":"+sig)
			}
		}
	}
	return decls, imports, nil
}

func dsErrToken(err error) string {
	s := err.Error()
	s = strings.Map(func(r rune) rune {
		if r == ' ' || r == '\t' || r == '\n' || r == '\r' {
			return '_'
		}
		return r
	}, s)
	if len(s) > 160 {
		s = s[:160]
	}
	return s
}

var _ = fmt.Sprint
