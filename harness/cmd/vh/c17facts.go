package main

import (
	"regexp"
	"strings"
)

// Identifier normalisation of the tree's generator on a finite candidate set of ASCII names, read off
// the generated code of one-attribute dictionaries (`<id>_Type radius.Type = 1`); RV/Facts/TieC17.lean
// closes the table against the model's `identifier` / `exportedIdent` in the kernel.

var c17Initialisms = []string{"ACL", "API", "ASCII", "CPU", "CSS", "DNS", "EOF", "GUID", "HTML", "HTTP", "HTTPS", "ID", "IP", "JSON",
	"LHS", "QPS", "RAM", "RHS", "RPC", "SLA", "SMTP", "SQL", "SSH", "TCP", "TLS", "TTL", "UDP", "UI", "UID",
	"UUID", "URI", "URL", "UTF8", "VM", "XML", "XMPP", "XSRF", "XSS"}

func c17NameCandidates() []string {
	var n []string
	for c := 0x20; c <= 0x7e; c++ {
		s := string(rune(c))
		n = append(n, "a"+s+"b", s+"ab", "ab"+s, s)
	}
	for d := 0; d <= 9; d++ {
		n = append(n, itoa(d)+"x", itoa(d)+"-x", "x"+itoa(d), "x-"+itoa(d), itoa(d)+itoa(d), "-"+itoa(d))
	}
	for _, i := range c17Initialisms {
		l := strings.ToLower(i)
		n = append(n, l, i, "x-"+l, l+"-x", "x-"+l+"-y", l+"s", "x"+l, strings.ToUpper(l[:1])+l[1:])
	}
	n = append(n, "User-Name", "user-name", "USER-NAME", "uSER-nAME", "3Com-Foo", "3GPP2-Session", "Ascend-+More", "a+b", "+", "++", "+1", "1+", "a++b", "+a", "a+",
		"--", "a--b", "-a-", "_", "__a", "a_b", "a.b", "a/b", "a b", "Acct-Session-Id", "Framed-IP-Address", "Login-IPv6-Host", "X-Ipv6", "NAS-Id", "Http-Https-Httpx", "Plus", "plus+plus", "9+9", "", "Zero", "0")
	return n
}

var c17TypeConst = regexp.MustCompile(`(?m)^\s*(?:const\s+)?(\w*)_Type\s+radius\.Type\s*=\s*1\s*$`)

func init() {
	factProbes = append(factProbes, func(f *factSet) {
		names := c17NameCandidates()
		var ids []string
		for i, n := range names {
			attrs := "-:" + hx([]byte(n)) + ":1:1:-:-:-:-"
			if n == "" {
				attrs = "-::1:1:-:-:-:-"
			}
			id := ""
			func() {
				defer func() {
					if recover() != nil {
						id = "!panic"
					}
				}()
				out, err := dsParseOpts("p", "-", "-").generator().Generate(dsParseDict(attrs, "-", "-"))
				if err == nil {
					m := c17TypeConst.FindSubmatch(out)
					if m == nil {
						id = "!no-type-constant"
					} else {
						id = string(m[1])
					}
				}
			}()
			ids = append(ids, id)
			f.addCase("c17Ident", i, "C17", "gen", attrs, "-", "-", "p", "-", "-")
		}
		f.list2("c17Names", bytesOf(names))
		f.list2("c17Ident", bytesOf(ids))
	})
}
