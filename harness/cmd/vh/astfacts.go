package main

import (
	"go/ast"
	"go/parser"
	"go/token"
	"os"
	"strings"
)

// The three syntactic facts (DESIGN.md §4.1): they are kept because no behavioural probe can
// replace them.  Each is 1 (holds), 0 (determinately violated) or 2 (anchor not found: unknown —
// the tie accepts unknown and the evidence says so).

func parseRepoFile(name string) (*token.FileSet, *ast.File) {
	fset := token.NewFileSet()
	root := os.Getenv("VERIF_REPO")
	if root == "" {
		root = "/repo"
	}
	f, err := parser.ParseFile(fset, root+"/"+name, nil, 0)
	if err != nil {
		return fset, nil
	}
	return fset, f
}

func findFunc(f *ast.File, recv, name string) *ast.FuncDecl {
	if f == nil {
		return nil
	}
	for _, d := range f.Decls {
		fd, ok := d.(*ast.FuncDecl)
		if !ok || fd.Name.Name != name {
			continue
		}
		if recv == "" && fd.Recv == nil {
			return fd
		}
		if recv != "" && fd.Recv != nil {
			return fd
		}
	}
	return nil
}

// callName renders `a.b.c()` of an expression statement, or "".
func callName(s ast.Stmt) string {
	es, ok := s.(*ast.ExprStmt)
	if !ok {
		return ""
	}
	c, ok := es.X.(*ast.CallExpr)
	if !ok {
		return ""
	}
	return exprName(c.Fun)
}

func exprName(e ast.Expr) string {
	switch e := e.(type) {
	case *ast.Ident:
		return e.Name
	case *ast.SelectorExpr:
		return exprName(e.X) + "." + e.Sel.Name
	}
	return ""
}

// New reads 17 bytes from crypto/rand
func factNewUsesCryptoRand() int {
	_, f := parseRepoFile("packet.go")
	fd := findFunc(f, "", "New")
	if fd == nil {
		return 2
	}
	randPath := ""
	for _, im := range f.Imports {
		p := strings.Trim(im.Path.Value, `"`)
		name := p[strings.LastIndex(p, "/")+1:]
		if im.Name != nil {
			name = im.Name.Name
		}
		if name == "rand" {
			randPath = p
		}
	}
	usesRandRead := false
	bufLen := ""
	ast.Inspect(fd.Body, func(n ast.Node) bool {
		switch n := n.(type) {
		case *ast.CallExpr:
			if exprName(n.Fun) == "rand.Read" {
				usesRandRead = true
			}
		case *ast.ArrayType:
			if l, ok := n.Len.(*ast.BasicLit); ok {
				bufLen = l.Value
			}
		}
		return true
	})
	_ = bufLen // (how many octets are drawn, and that none is reused, is checked behaviourally: op newstream)
	if !usesRandRead || randPath == "" {
		return 2
	}
	if randPath == "crypto/rand" {
		return 1
	}
	// `rand.Read` of another package (math/rand …): determinately not the cryptographic source
	return 0
}

// Serve: `s.activeAdd()` lies between `s.mu.Lock()` and the top-level `s.mu.Unlock()`
func factCountedUnderLock() int {
	_, f := parseRepoFile("server-packet.go")
	fd := findFunc(f, "s", "Serve")
	if fd == nil {
		return 2
	}
	lock, add, unlock := -1, -1, -1
	for i, st := range fd.Body.List {
		switch callName(st) {
		case "s.mu.Lock":
			if lock < 0 {
				lock = i
			}
		case "s.activeAdd":
			if add < 0 {
				add = i
			}
		case "s.mu.Unlock":
			if unlock < 0 {
				unlock = i
			}
		}
	}
	if lock < 0 || add < 0 || unlock < 0 {
		return 2
	}
	if lock < add && add < unlock {
		return 1
	}
	return 0
}

// datagram goroutine: the lookup `requests[key]` and the insert `requests[key] = …` lie in one
// requestsLock.Lock()/Unlock() region of the same block
func factDedupAtomic() int {
	_, f := parseRepoFile("server-packet.go")
	fd := findFunc(f, "s", "Serve")
	if fd == nil {
		return 2
	}
	res := 2
	ast.Inspect(fd.Body, func(n ast.Node) bool {
		blk, ok := n.(*ast.BlockStmt)
		if !ok {
			return true
		}
		lock, lookup, insert, unlock := -1, -1, -1, -1
		between := false // an Unlock/RUnlock statement of this block after the lookup and before the insert
		for i, st := range blk.List {
			switch callName(st) {
			case "requestsLock.Lock":
				if lock < 0 {
					lock = i
				}
			case "requestsLock.Unlock", "requestsLock.RUnlock":
				if lock >= 0 && unlock < 0 && callName(st) == "requestsLock.Unlock" {
					unlock = i
				}
				if lookup >= 0 && insert < 0 {
					between = true
				}
			}
			// `defer requestsLock.Unlock()` right after the Lock: the region extends to the end of the block
			if ds, ok := st.(*ast.DeferStmt); ok && exprName(ds.Call.Fun) == "requestsLock.Unlock" && lock >= 0 && unlock < 0 {
				unlock = len(blk.List)
			}
			if ifs, ok := st.(*ast.IfStmt); ok && ifs.Init != nil {
				if as, ok := ifs.Init.(*ast.AssignStmt); ok && len(as.Rhs) == 1 {
					if ix, ok := as.Rhs[0].(*ast.IndexExpr); ok && exprName(ix.X) == "requests" && lookup < 0 {
						lookup = i
					}
				}
			}
			if as, ok := st.(*ast.AssignStmt); ok && len(as.Lhs) == 1 {
				if ix, ok := as.Lhs[0].(*ast.IndexExpr); ok && exprName(ix.X) == "requests" && insert < 0 {
					insert = i
				}
			}
		}
		if lookup >= 0 || insert >= 0 {
			if lock >= 0 && lookup > lock && insert > lookup && unlock > insert {
				res = 1
			} else if lookup >= 0 && insert >= 0 && between {
				// the lock is visibly given up between the test and the insert; every other shape (the lock taken
				// by a caller, another locking idiom) is "unknown": the simultaneous-duplicates scenario decides
				res = 0
			}
		}
		return true
	})
	return res
}

// Shutdown: the test-and-set of `shutdownRequested` lies between the top-level `s.mu.Lock()` and
// `s.mu.Unlock()` — the model's `downEnter` (flag, initialisation, closing the listeners, the cancel and
// the decrement) is ONE step because it is one critical section
func factShutdownFlagUnderLock() int {
	_, f := parseRepoFile("server-packet.go")
	fd := findFunc(f, "s", "Shutdown")
	if fd == nil {
		return 2
	}
	var lock, unlock, cas token.Pos
	for _, st := range fd.Body.List {
		switch callName(st) {
		case "s.mu.Lock":
			if lock == 0 {
				lock = st.Pos()
			}
		case "s.mu.Unlock":
			if unlock == 0 {
				unlock = st.Pos()
			}
		}
	}
	ast.Inspect(fd.Body, func(n ast.Node) bool {
		if c, ok := n.(*ast.CallExpr); ok && cas == 0 {
			name := exprName(c.Fun)
			if strings.HasPrefix(name, "atomic.") && len(c.Args) > 0 {
				if u, ok := c.Args[0].(*ast.UnaryExpr); ok && exprName(u.X) == "s.shutdownRequested" &&
					(strings.Contains(name, "CompareAndSwap") || strings.Contains(name, "Store") || strings.Contains(name, "Swap")) {
					cas = c.Pos()
				}
			}
		}
		return true
	})
	if lock == 0 || unlock == 0 || cas == 0 {
		return 2
	}
	if lock < cas && cas < unlock {
		return 1
	}
	return 0
}

// Serve's read loop: `s.activeAdd()` is a statement of the loop body BEFORE the `go` statement that starts the
// per-datagram goroutine (the model's `serveRecv` counts the task before it exists; a count taken inside the new
// goroutine would let Shutdown see zero between the `go` and the increment).
// 1: so; 0: the goroutine's own body calls activeAdd and nothing before the go statement does; 2: anything else.
func factActiveAddBeforeGo() int {
	_, f := parseRepoFile("server-packet.go")
	fd := findFunc(f, "s", "Serve")
	if fd == nil {
		return 2
	}
	res := 2
	ast.Inspect(fd.Body, func(n ast.Node) bool {
		blk, ok := n.(*ast.BlockStmt)
		if !ok {
			return true
		}
		add := -1
		for i, st := range blk.List {
			if callName(st) == "s.activeAdd" && add < 0 {
				add = i
			}
			gs, ok := st.(*ast.GoStmt)
			if !ok {
				continue
			}
			inside := false
			ast.Inspect(gs.Call, func(m ast.Node) bool {
				if c, ok := m.(*ast.CallExpr); ok && exprName(c.Fun) == "s.activeAdd" {
					inside = true
				}
				return true
			})
			switch {
			case add >= 0 && add < i && !inside:
				res = 1
			case add < 0 && inside:
				if res == 2 {
					res = 0
				}
			}
		}
		return true
	})
	return res
}

// Exchange: the retransmission ticker is created with the configured interval itself - `time.NewTicker(c.Retry)`.
// 1: literally so; 0: the argument is another expression that mentions Retry (2*c.Retry, c.Retry+x, f(c.Retry));
// 2: anything the extractor cannot judge (no such call, the interval passed through a local or a helper).
// (Behaviourally only the UPPER bounds on the resend frequency are asserted - the timed theorems, and the
// harness's loose count class below it: a ticker that is merely slower would pass them.)
func factTickerPeriodIsRetry() int {
	_, f := parseRepoFile("client.go")
	if f == nil {
		return 2
	}
	res := 2
	ast.Inspect(f, func(n ast.Node) bool {
		c, ok := n.(*ast.CallExpr)
		if !ok || exprName(c.Fun) != "time.NewTicker" || len(c.Args) != 1 {
			return true
		}
		if sel, ok := c.Args[0].(*ast.SelectorExpr); ok && sel.Sel.Name == "Retry" {
			if res == 2 {
				res = 1
			}
			return true
		}
		if _, ok := c.Args[0].(*ast.Ident); ok {
			return true // a local: unknown
		}
		mentions := false
		ast.Inspect(c.Args[0], func(m ast.Node) bool {
			if sel, ok := m.(*ast.SelectorExpr); ok && sel.Sel.Name == "Retry" {
				mentions = true
			}
			return true
		})
		if mentions {
			res = 0
		}
		return true
	})
	return res
}

// Serve: the test of `shutdownRequested` that refuses a Serve call after Shutdown is a top-level statement BETWEEN the
// top-level `s.mu.Lock()` and the top-level `s.mu.Unlock()` that ends the registration region - the model's
// `serveEnter` (test, listener registration, count) is ONE step because it is one critical section; a test taken
// before the lock lets Shutdown close the listeners in between, and the listener registered afterwards is never closed.
// 1: so; 0: a top-level test of the flag exists before the lock / after the unlock and none inside; 2: anything else.
func factServeFlagUnderLock() int {
	_, f := parseRepoFile("server-packet.go")
	fd := findFunc(f, "s", "Serve")
	if fd == nil {
		return 2
	}
	lock, unlock := -1, -1
	var tests []int
	for i, st := range fd.Body.List {
		switch callName(st) {
		case "s.mu.Lock":
			if lock < 0 {
				lock = i
			}
		case "s.mu.Unlock":
			if unlock < 0 {
				unlock = i
			}
		}
		if ifs, ok := st.(*ast.IfStmt); ok {
			found := false
			ast.Inspect(ifs.Cond, func(n ast.Node) bool {
				if c, ok := n.(*ast.CallExpr); ok && strings.HasPrefix(exprName(c.Fun), "atomic.Load") && len(c.Args) > 0 {
					if u, ok := c.Args[0].(*ast.UnaryExpr); ok && exprName(u.X) == "s.shutdownRequested" {
						found = true
					}
				}
				return true
			})
			if ifs.Init != nil {
				ast.Inspect(ifs.Init, func(n ast.Node) bool {
					if se, ok := n.(*ast.SelectorExpr); ok && exprName(se) == "s.shutdownRequested" {
						found = true
					}
					return true
				})
			}
			if found {
				tests = append(tests, i)
			}
		}
	}
	if lock < 0 || unlock < 0 || len(tests) == 0 {
		return 2
	}
	for _, t := range tests {
		if lock < t && t < unlock {
			return 1
		}
	}
	return 0
}

func init() {
	factProbes = append(factProbes, func(f *factSet) {
		f.nat("serveFlagUnderLock", factServeFlagUnderLock())
		f.nat("tickerPeriodIsRetry", factTickerPeriodIsRetry())
		f.nat("activeAddBeforeGo", factActiveAddBeforeGo())
		f.nat("shutdownFlagUnderLock", factShutdownFlagUnderLock())
		f.nat("newUsesCryptoRand", factNewUsesCryptoRand())
		f.nat("countedUnderLock", factCountedUnderLock())
		f.nat("dedupAtomic", factDedupAtomic())
	})
}
