package main

// C20 — dictionary.Merge: conflict-checked ordered union that never modifies its inputs.
//
// Case syntax (shared with lean/RV/Driver/C20.lean).  A dictionary is "-" or a ","-joined item list;
// an a/v item belongs to the vendor opened last, or to the top level when none is open:
//
//	a:<name>:<oid>:<type>[:<size>:<encrypt>:<hastag>:<concat>]   names hex, oid "-" or "1.2.3", type 1..17, flags "n" or int / 0|1
//	v:<attribute>:<name>:<number>
//	V:<name>:<number>:<typeoctets>:<lengthoctets>[:<xa>:<xv>]    "n" = nil; xa/xv = spare capacity of the vendor's slices
//	C:<xa>:<xv>:<xV>                                             spare capacity of the dictionary's three slices
//
// Ops:
//
//	merge <d1> <d2> <times>       Merge(d1,d2) <times> times on the same two objects
//	chain <steps> <D0> … <Dk-1>   steps "i+j,…": Merge(Di,Dj), results are named Dk, Dk+1, …
//
// Every dictionary is built from fresh objects per case.  Around every call all live dictionaries are
// deep-snapshotted: every field, pointer identities, slice lengths, capacities and the contents of
// the spare capacity.

import (
	"fmt"
	"reflect"
	"sort"
	"strconv"
	"strings"

	"layeh.com/radius/dictionary"
)

func init() {
	props["C20"] = &prop{gen: genC20, eval: evalC20, par: func(string) bool { return true }}
}

// ---- building dictionaries from the case syntax ----

func c20OID(s string) dictionary.OID {
	if s == "-" {
		return nil
	}
	var o dictionary.OID
	for _, c := range strings.Split(s, ".") {
		n, err := strconv.ParseUint(c, 10, 62)
		if err != nil {
			panic(badCase("bad oid in case line: " + s))
		}
		o = append(o, int(n))
	}
	return append(dictionary.OID(nil), o...)
}

func c20IntFlag(s string) dictionary.IntFlag {
	if s == "n" {
		return dictionary.IntFlag{}
	}
	return dictionary.IntFlag{Int: atoi(s), Valid: true}
}

func c20BoolFlag(s string) dictionary.BoolFlag {
	switch s {
	case "n":
		return dictionary.BoolFlag{}
	case "0":
		return dictionary.BoolFlag{Valid: true}
	case "1":
		return dictionary.BoolFlag{Bool: true, Valid: true}
	}
	panic(badCase("bad bool flag in case line: " + s))
}

func c20IntPtr(s string) *int {
	if s == "n" {
		return nil
	}
	v := atoi(s)
	return &v
}

func c20Cap(s string) int {
	n := atoi(s)
	if n < 0 || n > 64 {
		panic(badCase("bad capacity in case line: " + s))
	}
	return n
}

func c20Nat(s string) uint64 {
	v, err := strconv.ParseUint(s, 10, 64)
	if err != nil {
		panic(badCase("bad uint in case line: " + s))
	}
	return v
}

type c20Vendor struct {
	v      *dictionary.Vendor
	attrs  []*dictionary.Attribute
	vals   []*dictionary.Value
	xa, xv int
}

func attrSlice(items []*dictionary.Attribute, extra int) []*dictionary.Attribute {
	if len(items) == 0 && extra == 0 {
		return nil
	}
	s := make([]*dictionary.Attribute, len(items), len(items)+extra)
	copy(s, items)
	return s
}

func valueSlice(items []*dictionary.Value, extra int) []*dictionary.Value {
	if len(items) == 0 && extra == 0 {
		return nil
	}
	s := make([]*dictionary.Value, len(items), len(items)+extra)
	copy(s, items)
	return s
}

func buildDict(s string) *dictionary.Dictionary {
	d := new(dictionary.Dictionary)
	if s == "-" {
		return d
	}
	var attrs []*dictionary.Attribute
	var vals []*dictionary.Value
	var vendors []*c20Vendor
	var xa, xv, xV int
	for _, item := range strings.Split(s, ",") {
		f := strings.Split(item, ":")
		switch {
		case f[0] == "a" && (len(f) == 4 || len(f) == 8):
			t := atoi(f[3])
			if t < 1 || t > 17 {
				panic(badCase("bad attribute type in case line: " + item))
			}
			a := &dictionary.Attribute{Name: string(unhx(f[1])), OID: c20OID(f[2]), Type: dictionary.AttributeType(t)}
			if len(f) == 8 {
				a.Size = c20IntFlag(f[4])
				a.FlagEncrypt = c20IntFlag(f[5])
				a.FlagHasTag = c20BoolFlag(f[6])
				a.FlagConcat = c20BoolFlag(f[7])
			}
			if n := len(vendors); n > 0 {
				vendors[n-1].attrs = append(vendors[n-1].attrs, a)
			} else {
				attrs = append(attrs, a)
			}
		case f[0] == "v" && len(f) == 4:
			v := &dictionary.Value{Attribute: string(unhx(f[1])), Name: string(unhx(f[2])), Number: c20Nat(f[3])}
			if n := len(vendors); n > 0 {
				vendors[n-1].vals = append(vendors[n-1].vals, v)
			} else {
				vals = append(vals, v)
			}
		case f[0] == "V" && (len(f) == 5 || len(f) == 7):
			cv := &c20Vendor{v: &dictionary.Vendor{Name: string(unhx(f[1])), Number: atoi(f[2]),
				TypeOctets: c20IntPtr(f[3]), LengthOctets: c20IntPtr(f[4])}}
			if len(f) == 7 {
				cv.xa, cv.xv = c20Cap(f[5]), c20Cap(f[6])
			}
			vendors = append(vendors, cv)
		case f[0] == "C" && len(f) == 4:
			xa, xv, xV = c20Cap(f[1]), c20Cap(f[2]), c20Cap(f[3])
		default:
			panic(badCase("bad item in case line: " + item))
		}
	}
	d.Attributes = attrSlice(attrs, xa)
	d.Values = valueSlice(vals, xv)
	if len(vendors) > 0 || xV > 0 {
		d.Vendors = make([]*dictionary.Vendor, 0, len(vendors)+xV)
		for _, cv := range vendors {
			cv.v.Attributes = attrSlice(cv.attrs, cv.xa)
			cv.v.Values = valueSlice(cv.vals, cv.xv)
			d.Vendors = append(d.Vendors, cv.v)
		}
	}
	return d
}

// ---- canonical rendering ----

func c20ShowOID(o dictionary.OID) string {
	if len(o) == 0 {
		return "-"
	}
	p := make([]string, len(o))
	for i, c := range o {
		p[i] = itoa(c)
	}
	return strings.Join(p, ".")
}

func c20ShowIntFlag(f dictionary.IntFlag) string {
	if !f.Valid {
		return "n"
	}
	return itoa(f.Int)
}

func c20ShowBoolFlag(f dictionary.BoolFlag) string {
	if !f.Valid {
		return "n"
	}
	if f.Bool {
		return "1"
	}
	return "0"
}

func c20ShowIntPtr(p *int) string {
	if p == nil {
		return "n"
	}
	return itoa(*p)
}

func c20ShowAttr(a *dictionary.Attribute) string {
	s := "a:" + hx([]byte(a.Name)) + ":" + c20ShowOID(a.OID) + ":" + itoa(int(a.Type))
	if a.Size.Valid || a.FlagEncrypt.Valid || a.FlagHasTag.Valid || a.FlagConcat.Valid {
		s += ":" + c20ShowIntFlag(a.Size) + ":" + c20ShowIntFlag(a.FlagEncrypt) + ":" + c20ShowBoolFlag(a.FlagHasTag) + ":" + c20ShowBoolFlag(a.FlagConcat)
	}
	return s
}

func c20ShowValue(v *dictionary.Value) string {
	return "v:" + hx([]byte(v.Attribute)) + ":" + hx([]byte(v.Name)) + ":" + strconv.FormatUint(v.Number, 10)
}

func showDict(d *dictionary.Dictionary) string {
	var items []string
	for _, a := range d.Attributes {
		items = append(items, c20ShowAttr(a))
	}
	for _, v := range d.Values {
		items = append(items, c20ShowValue(v))
	}
	for _, vd := range d.Vendors {
		items = append(items, "V:"+hx([]byte(vd.Name))+":"+itoa(vd.Number)+":"+c20ShowIntPtr(vd.TypeOctets)+":"+c20ShowIntPtr(vd.LengthOctets))
		for _, a := range vd.Attributes {
			items = append(items, c20ShowAttr(a))
		}
		for _, v := range vd.Values {
			items = append(items, c20ShowValue(v))
		}
	}
	if len(items) == 0 {
		return "-"
	}
	return strings.Join(items, ",")
}

// ---- deep snapshot: every field, pointer identity, len, cap and the spare capacity's contents ----

func snapAttrs(b *strings.Builder, s []*dictionary.Attribute) {
	fmt.Fprintf(b, "A[%d/%d@%p:", len(s), cap(s), s)
	for _, a := range s[:cap(s)] {
		if a == nil {
			b.WriteString("nil;")
			continue
		}
		fmt.Fprintf(b, "%p=%q,%d/%d@%p%v,%d,%v,%v,%v,%v;", a, a.Name, len(a.OID), cap(a.OID), a.OID, []int(a.OID[:cap(a.OID)]),
			int(a.Type), a.Size, a.FlagEncrypt, a.FlagHasTag, a.FlagConcat)
	}
	b.WriteString("]")
}

func snapValues(b *strings.Builder, s []*dictionary.Value) {
	fmt.Fprintf(b, "L[%d/%d@%p:", len(s), cap(s), s)
	for _, v := range s[:cap(s)] {
		if v == nil {
			b.WriteString("nil;")
			continue
		}
		fmt.Fprintf(b, "%p=%q,%q,%d;", v, v.Attribute, v.Name, v.Number)
	}
	b.WriteString("]")
}

func snapIntPtr(b *strings.Builder, p *int) {
	if p == nil {
		b.WriteString("nil,")
		return
	}
	fmt.Fprintf(b, "%p=%d,", p, *p)
}

func snapDict(d *dictionary.Dictionary) string {
	var b strings.Builder
	fmt.Fprintf(&b, "D%p{", d)
	snapAttrs(&b, d.Attributes)
	snapValues(&b, d.Values)
	fmt.Fprintf(&b, "V[%d/%d@%p:", len(d.Vendors), cap(d.Vendors), d.Vendors)
	for _, v := range d.Vendors[:cap(d.Vendors)] {
		if v == nil {
			b.WriteString("nil;")
			continue
		}
		fmt.Fprintf(&b, "%p=%q,%d,", v, v.Name, v.Number)
		snapIntPtr(&b, v.TypeOctets)
		snapIntPtr(&b, v.LengthOctets)
		snapAttrs(&b, v.Attributes)
		snapValues(&b, v.Values)
		b.WriteString(";")
	}
	b.WriteString("]}")
	return b.String()
}

// deepSnap renders EVERYTHING reachable from v, unexported fields included (reflection may read them): a cache, an
// index or a memo that Merge leaves behind in one of its inputs is a modification of that input, and a later Merge
// (or any other user of the dictionary) sees it.  nil and empty are told apart; maps are rendered in key order.
func deepSnap(x interface{}) string {
	var b strings.Builder
	deepSnapValue(&b, reflect.ValueOf(x), 0)
	return b.String()
}

func deepSnapValue(b *strings.Builder, v reflect.Value, depth int) {
	if depth > 16 {
		b.WriteString("<deep>")
		return
	}
	switch v.Kind() {
	case reflect.Invalid:
		b.WriteString("<invalid>")
	case reflect.Ptr, reflect.Interface:
		if v.IsNil() {
			b.WriteString("nil")
			return
		}
		b.WriteString("&")
		deepSnapValue(b, v.Elem(), depth+1)
	case reflect.Struct:
		b.WriteString(v.Type().Name() + "{")
		for i := 0; i < v.NumField(); i++ {
			b.WriteString(v.Type().Field(i).Name + ":")
			deepSnapValue(b, v.Field(i), depth+1)
			b.WriteString(";")
		}
		b.WriteString("}")
	case reflect.Slice:
		if v.IsNil() {
			b.WriteString("nil[]")
			return
		}
		fallthrough
	case reflect.Array:
		b.WriteString("[" + itoa(v.Len()) + ":")
		for i := 0; i < v.Len(); i++ {
			deepSnapValue(b, v.Index(i), depth+1)
			b.WriteString(",")
		}
		b.WriteString("]")
	case reflect.Map:
		if v.IsNil() {
			b.WriteString("nilmap")
			return
		}
		var ents []string
		it := v.MapRange()
		for it.Next() {
			var e strings.Builder
			deepSnapValue(&e, it.Key(), depth+1)
			e.WriteString("=>")
			deepSnapValue(&e, it.Value(), depth+1)
			ents = append(ents, e.String())
		}
		sort.Strings(ents)
		b.WriteString("map{" + strings.Join(ents, ",") + "}")
	case reflect.String:
		b.WriteString(strconv.Quote(v.String()))
	case reflect.Bool:
		b.WriteString(strconv.FormatBool(v.Bool()))
	case reflect.Int, reflect.Int8, reflect.Int16, reflect.Int32, reflect.Int64:
		b.WriteString(strconv.FormatInt(v.Int(), 10))
	case reflect.Uint, reflect.Uint8, reflect.Uint16, reflect.Uint32, reflect.Uint64, reflect.Uintptr:
		b.WriteString(strconv.FormatUint(v.Uint(), 10))
	case reflect.Chan, reflect.Func, reflect.UnsafePointer:
		if v.IsNil() {
			b.WriteString("nil")
		} else {
			b.WriteString(v.Kind().String())
		}
	default:
		b.WriteString(v.Kind().String())
	}
}

// ---- evaluation ----

func c20Run(dicts []*dictionary.Dictionary, steps [][2]int, pairStyle bool) string {
	var rounds []string
	for _, st := range steps {
		i, j := st[0], st[1]
		if i < 0 || j < 0 || i >= len(dicts) || j >= len(dicts) {
			return "BAD-CASE"
		}
		if dicts[i] == nil || dicts[j] == nil {
			rounds = append(rounds, "skip")
			dicts = append(dicts, nil)
			continue
		}
		before := make([]string, len(dicts))
		for k, d := range dicts {
			if d != nil {
				before[k] = snapDict(d) + deepSnap(d)
			}
		}
		r, err := dictionary.Merge(dicts[i], dicts[j])
		var changed []int
		for k, d := range dicts {
			if d != nil && snapDict(d)+deepSnap(d) != before[k] {
				changed = append(changed, k)
			}
		}
		var flags string
		if pairStyle {
			f := [2]string{"d1-same", "d2-same"}
			for _, k := range changed {
				if k == 0 {
					f[0] = "d1-changed"
				} else if k == 1 {
					f[1] = "d2-changed"
				}
			}
			flags = f[0] + " " + f[1]
		} else {
			flags = "chg=-"
			if len(changed) > 0 {
				p := make([]string, len(changed))
				for x, k := range changed {
					p[x] = itoa(k)
				}
				flags = "chg=" + strings.Join(p, ",")
			}
		}
		if err != nil || r == nil {
			rounds = append(rounds, "err "+flags)
			dicts = append(dicts, nil)
		} else {
			rounds = append(rounds, "ok "+showDict(r)+" "+flags)
			dicts = append(dicts, r)
		}
	}
	return strings.Join(rounds, " | ")
}

func evalC20(op string, args []string) string {
	switch op {
	case "merge":
		if len(args) != 3 {
			return "BAD-CASE"
		}
		times := atoi(args[2])
		if times < 1 || times > 8 {
			return "BAD-CASE"
		}
		dicts := []*dictionary.Dictionary{buildDict(args[0]), buildDict(args[1])}
		steps := make([][2]int, times)
		for i := range steps {
			steps[i] = [2]int{0, 1}
		}
		return c20Run(dicts, steps, true)
	case "chain":
		if len(args) < 2 || args[0] == "-" {
			return "BAD-CASE"
		}
		var steps [][2]int
		for _, e := range strings.Split(args[0], ",") {
			f := strings.Split(e, "+")
			if len(f) != 2 {
				return "BAD-CASE"
			}
			steps = append(steps, [2]int{atoi(f[0]), atoi(f[1])})
		}
		var dicts []*dictionary.Dictionary
		for _, a := range args[1:] {
			dicts = append(dicts, buildDict(a))
		}
		return c20Run(dicts, steps, false)
	}
	return "BAD-CASE"
}

// ---- generators ----

type gAttr struct {
	name  string
	oid   []int
	typ   int
	flags string // "" or ":size:enc:tag:concat"
}

type gValue struct {
	attr, name string
	num        uint64
}

type gVendor struct {
	name   string
	num    int
	to, lo string
	attrs  []gAttr
	vals   []gValue
	xa, xv int
}

type gDict struct {
	attrs      []gAttr
	vals       []gValue
	vendors    []gVendor
	xa, xv, xV int
}

func (a gAttr) String() string {
	return "a:" + hx([]byte(a.name)) + ":" + c20ShowOID(a.oid) + ":" + itoa(a.typ) + a.flags
}

func (v gValue) String() string {
	return "v:" + hx([]byte(v.attr)) + ":" + hx([]byte(v.name)) + ":" + strconv.FormatUint(v.num, 10)
}

func (d gDict) String() string {
	var items []string
	for _, a := range d.attrs {
		items = append(items, a.String())
	}
	for _, v := range d.vals {
		items = append(items, v.String())
	}
	if d.xa+d.xv+d.xV > 0 {
		items = append(items, "C:"+itoa(d.xa)+":"+itoa(d.xv)+":"+itoa(d.xV))
	}
	for _, vd := range d.vendors {
		s := "V:" + hx([]byte(vd.name)) + ":" + itoa(vd.num) + ":" + vd.to + ":" + vd.lo
		if vd.xa+vd.xv > 0 {
			s += ":" + itoa(vd.xa) + ":" + itoa(vd.xv)
		}
		items = append(items, s)
		for _, a := range vd.attrs {
			items = append(items, a.String())
		}
		for _, v := range vd.vals {
			items = append(items, v.String())
		}
	}
	if len(items) == 0 {
		return "-"
	}
	return strings.Join(items, ",")
}

// c20World is the name space of one case: attribute names / OIDs already used anywhere in the case
// (so that a later dictionary can collide with them on purpose) and a pool of vendor identities.
type c20World struct {
	g        *Gen
	nextName int
	nextOID  int
	names    []string
	oids     [][]int
	// collision probability p/16 for each name / OID / vendor field drawn
	p int
	// vendor identities: name i <-> number i+1 (consistent), mismatches are drawn on purpose
	vnames []string
}

var c20VendorNames = []string{"A", "B", "Cisco", "D", "", "Microsoft"}

func (w *c20World) freshName() string {
	w.nextName++
	n := w.nextName
	var s string
	switch {
	case n <= 26:
		s = string(rune('a' + n - 1))
	default:
		s = "Attr-" + itoa(n)
	}
	w.names = append(w.names, s)
	return s
}

func (w *c20World) freshOID() []int {
	w.nextOID++
	n := w.nextOID
	var o []int
	switch w.g.Intn(5) {
	case 0:
		o = []int{26, n}
	case 1:
		o = []int{n, 1, 2}
	default:
		o = []int{n}
	}
	w.oids = append(w.oids, o)
	return o
}

func (w *c20World) attr(localNames *[]string, localOIDs *[][]int) gAttr {
	g := w.g
	var a gAttr
	// collide with something of the same scope (vendor or top level) used earlier in the case
	if len(*localNames) > 0 && g.Chance(w.p, 16) {
		a.name = (*localNames)[g.Intn(len(*localNames))]
	} else {
		a.name = w.freshName()
		*localNames = append(*localNames, a.name)
	}
	if len(*localOIDs) > 0 && g.Chance(w.p, 16) {
		a.oid = (*localOIDs)[g.Intn(len(*localOIDs))]
		if g.Chance(1, 8) {
			// near miss: a prefix / an extension of a used OID is a different OID
			if g.Bool() && len(a.oid) > 1 {
				a.oid = a.oid[:len(a.oid)-1]
			} else {
				a.oid = append(append([]int{}, a.oid...), 0)
			}
		}
	} else {
		a.oid = w.freshOID()
		*localOIDs = append(*localOIDs, a.oid)
	}
	if g.Chance(1, 40) {
		a.oid = nil
	}
	a.typ = g.Range(1, 17)
	if g.Chance(1, 4) {
		fl := func(hi int) string {
			if g.Bool() {
				return "n"
			}
			return itoa(g.Intn(hi + 1))
		}
		a.flags = ":" + fl(16) + ":" + fl(2) + ":" + fl(1) + ":" + fl(1)
		if a.flags == ":n:n:n:n" {
			a.flags = ""
		}
	}
	return a
}

func (w *c20World) value(attrNames []string) gValue {
	g := w.g
	v := gValue{name: "v" + itoa(g.Intn(4)), num: uint64(g.Intn(5))}
	if len(attrNames) > 0 && g.Chance(3, 4) {
		v.attr = attrNames[g.Intn(len(attrNames))]
	} else {
		v.attr = "x"
	}
	if g.Chance(1, 30) {
		v.num = ^uint64(0)
	}
	return v
}

func (g *Gen) spare() int {
	if g.Bool() {
		return 0
	}
	return g.Range(1, 3)
}

// scope of one vendor identity across the dictionaries of a case
type c20Scope struct {
	names []string
	oids  [][]int
}

// dict draws one dictionary.  valuesOnly dictionaries declare no attributes (they can be merged
// with themselves).  wf=false allows duplicate vendor names / numbers inside the dictionary.
func (w *c20World) dict(top *c20Scope, vscope map[int]*c20Scope, valuesOnly, wf bool) gDict {
	g := w.g
	var d gDict
	if !valuesOnly {
		for n := g.Pick(0, 0, 1, 1, 2, 3, 4); n > 0; n-- {
			d.attrs = append(d.attrs, w.attr(&top.names, &top.oids))
		}
	}
	for n := g.Pick(0, 0, 1, 2, 3); n > 0; n-- {
		d.vals = append(d.vals, w.value(top.names))
	}
	d.xa, d.xv, d.xV = g.spare(), g.spare(), g.spare()
	nv := g.Pick(0, 1, 1, 2, 2, 3, 4)
	perm := []int{0, 1, 2, 3, 4, 5}
	for i := len(perm) - 1; i > 0; i-- {
		j := g.Intn(i + 1)
		perm[i], perm[j] = perm[j], perm[i]
	}
	usedNum := map[int]bool{}
	usedName := map[string]bool{}
	for k := 0; k < nv; k++ {
		id := perm[k]
		vd := gVendor{name: c20VendorNames[id], num: id + 1, to: "n", lo: "n"}
		// mismatch on purpose: same name / other number, or same number / other name
		if g.Chance(w.p, 32) {
			if g.Bool() {
				vd.num = g.Pick(1, 2, 3, 4, 5, 6, 7, 9, -1, 0)
			} else {
				vd.name = c20VendorNames[g.Intn(len(c20VendorNames))]
			}
		}
		if !wf && k > 0 && g.Bool() {
			if g.Bool() {
				vd.num = d.vendors[g.Intn(k)].num
			} else {
				vd.name = d.vendors[g.Intn(k)].name
			}
		}
		if wf && (usedNum[vd.num] || usedName[vd.name]) {
			continue
		}
		usedNum[vd.num], usedName[vd.name] = true, true
		if g.Chance(1, 6) {
			vd.to = itoa(g.Pick(1, 2, 4))
		}
		if g.Chance(1, 6) {
			vd.lo = itoa(g.Pick(0, 1, 2))
		}
		sc := vscope[id]
		if sc == nil {
			sc = &c20Scope{}
			vscope[id] = sc
		}
		if !valuesOnly {
			for n := g.Pick(0, 1, 1, 2, 3); n > 0; n-- {
				vd.attrs = append(vd.attrs, w.attr(&sc.names, &sc.oids))
			}
		}
		for n := g.Pick(0, 0, 1, 2); n > 0; n-- {
			vd.vals = append(vd.vals, w.value(sc.names))
		}
		vd.xa, vd.xv = g.spare(), g.spare()
		d.vendors = append(d.vendors, vd)
	}
	return d
}

func newC20World(g *Gen) *c20World {
	return &c20World{g: g, p: g.Pick(0, 0, 0, 1, 1, 2, 4)}
}

// small-scope enumeration: every pair of dictionaries with at most `maxAttrs` top-level attributes and
// at most two vendors over a tiny alphabet (includes ill-formed dictionaries: duplicate names/numbers)
func c20SmallAttrLists(alpha []gAttr, max int) [][]gAttr {
	out := [][]gAttr{nil}
	for _, a := range alpha {
		out = append(out, []gAttr{a})
	}
	if max >= 2 {
		for _, a := range alpha {
			for _, b := range alpha {
				out = append(out, []gAttr{a, b})
			}
		}
	}
	return out
}

func genC20(g *Gen, tier string, emit func(op string, args ...string)) {
	thorough := tier == "thorough"

	// ---- fixed boundary cases
	emit("merge", "-", "-", "2")
	emit("merge", "a:61:1:1", "-", "2")
	emit("merge", "-", "a:61:1:1", "2")
	emit("merge", "V:41:1:n:n", "V:41:1:n:n", "3")
	emit("merge", "V:41:1:n:n:2:2,a:61:1:1", "V:41:1:n:n,a:62:2:1,v:62:63:7", "2")
	emit("merge", "V:41:1:n:n,a:61:1:1", "V:41:1:n:n,a:61:2:1", "1")
	emit("merge", "V:41:1:n:n,a:61:1:1", "V:41:1:n:n,a:62:1:1", "1")
	emit("merge", "V:41:1:n:n", "V:41:2:n:n", "1")
	emit("merge", "V:41:1:n:n", "V:42:1:n:n", "1")
	emit("merge", "a:61:1.2:1", "a:62:1.2.0:1,a:63:1:1", "2")
	emit("merge", "a:61:-:1", "a:62:-:1", "1")
	emit("chain", "0+0", "v:61:62:1,V:41:1:n:n,v:61:62:1")
	emit("chain", "0+0", "a:61:1:1")
	emit("chain", "0+1,2+0", "V:41:1:n:n:1:1,v:61:62:1", "V:42:2:n:n")
	emit("chain", "0+1,0+2,3+4", "V:41:1:n:n:1:0,a:61:1:1", "V:41:1:n:n,a:62:2:1", "V:41:1:n:n,a:63:3:1")

	// ---- OIDs that would collide under a packed / truncated / length-insensitive comparison
	// (format a:<name hex>:<dotted oid>:<type>); distinct names, distinct OIDs: every pair must merge
	{
		oids := []string{"1.2", "258", "0.5", "5", "1.0", "256", "255.255", "65535", "1.2.3", "66051", "513", "2.1", "1", "1.0.0", "0.1", "4294967297", "1.1", "257", "16777217"}
		for i, x := range oids {
			for j, y := range oids {
				if i >= j {
					continue
				}
				emit("merge", "a:61:"+x+":1", "a:62:"+y+":1", "1")
				emit("merge", "V:41:1:n:n,a:61:"+x+":1", "V:41:1:n:n,a:62:"+y+":1", "2")
			}
		}
		// vendor formats must survive in the combined entry
		for _, f := range []string{"2:1", "4:0", "1:2", "4:2", "2:0"} {
			emit("chain", "0+1,2+0", "V:41:1:"+f+",a:61:1:1", "V:41:1:"+f+",a:62:2:1")
		}
	}

	// ---- exhaustive small scope, part 1: top-level attributes only
	topAlpha := []gAttr{
		{name: "a", oid: []int{1}, typ: 1}, {name: "a", oid: []int{2}, typ: 1},
		{name: "b", oid: []int{1}, typ: 1}, {name: "b", oid: []int{2}, typ: 5},
		{name: "c", oid: []int{1, 1}, typ: 1},
	}
	lists := c20SmallAttrLists(topAlpha, 2)
	for _, l1 := range lists {
		for _, l2 := range lists {
			emit("merge", gDict{attrs: l1}.String(), gDict{attrs: l2}.String(), "2")
		}
	}

	// ---- exhaustive small scope, part 2: up to two vendors per dictionary over names {A,B} x numbers {1,2},
	// each vendor with one of a few declaration sets; all pairs, merged twice
	type decl struct {
		attrs []gAttr
		vals  []gValue
	}
	a1 := gAttr{name: "a", oid: []int{1}, typ: 1}
	a2 := gAttr{name: "a", oid: []int{2}, typ: 1}
	b2 := gAttr{name: "b", oid: []int{2}, typ: 1}
	decls := []decl{{}, {attrs: []gAttr{a1}}}
	if thorough {
		decls = append(decls, decl{attrs: []gAttr{b2}, vals: []gValue{{attr: "b", name: "v", num: 1}}}, decl{attrs: []gAttr{a2}})
	}
	var vend []gVendor
	for _, nm := range []string{"A", "B"} {
		for _, num := range []int{1, 2} {
			for _, dc := range decls {
				vend = append(vend, gVendor{name: nm, num: num, to: "n", lo: "n", attrs: dc.attrs, vals: dc.vals})
			}
		}
	}
	var vlists [][]gVendor
	vlists = append(vlists, nil)
	for _, v := range vend {
		vlists = append(vlists, []gVendor{v})
	}
	for _, v := range vend {
		for _, w := range vend {
			vlists = append(vlists, []gVendor{v, w})
		}
	}
	n := 0
	for _, v1 := range vlists {
		for _, v2 := range vlists {
			n++
			d1, d2 := gDict{vendors: append([]gVendor(nil), v1...)}, gDict{vendors: v2}
			// spare capacity on purpose, deterministically varied
			if n%3 == 0 {
				d1.xV = 1 + n%2
				for i := range d1.vendors {
					d1.vendors[i].xa, d1.vendors[i].xv = 2, 1
				}
			}
			s1 := d1.String()
			emit("merge", s1, d2.String(), "2")
		}
	}

	// ---- names that differ only in letter case are DIFFERENT names (vendors and attributes): every pair of
	// single-vendor dictionaries over {Cisco, cisco, CISCO} x {9, 5771}, and top-level attributes User-Name /
	// user-name / USER-NAME under distinct and equal numbers
	{
		var cv []gVendor
		for i, nm := range []string{"Cisco", "cisco", "CISCO"} {
			for j, num := range []int{9, 5771} {
				cv = append(cv, gVendor{name: nm, num: num, to: "n", lo: "n",
					attrs: []gAttr{{name: []string{"x", "X"}[(i+j)%2], oid: []int{1 + (i+j)%2}, typ: 1}}})
			}
		}
		for _, v1 := range cv {
			for _, v2 := range cv {
				emit("merge", gDict{vendors: []gVendor{v1}}.String(), gDict{vendors: []gVendor{v2}}.String(), "2")
			}
		}
		var ca []gAttr
		for _, nm := range []string{"User-Name", "user-name", "USER-NAME"} {
			for _, o := range []int{1, 2} {
				ca = append(ca, gAttr{name: nm, oid: []int{o}, typ: 1})
			}
		}
		for _, x := range ca {
			for _, y := range ca {
				emit("merge", gDict{attrs: []gAttr{x}}.String(), gDict{attrs: []gAttr{y}}.String(), "2")
				emit("merge", gDict{vendors: []gVendor{{name: "V", num: 1, to: "n", lo: "n", attrs: []gAttr{x}}}}.String(),
					gDict{vendors: []gVendor{{name: "V", num: 1, to: "n", lo: "n", attrs: []gAttr{y}}}}.String(), "2")
			}
		}
	}

	// ---- a number and the same number with trailing zero components (241, 241.0, 241.0.0) are DIFFERENT numbers, as
	// are 241.1 and 241.1.0: every pair, top-level and inside a matched vendor, in both directions
	{
		oids := [][]int{{241}, {241, 0}, {241, 0, 0}, {241, 1}, {241, 1, 0}, {0}, {0, 0}}
		for i, o1 := range oids {
			for j, o2 := range oids {
				x := gAttr{name: "p" + itoa(i), oid: o1, typ: 1}
				y := gAttr{name: "q" + itoa(j), oid: o2, typ: 1}
				emit("merge", gDict{attrs: []gAttr{x}}.String(), gDict{attrs: []gAttr{y}}.String(), "2")
				emit("merge", gDict{vendors: []gVendor{{name: "V", num: 1, to: "n", lo: "n", attrs: []gAttr{x}}}}.String(),
					gDict{vendors: []gVendor{{name: "V", num: 1, to: "n", lo: "n", attrs: []gAttr{y}}}}.String(), "2")
			}
		}
	}

	// ---- exhaustive small scope, part 3: <= 2 attributes x <= 2 vendors, well-formed vendor lists only,
	// one top-level attribute list per side combined with every vendor pair (quick: a slice of it)
	if thorough {
		tl := c20SmallAttrLists(topAlpha[:3], 1)
		wfl := [][]gVendor{}
		for _, l := range vlists {
			if len(l) == 2 && (l[0].name == l[1].name || l[0].num == l[1].num) {
				continue
			}
			wfl = append(wfl, l)
		}
		for i, v1 := range wfl {
			for j, v2 := range wfl {
				if (i+j)%7 != 0 {
					continue
				}
				for _, t1 := range tl {
					for _, t2 := range tl {
						emit("chain", "0+1,0+1,2+1", gDict{attrs: t1, vendors: v1}.String(), gDict{attrs: t2, vendors: v2}.String())
					}
				}
			}
		}
	}

	// ---- random pairs
	pairs, chains := 60000, 40000
	if thorough {
		pairs, chains = 200000, 120000
	}
	for i := 0; i < pairs; i++ {
		w := newC20World(g)
		top := &c20Scope{}
		vs := map[int]*c20Scope{}
		valuesOnly := g.Chance(1, 10)
		wf := !g.Chance(1, 12)
		d1 := w.dict(top, vs, valuesOnly, wf)
		d2 := w.dict(top, vs, valuesOnly && g.Bool(), wf || g.Bool())
		if g.Chance(1, 25) {
			d1 = gDict{}
		}
		if g.Chance(1, 25) {
			d2 = gDict{}
		}
		emit("merge", d1.String(), d2.String(), itoa(g.Pick(1, 2, 2, 3)))
	}

	// ---- random chains: left folds, repeated use of one input, self merges, merges with earlier results
	for i := 0; i < chains; i++ {
		w := newC20World(g)
		if w.p > 1 {
			w.p = 1
		}
		top := &c20Scope{}
		vs := map[int]*c20Scope{}
		k := g.Pick(1, 2, 3, 3, 4)
		valuesOnly := g.Chance(1, 5)
		wf := !g.Chance(1, 15)
		args := make([]string, 0, k+1)
		for x := 0; x < k; x++ {
			args = append(args, w.dict(top, vs, valuesOnly, wf).String())
		}
		var steps []string
		switch {
		case k == 1:
			steps = []string{"0+0"}
			if g.Bool() {
				steps = append(steps, "1+0")
			}
		case g.Chance(1, 3):
			// left fold of all inputs
			acc := 0
			for x := 1; x < k; x++ {
				steps = append(steps, itoa(acc)+"+"+itoa(x))
				acc = k + x - 1
			}
			if g.Bool() {
				// and once more from the start: the inputs must be reusable
				acc = 0
				for x := 1; x < k; x++ {
					steps = append(steps, itoa(acc)+"+"+itoa(x))
					acc = k + (k - 1) + x - 1
				}
			}
		default:
			ns := g.Range(2, 4)
			for s := 0; s < ns; s++ {
				avail := k + s
				steps = append(steps, itoa(g.Intn(avail))+"+"+itoa(g.Intn(avail)))
			}
		}
		emit("chain", append([]string{strings.Join(steps, ",")}, args...)...)
	}
}
