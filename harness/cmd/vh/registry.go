package main

import (
	"net"
	"time"

	"layeh.com/radius"
)

// gval is the uniform value representation the registry closures convert from / to.
type gval struct {
	B   []byte
	N   uint64
	T   time.Time
	Net *net.IPNet
}

type dictValue struct {
	Name   string
	Number uint64
}

// helperEntry describes one dictionary attribute (descriptor from the DICTIONARY) together with
// typed closures over its generated helper functions (see cmd/reggen).
type helperEntry struct {
	Pkg, Ident, DictName string
	Typ                  int
	VendorID, VendorType int
	Kind                 string
	HasTag               bool
	Encrypt              int
	Size                 int
	Synthetic            bool

	Add, Set             func(p *radius.Packet, tag byte, v gval) error
	AddString, SetString func(p *radius.Packet, tag byte, s string) error
	Get                  func(p, q *radius.Packet) (byte, gval)
	Gets                 func(p, q *radius.Packet) ([]byte, []gval, error)
	Lookup               func(p, q *radius.Packet) (byte, gval, error)
	GetString            func(p, q *radius.Packet) (byte, string)
	GetStrings           func(p, q *radius.Packet) ([]byte, []string, error)
	LookupString         func(p, q *radius.Packet) (byte, string, error)
	Del                  func(p *radius.Packet)
	Str                  func(n uint64) string
	Strings              func() map[uint64]string
	Consts               map[string]uint64
	DictValues           []dictValue
}

var registryByName map[string]*helperEntry

func lookupHelper(name string) *helperEntry {
	if registryByName == nil {
		registryByName = map[string]*helperEntry{}
		for _, e := range registry {
			registryByName[e.Pkg+"."+e.Ident] = e
		}
	}
	return registryByName[name]
}
