package main

import (
	"encoding/hex"
	"strconv"
	"strings"
	"sync/atomic"

	"layeh.com/radius"
)

// Gen is the single PRNG every random choice derives from (splitmix64), so that a seed replays.
type Gen struct {
	s             uint64
	shard, shards int
}

func NewGen(seed uint64) *Gen { return &Gen{s: seed*0x9E3779B97F4A7C15 + 0x1234567} }

func (g *Gen) U64() uint64 {
	g.s += 0x9E3779B97F4A7C15
	z := g.s
	z = (z ^ (z >> 30)) * 0xBF58476D1CE4E5B9
	z = (z ^ (z >> 27)) * 0x94D049BB133111EB
	return z ^ (z >> 31)
}

// Intn returns a value in [0,n).
func (g *Gen) Intn(n int) int {
	if n <= 0 {
		return 0
	}
	return int(g.U64() % uint64(n))
}

// Range returns a value in [lo,hi].
func (g *Gen) Range(lo, hi int) int { return lo + g.Intn(hi-lo+1) }

func (g *Gen) Bool() bool { return g.U64()&1 == 1 }

// Chance is true with probability num/den.
func (g *Gen) Chance(num, den int) bool { return g.Intn(den) < num }

func (g *Gen) Pick(xs ...int) int { return xs[g.Intn(len(xs))] }

// Bytes returns n bytes; the content style varies (random, zeros, small alphabet, 0xff).
func (g *Gen) Bytes(n int) []byte {
	b := make([]byte, n)
	switch g.Intn(6) {
	case 0:
		// zeros
	case 1:
		for i := range b {
			b[i] = 0xff
		}
	case 2:
		for i := range b {
			b[i] = byte(g.Intn(4))
		}
	default:
		for i := range b {
			b[i] = byte(g.U64())
		}
	}
	return b
}

// RandBytes returns n uniformly random bytes.
func (g *Gen) RandBytes(n int) []byte {
	b := make([]byte, n)
	for i := range b {
		b[i] = byte(g.U64())
	}
	return b
}

// ---- field syntax of the line protocol ----

// hxIn renders an INPUT: the empty byte string is written `-` (nil) or `~` (empty, not nil) alternately
var hxInToggle uint32

func hxIn(b []byte) string {
	if len(b) == 0 {
		if atomic.AddUint32(&hxInToggle, 1)%2 == 0 {
			return "~"
		}
		return "-"
	}
	return hex.EncodeToString(b)
}

func hx(b []byte) string {
	if len(b) == 0 {
		return "-"
	}
	return hex.EncodeToString(b)
}

// unhx decodes a hex field.  The returned slice deliberately has SPARE CAPACITY filled with garbage
// (0xA5…): code under test that re-slices an argument beyond its length, or appends into a caller's
// backing array, then behaves observably differently from code that respects len().
func unhx(s string) []byte {
	if s == "-" {
		return nil
	}
	if s == "~" {
		// an EMPTY slice that is not nil (with spare capacity like every other input): `len(x) == 0` and
		// `x == nil` are different tests
		buf := make([]byte, 48)
		for i := range buf {
			buf[i] = 0xA5 ^ byte(i*7)
		}
		return buf[:0]
	}
	b, err := hex.DecodeString(s)
	if err != nil {
		panic(badCase("bad hex in case line: " + s))
	}
	buf := make([]byte, len(b)+48)
	for i := range buf {
		buf[i] = 0xA5 ^ byte(i*7)
	}
	copy(buf, b)
	return buf[:len(b)]
}

func atoi(s string) int {
	n, err := strconv.Atoi(s)
	if err != nil {
		panic(badCase("bad int in case line: " + s))
	}
	return n
}

func itoa(n int) string { return strconv.Itoa(n) }

type avp struct {
	typ int
	val []byte
}

func showAVPs(as []avp) string {
	if len(as) == 0 {
		return "-"
	}
	parts := make([]string, len(as))
	for i, a := range as {
		parts[i] = itoa(a.typ) + ":" + hx(a.val)
	}
	return strings.Join(parts, ",")
}

func parseAVPs(s string) []avp {
	if s == "-" {
		return nil
	}
	var as []avp
	for _, e := range strings.Split(s, ",") {
		f := strings.Split(e, ":")
		as = append(as, avp{atoi(f[0]), unhx(f[1])})
	}
	return as
}

func toAttributes(as []avp) radius.Attributes {
	var r radius.Attributes
	for _, a := range as {
		var v radius.Attribute
		if a.val != nil {
			v = append(radius.Attribute{}, a.val...)
		}
		r = append(r, &radius.AVP{Type: radius.Type(a.typ), Attribute: v})
	}
	return r
}

func showAttributes(as radius.Attributes) string {
	if len(as) == 0 {
		return "-"
	}
	parts := make([]string, len(as))
	for i, a := range as {
		parts[i] = itoa(int(a.Type)) + ":" + hx(a.Attribute)
	}
	return strings.Join(parts, ",")
}

func showPacketFields(p *radius.Packet) string {
	return itoa(int(p.Code)) + " " + itoa(int(p.Identifier)) + " " + hx(p.Authenticator[:]) + " " + showAttributes(p.Attributes)
}
