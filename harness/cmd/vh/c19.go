package main

// C19 — MS-CHAPv2 (rfc2759) and MPPE key derivation (rfc3079).
//
// Every exported function of both packages is an op.  The unexported rfc2759.parityPadDESKey is
// reached twice: through DESCrypt with 7-octet keys (where DES ignores the parity bits, so only the
// 56 key bits are observable) and directly through go:linkname (op "paritypad", see c19_link.go),
// which is the only way to observe the parity bits without a hook in /repo.

import (
	"bytes"
	"strconv"
	"unicode/utf8"

	"layeh.com/radius/rfc2759"
	"layeh.com/radius/rfc3079"
)

func init() {
	props["C19"] = &prop{gen: genC19, eval: evalC19, pure: true, par: func(string) bool { return true }}
}

func okOrErr(b []byte, err error) string {
	if err != nil {
		return "err"
	}
	return "ok " + hx(b)
}

// held keeps a returned slice while the same function runs again on other inputs (and other library
// calls are made), and only then renders it: a result that is a view of memory the library reuses (a
// pooled digest buffer, a package-level scratch array) changes under the caller's hands.
func held(b []byte, err error, again func()) string {
	if err != nil {
		return "err"
	}
	// (for one result in three nothing happens in between, see history.go)
	if len(b) > 0 && b[0]%3 != 0 {
		func() {
			defer func() { recover() }()
			again()
			again()
		}()
		pollute("held", []string{hx(b)})
	}
	return "ok " + hx(b)
}

func flag01(s string) bool {
	switch s {
	case "1":
		return true
	case "0":
		return false
	}
	panic(badCase("bad flag in case line: " + s))
}

func evalC19(op string, args []string) string {
	// the argument buffers of this case (with their spare capacity) and what they held
	cache, saved := map[int][]byte{}, map[int][]byte{}
	A := func(i int) []byte {
		if b, ok := cache[i]; ok {
			return b
		}
		b := unhx(args[i])
		cache[i] = b
		saved[i] = append([]byte{}, b[:cap(b)]...)
		return b
	}
	r := evalC19Inner(op, args, A)
	for i, b := range cache {
		if !bytes.Equal(b[:cap(b)], saved[i]) {
			return "arguments-changed"
		}
	}
	return r
}

func evalC19Inner(op string, args []string, A func(int) []byte) string {
	need := map[string]int{"utf16": 1, "chash": 3, "nthash": 1, "ntpw": 1, "chresp": 2, "descrypt": 2, "paritypad": 1,
		"ntresp": 4, "authresp": 5, "masterkey": 2, "startkey": 3, "makekey": 3}
	if n, ok := need[op]; !ok || len(args) != n {
		return "BAD-CASE"
	}
	switch op {
	case "utf16":
		return okOrErr(rfc2759.ToUTF16(A(0)))
	case "chash":
		priorVariants([][]byte{A(0), A(1), A(2)}, func(a [][]byte) { rfc2759.ChallengeHash(a[0], a[1], a[2]) })
		return held(rfc2759.ChallengeHash(A(0), A(1), A(2)), nil, func() {
			rfc2759.ChallengeHash(other(A(0)), A(1), other(A(2)))
		})
	case "nthash":
		return held(rfc2759.NTPasswordHash(A(0)), nil, func() { rfc2759.NTPasswordHash(other(A(0))) })
	case "ntpw":
		u, err := rfc2759.ToUTF16(A(0))
		if err != nil {
			return "err"
		}
		return "ok " + hx(rfc2759.NTPasswordHash(u))
	case "chresp":
		priorVariants([][]byte{A(0), A(1)}, func(a [][]byte) { rfc2759.ChallengeResponse(a[0], a[1]) })
		return held(rfc2759.ChallengeResponse(A(0), A(1)), nil, func() {
			rfc2759.ChallengeResponse(other(A(0)), other(A(1)))
		})
	case "descrypt":
		priorVariants([][]byte{A(0), A(1)}, func(a [][]byte) { rfc2759.DESCrypt(a[0], a[1]) })
		return "ok " + hx(rfc2759.DESCrypt(A(0), A(1)))
	case "paritypad":
		if !c19LinkAvailable {
			return "UNOBSERVABLE" // built with -tags c19nolink: the unexported function is out of reach
		}
		return "ok " + hx(rfc2759ParityPadDESKey(A(0)))
	case "ntresp":
		priorVariants([][]byte{A(0), A(1), A(2), A(3)}, func(a [][]byte) { rfc2759.GenerateNTResponse(a[0], a[1], a[2], a[3]) })
		r, err := rfc2759.GenerateNTResponse(A(0), A(1), A(2), A(3))
		return held(r, err, func() {
			rfc2759.GenerateNTResponse(other(A(0)), A(1), other(A(2)), A(3))
		})
	case "authresp":
		priorVariants([][]byte{A(0), A(1), A(2), A(3), A(4)}, func(a [][]byte) {
			rfc2759.GenerateAuthenticatorResponse(a[0], a[1], a[2], a[3], a[4])
		})
		s, err := rfc2759.GenerateAuthenticatorResponse(A(0), A(1), A(2), A(3), A(4))
		if err != nil {
			return "err"
		}
		for _, c := range []byte(s) {
			if c <= ' ' || c > '~' {
				return "ok " + "non-printable:" + hx([]byte(s))
			}
		}
		return "ok " + s
	case "masterkey":
		priorVariants([][]byte{A(0), A(1)}, func(a [][]byte) { rfc3079.GetMasterKey(a[0], a[1]) })
		return held(rfc3079.GetMasterKey(A(0), A(1)), nil, func() {
			rfc3079.GetMasterKey(other(A(0)), other(A(1)))
		})
	case "startkey":
		n, err := strconv.ParseUint(args[1], 10, 32)
		if err != nil {
			panic(badCase("bad uint in case line: " + args[1]))
		}
		priorVariants([][]byte{A(0)}, func(a [][]byte) { rfc3079.GetAsymmetricStartKey(a[0], rfc3079.KeyLength(n), flag01(args[2])) })
		r, err := rfc3079.GetAsymmetricStartKey(A(0), rfc3079.KeyLength(n), flag01(args[2]))
		return held(r, err, func() {
			rfc3079.GetAsymmetricStartKey(A(0), rfc3079.KeyLength(n), !flag01(args[2]))
			rfc3079.GetAsymmetricStartKey(other(A(0)), rfc3079.KeyLength(n), flag01(args[2]))
		})
	case "makekey":
		priorVariants([][]byte{A(0), A(1)}, func(a [][]byte) { rfc3079.MakeKey(a[0], a[1], flag01(args[2])) })
		r, err := rfc3079.MakeKey(A(0), A(1), flag01(args[2]))
		return held(r, err, func() {
			// (the shipped MS-CHAPv2 server example derives the receive key and then the send key)
			rfc3079.MakeKey(A(0), A(1), !flag01(args[2]))
			rfc3079.MakeKey(other(A(0)), A(1), flag01(args[2]))
		})
	}
	return "UNKNOWN-OP"
}

// ---- generators ----

var c19Boundary = []rune{'e', 0x0301, 0x0327, 0x0301, 0x212b, 0x2126, 0xf900, 0x1100, 0x1161, 0x11a8, 0x00, 0x01, 0x7f, 0x80, 0x7ff, 0x800, 0xd7ff, 0xe000, 0xfeff, 0xfffd, 0xfffe, 0xffff,
	0x10000, 0x10001, 0x1f600, 0xfffff, 0x100000, 0x10fffd, 0x10ffff, 'a', 'Z', '0', ' ', 0xe9, 0x3a9, 0x20ac, 0x4e2d}

// rune of a given style: 0 ASCII printable, 1 two-octet, 2 three-octet, 3 astral, 4 boundary, 5 any scalar
func (g *Gen) c19Rune(style int) rune {
	switch style {
	case 0:
		return rune(0x20 + g.Intn(0x5f))
	case 1:
		return rune(0x80 + g.Intn(0x800-0x80))
	case 2:
		for {
			r := rune(0x800 + g.Intn(0x10000-0x800))
			if r < 0xd800 || r > 0xdfff {
				return r
			}
		}
	case 3:
		return rune(0x10000 + g.Intn(0x110000-0x10000))
	case 4:
		return c19Boundary[g.Intn(len(c19Boundary))]
	}
	return g.c19Rune(g.Intn(5))
}

// valid UTF-8 password of 0..256 characters
func (g *Gen) c19Password() []byte {
	n := g.Pick(0, 1, 2, 3, 7, 8, 10, 14, 15, 16, 27, 28, 31, 32, 33, 55, 56, 64, 100, 127, 128, 200, 255, 256, -1, -1, -1, -1)
	if n < 0 {
		n = g.Intn(257)
	}
	style := g.Pick(0, 0, 0, 1, 2, 3, 3, 4, 5, 5)
	var b []byte
	for i := 0; i < n; i++ {
		b = utf8.AppendRune(b, g.c19Rune(style))
	}
	return b
}

// byte strings that are NOT valid UTF-8 (outside the property's domain; correspondence only)
func (g *Gen) c19BadUTF8() []byte {
	samples := [][]byte{{0xff}, {0x80}, {0xc3}, {0xc3, 0x28}, {0xe2, 0x82}, {0xed, 0xa0, 0x80}, {0xed, 0xbf, 0xbf}, {0xf4, 0x90, 0x80, 0x80},
		{0xc0, 0x80}, {0xc1, 0xbf}, {0xe0, 0x80, 0x80}, {0xe0, 0x9f, 0xbf}, {0xf0, 0x80, 0x80, 0x80}, {0xf0, 0x8f, 0xbf, 0xbf}, {0xf0, 0x9f, 0x98},
		{0xf5, 0x80, 0x80, 0x80}, {0xf8, 0x88, 0x80, 0x80, 0x80}, {0xfe}, {0xe2, 0x28, 0xa1}, {0xf0, 0x28, 0x8c, 0xbc}, {0xf0, 0x90, 0x28, 0xbc}}
	switch g.Intn(3) {
	case 0:
		return samples[g.Intn(len(samples))]
	case 1:
		// a valid password with one damaged position
		b := append([]byte{}, g.c19Password()...)
		bad := samples[g.Intn(len(samples))]
		pos := g.Intn(len(b) + 1)
		return append(append(append([]byte{}, b[:pos]...), bad...), b[pos:]...)
	default:
		for {
			b := g.RandBytes(g.Range(1, 24))
			if !utf8.Valid(b) {
				return b
			}
		}
	}
}

func (g *Gen) c19Pw() []byte {
	if g.Chance(1, 16) {
		return g.c19BadUTF8()
	}
	return g.c19Password()
}

func (g *Gen) c19Challenge() []byte {
	return g.Bytes(g.Pick(16, 16, 16, 16, 16, 16, 16, 16, 0, 1, 8, 15, 17, 32, 64))
}

func (g *Gen) c19User() []byte {
	n := g.Pick(0, 1, 4, 8, 20, 23, 24, 55, 64, 100, 255, 256, -1, -1)
	if n < 0 {
		n = g.Intn(257)
	}
	if g.Chance(3, 4) {
		b := make([]byte, n)
		for i := range b {
			b[i] = byte(0x20 + g.Intn(0x5f))
		}
		return b
	}
	return g.Bytes(n)
}

func (g *Gen) c19NTResponse() []byte {
	if g.Chance(1, 7) {
		return g.Bytes(g.Pick(0, 1, 16, 23, 25, 48))
	}
	return g.Bytes(24)
}

func b01(b bool) string {
	if b {
		return "1"
	}
	return "0"
}

func genC19(g *Gen, tier string, emit func(op string, args ...string)) {
	// --- fixed part: the RFCs' worked examples and exhaustive small scopes
	user := []byte("User")
	pass := []byte("clientPass")
	authCh := unhx("5b5d7c7d7b3f2f3e3c2c602132262628")
	peerCh := unhx("21402324255e262a28295f2b3a337c7e")
	ntr := unhx("82309ecd8d708b5ea08faa3981cd83544233114a3d85d6df")
	emit("ntresp", hxIn(authCh), hxIn(peerCh), hxIn(user), hxIn(pass))
	emit("authresp", hxIn(authCh), hxIn(peerCh), hxIn(ntr), hxIn(user), hxIn(pass))
	emit("makekey", hxIn(ntr), hxIn(pass), "1")
	emit("makekey", hxIn(ntr), hxIn(pass), "0")
	// every session key length 0..20 (and the lengths beyond, observed only) x both directions
	mks := [][]byte{unhx("fdece3717a8c838cb388e527ae3cdd31"), make([]byte, 16), g.RandBytes(16), g.RandBytes(16)}
	for _, mk := range mks {
		for l := 0; l <= 26; l++ {
			emit("startkey", hxIn(mk), itoa(l), "1")
			emit("startkey", hxIn(mk), itoa(l), "0")
		}
	}
	for _, l := range []int{32, 64, 1 << 20} {
		emit("startkey", hxIn(mks[0]), itoa(l), "1")
	}
	// master keys, NT responses, challenges and password hashes of every length 0..130 (the sizes of the
	// neighbouring protocol fields — 49/50-octet MS-CHAP2-Response values, 8/16/24/32 — lie in between)
	for l := 0; l <= 130; l++ {
		emit("startkey", hxIn(g.Bytes(l)), itoa(g.Pick(8, 16)), b01(g.Bool()))
		emit("makekey", hxIn(g.Bytes(l)), hxIn(g.c19Password()), b01(g.Bool()))
		emit("makekey", hxIn(g.Bytes(l)), hxIn(g.c19Password()), b01(g.Bool()))
		emit("masterkey", hxIn(g.Bytes(16)), hxIn(g.Bytes(l)))
		emit("masterkey", hxIn(g.Bytes(l)), hxIn(g.Bytes(24)))
		emit("authresp", hxIn(g.Bytes(16)), hxIn(g.Bytes(16)), hxIn(g.Bytes(l)), "55", hxIn(g.c19Password()))
	}
	// key expansion: every single key bit, every octet pattern in every position, all lengths 0..12
	for bit := 0; bit < 56; bit++ {
		k := make([]byte, 7)
		k[bit/8] = 0x80 >> uint(bit%8)
		emit("paritypad", hxIn(k))
		emit("descrypt", hxIn(k), hxIn(g.RandBytes(8)))
		for i := range k {
			k[i] ^= 0xff
		}
		emit("paritypad", hxIn(k))
	}
	for pos := 0; pos < 7; pos++ {
		stepv := 1
		if tier == "quick" {
			stepv = 5
		}
		for v := 0; v < 256; v += stepv {
			k := g.RandBytes(7)
			k[pos] = byte(v)
			emit("paritypad", hxIn(k))
		}
	}
	for l := 0; l <= 12; l++ {
		emit("paritypad", hxIn(g.RandBytes(l)))
		emit("descrypt", hxIn(g.RandBytes(l)), hxIn(g.RandBytes(8)))
		emit("descrypt", hxIn(g.RandBytes(7)), hxIn(g.RandBytes(l)))
		emit("descrypt", hxIn(g.RandBytes(8)), hxIn(g.RandBytes(l)))
	}
	for l := 0; l <= 24; l++ {
		emit("chresp", hxIn(g.RandBytes(8)), hxIn(g.RandBytes(l)))
		emit("chresp", hxIn(g.RandBytes(l)), hxIn(g.RandBytes(16)))
	}
	// every boundary scalar alone and in pairs; every password length 0..256 once
	for _, r := range c19Boundary {
		emit("utf16", hxIn(utf8.AppendRune(nil, r)))
		for _, r2 := range c19Boundary {
			emit("ntpw", hxIn(utf8.AppendRune(utf8.AppendRune(nil, r), r2)))
		}
	}
	for l := 0; l <= 256; l++ {
		var b []byte
		st := g.Intn(6)
		for i := 0; i < l; i++ {
			b = utf8.AppendRune(b, g.c19Rune(st))
		}
		emit("ntresp", hxIn(g.RandBytes(16)), hxIn(g.RandBytes(16)), hxIn(g.c19User()), hxIn(b))
	}
	// SHA-1 / MD4 padding boundaries
	for _, l := range []int{0, 1, 54, 55, 56, 57, 63, 64, 65, 118, 119, 120, 127, 128, 129, 511, 512, 513} {
		emit("nthash", hxIn(g.Bytes(l)))
		emit("chash", hxIn(g.Bytes(l)), "-", "-")
	}

	// --- random part
	n := 20000
	if tier == "thorough" {
		n = 120000
	}
	for i := 0; i < n; i++ {
		pw := g.c19Pw()
		emit("utf16", hxIn(pw))
		emit("ntpw", hxIn(g.c19Pw()))
		emit("nthash", hxIn(g.Bytes(g.Pick(0, 2, 16, 20, 32, 56, 64, 100, 512))))
		emit("chash", hxIn(g.c19Challenge()), hxIn(g.c19Challenge()), hxIn(g.c19User()))
		ch := g.RandBytes(8)
		ph := g.Bytes(16)
		if g.Chance(1, 10) {
			ch = g.Bytes(g.Pick(0, 7, 8, 9, 16))
		}
		if g.Chance(1, 10) {
			ph = g.Bytes(g.Pick(0, 7, 14, 15, 16, 17, 20, 21, 22, 32))
		}
		emit("chresp", hxIn(ch), hxIn(ph))
		// DESCrypt: 7- and 8-octet keys (the 8-octet key with the parity bits of its 7-octet form, or random)
		k7 := g.Bytes(7)
		clear := g.RandBytes(8)
		emit("descrypt", hxIn(k7), hxIn(clear))
		emit("paritypad", hxIn(k7))
		emit("descrypt", hxIn(g.RandBytes(8)), hxIn(clear))
		if g.Chance(1, 8) {
			emit("descrypt", hxIn(g.RandBytes(g.Pick(0, 1, 6, 9, 16))), hxIn(g.RandBytes(g.Pick(7, 8, 9))))
		}
		emit("ntresp", hxIn(g.c19Challenge()), hxIn(g.c19Challenge()), hxIn(g.c19User()), hxIn(pw))
		emit("authresp", hxIn(g.c19Challenge()), hxIn(g.c19Challenge()), hxIn(g.c19NTResponse()), hxIn(g.c19User()), hxIn(g.c19Pw()))
		phh := g.Bytes(16)
		if g.Chance(1, 8) {
			phh = g.Bytes(g.Pick(0, 15, 17, 20))
		}
		emit("masterkey", hxIn(phh), hxIn(g.c19NTResponse()))
		mk := g.Bytes(16)
		if g.Chance(1, 6) {
			mk = g.Bytes(g.Pick(0, 8, 15, 17, 20, 32))
		}
		emit("startkey", hxIn(mk), itoa(g.Pick(8, 16, g.Intn(21), g.Intn(21))), b01(g.Bool()))
		emit("makekey", hxIn(g.c19NTResponse()), hxIn(g.c19Pw()), b01(g.Bool()))
	}
}
