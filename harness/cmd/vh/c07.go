package main

import (
	"bytes"
	"context"
	"errors"
	"fmt"
	"hash/fnv"
	"io"
	"log"
	"net"
	"os"
	"os/exec"
	"runtime"
	"strings"
	"sync"
	"sync/atomic"
	"time"

	"layeh.com/radius"
)

// The "server lab": a real radius.PacketServer driven deterministically.  Every point at which the
// Go scheduler could choose is under the harness's control: the conn's ReadFrom returns only when
// the harness feeds a datagram or releases the read error after Close; the SecretSource parks each
// datagram goroutine at its first statement; handlers park until released; the verif hooks park
// Serve after its registration region and Shutdown before its select.  A scenario is a list of
// commands executed one after the other, each waiting for its own deterministic completion event.
//
//	S<i>            start Serve on conn i          -> parked | shutdown | err
//	s<i>            resume Serve i from its park   -> reading | shutdown | noop
//	D<i>:<peer>:<hex>  feed a datagram to conn i   -> asked (goroutine parked in the secret source) | noop
//	d<t>            let datagram goroutine t run   -> handler:<peer>:<id>:<fields…> | dropped | noop
//	F<t>:<code>     handler t replies (code>0) and returns -> done[:reply…] | noop
//	X<j>            start Shutdown j               -> parked | nil | ctx
//	x<j>            resume Shutdown j              -> ok | noop
//	C<j>            cancel the context of Shutdown j
//	W<j>            wait for Shutdown j            -> nil | ctx | blocked
//	e<i>            let Serve i see its closed conn -> shutdown | err | noop
//	Z               release everything, shut down, and check that every call returns -> clean | stuck:…

func init() {
	props["C07"] = &prop{gen: genC07, eval: evalServerSub, timeout: 60 * time.Second}
	props["C06"] = &prop{gen: genC06, eval: evalServerSub, timeout: 60 * time.Second}
}

const labWait = 8 * time.Second          // completion of a step that must happen
const labBlocked = 80 * time.Millisecond // how long "blocked" is observed before it is reported

type labDgram struct {
	data []byte
	addr net.Addr
}

type labAddr struct{ s string }

// (pointer receivers, and a NEW *labAddr for every datagram: that is what net.UDPConn.ReadFrom hands out - two
// addresses of the same peer are then different interface values, equal only as strings)
func (a *labAddr) Network() string { return "udp" }
func (a *labAddr) String() string  { return a.s }

type labConn struct {
	idx      int
	in       chan labDgram
	closed   chan struct{}
	closeCnt int32
	once     sync.Once
	errGo    chan struct{} // e<c> hands one token to every Serve call reading the conn at that moment
	closeErr bool          // Close reports an error (every second scenario)
	readErr  chan error    // an injected read failure (f<c>:<kind>), taken by exactly one reader
	reading  chan struct{} // signalled each time ReadFrom is entered
	lab      *lab
}

func (c *labConn) ReadFrom(p []byte) (int, net.Addr, error) {
	select {
	case c.reading <- struct{}{}:
	default:
	}
	select {
	case d := <-c.in:
		return copy(p, d.data), d.addr, nil
	case <-c.errGo:
		return 0, nil, &net.OpError{Op: "read", Net: "udp", Err: net.ErrClosed}
	case err := <-c.readErr:
		return 0, nil, err
	}
}

// tempErr is a net.Error that reports itself as temporary (e.g. a timeout)
type tempErr struct{}

func (tempErr) Error() string   { return "i/o timeout (injected)" }
func (tempErr) Timeout() bool   { return true }
func (tempErr) Temporary() bool { return true }

func (c *labConn) WriteTo(p []byte, addr net.Addr) (int, error) {
	c.lab.mu.Lock()
	c.lab.writes = append(c.lab.writes, fmt.Sprintf("%d>%s:%s", c.idx, addr.String(), hx(p)))
	c.lab.mu.Unlock()
	return len(p), nil
}
func (c *labConn) Close() error {
	atomic.AddInt32(&c.closeCnt, 1)
	c.once.Do(func() { close(c.closed) })
	if c.closeErr {
		// (a Close that reports an error has still closed: "Shutdown closes every registered listener")
		return errors.New("close: reported by the lab's conn")
	}
	return nil
}
func (c *labConn) LocalAddr() net.Addr                { return &labAddr{fmt.Sprintf("local%d", c.idx)} }
func (c *labConn) SetDeadline(t time.Time) error      { return nil }
func (c *labConn) SetReadDeadline(t time.Time) error  { return nil }
func (c *labConn) SetWriteDeadline(t time.Time) error { return nil }

type labTask struct {
	ctxDoneAtEnd bool
	secretGo     chan struct{}
	handlerGo    chan int // reply code (0 = none)
	replyGo      chan int // R<t>:<code>: write a reply now and keep running
	replied      chan struct{}
	started      chan string
	peer         string
}

type lab struct {
	mu          sync.Mutex
	srv         *radius.PacketServer
	conns       []*labConn
	secrets     map[string][]byte // peer -> secret ("" = empty, missing = error)
	serveParked map[int]chan struct{}
	serveRet    map[int]chan string
	downParked  map[int]chan struct{}
	downRet     map[int]chan string
	downCancel  map[int]context.CancelFunc
	downCtx     map[int]context.Context
	tasks       []*labTask
	cur         *labTask
	askCh       chan int      // secret source asked: task index
	doneCh      chan struct{} // dgram.done hook
	hookCh      chan string   // serve.registered / shutdown.beforeWait arrivals
	hookGo      chan struct{}
	writes      []string
	serverCtx   context.Context
	panics      int32
	seq         int32
	events      []string
	// the handler scribbles over the Request value it was handed (identifier, source address) once it has what
	// it needs from it: nothing the server does afterwards may depend on the handler's copy
	scribble bool
}

func (l *lab) note(s string) {
	l.mu.Lock()
	l.events = append(l.events, s)
	l.mu.Unlock()
}

// RADIUSSecret parks the datagram goroutine until d<t>.
func (l *lab) RADIUSSecret(ctx context.Context, remoteAddr net.Addr) ([]byte, error) {
	l.mu.Lock()
	t := &labTask{secretGo: make(chan struct{}), handlerGo: make(chan int, 1), replyGo: make(chan int), replied: make(chan struct{}), started: make(chan string, 1), peer: remoteAddr.String()}
	l.tasks = append(l.tasks, t)
	idx := len(l.tasks) - 1
	if l.serverCtx == nil {
		l.serverCtx = ctx
	}
	release := t.secretGo // read under the lock: the controller clears the field when it releases the task
	l.mu.Unlock()
	l.askCh <- idx
	<-release
	s, ok := l.secrets[remoteAddr.String()]
	if !ok {
		// (an error together with a plausible stale / fallback secret: "the secret source yields a secret" is the
		// outcome WITHOUT an error - what comes along with an error must not be used)
		return []byte("s"), errors.New("no secret for peer")
	}
	return s, nil
}

func (l *lab) ServeRADIUS(w radius.ResponseWriter, r *radius.Request) {
	// exactly one datagram goroutine is released at a time (d<t> waits for its outcome)
	l.mu.Lock()
	t := l.cur
	l.cur = nil
	ctxOK := r.Context() == l.serverCtx
	l.mu.Unlock()
	if t == nil {
		// released by Z: nobody waits for this handler
		return
	}
	// "carries … the server context": also through the request's own accessors - WithContext gives a shallow copy
	// with the new context and leaves the request it was called on alone; a request without a context has Background
	{
		type labCtxKey struct{}
		c2 := context.WithValue(r.Context(), labCtxKey{}, 1)
		r2 := r.WithContext(c2)
		if r2 == r || r2.Context() != c2 || r.Context() == c2 || r2.Packet != r.Packet || r2.RemoteAddr != r.RemoteAddr ||
			r2.LocalAddr != r.LocalAddr || (&radius.Request{}).Context() != context.Background() {
			ctxOK = false
		}
	}
	t.started <- fmt.Sprintf("%s:%d:%s:%s:%s:%s:ctx=%v:done=%v", r.RemoteAddr.String(), r.Identifier, itoa(int(r.Code)), showAttributes(r.Attributes), hx(r.Secret), r.LocalAddr.String(), ctxOK, r.Context().Err() != nil)
	var code int
	for waiting := true; waiting; {
		select {
		case code = <-t.handlerGo:
			waiting = false
		case rc := <-t.replyGo:
			// a handler that answers first and goes on working (accounting, logging): the request stays in flight
			early := r.Response(radius.Code(rc))
			early.Add(18, radius.Attribute("reply"))
			if err := w.Write(early); err != nil {
				l.note("write-error:" + err.Error())
			}
			t.replied <- struct{}{}
		}
	}
	// (sampled when the handler is about to return: Shutdown cancels the contexts of running handlers)
	select {
	case <-r.Context().Done():
		t.ctxDoneAtEnd = true
	default:
	}
	var resp *radius.Packet
	if code > 0 {
		resp = r.Response(radius.Code(code))
		resp.Add(18, radius.Attribute("reply"))
	}
	if l.scribble {
		// (a proxy renumbering the packet before relaying it, a middleware recording the NAS address)
		r.Packet.Identifier ^= 0x5a
		r.Packet.Attributes = nil
		r.RemoteAddr = &net.UDPAddr{IP: net.IPv4(203, 0, 113, 9), Port: 9}
		r.LocalAddr = &net.UDPAddr{IP: net.IPv4(203, 0, 113, 10), Port: 10}
	}
	if resp != nil {
		if err := w.Write(resp); err != nil {
			l.note("write-error:" + err.Error())
		}
	}
}

func newLab(nconn int, skipVerify bool, secrets map[string][]byte) *lab {
	l := &lab{secrets: secrets, serveParked: map[int]chan struct{}{}, serveRet: map[int]chan string{}, downParked: map[int]chan struct{}{},
		downRet: map[int]chan string{}, downCancel: map[int]context.CancelFunc{}, downCtx: map[int]context.Context{}, askCh: make(chan int, 64), doneCh: make(chan struct{}, 64), hookCh: make(chan string, 8)}
	l.srv = &radius.PacketServer{SecretSource: l, Handler: l, InsecureSkipVerify: skipVerify}
	for i := 0; i < nconn; i++ {
		l.conns = append(l.conns, &labConn{idx: i, in: make(chan labDgram), closed: make(chan struct{}), errGo: make(chan struct{}), readErr: make(chan error), reading: make(chan struct{}, 8), lab: l})
	}
	return l
}

// the hook parks the calling goroutine at serve.registered / shutdown.beforeWait until released
func (l *lab) hook(point string) {
	switch point {
	case "dgram.done":
		l.doneCh <- struct{}{}
	case "serve.registered", "shutdown.beforeWait":
		l.mu.Lock()
		g := make(chan struct{})
		l.hookGo = g
		l.mu.Unlock()
		l.hookCh <- point
		<-g
	}
}

func recoverTo(ch chan string, l *lab) {
	if r := recover(); r != nil {
		atomic.AddInt32(&l.panics, 1)
		ch <- fmt.Sprintf("PANIC(%v)", r)
	}
}

func errName(err error) string {
	switch {
	case err == nil:
		return "nil"
	case err == radius.ErrServerShutdown:
		return "shutdown"
	case errors.Is(err, context.Canceled), errors.Is(err, context.DeadlineExceeded):
		return "ctx"
	}
	return "err"
}

func waitStr(ch chan string, d time.Duration) (string, bool) {
	select {
	case s := <-ch:
		return s, true
	case <-time.After(d):
		return "", false
	}
}

// obsList collects observation tokens; with a writer they are also flushed one by one, so that a
// crash of the process keeps what was observed before it.
type obsList struct {
	toks []string
	w    *os.File
}

func (o *obsList) add(t string) {
	o.toks = append(o.toks, t)
	if o.w != nil {
		if len(o.toks) > 1 {
			o.w.WriteString(" ")
		}
		o.w.WriteString(t)
	}
}

func runServerScenario(skipVerify bool, secretSpec string, cmds []string, w *os.File) string {
	secrets := map[string][]byte{}
	nconn := 0
	if secretSpec != "-" {
		for _, e := range strings.Split(secretSpec, ",") {
			f := strings.Split(e, ":")
			if len(f) != 2 {
				return "BAD-CASE"
			}
			if f[1] == "error" {
				continue
			}
			secrets["peer"+f[0]] = unhx(f[1])
		}
	}
	for _, c := range cmds {
		if c == "" {
			return "BAD-CASE"
		}
		f := strings.Split(c[1:], ":")
		n := 0
		switch c[0] {
		case 'S', 'D':
			n = atoi(f[0]) + 1
		case 'T':
			if len(f) != 2 {
				return "BAD-CASE"
			}
			n = atoi(f[1]) + 1
		}
		if n > nconn {
			nconn = n
		}
	}
	if nconn > 4 {
		return "BAD-CASE"
	}
	l := newLab(nconn, skipVerify, secrets)
	if len(cmds)%2 == 1 {
		// every second scenario with the optional error logger configured (what the server logs is not an
		// observation; that it behaves the same with and without a logger is)
		l.srv.ErrorLog = log.New(io.Discard, "", 0)
	}
	for _, c := range l.conns {
		c.closeErr = (len(cmds)+len(secretSpec))%2 == 1
	}
	{
		h := fnv.New32a()
		h.Write([]byte(strings.Join(cmds, ",")))
		l.scribble = h.Sum32()%2 == 0
	}
	radius.VerifSetHook(l.hook)
	defer radius.VerifSetHook(nil)
	ol := &obsList{w: w}
	serveState := map[int]string{} // "", parked, reading, returned
	serveConn := map[int]int{}
	readersOn := func(c int) []int {
		var r []int
		for i := 0; i < 8; i++ {
			if serveState[i] == "reading" && serveConn[i] == c {
				r = append(r, i)
			}
		}
		return r
	}
	drain := func(ch chan struct{}) {
		for {
			select {
			case <-ch:
			default:
				return
			}
		}
	}
	downState := map[int]string{}
	taskState := map[int]string{} // asked, handler, done
	reqWire := map[int][]byte{}
	taskConn := map[int]int{}
	pendingDgram := map[int][]byte{}

	serveReturned := func(i int, r string) {
		serveState[i] = "returned:" + r
	}
	for _, c := range cmds {
		if c == "" {
			return "BAD-CASE"
		}
		arg := c[1:]
		switch c[0] {
		case 'S', 'T':
			i, cn := 0, 0
			if c[0] == 'S' {
				i = atoi(arg)
				cn = i
			} else {
				f := strings.Split(arg, ":")
				i, cn = atoi(f[0]), atoi(f[1])
			}
			if i < 0 || i > 7 || cn < 0 || cn >= nconn || serveState[i] != "" {
				ol.add("S=noop")
				continue
			}
			serveConn[i] = cn
			ret := make(chan string, 2)
			l.serveRet[i] = ret
			go func() {
				defer recoverTo(ret, l)
				ret <- errName(l.srv.Serve(l.conns[cn]))
			}()
			select {
			case <-l.hookCh:
				l.mu.Lock()
				l.serveParked[i] = l.hookGo
				l.mu.Unlock()
				serveState[i] = "parked"
				ol.add("S=parked")
			case r := <-ret:
				serveReturned(i, r)
				ol.add("S=" + r)
			case <-time.After(labWait):
				ol.add("S=HANG")
				return strings.Join(ol.toks, " ")
			}
		case 's':
			i := atoi(arg)
			if serveState[i] != "parked" {
				ol.add("s=noop")
				continue
			}
			drain(l.conns[serveConn[i]].reading)
			close(l.serveParked[i])
			select {
			case <-l.conns[serveConn[i]].reading:
				serveState[i] = "reading"
				ol.add("s=reading")
			case r := <-l.serveRet[i]:
				serveReturned(i, r)
				ol.add("s=" + r)
			case <-time.After(labWait):
				ol.add("s=HANG")
				return strings.Join(ol.toks, " ")
			}
		case 'D':
			f := strings.Split(arg, ":")
			if len(f) != 3 {
				return "BAD-CASE"
			}
			i := atoi(f[0])
			if i < 0 || i >= nconn || len(readersOn(i)) != 1 {
				// (with several Serve calls reading one conn the receiver of a datagram is not determined)
				ol.add("D=noop")
				continue
			}
			// (a datagram fed AFTER the conn was closed, to a Serve call that has not seen the closed conn yet, is a
			// datagram its ReadFrom had already taken when Close was called: the read returns it - RV.Model.Server2's
			// serveRead before the Close, serveSpawn after it.  It is a received datagram like any other.)
			reader := readersOn(i)[0]
			drain(l.conns[i].reading)
			data := unhx(f[2])
			select {
			case l.conns[i].in <- labDgram{data, &labAddr{"peer" + f[1]}}:
			case <-time.After(labWait):
				ol.add("D=HANG")
				return strings.Join(ol.toks, " ")
			}
			select {
			case t := <-l.askCh:
				taskState[t] = "asked"
				taskConn[t] = i
				pendingDgram[t] = data
				ol.add("D=asked")
			case r := <-l.serveRet[reader]:
				// Serve returned instead of handing the datagram to a goroutine
				serveReturned(reader, r)
				ol.add("D=serve-returned:" + r)
				continue
			case <-time.After(labWait):
				ol.add("D=HANG")
				return strings.Join(ol.toks, " ")
			}
			// Serve goes back to ReadFrom
			select {
			case <-l.conns[i].reading:
			case <-time.After(labWait):
				ol.add("D=HANG2")
				return strings.Join(ol.toks, " ")
			}
		case 'd':
			t := atoi(arg)
			if taskState[t] != "asked" {
				ol.add("d=noop")
				continue
			}
			l.mu.Lock()
			tk := l.tasks[t]
			g := tk.secretGo
			tk.secretGo = nil
			l.cur = tk
			l.mu.Unlock()
			close(g)
			select {
			case s := <-tk.started:
				taskState[t] = "handler"
				reqWire[t] = pendingDgram[t]
				ol.add("d=handler:" + s)
			case <-l.doneCh:
				taskState[t] = "done"
				ol.add("d=dropped")
			case <-time.After(labWait):
				ol.add("d=HANG")
				return strings.Join(ol.toks, " ")
			}
		case 'F':
			f := strings.Split(arg, ":")
			t := atoi(f[0])
			code := 0
			if len(f) > 1 {
				code = atoi(f[1])
			}
			if taskState[t] != "handler" {
				ol.add("F=noop")
				continue
			}
			l.mu.Lock()
			nw := len(l.writes)
			l.mu.Unlock()
			l.tasks[t].handlerGo <- code
			select {
			case <-l.doneCh:
			case <-time.After(labWait):
				ol.add("F=HANG")
				return strings.Join(ol.toks, " ")
			}
			taskState[t] = "done"
			l.mu.Lock()
			ws := append([]string{}, l.writes[nw:]...)
			l.mu.Unlock()
			o := "F=done"
			for _, w := range ws {
				// conn>addr:hex ; verify the reply against the request datagram under the peer's secret
				parts := strings.SplitN(w, ":", 2)
				raw := unhx(parts[1])
				sec := secrets[l.tasks[t].peer]
				// checked against RFC 2865 §3 by hand, not through the library's own predicate
				auth := len(raw) >= 20 && len(reqWire[t]) >= 20 && len(sec) > 0 &&
					bytes.Equal(md5sum(raw[:4], reqWire[t][4:20], raw[20:], sec), raw[4:20])
				o += fmt.Sprintf(":%s:conn%d:auth=%v:code=%d", parts[0], taskConn[t], auth, raw[0])
			}
			l.mu.Lock()
			o += fmt.Sprintf(":cd=%v", l.tasks[t].ctxDoneAtEnd)
			l.mu.Unlock()
			ol.add(o)
		case 'R':
			f := strings.Split(arg, ":")
			if len(f) != 2 {
				return "BAD-CASE"
			}
			t, code := atoi(f[0]), atoi(f[1])
			if taskState[t] != "handler" || code == 0 {
				ol.add("R=noop")
				continue
			}
			l.mu.Lock()
			nw := len(l.writes)
			l.mu.Unlock()
			select {
			case l.tasks[t].replyGo <- code:
			case <-time.After(labWait):
				ol.add("R=HANG")
				return strings.Join(ol.toks, " ")
			}
			select {
			case <-l.tasks[t].replied:
			case <-time.After(labWait):
				ol.add("R=HANG")
				return strings.Join(ol.toks, " ")
			}
			l.mu.Lock()
			ws := append([]string{}, l.writes[nw:]...)
			l.mu.Unlock()
			o := "R=sent"
			if len(ws) == 0 {
				o = "R=noop"
			}
			for _, w := range ws {
				parts := strings.SplitN(w, ":", 2)
				raw := unhx(parts[1])
				sec := secrets[l.tasks[t].peer]
				auth := len(raw) >= 20 && len(reqWire[t]) >= 20 && len(sec) > 0 &&
					bytes.Equal(md5sum(raw[:4], reqWire[t][4:20], raw[20:], sec), raw[4:20])
				o += fmt.Sprintf(":%s:conn%d:auth=%v:code=%d", parts[0], taskConn[t], auth, raw[0])
			}
			ol.add(o)
		case 'X':
			j := atoi(arg)
			if j < 0 || j > 3 || downState[j] != "" {
				ol.add("X=noop")
				continue
			}
			ctx, ok := l.downCtx[j]
			if !ok {
				ctx, l.downCancel[j] = context.WithCancel(context.Background())
				l.downCtx[j] = ctx
			}
			ret := make(chan string, 2)
			l.downRet[j] = ret
			go func() {
				defer recoverTo(ret, l)
				ret <- errName(l.srv.Shutdown(ctx))
			}()
			select {
			case <-l.hookCh:
				l.mu.Lock()
				l.downParked[j] = l.hookGo
				l.mu.Unlock()
				downState[j] = "parked"
				ol.add("X=parked")
			case r := <-ret:
				downState[j] = "returned:" + r
				ol.add("X=" + r)
			case <-time.After(labWait):
				ol.add("X=HANG")
				return strings.Join(ol.toks, " ")
			}
		case 'x':
			j := atoi(arg)
			if downState[j] != "parked" {
				ol.add("x=noop")
				continue
			}
			close(l.downParked[j])
			downState[j] = "waiting"
			ol.add("x=ok")
		case 'C':
			j := atoi(arg)
			if j < 0 || j > 3 {
				ol.add("C=noop")
				continue
			}
			if _, ok := l.downCancel[j]; !ok {
				// the caller's context ends before Shutdown is called with it
				l.downCtx[j], l.downCancel[j] = context.WithCancel(context.Background())
			}
			l.downCancel[j]()
			ol.add("C=ok")
		case 'W':
			// W<j> or W<j>:<ms> - how long "blocked" is watched before it is reported (default labBlocked)
			wf := strings.SplitN(arg, ":", 2)
			j := atoi(wf[0])
			watch := labBlocked
			if len(wf) == 2 {
				if ms := atoi(wf[1]); ms > 0 && ms <= 20000 {
					watch = time.Duration(ms) * time.Millisecond
				} else {
					return "BAD-CASE"
				}
			}
			switch {
			case strings.HasPrefix(downState[j], "returned:"):
				ol.add("W=" + strings.TrimPrefix(downState[j], "returned:"))
			case downState[j] == "waiting":
				if r, ok := waitStr(l.downRet[j], watch); ok {
					downState[j] = "returned:" + r
					ol.add("W=" + r)
				} else {
					ol.add("W=blocked")
				}
			default:
				ol.add("W=noop")
			}
		case 'e':
			cn := atoi(arg)
			rs := []int{}
			if cn >= 0 && cn < nconn {
				rs = readersOn(cn)
			}
			if len(rs) == 0 || atomic.LoadInt32(&l.conns[cn].closeCnt) == 0 {
				ol.add("e=noop")
				continue
			}
			var res []string
			hang := false
			for range rs {
				select {
				case l.conns[cn].errGo <- struct{}{}:
				case <-time.After(labWait):
					hang = true
				}
			}
			for _, i := range rs {
				if r, ok := waitStr(l.serveRet[i], labWait); ok {
					serveReturned(i, r)
					res = append(res, r)
				} else {
					hang = true
				}
			}
			if hang {
				ol.add("e=HANG")
				return strings.Join(ol.toks, " ")
			}
			ol.add("e=" + strings.Join(res, "+"))
		case 'f':
			// a read failure that does not come from Close: exactly one of the Serve calls reading conn c gets it
			f := strings.Split(arg, ":")
			if len(f) != 2 {
				return "BAD-CASE"
			}
			cn := atoi(f[0])
			rs := []int{}
			if cn >= 0 && cn < nconn {
				rs = readersOn(cn)
			}
			if len(rs) == 0 {
				ol.add("f=noop")
				continue
			}
			var e error
			switch f[1] {
			case "nontemp":
				e = &net.OpError{Op: "read", Net: "udp", Err: errors.New("injected failure")}
			case "temp":
				e = tempErr{}
			case "plain":
				e = errors.New("injected plain error")
			default:
				return "BAD-CASE"
			}
			drain(l.conns[cn].reading)
			select {
			case l.conns[cn].readErr <- e:
			case <-time.After(labWait):
				ol.add("f=HANG")
				return strings.Join(ol.toks, " ")
			}
			outcome := ""
			deadline := time.Now().Add(labWait)
			for outcome == "" && time.Now().Before(deadline) {
				for _, i := range rs {
					select {
					case r := <-l.serveRet[i]:
						serveReturned(i, r)
						outcome = r + "@" + itoa(i)
					default:
					}
					if outcome != "" {
						break
					}
				}
				if outcome == "" {
					select {
					case <-l.conns[cn].reading:
						outcome = "retry"
					case <-time.After(200 * time.Microsecond):
					}
				}
			}
			if outcome == "" {
				ol.add("f=HANG")
				return strings.Join(ol.toks, " ")
			}
			ol.add("f=" + outcome)
		case 'Z':
			// release everything in a fixed order and require that every call returns
			stuck := ""
			// (once something is found stuck the remaining waits are short: the verdict is settled)
			zwait := func() time.Duration {
				if stuck != "" {
					return 300 * time.Millisecond
				}
				return labWait
			}
			radius.VerifSetHook(func(p string) {})
			for j, st := range downState {
				if st == "parked" {
					close(l.downParked[j])
					downState[j] = "waiting"
				}
			}
			// make sure shutdown has been requested
			zret := make(chan string, 2)
			go func() {
				defer recoverTo(zret, l)
				radius.VerifSetHook(func(p string) {})
				ctx, cancel := context.WithTimeout(context.Background(), labWait)
				defer cancel()
				zret <- errName(l.srv.Shutdown(ctx))
			}()
			time.Sleep(5 * time.Millisecond)
			for i, st := range serveState {
				if st == "parked" {
					close(l.serveParked[i])
					serveState[i] = "reading"
				}
			}
			for t, st := range taskState {
				if st == "asked" {
					l.mu.Lock()
					g := l.tasks[t].secretGo
					l.tasks[t].secretGo = nil
					l.mu.Unlock()
					close(g)
				}
			}
			// handlers that start now, and the ones already running, are released
			deadline := time.After(labWait)
			go func() {
				for {
					l.mu.Lock()
					ts := append([]*labTask{}, l.tasks...)
					l.mu.Unlock()
					for _, tk := range ts {
						select {
						case tk.handlerGo <- 0:
						default:
						}
					}
					select {
					case <-deadline:
						return
					case <-time.After(2 * time.Millisecond):
					}
				}
			}()
			for cn := range l.conns {
				rs := readersOn(cn)
				if len(rs) == 0 {
					continue
				}
				// wait for Close by Shutdown, then release the read error to every reader
				select {
				case <-l.conns[cn].closed:
				case <-time.After(zwait()):
					stuck += fmt.Sprintf(",listener%d-not-closed", cn)
					continue
				}
				for range rs {
					select {
					case l.conns[cn].errGo <- struct{}{}:
					case <-time.After(zwait()):
						stuck += fmt.Sprintf(",reader-on-%d-not-reading", cn)
					}
				}
				for _, i := range rs {
					if r, ok := waitStr(l.serveRet[i], zwait()); ok {
						serveReturned(i, r)
						if r != "shutdown" {
							stuck += fmt.Sprintf(",serve%d=%s", i, r)
						}
					} else {
						stuck += fmt.Sprintf(",serve%d", i)
					}
				}
			}
			if r, ok := waitStr(zret, 2*zwait()); !ok || r != "nil" {
				stuck += ",final-shutdown=" + r
			}
			for j, st := range downState {
				if st == "waiting" {
					if r, ok := waitStr(l.downRet[j], zwait()); !ok {
						stuck += fmt.Sprintf(",shutdown%d", j)
					} else if strings.HasPrefix(r, "PANIC") {
						stuck += fmt.Sprintf(",shutdown%d=%s", j, r)
					}
				}
			}
			if atomic.LoadInt32(&l.panics) > 0 {
				stuck += ",panic"
			}
			if stuck == "" {
				ol.add("Z=clean")
			} else {
				ol.add("Z=stuck:" + strings.TrimPrefix(stuck, ","))
			}
		default:
			return "BAD-CASE"
		}
	}
	return strings.Join(ol.toks, " ")
}

// Every scenario runs in a subprocess: a double close of lastActive inside a datagram goroutine is
// an unrecoverable panic, which must be an observation ("CRASH"), not the death of the harness.
func evalServerSub(op string, args []string) string {
	if op == "nilcfg" && len(args) == 1 {
		return runNilCfg()
	}
	if (op == "dups" || op == "downs" || op == "finishes" || op == "listen") && len(args) == 1 {
		args = []string{op, args[0], "-"}
	} else if op != "scenario" || len(args) != 3 {
		return "UNKNOWN-OP"
	}
	if os.Getenv("VH_INPROC") != "" {
		return evalServerInproc(args)
	}
	cmd := exec.Command(os.Args[0], "scenario", op, args[0], args[1], args[2])
	cmd.Env = append(os.Environ(), "VH_INPROC=1")
	out, err := cmd.Output()
	s := strings.TrimSpace(string(out))
	if err != nil {
		if ee, ok := err.(*exec.ExitError); ok {
			switch {
			case strings.Contains(string(ee.Stderr), "DATA RACE"):
				return strings.TrimSpace(s + " RACE(data race reported by the race detector)")
			case strings.Contains(string(ee.Stderr), "close of closed channel"):
				return strings.TrimSpace(s + " CRASH(close of closed channel)")
			case strings.Contains(string(ee.Stderr), "concurrent map"):
				return strings.TrimSpace(s + " CRASH(concurrent map access)")
			}
		}
		return strings.TrimSpace(s + " CRASH")
	}
	if s == "" {
		return "BAD-CASE" // (the in-process evaluator refused the case)
	}
	return s
}

func evalServerInproc(args []string) string {
	if args[0] == "dups" {
		return runDups(atoi(args[1]), nil)
	}
	if args[0] == "downs" {
		return runDowns(atoi(args[1]))
	}
	if args[0] == "finishes" {
		return runFinishes(atoi(args[1]))
	}
	if args[0] == "listen" {
		return runListen(args[1])
	}
	skip := args[0] == "1"
	if args[2] == "-" {
		return "BAD-CASE"
	}
	return runServerScenario(skip, args[1], strings.Split(args[2], ","), nil)
}

// ---- ListenAndServe end to end: the server opens its own UDP socket on Addr (Network: "-" = the default), a
// datagram that is not RADIUS is dropped (with an ErrorLog configured), a request sent over the loopback gets an
// authentic reply from the address it was sent to, Shutdown returns nil and ListenAndServe returns ErrServerShutdown.
func runListen(network string) (out string) {
	defer func() {
		if r := recover(); r != nil {
			out = fmt.Sprintf("PANIC(%v)", r)
		}
	}()
	if network != "-" && network != "udp" && network != "udp4" {
		return "BAD-CASE"
	}
	secret := []byte("listen-secret")
	for attempt := 0; ; attempt++ {
		// a free port: bind, look, release (another process may take it in between: then the attempt is repeated)
		probe, err := net.ListenPacket("udp4", "127.0.0.1:0")
		if err != nil {
			return "HARNESS-listen:" + err.Error()
		}
		addr := probe.LocalAddr().String()
		probe.Close()
		var starts, pairStarts int32
		release := make(chan struct{})
		srv := &radius.PacketServer{Addr: addr, SecretSource: radius.StaticSecretSource(secret), ErrorLog: log.New(io.Discard, "", 0),
			Handler: radius.HandlerFunc(func(w radius.ResponseWriter, r *radius.Request) {
				if string(r.Get(1)) == "pair" {
					// (the two-peers phase below: the handler stays in flight until both peers' requests have been seen)
					atomic.AddInt32(&pairStarts, 1)
					select {
					case <-release:
					case <-time.After(8 * time.Second):
					}
					w.Write(r.Response(radius.CodeAccessAccept))
					return
				}
				atomic.AddInt32(&starts, 1)
				w.Write(r.Response(radius.CodeAccessAccept))
			})}
		if network != "-" {
			srv.Network = network
		}
		ret := make(chan error, 1)
		go func() { ret <- srv.ListenAndServe() }()
		client, err := net.Dial("udp4", addr)
		if err != nil {
			return "HARNESS-dial:" + err.Error()
		}
		reply, early := "none", false
		buf := make([]byte, 4096)
		deadline := time.Now().Add(5 * time.Second)
	send:
		for id := 0; time.Now().Before(deadline); id++ {
			select {
			case <-ret:
				early = true // (the port was taken, or ListenAndServe gave up)
				break send
			default:
			}
			client.Write([]byte("not a RADIUS datagram"))
			req := &radius.Packet{Code: radius.CodeAccessRequest, Identifier: byte(id), Secret: secret}
			copy(req.Authenticator[:], bytes.Repeat([]byte{byte(id + 1)}, 16))
			req.Add(1, radius.Attribute("listen"))
			wire, _ := req.Encode()
			client.Write(wire)
			client.SetReadDeadline(time.Now().Add(150 * time.Millisecond))
			for {
				n, err := client.Read(buf)
				if err != nil {
					continue send // (not listening yet, or slow: ask again with the next identifier)
				}
				// (a reply to an EARLIER identifier that arrives late is authentic for that request, not for this one:
				// read on for this one's)
				if n >= 2 && buf[1] != byte(id) {
					continue
				}
				reply = fmt.Sprintf("auth=%v:code=%d:id-matches=%v", radius.IsAuthenticResponse(buf[:n], wire, secret), buf[0], n >= 2)
				break send
			}
		}
		client.Close()
		// Two peers on ONE host (same IP, different source ports) send a request with the SAME identifier while the
		// first one's handler is still running: the source addresses differ, so both are served (real UDP addresses;
		// the lab's conns hand out addresses of their own type).  Nothing is resent: each datagram is sent once.
		pair := "-"
		if !early && reply != "none" {
			pair = runListenPair(addr, secret, &pairStarts, release)
		} else {
			close(release)
		}
		if early && attempt < 3 {
			ctx, cancel := context.WithTimeout(context.Background(), time.Second)
			srv.Shutdown(ctx)
			cancel()
			continue
		}
		ctx, cancel := context.WithTimeout(context.Background(), 3*time.Second)
		down := errName(srv.Shutdown(ctx))
		cancel()
		r := "HANG"
		if early {
			r = "returned-early"
		} else {
			select {
			case err := <-ret:
				r = errName(err)
			case <-time.After(3 * time.Second):
			}
		}
		handled := "no"
		if atomic.LoadInt32(&starts) >= 1 {
			handled = "yes"
		}
		return fmt.Sprintf("reply=%s handled=%s pair=%s addrs=%s udpclose=%s shutdown=%s ret=%s", reply, handled, pair, runAddrPairs(), runUDPClose(), down, r)
	}
}

// runListenPair: see runListen.  Returns "<handlers started>:<authentic replies>" ("2:2" when both peers are served).
func runListenPair(addr string, secret []byte, pairStarts *int32, release chan struct{}) string {
	released := false
	defer func() {
		if !released {
			close(release)
		}
	}()
	var conns [2]net.Conn
	var wires [2][]byte
	for k := range conns {
		c, err := net.Dial("udp4", addr)
		if err != nil {
			return "HARNESS-dial:" + err.Error()
		}
		defer c.Close()
		conns[k] = c
		req := &radius.Packet{Code: radius.CodeAccessRequest, Identifier: 250, Secret: secret}
		copy(req.Authenticator[:], bytes.Repeat([]byte{byte(0x70 + k)}, 16))
		req.Add(1, radius.Attribute("pair"))
		wires[k], _ = req.Encode()
	}
	for k := range conns {
		conns[k].Write(wires[k])
		// (the first peer's handler is in flight before the second peer sends; then up to five seconds for the second)
		for t := time.Now().Add(5 * time.Second); time.Now().Before(t) && atomic.LoadInt32(pairStarts) < int32(k+1); {
			time.Sleep(2 * time.Millisecond)
		}
	}
	started := atomic.LoadInt32(pairStarts)
	close(release)
	released = true
	authentic := 0
	buf := make([]byte, 4096)
	for k := range conns {
		conns[k].SetReadDeadline(time.Now().Add(1500 * time.Millisecond))
		if n, err := conns[k].Read(buf); err == nil && radius.IsAuthenticResponse(buf[:n], wires[k], secret) && buf[0] == byte(radius.CodeAccessAccept) {
			authentic++
		}
	}
	return fmt.Sprintf("%d:%d", started, authentic)
}

// addrConn: a conn whose peers are real *net.UDPAddr values (the lab's own conns hand out addresses of the lab's
// own type, so a branch of the code on the concrete address type never runs there).
type addrDgram struct {
	data []byte
	addr net.Addr
}
type addrConn struct {
	in     chan addrDgram
	closed chan struct{}
	once   sync.Once
}

func (c *addrConn) ReadFrom(p []byte) (int, net.Addr, error) {
	select {
	case d := <-c.in:
		return copy(p, d.data), d.addr, nil
	case <-c.closed:
		return 0, nil, net.ErrClosed
	}
}
func (c *addrConn) WriteTo(p []byte, _ net.Addr) (int, error) { return len(p), nil }
func (c *addrConn) Close() error                              { c.once.Do(func() { close(c.closed) }); return nil }
func (c *addrConn) LocalAddr() net.Addr                       { return &net.UDPAddr{IP: net.IPv4(127, 0, 0, 1), Port: 1812} }
func (c *addrConn) SetDeadline(time.Time) error               { return nil }
func (c *addrConn) SetReadDeadline(time.Time) error           { return nil }
func (c *addrConn) SetWriteDeadline(time.Time) error          { return nil }

// runAddrPairs: for each pair of DIFFERENT source addresses (differing in the IPv6 zone only, in the port only, in
// the IP only) both peers send a request with the same identifier, the second while the first one's handler is
// held: both are served.  Returns the handlers started per pair ("2,2,2").
func runAddrPairs() (out string) {
	defer func() {
		if r := recover(); r != nil {
			out = fmt.Sprintf("PANIC(%v)", r)
		}
	}()
	secret := []byte("addr-secret")
	ll := net.ParseIP("fe80::1")
	pairs := [][2]*net.UDPAddr{
		{{IP: ll, Port: 5000, Zone: "eth0"}, {IP: ll, Port: 5000, Zone: "eth1"}},
		{{IP: net.IPv4(10, 0, 0, 1), Port: 5000}, {IP: net.IPv4(10, 0, 0, 1), Port: 5001}},
		{{IP: net.IPv4(10, 0, 0, 1).To4(), Port: 5000}, {IP: net.IPv4(10, 0, 0, 2).To4(), Port: 5000}},
	}
	var starts int32
	release := make(chan struct{})
	srv := &radius.PacketServer{SecretSource: radius.StaticSecretSource(secret),
		Handler: radius.HandlerFunc(func(w radius.ResponseWriter, r *radius.Request) {
			atomic.AddInt32(&starts, 1)
			select {
			case <-release:
			case <-time.After(12 * time.Second):
			}
			w.Write(r.Response(radius.CodeAccessAccept))
		})}
	conn := &addrConn{in: make(chan addrDgram), closed: make(chan struct{})}
	ret := make(chan error, 1)
	go func() { ret <- srv.Serve(conn) }()
	var toks []string
	for k, pr := range pairs {
		before := atomic.LoadInt32(&starts)
		req := &radius.Packet{Code: radius.CodeAccessRequest, Identifier: byte(7 + k), Secret: secret}
		copy(req.Authenticator[:], bytes.Repeat([]byte{byte(0x40 + k)}, 16))
		req.Add(1, radius.Attribute("addr"))
		wire, _ := req.Encode()
		for j, a := range pr {
			select {
			case conn.in <- addrDgram{wire, a}:
			case <-time.After(5 * time.Second):
				return "HANG-feed"
			}
			for t := time.Now().Add(3 * time.Second); time.Now().Before(t) && atomic.LoadInt32(&starts) < before+int32(j+1); {
				time.Sleep(time.Millisecond)
			}
		}
		toks = append(toks, itoa(int(atomic.LoadInt32(&starts)-before)))
	}
	close(release)
	ctx, cancel := context.WithTimeout(context.Background(), 3*time.Second)
	srv.Shutdown(ctx)
	cancel()
	select {
	case <-ret:
	case <-time.After(3 * time.Second):
		return "HANG-serve"
	}
	return strings.Join(toks, ",")
}

// runUDPClose: a listener that is a real *net.UDPConn, a handler that is still running, a Shutdown whose context
// ends first: Shutdown returns the context's error and the listener IS closed by then ("Shutdown closes every
// registered listener" does not wait for the handlers); after the handler has finished a second Shutdown returns nil
// and Serve has returned ErrServerShutdown.  "yes:ctx:nil:shutdown"; "skipped" if the request never arrived.
func runUDPClose() (out string) {
	defer func() {
		if r := recover(); r != nil {
			out = fmt.Sprintf("PANIC(%v)", r)
		}
	}()
	secret := []byte("udp-secret")
	conn, err := net.ListenPacket("udp4", "127.0.0.1:0")
	if err != nil {
		return "skipped"
	}
	defer conn.Close()
	started := make(chan struct{}, 4)
	release := make(chan struct{})
	srv := &radius.PacketServer{SecretSource: radius.StaticSecretSource(secret),
		Handler: radius.HandlerFunc(func(w radius.ResponseWriter, r *radius.Request) {
			started <- struct{}{}
			select {
			case <-release:
			case <-time.After(12 * time.Second):
			}
		})}
	ret := make(chan error, 1)
	go func() { ret <- srv.Serve(conn) }()
	client, err := net.Dial("udp4", conn.LocalAddr().String())
	if err != nil {
		close(release)
		return "skipped"
	}
	defer client.Close()
	req := &radius.Packet{Code: radius.CodeAccessRequest, Identifier: 9, Secret: secret}
	copy(req.Authenticator[:], bytes.Repeat([]byte{0x55}, 16))
	wire, _ := req.Encode()
	client.Write(wire)
	select {
	case <-started:
	case <-time.After(5 * time.Second):
		close(release)
		ctx, cancel := context.WithTimeout(context.Background(), 3*time.Second)
		srv.Shutdown(ctx)
		cancel()
		return "skipped"
	}
	ctx, cancel := context.WithTimeout(context.Background(), 60*time.Millisecond)
	first := errName(srv.Shutdown(ctx))
	cancel()
	closed := "no"
	conn.SetReadDeadline(time.Now().Add(300 * time.Millisecond))
	if _, _, err := conn.ReadFrom(make([]byte, 16)); errors.Is(err, net.ErrClosed) {
		closed = "yes"
	}
	close(release)
	ctx, cancel = context.WithTimeout(context.Background(), 5*time.Second)
	second := errName(srv.Shutdown(ctx))
	cancel()
	served := "HANG"
	select {
	case err := <-ret:
		served = errName(err)
	case <-time.After(3 * time.Second):
	}
	return closed + ":" + first + ":" + second + ":" + served
}

// ---- a server without Handler / without SecretSource: Serve and ListenAndServe refuse at once (an error, no
// panic, nothing registered), and a later Shutdown returns nil
func runNilCfg() (out string) {
	defer func() {
		if r := recover(); r != nil {
			out = fmt.Sprintf("PANIC(%v)", r)
		}
	}()
	var toks []string
	for k, srv := range []*radius.PacketServer{
		{SecretSource: radius.StaticSecretSource([]byte("s"))},
		{Handler: radius.HandlerFunc(func(w radius.ResponseWriter, r *radius.Request) {})},
		{},
	} {
		conn := &dupConn{in: make(chan []byte), closed: make(chan struct{})}
		ret := make(chan error, 2)
		go func() { ret <- srv.Serve(conn) }()
		go func() { srv.Addr = "127.0.0.1:0"; ret <- srv.ListenAndServe() }()
		for i := 0; i < 2; i++ {
			select {
			case err := <-ret:
				if err == nil || err == radius.ErrServerShutdown {
					toks = append(toks, fmt.Sprintf("cfg%d=%s", k, errName(err)))
				} else {
					toks = append(toks, fmt.Sprintf("cfg%d=refused", k))
				}
			case <-time.After(3 * time.Second):
				toks = append(toks, fmt.Sprintf("cfg%d=HANG", k))
			}
		}
		ctx, cancel := context.WithTimeout(context.Background(), 3*time.Second)
		toks = append(toks, fmt.Sprintf("shutdown%d=%s", k, errName(srv.Shutdown(ctx))))
		cancel()
	}
	return strings.Join(toks, " ")
}

// ---- free-running concurrent Shutdown calls: n goroutines call Shutdown at the same moment, on a fresh
// server (nothing registered yet) or with one Serve call running; every call must return nil.  Unlike the
// parked scenarios nothing is serialised here, so the calls race for the critical section itself
// (300 rounds per case; meaningful under -race as well).
func runDowns(n int) string {
	if n < 2 || n > 16 {
		return "BAD-CASE"
	}
	for round := 0; round < 300; round++ {
		srv := &radius.PacketServer{SecretSource: radius.StaticSecretSource([]byte("s")), Handler: radius.HandlerFunc(func(w radius.ResponseWriter, r *radius.Request) {})}
		var conn *dupConn
		serveRet := make(chan error, 1)
		if round%2 == 1 {
			conn = &dupConn{in: make(chan []byte), closed: make(chan struct{})}
			go func() { serveRet <- srv.Serve(conn) }()
			if round%4 == 3 {
				time.Sleep(50 * time.Microsecond)
			}
		}
		start := make(chan struct{})
		rets := make(chan error, n)
		for i := 0; i < n; i++ {
			go func() {
				<-start
				ctx, cancel := context.WithTimeout(context.Background(), 3*time.Second)
				defer cancel()
				rets <- srv.Shutdown(ctx)
			}()
		}
		close(start)
		for i := 0; i < n; i++ {
			select {
			case err := <-rets:
				if err != nil {
					return fmt.Sprintf("round=%d shutdown=%s", round, errName(err))
				}
			case <-time.After(5 * time.Second):
				return fmt.Sprintf("round=%d shutdown=HANG", round)
			}
		}
		if conn != nil {
			select {
			case err := <-serveRet:
				if err != radius.ErrServerShutdown {
					return fmt.Sprintf("round=%d serve=%s", round, errName(err))
				}
			case <-time.After(5 * time.Second):
				return fmt.Sprintf("round=%d serve=HANG", round)
			}
		}
	}
	return "all=nil"
}

// ---- generators ----

// all interleavings of the given per-thread programs (order within a thread preserved)
func interleavings(threads [][]string, limit int, g *Gen, emit func([]string)) {
	total := 0
	for _, t := range threads {
		total += len(t)
	}
	if limit <= 0 {
		var rec func(pos []int, acc []string)
		rec = func(pos []int, acc []string) {
			if len(acc) == total {
				emit(append([]string{}, acc...))
				return
			}
			for ti, t := range threads {
				if pos[ti] < len(t) {
					pos[ti]++
					rec(pos, append(acc, t[pos[ti]-1]))
					pos[ti]--
				}
			}
		}
		rec(make([]int, len(threads)), nil)
		return
	}
	for n := 0; n < limit; n++ {
		pos := make([]int, len(threads))
		var acc []string
		for len(acc) < total {
			// pick a thread with remaining commands, weighted by what is left
			r := g.Intn(total - len(acc))
			for ti, t := range threads {
				left := len(t) - pos[ti]
				if r < left {
					acc = append(acc, t[pos[ti]])
					pos[ti]++
					break
				}
				r -= left
			}
		}
		emit(acc)
	}
}

func accessRequest(id byte, attrs ...string) []byte {
	p := &radius.Packet{Code: radius.CodeAccessRequest, Identifier: id, Secret: []byte("s")}
	for i := range p.Authenticator {
		p.Authenticator[i] = byte(i) + id
	}
	for _, a := range attrs {
		p.Add(1, radius.Attribute(a))
	}
	w, _ := p.Encode()
	return w
}

func accountingRequest(id byte, secret []byte) []byte {
	p := &radius.Packet{Code: radius.CodeAccountingRequest, Identifier: id, Secret: secret}
	p.Add(40, radius.NewInteger(1))
	w, _ := p.Encode()
	return w
}

func genC07(g *Gen, tier string, emit func(op string, args ...string)) {
	d0 := hx(accessRequest(7))
	d1 := hx(accessRequest(8, "bob"))
	for _, n := range []int{2, 2, 3, 4, 8, 16} {
		emit("downs", itoa(n))
	}
	// a Serve call that is refused (no Handler / no SecretSource) leaves nothing behind: Shutdown returns nil
	emit("nilcfg", "-")
	// "no data race": the clean-ups of handlers that return at the same instant
	for _, n := range []int{4, 16, 48, 520} {
		emit("finishes", itoa(n))
	}
	// ListenAndServe: the socket it opened is served until Shutdown, and it returns ErrServerShutdown like Serve
	emit("listen", "-")
	emit("listen", "udp4")
	sc := func(cmds []string) {
		emit("scenario", "0", "0:73", strings.Join(append(cmds, "Z"), ","))
	}
	serve := func(i int) []string { return []string{"S" + itoa(i), "s" + itoa(i), "e" + itoa(i)} }
	dgram := func(conn, t int, d string, code int) []string {
		return []string{"D" + itoa(conn) + ":0:" + d, "d" + itoa(t), "F" + itoa(t) + ":" + itoa(code)}
	}
	down := func(j int, cancel bool) []string {
		if cancel {
			return []string{"X" + itoa(j), "x" + itoa(j), "W" + itoa(j), "C" + itoa(j), "W" + itoa(j)}
		}
		return []string{"X" + itoa(j), "x" + itoa(j), "W" + itoa(j), "W" + itoa(j)}
	}
	// Shutdown with a context that never ends waits as long as a handler runs - seconds, not just the 80 ms the other
	// scenarios watch it for (a "grace period" after which it gives up with a context error it was never given)
	sc([]string{"S0", "s0", "D0:0:" + d0, "d0", "X0", "x0", "W0:4200", "F0:2", "e0", "W0"})
	// a datagram the read had already taken when Shutdown closed the conn: handled, and waited for
	sc([]string{"S0", "s0", "X0", "x0", "D0:0:" + d0, "W0", "d0", "W0", "F0:2", "W0", "e0", "W0"})
	sc([]string{"S0", "s0", "X0", "x0", "C0", "W0", "D0:0:" + d1, "d0", "F0:2", "e0"})
	// exhaustive: one Serve, one Shutdown (all 35 interleavings, incl. the registration window)
	interleavings([][]string{serve(0), down(0, false)}, 0, g, sc)
	// exhaustive: one Serve, one datagram, one Shutdown
	interleavings([][]string{serve(0), dgram(0, 0, d0, 2), {"X0", "x0", "W0"}}, 0, g, sc)
	// datagrams the server refuses (no octets, a runt, garbage, a request signed with another secret) are work it
	// has accounted for as well: Shutdown returns nil once they are dropped
	for _, bad := range []string{"-", "01", hx(g.RandBytes(19)), hx(g.RandBytes(40)), hx(accountingRequest(3, []byte("wrong")))} {
		interleavings([][]string{serve(0), {"D0:0:" + bad, "d0"}, {"X0", "x0", "W0"}}, 40, g, sc)
		sc([]string{"S0", "s0", "D0:0:" + bad, "d0", "D0:0:" + bad, "d1", "D0:0:" + d0, "d2", "F2:2", "X0", "x0", "e0", "W0"})
	}
	// the caller's context may have ended before Shutdown is called with it (then both select arms can be ready)
	interleavings([][]string{serve(0), {"C0"}, {"X0", "x0", "W0"}}, 0, g, sc)
	interleavings([][]string{{"S0", "s0"}, dgram(0, 0, d0, 2), {"C0", "X0", "x0", "W0", "e0", "W0"}}, 0, g, sc)
	n := 400
	if tier == "thorough" {
		n = 6000
		interleavings([][]string{serve(0), {"X0", "x0", "W0"}, {"X1", "x1", "C1", "W1"}}, 0, g, sc)
		interleavings([][]string{serve(0), serve(1), {"X0", "x0", "W0"}}, 0, g, sc)
	}
	// several Serve calls on ONE conn; read failures that do not come from Close (before Shutdown a
	// non-temporary one ends that Serve call only; after Shutdown any failure means ErrServerShutdown)
	shared := func(i int) []string { return []string{"T" + itoa(i) + ":0", "s" + itoa(i)} }
	for _, k := range []string{"nontemp", "temp", "plain"} {
		lim := 250 // (3780 interleavings per kind: all of them in the thorough tier)
		if tier == "thorough" {
			lim = 0
		}
		interleavings([][]string{shared(0), shared(1), {"f0:" + k}, {"X0", "x0", "e0", "W0"}}, lim, g, sc)
		// a handler outlives its Serve call (the read failure ends Serve, the listener is gone from the table):
		// Shutdown must still cancel its context and wait for it
		sc([]string{"S0", "s0", "D0:0:" + d0, "d0", "f0:" + k, "e0", "X0", "x0", "F0:2", "W0"})
		sc([]string{"S0", "s0", "D0:0:" + d0, "d0", "f0:" + k, "e0", "X0", "x0", "C0", "W0", "F0:0"})
		interleavings([][]string{{"S0", "s0"}, dgram(0, 0, d0, 2), {"f0:" + k, "e0"}, {"X0", "x0", "W0"}}, lim/2, g, sc)
		sc([]string{"S0", "s0", "X0", "x0", "f0:" + k, "W0"})
		sc([]string{"T0:0", "s0", "T1:0", "s1", "X0", "x0", "f0:" + k, "f0:" + k, "W0"})
		sc([]string{"T0:0", "s0", "T1:0", "s1", "f0:" + k, "D0:0:" + d0, "d0", "F0:2", "X0", "x0", "e0", "W0"})
		sc([]string{"T0:1", "s0", "T1:1", "s1", "T2:1", "s2", "f1:" + k, "f1:" + k, "X0", "x0", "W0", "e1", "W0"})
	}
	// sampled: larger configurations
	interleavings([][]string{serve(0), dgram(0, 0, d0, 2), dgram(0, 1, d1, 0), down(0, false)}, n, g, sc)
	interleavings([][]string{serve(0), serve(1), dgram(0, 0, d0, 3), dgram(1, 1, d0, 2), down(0, false), down(1, true)}, n, g, sc)
	interleavings([][]string{serve(0), dgram(0, 0, d0, 2), dgram(0, 1, d0, 2), dgram(0, 2, d1, 11), down(0, true), {"S1", "s1", "e1"}}, n, g, sc)
	interleavings([][]string{{"T0:0", "s0", "f0:nontemp", "e0"}, {"T1:0", "s1", "f0:temp"}, {"T2:1", "s2", "f1:plain", "e1"}, dgram(1, 0, d0, 2), down(0, false)}, n, g, sc)
}

func genC06(g *Gen, tier string, emit func(op string, args ...string)) {
	n := 500
	if tier == "thorough" {
		n = 8000
	}
	secrets := "0:73,1:7365637265743a31,2:-,3:error"
	secretOf := map[int][]byte{0: []byte("s"), 1: []byte("secret:1")}
	for k := 0; k < n/10; k++ {
		emit("dups", itoa(g.Pick(2, 3, 5, 8, 16)))
	}
	emit("nilcfg", "-")
	for _, nw := range []string{"-", "udp", "udp4"} {
		emit("listen", nw)
	}
	for _, k := range []int{2, 3, 8, 16, 32, 300, 600} {
		emit("finishes", itoa(k))
	}
	// a handler that answers first and goes on working: the request stays in flight until the handler RETURNS - a
	// retransmission that arrives after the reply is still a duplicate, and the identifier is served again afterwards
	{
		d := hx(accessRequest(21))
		e := hx(accountingRequest(22, []byte("s")))
		sc := func(cmds ...string) { emit("scenario", "0", secrets, strings.Join(append(cmds, "Z"), ",")) }
		sc("S0", "s0", "D0:0:"+d, "d0", "R0:2", "D0:0:"+d, "d1", "F0:0", "D0:0:"+d, "d2", "F2:2")
		sc("S0", "s0", "D0:0:"+d, "d0", "R0:2", "R0:3", "D0:0:"+d, "d1", "D0:0:"+e, "d2", "R2:5", "D0:0:"+e, "d3", "F2:0", "F0:2", "D0:0:"+e, "d4", "F4:5")
		sc("S0", "s0", "D0:0:"+d, "d0", "R0:2", "X0", "x0", "D0:0:"+d, "F0:0", "e0", "W0")
		// a datagram the read had already taken when Shutdown closed the conn is a received datagram: exactly one
		// handler, the reply goes out, and Shutdown waits for it
		sc("S0", "s0", "X0", "x0", "D0:0:"+d, "d0", "F0:2", "e0", "W0")
		// a handler whose reply cannot be encoded (no such code): Write reports the error, nothing goes out, the request
		// is released when the handler returns and the server keeps serving
		sc("S0", "s0", "D0:0:"+d, "d0", "F0:77", "D0:0:"+d, "d1", "F1:2")
		sc("S0", "s0", "D0:0:"+e, "d0", "R0:256", "R0:5", "F0:300", "D0:0:"+e, "d1", "F1:5")
		sc("S0", "s0", "X0", "x0", "D0:0:"+e, "W0", "d0", "W0", "F0:5", "W0", "e0", "W0")
		sc("S0", "s0", "D0:0:"+d, "d0", "X0", "x0", "D0:0:"+d, "d1", "D0:0:"+e, "d2", "F0:2", "F2:5", "e0", "W0")
	}
	// directed: two or three requests from DIFFERENT peers (and from one peer with different identifiers)
	// in flight on one Serve call; the handlers reply in every order — each reply must go to its own
	// request's source
	{
		mk := func(peer int, id byte) string {
			p := &radius.Packet{Code: 1, Identifier: id, Secret: []byte("x")}
			copy(p.Authenticator[:], g.RandBytes(16))
			w, _ := p.Encode()
			return "D0:" + itoa(peer) + ":" + hx(w)
		}
		sec := "0:73,1:7365637265743a31,2:-,3:error"
		// an authentic but unparsable datagram must not leave its (source, identifier) registered:
		// a later valid request with the same source and identifier is served
		{
			bad := accessRequest(33, "x")
			bad[len(bad)-2] = 9
			good := accessRequest(33, "y")
			for _, peer := range []string{"0", "1"} {
				emit("scenario", "0", sec, strings.Join([]string{"S0", "s0", "D0:" + peer + ":" + hx(bad), "d0", "D0:" + peer + ":" + hx(good), "d1", "F1:2", "D0:" + peer + ":" + hx(good), "d2", "F2:2", "Z"}, ","))
				emit("scenario", "1", sec, strings.Join([]string{"S0", "s0", "D0:" + peer + ":" + hx(bad[:19]), "d0", "D0:" + peer + ":" + hx(good), "d1", "F1:0", "Z"}, ","))
			}
			// the duplicate table is per Serve call: the same (source, identifier) in flight on another
			// socket of the same server is a different request
			emit("scenario", "0", sec, strings.Join([]string{"S0", "s0", "S1", "s1", "D0:0:" + hx(good), "d0", "D1:0:" + hx(good), "d1", "D0:0:" + hx(good), "d2", "F1:2", "F0:2", "Z"}, ","))
			emit("scenario", "0", sec, strings.Join([]string{"S0", "s0", "S1", "s1", "D1:1:" + hx(good), "d0", "D0:1:" + hx(good), "d1", "F0:3", "D1:1:" + hx(good), "d2", "F2:2", "F1:2", "Z"}, ","))
		}
		// the in-flight table is keyed by the PAIR (source address, identifier): pairs whose textual
		// concatenation coincides ("peer1"+"23" = "peer12"+"3") are different requests
		{
			sec2 := "1:73,12:73,11:73,2:73,23:73"
			for _, pr := range [][4]int{{1, 23, 12, 3}, {12, 3, 1, 23}, {1, 11, 11, 1}, {2, 31, 23, 1}, {1, 123, 11, 23}} {
				a, b := hx(accessRequest(byte(pr[1]), "u")), hx(accessRequest(byte(pr[3]), "u"))
				emit("scenario", "0", sec2, strings.Join([]string{"S0", "s0", "D0:" + itoa(pr[0]) + ":" + a, "d0", "D0:" + itoa(pr[2]) + ":" + b, "d1",
					"D0:" + itoa(pr[0]) + ":" + a, "d2", "F1:2", "F0:2", "Z"}, ","))
			}
		}
		// a VALID request of exactly 4096 octets is served like any other
		{
			p := &radius.Packet{Code: radius.CodeAccessRequest, Identifier: 44, Secret: []byte("s")}
			copy(p.Authenticator[:], g.RandBytes(16))
			total := 20
			for total < 4096 {
				l := 253
				if 4096-total < 2+l {
					l = 4096 - total - 2
				}
				if l < 0 {
					break
				}
				p.Add(79, g.RandBytes(l))
				total += 2 + l
			}
			if w, err := p.Encode(); err == nil && len(w) == 4096 {
				emit("scenario", "0", sec, strings.Join([]string{"S0", "s0", "D0:0:" + hx(w), "d0", "F0:2", "Z"}, ","))
				emit("scenario", "0", sec, strings.Join([]string{"S0", "s0", "D0:0:" + hx(w[:4095]), "d0", "D0:0:" + hx(append(append([]byte{}, w...), 0)), "d1", "Z"}, ","))
			}
		}
		// octets after the Length field: the authenticity predicate hashes what it is handed, Parse ignores
		// padding — a padded Accounting-/Disconnect-/CoA-Request signed over its Length octets only is not
		// authentic, one signed over the whole datagram is and is served
		for _, code := range []int{4, 40, 43} {
			p := &radius.Packet{Code: radius.Code(code), Identifier: byte(50 + code), Secret: []byte("s")}
			p.Add(40, radius.NewInteger(1))
			w, _ := p.Encode()
			pad := g.RandBytes(g.Pick(1, 6, 300))
			overLength := append(append([]byte{}, w...), pad...)
			overAll := append(append([]byte{}, w...), pad...)
			copy(overAll[4:20], make([]byte, 16))
			copy(overAll[4:20], md5sum(overAll, []byte("s")))
			emit("scenario", "0", sec, strings.Join([]string{"S0", "s0", "D0:0:" + hx(overLength), "d0", "D0:0:" + hx(overAll), "d1", "F1:" + itoa(code+1), "D0:0:" + hx(w), "d2", "F2:" + itoa(code+1), "Z"}, ","))
		}
		// twenty datagrams of garbage, then a valid request: the server keeps serving
		{
			cmds := []string{"S0", "s0"}
			for k := 0; k < 20; k++ {
				var junk []byte
				switch k % 5 {
				case 0:
					junk = g.RandBytes(g.Pick(0, 1, 2, 19))
				case 1:
					junk = g.wireImage()
				case 2:
					junk = g.RandBytes(g.Pick(4096, 4097, 4500))
				case 3:
					junk = accessRequest(byte(k), "x")
					junk[len(junk)-2] = 9
				default:
					junk = accountingRequest(byte(k), []byte("wrong"))
				}
				cmds = append(cmds, "D0:"+itoa(k%2)+":"+hx(junk), "d"+itoa(k))
			}
			cmds = append(cmds, "D0:0:"+hx(accessRequest(77, "alive")), "d20", "F20:2", "Z")
			emit("scenario", "0", sec, strings.Join(cmds, ","))
			emit("scenario", "1", sec, strings.Join(cmds, ","))
		}
		// three hundred refused datagrams (runts, wrong-secret accounting requests, unknown peers), then a valid
		// request: whatever the server keeps per datagram must be given back for refused ones as well
		{
			cmds := []string{"S0", "s0"}
			for k := 0; k < 300; k++ {
				var junk []byte
				switch k % 3 {
				case 0:
					junk = g.RandBytes(g.Pick(0, 1, 19))
				case 1:
					junk = accountingRequest(byte(k), []byte("wrong"))
				default:
					junk = g.RandBytes(g.Pick(20, 24))
					junk[0], junk[2], junk[3] = 4, 0, byte(len(junk))
				}
				cmds = append(cmds, "D0:"+itoa(k%2)+":"+hx(junk), "d"+itoa(k))
			}
			cmds = append(cmds, "D0:0:"+hx(accessRequest(78, "alive")), "d300", "F300:2", "Z")
			emit("scenario", "0", sec, strings.Join(cmds, ","))
		}
		for _, peers := range [][]int{{0, 1}, {1, 0}, {0, 1, 0}, {0, 0}} {
			var pre []string
			for t, pr := range peers {
				pre = append(pre, mk(pr, byte(10+t)), "d"+itoa(t))
			}
			var order func(done []int)
			order = func(done []int) {
				if len(done) == len(peers) {
					cmds := append([]string{"S0", "s0"}, pre...)
					for _, t := range done {
						cmds = append(cmds, "F"+itoa(t)+":"+itoa(g.Pick(2, 3, 11)))
					}
					emit("scenario", "0", sec, strings.Join(append(cmds, "Z"), ","))
					return
				}
				for t := range peers {
					used := false
					for _, d := range done {
						if d == t {
							used = true
						}
					}
					if !used {
						order(append(append([]int{}, done...), t))
					}
				}
			}
			order(nil)
		}
	}
	for k := 0; k < n; k++ {
		skip := "0"
		if g.Chance(1, 5) {
			skip = "1"
		}
		cmds := []string{"S0", "s0"}
		nconn := 1
		if g.Chance(1, 4) {
			cmds = append(cmds, "S1", "s1")
			nconn = 2
		}
		var pendingAsk, running []int
		t := 0
		for steps := g.Range(2, 14); steps > 0; steps-- {
			switch g.Intn(6) {
			case 0, 1, 2:
				peer := g.Pick(0, 0, 0, 1, 1, 2, 3)
				sec := secretOf[peer]
				if sec == nil {
					sec = []byte("whatever")
				}
				id := byte(g.Pick(1, 1, 2, 3, 0, 255))
				var d []byte
				switch g.Intn(9) {
				case 0, 1, 2:
					p := &radius.Packet{Code: 1, Identifier: id, Secret: sec}
					copy(p.Authenticator[:], g.RandBytes(16))
					p.Add(1, radius.Attribute("u"+itoa(g.Intn(3))))
					d, _ = p.Encode()
				case 3:
					d = accountingRequest(id, sec)
					if g.Chance(1, 2) {
						// an AUTHENTIC Disconnect- or CoA-Request (signed like an Accounting-Request)
						p := &radius.Packet{Code: radius.Code(g.Pick(40, 43)), Identifier: id, Secret: sec}
						p.Add(40, radius.NewInteger(1))
						d, _ = p.Encode()
					}
				case 4: // forged accounting / CoA request
					d = accountingRequest(id, []byte("wrong"))
					if g.Bool() {
						d[0] = byte(g.Pick(40, 43))
					}
				case 5: // reply code: never an authentic request
					d = accessRequest(id)
					d[0] = byte(g.Pick(2, 3, 5, 11, 13, 255))
				case 6: // authentic but unparsable: attribute length runs past the packet
					d = accessRequest(id, "x")
					d[len(d)-2] = 9
				case 7:
					d = g.RandBytes(g.Pick(0, 5, 19, 20, 25))
					switch g.Intn(4) {
					case 0: // any wire image the packet generator knows (well-formed or damaged)
						d = g.wireImage()
					case 1: // a maximal datagram, and longer ones (the read buffer cuts at 4096)
						d = g.RandBytes(g.Pick(4095, 4096, 4097, 4100, 5000))
						d[0] = byte(g.Pick(1, 4, 12))
						d[2], d[3] = byte(g.Pick(0x10, 0x0f)), byte(g.Pick(0, 1, 0xff))
					}
				case 8: // Status-Server
					d = accessRequest(id)
					d[0] = 12
				}
				cmds = append(cmds, "D"+itoa(g.Intn(nconn))+":"+itoa(peer)+":"+hx(d))
				pendingAsk = append(pendingAsk, t)
				t++
			case 3:
				if len(pendingAsk) > 0 {
					i := g.Intn(len(pendingAsk))
					cmds = append(cmds, "d"+itoa(pendingAsk[i]))
					running = append(running, pendingAsk[i])
					pendingAsk = append(pendingAsk[:i], pendingAsk[i+1:]...)
				}
			default:
				if len(running) > 0 {
					i := g.Intn(len(running))
					cmds = append(cmds, "F"+itoa(running[i])+":"+itoa(g.Pick(0, 2, 2, 3, 5, 11, 41, 44, 1, 4, 99)))
					running = append(running[:i], running[i+1:]...)
				}
			}
		}
		cmds = append(cmds, "Z")
		emit("scenario", skip, secrets, strings.Join(cmds, ","))
	}
}

// ---- free-running duplicates: n identical datagrams delivered back to back; the handler blocks, so
// exactly one of them may reach it while the others must be dropped by the dedup table.  Unlike the
// parked scenarios this lets the goroutines race for the table (meaningful under -race as well).
type dupConn struct {
	barrier *barrierAddr
	// perPeer > 0: datagram number k comes from peer k/perPeer (more requests in flight than one peer has identifiers)
	perPeer int
	served  int32
	in      chan []byte
	closed  chan struct{}
	once    sync.Once
}

// barrierAddr lines the datagram goroutines up: Serve builds the key of the in-flight table from
// remoteAddr.String() right before it consults the table, so every goroutine of a round waits here for the
// others (or 30 ms) and they all reach the test-and-insert together.
type barrierAddr struct {
	n         int32
	arrived   *int32
	releaseAt *int64 // unix nanoseconds, set by the last arrival: everybody leaves at that instant
}

func (a *barrierAddr) Network() string { return "udp" }
func (a *barrierAddr) String() string {
	if atomic.AddInt32(a.arrived, 1) == a.n {
		atomic.StoreInt64(a.releaseAt, time.Now().UnixNano()+int64(60*time.Microsecond))
	}
	deadline := time.Now().Add(30 * time.Millisecond)
	for spins := 0; ; spins++ {
		// (a tight spin on the clock: everybody leaves within nanoseconds of each other)
		if r := atomic.LoadInt64(a.releaseAt); r != 0 && time.Now().UnixNano() >= r {
			break
		}
		if spins%1024 == 1023 {
			if !time.Now().Before(deadline) {
				break
			}
			if atomic.LoadInt64(a.releaseAt) == 0 {
				runtime.Gosched()
			}
		}
	}
	return "peer0"
}

func (c *dupConn) ReadFrom(p []byte) (int, net.Addr, error) {
	select {
	case d := <-c.in:
		if c.barrier != nil {
			b := *c.barrier // (a new address object per datagram, as net.UDPConn hands out)
			return copy(p, d), &b, nil
		}
		if c.perPeer > 0 {
			k := int(atomic.AddInt32(&c.served, 1)) - 1
			return copy(p, d), &labAddr{"peer" + itoa(k/c.perPeer)}, nil
		}
		return copy(p, d), &labAddr{"peer0"}, nil
	case <-c.closed:
		return 0, nil, &net.OpError{Op: "read", Net: "udp", Err: net.ErrClosed}
	}
}
func (c *dupConn) WriteTo(p []byte, addr net.Addr) (int, error) { return len(p), nil }
func (c *dupConn) Close() error                                 { c.once.Do(func() { close(c.closed) }); return nil }
func (c *dupConn) LocalAddr() net.Addr                          { return &labAddr{"local0"} }
func (c *dupConn) SetDeadline(t time.Time) error                { return nil }
func (c *dupConn) SetReadDeadline(t time.Time) error            { return nil }
func (c *dupConn) SetWriteDeadline(t time.Time) error           { return nil }

// runDups: 40 rounds (the goroutines of a round are lined up at the table, see barrierAddr; how tightly depends
// on the load of the machine); the first round that is not "one handler, the others dropped" is the result
func runDups(n int, w *os.File) string {
	if n < 1 || n > 64 {
		return "BAD-CASE"
	}
	out := ""
	for round := 0; round < 40; round++ {
		out = runDupsRound(n)
		if out != fmt.Sprintf("starts=1 dropped=%d shutdown=nil", n-1) {
			break
		}
	}
	if w != nil {
		w.WriteString(out)
	}
	return out
}

// runFinishes: n different requests (identifiers 1..n) in flight on one Serve call; the handlers are released at
// the same instant, so their deferred clean-ups (the table of requests in flight, the active count) run
// concurrently.  Forty rounds; the first deviating round is reported.
func runFinishes(n int) string {
	if n < 2 || n > 700 {
		return "BAD-CASE"
	}
	want := fmt.Sprintf("starts=%d shutdown=nil", n)
	out := want
	rounds := 40
	if n > 64 {
		// (several hundred requests in flight at once, from more than one peer: every one of them is a received valid
		// datagram with an identifier of its own; three rounds)
		rounds = 3
	}
	for round := 0; round < rounds && out == want; round++ {
		var starts, dones int32
		release := make(chan struct{})
		conn := &dupConn{in: make(chan []byte), closed: make(chan struct{}), perPeer: 250}
		srv := &radius.PacketServer{SecretSource: radius.StaticSecretSource([]byte("s")), Handler: radius.HandlerFunc(func(w radius.ResponseWriter, r *radius.Request) {
			atomic.AddInt32(&starts, 1)
			<-release
		})}
		radius.VerifSetHook(func(p string) {
			if p == "dgram.done" {
				atomic.AddInt32(&dones, 1)
			}
		})
		go srv.Serve(conn)
		for i := 0; i < n; i++ {
			conn.in <- accessRequest(byte(1 + i%250))
		}
		for deadline := time.Now().Add(labWait); time.Now().Before(deadline) && int(atomic.LoadInt32(&starts)) < n; {
			time.Sleep(200 * time.Microsecond)
		}
		s := atomic.LoadInt32(&starts)
		close(release)
		ctx, cancel := context.WithTimeout(context.Background(), labWait)
		serr := srv.Shutdown(ctx)
		cancel()
		for quiesce := time.Now().Add(labWait); time.Now().Before(quiesce) && int(atomic.LoadInt32(&dones)) < n; {
			time.Sleep(100 * time.Microsecond)
		}
		radius.VerifSetHook(nil)
		out = fmt.Sprintf("starts=%d shutdown=%s", s, errName(serr))
	}
	return out
}

func runDupsRound(n int) string {
	var starts, dones int32
	release := make(chan struct{})
	conn := &dupConn{in: make(chan []byte), closed: make(chan struct{})}
	var arrived int32
	var releaseAt int64
	conn.barrier = &barrierAddr{n: int32(n), arrived: &arrived, releaseAt: &releaseAt}
	srv := &radius.PacketServer{SecretSource: radius.StaticSecretSource([]byte("s")), Handler: radius.HandlerFunc(func(w radius.ResponseWriter, r *radius.Request) {
		atomic.AddInt32(&starts, 1)
		<-release
	})}
	radius.VerifSetHook(func(p string) {
		if p == "dgram.done" {
			atomic.AddInt32(&dones, 1)
		}
	})
	defer radius.VerifSetHook(nil)
	ret := make(chan error, 1)
	go func() { ret <- srv.Serve(conn) }()
	d := accessRequest(9)
	for i := 0; i < n; i++ {
		conn.in <- d
	}
	deadline := time.Now().Add(labWait)
	for time.Now().Before(deadline) {
		if int(atomic.LoadInt32(&starts)+atomic.LoadInt32(&dones)) >= n {
			break
		}
		time.Sleep(200 * time.Microsecond)
	}
	time.Sleep(2 * time.Millisecond)
	s, dn := atomic.LoadInt32(&starts), atomic.LoadInt32(&dones)
	close(release)
	ctx, cancel := context.WithTimeout(context.Background(), labWait)
	defer cancel()
	serr := srv.Shutdown(ctx)
	// the hook is process-wide: every datagram goroutine of THIS round (the released handler's included) must
	// have passed "dgram.done" before the next round installs its counters, or a straggler is counted there
	for quiesce := time.Now().Add(labWait); time.Now().Before(quiesce) && int(atomic.LoadInt32(&dones)) < n; {
		time.Sleep(100 * time.Microsecond)
	}
	return fmt.Sprintf("starts=%d dropped=%d shutdown=%s", s, dn, errName(serr))
}
