package main

import (
	"bytes"
	"encoding/binary"
	"strings"

	"layeh.com/radius"
)

func init() {
	props["C01"] = &prop{gen: genC01, eval: evalC01, pure: true, par: func(string) bool { return true }}
	props["C09"] = &prop{gen: genC09, eval: evalC09, pure: true, par: func(string) bool { return true }}
}

// ---------- C01: wire codec ----------

func evalC01(op string, args []string) string {
	switch op {
	case "parse":
		b := unhx(args[0])
		p, err := radius.Parse(b, []byte("s"))
		if err != nil {
			return "err"
		}
		// the parsed packet is a value of its own: for every second datagram the buffer it was read into is reused
		// (as a receive loop does) before the packet is looked at and encoded again
		if len(b)%2 == 1 {
			full := b[:cap(b)]
			for i := range full {
				full[i] = 0x5a
			}
		}
		w, err := p.MarshalBinary()
		r := "err"
		if err == nil {
			r = "ok " + hx(w)
		}
		return "ok " + showPacketFields(p) + " " + r
	case "parseattrs":
		ab := unhx(args[0])
		as, err := radius.ParseAttributes(ab)
		if err != nil {
			return "err"
		}
		if len(ab)%2 == 1 {
			full := ab[:cap(ab)]
			for i := range full {
				full[i] = 0x5a
			}
		}
		return "ok " + showAttributes(as)
	case "marshal":
		if len(unhx(args[2])) != 16 || atoi(args[1]) < 0 || atoi(args[1]) > 255 {
			return "BAD-CASE"
		}
		p := &radius.Packet{Code: radius.Code(atoi(args[0])), Identifier: byte(atoi(args[1]))}
		copy(p.Authenticator[:], unhx(args[2]))
		p.Attributes = toAttributes(parseAVPs(args[3]))
		w, err := p.MarshalBinary()
		if err != nil {
			return "err"
		}
		// "the encoder's output" is a function of the packet: marshalling the same packet again gives
		// the same datagram (an encoder that rearranges the attribute list shows here)
		if w2, err2 := p.MarshalBinary(); err2 != nil || !bytes.Equal(w, w2) {
			return "ok " + hx(w) + " second-marshal-differs"
		}
		// … and of the packet AS IT IS NOW: the same *Packet, one value replaced by one of another size (the count of
		// attributes unchanged), must marshal like a packet built afresh with those attributes - nothing measured or
		// laid out by the first call may be reused
		if len(p.Attributes) > 0 {
			if diff := func() (d string) {
				defer func() {
					if r := recover(); r != nil {
						d = " remarshal-panics"
					}
				}()
				k := len(w) % len(p.Attributes)
				old := p.Attributes[k]
				nv := append(append(radius.Attribute{}, old.Attribute...), 0xab, 0xcd, 0xef)
				if len(old.Attribute) >= 2 && len(w)%2 == 0 {
					nv = append(radius.Attribute{}, old.Attribute[:len(old.Attribute)/2]...)
				}
				if len(nv) > 253 {
					nv = nv[:10]
				}
				p.Attributes[k] = &radius.AVP{Type: old.Type, Attribute: nv}
				again, errA := p.MarshalBinary()
				fresh := &radius.Packet{Code: p.Code, Identifier: p.Identifier, Authenticator: p.Authenticator}
				for _, a := range p.Attributes {
					fresh.Attributes = append(fresh.Attributes, &radius.AVP{Type: a.Type, Attribute: a.Attribute})
				}
				want, errW := fresh.MarshalBinary()
				p.Attributes[k] = old
				if (errA == nil) != (errW == nil) || !bytes.Equal(again, want) {
					return " remarshal-differs"
				}
				return ""
			}(); diff != "" {
				return "ok " + hx(w) + diff
			}
		}
		q, err := radius.Parse(w, nil)
		if err != nil {
			return "ok " + hx(w) + " err"
		}
		return "ok " + hx(w) + " ok " + showPacketFields(q)
	case "encodedlen":
		n, err := radius.AttributesEncodedLen(toAttributes(parseAVPs(args[0])))
		if err != nil {
			return "err"
		}
		return "ok " + itoa(n)
	}
	return "UNKNOWN-OP"
}

var biasedValLens = []int{0, 0, 1, 1, 2, 3, 5, 16, 17, 100, 251, 252, 253}

// a region of k well-formed TLVs
func (g *Gen) tlvRegion(k int) []byte {
	var b []byte
	for i := 0; i < k; i++ {
		n := biasedValLens[g.Intn(len(biasedValLens))]
		b = append(b, byte(g.Pick(0, 1, 2, 26, 80, 255, g.Intn(256))), byte(n+2))
		b = append(b, g.Bytes(n)...)
	}
	return b
}

func (g *Gen) wireImage() []byte {
	k := g.Pick(0, 0, 1, 1, 2, 3, 5, 8, 16, 40)
	region := g.tlvRegion(k)
	// keep most images within the size limit
	if len(region) > 4076 && g.Chance(9, 10) {
		region = g.tlvRegion(g.Intn(4))
	}
	// damage the region sometimes
	switch g.Intn(20) {
	case 0:
		if len(region) >= 2 {
			region[1] = byte(g.Pick(0, 1)) // length < 2 in the first TLV
		}
	case 1:
		if len(region) > 0 {
			region = region[:len(region)-1-g.Intn(min(len(region), 3))] // truncated last TLV
		}
	case 2:
		if len(region) >= 2 {
			// corrupt some length byte
			i := g.Intn(len(region))
			region[i] = byte(g.Pick(0, 1, 2, 3, 255, g.Intn(256)))
		}
	case 3:
		region = append(region, byte(g.Intn(256))) // single dangling byte
	}
	total := 20 + len(region)
	h := make([]byte, 20)
	h[0] = byte(g.Pick(1, 2, 3, 4, 5, 11, 12, 13, 40, 43, 255, 0, g.Intn(256)))
	h[1] = byte(g.Intn(256))
	copy(h[4:], g.Bytes(16))
	length := total
	switch g.Intn(24) {
	case 0:
		length = total - 1
	case 1:
		length = total + 1
	case 2:
		length = 19
	case 3:
		length = 20
	case 4:
		length = g.Pick(4095, 4096, 4097)
	case 5:
		length = total + g.Range(1, 300)
	case 6:
		length = g.Pick(0, 1, 2, 18, 21, 22, 65535)
	case 7:
		if total > 22 {
			length = g.Range(20, total) // attributes parsed past Length must be ignored / cut mid-TLV
		}
	}
	binary.BigEndian.PutUint16(h[2:4], uint16(length))
	b := append(h, region...)
	// trailing padding beyond Length
	if g.Chance(1, 3) {
		b = append(b, g.Bytes(g.Pick(1, 2, 3, 16, 64))...)
	}
	// big images to hit the 4096 boundary
	if g.Chance(1, 25) {
		target := g.Pick(4094, 4095, 4096, 4097, 4098, 4200)
		for len(b) < target {
			n := min(253, target-len(b)-2)
			if n < 0 {
				b = append(b, 0)
				continue
			}
			b = append(b, byte(g.Intn(256)), byte(n+2))
			b = append(b, g.Bytes(n)...)
		}
		binary.BigEndian.PutUint16(b[2:4], uint16(g.Pick(len(b), len(b), len(b)-1, 4096, 4097)))
	}
	return b
}

// out-of-range types include values that a truncating conversion (byte / uint16 / uint32) would map into 0..255
var c01Types = []int{-1, 0, 1, 2, 26, 80, 255, 256, 1000, 257, 511, 65536, 65562, 65791, -65535, -256, -255,
	1 << 32, 1<<32 + 1, 1<<32 + 255, -(1 << 32) + 80, 3<<16 | 80, -9223372036854775808, 9223372036854775807}
var c01ValLens = []int{0, 0, 1, 2, 16, 100, 252, 253, 254, 300}

func (g *Gen) packetAVPs() []avp {
	var as []avp
	k := g.Pick(0, 1, 2, 3, 5, 8)
	for i := 0; i < k; i++ {
		n := c01ValLens[g.Intn(len(c01ValLens))]
		if n > 253 && g.Chance(2, 3) {
			n = g.Intn(20)
		}
		var v []byte
		if n > 0 || g.Bool() {
			v = g.Bytes(n)
		}
		as = append(as, avp{c01Types[g.Intn(len(c01Types))], v})
	}
	// totals around 4096: 16*255 = 4080 (+20 = 4100)
	if g.Chance(1, 8) {
		as = as[:0]
		target := g.Range(4086, 4100) - 20
		for target > 0 {
			n := min(253, target-2)
			if n < 0 {
				break
			}
			as = append(as, avp{g.Pick(1, 26, 255), g.Bytes(n)})
			target -= n + 2
			if g.Chance(1, 6) {
				as = append(as, avp{g.Pick(-1, 256, 1000), g.Bytes(g.Pick(0, 5, 300))})
			}
		}
	}
	return as
}

func genC01(g *Gen, tier string, emit func(op string, args ...string)) {
	n := 30000
	if tier == "thorough" {
		n = 400000
	}
	for i := 0; i < n; i++ {
		switch g.Intn(10) {
		case 0, 1, 2, 3:
			emit("parse", hx(g.wireImage()))
		case 4:
			// arbitrary bytes, mostly with a plausible Length field
			b := g.Bytes(g.Pick(0, 1, 19, 20, 21, 22, 23, 24, 30, 100, 300, 4096, 4097, 4200))
			if len(b) >= 4 && g.Chance(2, 3) {
				binary.BigEndian.PutUint16(b[2:4], uint16(len(b)))
			}
			emit("parse", hx(b))
		case 5:
			emit("parseattrs", hx(g.wireImage()[20:]))
		case 6, 7, 8:
			emit("marshal", itoa(g.Pick(-1, 0, 1, 2, 4, 255, 256, 300, g.Intn(256))), itoa(g.Intn(256)), hx(g.Bytes(16)), showAVPs(g.packetAVPs()))
		case 9:
			emit("encodedlen", showAVPs(g.packetAVPs()))
		}
	}
	// totals far beyond the limit, in particular around 2^16 where a 16-bit Length computation would wrap
	for _, total := range []int{65535, 65536, 65537, 65536 + 20, 65536 + 21, 65536 + 275, 65536 + 4096, 65536 + 4097, 2*65536 + 22, 70000, 131072} {
		var as []avp
		left := total - 20
		for left > 0 {
			n := 255
			if left < 255 {
				n = left
			}
			if n < 2 {
				// cannot be met exactly with whole attributes: one octet more
				n = 2
			}
			as = append(as, avp{g.Pick(1, 2, 26), make([]byte, n-2)})
			left -= n
		}
		emit("marshal", "1", itoa(g.Intn(256)), hx(g.Bytes(16)), showAVPs(as))
		emit("encodedlen", showAVPs(as))
	}
	// the size limit counts OCTETS on the wire, not list entries: as many attributes as a datagram can hold (2038
	// empty ones fill it exactly), around that number, together with entries that take no room at all (types
	// outside 0-255)
	for _, spec := range [][2]int{{2038, 0}, {2038, 1}, {2037, 5}, {2039, 0}, {2039, 3}, {1000, 1500}, {0, 2500}, {1, 4095}} {
		var as []avp
		for i := 0; i < spec[0]+spec[1]; i++ {
			// the omitted ones spread through the list
			if spec[1] > 0 && (spec[0] == 0 || i%((spec[0]+spec[1])/spec[1]+1) == 0) && countInvalid(as) < spec[1] {
				as = append(as, avp{g.Pick(-1, 256, 1000), nil})
			} else {
				as = append(as, avp{g.Pick(1, 2, 255), nil})
			}
		}
		emit("marshal", "1", itoa(g.Intn(256)), hx(g.Bytes(16)), showAVPs(as))
		emit("encodedlen", showAVPs(as))
	}
	if tier == "thorough" {
		// exhaustive: every attribute region of <= 5 bytes over a small alphabet
		alpha := []byte{0, 1, 2, 3, 5, 255}
		var rec func(prefix []byte, depth int)
		rec = func(prefix []byte, depth int) {
			h := make([]byte, 20)
			h[0] = 1
			binary.BigEndian.PutUint16(h[2:4], uint16(20+len(prefix)))
			emit("parse", hx(append(h, prefix...)))
			if depth == 0 {
				return
			}
			for _, a := range alpha {
				rec(append(append([]byte{}, prefix...), a), depth-1)
			}
		}
		rec(nil, 5)
	}
}

// ---------- C09: attribute list operations ----------

func evalC09(op string, args []string) string {
	if op != "ops" {
		return "UNKNOWN-OP"
	}
	as := toAttributes(parseAVPs(args[0]))
	// For every second case equal values ARE one slice (a value read from one packet and added to another,
	// one constant added under two types): the list operations store and drop slices, they never write
	// through them, so an operation on one attribute cannot reach another that shares its bytes.
	share := (len(args[0])+len(args[1]))%2 == 0
	interned := map[string]radius.Attribute{}
	val := func(v radius.Attribute) radius.Attribute {
		if !share || len(v) == 0 {
			return v
		}
		if w, ok := interned[string(v)]; ok {
			return w
		}
		interned[string(v)] = v
		return v
	}
	for _, a := range as {
		a.Attribute = val(a.Attribute)
	}
	var obs []string
	if args[1] != "-" {
		for _, e := range strings.Split(args[1], ",") {
			f := strings.Split(e, ":")
			k := radius.Type(atoi(f[1]))
			switch f[0] {
			case "add":
				as.Add(k, val(radius.Attribute(unhx(f[2]))))
				obs = append(obs, showAttributes(as))
			case "set":
				// (a NEW slice of the value: what Set stores must not be written into what was there)
				as.Set(k, radius.Attribute(unhx(f[2])))
				obs = append(obs, showAttributes(as))
			case "del":
				as.Del(k)
				obs = append(obs, showAttributes(as))
			case "get":
				obs = append(obs, hx(as.Get(k)))
			case "lookup":
				v, ok := as.Lookup(k)
				if ok {
					obs = append(obs, "some:"+hx(v))
				} else {
					obs = append(obs, "none")
				}
			}
		}
	}
	p := &radius.Packet{Code: 1, Attributes: as}
	w, err := p.MarshalBinary()
	if err != nil {
		obs = append(obs, "wire=err")
	} else {
		obs = append(obs, "wire="+hx(w))
	}
	return strings.Join(obs, " ")
}

func genC09(g *Gen, tier string, emit func(op string, args ...string)) {
	types := []int{-1, 1, 1, 2, 255, 256}
	wideTypes := []int{257, 65536, 65537, 1 << 32, 1<<32 + 1, -65535, -(1 << 32) + 2, -9223372036854775808}
	vals := []string{"-", "61", "6262", "~"}
	mkop := func(kind, t, v int) string {
		k := itoa(types[t])
		switch kind {
		case 0:
			return "add:" + k + ":" + vals[v]
		case 1:
			return "set:" + k + ":" + vals[v]
		case 2:
			return "del:" + k
		case 3:
			return "get:" + k
		default:
			return "lookup:" + k
		}
	}
	// exhaustive short programs over a small alphabet of operations
	var alphabet []string
	seen := map[string]bool{}
	for kind := 0; kind < 5; kind++ {
		for t := range types {
			for v := range vals {
				s := mkop(kind, t, v)
				if !seen[s] {
					seen[s] = true
					alphabet = append(alphabet, s)
				}
			}
		}
	}
	maxLen := 3
	if tier == "thorough" {
		maxLen = 4
	}
	inits := []string{"-", "1:61,2:-,1:6262,1:61,256:61,2:6262", "1:-,1:-,1:-"}
	var rec func(prefix []string, depth int)
	rec = func(prefix []string, depth int) {
		if len(prefix) > 0 {
			for _, in := range inits {
				emit("ops", in, strings.Join(prefix, ","))
			}
		}
		if depth == 0 {
			return
		}
		for _, a := range alphabet {
			rec(append(append([]string{}, prefix...), a), depth-1)
		}
	}
	rec(nil, maxLen)
	// … and exhaustively up to length FIVE over a smaller alphabet (types 1, 2 and the invalid 256; the empty and a
	// one-octet value): 21 operations, 21^5 programs from the empty list and from a list with a run of duplicates
	if tier == "thorough" {
		var small []string
		for _, t := range []string{"1", "2", "256"} {
			for _, v := range []string{"-", "61"} {
				small = append(small, "add:"+t+":"+v, "set:"+t+":"+v)
			}
			small = append(small, "del:"+t, "get:"+t, "lookup:"+t)
		}
		var rec5 func(prefix []string, depth int)
		rec5 = func(prefix []string, depth int) {
			if depth == 0 {
				p := strings.Join(prefix, ",")
				emit("ops", "-", p)
				emit("ops", "1:61,1:-,2:61,1:61", p)
				return
			}
			for _, a := range small {
				rec5(append(append([]string{}, prefix...), a), depth-1)
			}
		}
		rec5(nil, 5)
	}
	// random long sequences with runs of duplicates and large values
	n := 3000
	if tier == "thorough" {
		n = 40000
	}
	// every attribute type 0..255 in second and in last place: no type is special to the list or to its wire form
	for t := 0; t < 256; t++ {
		o := 1 + t%2
		emit("ops", showAVPs([]avp{{o, []byte{0xaa}}, {t, []byte{0xbb, byte(t)}}, {o + 2, nil}}), "add:"+itoa(t)+":cc,lookup:"+itoa(t)+",add:"+itoa(o)+":dd")
		// … and to none of the five operations: Set on a type that occurs twice, Get, Del, Set again on an absent type
		ts := itoa(t)
		emit("ops", showAVPs([]avp{{t, []byte{0xb0}}, {o, []byte{0xaa}}, {t, []byte{0xbb, byte(t)}}, {o + 2, nil}}),
			"set:"+ts+":ee,get:"+ts+",lookup:"+ts+",add:"+ts+":ff,set:"+ts+":-,del:"+ts+",lookup:"+ts+",set:"+ts+":0102,add:"+itoa(o)+":dd,del:"+itoa(o))
	}
	for i := 0; i < n; i++ {
		var init []avp
		for j := g.Intn(12); j > 0; j-- {
			init = append(init, avp{types[g.Intn(len(types))], g.Bytes(g.Pick(0, 1, 2, 253, 254))})
		}
		var ops []string
		for j := g.Range(1, 60); j > 0; j-- {
			kind := g.Pick(0, 0, 1, 1, 2, 3, 4)
			t := types[g.Intn(len(types))]
			if g.Chance(1, 6) {
				t = wideTypes[g.Intn(len(wideTypes))]
			}
			switch kind {
			case 0:
				ops = append(ops, "add:"+itoa(t)+":"+hx(g.Bytes(g.Pick(0, 1, 3, 253, 254))))
			case 1:
				ops = append(ops, "set:"+itoa(t)+":"+hx(g.Bytes(g.Pick(0, 1, 3, 253))))
			case 2:
				ops = append(ops, "del:"+itoa(t))
			case 3:
				ops = append(ops, "get:"+itoa(t))
			default:
				ops = append(ops, "lookup:"+itoa(t))
			}
		}
		emit("ops", showAVPs(init), strings.Join(ops, ","))
	}
}

func countInvalid(as []avp) int {
	n := 0
	for _, a := range as {
		if a.typ < 0 || a.typ > 255 {
			n++
		}
	}
	return n
}
