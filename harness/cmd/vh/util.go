package main

import (
	"crypto/md5"
	"hash"
)

func md5New() hash.Hash { return md5.New() }
