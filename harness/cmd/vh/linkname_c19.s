//go:build !c19nolink

// Empty assembly file: allows the body-less go:linkname declaration in c19_link.go.
