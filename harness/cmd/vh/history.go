package main

import (
	"hash/fnv"
	"net"

	"layeh.com/radius"
	"layeh.com/radius/rfc2759"
	"layeh.com/radius/rfc3079"
)

// Every property about a function's result quantifies over the history of the process as well: the
// result must not depend on what was called before.  pollute runs a varying mix of OTHER library
// calls (password hiding in both flavours, codecs, Parse/Encode, the authenticity predicates, the
// MS-CHAP / MPPE derivations) right before a case is evaluated, on the same goroutine, so that state
// a change leaves behind in package-level variables, pools or reused buffers meets the next call.
// The data depends on the case (FNV of its text), so the leftovers differ from case to case.
func pollute(op string, args []string) {
	defer func() { recover() }()
	h := fnv.New64a()
	h.Write([]byte(op))
	for _, a := range args {
		h.Write([]byte(a))
	}
	// one case in three runs WITHOUT any call in between: single-entry caches keyed on some of the arguments
	// are only wrong when the very next call of the same function differs in the others
	if h.Sum64()%3 == 0 {
		return
	}
	g := NewGen(h.Sum64() | 1)
	secret := g.RandBytes(g.Pick(1, 7, 16, 40))
	ra := g.RandBytes(16)
	pw := g.RandBytes(g.Pick(0, 5, 16, 17, 33))
	salt := g.RandBytes(2)
	salt[0] |= 0x80
	for k := g.Range(1, 4); k > 0; k-- {
		switch g.Intn(9) {
		case 0:
			if a, err := radius.NewTunnelPassword(pw, salt, secret, ra); err == nil {
				radius.TunnelPassword(a, secret, ra)
			}
		case 1:
			if a, err := radius.NewUserPassword(pw, secret, ra); err == nil {
				radius.UserPassword(a, secret, ra)
			}
		case 2:
			radius.TunnelPassword(g.RandBytes(g.Pick(18, 34, 50)), secret, ra)
			radius.UserPassword(g.RandBytes(g.Pick(16, 32, 48)), secret, ra)
		case 3:
			a := radius.NewInteger(uint32(g.Intn(70)))
			radius.Integer(a)
			radius.NewIPAddr(net.IPv4(1, 2, 3, byte(g.Intn(256))))
			radius.NewString(string(g.RandBytes(g.Intn(20))))
		case 4:
			p := &radius.Packet{Code: radius.Code(g.Pick(1, 2, 4, 5)), Identifier: byte(g.Intn(256)), Secret: secret}
			copy(p.Authenticator[:], ra)
			p.Add(radius.Type(g.Range(1, 255)), radius.Attribute(g.RandBytes(g.Intn(30))))
			if w, err := p.Encode(); err == nil {
				radius.Parse(w, secret)
				radius.IsAuthenticResponse(w, w, secret)
				radius.IsAuthenticRequest(w, secret)
			}
		case 5:
			u, _ := rfc2759.ToUTF16(g.RandBytes(g.Intn(12)))
			rfc2759.NTPasswordHash(u)
			rfc2759.GenerateNTResponse(g.RandBytes(16), g.RandBytes(16), g.RandBytes(g.Intn(9)), g.RandBytes(g.Intn(9)))
		case 6:
			rfc3079.MakeKey(g.RandBytes(24), g.RandBytes(g.Intn(9)), g.Bool())
		case 7:
			rfc2759.GenerateAuthenticatorResponse(g.RandBytes(16), g.RandBytes(16), g.RandBytes(24), g.RandBytes(g.Intn(9)), g.RandBytes(g.Intn(9)))
		case 8:
			radius.NewVendorSpecific(uint32(g.Intn(1<<24)), radius.Attribute(g.RandBytes(g.Intn(20))))
			radius.NewIPv6Prefix(&net.IPNet{IP: net.ParseIP("2001:db8::"), Mask: net.CIDRMask(g.Intn(129), 128)})
			radius.NewTLV(byte(g.Intn(256)), radius.Attribute(g.RandBytes(g.Intn(20))))
		}
	}
}

// priorVariants calls f once per argument with THAT argument altered and the others as they are (results
// ignored), right before the observed call: a memo keyed on some of the arguments shows in the observed call.
func priorVariants(args [][]byte, f func(a [][]byte)) {
	for i := range args {
		v := make([][]byte, len(args))
		copy(v, args)
		v[i] = other(args[i])
		if len(args[i]) == 0 {
			v[i] = []byte{0x41}
		}
		func() {
			defer func() { recover() }()
			f(v)
		}()
		// ... and once more with the alteration made IN PLACE, in the very buffer the observed call will be given
		// (a server decoding every account's hash into one scratch buffer): a memo that remembers the caller's slice
		// instead of its contents compares that buffer with itself and answers for what it held before
		if len(args[i]) > 0 {
			at := len(args[i]) / 2
			args[i][at] ^= 0x5a
			func() {
				defer func() { recover() }()
				f(args)
			}()
			args[i][at] ^= 0x5a
		}
	}
}

// other returns a copy of b with one octet changed (same length)
func other(b []byte) []byte {
	c := append([]byte{}, b...)
	if len(c) > 0 {
		c[len(c)/2] ^= 0x5a
	}
	return c
}
