package main

import (
	"bytes"
	"encoding/binary"
	"errors"
	"layeh.com/radius/dictionary"
	"net"
	"path/filepath"
	"sort"
	"strconv"
	"strings"
	"time"

	"layeh.com/radius"
)

func init() {
	props["C12"] = &prop{gen: genC12, eval: evalHelper, pure: true}
	props["C14"] = &prop{gen: genC14, eval: evalHelper, timeout: 5 * time.Second, pure: true}
}

func descOf(e *helperEntry) string {
	tag := "0"
	if e.HasTag {
		tag = "1"
	}
	return e.Pkg + "." + e.Ident + "|" + itoa(e.Typ) + "|" + itoa(e.VendorID) + "|" + itoa(e.VendorType) + "|" + e.Kind + "|" + tag + "|" + itoa(e.Encrypt) + "|" + itoa(e.Size)
}

func parseGval(tok string) gval {
	switch {
	case strings.HasPrefix(tok, "n"):
		v, err := strconv.ParseUint(tok[1:], 10, 64)
		if err != nil {
			panic(badCase("bad value token"))
		}
		return gval{N: v}
	case strings.HasPrefix(tok, "t"):
		v, err := strconv.ParseInt(tok[1:], 10, 64)
		if err != nil {
			panic(badCase("bad value token"))
		}
		return gval{T: time.Unix(v, 0)}
	case tok == "pnil":
		return gval{}
	case strings.HasPrefix(tok, "p"):
		f := strings.Split(tok[1:], "/")
		if len(f) != 2 {
			panic(badCase("bad value token"))
		}
		return gval{Net: &net.IPNet{IP: net.IP(unhx(f[0])), Mask: net.IPMask(unhx(f[1]))}}
	}
	return gval{B: unhx(tok)}
}

func showGval(e *helperEntry, v gval) string {
	switch e.Kind {
	case "integer", "integer64", "short", "byte":
		return "n" + strconv.FormatUint(v.N, 10)
	case "date":
		return "t" + strconv.FormatInt(v.T.Unix(), 10)
	case "ipv6prefix":
		if v.Net == nil {
			return "pnil"
		}
		return "p" + hx(v.Net.IP) + "/" + hx(v.Net.Mask)
	}
	return hx(v.B)
}

func helperReads(e *helperEntry, p, q *radius.Packet) string {
	var l string
	tag, v, err := e.Lookup(p, q)
	switch {
	case err == radius.ErrNoAttribute:
		l = "noattr"
	case err != nil:
		l = "err"
	default:
		l = itoa(int(tag)) + ":" + showGval(e, v)
	}
	g := "[]"
	if e.Gets != nil {
		tags, vs, err := e.Gets(p, q)
		parts := make([]string, len(vs))
		for i, x := range vs {
			t := 0
			if e.HasTag && i < len(tags) {
				t = int(tags[i])
			}
			parts[i] = itoa(t) + ":" + showGval(e, x)
		}
		g = "[" + strings.Join(parts, ";") + "]"
		if err != nil {
			g += "!"
		}
	}
	return "L=" + l + "|G=" + g + "|V=" + helperVariants(e, p, q)
}

// helperVariants: X_Get, X_GetString, X_LookupString and X_GetStrings must tell the same story as
// X_Lookup and X_Gets (same tag, same bytes, error exactly when they err; Get* return zero values then).
func helperVariants(e *helperEntry, p, q *radius.Packet) string {
	var bad []string
	// X_Get is "X_Lookup with the error dropped": it returns whatever X_Lookup returned
	tag, v, err := e.Lookup(p, q)
	gt, gv := e.Get(p, q)
	if gt != tag || showGval(e, gv) != showGval(e, v) {
		bad = append(bad, "Get")
	}
	if e.LookupString != nil {
		st, ss, serr := e.LookupString(p, q)
		if (serr != nil) != (err != nil) || (err == nil && (st != tag || ss != string(v.B))) {
			bad = append(bad, "LookupString")
		}
		g2t, g2s := e.GetString(p, q)
		if g2t != st || g2s != ss {
			bad = append(bad, "GetString")
		}
	}
	if e.GetStrings != nil && e.Gets != nil {
		ts, vs, gerr := e.Gets(p, q)
		sts, svs, serr := e.GetStrings(p, q)
		same := (gerr != nil) == (serr != nil) && len(vs) == len(svs) && len(ts) == len(sts)
		if same {
			for i := range vs {
				if string(vs[i].B) != svs[i] || (i < len(ts) && ts[i] != sts[i]) {
					same = false
				}
			}
		}
		if !same {
			bad = append(bad, "GetStrings")
		}
	}
	if len(bad) == 0 {
		return "ok"
	}
	return strings.Join(bad, "+")
}

func evalHelper(op string, args []string) string {
	switch op {
	case "helper":
		name := strings.SplitN(args[0], "|", 2)[0]
		e := lookupHelper(name)
		if e == nil || descOf(e) != args[0] {
			return "BAD-CASE"
		}
		auth := unhx(args[3])
		if len(auth) != 16 {
			return "BAD-CASE"
		}
		p := &radius.Packet{Code: 1, Secret: unhx(args[2])}
		copy(p.Authenticator[:], auth)
		// q is the request the reply answers: the helpers take its AUTHENTICATOR (and nothing else) from it;
		// whatever secret that packet value happens to carry is not the one the attribute is hidden with
		q := &radius.Packet{Code: 1, Secret: p.Secret}
		switch (len(args[1]) + len(args[2])) % 3 {
		case 1:
			q.Secret = nil
		case 2:
			q.Secret = append([]byte("not-the-secret-"), p.Secret...)
		}
		copy(q.Authenticator[:], auth)
		p.Attributes = toAttributes(parseAVPs(args[1]))
		obs := []string{"init|" + showAttributes(p.Attributes) + "|" + helperReads(e, p, q)}
		if args[4] != "-" {
			for _, o := range strings.Split(args[4], ",") {
				f := strings.Split(o, ":")
				switch f[0] {
				case "add", "set", "addstr", "setstr":
					if len(f) != 3 {
						return "BAD-CASE"
					}
					tag := atoi(f[1])
					if tag < 0 || tag > 255 {
						return "BAD-CASE"
					}
					v := parseGval(f[2])
					var err error
					switch f[0] {
					case "add":
						if e.Add == nil {
							return "BAD-CASE"
						}
						err = e.Add(p, byte(tag), v)
					case "set":
						err = e.Set(p, byte(tag), v)
					case "addstr":
						if e.AddString == nil {
							return "BAD-CASE"
						}
						err = e.AddString(p, byte(tag), string(v.B))
					case "setstr":
						if e.SetString == nil {
							return "BAD-CASE"
						}
						err = e.SetString(p, byte(tag), string(v.B))
					}
					head := "ok"
					if err != nil {
						head = "err"
					}
					// the value was handed over when the setter returned: the caller's buffer is its own again (a scratch
					// buffer filled anew for every value, a secret wiped after use) - for every second operation it is
					// overwritten, spare capacity included, before the packet is looked at
					if len(obs)%2 == 1 {
						full := v.B[:cap(v.B)]
						for i := range full {
							full[i] ^= 0xff
						}
					}
					obs = append(obs, head+"|"+showAttributes(p.Attributes)+"|"+helperReads(e, p, q))
				case "del":
					e.Del(p)
					obs = append(obs, "del|"+showAttributes(p.Attributes)+"|"+helperReads(e, p, q))
				case "lookup":
					r := helperReads(e, p, q)
					obs = append(obs, "lookup|"+showAttributes(p.Attributes)+"|"+r)
				case "wire":
					// a salt-encrypted attribute travels in a reply: the parsed reply then carries the RESPONSE
					// authenticator, and the getters must decrypt with the request's (q)
					if e.Encrypt == 2 {
						p.Code = 2
					}
					w, err := p.Encode()
					if err != nil {
						obs = append(obs, "wire=err")
						continue
					}
					np, err := radius.Parse(w, p.Secret)
					if err != nil {
						obs = append(obs, "wire=unparsable")
						continue
					}
					p = np
					obs = append(obs, "wire=ok|"+showAttributes(p.Attributes)+"|"+helperReads(e, p, q))
				default:
					return "BAD-CASE"
				}
			}
		}
		return strings.Join(obs, " ")
	case "consts":
		e := lookupHelper(args[0])
		if e == nil || e.Strings == nil {
			return "BAD-CASE"
		}
		m := e.Strings()
		own := map[uint64]bool{}
		for _, v := range e.Consts {
			own[v] = true
		}
		var keys []uint64
		for k := range m {
			// other packages may add names for further numbers to this map (radius-dict-gen -ref);
			// only this package's own constants are compared with this package's dictionary
			if own[k] {
				keys = append(keys, k)
			}
		}
		sort.Slice(keys, func(i, j int) bool { return keys[i] < keys[j] })
		var a []string
		for _, k := range keys {
			if e.Str(k) != m[k] {
				return "String()-differs-from-Strings-map"
			}
			a = append(a, strconv.FormatUint(k, 10)+"="+m[k])
		}
		var cs []uint64
		for _, v := range e.Consts {
			cs = append(cs, v)
		}
		sort.Slice(cs, func(i, j int) bool { return cs[i] < cs[j] })
		var b []string
		for _, v := range cs {
			b = append(b, strconv.FormatUint(v, 10))
		}
		return strings.Join(a, ",") + "|" + strings.Join(b, ",")
	case "extconsts":
		// VALUE lines that another package's dictionary declares for THIS attribute (radius-dict-gen -ref):
		// that package's init() registers their names in this attribute's Strings map, so String() of the
		// number must give the name written in the dictionary
		e := lookupHelper(args[0])
		if e == nil || e.Strings == nil || args[1] == "-" {
			return "BAD-CASE"
		}
		m := e.Strings()
		var a []string
		for _, kv := range strings.Split(args[1], ",") {
			f := strings.SplitN(kv, "=", 2)
			if len(f) != 2 {
				return "BAD-CASE"
			}
			k, err := strconv.ParseUint(f[1], 10, 64)
			if err != nil {
				return "BAD-CASE"
			}
			name, ok := m[k]
			if !ok {
				name = "<not registered>"
			} else if e.Str(k) != name {
				return "String()-differs-from-Strings-map"
			}
			a = append(a, strconv.FormatUint(k, 10)+"="+name)
		}
		return strings.Join(a, ",")
	}
	return "UNKNOWN-OP"
}

// ---- generators ----

func (g *Gen) tagFor(e *helperEntry) int {
	if !e.HasTag {
		return 0
	}
	switch g.Intn(10) {
	case 0:
		return g.Pick(0x20, 0x21, 0x7f, 0x80, 0xff, g.Range(0x20, 0xff))
	case 1:
		return 0
	case 2:
		return 0x1f
	default:
		return g.Range(0, 0x1f)
	}
}

// badValueFor: a value no setter of the helper may accept ("" when every value of the Go type is in the domain)
func (g *Gen) badValueFor(e *helperEntry) string {
	switch e.Kind {
	case "string", "octets":
		if e.Size >= 0 {
			return hx(g.RandBytes(e.Size + 1))
		}
		return hx(g.RandBytes(254))
	case "ipaddr":
		return hx(g.RandBytes(5))
	case "ipv6addr":
		return hx(g.RandBytes(15))
	case "ifid":
		return hx(g.RandBytes(9))
	case "date":
		return "t-1"
	case "ipv6prefix":
		return "pnil"
	}
	return ""
}

func (g *Gen) valueFor(e *helperEntry) string {
	switch e.Kind {
	case "string", "octets", "concat":
		n := g.Pick(0, 1, 2, 3, 5, 8, 16, 17, 32, 100, 128, 129, 200, 239, 240, 247, 248, 249, 250, 251, 252, 253, 254)
		if e.Size >= 0 && g.Chance(3, 4) {
			n = e.Size
		}
		if e.Kind == "concat" && g.Chance(1, 3) {
			n = g.Pick(253, 254, 506, 507, 600, 1000)
		}
		b := g.RandBytes(n)
		switch g.Intn(5) {
		case 0:
			for i := range b {
				b[i] = byte(g.Range(0x21, 0x7e))
			}
		case 1:
			if n > 0 {
				b[0] = byte(g.Intn(0x20)) // looks like a tag
			}
		case 2:
			for i := range b {
				if b[i] == 0 {
					b[i] = 1
				}
			}
		}
		return hx(b)
	case "ipaddr", "ipv6addr":
		ip := g.RandBytes(g.Pick(4, 4, 4, 16, 16, 16, 0, 5, 15))
		if len(ip) == 16 && g.Chance(1, 2) {
			copy(ip, []byte{0, 0, 0, 0, 0, 0, 0, 0, 0, 0, 0xff, 0xff})
		}
		return hx(ip)
	case "ifid":
		return hx(g.RandBytes(g.Pick(8, 8, 8, 8, 0, 6, 7, 9)))
	case "date":
		switch g.Intn(6) {
		case 0:
			return "t" + strconv.FormatInt(-int64(g.Intn(100000)), 10)
		case 1:
			return "t" + strconv.FormatInt(4294967295+int64(g.Intn(3)), 10)
		default:
			return "t" + strconv.FormatInt(int64(g.U64()%4294967296), 10)
		}
	case "ipv6prefix":
		if g.Chance(1, 20) {
			return "pnil"
		}
		ip := g.RandBytes(g.Pick(16, 16, 16, 16, 4))
		return "p" + hx(ip) + "/" + hx(g.mask(g.Pick(16, 16, 16, 16, 16, 4)))
	case "byte":
		return "n" + itoa(g.Intn(256))
	case "short":
		return "n" + strconv.FormatUint(g.boundaryU(16), 10)
	case "integer64":
		return "n" + strconv.FormatUint(g.boundaryU(64), 10)
	default: // integer
		if e.HasTag && g.Chance(3, 4) {
			return "n" + strconv.FormatUint(g.boundaryU(24), 10)
		}
		return "n" + strconv.FormatUint(g.boundaryU(32), 10)
	}
}

// a Vendor-Specific attribute value: vendor id + sub-attributes, possibly hostile
func (g *Gen) vsaValue(vid int, types []int, hostile bool) []byte {
	b := make([]byte, 4)
	binary.BigEndian.PutUint32(b, uint32(vid))
	k := g.Pick(0, 1, 1, 2, 3, 4)
	for i := 0; i < k; i++ {
		n := g.Pick(0, 1, 2, 4, 6, 16)
		t := types[g.Intn(len(types))]
		b = append(b, byte(t), byte(n+2))
		b = append(b, g.RandBytes(n)...)
	}
	if hostile {
		switch g.Intn(6) {
		case 0:
			b = append(b, byte(types[0]), 0) // zero length
		case 1:
			b = append(b, byte(types[0]), 200, 1, 2) // overrunning
		case 2:
			b = append(b, byte(types[0])) // dangling byte
		case 3:
			b = append(b, byte(types[0]), 2) // length 2 < 3
		case 4:
			b = append(b, byte(types[0]), 1, 9, 9, 9)
		case 5:
			if len(b) > 5 {
				b[5] = byte(g.Pick(0, 1, 2, 255))
			}
		}
	}
	if len(b) > 253 {
		b = b[:253]
	}
	return b
}

func (g *Gen) priorPacket(e *helperEntry, hostile bool) []avp {
	var as []avp
	n := g.Pick(0, 0, 1, 2, 3, 5)
	for i := 0; i < n; i++ {
		switch g.Intn(6) {
		case 0, 1:
			// another top-level attribute
			t := g.Pick(1, 2, 4, 5, 6, 8, 18, 24, 25, 27, 79, 80, 89, 255)
			if t == e.Typ {
				t = 3
			}
			as = append(as, avp{t, g.RandBytes(g.Pick(0, 1, 4, 6, 16, 18, 34))})
		case 2:
			// this very attribute, with a plausible or garbage encoding
			if e.VendorID == 0 {
				as = append(as, avp{e.Typ, g.RandBytes(g.Pick(0, 1, 2, 4, 5, 8, 16, 18, 34, 35))})
			} else {
				as = append(as, avp{26, g.vsaValue(e.VendorID, []int{e.VendorType, e.VendorType, 1, 2, 200}, hostile)})
			}
		case 3:
			// another vendor's attribute
			// another vendor's attribute, incl. vendor ids that differ from this one in a single octet only
			as = append(as, avp{26, g.vsaValue(g.Pick(9, 311, 14122, 14988, 3561, 14823, e.VendorID+1, e.VendorID^0x01000000, (e.VendorID+0x01000000)&0x7fffffff, e.VendorID^0x00010000, e.VendorID^0x00000100, e.VendorID^0x7f000000),
				[]int{1, 2, e.VendorType, e.VendorType}, hostile && g.Bool())})
		case 4:
			if e.VendorID != 0 {
				as = append(as, avp{26, g.vsaValue(e.VendorID, []int{e.VendorType, 1, 2, 3, 250}, hostile)})
			} else {
				as = append(as, avp{26, g.RandBytes(g.Pick(0, 3, 4, 5, 7, 12))})
			}
		case 5:
			as = append(as, avp{g.Pick(-1, 256, 26), g.RandBytes(g.Intn(8))})
		}
	}
	return as
}

func (g *Gen) helperOps(e *helperEntry) string {
	var ops []string
	n := g.Range(1, 6)
	for i := 0; i < n; i++ {
		k := g.Intn(12)
		tv := itoa(g.tagFor(e)) + ":" + g.valueFor(e)
		switch {
		case k < 3:
			ops = append(ops, "set:"+tv)
		case k < 6:
			if e.Add != nil {
				ops = append(ops, "add:"+tv)
			} else {
				ops = append(ops, "set:"+tv)
			}
		case k == 6 && e.SetString != nil:
			ops = append(ops, "setstr:"+tv)
		case k == 7 && e.AddString != nil:
			ops = append(ops, "addstr:"+tv)
		case k == 8:
			ops = append(ops, "del")
		case k == 9:
			ops = append(ops, "lookup")
		case k == 10:
			ops = append(ops, "wire")
		default:
			ops = append(ops, "set:"+tv, "lookup")
		}
	}
	if e.Encrypt == 2 {
		// after travelling as a reply the packet is only read (a client does not re-encrypt into a received reply)
		var kept []string
		wired := false
		for _, o := range ops {
			if o == "wire" {
				wired = true
				continue
			}
			kept = append(kept, o)
		}
		ops = kept
		if wired || g.Chance(1, 3) {
			ops = append(ops, "wire", "lookup")
		}
	}
	return strings.Join(ops, ",")
}

func (g *Gen) helperSecret(e *helperEntry) []byte {
	if e.Encrypt != 0 && g.Chance(1, 25) {
		return nil
	}
	return g.RandBytes(g.Pick(1, 6, 16))
}

func genC12(g *Gen, tier string, emit func(op string, args ...string)) {
	per := 24
	if tier == "thorough" {
		per = 400
	}
	for _, e := range registry {
		for i := 0; i < per; i++ {
			emit("helper", descOf(e), showAVPs(g.priorPacket(e, false)), hx(g.helperSecret(e)), hx(g.RandBytes(16)), g.helperOps(e))
		}
		// one directed case per helper: every setter entry point it has is given a value outside the attribute's
		// domain (and a valid one afterwards) - the refusal branch of each generated setter runs at least once per tier
		if bad := g.badValueFor(e); bad != "" {
			tag := itoa(g.tagFor(e))
			ops := []string{"set:" + tag + ":" + bad, "lookup"}
			if e.Add != nil {
				ops = append(ops, "add:"+tag+":"+bad)
			}
			if e.SetString != nil {
				ops = append(ops, "setstr:"+tag+":"+bad)
			}
			if e.AddString != nil {
				ops = append(ops, "addstr:"+tag+":"+bad)
			}
			// (the wire trip comes last: a packet that has travelled as a reply is only read, see helperOps)
			ops = append(ops, "set:"+tag+":"+g.valueFor(e), "lookup", "wire")
			emit("helper", descOf(e), showAVPs(g.priorPacket(e, false)), hx(g.helperSecret(e)), hx(g.RandBytes(16)), strings.Join(ops, ","))
		}
		if e.Strings != nil {
			var dv []string
			for _, v := range e.DictValues {
				if strings.ContainsAny(v.Name, ",=\t ") {
					continue
				}
				dv = append(dv, v.Name+"="+strconv.FormatUint(v.Number, 10))
			}
			s := strings.Join(dv, ",")
			if s == "" {
				s = "-"
			}
			emit("consts", e.Pkg+"."+e.Ident, s)
		}
	}
	// names declared for an attribute of ANOTHER package (the -ref option of the package's go:generate line)
	root := dsRepoRoot()
	rels, fieldsOf := c18HelperPackages(root)
	for k, rel := range rels {
		opts, _, dictFile, err := c18DictGenInvocation(fieldsOf[k])
		if err != nil || len(opts.refs) == 0 {
			continue
		}
		p := dictionary.Parser{Opener: &dictionary.FileSystemOpener{Root: filepath.Join(root, filepath.FromSlash(rel))}, IgnoreIdenticalAttributes: true}
		d, err := p.ParseFile(dictFile)
		if err != nil {
			continue
		}
		for attrName, pkgPath := range opts.refs {
			var target *helperEntry
			for _, e := range registry {
				if e.Pkg == pkgPath && e.DictName == attrName {
					target = e
				}
			}
			if target == nil {
				continue
			}
			// per number the LAST declaration in this dictionary; numbers the target's own dictionary declares
			// as well are left out (which init() runs last is the linker's business)
			own := map[uint64]bool{}
			for _, v := range target.DictValues {
				own[v.Number] = true
			}
			last := map[uint64]string{}
			var order []uint64
			for _, v := range d.Values {
				if v.Attribute != attrName || own[v.Number] || strings.ContainsAny(v.Name, ",=\t ") {
					continue
				}
				if _, seen := last[v.Number]; !seen {
					order = append(order, v.Number)
				}
				last[v.Number] = v.Name
			}
			sort.Slice(order, func(i, j int) bool { return order[i] < order[j] })
			var dv []string
			for _, n := range order {
				dv = append(dv, last[n]+"="+strconv.FormatUint(n, 10))
			}
			if len(dv) > 0 {
				emit("extconsts", target.Pkg+"."+target.Ident, strings.Join(dv, ","))
			}
		}
	}
}

func genC14(g *Gen, tier string, emit func(op string, args ...string)) {
	per := 60
	if tier == "thorough" {
		per = 1200
	}
	for _, e := range registry {
		if e.VendorID == 0 {
			continue
		}
		for i := 0; i < per; i++ {
			emit("helper", descOf(e), showAVPs(g.priorPacket(e, true)), hx(g.helperSecret(e)), hx(g.RandBytes(16)), g.helperOps(e))
		}
	}
}

var _ = bytes.Equal
var _ = errors.New
