package main

import (
	"bytes"
	crand "crypto/rand"
	"encoding/binary"
	"errors"
	"io"
	"strings"

	"layeh.com/radius"
)

func init() {
	props["C03"] = &prop{gen: genC03, eval: evalC03, pure: true, par: func(op string) bool { return op != "new" && op != "newstream" }}
	props["C04"] = &prop{gen: genC04, eval: evalC04, pure: true, par: func(string) bool { return true }}
	props["C11"] = &prop{gen: genC11, eval: evalC11, pure: true, par: func(string) bool { return true }}
}

func boolStr(b bool) string {
	if b {
		return "true"
	}
	return "false"
}

func mkPacket(code, id, auth, secret, attrs string) *radius.Packet {
	a := unhx(auth)
	if len(a) != 16 || atoi(id) < 0 || atoi(id) > 255 {
		panic(badCase("bad packet fields"))
	}
	p := &radius.Packet{Code: radius.Code(atoi(code)), Identifier: byte(atoi(id)), Secret: unhx(secret)}
	copy(p.Authenticator[:], a)
	p.Attributes = toAttributes(parseAVPs(attrs))
	return p
}

func evalC03(op string, args []string) string {
	switch op {
	case "encode":
		p := mkPacket(args[0], args[1], args[2], args[3], args[4])
		w, err := p.Encode()
		if err != nil {
			return "err"
		}
		// encoding the same packet again must give the same datagram
		w2, err2 := p.Encode()
		if err2 != nil || !bytes.Equal(w, w2) {
			return "ok " + hx(w) + " second-encode-differs"
		}
		return "ok " + hx(w)
	case "authresp":
		if len(args) == 4 {
			radius.IsAuthenticResponse(unhx(args[0]), unhx(args[2]), unhx(args[3]))
			args = args[1:]
		}
		a0, a1, a2 := unhx(args[0]), unhx(args[1]), unhx(args[2])
		priorVariants([][]byte{a0, a1, a2}, func(v [][]byte) { radius.IsAuthenticResponse(v[0], v[1], v[2]) })
		return boolStr(radius.IsAuthenticResponse(a0, a1, a2))
	case "authreq":
		if len(args) == 3 {
			// a first call on another datagram (the authentic original of the one observed): what the predicate has
			// seen and accepted before is no reason to accept what it is shown now
			radius.IsAuthenticRequest(unhx(args[0]), unhx(args[2]))
			args = args[1:]
		}
		a0, a1 := unhx(args[0]), unhx(args[1])
		priorVariants([][]byte{a0, a1}, func(v [][]byte) { radius.IsAuthenticRequest(v[0], v[1]) })
		return boolStr(radius.IsAuthenticRequest(a0, a1))
	case "exchange":
		req := mkPacket(args[0], args[1], args[2], args[3], args[4])
		rw, err := req.Encode()
		if err != nil {
			return "err"
		}
		// the server side: the reply is built from the request as parsed off the wire
		parsed, err := radius.Parse(rw, req.Secret)
		if err != nil {
			return "ok " + hx(rw) + " unparsable"
		}
		// … by a handler that, in every second case, has edited the request it was handed (stripped and added
		// attributes): the reply answers the datagram that was received, whatever became of the Packet value
		if (len(args[4])+len(args[6])+atoi(args[1]))%2 == 0 {
			parsed.Attributes = append(radius.Attributes{&radius.AVP{Type: 33, Attribute: radius.Attribute("edited-by-the-handler")}}, parsed.Attributes...)
			if len(parsed.Attributes) > 1 {
				parsed.Attributes = parsed.Attributes[:len(parsed.Attributes)-1]
			}
		}
		resp := parsed.Response(radius.Code(atoi(args[5])))
		resp.Attributes = toAttributes(parseAVPs(args[6]))
		w, err := resp.Encode()
		if err != nil {
			return "ok " + hx(rw) + " err"
		}
		tam := append([]byte{}, w...)
		i := atoi(args[7]) % len(tam)
		tam[i] ^= byte(atoi(args[8]))
		sec := req.Secret
		other := append(append([]byte{}, sec...), 1)
		return "ok " + hx(rw) + " " + hx(w) + " " + boolStr(radius.IsAuthenticRequest(rw, sec)) + " " +
			boolStr(radius.IsAuthenticResponse(w, rw, sec)) + " " + boolStr(radius.IsAuthenticResponse(tam, rw, sec)) + " " +
			boolStr(radius.IsAuthenticResponse(w, rw, other))
	case "new":
		secret := unhx(args[1])
		code := radius.Code(atoi(args[0]))
		// 64 fresh packets: all (identifier, authenticator) pairs distinct, fields as given
		seen := map[string]bool{}
		fresh := "fresh"
		var first *radius.Packet
		for i := 0; i < 64; i++ {
			p := radius.New(code, secret)
			if first == nil {
				first = p
			}
			k := string(p.Authenticator[:])
			if seen[k] || p.Authenticator == [16]byte{} {
				fresh = "repeated"
			}
			seen[k] = true
			if p.Code != code || !bytes.Equal(p.Secret, secret) || len(p.Attributes) != 0 {
				return "fields-wrong"
			}
		}
		return "ok " + itoa(int(first.Code)) + " " + hx(first.Secret) + " " + showAttributes(first.Attributes) + " " + fresh
	case "newstream":
		// New must draw every packet's identifier+authenticator from crypto/rand.Reader, never twice:
		// the Reader is replaced by a recorded deterministic stream (optionally failing at one Read);
		// each packet's 17 octets are located in the stream.
		// (second argument "<k>p": the source fails at its k-th Read and at every Read after it)
		permanent := strings.HasSuffix(args[1], "p")
		n, failAt := atoi(args[0]), atoi(strings.TrimSuffix(args[1], "p"))
		if n < 1 || n > 400 || (permanent && failAt < 1) {
			return "BAD-CASE"
		}
		st := &scriptedReader{g: NewGen(uint64(n*1000 + failAt + 7)), failAt: failAt}
		st.permanent = permanent
		if failAt < 0 {
			// failAt = -k: the source never fails but delivers at most k octets per Read (an io.Reader may return
			// fewer octets than asked, without an error): what was not delivered must be asked for again
			st.failAt, st.chunk = 0, -failAt
		}
		old := crand.Reader
		crand.Reader = st
		defer func() { crand.Reader = old }()
		var toks []string
		for i := 0; i < n; i++ {
			tok := func() (tok string) {
				defer func() {
					if r := recover(); r != nil {
						tok = "P"
					}
				}()
				p := radius.New(radius.CodeAccessRequest, []byte("s"))
				w := append([]byte{p.Identifier}, p.Authenticator[:]...)
				at := bytes.Index(st.rec, w)
				if at < 0 {
					return "X"
				}
				return itoa(at)
			}()
			toks = append(toks, tok)
		}
		return strings.Join(toks, ",") + " reads=" + itoa(st.reads)
	}
	return "UNKNOWN-OP"
}

// scriptedReader stands in for crypto/rand.Reader: a deterministic, never-repeating byte stream that is
// recorded, and that fails (once) at its failAt-th Read call (failAt <= 0: never).
type scriptedReader struct {
	g      *Gen
	rec    []byte
	reads  int
	failAt int
	chunk  int
	// permanent: every Read from the failAt-th on fails (a source that is gone for good, not a hiccup)
	permanent bool
}

func (r *scriptedReader) Read(p []byte) (int, error) {
	r.reads++
	if r.reads == r.failAt || (r.permanent && r.reads > r.failAt) {
		return 0, errors.New("entropy source failed")
	}
	if r.chunk > 0 && len(p) > r.chunk {
		p = p[:r.chunk]
	}
	for i := range p {
		p[i] = byte(r.g.U64())
	}
	r.rec = append(r.rec, p...)
	return len(p), nil
}

var _ io.Reader = (*scriptedReader)(nil)

var allCodes = []int{1, 2, 3, 4, 5, 11, 12, 13, 40, 41, 42, 43, 44, 45, 255, 0, -1, -2, 256, 257, 300, 6, 10, 39, 46}

func (g *Gen) code() int {
	if g.Chance(1, 8) {
		return g.Range(-2, 300)
	}
	return allCodes[g.Intn(len(allCodes))]
}

func (g *Gen) smallAVPs() []avp {
	var as []avp
	for k := g.Pick(0, 1, 2, 3); k > 0; k-- {
		as = append(as, avp{g.Pick(1, 2, 26, 80, 255, 256, -1), g.Bytes(g.Pick(0, 1, 4, 16, 40))})
	}
	if g.Chance(1, 30) {
		as = append(as, avp{1, g.Bytes(g.Pick(253, 254))})
	}
	return as
}

func (g *Gen) secret() []byte {
	switch g.Intn(8) {
	case 0:
		return nil
	case 1:
		return []byte("s")
	case 2:
		return g.RandBytes(64)
	default:
		return g.RandBytes(g.Range(1, 20))
	}
}

func validCodes(cls string) []int {
	switch cls {
	case "req":
		return []int{1, 12, 4, 40, 43}
	default:
		return []int{2, 3, 5, 11, 41, 42, 44, 45}
	}
}

func genC03(g *Gen, tier string, emit func(op string, args ...string)) {
	n := 12000
	if tier == "thorough" {
		n = 150000
	}
	// every code -2..300 once through encode and authreq
	for c := -2; c <= 300; c++ {
		emit("encode", itoa(c), itoa(g.Intn(256)), hxIn(g.RandBytes(16)), hxIn([]byte("secret")), showAVPs(g.smallAVPs()))
	}
	// Encode against the formula (not only the predicates) with long secrets and packets up to the limit,
	// for every hashed code; totals beyond the limit must be refused by Encode as well
	for _, code := range []int{1, 2, 3, 4, 5, 11, 12, 40, 41, 42, 43, 44, 45} {
		for _, sl := range []int{65, 127, 128, 129, 253, 1000} {
			for _, total := range []int{300, 4000, 4095, 4096, 4097, 4200} {
				var as []avp
				left := total - 20
				for left >= 2 {
					n := 255
					if left < 255 {
						n = left
					}
					as = append(as, avp{g.Pick(1, 18, 26, 79), g.RandBytes(n - 2)})
					left -= n
				}
				emit("encode", itoa(code), itoa(g.Intn(256)), hxIn(g.RandBytes(16)), hxIn(g.RandBytes(sl)), showAVPs(as))
			}
		}
	}
	for i := 0; i < n; i++ {
		switch g.Intn(10) {
		case 0, 1:
			emit("encode", itoa(g.code()), itoa(g.Intn(256)), hxIn(g.Bytes(16)), hxIn(g.secret()), showAVPs(g.smallAVPs()))
		case 2, 3, 4:
			rc := validCodes("req")[g.Intn(5)]
			pc := validCodes("resp")[g.Intn(8)]
			if g.Chance(1, 6) {
				rc = g.code()
			}
			if g.Chance(1, 6) {
				pc = g.code()
			}
			sec := g.secret()
			if len(sec) == 0 && g.Chance(3, 4) {
				sec = []byte("x")
			}
			emit("exchange", itoa(rc), itoa(g.Intn(256)), hxIn(g.Bytes(16)), hxIn(sec), showAVPs(g.smallAVPs()),
				itoa(pc), showAVPs(g.smallAVPs()), itoa(g.Intn(4096)), itoa(g.Pick(1, 2, 128, 255, g.Range(1, 255))))
		case 5, 6:
			// authentic or damaged response datagrams
			sec := g.secret()
			req := &radius.Packet{Code: radius.Code(g.Pick(1, 4, 12, 40, 43)), Identifier: byte(g.Intn(256)), Secret: sec}
			copy(req.Authenticator[:], g.RandBytes(16))
			rw, _ := req.Encode()
			resp := req.Response(radius.Code(validCodes("resp")[g.Intn(8)]))
			resp.Attributes = toAttributes(g.smallAVPs())
			w, err := resp.Encode()
			if err != nil || rw == nil {
				continue
			}
			if g.Chance(1, 4) {
				// of the REQUEST only the authenticator enters the formula: another code, identifier or Length in the
				// request datagram, or attributes added to it, change nothing (the pair still verifies)
				rw = append([]byte{}, rw...)
				switch g.Intn(4) {
				case 0:
					rw[1] ^= byte(1 + g.Intn(255))
				case 1:
					rw[0] = byte(g.Intn(256))
				case 2:
					rw[2], rw[3] = byte(g.Intn(256)), byte(g.Intn(256))
				default:
					rw = append(rw[:20:20], g.RandBytes(g.Pick(0, 3, 40))...)
				}
				emit("authresp", hxIn(w), hxIn(rw), hxIn(sec))
				continue
			}
			origW := append([]byte{}, w...)
			origRw := append([]byte{}, rw...)
			w, rw = g.damage(w), g.damage(rw)
			if g.Bool() && bytes.Equal(origRw, rw) && !bytes.Equal(origW, w) {
				emit("authresp", hxIn(origW), hxIn(w), hxIn(rw), hxIn(sec))
			}
			if g.Chance(1, 5) {
				sec = g.secret()
			}
			emit("authresp", hxIn(w), hxIn(rw), hxIn(sec))
		case 7, 8:
			sec := g.secret()
			req := &radius.Packet{Code: radius.Code(g.Pick(1, 4, 12, 40, 43, 4, 40, 43, 2, 5, 13, g.Intn(256))), Identifier: byte(g.Intn(256)), Secret: sec}
			copy(req.Authenticator[:], g.RandBytes(16))
			req.Attributes = toAttributes(g.smallAVPs())
			var rw []byte
			if req.Code == 1 || req.Code == 12 || req.Code == 4 || req.Code == 40 || req.Code == 43 || req.Code == 2 || req.Code == 5 {
				rw, _ = req.Encode()
			}
			if rw == nil {
				rw, _ = req.MarshalBinary()
			}
			if rw == nil {
				continue
			}
			if g.Chance(1, 3) {
				// make it a hashed-zero request by hand with another code byte
				rw[0] = byte(g.Pick(4, 40, 43, 1, 12, 5))
			}
			orig := append([]byte{}, rw...)
			rw = g.damage(rw)
			// (every second damaged datagram is shown right after its undamaged original, in one process)
			if g.Bool() && !bytes.Equal(orig, rw) {
				emit("authreq", hxIn(orig), hxIn(rw), hxIn(sec))
				// the classic: same 20-octet header, something behind it flipped, cut or appended
				if len(orig) > 21 {
					t := append([]byte{}, orig...)
					t[20+g.Intn(len(t)-20)] ^= byte(1 + g.Intn(255))
					emit("authreq", hxIn(orig), hxIn(t), hxIn(sec))
					emit("authreq", hxIn(orig), hxIn(orig[:len(orig)-1]), hxIn(sec))
				}
				emit("authreq", hxIn(orig), hxIn(append(append([]byte{}, orig...), 0)), hxIn(sec))
			}
			if g.Chance(1, 6) {
				sec = g.secret()
			}
			emit("authreq", hxIn(rw), hxIn(sec))
		case 9:
			emit("new", itoa(g.code()), hxIn(g.secret()))
		}
	}
	// New against a scripted entropy stream, with and without a failing Read
	for _, nf := range [][2]int{{40, 0}, {200, 0}, {150, 1}, {150, 2}, {150, 3}, {200, 65}, {200, 66}, {300, 129}, {10, 5}, {60, -1}, {60, -5}, {60, -16}, {60, -17}} {
		emit("newstream", itoa(nf[0]), itoa(nf[1]))
	}
	// … and against a source that fails for good: there is no other source to fall back on
	for _, nf := range [][2]int{{12, 1}, {20, 5}, {40, 17}, {40, 18}} {
		emit("newstream", itoa(nf[0]), itoa(nf[1])+"p")
	}
	// long secrets and datagrams near the size limit (the hash must cover all of both)
	for _, rl := range []int{20, 300, 4000, 4090, 4096} {
		for _, sl := range []int{1, 64, 127, 128, 129, 160, 253, 1000} {
			sec := g.RandBytes(sl)
			req := &radius.Packet{Code: 1, Identifier: byte(g.Intn(256)), Secret: sec}
			copy(req.Authenticator[:], g.RandBytes(16))
			rw, _ := req.Encode()
			resp := req.Response(2)
			resp.Attributes = toAttributes(sizedAVPs(rl - 20))
			w, err := resp.Encode()
			if err != nil || rw == nil {
				continue
			}
			emit("authresp", hxIn(w), hxIn(rw), hxIn(sec))
			// signed with a prefix of the secret only / with no secret at all: must be rejected
			for _, cut := range []int{0, sl / 2, sl - 1} {
				forged := append([]byte{}, w...)
				copy(forged[4:20], md5sum(w[:4], rw[4:20], w[20:], sec[:cut]))
				emit("authresp", hxIn(forged), hxIn(rw), hxIn(sec))
			}
			last := append([]byte{}, sec...)
			last[len(last)-1] ^= 1
			emit("authresp", hxIn(w), hxIn(rw), hxIn(last))
			acct := &radius.Packet{Code: 4, Identifier: 1, Secret: sec, Attributes: toAttributes(sizedAVPs(rl - 20))}
			if aw, err := acct.Encode(); err == nil {
				emit("authreq", hxIn(aw), hxIn(sec))
				emit("authreq", hxIn(aw), hxIn(last))
			}
		}
	}
	if tier == "thorough" {
		// every single-byte corruption and truncation of one authentic reply
		sec := []byte("xyzzy5461")
		req := &radius.Packet{Code: 1, Identifier: 7, Secret: sec}
		copy(req.Authenticator[:], g.RandBytes(16))
		rw, _ := req.Encode()
		resp := req.Response(2)
		resp.Add(18, radius.Attribute("hello"))
		w, _ := resp.Encode()
		for i := range w {
			for _, x := range []byte{1, 0x80, 0xff} {
				t := append([]byte{}, w...)
				t[i] ^= x
				emit("authresp", hxIn(t), hxIn(rw), hxIn(sec))
			}
			emit("authresp", hxIn(w[:i]), hxIn(rw), hxIn(sec))
		}
		for i := range rw {
			t := append([]byte{}, rw...)
			t[i] ^= 1
			emit("authresp", hxIn(w), hxIn(t), hxIn(sec))
		}
	}
}

// damage leaves most datagrams intact and otherwise flips, truncates or extends them.
func (g *Gen) damage(w []byte) []byte {
	w = append([]byte{}, w...)
	switch g.Intn(8) {
	case 0:
		if len(w) > 0 {
			w[g.Intn(len(w))] ^= byte(1 << uint(g.Intn(8)))
		}
	case 1:
		w = w[:g.Intn(len(w)+1)]
	case 2:
		w = append(w, g.Bytes(g.Range(1, 3))...)
	case 3:
		if len(w) >= 20 {
			w[4+g.Intn(16)] ^= byte(g.Range(1, 255))
		}
	}
	return w
}

// ---------- C04: User-Password ----------

// reusedBuffers runs f once while the argument buffers hold OTHER contents (same lengths) and restores them:
// the observed call then receives slices whose backing arrays an earlier call has already seen with different
// octets (a cache keyed by the caller's slice instead of a copy shows here).  Returns a function reporting
// whether the observed call changed any argument.
func reusedBuffers(f func(), bufs ...[]byte) func() bool {
	saved := make([][]byte, len(bufs))
	for i, b := range bufs {
		saved[i] = append([]byte{}, b[:cap(b)]...)
		for j := range b {
			b[j] ^= 0x5a
		}
	}
	func() {
		defer func() { recover() }()
		f()
	}()
	for i, b := range bufs {
		copy(b[:cap(b)], saved[i])
	}
	return func() bool {
		for i, b := range bufs {
			if !bytes.Equal(b[:cap(b)], saved[i]) {
				return true
			}
		}
		return false
	}
}

func evalC04(op string, args []string) string {
	switch op {
	case "newup":
		pt, sec, ra := unhx(args[0]), unhx(args[1]), unhx(args[2])
		changed := reusedBuffers(func() { radius.NewUserPassword(pt, sec, ra) }, pt, sec, ra)
		priorVariants([][]byte{pt, sec, ra}, func(v [][]byte) { radius.NewUserPassword(v[0], v[1], v[2]) })
		a, err := radius.NewUserPassword(pt, sec, ra)
		priorVariants([][]byte{pt, sec, ra}, func(v [][]byte) { radius.NewUserPassword(v[0], v[1], v[2]) }) // (results are held across further calls)
		if changed() {
			return "arguments-changed"
		}
		if err != nil {
			return "err"
		}
		return "ok " + hx(a)
	case "up":
		ct, sec, ra := unhx(args[0]), unhx(args[1]), unhx(args[2])
		changed := reusedBuffers(func() { radius.UserPassword(ct, sec, ra) }, ct, sec, ra)
		priorVariants([][]byte{ct, sec, ra}, func(v [][]byte) { radius.UserPassword(v[0], v[1], v[2]) })
		p, err := radius.UserPassword(ct, sec, ra)
		priorVariants([][]byte{ct, sec, ra}, func(v [][]byte) { radius.UserPassword(v[0], v[1], v[2]) })
		if changed() {
			return "arguments-changed"
		}
		if err != nil {
			return "err"
		}
		return "ok " + hx(p)
	case "uprt":
		a, err := radius.NewUserPassword(unhx(args[0]), unhx(args[1]), unhx(args[2]))
		if err != nil {
			return "err"
		}
		p, err := radius.UserPassword(a, unhx(args[1]), unhx(args[2]))
		if err != nil {
			return "ok " + hx(a) + " err"
		}
		return "ok " + hx(a) + " ok " + hx(p)
	}
	return "UNKNOWN-OP"
}

func (g *Gen) plaintext(n int) []byte {
	b := g.RandBytes(n)
	switch g.Intn(6) {
	case 0: // printable
		for i := range b {
			b[i] = byte(g.Range(0x21, 0x7e))
		}
	case 1: // embedded NUL
		if n > 0 {
			b[g.Intn(n)] = 0
		}
	case 2: // trailing NULs
		for i := n - g.Intn(n+1); i < n; i++ {
			b[i] = 0
		}
	case 3:
		for i := range b {
			if b[i] == 0 {
				b[i] = 1
			}
		}
	}
	return b
}

func (g *Gen) ra() []byte {
	if g.Chance(1, 10) {
		return g.RandBytes(g.Pick(0, 1, 15, 17, 32, g.Intn(41), g.Intn(41)))
	}
	return g.RandBytes(16)
}

func (g *Gen) pwSecret() []byte {
	if g.Chance(1, 12) {
		return nil
	}
	if g.Chance(1, 10) {
		// long secrets (nothing in RFC 2865 bounds them; fixed-size scratch buffers would)
		return g.RandBytes(g.Pick(65, 100, 110, 111, 112, 113, 127, 128, 129, 200, 300))
	}
	return g.RandBytes(g.Pick(1, 2, 8, 16, 31, 64))
}

func genC04(g *Gen, tier string, emit func(op string, args ...string)) {
	reps := 12
	if tier == "thorough" {
		reps = 200
	}
	for r := 0; r < reps; r++ {
		for n := 0; n <= 140; n++ {
			emit("uprt", hxIn(g.plaintext(n)), hxIn(g.pwSecret()), hxIn(g.ra()))
			if r%3 == 0 {
				emit("newup", hxIn(g.plaintext(n)), hxIn(g.pwSecret()), hxIn(g.ra()))
			}
		}
		for n := 0; n <= 300; n += 1 + r%3 {
			emit("up", hxIn(g.RandBytes(n)), hxIn(g.pwSecret()), hxIn(g.ra()))
		}
	}
}

// ---------- C11: Tunnel-Password ----------

func evalC11(op string, args []string) string {
	switch op {
	case "newtp":
		pt, salt, sec, ra := unhx(args[0]), unhx(args[1]), unhx(args[2]), unhx(args[3])
		changed := reusedBuffers(func() { radius.NewTunnelPassword(pt, salt, sec, ra) }, pt, salt, sec, ra)
		priorVariants([][]byte{pt, salt, sec, ra}, func(v [][]byte) { radius.NewTunnelPassword(v[0], v[1], v[2], v[3]) })
		a, err := radius.NewTunnelPassword(pt, salt, sec, ra)
		priorVariants([][]byte{pt, salt, sec, ra}, func(v [][]byte) { radius.NewTunnelPassword(v[0], v[1], v[2], v[3]) })
		if changed() {
			return "arguments-changed"
		}
		if err != nil {
			return "err"
		}
		return "ok " + hx(a)
	case "tp":
		ct, sec, ra := unhx(args[0]), unhx(args[1]), unhx(args[2])
		changed := reusedBuffers(func() { radius.TunnelPassword(ct, sec, ra) }, ct, sec, ra)
		priorVariants([][]byte{ct, sec, ra}, func(v [][]byte) { radius.TunnelPassword(v[0], v[1], v[2]) })
		pw, salt, err := radius.TunnelPassword(ct, sec, ra)
		pwWas, saltWas := hx(pw), hx(salt)
		priorVariants([][]byte{ct, sec, ra}, func(v [][]byte) { radius.TunnelPassword(v[0], v[1], v[2]) })
		if hx(pw) != pwWas || hx(salt) != saltWas {
			return "result-changed-by-a-later-call"
		}
		if changed() {
			return "arguments-changed"
		}
		// decrypting the same attribute again gives the same answer
		pw2, salt2, err2 := radius.TunnelPassword(ct, sec, ra)
		if (err == nil) != (err2 == nil) || !bytes.Equal(pw, pw2) || !bytes.Equal(salt, salt2) {
			return "second-decryption-differs"
		}
		if err != nil {
			return "err"
		}
		return "ok " + hx(pw) + " " + hx(salt)
	case "tprt":
		a, err := radius.NewTunnelPassword(unhx(args[0]), unhx(args[1]), unhx(args[2]), unhx(args[3]))
		if err != nil {
			return "err"
		}
		pw, salt, err := radius.TunnelPassword(a, unhx(args[2]), unhx(args[3]))
		if err != nil {
			return "ok " + hx(a) + " err"
		}
		return "ok " + hx(a) + " ok " + hx(pw) + " " + hx(salt)
	}
	return "UNKNOWN-OP"
}

func (g *Gen) salt() []byte {
	switch g.Intn(10) {
	case 0:
		return g.RandBytes(g.Pick(0, 1, 3, 4, 16, g.Intn(20)))
	case 1:
		s := g.RandBytes(2)
		s[0] &= 0x7f
		return s
	default:
		s := g.RandBytes(2)
		s[0] |= 0x80
		return s
	}
}

func genC11(g *Gen, tier string, emit func(op string, args ...string)) {
	reps := 6
	if tier == "thorough" {
		reps = 100
	}
	for r := 0; r < reps; r++ {
		for n := 0; n <= 260; n++ {
			emit("tprt", hxIn(g.plaintext(n)), hxIn(g.salt()), hxIn(g.pwSecret()), hxIn(g.ra()))
			if r%2 == 0 {
				emit("newtp", hxIn(g.plaintext(n)), hxIn(g.salt()), hxIn(g.pwSecret()), hxIn(g.ra()))
			}
		}
		// "rejects lengths that are not 2+16k" whatever the octets are: a well-formed value with ONE octet in front
		// (a tag that was not stripped: ≤ 0x1F, then the salt with its high bit), one behind, or one missing
		for k := 1; k <= 15; k++ {
			sec, ra := g.RandBytes(8), g.RandBytes(16)
			salt := g.RandBytes(2)
			salt[0] |= 0x80
			if a, err := radius.NewTunnelPassword(g.plaintext(g.Pick(16*k-1, 16*k-8, 16*k-16)), salt, sec, ra); err == nil {
				emit("tp", hxIn(append([]byte{byte(g.Intn(0x20))}, a...)), hxIn(sec), hxIn(ra))
				emit("tp", hxIn(append(append([]byte{}, a...), byte(g.U64()))), hxIn(sec), hxIn(ra))
				emit("tp", hxIn(a[:len(a)-1]), hxIn(sec), hxIn(ra))
				emit("tp", hxIn(a[1:]), hxIn(sec), hxIn(ra))
			}
		}
		for n := 0; n <= 300; n++ {
			a := g.RandBytes(n)
			if n > 0 && g.Chance(5, 6) {
				a[0] |= 0x80
			}
			emit("tp", hxIn(a), hxIn(g.pwSecret()), hxIn(g.ra()))
		}
		// ciphertexts whose DECRYPTED length octet is chosen exactly (boundaries of the embedded-length check):
		// c1[0] = want ^ MD5(secret | authenticator | salt)[0]
		for k := 1; k <= 15; k++ {
			for _, want := range []int{16*k - 2, 16*k - 1, 16 * k, 16*k + 1, 255, 0} {
				sec, ra := g.RandBytes(g.Pick(1, 8)), g.RandBytes(16)
				a := g.RandBytes(2 + 16*k)
				a[0] |= 0x80
				b1 := md5sum(sec, ra, a[:2])
				a[2] = byte(want) ^ b1[0]
				emit("tp", hxIn(a), hxIn(sec), hxIn(ra))
			}
		}
		// decoder fed with genuine encodings whose embedded length was made inconsistent
		for k := 0; k < 40; k++ {
			sec, ra := g.RandBytes(8), g.RandBytes(16)
			salt := g.RandBytes(2)
			salt[0] |= 0x80
			a, err := radius.NewTunnelPassword(g.plaintext(g.Intn(60)), salt, sec, ra)
			if err != nil {
				continue
			}
			a[2] ^= byte(g.Intn(256))
			emit("tp", hxIn(a), hxIn(sec), hxIn(ra))
		}
	}
	_ = binary.BigEndian
}

// ---------- facts: per-code tables (complete over 0..255, plus out-of-range probes) ----------

func md5sum(parts ...[]byte) []byte {
	h := md5New()
	for _, p := range parts {
		h.Write(p)
	}
	return h.Sum(nil)
}

// classify what Encode did with the authenticator for a code: 0 verbatim, 1 hashed over the
// request authenticator, 2 hashed over sixteen zero octets, 3 refused, 4 anything else
func encodeClassOf(code int) int {
	secret := []byte("probe-secret")
	p := &radius.Packet{Code: radius.Code(code), Identifier: 9, Secret: secret}
	for i := range p.Authenticator {
		p.Authenticator[i] = byte(0xa0 + i)
	}
	p.Add(1, radius.Attribute("u"))
	w, err := p.Encode()
	if err != nil {
		return 3
	}
	got := w[4:20]
	switch {
	case bytes.Equal(got, p.Authenticator[:]):
		return 0
	case bytes.Equal(got, md5sum(w[:4], p.Authenticator[:], w[20:], secret)):
		return 1
	case bytes.Equal(got, md5sum(w[:4], make([]byte, 16), w[20:], secret)):
		return 2
	}
	return 4
}

// 0 always authentic, 1 authentic iff zero-authenticator hash, 2 never, 3 anything else
func requestClassOf(code int) int {
	secret := []byte("probe-secret")
	w := make([]byte, 24)
	w[0] = byte(code)
	w[1] = 3
	binary.BigEndian.PutUint16(w[2:4], 24)
	w[20], w[21], w[22], w[23] = 1, 4, 'a', 'b'
	for i := 4; i < 20; i++ {
		w[i] = byte(i)
	}
	wrong := radius.IsAuthenticRequest(w, secret)
	copy(w[4:20], md5sum(w[:4], make([]byte, 16), w[20:], secret))
	right := radius.IsAuthenticRequest(w, secret)
	switch {
	case wrong && right:
		return 0
	case !wrong && right:
		return 1
	case !wrong && !right:
		return 2
	}
	return 3
}

var outOfRangeCodes = []int{-2, -1, 256, 257, 258, 260, 267, 268, 296, 299, 300, 511, 512, 513, 1000, 65537}

func init() {
	factProbes = append(factProbes, func(f *factSet) {
		enc := make([]int, 256)
		req := make([]int, 256)
		for c := 0; c < 256; c++ {
			enc[c] = encodeClassOf(c)
			req[c] = requestClassOf(c)
			f.addCase("encodeClass", c, "C03", "encode", itoa(c), "9", "a0a1a2a3a4a5a6a7a8a9aaabacadaeaf", hx([]byte("probe-secret")), "1:75")
			w := make([]byte, 24)
			w[0], w[1], w[3] = byte(c), 3, 24
			w[20], w[21], w[22], w[23] = 1, 4, 'a', 'b'
			copy(w[4:20], md5sum(w[:4], make([]byte, 16), w[20:], []byte("probe-secret")))
			f.addCase("requestClass", c, "C03", "authreq", hx(w), hx([]byte("probe-secret")))
		}
		f.list("encodeClass", enc)
		f.list("requestClass", req)
		oor := make([]int, len(outOfRangeCodes))
		for i, c := range outOfRangeCodes {
			oor[i] = encodeClassOf(c)
			f.addCase("encodeClassOutOfRange", i, "C03", "encode", itoa(c), "9", "a0a1a2a3a4a5a6a7a8a9aaabacadaeaf", hx([]byte("probe-secret")), "1:75")
		}
		f.list("encodeClassOutOfRange", oor)
	})
}
