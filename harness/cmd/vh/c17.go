package main

// C17: dictionarygen.Generator.Generate on arbitrary dictionaries.
//
//	gen  <attrs> <values> <vendors> <pkg> <ignore> <refs>      (syntax: dictsyntax.go; ASCII names — modelled in Lean)
//	genu <attrs> <values> <vendors> <pkg> <ignore> <refs>      (same, names with non-ASCII bytes — Go-side oracle only)
//	  => err <class> perm=<0|1>
//	  => ok fmt=<0|1> rerun=<0|1> perm=<0|1> compiles=<1|0:first-error> <imports> <dsInventory>
//
// fmt      format.Source(output) == output
// rerun    a second Generate on the same dictionary value AND one on a freshly built equal dictionary are byte-identical
// perm     every tried permutation of the ATTRIBUTE and VENDOR declarations (VALUE order kept) gives the
//          same bytes (resp. also an error): all dsPermutations when there are <= 4 declarations, otherwise
//          reversal, adjacent swaps, rotations and pseudo-random shuffles derived from the case itself
// compiles the output type-checks (go/types, sources of the working tree's packages and of the standard library)

import (
	"bytes"
	"go/ast"
	"go/build"
	"go/format"
	"go/importer"
	"go/parser"
	"go/token"
	"go/types"
	"hash/fnv"
	"path/filepath"
	"strconv"
	"strings"
	"sync"
	"time"

	"layeh.com/radius/dictionary"
)

func init() {
	props["C17"] = &prop{gen: genC17, eval: evalC17, timeout: 120 * time.Second, par: func(string) bool { return true }}
}

// ---- type checking against the working tree ----

type c17TreeImporter struct {
	mu    sync.Mutex
	fset  *token.FileSet
	std   types.Importer
	cache map[string]*types.Package
	root  string
}

var c17TheImporter *c17TreeImporter
var c17ImporterOnce sync.Once

func c17GetImporter() *c17TreeImporter {
	c17ImporterOnce.Do(func() {
		fset := token.NewFileSet()
		c17TheImporter = &c17TreeImporter{fset: fset, std: importer.ForCompiler(fset, "source", nil), cache: map[string]*types.Package{}, root: dsRepoRoot()}
	})
	return c17TheImporter
}

const c17ModulePath = "layeh.com/radius"

func (ti *c17TreeImporter) Import(path string) (*types.Package, error) {
	if path != c17ModulePath && !strings.HasPrefix(path, c17ModulePath+"/") {
		return ti.std.Import(path)
	}
	if p, ok := ti.cache[path]; ok {
		return p, nil
	}
	dir := filepath.Join(ti.root, filepath.FromSlash(strings.TrimPrefix(strings.TrimPrefix(path, c17ModulePath), "/")))
	ctxt := build.Default
	ctxt.BuildTags = append([]string{"verif"}, ctxt.BuildTags...)
	bp, err := ctxt.ImportDir(dir, 0)
	if err != nil {
		return nil, err
	}
	var files []*ast.File
	for _, name := range bp.GoFiles {
		f, err := parser.ParseFile(ti.fset, filepath.Join(dir, name), nil, 0)
		if err != nil {
			return nil, err
		}
		files = append(files, f)
	}
	conf := types.Config{Importer: ti}
	p, err := conf.Check(path, ti.fset, files, nil)
	if err != nil {
		return nil, err
	}
	ti.cache[path] = p
	return p, nil
}

// c17Typecheck returns nil when src is a well-typed single-file package.
func c17Typecheck(src []byte) error {
	ti := c17GetImporter()
	ti.mu.Lock()
	defer ti.mu.Unlock()
	f, err := parser.ParseFile(ti.fset, "generated.go", src, 0)
	if err != nil {
		return err
	}
	conf := types.Config{Importer: ti}
	_, err = conf.Check("generatedpkg", ti.fset, []*ast.File{f}, nil)
	return err
}

// ---- dsPermutations of declarations ----

func dsPermutations(n int) [][]int {
	if n == 0 {
		return [][]int{{}}
	}
	var res [][]int
	for _, p := range dsPermutations(n - 1) {
		for i := 0; i <= len(p); i++ {
			q := append(append(append([]int{}, p[:i]...), n-1), p[i:]...)
			res = append(res, q)
		}
	}
	return res
}

type c17DeclPerm struct {
	attrs   []int
	vendors []int
	vattrs  [][]int // per vendor (original index)
}

func dsIdentity(n int) []int {
	p := make([]int, n)
	for i := range p {
		p[i] = i
	}
	return p
}

func c17ApplyPerm(d *dictionary.Dictionary, p c17DeclPerm) *dictionary.Dictionary {
	r := &dictionary.Dictionary{Values: d.Values}
	for _, i := range p.attrs {
		r.Attributes = append(r.Attributes, d.Attributes[i])
	}
	for _, i := range p.vendors {
		v := *d.Vendors[i]
		v.Attributes = nil
		for _, j := range p.vattrs[i] {
			v.Attributes = append(v.Attributes, d.Vendors[i].Attributes[j])
		}
		r.Vendors = append(r.Vendors, &v)
	}
	return r
}

func c17DeclPerms(d *dictionary.Dictionary, seed uint64) []c17DeclPerm {
	na, nv := len(d.Attributes), len(d.Vendors)
	total := na + nv
	for _, v := range d.Vendors {
		total += len(v.Attributes)
	}
	idv := make([][]int, nv)
	for i, v := range d.Vendors {
		idv[i] = dsIdentity(len(v.Attributes))
	}
	var res []c17DeclPerm
	if total <= 4 {
		// the full product
		var rec func(i int, cur [][]int)
		aps, vps := dsPermutations(na), dsPermutations(nv)
		rec = func(i int, cur [][]int) {
			if i == nv {
				for _, ap := range aps {
					for _, vp := range vps {
						res = append(res, c17DeclPerm{ap, vp, append([][]int{}, cur...)})
					}
				}
				return
			}
			for _, p := range dsPermutations(len(d.Vendors[i].Attributes)) {
				rec(i+1, append(cur, p))
			}
		}
		rec(0, nil)
		return res
	}
	rev := func(n int) []int {
		p := dsIdentity(n)
		for i, j := 0, n-1; i < j; i, j = i+1, j-1 {
			p[i], p[j] = p[j], p[i]
		}
		return p
	}
	revv := make([][]int, nv)
	for i, v := range d.Vendors {
		revv[i] = rev(len(v.Attributes))
	}
	res = append(res, c17DeclPerm{rev(na), rev(nv), revv})
	res = append(res, c17DeclPerm{rev(na), dsIdentity(nv), idv})
	res = append(res, c17DeclPerm{dsIdentity(na), rev(nv), idv})
	res = append(res, c17DeclPerm{dsIdentity(na), dsIdentity(nv), revv})
	for i := 0; i+1 < na && i < 6; i++ {
		p := dsIdentity(na)
		p[i], p[i+1] = p[i+1], p[i]
		res = append(res, c17DeclPerm{p, dsIdentity(nv), idv})
	}
	g := NewGen(seed)
	shuffle := func(n int) []int {
		p := dsIdentity(n)
		for i := n - 1; i > 0; i-- {
			j := g.Intn(i + 1)
			p[i], p[j] = p[j], p[i]
		}
		return p
	}
	for k := 0; k < 6; k++ {
		sv := make([][]int, nv)
		for i, v := range d.Vendors {
			sv[i] = shuffle(len(v.Attributes))
		}
		res = append(res, c17DeclPerm{shuffle(na), shuffle(nv), sv})
	}
	return res
}

func c17ErrClass(err error) string {
	s := err.Error()
	switch {
	case strings.HasPrefix(s, "dictionarygen: conflicting identifier"):
		return "collision"
	case strings.HasPrefix(s, "dictionarygen: unknown attribute"):
		return "unknownvalue"
	case strings.HasPrefix(s, "dictionarygen: cannot generate code for attribute "), strings.Contains(s, " vendor attribute "):
		return "invalid"
	case strings.HasPrefix(s, "dictionarygen: cannot generate code for "):
		return "vendorformat"
	case strings.HasPrefix(s, "dictionarygen: duplicate"):
		return "duplicate"
	case strings.HasPrefix(s, "dictionarygen: "):
		return "refused"
	}
	return "format" // go/format rejected the text
}

func c17IsASCIINames(d *dictionary.Dictionary, o dsGenOpts) bool {
	ok := func(s string) bool {
		for i := 0; i < len(s); i++ {
			if s[i] >= 0x80 {
				return false
			}
		}
		return true
	}
	for _, a := range d.Attributes {
		if !ok(a.Name) {
			return false
		}
	}
	for _, v := range d.Values {
		if !ok(v.Name) || !ok(v.Attribute) {
			return false
		}
	}
	for _, vn := range d.Vendors {
		if !ok(vn.Name) {
			return false
		}
		for _, a := range vn.Attributes {
			if !ok(a.Name) {
				return false
			}
		}
		for _, v := range vn.Values {
			if !ok(v.Name) || !ok(v.Attribute) {
				return false
			}
		}
	}
	for _, n := range o.ignore {
		if !ok(n) {
			return false
		}
	}
	for n := range o.refs {
		if !ok(n) {
			return false
		}
	}
	return true
}

func dsB01(b bool) string {
	if b {
		return "1"
	}
	return "0"
}

func evalC17(op string, args []string) string {
	if (op != "gen" && op != "genu") || len(args) != 6 {
		return "BAD-CASE"
	}
	opts := dsParseOpts(args[3], args[4], args[5])
	if !token.IsIdentifier(opts.pkg) {
		return "BAD-CASE"
	}
	dict := dsParseDict(args[0], args[1], args[2])
	if op == "gen" && !c17IsASCIINames(dict, opts) {
		return "BAD-CASE"
	}
	// history: the Generator value has already produced code for ANOTHER dictionary (with a vendor, values,
	// every helper family); nothing of that may show in this run
	gen0 := opts.generator()
	func() {
		defer func() { recover() }()
		prior := dsParseDict("-:5072696f72:200:1:-:-:-:-,-:5072696f722d496e74:201:5:-:-:1:-,v0:56656e2d41:1:1:-:-:-:-,v0:56656e2d42:2:5:-:2:-:-",
			"-:5072696f722d496e74:4f6e65:1,v0:56656e2d42:54776f:2", "v0:5072696f7256:4242:-:-")
		// (a VALUE for every external attribute of this Generator, so that the prior run has gone
		// through the external-attribute code as well)
		for name := range opts.refs {
			prior.Values = append(prior.Values, &dictionary.Value{Attribute: name, Name: "Prior-Ext", Number: 4242})
		}
		gen0.Generate(prior)
	}()
	out, err := gen0.Generate(dict)
	// a second run on the SAME *Dictionary value: Generate must not have modified its argument
	outSame, errSame := gen0.Generate(dict)
	sameOK := (errSame != nil) == (err != nil) && (err != nil || bytes.Equal(out, outSame))
	if !sameOK && err != nil {
		return "ok fmt=0 rerun=0 perm=0 compiles=0:second_run_on_the_same_dictionary_differs - -"
	}

	h := fnv.New64a()
	h.Write([]byte(strings.Join(args, "\t")))
	permOK := true
	for _, p := range c17DeclPerms(dict, h.Sum64()) {
		pd := c17ApplyPerm(dsParseDict(args[0], args[1], args[2]), p)
		pout, perr := opts.generator().Generate(pd)
		if (perr != nil) != (err != nil) || (err == nil && !bytes.Equal(pout, out)) {
			permOK = false
			break
		}
	}
	if err != nil {
		return "err " + c17ErrClass(err) + " perm=" + dsB01(permOK)
	}
	formatted, ferr := format.Source(out)
	fmtOK := ferr == nil && bytes.Equal(formatted, out)
	out2, err2 := dsParseOpts(args[3], args[4], args[5]).generator().Generate(dsParseDict(args[0], args[1], args[2]))
	rerunOK := err2 == nil && bytes.Equal(out, out2) && sameOK
	decls, imports, ierr := dsInventory(out)
	if ierr != nil {
		return "ok fmt=0 rerun=" + dsB01(rerunOK) + " perm=" + dsB01(permOK) + " compiles=0:" + dsErrToken(ierr) + " - -"
	}
	compiles := "1"
	if terr := c17Typecheck(out); terr != nil {
		compiles = "0:" + dsErrToken(terr)
	}
	return "ok fmt=" + dsB01(fmtOK) + " rerun=" + dsB01(rerunOK) + " perm=" + dsB01(permOK) + " compiles=" + compiles + " " + dsJoin(imports) + " " + dsJoin(decls)
}

// ---- generators ----

var c17Words = []string{"Foo", "Bar", "Acct", "Session", "Id", "ip", "IP", "http", "Url", "TTL", "Tunnel", "Type", "Value", "Name", "x", "Q",
	"802", "1x", "v6", "Key", "MS", "CHAP", "Strings", "Add", "Get", "Set", "Del", "Lookup", "Gets", "String", "uid", "Vendor", "VendorID", "abc"}

// names that normalise to a valid exported identifier (keyword-like, digit-leading, '+', initialisms, collisions among themselves)
var c17Benign = []string{"type", "func", "String", "Type", "init", "error", "radius", "net", "byte", "len", "string", "uint32", "Packet",
	"3Com", "9", "00-X", "3GPP-X", "A+B", "C++", "+", "X+", "X-9", "X_9", "a.b", "a/b", "a b", "Foo-Type", "Foo-Add",
	"Foo-Strings", "Foo-Value-Bar", "Foo_Type", "FOO-BAR", "foo-bar", "Foo-Bar", "Foo_Bar", "Foo.Bar", "FooBar", "Id", "ID", "id", "Ip", "Http-Url",
	"utf8", "X-Y-Z", "x", "X", "a\tb", "New", "Attribute", "rand", "errors", "strconv", "time", "p", "q", "value", "err"}

// names without a usable identifier
var c17Nasty = []string{"-", "_", "", "--", "-9abc", ".5", "\"", "`", "\\", "-+", " "}

var c17Special = append(append([]string{}, c17Benign...), c17Nasty...)

var c17NonASCII = []string{"Ünï-çode", "日本", "x²", "\xff\xfe", "é", "É-x", "ǅ", "ß-a", "naïve", "٣", "Ⅷ", "a b", "​", "ʰ", "X-\xc3"}

func (g *Gen) c17Name() string {
	switch {
	case c17Dirty && g.Chance(1, 12):
		return c17Nasty[g.Intn(len(c17Nasty))]
	case g.Chance(1, 6):
		return c17Benign[g.Intn(len(c17Benign))]
	default:
		n := g.Range(1, 3)
		parts := make([]string, n)
		for i := range parts {
			parts[i] = c17Words[g.Intn(len(c17Words))]
		}
		sep := []string{"-", "-", "-", "_", ".", ""}[g.Intn(6)]
		return strings.Join(parts, sep)
	}
}

// types with a template (top-level: plus vsa)
var c17Supported = []dictionary.AttributeType{dictionary.AttributeString, dictionary.AttributeOctets, dictionary.AttributeIPAddr,
	dictionary.AttributeDate, dictionary.AttributeInteger, dictionary.AttributeIPv6Addr, dictionary.AttributeIPv6Prefix, dictionary.AttributeIFID,
	dictionary.AttributeInteger64, dictionary.AttributeByte, dictionary.AttributeShort}

func c17IsStringy(t dictionary.AttributeType) bool {
	return t == dictionary.AttributeString || t == dictionary.AttributeOctets
}

func c17IsIntKind(t dictionary.AttributeType) bool {
	return t == dictionary.AttributeInteger || t == dictionary.AttributeShort || t == dictionary.AttributeInteger64
}

func (g *Gen) c17OID() dictionary.OID {
	if c17Dirty {
		switch {
		case g.Chance(1, 25):
			return dictionary.OID{g.Range(0, 300), g.Range(0, 300)}
		case g.Chance(1, 60):
			return nil
		case g.Chance(1, 30):
			return dictionary.OID{g.Pick(255, 256, 300, 65536)}
		case g.Chance(1, 100):
			return dictionary.OID{-1}
		}
	}
	return dictionary.OID{g.Range(0, 255)}
}

// a mostly-valid attribute; wild = any combination of flags
func (g *Gen) c17Attr(name string, vendor bool, wild bool) *dictionary.Attribute {
	a := &dictionary.Attribute{Name: name, OID: g.c17OID()}
	if wild {
		a.Type = dictionary.AttributeType(g.Range(1, 17))
		if g.Chance(1, 3) {
			a.Size = dictionary.IntFlag{Int: g.Pick(0, 1, 16, 24, 253, 254, -3), Valid: true}
		}
		if g.Chance(1, 2) {
			a.FlagEncrypt = dictionary.IntFlag{Int: g.Pick(0, 1, 2, 2, 3), Valid: true}
		}
		if g.Chance(1, 3) {
			a.FlagHasTag = dictionary.BoolFlag{Valid: true, Bool: g.Chance(3, 4)}
		}
		if g.Chance(1, 4) {
			a.FlagConcat = dictionary.BoolFlag{Valid: true, Bool: g.Chance(3, 4)}
		}
		return a
	}
	a.Type = c17Supported[g.Intn(len(c17Supported))]
	if !vendor && g.Chance(1, 20) {
		a.Type = dictionary.AttributeVSA
	}
	if c17IsStringy(a.Type) {
		switch g.Intn(8) {
		case 0:
			a.Size = dictionary.IntFlag{Int: g.Pick(1, 16, 24, 50), Valid: true}
		case 1:
			a.FlagEncrypt = dictionary.IntFlag{Int: 1, Valid: true}
		case 2:
			a.FlagEncrypt = dictionary.IntFlag{Int: 2, Valid: true}
		case 3:
			a.FlagHasTag = dictionary.BoolFlag{Valid: true, Bool: true}
			if g.Bool() {
				a.FlagEncrypt = dictionary.IntFlag{Int: 2, Valid: true}
			}
		case 4:
			if !vendor {
				a.FlagConcat = dictionary.BoolFlag{Valid: true, Bool: true}
			}
		}
	} else if a.Type == dictionary.AttributeInteger && g.Chance(1, 4) {
		a.FlagHasTag = dictionary.BoolFlag{Valid: true, Bool: true}
	} else if (c17IsIntKind(a.Type) || a.Type == dictionary.AttributeIPAddr || a.Type == dictionary.AttributeIPv6Addr) && g.Chance(1, 5) {
		a.FlagEncrypt = dictionary.IntFlag{Int: 2, Valid: true}
	} else if g.Chance(1, 40) {
		a.FlagEncrypt = dictionary.IntFlag{Int: g.Pick(1, 2), Valid: true}
	}
	if g.Chance(1, 30) {
		a.FlagHasTag = dictionary.BoolFlag{Valid: true, Bool: false}
	}
	if g.Chance(1, 30) {
		a.FlagConcat = dictionary.BoolFlag{Valid: true, Bool: false}
	}
	return a
}

func (g *Gen) c17ValueNumber(t dictionary.AttributeType) uint64 {
	if c17Dirty {
		switch {
		case g.Chance(1, 20):
			return uint64(g.Pick(65535, 65536, 4294967295, 4294967296))
		case g.Chance(1, 100):
			return 1<<64 - 1
		}
	}
	if g.Chance(1, 20) {
		// the largest value of the type
		switch t {
		case dictionary.AttributeShort:
			return 65535
		case dictionary.AttributeInteger:
			return 4294967295
		case dictionary.AttributeInteger64:
			return 1<<64 - 1
		}
	}
	return uint64(g.Range(0, 12))
}

// c17Dirty: the dictionary under construction may contain unsupported material (set per dictionary)
var c17Dirty bool

var c17Refs = [][2]string{{"Service-Type", "layeh.com/radius/rfc2865"}, {"Acct-Status-Type", "layeh.com/radius/rfc2866"},
	{"Error-Cause", "layeh.com/radius/rfc3576"}, {"NAS-Port-Type", "layeh.com/radius/rfc2865"}, {"Tunnel-Type", "layeh.com/radius/rfc2868"}}

func (g *Gen) c17Values(attrs []*dictionary.Attribute) []*dictionary.Value {
	var vals []*dictionary.Value
	for _, a := range attrs {
		n := 0
		if c17IsIntKind(a.Type) {
			n = g.Pick(0, 1, 2, 3, 5)
		} else if g.Chance(1, 12) {
			n = 1 // VALUE for an attribute without constants: accepted and ignored
		}
		for i := 0; i < n; i++ {
			name := "V" + strconv.Itoa(i) + "-" + g.c17Name()
			if c17Dirty && g.Chance(1, 6) {
				name = g.c17Name() // may repeat / collide
			}
			vals = append(vals, &dictionary.Value{Attribute: a.Name, Name: name, Number: g.c17ValueNumber(a.Type)})
		}
	}
	// declaration order of VALUE lines is arbitrary
	for i := len(vals) - 1; i > 0; i-- {
		j := g.Intn(i + 1)
		vals[i], vals[j] = vals[j], vals[i]
	}
	return vals
}

func (g *Gen) c17Dict(nonASCII bool) (*dictionary.Dictionary, dsGenOpts) {
	d := &dictionary.Dictionary{}
	o := dsGenOpts{pkg: []string{"p", "genpkg", "rfc0000", "main"}[g.Intn(4)], refs: map[string]string{}}
	// a clean dictionary uses only what the generator documents as supported; a dirty one mixes in
	// unsupported flag combinations, unusable names, out-of-range numbers, dotted OIDs, vendor formats
	c17Dirty = g.Chance(2, 5)
	wildness := 0 // 0: all attributes mostly valid, 1: one wild attribute, 2: all wild
	if c17Dirty {
		wildness = g.Pick(0, 0, 1, 1, 2)
	}
	used := map[string]bool{}
	name := func() string {
		for k := 0; ; k++ {
			var n string
			if nonASCII && g.Chance(1, 2) {
				n = c17NonASCII[g.Intn(len(c17NonASCII))]
				if g.Bool() {
					n = g.c17Name() + "-" + n
				}
			} else {
				n = g.c17Name()
			}
			if !used[c17IdentLike(n)] || (c17Dirty && g.Chance(1, 30)) || k > 20 {
				used[c17IdentLike(n)] = true
				return n
			}
		}
	}
	na := g.Pick(0, 1, 1, 2, 2, 3, 4, 5, 8)
	wildIdx := g.Intn(na + 1)
	for i := 0; i < na; i++ {
		d.Attributes = append(d.Attributes, g.c17Attr(name(), false, wildness == 2 || (wildness == 1 && i == wildIdx)))
	}
	d.Values = g.c17Values(d.Attributes)
	nv := g.Pick(0, 0, 0, 1, 1, 2, 3)
	for i := 0; i < nv; i++ {
		v := &dictionary.Vendor{Name: name(), Number: g.Pick(0, 1, 9, 311, 14988, 14122, 300, g.Range(0, 300))}
		if g.Chance(1, 40) {
			v.Number = g.Pick(4294967295, 2147483647)
		}
		if c17Dirty && g.Chance(1, 20) {
			v.Number = g.Pick(-1, 4294967296)
		}
		if g.Chance(1, 12) {
			t, l := 1, 1
			if c17Dirty {
				t, l = g.Pick(1, 2, 4), g.Pick(1, 1, 0, 2)
			}
			v.TypeOctets, v.LengthOctets = &t, &l
		}
		m := g.Pick(0, 1, 2, 3, 5)
		for j := 0; j < m; j++ {
			v.Attributes = append(v.Attributes, g.c17Attr(name(), true, wildness == 2 || (wildness == 1 && g.Chance(1, 4))))
		}
		v.Values = g.c17Values(v.Attributes)
		d.Vendors = append(d.Vendors, v)
	}
	// VALUE for an unknown attribute
	if c17Dirty && g.Chance(1, 12) {
		d.Values = append(d.Values, &dictionary.Value{Attribute: "No-Such-Attribute", Name: "X", Number: 1})
	}
	// external attributes
	if g.Chance(1, 6) {
		k := g.Pick(1, 1, 2)
		for i := 0; i < k; i++ {
			r := c17Refs[g.Intn(len(c17Refs))]
			o.refs[r[0]] = r[1]
			if g.Chance(4, 5) {
				m := g.Pick(1, 2, 3)
				for j := 0; j < m; j++ {
					vn := "Zz-Ext" + strconv.Itoa(j)
					if c17Dirty && g.Chance(1, 5) {
						vn = "Zz-Ext0"
					}
					d.Values = append(d.Values, &dictionary.Value{Attribute: r[0], Name: vn, Number: uint64(1000 + g.Range(0, 9))})
				}
			}
		}
	}
	// ignore list
	if g.Chance(1, 4) {
		var all []string
		for _, a := range d.Attributes {
			all = append(all, a.Name)
		}
		for _, v := range d.Vendors {
			for _, a := range v.Attributes {
				all = append(all, a.Name)
			}
		}
		seen := map[string]bool{}
		for i := 0; i < g.Pick(1, 1, 2, 3) && len(all) > 0; i++ {
			n := all[g.Intn(len(all))]
			if !seen[n] {
				seen[n] = true
				o.ignore = append(o.ignore, n)
			}
		}
		if g.Chance(1, 5) {
			o.ignore = append(o.ignore, "Not-Declared")
		}
	}
	return d, o
}

// c17IdentLike is a cheap approximation of the identifier normalisation, used only to keep the
// names of a clean dictionary from colliding by accident
func c17IdentLike(n string) string {
	return strings.ToLower(strings.Map(func(r rune) rune {
		if r >= '0' && r <= '9' || r >= 'a' && r <= 'z' || r >= 'A' && r <= 'Z' || r >= 0x80 {
			return r
		}
		return -1
	}, strings.ReplaceAll(n, "+", "Plus")))
}

func c17Emit(emit func(op string, args ...string), d *dictionary.Dictionary, o dsGenOpts) {
	a, v, vn := dsShowDict(d)
	pk, ig, rf := o.show()
	op := "gen"
	if !c17IsASCIINames(d, o) {
		op = "genu"
	}
	emit(op, a, v, vn, pk, ig, rf)
}

// minimised past failures (one per defect class found while building the check), run first
var c17Corpus = [][6]string{
	{"-:41:1:5:-:-:-:-", "-:41:782d79:1,-:41:785f79:2", "-", "p", "-", "-"}, // VALUE x-y / x_y: one identifier (#15)
	{"-", "-", "v0:562d31:1:-:-,v1:565f31:2:-:-", "p", "-", "-"},            // VENDOR V-1 / V_1: one identifier (#15)
	{"v0:41:256:1:-:-:-:-", "-", "v0:56:9:-:-", "p", "-", "-"},              // vendor attribute number 256
	{"-:58:1:4:-:2:-:-", "-", "-", "p", "-", "-"},                           // date encrypt=2 (#18)
	{"-:41:1:5:-:2:1:-", "-", "-", "p", "-", "-"},                           // integer has_tag,encrypt=2 (#18)
	{"-:41:1:14:-:-:-:-", "-:41:42:70000", "-", "p", "-", "-"},              // short with VALUE 70000
	{"-:2d:1:1:-:-:-:-", "-", "-", "p", "-", "-"},                           // attribute named "-": empty identifier
	{"v0:58:255.1:2:-:-:-:-", "-", "v0:56:9:-:-", "p", "58", "-"},           // ignored vendor attribute (shape of rfc4679)
	{"v0:58:-:1:-:-:-:-", "-", "v0:56:9:-:-", "p", "58", "-"},               // ignored vendor attribute with empty OID (panicked)
	{"-:42:2:1:-:-:-:-,-:41:1:1:-:-:-:-", "-", "-", "p", "-", "-"},          // B(2), A(1): declaration order (#14)
	{"-:42:1:1:-:-:-:-,-:41:1:1:-:-:-:-", "-", "-", "p", "-", "-"},          // B(1), A(1): equal OIDs, tie by name
	{"-", "-", "v0:56:-1:-:-", "p", "-", "-"},                               // vendor number -1
}

func genC17(g *Gen, tier string, emit func(op string, args ...string)) {
	root := dsRepoRoot()
	for _, c := range c17Corpus {
		emit("gen", c[0], c[1], c[2], c[3], c[4], c[5])
	}
	// 1. the shipped dictionaries with their real options
	for _, dir := range c18Artefacts(root) {
		fields, _ := c18GenerateLine(filepath.Join(root, dir, "generate.go"))
		opts, _, dictFile, err := c18DictGenInvocation(fields)
		if err != nil {
			continue // debug
		}
		p := dictionary.Parser{Opener: &dictionary.FileSystemOpener{Root: filepath.Join(root, dir)}, IgnoreIdenticalAttributes: true}
		dict, err := p.ParseFile(dictFile)
		if err != nil {
			continue
		}
		c17Emit(emit, dict, opts)
	}
	// 2. every type x flag combination, top-level and in a vendor, as one-attribute dictionaries
	flagsB := []dictionary.BoolFlag{{}, {Valid: true}, {Valid: true, Bool: true}}
	for t := 1; t <= 17; t++ {
		for _, enc := range []dictionary.IntFlag{{}, {Int: 1, Valid: true}, {Int: 2, Valid: true}, {Int: 3, Valid: true}} {
			for _, tag := range flagsB {
				for _, cc := range flagsB {
					for _, size := range []dictionary.IntFlag{{}, {Int: 16, Valid: true}} {
						for _, inVendor := range []bool{false, true} {
							a := &dictionary.Attribute{Name: "Attr-Under-Test", OID: dictionary.OID{7}, Type: dictionary.AttributeType(t), Size: size, FlagEncrypt: enc, FlagHasTag: tag, FlagConcat: cc}
							val := &dictionary.Value{Attribute: a.Name, Name: "Some-Value", Number: 3}
							d := &dictionary.Dictionary{}
							if inVendor {
								d.Vendors = []*dictionary.Vendor{{Name: "Ven-Dor", Number: 99, Attributes: []*dictionary.Attribute{a}, Values: []*dictionary.Value{val}}}
							} else {
								d.Attributes = []*dictionary.Attribute{a}
								d.Values = []*dictionary.Value{val}
							}
							c17Emit(emit, d, dsGenOpts{pkg: "p"})
						}
					}
				}
			}
		}
	}
	// 3. identifier normalisation: one-attribute dictionaries over the special names
	for _, n := range append(append([]string{}, c17Special...), c17Words...) {
		for _, t := range []dictionary.AttributeType{dictionary.AttributeString, dictionary.AttributeInteger} {
			d := &dictionary.Dictionary{Attributes: []*dictionary.Attribute{{Name: n, OID: dictionary.OID{1}, Type: t}},
				Values: []*dictionary.Value{{Attribute: n, Name: n, Number: 1}}}
			c17Emit(emit, d, dsGenOpts{pkg: "p"})
		}
	}
	for _, n := range c17NonASCII {
		d := &dictionary.Dictionary{Attributes: []*dictionary.Attribute{{Name: n, OID: dictionary.OID{1}, Type: dictionary.AttributeInteger}},
			Values: []*dictionary.Value{{Attribute: n, Name: n, Number: 1}}}
		c17Emit(emit, d, dsGenOpts{pkg: "p"})
	}
	// 3a. the ignore list and the imports: the ONLY attribute whose kind needs a package is ignored
	//     (top-level and inside a vendor), next to a plain text attribute that stays
	for t := 1; t <= 17; t++ {
		for _, inVendor := range []bool{false, true} {
			for _, enc := range []dictionary.IntFlag{{}, {Int: 2, Valid: true}} {
				ign := &dictionary.Attribute{Name: "Ignored-One", OID: dictionary.OID{7}, Type: dictionary.AttributeType(t), FlagEncrypt: enc}
				keep := &dictionary.Attribute{Name: "Kept-Text", OID: dictionary.OID{8}, Type: dictionary.AttributeString}
				d := &dictionary.Dictionary{}
				if inVendor {
					d.Vendors = []*dictionary.Vendor{{Name: "Ven-Dor", Number: 99, Attributes: []*dictionary.Attribute{ign, keep}}}
				} else {
					d.Attributes = []*dictionary.Attribute{ign, keep}
				}
				c17Emit(emit, d, dsGenOpts{pkg: "p", ignore: []string{"Ignored-One"}})
				// … and with a VALUE of the ignored attribute
				d2 := *d
				if inVendor {
					v2 := *d.Vendors[0]
					v2.Values = []*dictionary.Value{{Attribute: "Ignored-One", Name: "V", Number: 1}}
					d2.Vendors = []*dictionary.Vendor{&v2}
				} else {
					d2.Values = []*dictionary.Value{{Attribute: "Ignored-One", Name: "V", Number: 1}}
				}
				c17Emit(emit, &d2, dsGenOpts{pkg: "p", ignore: []string{"Ignored-One"}})
			}
		}
	}
	// 3b. the SAME declaration twice (word for word) in every pair of scopes: top-level twice, top-level
	//     and a vendor, two vendors, one vendor twice; identical, and differing in one field
	for _, t := range []dictionary.AttributeType{dictionary.AttributeString, dictionary.AttributeInteger, dictionary.AttributeIPAddr, dictionary.AttributeVSA} {
		mk := func(oid int, size bool) *dictionary.Attribute {
			a := &dictionary.Attribute{Name: "Twice-Declared", OID: dictionary.OID{oid}, Type: t}
			if size {
				a.Size = dictionary.IntFlag{Int: 4, Valid: true}
			}
			return a
		}
		for _, variant := range []int{0, 1, 2} { // 0 identical, 1 other number, 2 other size
			b := mk(5, false)
			if variant == 1 {
				b = mk(6, false)
			} else if variant == 2 {
				b = mk(5, true)
			}
			a := mk(5, false)
			ven := func(name string, num int, as ...*dictionary.Attribute) *dictionary.Vendor {
				return &dictionary.Vendor{Name: name, Number: num, Attributes: as}
			}
			for _, d := range []*dictionary.Dictionary{
				{Attributes: []*dictionary.Attribute{a, b}},
				{Attributes: []*dictionary.Attribute{a}, Vendors: []*dictionary.Vendor{ven("Ven-A", 11, b)}},
				{Vendors: []*dictionary.Vendor{ven("Ven-A", 11, a), ven("Ven-B", 12, b)}},
				{Vendors: []*dictionary.Vendor{ven("Ven-A", 11, a, b)}},
			} {
				c17Emit(emit, d, dsGenOpts{pkg: "p"})
			}
		}
	}
	// 3c. external attributes with VALUEs (the Generator value is used for a second dictionary, see evalC17)
	for k := 1; k <= 3; k++ {
		o := dsGenOpts{pkg: "p", refs: map[string]string{}}
		d := &dictionary.Dictionary{Attributes: []*dictionary.Attribute{{Name: "Local-Int", OID: dictionary.OID{9}, Type: dictionary.AttributeInteger}},
			Values: []*dictionary.Value{{Attribute: "Local-Int", Name: "One", Number: 1}}}
		for i := 0; i < k; i++ {
			r := c17Refs[i%len(c17Refs)]
			o.refs[r[0]] = r[1]
			d.Values = append(d.Values, &dictionary.Value{Attribute: r[0], Name: "Zz-Ext" + strconv.Itoa(i), Number: uint64(1000 + i)})
		}
		c17Emit(emit, d, o)
		c17Emit(emit, &dictionary.Dictionary{Attributes: d.Attributes}, o) // same refs, no external VALUE
	}
	// 3e. an attribute that is declared HERE and also named by a -ref option: its VALUEs belong to the local
	//     declaration (type, helpers and constants are all generated here, nothing is emitted as an extension of
	//     the other package), top-level and inside a vendor
	for k := 0; k < len(c17Refs) && k < 3; k++ {
		r := c17Refs[k]
		o := dsGenOpts{pkg: "p", refs: map[string]string{r[0]: r[1]}}
		a := &dictionary.Attribute{Name: r[0], OID: dictionary.OID{6}, Type: dictionary.AttributeInteger}
		vals := []*dictionary.Value{{Attribute: r[0], Name: "Local-One", Number: 1}, {Attribute: r[0], Name: "Local-Two", Number: 2}}
		c17Emit(emit, &dictionary.Dictionary{Attributes: []*dictionary.Attribute{a}, Values: vals}, o)
		c17Emit(emit, &dictionary.Dictionary{Attributes: []*dictionary.Attribute{a}}, o)
		c17Emit(emit, &dictionary.Dictionary{Vendors: []*dictionary.Vendor{{Name: "Ven-R", Number: 77, Attributes: []*dictionary.Attribute{a}, Values: vals}}}, o)
	}
	// 3d. external attributes whose NAME normalises to an identifier that starts with a digit, is empty, or is
	//     spelled out: the text is refused by go/format exactly when a VALUE is declared for a name like "-1"
	for _, name := range []string{"-1", "_1", "--9x", "1", "3Com", "-", "+", "a b", "Ok-Name", "a-1", "_"} {
		for _, withValue := range []bool{false, true} {
			o := dsGenOpts{pkg: "p", refs: map[string]string{name: "example.com/q"}}
			d := &dictionary.Dictionary{Attributes: []*dictionary.Attribute{{Name: "Local-Text", OID: dictionary.OID{9}, Type: dictionary.AttributeString}}}
			if withValue {
				// (with a VALUE the accepted names would need a real package declaring their value type for
				// the text to compile; only the refused spellings are run with one)
				if name != "-1" && name != "_1" && name != "--9x" {
					continue
				}
				d.Values = []*dictionary.Value{{Attribute: name, Name: "x", Number: 1}}
			}
			c17Emit(emit, d, o)
		}
	}
	// 4. random dictionaries
	n := 12000
	if tier == "thorough" {
		n = 50000
	}
	for i := 0; i < n; i++ {
		d, o := g.c17Dict(i%10 == 9)
		c17Emit(emit, d, o)
	}
}
