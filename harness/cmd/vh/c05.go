package main

// C05 — the client returns only authentic replies.
//
// A case is a request (fixed Identifier and Authenticator, so the request datagram `wire` is a
// deterministic function of the case), a client configuration and a HISTORY of concrete datagrams.
// A scripted UDP peer on 127.0.0.1 receives the request from the real Client.Exchange and sends the
// history in order, in lock-step with the client's socket (next datagram only when the receive queue
// of the client's socket is empty again, read from /proc/net/udp), so that nothing is dropped or
// reordered and no timing assumption is needed.  If nothing ends the call, the harness cancels the
// context once every datagram has been consumed (outcome `ctx-done`).

import (
	"bytes"
	"context"
	"crypto/md5"
	"errors"
	"fmt"
	"net"
	"os"
	"strings"
	"time"

	"layeh.com/radius"
)

func init() {
	props["C05"] = &prop{gen: genC05, eval: evalC05, timeout: 30 * time.Second}
}

// ---- observing the client's socket ----

// udpQueue returns the receive-queue size and drop counter of the UDP socket bound to 127.0.0.1:port
// (ok=false when no such socket exists, i.e. it has been closed).
func udpQueue(port int) (rx int, drops int, ok bool, readable bool) {
	b, err := os.ReadFile("/proc/net/udp")
	if err != nil {
		return 0, 0, false, false
	}
	want := fmt.Sprintf("0100007F:%04X", port)
	for _, l := range strings.Split(string(b), "\n") {
		f := strings.Fields(l)
		if len(f) < 13 || f[1] != want {
			continue
		}
		var tx int
		fmt.Sscanf(f[4], "%x:%x", &tx, &rx)
		fmt.Sscanf(f[12], "%d", &drops)
		return rx, drops, true, true
	}
	return 0, 0, false, true
}

type c05res struct {
	p   *radius.Packet
	err error
}

func trunc4096(d []byte) []byte {
	if len(d) > radius.MaxPacketLength {
		return d[:radius.MaxPacketLength]
	}
	return d
}

func classifyC05(r c05res, secret []byte, hist [][]byte) string {
	if r.err == nil {
		if r.p == nil {
			return "nil-nil"
		}
		// "the packet returned is the parse of that datagram" - and stays so: for two cases in three the caller keeps
		// the packet while another exchange (other secret, a long reply) runs before it looks at it
		if (int(r.p.Identifier)+len(hist))%3 != 0 {
			priorExchangeC05(&radius.Client{})
		}
		fields := showPacketFields(r.p)
		idx := -1
		for i, d := range hist {
			q, err := radius.Parse(trunc4096(d), secret)
			if err == nil && showPacketFields(q) == fields {
				idx = i
				break
			}
		}
		return "returned " + itoa(idx) + " " + fields
	}
	var na *radius.NonAuthenticResponseError
	if errors.As(r.err, &na) {
		// (the error is a value the caller prints: its message is a non-empty constant)
		if msg := func() (m string) {
			defer func() {
				if recover() != nil {
					m = ""
				}
			}()
			return na.Error()
		}(); msg == "" || msg != r.err.Error() {
			return "failed nonauthentic-without-message"
		}
		return "failed nonauthentic"
	}
	if errors.Is(r.err, context.Canceled) || errors.Is(r.err, context.DeadlineExceeded) {
		return "ctx-done"
	}
	var ne net.Error
	if errors.As(r.err, &ne) {
		return "failed net-error"
	}
	// "that datagram's error": a parse error is the error Parse gives for one of the datagrams that were sent
	// (compared by text: they are errors.New values); anything else is not the error of a datagram
	for _, d := range hist {
		if _, perr := radius.Parse(trunc4096(d), secret); perr != nil && perr.Error() == r.err.Error() {
			return "failed parse"
		}
	}
	return "failed other-error"
}

// runC05 performs one exchange against the scripted peer.  slow=true adds conservative pacing.
func runC05(req *radius.Packet, maxErr int, skip bool, hist [][]byte, slow bool) (result string, dropped bool) {
	if _, err := req.Encode(); err != nil {
		// Exchange refuses before dialing
		_, err2 := (&radius.Client{}).Exchange(context.Background(), req, "127.0.0.1:9")
		if err2 != nil {
			return "encode-err", false
		}
		return "encode-accepted", false
	}
	peer, err := net.ListenUDP("udp4", &net.UDPAddr{IP: net.IPv4(127, 0, 0, 1)})
	if err != nil {
		return "HARNESS-listen:" + err.Error(), false
	}
	defer peer.Close()
	client := &radius.Client{Retry: 0, MaxPacketErrors: maxErr, InsecureSkipVerify: skip}
	if c05UseDefault {
		// the package-level function and its DefaultClient (Retry one second: no resend within these runs'
		// pacing would matter — the peer ignores repeated requests)
		client = nil
	}
	// history: for every second case the same Client value has completed another exchange before (with
	// another secret, identifier and a long reply); a Client carries configuration only
	if client != nil && (int(req.Identifier)+len(hist))%2 == 0 {
		priorExchangeC05(client)
	}
	// … and for every third case THIS request has been exchanged before, in this process, with a peer that sent
	// the datagram of the history that is authentic for it (if there is one): whatever the library remembers of a
	// verified reply must not make a later forgery with the same authenticator fields pass
	if (int(req.Identifier)+2*len(hist))%3 == 0 {
		if wire, err := req.Encode(); err == nil {
			for _, d := range hist {
				if len(d) >= 20 && len(d) <= 4096 && radius.IsAuthenticResponse(d, wire, req.Secret) {
					if _, perr := radius.Parse(d, req.Secret); perr == nil {
						primeExchangeC05(req, d)
					}
					break
				}
			}
		}
	}
	ctx, cancel := context.WithTimeout(context.Background(), 8*time.Second)
	defer cancel()
	done := make(chan c05res, 1)
	go func() {
		var p *radius.Packet
		var err error
		if client == nil {
			p, err = radius.Exchange(ctx, req, peer.LocalAddr().String())
		} else {
			p, err = client.Exchange(ctx, req, peer.LocalAddr().String())
		}
		done <- c05res{p, err}
	}()
	buf := make([]byte, 8192)
	peer.SetReadDeadline(time.Now().Add(3 * time.Second))
	_, caddr, err := peer.ReadFromUDP(buf)
	if err != nil {
		select {
		case r := <-done:
			return classifyC05(r, req.Secret, hist), false
		case <-time.After(3 * time.Second):
			return "HANG", false
		}
	}
	maxDrops := 0
	// wait until the client's socket has an empty receive queue (or is gone, or the call returned)
	quiet := func() (finished bool, r c05res) {
		deadline := time.Now().Add(2 * time.Second)
		for {
			select {
			case r := <-done:
				return true, r
			default:
			}
			rx, drops, ok, readable := udpQueue(caddr.Port)
			if drops > maxDrops {
				maxDrops = drops
			}
			if !readable {
				time.Sleep(2 * time.Millisecond) // no /proc: plain pacing
				return false, c05res{}
			}
			if !ok || rx == 0 || time.Now().After(deadline) {
				return false, c05res{}
			}
			time.Sleep(20 * time.Microsecond)
		}
	}
	for _, d := range hist {
		if fin, r := quiet(); fin {
			return classifyC05(r, req.Secret, hist), maxDrops > 0
		}
		peer.WriteToUDP(d, caddr)
		if slow {
			time.Sleep(3 * time.Millisecond)
		}
	}
	// everything sent: let the client consume it, then end the call through its context
	grace := time.Millisecond
	if slow {
		grace = 25 * time.Millisecond
	}
	for round := 0; round < 2; round++ {
		if fin, r := quiet(); fin {
			return classifyC05(r, req.Secret, hist), maxDrops > 0
		}
		select {
		case r := <-done:
			return classifyC05(r, req.Secret, hist), maxDrops > 0
		case <-time.After(grace):
		}
	}
	cancel()
	select {
	case r := <-done:
		return classifyC05(r, req.Secret, hist), maxDrops > 0
	case <-time.After(3 * time.Second):
		return "HANG", false
	}
}

func parseHistoryC05(s string) [][]byte {
	if s == "-" {
		return nil
	}
	var h [][]byte
	for _, e := range strings.Split(s, ",") {
		if e == "e" || e == "-" || e == "" {
			h = append(h, []byte{})
		} else {
			h = append(h, unhx(e))
		}
	}
	return h
}

func showHistoryC05(h [][]byte) string {
	if len(h) == 0 {
		return "-"
	}
	parts := make([]string, len(h))
	for i, d := range h {
		if len(d) == 0 {
			parts[i] = "e"
		} else {
			parts[i] = hx(d)
		}
	}
	return strings.Join(parts, ",")
}

var c05UseDefault bool

func evalC05(op string, args []string) string {
	if op != "exchange" || len(args) != 8 {
		return "UNKNOWN-OP"
	}
	req := mkPacket(args[0], args[1], args[2], args[3], args[4])
	useDefault := args[5] == "default" || strings.HasPrefix(args[5], "default:")
	maxErr := 10
	if !useDefault {
		maxErr = atoi(args[5])
	}
	skip := atoi(args[6]) != 0
	if useDefault {
		// the package-level function works with whatever the caller has put into radius.DefaultClient
		// (cases of this property run one after the other in a process)
		saved := *radius.DefaultClient
		defer func() { *radius.DefaultClient = saved }()
		// DefaultClient is read when Exchange is CALLED: an earlier package-level call made under other settings
		// (here: the opposite ones, with a context that is already over) leaves nothing behind for this one
		func() {
			defer func() { recover() }()
			radius.DefaultClient.InsecureSkipVerify = !skip
			radius.DefaultClient.MaxPacketErrors = 1
			radius.DefaultClient.Retry = 3 * time.Millisecond
			ctx, cancel := context.WithCancel(context.Background())
			cancel()
			radius.Exchange(ctx, req, "127.0.0.1:9")
			*radius.DefaultClient = saved
		}()
		if strings.HasPrefix(args[5], "default:") {
			maxErr = atoi(args[5][8:])
			radius.DefaultClient.MaxPacketErrors = maxErr
		}
		radius.DefaultClient.InsecureSkipVerify = skip
	}
	c05UseDefault = useDefault
	hist := parseHistoryC05(args[7])
	r, dropped := runC05(req, maxErr, skip, hist, false)
	// A datagram lost or delayed by the kernel can only make the call look undecided (or, if the kernel
	// counted a drop, anything): such runs are discarded and repeated with conservative pacing.
	if dropped || (r == "ctx-done" && len(hist) > 0) {
		r2, d2 := runC05(req, maxErr, skip, hist, true)
		if r2 != r || d2 {
			r2, _ = runC05(req, maxErr, skip, hist, true)
		}
		return r2
	}
	return r
}

// primeExchangeC05: one complete exchange of req with a peer that answers with d (result ignored)
func primeExchangeC05(req *radius.Packet, d []byte) {
	defer func() { recover() }()
	peer, err := net.ListenUDP("udp4", &net.UDPAddr{IP: net.IPv4(127, 0, 0, 1)})
	if err != nil {
		return
	}
	defer peer.Close()
	go func() {
		buf := make([]byte, 8192)
		peer.SetReadDeadline(time.Now().Add(time.Second))
		if _, addr, err := peer.ReadFromUDP(buf); err == nil {
			peer.WriteToUDP(d, addr)
		}
	}()
	ctx, cancel := context.WithTimeout(context.Background(), time.Second)
	defer cancel()
	(&radius.Client{}).Exchange(ctx, req, peer.LocalAddr().String())
}

// priorExchangeC05 lets the client complete one exchange with a well-behaved peer (result ignored).
func priorExchangeC05(client *radius.Client) {
	defer func() { recover() }()
	peer, err := net.ListenUDP("udp4", &net.UDPAddr{IP: net.IPv4(127, 0, 0, 1)})
	if err != nil {
		return
	}
	defer peer.Close()
	secret := []byte("prior-exchange-secret")
	go func() {
		buf := make([]byte, 4096)
		peer.SetReadDeadline(time.Now().Add(time.Second))
		n, addr, err := peer.ReadFromUDP(buf)
		if err != nil {
			return
		}
		if q, err := radius.Parse(buf[:n], secret); err == nil {
			r := q.Response(radius.CodeAccessAccept)
			for i := 0; i < 12; i++ {
				r.Add(18, radius.Attribute(bytes.Repeat([]byte{0xee}, 250)))
			}
			if w, err := r.Encode(); err == nil {
				// (two datagrams the client has to skip come first - one that does not parse, one that does not verify:
				// what a call skipped is that call's business and is not carried over to the next one)
				peer.WriteToUDP([]byte{2, buf[1], 0, 5, 0}, addr)
				bad := append([]byte{}, w...)
				bad[4] ^= 0x80
				peer.WriteToUDP(bad, addr)
				peer.WriteToUDP(w, addr)
			}
		}
	}()
	prior := radius.New(radius.CodeAccessRequest, secret)
	prior.Add(1, radius.Attribute("prior"))
	ctx, cancel := context.WithTimeout(context.Background(), time.Second)
	defer cancel()
	client.Exchange(ctx, prior, peer.LocalAddr().String())
}

// ---- generation ----

// signReply writes the response authenticator MD5(Code+ID+Length+RequestAuth+Attributes+Secret) into b.
func signReply(b, reqAuth, secret []byte) {
	h := md5.New()
	h.Write(b[:4])
	h.Write(reqAuth)
	h.Write(b[20:])
	h.Write(secret)
	copy(b[4:20], h.Sum(nil))
}

var replyCodesFor = map[int][]int{1: {2, 3, 11}, 4: {5}, 12: {2, 5}, 40: {41, 42}, 43: {44, 45}}

// replyDatagram builds what a correct server sends: Parse the request, Response(code), attributes, Encode.
func replyDatagram(reqWire, secret []byte, code int, attrs []avp) []byte {
	parsed, err := radius.Parse(reqWire, secret)
	if err != nil {
		panic(badCase("bad generated request"))
	}
	resp := parsed.Response(radius.Code(code))
	resp.Attributes = toAttributes(attrs)
	w, err := resp.Encode()
	if err != nil {
		panic(badCase("bad generated reply"))
	}
	// the Response Authenticator is computed here from RFC 2865 §3 / RFC 2866 §3, not taken from the
	// library's Encode: a self-consistent change of Encode and IsAuthenticResponse must not go unnoticed
	signReply(w, reqWire[4:20], secret)
	return w
}

func (g *Gen) marker(i int) avp {
	return avp{224, []byte{byte(i), byte(g.U64()), byte(g.U64()), byte(g.U64())}}
}

func (g *Gen) replyAttrs(i int) []avp {
	as := []avp{g.marker(i)}
	for k := g.Pick(0, 0, 1, 2); k > 0; k-- {
		as = append(as, avp{g.Pick(18, 25, 27, 79, 80, 255), g.Bytes(g.Pick(0, 1, 6, 16, 40))})
	}
	return as
}

// c05Datagram builds datagram number i of a history.
func (g *Gen) c05Datagram(kind int, i int, reqWire, secret []byte, reqCode int, prev [][]byte) []byte {
	codes := replyCodesFor[reqCode]
	code := codes[g.Intn(len(codes))]
	genuine := func() []byte { return replyDatagram(reqWire, secret, code, g.replyAttrs(i)) }
	reqAuth := reqWire[4:20]
	switch kind {
	case 0: // authentic reply
		return genuine()
	case 1: // one bit flipped
		w := genuine()
		pos := g.Intn(len(w))
		if g.Chance(1, 2) && len(w) > 20 {
			pos = 20 + g.Intn(len(w)-20)
		}
		w[pos] ^= 1 << uint(g.Intn(8))
		return w
	case 2: // built with another secret
		other := append(append([]byte{}, secret...), 'x')
		if g.Chance(1, 3) && len(secret) > 0 {
			other = secret[:len(secret)-1]
		}
		w := genuine()
		signReply(w, reqAuth, other)
		return w
	case 3: // reply to another request (different request authenticator)
		w := genuine()
		ra := append([]byte{}, reqAuth...)
		ra[g.Intn(16)] ^= byte(1 + g.Intn(255))
		signReply(w, ra, secret)
		return w
	case 4: // truncated
		w := genuine()
		return w[:g.Intn(len(w))]
	case 5: // trailing bytes after Length: parses, does not verify
		w := genuine()
		return append(w, g.Bytes(g.Pick(1, 1, 2, 8, 40))...)
	case 6: // malformed attribute region, correctly signed
		w := genuine()
		switch g.Intn(3) {
		case 0:
			w[21] = byte(g.Intn(2)) // attribute length 0 or 1
		case 1:
			w[21] = byte(len(w) - 20 + 1 + g.Intn(5)) // overruns
		default:
			w = append(w, byte(g.U64())) // one dangling byte inside Length
			w[2], w[3] = byte(len(w)>>8), byte(len(w))
		}
		signReply(w, reqAuth, secret)
		return w
	case 7: // random bytes
		return g.RandBytes(g.Pick(0, 1, 4, 19, 20, 21, 33, 60))
	case 8: // larger than the client's 4096-byte read buffer
		switch g.Intn(4) {
		case 0:
			return g.RandBytes(g.Range(4097, 5000))
		case 1: // small authentic reply followed by padding beyond 4096
			w := genuine()
			return append(w, g.Bytes(g.Range(4097, 4600)-len(w))...)
		case 2: // Length field beyond the buffer
			w := make([]byte, g.Range(4097, 4300))
			copy(w, genuine()[:20])
			w[2], w[3] = byte(len(w)>>8), byte(len(w))
			signReply(w, reqAuth, secret)
			return w
		default: // an authentic 4096-byte reply followed by bytes the read buffer cuts off
			return g.c05Datagram(13, i, reqWire, secret, reqCode, prev)
		}
	case 9: // replay of an earlier datagram
		if len(prev) > 0 {
			return append([]byte{}, prev[g.Intn(len(prev))]...)
		}
		return g.RandBytes(24)
	case 10: // unknown reply code, correctly signed: carries a valid response authenticator
		w := genuine()
		w[0] = byte(g.Pick(0, 6, 13, 99, 255))
		signReply(w, reqAuth, secret)
		return w
	case 13: // an authentic reply of exactly 4096 octets (the largest legal one), sometimes followed by excess bytes
		{
			as := []avp{g.marker(i)}
			total := 20 + 6
			for total < 4096 {
				l := 253
				if 4096-total < 2+l {
					l = 4096 - total - 2
				}
				if l < 0 { // one byte short of a whole attribute: shrink the previous one
					as[len(as)-1].val = as[len(as)-1].val[:len(as[len(as)-1].val)-1]
					total--
					continue
				}
				as = append(as, avp{79, g.RandBytes(l)})
				total += 2 + l
			}
			w := replyDatagram(reqWire, secret, code, as)
			return append(w, g.RandBytes(g.Pick(0, 0, 0, 1, 7, 300))...)
		}
	case 14: // a maximal (4096-octet) reply signed WITHOUT the secret, or with a prefix of it
		{
			w := g.c05Datagram(13, i, reqWire, secret, reqCode, prev)
			if len(w) > 4096 {
				w = w[:4096]
			}
			cut := 0
			if len(secret) > 1 && g.Bool() {
				cut = len(secret) - 1
			}
			signReply(w, reqAuth, secret[:cut])
			return w
		}
	case 12: // authentic reply with exactly ONE octet of its authenticator altered (each position in turn)
		w := genuine()
		w[4+(i+g.Intn(2)*g.Intn(16))%16] ^= byte(1 << uint(g.Intn(8)))
		return w
	case 15: // a well-formed reply carrying ANOTHER Identifier: left as signed (not authentic any more), or signed again
		w := genuine()
		w[1] ^= byte(1 + g.Intn(255))
		if g.Chance(1, 3) {
			signReply(w, reqAuth, secret)
		}
		return w
	default: // the request echoed back
		return append([]byte{}, reqWire...)
	}
}

func genC05(g *Gen, tier string, emit func(op string, args ...string)) {
	n := 320
	if tier == "thorough" {
		n = 1700
	}
	budgets := []int{0, 1, 2, 3, 5, -1}
	reqCodes := []int{1, 4, 12, 40, 43}
	for c := 0; c < n; c++ {
		reqCode := reqCodes[c%len(reqCodes)]
		var secret []byte
		switch g.Intn(12) {
		case 0:
			secret = nil
		case 1:
			secret = []byte("s")
		case 2:
			secret = g.RandBytes(g.Pick(129, 200, 253))
		default:
			secret = g.RandBytes(g.Range(2, 24))
		}
		var reqAttrs []avp
		for k := g.Pick(0, 1, 2, 3); k > 0; k-- {
			reqAttrs = append(reqAttrs, avp{g.Pick(1, 2, 4, 32, 80), g.Bytes(g.Pick(0, 2, 6, 16))})
		}
		req := &radius.Packet{Code: radius.Code(reqCode), Identifier: byte(g.U64()), Secret: secret}
		auth := g.RandBytes(16)
		copy(req.Authenticator[:], auth)
		req.Attributes = toAttributes(reqAttrs)
		wire, err := req.Encode()
		if err != nil {
			continue
		}
		maxErr := budgets[(c/len(reqCodes))%len(budgets)]
		skip := g.Chance(1, 3)
		L := g.Range(0, 12)
		if g.Chance(1, 6) {
			L = g.Pick(0, 1, 12)
		}
		genuineAt := -1
		if L > 0 && !g.Chance(1, 4) {
			genuineAt = g.Intn(L)
		}
		// budgets beyond a handful, at their thresholds: budget-1 / budget / budget+1 bad datagrams, then
		// the genuine reply (a counter narrower than int, a clamp)
		if c%16 == 5 {
			maxErr = g.Pick(10, 11, 16, 40, 255, 256, 257)
			skip = false
			L = maxErr + g.Pick(-1, 0, 1) + 1
			genuineAt = L - 1
		}
		// "never on their account when the budget is zero": long runs of bad datagrams (beyond any plausible
		// built-in default), the genuine reply last
		if c%8 == 7 {
			maxErr = g.Pick(0, 0, -1)
			skip = false
			L = g.Pick(11, 12, 17, 33, 40)
			genuineAt = L - 1
		}
		// every KIND of bad datagram counts: exactly `budget` bad datagrams and then the genuine reply, one of the
		// bad ones (each position in turn) of a kind chosen in rotation - among them the datagram of no octets at
		// all, of one octet, of nineteen
		special, specialAt := -1, -1
		if c%16 == 3 {
			maxErr = g.Pick(1, 1, 2, 3, 5)
			skip = false
			L = maxErr + 1
			genuineAt = L - 1
			special = (c / 16) % 6
			specialAt = (c / 96) % maxErr
		}
		var hist [][]byte
		for i := 0; i < L; i++ {
			var d []byte
			switch {
			case i == specialAt:
				switch special {
				case 0:
					d = []byte{}
				case 1:
					d = g.RandBytes(1)
				case 2:
					d = g.c05Datagram(0, i, wire, secret, reqCode, hist)[:19]
				case 3:
					d = g.c05Datagram(4, i, wire, secret, reqCode, hist)
				case 4:
					d = g.c05Datagram(8, i, wire, secret, reqCode, hist)
				default:
					d = g.c05Datagram(6, i, wire, secret, reqCode, hist)
				}
			case i == genuineAt && g.Chance(1, 12): // the genuine reply is the largest legal one (4096 octets)
				d = g.c05Datagram(13, i, wire, secret, reqCode, hist)
			case i == genuineAt:
				d = g.c05Datagram(0, i, wire, secret, reqCode, hist)
			case g.Chance(1, 30): // a second authentic reply somewhere
				d = g.c05Datagram(0, i, wire, secret, reqCode, hist)
			case skip && g.Chance(1, 2): // with verification off most forgeries would end the call at once
				d = g.c05Datagram(g.Pick(4, 6, 7, 7, 8, 9, 15), i, wire, secret, reqCode, hist)
			default:
				d = g.c05Datagram(1+g.Intn(15), i, wire, secret, reqCode, hist)
			}
			hist = append(hist, d)
		}
		// a tampered copy of the genuine reply right before it: the Code octet or an attribute octet changed, the
		// authenticator fields untouched (what an attacker who has SEEN the reply of an earlier, identical request
		// can send; see the priming exchange in runC05)
		if genuineAt >= 1 && special < 0 && c%4 == 1 && len(hist[genuineAt]) <= 4096 {
			t := append([]byte{}, hist[genuineAt]...)
			if len(t) > 22 && g.Bool() {
				t[22+g.Intn(len(t)-22)] ^= byte(1 + g.Intn(255))
			} else {
				t[0] ^= byte(g.Pick(1, 2, 1, 7))
			}
			hist[genuineAt-1] = t
		}
		budget := itoa(maxErr)
		if c%16 == 11 {
			// through the package-level radius.Exchange: DefaultClient's budget (10) applies
			budget = "default"
			switch (c / 16) % 4 {
			case 0:
				skip = false
			case 1:
				budget = "default:" + itoa(maxErr)
			case 2:
				skip = true
			}
		}
		emit("exchange", itoa(reqCode), itoa(int(req.Identifier)), hx(auth), hx(secret), showAVPs(reqAttrs),
			budget, map[bool]string{false: "0", true: "1"}[skip], showHistoryC05(hist))
	}
}
