package main

import (
	"fmt"
	"os"
	"path/filepath"
	"sort"
	"strings"

	"layeh.com/radius/dictionary"
)

// C18 facts: for every checked-in helper package, the dictionary it was generated from (parsed with the
// tree's parser), the go:generate options, and the inventory of the checked-in generated.go, written
// as Lean terms (RV/Facts/GeneratedC18.lean).  RV/Facts/TieC18.lean closes in the kernel that the MODEL
// generator, run on that dictionary with those options, produces exactly that inventory.

var leanTypeNames = []string{"", "string", "octets", "ipaddr", "date", "integer", "ipv6addr", "ipv6prefix", "ifid", "integer64",
	"vsa", "ether", "abinary", "byte", "short", "signed", "tlv", "ipv4prefix"}

// a byte string as `(B 0x<hex> <len>)`: one numeral instead of a list of them (RV.Facts.ExpectedC18.B
// unpacks it; the kernel's arbitrary-precision arithmetic makes that cheap)
func leanBytes(s string) string {
	if len(s) == 0 {
		return "(B 0 0)"
	}
	return "(B 0x" + hx([]byte(s)) + " " + itoa(len(s)) + ")"
}

func leanInt(n int) string {
	if n < 0 {
		return "(" + itoa(n) + ")"
	}
	return itoa(n)
}

func leanOptInt(f dictionary.IntFlag) string {
	if !f.Valid {
		return "none"
	}
	return "some " + leanInt(f.Int)
}

func leanOptIntPtr(p *int) string {
	if p == nil {
		return "none"
	}
	return "some " + leanInt(*p)
}

func leanOptBool(f dictionary.BoolFlag) string {
	if !f.Valid {
		return "none"
	}
	if f.Bool {
		return "some true"
	}
	return "some false"
}

func leanAttr(a *dictionary.Attribute) string {
	oid := make([]string, len(a.OID))
	for i, c := range a.OID {
		oid[i] = leanInt(c)
	}
	t := int(a.Type)
	if t < 1 || t > 17 {
		t = 0
	}
	return fmt.Sprintf("{ name := %s, oid := [%s], typ := .%s, size := %s, encrypt := %s, hasTag := %s, isConcat := %s }",
		leanBytes(a.Name), strings.Join(oid, ", "), leanTypeNames[t], leanOptInt(a.Size), leanOptInt(a.FlagEncrypt), leanOptBool(a.FlagHasTag), leanOptBool(a.FlagConcat))
}

func leanValue(v *dictionary.Value) string {
	return fmt.Sprintf("{ attrName := %s, name := %s, number := %d }", leanBytes(v.Attribute), leanBytes(v.Name), v.Number)
}

func leanList(items []string, indent string) string {
	if len(items) == 0 {
		return "[]"
	}
	return "[\n" + indent + strings.Join(items, ",\n"+indent) + "]"
}

func leanDict(d *dictionary.Dictionary) string {
	var as, vs, vn []string
	for _, a := range d.Attributes {
		as = append(as, leanAttr(a))
	}
	for _, v := range d.Values {
		vs = append(vs, leanValue(v))
	}
	for _, v := range d.Vendors {
		var vas, vvs []string
		for _, a := range v.Attributes {
			vas = append(vas, leanAttr(a))
		}
		for _, x := range v.Values {
			vvs = append(vvs, leanValue(x))
		}
		vn = append(vn, fmt.Sprintf("{ name := %s, number := %s, typeOctets := %s, lengthOctets := %s,\n          attributes := %s,\n          values := %s }",
			leanBytes(v.Name), leanInt(v.Number), leanOptIntPtr(v.TypeOctets), leanOptIntPtr(v.LengthOctets), leanList(vas, "            "), leanList(vvs, "            ")))
	}
	return fmt.Sprintf("{ attributes := %s,\n    values := %s,\n    vendors := %s }", leanList(as, "      "), leanList(vs, "      "), leanList(vn, "      "))
}

func leanStrings(ss []string) string {
	parts := make([]string, len(ss))
	for i, s := range ss {
		parts[i] = leanBytes(s)
	}
	return leanList(parts, "    ")
}

// c18HelperPackages lists the artefacts that are helper packages (everything but the debug package's
// built-in dictionary), in the order in which they are numbered in the Lean files.
func c18HelperPackages(root string) (rels []string, fieldsOf [][]string) {
	for _, rel := range c18Artefacts(root) {
		fields, ok := c18GenerateLine(filepath.Join(root, filepath.FromSlash(rel), "generate.go"))
		if !ok {
			continue
		}
		isDebug := false
		for _, f := range fields {
			if strings.HasSuffix(f, "generate_main.go") {
				isDebug = true
			}
		}
		if !isDebug {
			rels, fieldsOf = append(rels, rel), append(fieldsOf, fields)
		}
	}
	return
}

func init() {
	// the failing input of a C18 tie row is the package itself
	factProbes = append(factProbes, func(f *factSet) {
		rels, _ := c18HelperPackages(dsRepoRoot())
		for k, rel := range rels {
			f.addCase("c18pkg", k, "C18", "regen", rel)
		}
	})
}

// writeC18Facts writes one facts module (F<k>.lean) and one tie module (T<k>.lean) per package into dir
// (RV/Facts/C18), plus AllFacts.lean / AllTies.lean.  Stale files are removed first.  Packages whose
// go:generate line, dictionary or generated file cannot be read get an empty inventory (their tie fails).
func writeC18Facts(dir string) error {
	root := dsRepoRoot()
	if err := os.MkdirAll(dir, 0o755); err != nil {
		return err
	}
	written := map[string]bool{}
	defer func() {
		// stale modules of packages that no longer exist
		old, _ := filepath.Glob(filepath.Join(dir, "*.lean"))
		for _, f := range old {
			if !written[f] {
				os.Remove(f)
			}
		}
	}()
	writeFile := func(path string, content []byte) error {
		written[path] = true
		if cur, err := os.ReadFile(path); err == nil && string(cur) == string(content) {
			return nil // unchanged: keep the file (and lake's cache) as it is
		}
		return os.WriteFile(path, content, 0o644)
	}
	const head = "/- REGENERATED on every run by `vh probe` from /repo's working tree.  Do not edit. -/\n"
	var names []string
	rels, fieldsOf := c18HelperPackages(root)
	for k, rel := range rels {
		pdir := filepath.Join(root, filepath.FromSlash(rel))
		fields := fieldsOf[k]
		dict, opts, imports, decls := &dictionary.Dictionary{}, dsGenOpts{refs: map[string]string{}}, []string(nil), []string(nil)
		func() {
			defer func() { recover() }()
			o, output, dictFile, err := c18DictGenInvocation(fields)
			if err != nil {
				return
			}
			p := dictionary.Parser{Opener: &dictionary.FileSystemOpener{Root: pdir}, IgnoreIdenticalAttributes: true}
			d, err := p.ParseFile(dictFile)
			if err != nil {
				return
			}
			shipped, err := os.ReadFile(filepath.Join(pdir, output))
			if err != nil {
				return
			}
			ds, is, err := dsInventory(shipped)
			if err != nil {
				return
			}
			dict, opts, imports, decls = d, o, is, ds
		}()
		keys := make([]string, 0, len(opts.refs))
		for n := range opts.refs {
			keys = append(keys, n)
		}
		sort.Strings(keys)
		var refs []string
		for _, n := range keys {
			refs = append(refs, "("+leanBytes(n)+", "+leanBytes(opts.refs[n])+")")
		}
		var ign []string
		for _, n := range opts.ignore {
			ign = append(ign, leanBytes(n))
		}
		var b strings.Builder
		b.WriteString(head)
		fmt.Fprintf(&b, "import RV.Facts.ExpectedC18\nset_option maxRecDepth 100000\nset_option maxHeartbeats 4000000\nnamespace RV.Facts.C18.F%d\nopen RV RV.Dict RV.Gen RV.Facts.ExpectedC18\n\n", k)
		fmt.Fprintf(&b, "/-- %s -/\ndef name : Bytes := %s\ndef d : Dictionary :=\n  %s\ndef o : Options := { ignore := %s, refs := %s }\ndef imports : List Bytes := %s\ndef decls : List Bytes := %s\n\nend RV.Facts.C18.F%d\n",
			rel, leanBytes(rel), leanDict(dict), leanList(ign, "    "), leanList(refs, "    "), leanStrings(imports), leanStrings(decls), k)
		if err := writeFile(filepath.Join(dir, fmt.Sprintf("F%d.lean", k)), []byte(b.String())); err != nil {
			return err
		}
		t := head + fmt.Sprintf("import RV.Facts.C18.F%d\nset_option maxRecDepth 100000\nnamespace RV.Facts.C18.T%d\nopen RV.Facts\n\n/-- %s: the model generator, run on the package's dictionary with the options of its go:generate line,\n    produces exactly the imports and the declarations (kind, name, signature, order) of the checked-in generated.go -/\ntheorem tie : ExpectedC18.agrees C18.F%d.d C18.F%d.o C18.F%d.imports C18.F%d.decls = true := by decide +kernel\n\nend RV.Facts.C18.T%d\n", k, k, rel, k, k, k, k, k)
		if err := writeFile(filepath.Join(dir, fmt.Sprintf("T%d.lean", k)), []byte(t)); err != nil {
			return err
		}
		names = append(names, rel)
	}
	var af, at strings.Builder
	af.WriteString(head)
	at.WriteString(head)
	var entries []string
	for i := range names {
		fmt.Fprintf(&af, "import RV.Facts.C18.F%d\n", i)
		fmt.Fprintf(&at, "import RV.Facts.C18.T%d\n", i)
		entries = append(entries, fmt.Sprintf("(F%d.name, F%d.d, F%d.o, F%d.imports, F%d.decls)", i, i, i, i, i))
	}
	// the directories that hold a go:generate artefact, each with its non-test Go files: pinned in
	// RV.Facts.ExpectedC18.packageFiles (a package added, removed or renamed, a hand-written file put next to a
	// generated one, all change this fact)
	var dirFiles []string
	for _, rel := range c18Artefacts(root) {
		dirFiles = append(dirFiles, "("+leanBytes(rel)+", "+leanStrings(c18GoFiles(filepath.Join(root, filepath.FromSlash(rel))))+")")
	}
	fmt.Fprintf(&af, "namespace RV.Facts.C18\nopen RV RV.Dict RV.Gen RV.Facts.ExpectedC18\n\ndef packageFiles : List (Bytes × List Bytes) := %s\n\nend RV.Facts.C18\n", leanList(dirFiles, "  "))
	fmt.Fprintf(&af, "namespace RV.Facts.C18\nopen RV RV.Dict RV.Gen\n\ndef all : List (Bytes × Dictionary × Options × List Bytes × List Bytes) := %s\n\n/-- the list is not vacuous: the repository ships 32 helper packages -/\ntheorem packages_present : 32 ≤ all.length := by decide\n\nend RV.Facts.C18\n", leanList(entries, "  "))
	at.WriteString("import RV.Facts.C18.AllFacts\n")
	if err := writeFile(filepath.Join(dir, "AllFacts.lean"), []byte(af.String())); err != nil {
		return err
	}
	if err := writeFile(filepath.Join(dir, "AllTies.lean"), []byte(at.String())); err != nil {
		return err
	}
	// the property-level tie module: one named theorem per package (restating the generated one)
	var tt strings.Builder
	tt.WriteString(head)
	tt.WriteString("/-\n  Ties — the part that belongs to C18: for every checked-in helper package the MODEL generator\n  (`Gen.generate Cfg.current`), run on the package's dictionary (as parsed by the tree's parser) with the\n  options of its go:generate line, produces exactly the inventory of the checked-in `generated.go`: the same\n  imports, and the same declarations — kind, name, parameter and result types — in the same order.\n  Function BODIES are compared by the correspondence run (syntax trees of the regenerated file).\n-/\nimport RV.Facts.C18.AllTies\nnamespace RV.Facts.C18\nopen RV.Facts\n\n")
	for i, rel := range names {
		id := strings.Map(func(r rune) rune {
			if r >= 'a' && r <= 'z' || r >= 'A' && r <= 'Z' || r >= '0' && r <= '9' {
				return r
			}
			return '_'
		}, rel)
		fmt.Fprintf(&tt, "theorem tie_%s : ExpectedC18.agrees F%d.d F%d.o F%d.imports F%d.decls = true := T%d.tie\n", id, i, i, i, i, i)
	}
	tt.WriteString("theorem tie_packages_present : 32 ≤ all.length := packages_present\n")
	tt.WriteString("/-- the generated artefacts are exactly the pinned packages, and no other non-test Go file lies next to them -/\ntheorem tie_packageFiles : packageFiles = ExpectedC18.packageFiles := by decide +kernel\n/-- the per-package ties above range over exactly the pinned helper packages, in order -/\ntheorem tie_packageNames : all.map (·.1) = ExpectedC18.helperPackages := by decide +kernel\n\nend RV.Facts.C18\n")
	tp := filepath.Join(filepath.Dir(dir), "TieC18.lean")
	if cur, err := os.ReadFile(tp); err == nil && string(cur) == tt.String() {
		return nil
	}
	return os.WriteFile(tp, []byte(tt.String()), 0o644)
}

// c18GoFiles lists the non-test Go files of a directory, sorted
func c18GoFiles(dir string) []string {
	ents, err := os.ReadDir(dir)
	if err != nil {
		return nil
	}
	var out []string
	for _, e := range ents {
		if !e.IsDir() && strings.HasSuffix(e.Name(), ".go") && !strings.HasSuffix(e.Name(), "_test.go") {
			out = append(out, e.Name())
		}
	}
	sort.Strings(out)
	return out
}
